#!/bin/sh
# Offline build of the Lean library and the native model driver.
set -e
cd "$(dirname "$0")/lean"
lake build UH uhdrv 2>&1 | tail -n 20
