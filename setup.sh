#!/bin/sh
# Offline build of the Lean library (all property theorems) and the native model driver.
set -e
cd "$(dirname "$0")"
/venv/bin/python harness/extract/gen_norm.py >/dev/null
/venv/bin/python harness/extract/gen_tables.py >/dev/null
cd lean
lake build UH uhdrv 2>&1 | tail -n 15
test -x .lake/build/bin/uhdrv
