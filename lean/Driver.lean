/-
Line-protocol driver for the executable model (tie B).  One request per line,
one response line per request.  Strings travel as hex of their UTF-8 bytes.

  norm <cp>                          → symbol codes of `normChar`
  tok <text>                         → tokens with spans
  parse <text>                       → span-annotated trees | err kind span
  num.parse <digits>                 → integer         (digits 0-7, little endian)
  num.encode <int>                   → digits
  main <fio> <fuel> <stdin> <fs> <text> [events]
  cli <fuel> <stdin> <fs> <text> <arg>*
-/
import UH.Model.Main
import UH.Model.MainBig
import UH.Model.ByNameEval
open UH

def hexVal (c : Char) : Nat :=
  if '0' ≤ c ∧ c ≤ '9' then c.toNat - 48 else if 'a' ≤ c ∧ c ≤ 'f' then c.toNat - 87
  else if 'A' ≤ c ∧ c ≤ 'F' then c.toNat - 55 else 0

def unhexBytes (s : String) : List UInt8 :=
  let rec go : List Char → List UInt8
    | a :: b :: r => UInt8.ofNat (hexVal a * 16 + hexVal b) :: go r
    | _ => []
  go s.toList

def unhex (s : String) : String :=
  if s == "-" then "" else
  match String.fromUTF8? ⟨(unhexBytes s).toArray⟩ with
  | some t => t
  | none => ""

def hexOfBytes (b : List UInt8) : String :=
  String.join (b.map (fun c => hex2 c.toNat))

def hexStr (s : String) : String :=
  if s.isEmpty then "-" else hexOfBytes s.toUTF8.toList

def cps (s : String) : List Nat := s.toList.map Char.toNat

def spanStr (sp : Span) : String := s!"{sp.line}:{sp.startCol}:{sp.endCol}"

partial def astStr : AST → String
  | .lit n sp => s!"L({n}@{spanStr sp})"
  | .funRef r sp => s!"R({r}@{spanStr sp})"
  | .argRef a r sp => s!"A({astStr a},{r}@{spanStr sp})"
  | .funDef b sp => s!"D({astStr b}@{spanStr sp})"
  | .call f args sp => s!"C({astStr f};{",".intercalate (args.map astStr)}@{spanStr sp})"
  | .bomb => "BOMB"

def kindStr : PErrKind → String
  | .negArity => "negArity" | .noFun => "noFun" | .fewArgs => "fewArgs" | .noBody => "noBody"
  | .noArg => "noArg" | .noRef => "noRef" | .refNotLit => "refNotLit" | .malformed => "malformed"

/-- `fs` spec: `-` or `;`-separated entries `f:<path>:<content>` / `d:<path>` -/
def parseFs (spec : String) : List (String × List UInt8) × List String :=
  if spec == "-" then ([], []) else
  (spec.splitOn ";").foldl (fun (fs, ds) ent =>
    match ent.splitOn ":" with
    | ["f", p, c] => (fs ++ [(World.normPath (unhex p), if c == "-" then [] else unhexBytes c)], ds)
    | ["d", p] => (fs, ds ++ [World.normPath (unhex p)])
    | _ => (fs, ds)) ([], [])

def mkWorld (stdin fs : String) : World :=
  let (files, dirs) := parseFs fs
  { stdin := (unhex stdin).toList, stdout := [], files := files, dirs := dirs, handles := #[], registry := [] }

def fsStr (w : World) : String :=
  if w.files.isEmpty then "-" else
  ";".intercalate (w.files.map (fun (p, c) => s!"f:{hexStr p}:{if c.isEmpty then "-" else hexOfBytes c}"))

def worldStr (w : World) : String :=
  s!"out={hexStr (String.ofList w.stdout.reverse)} in={hexStr (String.ofList w.stdin)} fs={fsStr w}"

def errStr (e : ErrV) (formatted : String) : String :=
  s!"err {hexStr formatted} spans={";".intercalate (e.metas.map spanStr)}"

def eventStr (store : Store) : Event → String
  | .before d t => s!"B{d}@{spanStr (store.getCell t).expr.span}"
  | .after d t failed => s!"A{d}@{spanStr (store.getCell t).expr.span}{if failed then "!" else ""}"

def handle (line : String) : String :=
  match (line.trimAscii.toString.splitOn " ") with
  | ["norm", c] => " ".intercalate ((normChar c.toNat!).map (fun s => toString s.code))
  | ["tok", text] =>
    let toks := tokenize normChar (cps (unhex text))
    ";".intercalate (toks.map (fun t => s!"{"".intercalate (t.syms.map (fun s => toString s.code ++ "."))}@{spanStr t.span}"))
  | ["parse", text] =>
    match parse normChar (cps (unhex text)) with
    | .ok ts => "ok " ++ " ".intercalate (ts.map astStr)
    | .error e => s!"err {kindStr e.kind} {spanStr e.span}"
  | ["num.parse", ds] =>
    let digits : List Digit := ds.toList.filterMap (fun c => if h : c.toNat - 48 < 8 then some ⟨c.toNat - 48, h⟩ else none)
    toString (parseNumber digits)
  | ["num.encode", n] =>
    match n.toInt? with
    | some k => String.ofList ((encodeNumber k).map (fun d => Char.ofNat (48 + d.val)))
    | none => "bad"
  | "main" :: fio :: fuel :: stdin :: fs :: text :: opts =>
    let r := runMain fuel.toNat! (mkWorld stdin fs) (cps (unhex text)) (fio == "1")
    let base := match r.outcome with
      | .ok rs => s!"ok {rs.length} {" ".intercalate (rs.map hexStr)}"
      | .err e f => errStr e f
      | .limit => "limit"
      | .fuel => "fuel"
      | .bottom => "bottom"
      | .unmodelled why => s!"unmodelled {hexStr why}"
    let ev := if opts.contains "events" then
        s!" events={",".intercalate (r.events.map (eventStr r.store))} starts={r.starts.length} cells={r.store.cells.size}"
      else ""
    s!"{base} {worldStr r.world}{ev}"
  | "main2" :: fio :: fuel :: stdin :: fs :: text :: _ =>
    let (o, w, h) := runMainBig fuel.toNat! (mkWorld stdin fs) (cps (unhex text)) (fio == "1")
    let base := match o with
      | .ok rs => s!"ok {rs.length} {" ".intercalate (rs.map hexStr)}"
      | .err e f => errStr e f
      | .limit => "limit"
      | .fuel => "fuel"
      | .bottom => "bottom"
      | .unmodelled why => s!"unmodelled {hexStr why}"
    s!"{base} {worldStr w} height={h}"
  | ["bn", fuel, text] =>
    -- the call-by-name reference semantics on trees (UH/Model/ByNameEval.lean); `none` = outside the fragment / out of fuel
    match parse normChar (cps (unhex text)) with
    | .ok [e] =>
      match ByName.bnEval fuel.toNat! (.mk [] []) e with
      | some (.int n) => s!"int {n}"
      | some (.bool b) => if b then "bool True" else "bool False"
      | some (.clo _ _) => "fn"
      | some (.list elems) =>
        -- printing a list demands every element (integers / Booleans only; anything else is outside the fragment)
        let shown := elems.map (fun (e', ρ') => match ByName.bnEval fuel.toNat! ρ' e' with
          | some (.int n) => some (toString n)
          | some (.bool b) => some (if b then "True" else "False")
          | _ => none)
        if shown.all Option.isSome then s!"list [{", ".intercalate (shown.filterMap id)}]" else "none"
      | none => "none"
    | _ => "none"
  | "cli" :: fuel :: stdin :: fs :: text :: args =>
    let (o, w) := runCli fuel.toNat! (mkWorld stdin fs) (cps (unhex text)) (args.map unhex)
    let base := match o with
      | .exit c => s!"exit {c}"
      | .err e f => errStr e f
      | .limit => "limit" | .fuel => "fuel" | .bottom => "bottom"
      | .unmodelled why => s!"unmodelled {hexStr why}"
    s!"{base} {worldStr w}"
  | _ => "bad-request"

partial def loop (h : IO.FS.Stream) (out : IO.FS.Stream) : IO Unit := do
  let line ← h.getLine
  if line.isEmpty then return ()
  out.putStrLn (handle line)
  out.flush
  loop h out

def main : IO Unit := do
  loop (← IO.getStdin) (← IO.getStdout)
