import UH.Model.Main
import UH.Properties.Tables
import UH.Properties.C01
import UH.Properties.C02
import UH.Properties.C08
import UH.Properties.C09
