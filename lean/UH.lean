import UH.Model.Text
import UH.Model.Number
import UH.Model.Parse
import UH.Model.Norm
import UH.Properties.C01
import UH.Properties.C08
import UH.Properties.C09
