/-
Specification of text normalisation (docs/spec.md:3-27), independent of the
implementation's tables: a Hangul consonant letter contributes the plain
consonants of the components of its Unicode name; a syllable contributes those of
its initial; every other Hangul code point is deleted; everything else separates
words.
-/
import UH.Model.Text
import UH.Spec.HangulLetters
namespace UH.Spec
open UH

/-- "거센소리와 된소리는 예사소리와 같게 취급하며, 겹자음은 자음 여러 개로 분리":
tense (SSANG-), aspirated (KH/TH/PH/CH) and archaic variants (PANSIOS, YESIEUNG,
YEORINHIEUH, KAPYEOUN…, CHITUEUM… and CEONGCHIEUM…) are their plain consonant;
every ㅇ and ㅎ starts a new word. -/
def plain : Jamo → List Sym
  | .KIYEOK | .SSANGKIYEOK | .KHIEUKH => [.d 0]
  | .NIEUN | .SSANGNIEUN => [.d 1]
  | .TIKEUT | .SSANGTIKEUT | .THIEUTH | .SSANGTHIEUTH => [.d 2]
  | .RIEUL | .SSANGRIEUL | .KAPYEOUNRIEUL => [.d 3]
  | .MIEUM | .KAPYEOUNMIEUM => [.d 4]
  | .PIEUP | .SSANGPIEUP | .PHIEUPH | .KAPYEOUNPIEUP | .KAPYEOUNSSANGPIEUP | .KAPYEOUNPHIEUPH => [.d 5]
  | .SIOS | .SSANGSIOS | .PANSIOS | .CHITUEUMSIOS | .CHITUEUMSSANGSIOS | .CEONGCHIEUMSIOS
  | .CEONGCHIEUMSSANGSIOS => [.d 6]
  | .IEUNG | .SSANGIEUNG | .YESIEUNG => [.sp, .o]
  | .CIEUC | .SSANGCIEUC | .CHIEUCH | .CHITUEUMCIEUC | .CHITUEUMSSANGCIEUC | .CEONGCHIEUMCIEUC
  | .CEONGCHIEUMSSANGCIEUC | .CHITUEUMCHIEUCH | .CEONGCHIEUMCHIEUCH => [.d 7]
  | .HIEUH | .SSANGHIEUH | .YEORINHIEUH | .SSANGYEORINHIEUH => [.sp, .h]

/-- "한글" of docs/spec.md:6-12 (assigned code points; U+D7A4–D7AF are unassigned) -/
def hangulRanges : List (Nat × Nat) :=
  [(0x1100, 0x11FF), (0x302E, 0x302F), (0x3131, 0x318E), (0xA960, 0xA97C), (0xAC00, 0xD7A3),
   (0xD7B0, 0xD7C6), (0xD7CB, 0xD7FB), (0xFFA1, 0xFFBE), (0xFFC2, 0xFFC7), (0xFFCA, 0xFFCF),
   (0xFFD2, 0xFFD7), (0xFFDA, 0xFFDC)]

def inRanges (rs : List (Nat × Nat)) (c : Nat) : Bool := rs.any (fun r => r.1 ≤ c && c ≤ r.2)

/-- the named components of a consonant letter, if `c` is one -/
def letterOf (c : Nat) : Option (List Jamo) := letters.lookup c

def letterSyms (c : Nat) : Option (List Sym) := (letterOf c).map (·.flatMap plain)

def isSyllable (c : Nat) : Bool := 0xAC00 ≤ c && c ≤ 0xD7A3

/-- the conjoining initial consonant of a syllable -/
def syllableInitial (c : Nat) : Nat := 0x1100 + (c - 0xAC00) / 588

/-- the specification's normalisation of one code point -/
def specNorm (c : Nat) : List Sym :=
  if isSyllable c then (letterSyms (syllableInitial c)).getD []
  else match letterSyms c with
    | some s => s
    | none => if inRanges hangulRanges c then [] else [.sp]

end UH.Spec
