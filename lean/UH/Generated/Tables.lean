/- REGENERATED on every check run by harness/extract/gen_tables.py from the
   repository's current source.  Do not edit. -/
import UH.Model.Number
namespace UH.Generated
open UH

/-- keys of `interpret.BUITLINS` as digit words -/
def builtinNames : List (List Digit) := [[0], [2], [6], [1, 1], [1, 4], [2, 5], [4, 3], [4, 7], [5, 0], [5, 6], [6, 6], [6, 7], [7, 6], [2, 7], [6, 2], [1, 0], [4, 5], [5, 5], [3], [7, 3], [0, 6], [0, 3], [0, 1], [1], [4], [7], [7, 7], [0, 7], [5], [7, 2], [5, 7], [4, 2], [6, 5], [6, 3], [5, 3], [0, 4]]

/-- keys of `io._MODE_TABLE` with the host open mode -/
def fileModes : List (List Digit × String) := [([3], "rb"), ([7, 3], "wb"), ([7, 0], "ab"), ([3, 7, 3], "r+b"), ([7, 3, 3], "w+b"), ([7, 0, 3], "a+b")]

/-- command names recognised by `File.__call__` -/
def fileCommands : List (List Digit) := [[2], [3], [7, 3], [7], [0]]

/-- whence names recognised by `File._seek_or_tell` -/
def whenceNames : List (List Digit) := [[6, 7, 5, 2], [7, 0, 5, 2]]

/-- the contents every `error.py` class gives its exception (OSError built with errno 7) -/
def errorCodes : List (String × List Int) := [("OSError", [5, -63, 7]), ("ArithmeticError", [5, -54]), ("SyntaxError", [5, -44]), ("TypeError", [5, 0]), ("ValueError", [5, -39]), ("DivisionError", [5, -9]), ("NotFoundError", [5, -60]), ("ImportError", [5, 5]), ("OutOfRangeError", [5, -5]), ("KeyboardInterruptError", [5, -23])]

/-- `Codec.CODEC_TBL` -/
def codecSchemes : List String := ["utf", "unsigned", "signed", "float"]

/-- paths (literal values) of the built-in module registry's function entries -/
def bmodFunctionPaths : List (List Int) := [[-21, 0], [-21, 2], [-21, 4], [-21, 5], [-21, 7], [5], [6, 0], [6, -9], [6, -12], [6, -23], [6, -3], [6, -14], [6, -49], [6, -48], [6, -6], [6, -10], [6, -17], [6, -29, 0], [6, -29, 1], [6, -29, 2], [6, -29, 3], [6, -29, 4]]

def bmodConstantPaths : List (List Int) := [[6, 5], [6, 7], [6, 4], [6, 1]]

def maxStackSize : Nat := 5000

end UH.Generated
