/-
C08 — the integer literal codec is a bijection up to even zero padding, and the
encoder yields the shortest spelling.  (Value-only dependence of the name
lookups is in `C08Names`, over tables regenerated from the source.)
-/
import UH.Proofs.Number
import UH.Model.Parse
namespace UH.C08
open UH

/-- the encoder is the natural digits plus at most one padding zero -/
theorem encode_shape (n : Int) :
    ∃ e, e ≤ 1 ∧ encodeNumber n = natDigits n.natAbs ++ List.replicate e (0 : Digit) ∧
      (((natDigits n.natAbs).length + e) % 2 = 0 ↔ n < 0) := by
  unfold encodeNumber
  by_cases hp : (natDigits n.natAbs).length % 2 = 0 <;> by_cases hn : n < 0
  · exact ⟨0, by omega, by simp [hp, hn], by simp [hp, hn]⟩
  · exact ⟨1, by omega, by simp [hp, hn], by simp [hn]; omega⟩
  · exact ⟨1, by omega, by simp [hp, hn], by simp [hn]; omega⟩
  · exact ⟨0, by omega, by simp [hp, hn], by simp [hp, hn]⟩

/-- **decoding inverts encoding**, for every integer -/
theorem parse_encode (n : Int) : parseNumber (encodeNumber n) = n := by
  obtain ⟨e, _, he, hs⟩ := encode_shape n
  rw [he]
  unfold parseNumber
  rw [digitsVal_pad, digitsVal_natDigits]
  simp only [List.length_append, List.length_replicate]
  by_cases hn : n < 0
  · rw [if_pos (hs.mpr hn)]; omega
  · rw [if_neg (fun h => hn (hs.mp h))]; omega

/-- two more zeros never change the value (sign parity and magnitude are kept) -/
theorem parse_pad2 (w : List Digit) : parseNumber (w ++ [0, 0]) = parseNumber w := by
  unfold parseNumber
  have : w ++ [0, 0] = w ++ List.replicate 2 (0 : Digit) := rfl
  rw [this, digitsVal_pad]
  simp only [List.length_append, List.length_replicate]
  have : (w.length + 2) % 2 = w.length % 2 := by omega
  rw [this]

/-- **all spellings of a number**: a non-empty word denotes `n` iff it is the
encoder's spelling followed by zeros — an even number of them unless `n = 0`. -/
theorem spellings (w : List Digit) (hw : w ≠ []) (n : Int) :
    parseNumber w = n ↔
      ∃ k, w = encodeNumber n ++ List.replicate k (0 : Digit) ∧ (n ≠ 0 → k % 2 = 0) := by
  obtain ⟨e, he1, he, hs⟩ := encode_shape n
  constructor
  · intro h
    obtain ⟨j, hj⟩ := digits_unique w hw
    have hV : digitsVal w = n.natAbs := by
      unfold parseNumber at h; split at h <;> omega
    rw [hV] at hj
    have hlen : w.length = (natDigits n.natAbs).length + j := by
      conv => lhs; rw [hj]
      simp
    by_cases hn0 : n = 0
    · subst hn0
      refine ⟨j, ?_, by simp⟩
      have : encodeNumber 0 = natDigits 0 := by decide +kernel
      rw [this]; exact hj
    · -- parity of the word length is fixed by the sign
      have hpar : (w.length % 2 = 0 ↔ n < 0) := by
        unfold parseNumber at h; split at h <;> omega
      have hje : j % 2 = e % 2 := by
        have := hs; omega
      have hge : e ≤ j := by omega
      refine ⟨j - e, ?_, fun _ => by omega⟩
      rw [he, List.append_assoc, List.replicate_append_replicate]
      have : e + (j - e) = j := by omega
      rw [this]; exact hj
  · rintro ⟨k, rfl, hk⟩
    by_cases hn0 : n = 0
    · subst hn0
      unfold parseNumber
      rw [digitsVal_pad]
      have : digitsVal (encodeNumber 0) = 0 := by decide +kernel
      rw [this]; split <;> rfl
    · have hk2 := hk hn0
      have hpe := parse_encode n
      unfold parseNumber at hpe ⊢
      rw [digitsVal_pad]
      simp only [List.length_append, List.length_replicate]
      have : ((encodeNumber n).length + k) % 2 = (encodeNumber n).length % 2 := by omega
      rw [this]; exact hpe

/-- **the encoder's spelling is the shortest** -/
theorem encode_shortest (w : List Digit) (hw : w ≠ []) :
    (encodeNumber (parseNumber w)).length ≤ w.length := by
  obtain ⟨k, hk, _⟩ := (spellings w hw (parseNumber w)).mp rfl
  conv => rhs; rw [hk]
  simp

/-- decoding is injective on encoder outputs: distinct integers get distinct spellings -/
theorem encode_injective (m n : Int) (h : encodeNumber m = encodeNumber n) : m = n := by
  rw [← parse_encode m, ← parse_encode n, h]

/-- every spelling is non-empty (so it is a word) -/
theorem encode_ne_nil (n : Int) : encodeNumber n ≠ [] := by
  obtain ⟨e, _, he, _⟩ := encode_shape n
  rw [he]; simp [natDigits_ne_nil]

/-- zero in every spelling: a word of `k+1` zero digits denotes 0 whatever its parity (−0 = 0) -/
theorem zero_any_length (k : Nat) : parseNumber (List.replicate (k + 1) (0 : Digit)) = 0 := by
  have h := (spellings (List.replicate (k + 1) (0 : Digit)) (by simp) 0).mpr
    ⟨k, by
      have : encodeNumber 0 = [0] := by decide +kernel
      rw [this]; rfl, by simp⟩
  exact h

/-- **the parser looks at a literal's value only**: two non-empty digit words denoting the same number are
interchangeable as a value, as a call arity (`ㅎ…`) and as a frame number (`ㅇ…`), for every stack -/
theorem parseWord_value_only (w₁ w₂ : List Digit) (h₁ : w₁ ≠ []) (h₂ : w₂ ≠ [])
    (h : parseNumber w₁ = parseNumber w₂) (sp : Span) (stack : List AST) :
    parseWord (.lit w₁) sp stack = parseWord (.lit w₂) sp stack ∧
    parseWord (.h w₁) sp stack = parseWord (.h w₂) sp stack ∧
    parseWord (.o w₁) sp stack = parseWord (.o w₂) sp stack := by
  cases w₁ with
  | nil => exact absurd rfl h₁
  | cons d₁ r₁ =>
    cases w₂ with
    | nil => exact absurd rfl h₂
    | cons d₂ r₂ => simp only [parseWord, h, and_self]

/-- in particular a zero-argument call may spell its arity `ㅎㄱ`, `ㅎㄱㄱ`, `ㅎㄱㄱㄱ`, … -/
theorem zero_arity_any_spelling (k : Nat) (sp : Span) (s : List AST) (f : AST) :
    parseWord (.h (List.replicate (k + 1) (0 : Digit))) sp (s ++ [f]) = .ok (s ++ [.call f [] sp]) := by
  have hz := zero_any_length k
  have : List.replicate (k + 1) (0 : Digit) = 0 :: List.replicate k 0 := rfl
  rw [this] at hz ⊢
  simp [parseWord, hz]

-- non-vacuity / documented examples (docs/spec.md:37-44)
example : parseNumber [1, 0] = -1 := by decide
example : parseNumber [0, 1] = -8 := by decide
example : parseNumber [0, 0, 1, 0] = -64 := by decide
example : encodeNumber (-64) = [0, 0, 1, 0] := by decide +kernel
example : ([1,0,0] : List Digit) = encodeNumber 1 ++ List.replicate 2 0 := by decide +kernel

end UH.C08
