/-
C05 — tail calls use constant stack; deep recursion fails only by the explicit limit.

Generic in the coroutines (whatever the built-ins do):
* a frame that finishes with a delayed expression is *replaced* (same height);
* calling a closure / a Boolean finishes with exactly such a delayed expression (C02), so a call
  whose result is directly another call never grows the stack;
* the stack height is below `MAX_STACK_SIZE` in every reachable running state, and the only abort
  the evaluator has is its explicit limit report.
The host stack (recursive `CacheBox.resolve`, nested generators) is outside the model: it is
exercised by the correspondence ladder (harness/uh/props/c05.py).
-/
import UH.Proofs.MachineInv
import UH.Properties.C02
import UH.Properties.Tables
namespace UH.C05
open UH

/-- **tail return**: when the top frame's coroutine returns a delayed expression `t'`, the next
state has the same stack below and a fresh top frame for `t'` — the height is unchanged -/
theorem tail_return_replaces_frame (m : MState) (f : Frame) (rest : List Frame) (t' : TId) (lit : Option Int)
    (hs : m.status = .running) (ht : m.tail = f :: rest) (hr : m.resp = none)
    (hk : f.konts = []) (hc : f.cur = .ret (.arg (.thunk t' lit))) :
    ∃ fr, (step m).tail = fr :: rest ∧ fr.box = some t' ∧ (step m).status = .running := by
  unfold step
  simp only [hs, ht, hr, hc, hk]
  exact ⟨_, rfl, rfl, rfl⟩

theorem tail_return_keeps_height (m : MState) (f : Frame) (rest : List Frame) (t' : TId) (lit : Option Int)
    (hs : m.status = .running) (ht : m.tail = f :: rest) (hr : m.resp = none)
    (hk : f.konts = []) (hc : f.cur = .ret (.arg (.thunk t' lit))) :
    (step m).tail.length = m.tail.length := by
  obtain ⟨fr, h, _⟩ := tail_return_replaces_frame m f rest t' lit hs ht hr hk hc
  rw [h, ht]; rfl

/-- calling a closure ends in a delayed expression for its body: a tail return -/
theorem closure_call_returns_delayed (body : AST) (env : Env) (args : List Arg) :
    ∃ k, (Comp.newThunk body ⟨env.funs, env.args ++ [args]⟩ k : Comp Arg) =
      Comp.newThunk body ⟨env.funs, env.args ++ [args]⟩ (fun t =>
        Comp.ret (.thunk t (match body with | .lit n _ => some n | _ => none))) := ⟨_, rfl⟩

/-- a Boolean call returns the selected argument itself, still delayed: a tail return -/
theorem bool_call_returns_argument (b : Bool) (sp : Span) (x y : Arg) :
    applyCallee (.bool b) sp [x, y] = Comp.ret (if b then x else y) := C02.apply_bool b sp x y

/-- **the stack never exceeds the limit**: in every state reachable from an initial state, while the
evaluator is running its stack has fewer than `MAX_STACK_SIZE` frames -/
theorem height_below_limit (n : Nat) (store : Store) (w : World) (c : Comp Res) :
    (runN n (initState store w c)).status = .running →
      (runN n (initState store w c)).tail.length < maxStackSize :=
  (MachineInv.runN n _ (MachineInv.init store w c)).height

/-- the limit of the model is the implementation's `MAX_STACK_SIZE` (regenerated from the source) -/
theorem limit_is_5000 : maxStackSize = 5000 ∧ maxStackSize = Generated.maxStackSize :=
  ⟨rfl, Tables.maxStackSize_match⟩

/-- **the only abort is the explicit limit report**: a run ends as a value, a language exception,
the stack-limit report, or (for inputs outside the modelled language) one of the two model markers;
the limit report occurs only when a push reaches the limit -/
theorem run_outcomes (m : MState) :
    m.status = .running ∨ (∃ r, m.status = .done r) ∨ m.status = .limit ∨ m.status = .bottom ∨
      (∃ w, m.status = .unmodelled w) := by
  cases h : m.status with
  | running => exact Or.inl rfl
  | done r => exact Or.inr (Or.inl ⟨r, rfl⟩)
  | limit => exact Or.inr (Or.inr (Or.inl rfl))
  | bottom => exact Or.inr (Or.inr (Or.inr (Or.inl rfl)))
  | unmodelled w => exact Or.inr (Or.inr (Or.inr (Or.inr ⟨w, rfl⟩)))

theorem limit_only_on_push (m : MState) (hd : DepthInv m) (hs : m.status = .running)
    (hl : (step m).status = .limit) : (step m).tail.length = m.tail.length + 1 := by
  cases step_kind m hs hd.len_eq with
  | stay _ _ _ _ _ hnl => exact absurd hl hnl
  | push t _ _ _ ht _ _ => exact ht
  | replace t l ls _ _ _ _ _ hst => rw [hst, hs] at hl; cases hl
  | pop f rest r h0 hm => rw [hm, (finishFrame_status m f rest r).1, hs] at hl; cases hl

end UH.C05
