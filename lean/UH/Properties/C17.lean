/-
C17 — bitwise operations are infinite two's complement; the five roundings are exact.
-/
import UH.Model.Interp
namespace UH.C17
open UH

/-- bit `i` of the infinite two's-complement string of `x`: for `x ≥ 0` the binary digit, for
`x < 0` the complement of the digit of `−x−1` (sign fill: all high bits are 1) -/
def tb (x : Int) (i : Nat) : Bool :=
  if 0 ≤ x then x.toNat.testBit i else !((-x - 1).toNat.testBit i)

theorem tb_ofNat (n : Nat) (i : Nat) : tb (n : Int) i = n.testBit i := by simp [tb]

theorem tb_bitNot (x : Int) (i : Nat) : tb (bitNot x) i = !tb x i := by
  unfold tb bitNot
  by_cases h : 0 ≤ x
  · have h' : ¬ (0 ≤ -x - 1) := by omega
    have e : (-(-x - 1) - 1) = x := by omega
    simp only [h, h', if_true, if_false, e]
  · have h' : (0 ≤ -x - 1) := by omega
    simp only [h, h', if_true, if_false, Bool.not_not]

theorem natAndNot_testBit (a m i : Nat) : (natAndNot a m).testBit i = (a.testBit i && !m.testBit i) := by
  simp only [natAndNot, Nat.testBit_xor, Nat.testBit_and]
  cases a.testBit i <;> cases m.testBit i <;> rfl

/-- **and / or / xor act bit by bit on the infinite strings**, for all integers and all positions -/
theorem tb_bitAnd (x y : Int) (i : Nat) : tb (bitAnd x y) i = (tb x i && tb y i) := by
  unfold bitAnd
  by_cases hx : 0 ≤ x <;> by_cases hy : 0 ≤ y <;> simp only [hx, hy, if_true, if_false]
  · simp [tb, hx, hy, Nat.testBit_and]
  · have hb : bitNot y = -y - 1 := rfl
    simp [tb, hx, hy, natAndNot_testBit, hb]
  · have hb : bitNot x = -x - 1 := rfl
    simp [tb, hx, hy, natAndNot_testBit, hb, Bool.and_comm]
  · rw [tb_bitNot, tb_ofNat]
    have hbx : bitNot x = -x - 1 := rfl
    have hby : bitNot y = -y - 1 := rfl
    simp [tb, hx, hy, Nat.testBit_or, hbx, hby]

theorem tb_bitOr (x y : Int) (i : Nat) : tb (bitOr x y) i = (tb x i || tb y i) := by
  unfold bitOr
  by_cases hx : 0 ≤ x <;> by_cases hy : 0 ≤ y <;> simp only [hx, hy, if_true, if_false]
  · simp [tb, hx, hy, Nat.testBit_or]
  · rw [tb_bitNot, tb_ofNat]
    have hb : bitNot y = -y - 1 := rfl
    simp only [tb, hx, hy, if_true, if_false, natAndNot_testBit, hb]
    cases x.toNat.testBit i <;> cases (-y - 1).toNat.testBit i <;> rfl
  · rw [tb_bitNot, tb_ofNat]
    have hb : bitNot x = -x - 1 := rfl
    simp only [tb, hx, hy, if_true, if_false, natAndNot_testBit, hb]
    cases y.toNat.testBit i <;> cases (-x - 1).toNat.testBit i <;> rfl
  · rw [tb_bitNot, tb_ofNat]
    have hbx : bitNot x = -x - 1 := rfl
    have hby : bitNot y = -y - 1 := rfl
    simp only [tb, hx, hy, if_false, Nat.testBit_and, hbx, hby]
    cases (-x - 1).toNat.testBit i <;> cases (-y - 1).toNat.testBit i <;> rfl

theorem tb_bitXor (x y : Int) (i : Nat) : tb (bitXor x y) i = (tb x i ^^ tb y i) := by
  unfold bitXor
  by_cases hx : 0 ≤ x <;> by_cases hy : 0 ≤ y <;> simp only [hx, hy, if_true, if_false]
  · simp [tb, hx, hy, Nat.testBit_xor]
  · rw [tb_bitNot, tb_ofNat]
    have hb : bitNot y = -y - 1 := rfl
    simp only [tb, hx, hy, if_true, if_false, Nat.testBit_xor, hb]
    cases x.toNat.testBit i <;> cases (-y - 1).toNat.testBit i <;> rfl
  · rw [tb_bitNot, tb_ofNat]
    have hb : bitNot x = -x - 1 := rfl
    simp only [tb, hx, hy, if_true, if_false, Nat.testBit_xor, hb]
    cases y.toNat.testBit i <;> cases (-x - 1).toNat.testBit i <;> rfl
  · rw [tb_ofNat]
    have hbx : bitNot x = -x - 1 := rfl
    have hby : bitNot y = -y - 1 := rfl
    simp only [tb, hx, hy, if_false, Nat.testBit_xor, hbx, hby]
    cases (-x - 1).toNat.testBit i <;> cases (-y - 1).toNat.testBit i <;> rfl

/-- **shift**: a non-negative count multiplies by 2ⁿ; a negative count shifts right with sign fill,
i.e. floors the division by 2^|n| -/
theorem shift_nonneg (x : Int) (n : Nat) : shiftLeft x n = x * 2 ^ n := by
  have h : ¬ ((n : Int) < 0) := by omega
  simp only [shiftLeft, h, if_false, Int.toNat_natCast]
  exact Int.shiftLeft_eq x n

theorem shift_neg (x : Int) (n : Nat) (hn : 0 < n) : shiftLeft x (-(n : Int)) = x / 2 ^ n := by
  have h : (-(n : Int)) < 0 := by omega
  simp only [shiftLeft, h, if_true, Int.neg_neg, Int.toNat_natCast]
  exact Int.shiftRight_eq_div_pow x n

/-- sign fill: shifting a negative integer right by at least its bit length gives −1 (never 0), a non-negative one 0 -/
theorem shift_neg_saturates (x : Int) (n : Nat) (hn : 0 < n) (hx : -(2 ^ n : Int) ≤ x) (hneg : x < 0) :
    shiftLeft x (-(n : Int)) = -1 := by
  rw [shift_neg x n hn]
  have hd : (0 : Int) < 2 ^ n := Int.pow_pos (by omega)
  have h := (Int.ediv_emod_unique (a := x) (b := (2 : Int) ^ n) (q := -1) (r := x + 2 ^ n) hd).mpr
  exact (h ⟨by omega, by omega, by omega⟩).1

theorem shift_nonneg_vanishes (x : Int) (n : Nat) (hn : 0 < n) (hx0 : 0 ≤ x) (hx : x < (2 ^ n : Int)) :
    shiftLeft x (-(n : Int)) = 0 := by
  rw [shift_neg x n hn]
  exact Int.ediv_eq_zero_of_lt hx0 hx

example : shiftLeft (-1) (-1) = -1 ∧ shiftLeft (-5) (-3) = -1 ∧ shiftLeft (-5) (-300) = -1 ∧ shiftLeft 5 (-300) = 0 := by
  decide +kernel

/-! ### the five roundings of a finite binary64 value `m · 2^e` (`m` the signed mantissa) -/

/-- signed mantissa -/
def smant (x : F64) : Int := if F64.signBit x then -(F64.mant x : Int) else F64.mant x

/-- for a non-negative binary exponent the value is an integer and every rounding returns it -/
theorem roundings_integral (x : F64) (he : 0 ≤ F64.exp2 x) :
    F64.floorInt x = smant x * 2 ^ (F64.exp2 x).toNat ∧ F64.ceilInt x = smant x * 2 ^ (F64.exp2 x).toNat ∧
    F64.roundInt x = smant x * 2 ^ (F64.exp2 x).toNat := by
  simp [F64.floorInt, F64.ceilInt, F64.roundInt, smant, he]

/-- **floor**: for a negative exponent (`d = 2^(−e)`), `⌊x⌋·d ≤ m < (⌊x⌋+1)·d` -/
theorem floor_spec (x : F64) (he : F64.exp2 x < 0) :
    let d : Int := 2 ^ (-(F64.exp2 x)).toNat
    F64.floorInt x * d ≤ smant x ∧ smant x < (F64.floorInt x + 1) * d := by
  intro d
  have hd : 0 < d := Int.pow_pos (by omega)
  have hne : ¬ (0 ≤ F64.exp2 x) := by omega
  have hf : F64.floorInt x = smant x / d := by simp [F64.floorInt, smant, hne, d]
  rw [hf]
  exact ⟨Int.ediv_mul_le _ (by omega), Int.lt_ediv_add_one_mul_self _ hd⟩

/-- **ceiling**: `(⌈x⌉−1)·d < m ≤ ⌈x⌉·d` -/
theorem ceil_spec (x : F64) (he : F64.exp2 x < 0) :
    let d : Int := 2 ^ (-(F64.exp2 x)).toNat
    (F64.ceilInt x - 1) * d < smant x ∧ smant x ≤ F64.ceilInt x * d := by
  intro d
  have hd : 0 < d := Int.pow_pos (by omega)
  have hne : ¬ (0 ≤ F64.exp2 x) := by omega
  have hc : F64.ceilInt x = -((-smant x) / d) := by simp [F64.ceilInt, smant, hne, d]
  rw [hc]
  have h1 := Int.ediv_mul_le (-smant x) (b := d) (by omega)
  have h2 := Int.lt_ediv_add_one_mul_self (-smant x) hd
  constructor
  · have : (-(-smant x / d) - 1) * d = -((-smant x / d + 1) * d) := by
      rw [← Int.neg_mul]; congr 1; omega
    rw [this]; omega
  · have : -(-smant x / d) * d = -(-smant x / d * d) := Int.neg_mul _ _
    rw [this]; omega

/-- the integer satisfying the floor inequalities is unique -/
theorem floor_unique (m d z z' : Int) (hd : 0 < d) (h1 : z * d ≤ m) (h2 : m < (z + 1) * d)
    (h1' : z' * d ≤ m) (h2' : m < (z' + 1) * d) : z = z' := by
  rcases Int.lt_trichotomy z z' with h | h | h
  · have : (z + 1) * d ≤ z' * d := Int.mul_le_mul_of_nonneg_right (by omega) (by omega)
    omega
  · exact h
  · have : (z' + 1) * d ≤ z * d := Int.mul_le_mul_of_nonneg_right (by omega) (by omega)
    omega

/-- **toward zero / away from zero** pick floor or ceiling by the sign -/
theorem trunc_away_spec (x : F64) :
    F64.truncInt x = (if F64.signBit x then F64.ceilInt x else F64.floorInt x) ∧
    F64.awayInt x = (if F64.signBit x then F64.floorInt x else F64.ceilInt x) := ⟨rfl, rfl⟩

/-- **to nearest, ties to even**: the result is ⌊x⌋ or ⌊x⌋+1, the remainder `r = m − ⌊x⌋·d`
decides (`2r < d` down, `2r > d` up), and on a tie the even one is chosen -/
theorem round_spec (x : F64) (he : F64.exp2 x < 0) :
    let d : Int := 2 ^ (-(F64.exp2 x)).toNat
    let f := F64.floorInt x
    let r := smant x - f * d
    (2 * r < d → F64.roundInt x = f) ∧ (2 * r > d → F64.roundInt x = f + 1) ∧
    (2 * r = d → (F64.roundInt x = f ∨ F64.roundInt x = f + 1) ∧ F64.roundInt x % 2 = 0) := by
  intro d f r
  have hne : ¬ (0 ≤ F64.exp2 x) := by omega
  have hr : F64.roundInt x =
      (if 2 * r < d then f else if 2 * r > d then f + 1 else (if f % 2 = 0 then f else f + 1)) := by
    simp [F64.roundInt, smant, hne, d, f, r]
  refine ⟨fun h => by rw [hr]; simp [h], fun h => ?_, fun h => ?_⟩
  · have h' : ¬ (2 * r < d) := by omega
    rw [hr]; simp [h, h']
  · have h1 : ¬ (2 * r < d) := by omega
    have h2 : ¬ (2 * r > d) := by omega
    rw [hr]; simp only [h1, h2, if_false]
    by_cases hev : f % 2 = 0
    · simp [hev]
    · simp only [hev, if_false]
      refine ⟨?_, ?_⟩ <;> first | omega | simp

-- examples: ties go to the even neighbour; magnitudes beyond 2^53 are integral
example : F64.roundInt (F64.ofFloat 2.5) = 2 ∧ F64.roundInt (F64.ofFloat 3.5) = 4 ∧
    F64.roundInt (F64.ofFloat (-2.5)) = -2 := by decide +kernel
example : bitAnd (-1) 5 = 5 ∧ bitOr (-8) 3 = -5 ∧ bitXor (-1) (-1) = 0 ∧ shiftLeft (-5) (-1) = -3 := by decide +kernel

end UH.C17
