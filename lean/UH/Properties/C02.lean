/-
C02 — core evaluation is the lexically scoped, non-strict calculus of the spec.

Theorems about `interpret` / `applyCallee` (the model of interpret.py:160-325):
index rules of function and argument references, closures capture their defining
environment and are applied in it whatever the caller, self / outer references
denote that very function, and the selection / indexing rule of every callable
kind of value.
-/
import UH.Model.Interp
namespace UH.C02
open UH Comp

/-! ### Python indexing as used for nesting indices -/

/-- a non-negative index `rel` counts from the innermost enclosing function -/
theorem pyIndex_from_inner {α} (l : List α) (rel : Int) (h0 : 0 ≤ rel) (h1 : rel < l.length) :
    pyIndex l (-rel - 1) = l[l.length - 1 - rel.toNat]? := by
  unfold pyIndex
  have h2 : ¬ (0 ≤ -rel - 1) := by omega
  have h3 : 0 ≤ (l.length : Int) + (-rel - 1) := by omega
  simp only [h2, h3, if_true, if_false]
  congr 1; omega

/-- a negative index `rel` counts from the outermost: position `-rel-1` -/
theorem pyIndex_from_outer {α} (l : List α) (rel : Int) (h0 : rel < 0) :
    pyIndex l (-rel - 1) = l[(-rel - 1).toNat]? := by
  unfold pyIndex
  have h2 : (0 ≤ -rel - 1) := by omega
  simp only [h2, if_true]

/-- the reference is out of range exactly when it names no enclosing function -/
theorem pyIndex_none_iff {α} (l : List α) (rel : Int) :
    pyIndex l (-rel - 1) = none ↔ (0 ≤ rel ∧ (l.length : Int) ≤ rel) ∨ (rel < 0 ∧ (l.length : Int) ≤ -rel - 1) := by
  unfold pyIndex
  by_cases h : 0 ≤ rel
  · have h2 : ¬ (0 ≤ -rel - 1) := by omega
    simp only [h2, if_false]
    by_cases h3 : 0 ≤ (l.length : Int) + (-rel - 1)
    · simp only [h3, if_true, List.getElem?_eq_none_iff]
      constructor
      · intro h4; omega
      · intro h4; omega
    · simp only [h3, if_false]
      constructor
      · intro _; left; omega
      · intro _; trivial
  · have h2 : (0 ≤ -rel - 1) := by omega
    simp only [h2, if_true, List.getElem?_eq_none_iff]
    constructor
    · intro h4; right; omega
    · intro h4; omega

/-! ### function references and definitions -/

theorem interpret_funRef_ok (rel : Int) (sp : Span) (env : Env) (f : FId)
    (h : pyIndex env.funs (-rel - 1) = some f) :
    interpret (.funRef rel sp) env = ret (.strict (.fn f)) := by
  simp [interpret, h, retV]

theorem interpret_funRef_err (rel : Int) (sp : Span) (env : Env)
    (h : pyIndex env.funs (-rel - 1) = none) :
    interpret (.funRef rel sp) env = throw (builtinErr .outOfRange sp) := by
  simp [interpret, h]

/-- **a function value captures the environment of its definition**: the closure allocated for
`body ㅎ` in `env` stores `env`'s enclosing functions followed by itself, and `env`'s arguments;
the defining environment itself is not modified (`funs[:]` copy) -/
theorem interpret_funDef (body : AST) (sp : Span) (env : Env) :
    interpret (.funDef body sp) env =
      newFn (fun self => .closure body ⟨env.funs ++ [self], env.args⟩) (fun f => ret (.strict (.fn f))) := by
  simp [interpret, retV]

/-- **calling a closure evaluates its body in the captured environment extended by the
arguments** — the caller's environment does not occur -/
theorem apply_closure (f : FId) (sp : Span) (args : List Arg) :
    applyCallee (.fn f) sp args = getFn f (fun obj =>
      match obj with
      | .closure body env =>
        newThunk body ⟨env.funs, env.args ++ [args]⟩ (fun t =>
          ret (.thunk t (match body with | .lit n _ => some n | _ => none)))
      | .pipe evs => applyCallee.go sp evs args
      | .collect ev => do
        let vs ← matchArguments sp args (fun v => v.isList || v.isErr) (some [1])
        match vs with
        | [.list xs] => callArg (.apply ev sp xs)
        | [.err _ vals] => callArg (.apply ev sp (vals.map Arg.strict))
        | _ => bottom
      | .spread ev => callArg (.apply ev sp [.strict (.list args)])
      | .file _ => fileCall f sp args
      | .bmod path => bmodCall path sp args
      | .codec s n b => codecCall s n b sp args) := by
  rfl

/-- **a self reference denotes that very function**: in the body's environment
(`captured.funs ++ [self]`), index 0 is `self` -/
theorem self_reference (funs : List FId) (self : FId) (args : List (List Arg)) (sp : Span) :
    interpret (.funRef 0 sp) ⟨funs ++ [self], args⟩ = ret (.strict (.fn self)) := by
  apply interpret_funRef_ok
  rw [pyIndex_from_inner _ 0 (by omega) (by simp)]
  simp

/-- an outer reference `k+1` inside the body denotes what `k` denotes outside -/
theorem outer_reference (funs : List FId) (self : FId) (args : List (List Arg)) (k : Nat) (sp : Span)
    (hk : k < funs.length) :
    interpret (.funRef (k + 1 : Nat) sp) ⟨funs ++ [self], args⟩ =
      interpret (.funRef (k : Nat) sp) ⟨funs, args⟩ := by
  have e1 : pyIndex (funs ++ [self]) (-((k + 1 : Nat) : Int) - 1) = funs[funs.length - 1 - k]? := by
    rw [pyIndex_from_inner _ _ (by omega) (by simp; omega)]
    simp only [List.length_append, List.length_singleton, Int.toNat_natCast]
    rw [List.getElem?_append_left (by omega)]
    congr 1; omega
  have e2 : pyIndex funs (-((k : Nat) : Int) - 1) = funs[funs.length - 1 - k]? := by
    rw [pyIndex_from_inner _ _ (by omega) (by omega)]
    simp
  simp only [interpret, e1, e2]

/-! ### argument references -/

/-- an argument reference first selects the frame of the `relF`-th enclosing function, then
evaluates the position expression in the *current* environment and returns that argument
unevaluated -/
theorem interpret_argRef (a : AST) (relF : Int) (sp : Span) (env : Env) (frame : List Arg)
    (h : pyIndex env.args (-relF - 1) = some frame) :
    interpret (.argRef a relF sp) env =
      newThunk a env (fun t => do
        let v ← forceArg (.thunk t none)
        checkType sp [v] Val.isInteger
        match v with
        | .int i =>
          if 0 ≤ i ∧ i < frame.length then
            (match frame[i.toNat]? with | some x => ret x | none => bottom)
          else throw (builtinErr .outOfRange sp)
        | _ => bottom) := by
  simp only [interpret, h]
  rfl

theorem interpret_argRef_noframe (a : AST) (relF : Int) (sp : Span) (env : Env)
    (h : pyIndex env.args (-relF - 1) = none) :
    interpret (.argRef a relF sp) env = throw (builtinErr .outOfRange sp) := by
  simp [interpret, h]

/-! ### calls: arguments are delayed in the caller's environment -/

theorem interpret_call (f : AST) (args : List AST) (sp : Span) (env : Env) :
    interpret (.call f args sp) env =
      newThunk f env (fun tf => do
        let argv ← mkThunks env args
        let callee ← strictFunctional sp (.thunk tf (match f with | .lit n _ => some n | _ => none))
        checkCallee isBuiltinName sp callee true
        callArg (.apply callee sp argv)) := by
  simp only [interpret]
  rfl

/-- an integer literal in function position names a built-in and is not evaluated -/
theorem literal_callee (sp : Span) (t : TId) (n : Int) :
    strictFunctional sp (.thunk t (some n)) = ret (.builtin n) := rfl

/-! ### callable values (docs/builtins.md) -/

/-- a Boolean selects its first (true) or second (false) argument, **unevaluated** -/
theorem apply_bool (b : Bool) (sp : Span) (x y : Arg) :
    applyCallee (.bool b) sp [x, y] = ret (if b then x else y) := by
  simp [applyCallee, checkArity, Bind.bind, Comp.bind]

theorem apply_bool_arity (b : Bool) (sp : Span) (args : List Arg) (h : args.length ≠ 2) :
    applyCallee (.bool b) sp args = throw (valueErr sp) := by
  simp [applyCallee, checkArity, h, Bind.bind, Comp.bind]

/-- a list applied to a strict integer `i` yields element `i` (Python index rule), unevaluated -/
theorem apply_list (xs : List Arg) (sp : Span) (i : Int) :
    applyCallee (.list xs) sp [.strict (.int i)] =
      match pyIndex xs i with
      | some a => ret a
      | none => throw (builtinErr .outOfRange sp) := by
  simp [applyCallee, matchArguments, checkArity, forceAll, forceArg, checkType, Val.isInteger,
    Bind.bind, Comp.bind, pure]
  cases pyIndex xs i <;> rfl

/-- a string applied to `i` yields its `i`-th code point as a one-character string -/
theorem apply_str (s : String) (sp : Span) (i : Int) :
    applyCallee (.str s) sp [.strict (.int i)] =
      match pyIndex s.toList i with
      | some c => ret (.strict (.str (String.singleton c)))
      | none => throw (builtinErr .outOfRange sp) := by
  simp [applyCallee, matchArguments, checkArity, forceAll, forceArg, checkType, Val.isInteger,
    Bind.bind, Comp.bind, pure]
  cases pyIndex s.toList i <;> rfl

theorem apply_bytes (b : List UInt8) (sp : Span) (i : Int) :
    applyCallee (.bytes b) sp [.strict (.int i)] =
      match pyIndex b i with
      | some c => ret (.strict (.bytes [c]))
      | none => throw (builtinErr .outOfRange sp) := by
  simp [applyCallee, matchArguments, checkArity, forceAll, forceArg, checkType, Val.isInteger,
    Bind.bind, Comp.bind, pure]
  cases pyIndex b i <;> rfl

theorem apply_err (metas : List Span) (vals : List Val) (sp : Span) (i : Int) :
    applyCallee (.err metas vals) sp [.strict (.int i)] =
      match pyIndex vals i with
      | some v => ret (.strict v)
      | none => throw (builtinErr .outOfRange sp) := by
  simp [applyCallee, matchArguments, checkArity, forceAll, forceArg, checkType, Val.isInteger,
    Bind.bind, Comp.bind, pure]
  cases pyIndex vals i <;> rfl

/-- a complex number applied to 0 / 1 yields its real / imaginary part -/
theorem apply_complex (re im : F64) (sp : Span) (i : Int) :
    applyCallee (.complex re im) sp [.strict (.int i)] =
      if i = 0 then ret (.strict (.float re)) else if i = 1 then ret (.strict (.float im))
      else throw (valueErr sp) := by
  simp only [applyCallee, matchArguments, checkArity, forceAll, forceArg, checkType, Val.isInteger,
    Bind.bind, Comp.bind, pure, List.all_cons, List.all_nil, List.length_cons, List.length_nil,
    List.contains_cons, List.contains_nil, Bool.and_self, Bool.or_false, beq_self_eq_true, if_true]
  by_cases h0 : i = 0
  · subst h0; rfl
  · by_cases h1 : i = 1
    · subst h1; rfl
    · simp only [h0, h1, if_false]
      cases i with
      | ofNat n => cases n with
        | zero => exact absurd rfl h0
        | succ n => cases n with
          | zero => exact absurd rfl h1
          | succ n => rfl
      | negSucc n => rfl

/-- a dictionary applied to a strict key looks the key's canonical form up -/
theorem apply_dict (table : List (Val × Key × Arg)) (sp : Span) (v : Val) :
    applyCallee (.dict table) sp [.strict v] =
      call (.keyOf v) (fun r => match r with
        | .key k => (match dictLookup table k with
            | some r => ret r
            | none => throw (builtinErr .notFound sp))
        | _ => bottom) throw := by
  simp only [applyCallee, checkArity, forceArg, callKey, Bind.bind, Comp.bind, pure,
    List.length_cons, List.length_nil, List.contains_cons, List.contains_nil, beq_self_eq_true,
    Bool.or_false, if_true]
  congr 1
  funext r
  cases r <;> rfl

/-- a value that is not callable is a type error -/
theorem apply_not_callable (sp : Span) (args : List Arg) :
    applyCallee .nil sp args = throw (typeErr sp) ∧
    (∀ n, applyCallee (.int n) sp args = throw (typeErr sp)) ∧
    (∀ f, applyCallee (.float f) sp args = throw (typeErr sp)) := by
  refine ⟨rfl, fun _ => rfl, fun _ => rfl⟩

-- non-vacuity: in λx.λy.… the inner function sees itself at 0 and the outer at 1 / -1
example : interpret (.funRef 1 default) ⟨[10, 20], [[], []]⟩ = ret (.strict (.fn 10)) := rfl
example : interpret (.funRef (-1) default) ⟨[10, 20], [[], []]⟩ = ret (.strict (.fn 10)) := rfl

end UH.C02
