/-
[tie A] The finite tables the model uses are the tables of /repo's current source
(`UH/Generated/Tables.lean` is regenerated on every run).
-/
import UH.Model.Machine
import UH.Generated.Tables
namespace UH.Tables
open UH

def sameSet {α} [BEq α] (a b : List α) : Bool := a.all (b.contains ·) && b.all (a.contains ·)

/-- the model's built-in names are exactly the keys of `interpret.BUITLINS` -/
theorem builtinNames_match : sameSet UH.builtinNames Generated.builtinNames = true := by decide +kernel

/-- the model implements every name of the table (no name falls through to "not found") -/
theorem builtins_implemented :
    Generated.builtinNames.all (fun n => (builtinOf (parseNumber n)).isSome) = true := by decide +kernel

/-- every built-in name is the canonical (shortest) spelling of its value, so `find_builtin`'s
lookup by `encode_number(value)` reaches it from any spelling of the same number (C08) -/
theorem builtinNames_canonical :
    Generated.builtinNames.all (fun n => encodeNumber (parseNumber n) == n) = true := by decide +kernel

theorem fileModes_match :
    Generated.fileModes = [([3], "rb"), ([7, 3], "wb"), ([7, 0], "ab"), ([3, 7, 3], "r+b"),
      ([7, 3, 3], "w+b"), ([7, 0, 3], "a+b")] ∧ Generated.fileModes.map (·.1) = UH.fileModes := by
  decide +kernel

theorem fileModes_canonical :
    Generated.fileModes.all (fun m => encodeNumber (parseNumber m.1) == m.1) = true := by decide +kernel

/-- file commands ㄷ close, ㄹ read, ㅈㄹ write, ㅈ seek/tell, ㄱ truncate -/
theorem fileCommands_match : sameSet Generated.fileCommands [[2], [3], [7, 3], [7], [0]] = true := by
  decide +kernel

theorem fileCommands_canonical :
    Generated.fileCommands.all (fun m => encodeNumber (parseNumber m) == m) = true := by decide +kernel

theorem whence_match : Generated.whenceNames = [[6, 7, 5, 2], [7, 0, 5, 2]] := by decide +kernel

theorem whence_canonical :
    Generated.whenceNames.all (fun m => encodeNumber (parseNumber m) == m) = true := by decide +kernel

/-- the exception contents of every error class: the built-in marker 5, then the class code -/
theorem errorCodes_match :
    Generated.errorCodes =
      [("OSError", [5, ErrClass.os.code, 7]), ("ArithmeticError", [5, ErrClass.arithmetic.code]),
       ("SyntaxError", [5, ErrClass.syntax.code]), ("TypeError", [5, ErrClass.type.code]),
       ("ValueError", [5, ErrClass.value.code]), ("DivisionError", [5, ErrClass.division.code]),
       ("NotFoundError", [5, ErrClass.notFound.code]), ("ImportError", [5, ErrClass.import_.code]),
       ("OutOfRangeError", [5, ErrClass.outOfRange.code]),
       ("KeyboardInterruptError", [5, ErrClass.interrupt.code])] := by decide +kernel

theorem codecSchemes_match : Generated.codecSchemes = ["utf", "unsigned", "signed", "float"] := by
  decide +kernel

theorem bmodPaths_match : sameSet UH.bmodPaths Generated.bmodFunctionPaths = true := by decide +kernel

theorem bmodConstants_match :
    sameSet Generated.bmodConstantPaths [[6, 5], [6, 7], [6, 4], [6, 1]] = true := by decide +kernel

theorem maxStackSize_match : UH.maxStackSize = Generated.maxStackSize := by decide

end UH.Tables
