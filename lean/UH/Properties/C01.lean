/-
C01 — a program means exactly its consonant skeleton, in every Unicode spelling.

`Generated.implRuns` / `Generated.tsRuns` are regenerated from /repo's current
source on every run; the first two theorems are therefore re-checked by the
kernel against what the code says now.
-/
import UH.Model.Norm
import UH.Proofs.SpecRuns
import UH.Proofs.Tokenize
import UH.Proofs.Erase
namespace UH.C01
open UH UH.Spec

/-- [tie A] the Python normaliser's table is the specification's table -/
theorem implRuns_eq_spec : Generated.implRuns = specRuns := by decide +kernel

/-- [tie A] the TypeScript normaliser's table is the specification's table -/
theorem tsRuns_eq_spec : Generated.tsRuns = specRuns := by decide +kernel

/-- **every code point normalises as the specification says** -/
theorem norm_eq_spec (c : Nat) : normChar c = specNorm c := by
  unfold normChar; rw [implRuns_eq_spec]; exact specRuns_correct c

theorem ts_eq_spec (u : Nat) : normCharTs u = specNorm u := by
  unfold normCharTs; rw [tsRuns_eq_spec]; exact specRuns_correct u

/-- the two implementations agree on every code unit -/
theorem ts_eq_py (u : Nat) : normCharTs u = normChar u := by rw [ts_eq_spec, norm_eq_spec]

theorem letter_not_syllable (c : Nat) (js : List Jamo) (h : letterOf c = some js) :
    isSyllable c = false := by
  cases hs : isSyllable c with
  | false => rfl
  | true =>
    simp [isSyllable] at hs
    have := lookup_outside letters 0xAC00 0xD7A3 c (by decide +kernel) hs.1 hs.2
    simp [letterOf, this] at h

/-- **every non-Hangul character is a word separator** -/
theorem nonHangul_sep (c : Nat) (h1 : isSyllable c = false) (h2 : letterOf c = none)
    (h3 : inRanges hangulRanges c = false) : normChar c = [Sym.sp] := by
  rw [norm_eq_spec]; simp [specNorm, h1, letterSyms, h2, h3]

/-- **Hangul vowels, tone marks, finals and fillers are ignored** -/
theorem hangul_nonconsonant_deleted (c : Nat) (h1 : isSyllable c = false) (h2 : letterOf c = none)
    (h3 : inRanges hangulRanges c = true) : normChar c = [] := by
  rw [norm_eq_spec]; simp [specNorm, h1, letterSyms, h2, h3]

/-- **a consonant letter contributes exactly the plain consonants of its named components** -/
theorem letter_plain (c : Nat) (js : List Jamo) (h : letterOf c = some js) :
    normChar c = js.flatMap plain := by
  rw [norm_eq_spec]; simp [specNorm, letter_not_syllable c js h, letterSyms, h]

/-- **the same letter contributes the same consonants in whichever block it is written** -/
theorem block_independent (c d : Nat) (js : List Jamo) (hc : letterOf c = some js)
    (hd : letterOf d = some js) : normChar c = normChar d := by
  rw [letter_plain c js hc, letter_plain d js hd]

/-- **a syllable contributes exactly what its initial consonant contributes** -/
theorem syllable_initial (c : Nat) (h : isSyllable c = true) :
    normChar c = normChar (syllableInitial c) := by
  have hk : (c - 0xAC00) / 588 < 19 := by
    simp [isSyllable] at h; omega
  have hall : ∀ k, k < 19 → (letterOf (0x1100 + k)).isSome = true := by decide +kernel
  obtain ⟨js, hjs⟩ := Option.isSome_iff_exists.mp (hall _ hk)
  rw [letter_plain (syllableInitial c) js hjs, norm_eq_spec]
  simp [specNorm, h, letterSyms, syllableInitial, hjs]

theorem lookupRuns_mem (runs : List Run) (c : Nat) :
    lookupRuns runs c = [Sym.sp] ∨ ∃ r ∈ runs, lookupRuns runs c = r.syms := by
  induction runs with
  | nil => left; rfl
  | cons r rs ih =>
    simp only [lookupRuns]
    split
    · right; exact ⟨r, List.mem_cons_self, rfl⟩
    · rcases ih with h | ⟨r', hr', h⟩
      · left; exact h
      · right; exact ⟨r', List.mem_cons_of_mem _ hr', h⟩

/-- **every ㅇ and ㅎ starts a new word**: in every character's normal form each ㅇ/ㅎ is
immediately preceded by a separator -/
theorem norm_shape (c : Nat) : shapeOk (normChar c) = true := by
  unfold normChar; rw [implRuns_eq_spec]
  have hall : specRuns.all (fun r => shapeOk r.syms) = true := by decide +kernel
  rcases lookupRuns_mem specRuns c with h | ⟨r, hr, h⟩
  · rw [h]; decide
  · rw [h]; exact List.all_eq_true.mp hall r hr

/-- every token is a well-formed word, so the parser never meets a foreign shape -/
theorem tokens_wellformed (text : List Nat) :
    ∀ t ∈ tokenize normChar text, (classify t.syms).isSome = true :=
  classify_tokens normChar norm_shape text

/-- a separator splits the token stream; tokens never span a separator -/
theorem tokenizeGo_sep (cur : Option Token) (xs ys : List (Sym × Span)) (p : Span) :
    tokenizeGo cur (xs ++ (Sym.sp, p) :: ys) = tokenizeGo cur xs ++ tokenizeGo none ys := by
  induction xs generalizing cur with
  | nil => cases cur <;> simp [tokenizeGo, Sym.isSp]
  | cons x xs ih =>
    obtain ⟨s, q⟩ := x
    cases cur <;> simp only [List.cons_append, tokenizeGo] <;> split <;> simp [ih]

/-- extra separators are irrelevant -/
theorem tokenizeGo_sep_sep (xs : List (Sym × Span)) (p q : Span) :
    tokenizeGo none ((Sym.sp, p) :: (Sym.sp, q) :: xs) = tokenizeGo none ((Sym.sp, q) :: xs) := by
  simp [tokenizeGo, Sym.isSp]

/-- **any two texts with the same skeleton parse identically** (same trees up to source
positions, or the same kind of syntax error) -/
theorem same_skeleton_same_parse (t1 t2 : List Nat)
    (h : (tokenize normChar t1).map (·.syms) = (tokenize normChar t2).map (·.syms)) :
    resErase (parse normChar t1) = resErase (parse normChar t2) :=
  same_words_same_parse _ _ h

-- non-vacuity: 동 (U+B3D9) ↦ ㄷ like ᄃ (U+1103), ㄷ (U+3137), ﾨ (U+FFA7)… ; ㅿ (U+317F) ↦ ㅅ like ᅀ (U+1140)
example : normChar 0xB3D9 = [.d 2] ∧ normChar 0x1103 = [.d 2] ∧ normChar 0x3137 = [.d 2] := by
  decide +kernel
example : normChar 0x317F = [.d 6] ∧ normChar 0x1140 = [.d 6] := by decide +kernel
example : letterOf 0x317F = letterOf 0x1140 := by decide +kernel
example : normChar 0xD558 = [.sp, .h] ∧ normChar 0x41 = [.sp] ∧ normChar 0x1161 = [] := by decide +kernel

end UH.C01
