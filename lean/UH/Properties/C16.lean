/-
C16 — byte codecs are inverse and bit-exact for every width, order and signedness.
-/
import UH.Model.Codec
import UH.Proofs.Utf
namespace UH.C16
open UH

/-! ### integers ⇄ bytes -/

theorem natToBytesLE_length (w n : Nat) : (natToBytesLE w n).length = w := by
  induction w generalizing n with
  | zero => rfl
  | succ w ih => simp [natToBytesLE, ih]

theorem bytesToNatLE_natToBytesLE (w n : Nat) : bytesToNatLE (natToBytesLE w n) = n % 256 ^ w := by
  induction w generalizing n with
  | zero => simp [natToBytesLE, bytesToNatLE, Nat.mod_one]
  | succ w ih =>
    simp only [natToBytesLE, bytesToNatLE, ih]
    have h1 : (UInt8.ofNat (n % 256)).toNat = n % 256 := by
      simp [UInt8.toNat_ofNat']
    rw [h1, Nat.pow_succ, Nat.mul_comm (256 ^ w) 256]
    exact (Nat.mod_mul).symm

theorem pow256 (w : Nat) : (256 : Nat) ^ w = 2 ^ (8 * w) := by
  rw [Nat.pow_mul]

/-- the bytes decode (little endian, unsigned) to the value modulo 2^(8w): bit-exact two's complement -/
theorem twos_complement (n : Int) (w : Nat) (b : List UInt8) (big signed : Bool)
    (h : intToBytes n w big signed = some b) :
    bytesToNatLE (if big then b.reverse else b) = (n % (2 ^ (8 * w) : Int)).toNat ∧ b.length = w := by
  unfold intToBytes at h
  by_cases hr : intInRange n w signed = true
  · simp only [hr, if_true, Option.some.injEq] at h
    have hm : (n % (2 ^ (8 * w) : Int)).toNat < 256 ^ w := by
      rw [pow256]
      have hp : (0 : Int) < 2 ^ (8 * w) := Int.pow_pos (by omega)
      have h1 := Int.emod_lt_of_pos n hp
      have h2 := Int.emod_nonneg n (Int.ne_of_gt hp)
      have : ((2 : Int) ^ (8 * w)) = ((2 ^ (8 * w) : Nat) : Int) := by simp
      omega
    cases big
    · simp only [Bool.false_eq_true, if_false] at h ⊢
      subst h
      rw [bytesToNatLE_natToBytesLE, Nat.mod_eq_of_lt hm, natToBytesLE_length]
      exact ⟨rfl, rfl⟩
    · simp only [if_true] at h ⊢
      subst h
      rw [List.reverse_reverse, List.length_reverse, bytesToNatLE_natToBytesLE, Nat.mod_eq_of_lt hm,
        natToBytesLE_length]
      exact ⟨rfl, rfl⟩
  · simp [hr] at h

/-- big endian is the reverse of little endian -/
theorem big_is_reverse_little (n : Int) (w : Nat) (signed : Bool) :
    intToBytes n w true signed = (intToBytes n w false signed).map List.reverse := by
  unfold intToBytes
  by_cases hr : intInRange n w signed = true <;> simp [hr]

/-- **range rejection**: a value is encodable iff it lies in the two's-complement (resp. unsigned)
range of the width -/
theorem encodable_iff (n : Int) (w : Nat) (hw : 0 < w) (big signed : Bool) :
    (intToBytes n w big signed).isSome = true ↔
      (if signed then (-(2 ^ (8 * w - 1) : Int) ≤ n ∧ n < (2 ^ (8 * w - 1) : Int))
       else (0 ≤ n ∧ n < (2 ^ (8 * w) : Int))) := by
  unfold intToBytes intInRange
  have hw0 : ¬ (w = 0) := by omega
  simp only [hw0, if_false]
  cases signed <;> simp

/-- **decoding inverts encoding** for every width ≥ 1, order and signedness -/
theorem decode_encode (n : Int) (w : Nat) (hw : 0 < w) (b : List UInt8) (big signed : Bool)
    (h : intToBytes n w big signed = some b) : bytesToInt b big signed = n := by
  obtain ⟨hval, hlen⟩ := twos_complement n w b big signed h
  have hrange := (encodable_iff n w hw big signed).mp (by rw [h]; rfl)
  unfold bytesToInt
  simp only [hval, hlen]
  have hp : (0 : Int) < 2 ^ (8 * w) := Int.pow_pos (by omega)
  have hpn : ((2 ^ (8 * w) : Nat) : Int) = (2 : Int) ^ (8 * w) := by simp
  have hhalf : (2 : Int) ^ (8 * w) = 2 * 2 ^ (8 * w - 1) := by
    have : 8 * w = (8 * w - 1) + 1 := by omega
    conv => lhs; rw [this, Int.pow_succ]
    omega
  have hhalfn : ((2 ^ (8 * w - 1) : Nat) : Int) = (2 : Int) ^ (8 * w - 1) := by simp
  have hhp : (0 : Int) < 2 ^ (8 * w - 1) := Int.pow_pos (by omega)
  cases signed
  · simp only [Bool.false_eq_true, if_false, false_and] at hrange ⊢
    rw [Int.emod_eq_of_lt hrange.1 hrange.2]; omega
  · simp only [if_true, true_and] at hrange ⊢
    by_cases hn : 0 ≤ n
    · have hm : n % 2 ^ (8 * w) = n := Int.emod_eq_of_lt hn (by omega)
      rw [hm]
      have hc : ¬ (0 < w ∧ n.toNat ≥ 2 ^ (8 * w - 1)) := by
        intro ⟨_, hge⟩
        have : ((n.toNat : Nat) : Int) ≥ ((2 ^ (8 * w - 1) : Nat) : Int) := by exact_mod_cast hge
        omega
      rw [if_neg hc]; omega
    · have hm : n % 2 ^ (8 * w) = n + 2 ^ (8 * w) := by
        have h1 : (n + 2 ^ (8 * w)) % 2 ^ (8 * w) = n % 2 ^ (8 * w) := Int.add_emod_right _ _
        rw [← h1]; exact Int.emod_eq_of_lt (by omega) (by omega)
      rw [hm]
      have hc : (0 < w ∧ (n + 2 ^ (8 * w)).toNat ≥ 2 ^ (8 * w - 1)) := by
        refine ⟨hw, ?_⟩
        have : (((n + 2 ^ (8 * w)).toNat : Nat) : Int) ≥ ((2 ^ (8 * w - 1) : Nat) : Int) := by
          rw [hhalfn]; omega
        exact_mod_cast this
      rw [if_pos hc]; omega

/-! ### strings ⇄ bytes (UTF-8 / UTF-16 / UTF-32) -/

/-- **decoding inverts encoding** for every string (list of Unicode scalar values): UTF-8; UTF-16 and UTF-32 with
an explicit byte order (no byte-order mark is written, and a leading U+FEFF / U+FFFE is ordinary payload); and
without an explicit order (a little-endian BOM is written, recognised and removed) -/
theorem utf_decode_encode (width : Nat) (order : Option Bool) (s : List Nat) (hs : ∀ c ∈ s, isScalar c = true)
    (b : List UInt8) (h : utfEncode width order s = some b) : utfDecode width order b = some s :=
  Utf.utf_decode_encode width order s hs b h

/-- the three encodings taken one at a time -/
theorem utf8_decode_encode (s : List Nat) (hs : ∀ c ∈ s, isScalar c = true) : utf8Decode (utf8Encode s) = some s :=
  Utf.utf8_decode_encode s hs
theorem utf16_decode_encode (big : Bool) (s : List Nat) (hs : ∀ c ∈ s, isScalar c = true) :
    utf16Decode big (utf16Encode big s) = some s := Utf.utf16_decode_encode big s hs
theorem utf32_decode_encode (big : Bool) (s : List Nat) (hs : ∀ c ∈ s, isScalar c = true) :
    utf32Decode big (utf32Encode big s) = some s := Utf.utf32_decode_encode big s hs

/-- every width / order combination the module offers does encode (the hypothesis of `utf_decode_encode` is met) -/
theorem utfEncode_total (s : List Nat) :
    (utfEncode 1 none s).isSome ∧ (∀ o, (utfEncode 2 o s).isSome) ∧ (∀ o, (utfEncode 4 o s).isSome) := by
  refine ⟨rfl, ?_, ?_⟩ <;> intro o <;> cases o <;> rfl

-- examples: a leading U+FEFF survives the explicit-order converters; the BOM form removes exactly its own mark;
-- strict decoding rejects surrogates, over-long forms and odd lengths
example : utfDecode 2 (some true) (utf16Encode true [0xFEFF, 0x61]) = some [0xFEFF, 0x61] ∧
    utfDecode 2 (some false) (utf16Encode false [0xFFFE, 0x61]) = some [0xFFFE, 0x61] ∧
    utfDecode 4 (some true) (utf32Encode true [0xFEFF]) = some [0xFEFF] ∧
    (utfEncode 2 none [0xFEFF, 0x1F600]).bind (utfDecode 2 none) = some [0xFEFF, 0x1F600] := by decide +kernel
example : utf8Decode [0xED, 0xA0, 0x80] = none ∧ utf8Decode [0xC0, 0x80] = none ∧ utf8Decode [0xF4, 0x90, 0x80, 0x80] = none ∧
    utf16Decode false [0x00, 0xD8] = none ∧ utf16Decode false [0x61] = none ∧ utf32Decode false [0, 0xD8, 0, 0] = none := by
  decide +kernel

-- examples
example : intToBytes (-1) 2 false true = some [255, 255] ∧ intToBytes 258 2 true false = some [1, 2] ∧
    intToBytes 128 1 false true = none ∧ intToBytes (-129) 1 false true = none := by decide +kernel

end UH.C16
