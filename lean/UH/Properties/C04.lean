/- placeholder replaced below -/
import UH.Model.Machine
namespace UH.C04
theorem placeholder : True := trivial
end UH.C04
