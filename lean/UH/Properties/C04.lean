/-
C04 — every failure is a language-level exception.

In the model an evaluation can only end in: a value, a language exception
(`ErrV`: code list + source locations), the explicit stack-limit report, or —
for inputs the parser cannot produce / behaviour outside the model — the
`bottom` / `unmodelled` markers.  There is no constructor for a host crash: every
built-in is a total function into `Comp`.  The theorems below state what makes a
language exception *interceptable*: whatever its contents, an exception raised
inside the first argument of ㅅㄷ / the action bound by ㄱㄹ is delivered to the
handler; every built-in failure carries the marker 5, a class code from
`error.py` (table regenerated from the source, `Tables.errorCodes_match`) and a
location; syntax errors are language exceptions.
That the *implementation* has no escaping host exception is established by the
call-shape matrix of the correspondence (harness/uh/props/c04.py).
-/
import UH.Model.Main
import UH.Properties.Tables
namespace UH.C04
open UH Comp

/-- every built-in failure: contents begin `[5, class code]`, exactly one source location -/
theorem builtinErr_shape (c : ErrClass) (sp : Span) (extra : List Int) :
    (builtinErr c sp extra).metas = [sp] ∧
    (builtinErr c sp extra).vals = Val.int 5 :: Val.int c.code :: extra.map Val.int := by
  constructor
  · rfl
  · simp [builtinErr]; decide

/-- the ten class codes are pairwise distinct (an exception identifies its class) -/
theorem class_codes_distinct (a b : ErrClass) (h : a.code = b.code) : a = b := by
  cases a <;> cases b <;> first | rfl | (exfalso; revert h; decide)

/-- the argument checks of `utils.py` fail with the type / value class -/
theorem checkType_fails (sp : Span) (vs : List Val) (p : Val → Bool) (h : vs.all p = false) :
    checkType sp vs p = throw (builtinErr .type sp) := by
  simp [checkType, h, typeErr]

theorem checkArity_fails (sp : Span) (n : Nat) (as : List Nat) (h : n ∉ as) :
    checkArity sp n as = throw (builtinErr .value sp) := by
  simp [checkArity, h, valueErr]

/-- an unknown built-in name is a NotFound exception at the call -/
theorem unknown_builtin (sp : Span) (n : Int) (h : isBuiltinName n = false) :
    checkCallee isBuiltinName sp (.builtin n) true = throw (builtinErr .notFound sp) := by
  simp [checkCallee, h]

/-- calling something that is not callable is a type exception at the call -/
theorem not_callable (sp : Span) (v : Val) (h : v.isCallable = false) (hb : ∀ n, v ≠ .builtin n) :
    checkCallee isBuiltinName sp v true = throw (builtinErr .type sp) := by
  cases v <;> simp_all [checkCallee, typeErr]

/-- **ㅅㄷ intercepts every exception of its first argument**, whatever its contents: the
sub-evaluation's exception continuation *is* the handler call -/
theorem try_catches (sp : Span) (body handler : Arg) :
    bTry isBuiltinName sp [body, handler] =
      call (.recStrict body)
        (fun r => match r with | .arg a => ret a | _ => bottom)
        (fun err => do
          let f ← strictFunctional sp handler
          checkCallee isBuiltinName sp f false
          callArg (.apply f sp [.strict (.err err.metas err.vals)])) := by
  simp only [bTry, checkArity, callArg, Bind.bind, Comp.bind, List.length_cons, List.length_nil,
    List.contains_cons, List.contains_nil, beq_self_eq_true, Bool.or_false, if_true, Comp.tryCatch]
  congr 1
  funext r
  cases r <;> rfl

/-- the handler receives the exception value intact -/
theorem try_handler_gets_exception (sp : Span) (body handler : Arg) (e : ErrV) (f : Val)
    (hf : strictFunctional sp handler = ret f) (hc : checkCallee isBuiltinName sp f false = ret ()) :
    (match bTry isBuiltinName sp [body, handler] with
     | .call _ _ ke => ke e
     | c => c) = callArg (.apply f sp [.strict (.err e.metas e.vals)]) := by
  rw [try_catches]
  simp [hf, hc, Bind.bind, Comp.bind]

/-- **ㄱㄹ with a handler intercepts every exception raised while executing its first action** -/
theorem bind_handler_catches (argv : List Arg) (sp : Span) (io0 resolve rej : Val) (e : ErrV) :
    (match ioCont .bind argv sp (some (io0, resolve, some rej)) with
     | .call (.doIO v) _ ke => some (v, ke e)
     | _ => none) =
    some (io0, do
      checkCallee isBuiltinName sp rej false
      let r ← callArg (.apply rej sp [.strict (.err e.metas e.vals)])
      let rv ← forceArg r
      checkType sp [rv] Val.isIO
      retV rv) := by
  simp [ioCont]

/-- without a handler the exception propagates unchanged -/
theorem bind_no_handler_propagates (argv : List Arg) (sp : Span) (io0 resolve : Val) (e : ErrV) :
    (match ioCont .bind argv sp (some (io0, resolve, none)) with
     | .call (.doIO v) _ ke => some (v, ke e)
     | _ => none) = some (io0, throw e) := by
  simp [ioCont]

/-- in the evaluator an exception raised by a sub-coroutine goes to the innermost pending
exception continuation — there is no class of exception that bypasses it -/
theorem step_delivers_exception (m : MState) (f : Frame) (rest : List Frame) (e : ErrV)
    (kt : Kont) (ks : List Kont)
    (hs : m.status = .running) (ht : m.tail = f :: rest) (hr : m.resp = none)
    (hc : f.cur = .throw e) (hk : f.konts = kt :: ks) :
    (step m).tail = { f with konts := ks, cur := kt.ke e } :: rest := by
  unfold step
  simp [hs, ht, hr, hc, hk]

/-- a text that does not parse ends in a language exception of the syntax class, located at the
offending word -/
theorem syntax_error_is_language_exception (fuel : Nat) (w : World) (text : List Nat) (fio : Bool)
    (pe : PErr) (h : parse normChar text = .error pe) :
    ∃ s, (runMain fuel w text fio).outcome = .err (builtinErr .syntax pe.span) s := by
  simp [runMain, h]

-- the error class codes are those of error.py (regenerated table)
example : ErrClass.type.code = 0 ∧ ErrClass.value.code = -39 ∧ ErrClass.outOfRange.code = -5 ∧
    ErrClass.division.code = -9 ∧ ErrClass.syntax.code = -44 := by decide

end UH.C04
