/-
C09 — parsing is the documented postfix stack machine.

* `parse_unparse`      : printing any tree in postfix and parsing it returns the tree (spans included)
* `parse_forest`       : a text yields as many trees as its words leave on the stack
* `parseWord_total`    : every word either extends the stack or is rejected with a syntax
                         error naming exactly that word's span (never `malformed` on tokenizer output:
                         `classify_tokens`, in C09Tokens over the regenerated table)
* `stack_effect`       : the stack-height effect of each word
-/
import UH.Model.Parse
import UH.Properties.C08
namespace UH.C09
open UH

/-- symbols of a word -/
def Word.toSyms : Word → List Sym
  | .lit ds => ds.map Sym.d
  | .h ds => Sym.h :: ds.map Sym.d
  | .o ds => Sym.o :: ds.map Sym.d

theorem symDigits_map (ds : List Digit) : symDigits (ds.map Sym.d) = some ds := by
  induction ds with
  | nil => rfl
  | cons d ds ih => simp [symDigits, ih]

/-- `classify` reads back every word (literals are non-empty) -/
theorem classify_toSyms (w : Word) (hw : ∀ ds, w = .lit ds → ds ≠ []) :
    classify (Word.toSyms w) = some w := by
  cases w with
  | lit ds =>
    cases ds with
    | nil => exact absurd rfl (hw [] rfl)
    | cons d ds => simp [Word.toSyms, classify, symDigits_map]
  | h ds => simp [Word.toSyms, classify, symDigits_map]
  | o ds => simp [Word.toSyms, classify, symDigits_map]

def tok (w : Word) (sp : Span) : Token := ⟨Word.toSyms w, sp⟩

mutual
/-- postfix printing of a tree, as tokens carrying the node spans -/
def unparse : AST → List Token
  | .lit n sp => [tok (.lit (encodeNumber n)) sp]
  | .funRef r sp => [tok (.lit (encodeNumber r)) sp, tok (.o []) sp]
  | .argRef a r sp => unparse a ++ [tok (.o (encodeNumber r)) sp]
  | .funDef b sp => unparse b ++ [tok (.h []) sp]
  | .call f args sp => unparseList args ++ unparse f ++ [tok (.h (encodeNumber args.length)) sp]
  | .bomb => []
def unparseList : List AST → List Token
  | [] => []
  | a :: as => unparse a ++ unparseList as
end

mutual
/-- trees the parser can produce (no C03 marker) -/
def noBomb : AST → Prop
  | .lit _ _ => True
  | .funRef _ _ => True
  | .argRef a _ _ => noBomb a
  | .funDef b _ => noBomb b
  | .call f args _ => noBomb f ∧ noBombList args
  | .bomb => False
def noBombList : List AST → Prop
  | [] => True
  | a :: as => noBomb a ∧ noBombList as
end

theorem parseTokens_append (s : List AST) (w1 w2 : List Token) (s' : List AST) :
    parseTokens s w1 = .ok s' → parseTokens s (w1 ++ w2) = parseTokens s' w2 := by
  induction w1 generalizing s with
  | nil => intro h; simp [parseTokens] at h; subst h; rfl
  | cons w ws ih =>
    intro h
    simp only [parseTokens, List.cons_append] at h ⊢
    cases hs : parseToken w s with
    | ok s1 => simp [hs] at h ⊢; exact ih s1 h
    | error e => simp [hs] at h

theorem parseToken_lit (n : Int) (sp : Span) (s : List AST) :
    parseToken (tok (.lit (encodeNumber n)) sp) s = .ok (s ++ [.lit n sp]) := by
  have hne := C08.encode_ne_nil n
  simp only [parseToken, tok]
  rw [classify_toSyms _ (by intro ds h; cases h; exact hne)]
  simp [parseWord, C08.parse_encode]

theorem parseToken_o_nil (sp : Span) (s : List AST) (n : Int) (sp' : Span) :
    parseToken (tok (.o []) sp) (s ++ [.lit n sp']) = .ok (s ++ [.funRef n sp]) := by
  simp only [parseToken, tok]
  rw [classify_toSyms _ (by intro ds h; cases h)]
  simp [parseWord]

theorem parseToken_o (r : Int) (sp : Span) (s : List AST) (a : AST) :
    parseToken (tok (.o (encodeNumber r)) sp) (s ++ [a]) = .ok (s ++ [.argRef a r sp]) := by
  simp only [parseToken, tok]
  rw [classify_toSyms _ (by intro ds h; cases h)]
  have hne := C08.encode_ne_nil r
  cases he : encodeNumber r with
  | nil => exact absurd he hne
  | cons d ds => simp [parseWord, ← he, C08.parse_encode]

theorem parseToken_h_nil (sp : Span) (s : List AST) (b : AST) :
    parseToken (tok (.h []) sp) (s ++ [b]) = .ok (s ++ [.funDef b sp]) := by
  simp only [parseToken, tok]
  rw [classify_toSyms _ (by intro ds h; cases h)]
  simp [parseWord]

theorem parseToken_h (sp : Span) (s : List AST) (f : AST) (args : List AST) :
    parseToken (tok (.h (encodeNumber args.length)) sp) (s ++ args ++ [f])
      = .ok (s ++ [.call f args sp]) := by
  simp only [parseToken, tok]
  rw [classify_toSyms _ (by intro ds h; cases h)]
  have hne := C08.encode_ne_nil (args.length : Int)
  cases he : encodeNumber (args.length : Int) with
  | nil => exact absurd he hne
  | cons d ds =>
    have h1 : ¬ ((args.length : Int) < 0) := by omega
    have h2 : ¬ (s.length + args.length < args.length) := by omega
    simp [parseWord, ← he, C08.parse_encode, h1, h2]

mutual
/-- **round trip**: parsing the postfix print of `t` pushes exactly `t` -/
theorem parse_unparse (t : AST) (ht : noBomb t) :
    ∀ s, parseTokens s (unparse t) = .ok (s ++ [t]) := by
  cases t with
  | lit n sp => intro s; simp [unparse, parseTokens, parseToken_lit]
  | funRef r sp =>
    intro s
    simp [unparse, parseTokens, parseToken_lit, parseToken_o_nil]
  | argRef a r sp =>
    intro s
    have ih := parse_unparse a (by simpa [noBomb] using ht) s
    simp only [unparse]
    rw [parseTokens_append _ _ _ _ ih]
    simp [parseTokens, parseToken_o]
  | funDef b sp =>
    intro s
    have ih := parse_unparse b (by simpa [noBomb] using ht) s
    simp only [unparse]
    rw [parseTokens_append _ _ _ _ ih]
    simp [parseTokens, parseToken_h_nil]
  | call f args sp =>
    intro s
    simp only [noBomb] at ht
    have ih1 := parse_unparseList args ht.2 s
    have ih2 := parse_unparse f ht.1 (s ++ args)
    simp only [unparse, List.append_assoc]
    rw [parseTokens_append _ _ _ _ ih1, parseTokens_append _ _ _ _ ih2]
    simp only [parseTokens, parseToken_h]
  | bomb => simp [noBomb] at ht
theorem parse_unparseList (ts : List AST) (ht : noBombList ts) :
    ∀ s, parseTokens s (unparseList ts) = .ok (s ++ ts) := by
  cases ts with
  | nil => intro s; simp [unparseList, parseTokens]
  | cons a as =>
    intro s
    simp only [noBombList] at ht
    have ih1 := parse_unparse a ht.1 s
    have ih2 := parse_unparseList as ht.2 (s ++ [a])
    simp only [unparseList]
    rw [parseTokens_append _ _ _ _ ih1, ih2]; simp
end

/-- **a text yields as many trees as its words leave on the stack**: printing a
forest and parsing it from the empty stack returns the forest -/
theorem parse_forest (ts : List AST) (ht : noBombList ts) :
    parseTokens [] (unparseList ts) = .ok ts := by
  simpa using parse_unparseList ts ht []

/-- stack-height effect of a word: literal +1, `ㅎ`/`ㅇ`/`ㅇm` ±0, `ㅎn` −n -/
def Word.effect : Word → Int
  | .lit _ => 1
  | .h [] => 0
  | .h (d :: ds) => - parseNumber (d :: ds)
  | .o _ => 0

/-- **totality + stack effect**: a word either is rejected with a syntax error carrying exactly
its own span, or changes the stack height by its documented effect -/
theorem parseWord_total (w : Word) (sp : Span) (s : List AST) :
    (∃ e, parseWord w sp s = .error e ∧ e.span = sp ∧ e.kind ≠ .malformed) ∨
    (∃ s', parseWord w sp s = .ok s' ∧ (s'.length : Int) = s.length + Word.effect w) := by
  have hlen : ∀ a, s.getLast? = some a → 0 < s.length := by
    intro a hl
    cases s with
    | nil => simp at hl
    | cons x xs => simp
  cases w with
  | lit ds => right; exact ⟨_, rfl, by simp [Word.effect]⟩
  | h ds =>
    cases ds with
    | nil =>
      simp only [parseWord]
      cases hl : s.getLast? with
      | none => left; exact ⟨_, rfl, rfl, by simp⟩
      | some b =>
        have := hlen b hl
        right; refine ⟨_, rfl, ?_⟩
        simp [Word.effect, List.length_dropLast]; omega
    | cons d ds =>
      simp only [parseWord]
      by_cases hneg : parseNumber (d :: ds) < 0
      · left; simp only [hneg, if_true]; exact ⟨_, rfl, rfl, by simp⟩
      · simp only [hneg, if_false]
        cases hl : s.getLast? with
        | none => left; exact ⟨_, rfl, rfl, by simp⟩
        | some f =>
          have := hlen f hl
          simp only []
          by_cases hfew : s.dropLast.length < (parseNumber (d :: ds)).toNat
          · left; simp only [hfew, if_true]; exact ⟨_, rfl, rfl, by simp⟩
          · right; simp only [hfew, if_false]
            refine ⟨_, rfl, ?_⟩
            simp [Word.effect, List.length_dropLast] at hfew ⊢
            omega
  | o ds =>
    cases ds with
    | nil =>
      simp only [parseWord]
      cases hl : s.getLast? with
      | none => left; exact ⟨_, rfl, rfl, by simp⟩
      | some a =>
        have := hlen a hl
        cases a with
        | lit n sp' =>
          right; refine ⟨_, rfl, ?_⟩
          simp [Word.effect, List.length_dropLast]; omega
        | _ => left; exact ⟨_, rfl, rfl, by simp⟩
    | cons d ds =>
      simp only [parseWord]
      cases hl : s.getLast? with
      | none => left; exact ⟨_, rfl, rfl, by simp⟩
      | some a =>
        have := hlen a hl
        right; refine ⟨_, rfl, ?_⟩
        simp [Word.effect, List.length_dropLast]; omega

/-- every node created by a word records exactly that word's span -/
theorem parseWord_span (w : Word) (sp : Span) (s s' : List AST) (h : parseWord w sp s = .ok s') :
    ∃ r t, s' = r ++ [t] ∧ t.span = sp := by
  cases w with
  | lit ds => simp [parseWord] at h; subst h; exact ⟨_, _, rfl, rfl⟩
  | h ds =>
    cases ds with
    | nil =>
      simp only [parseWord] at h
      split at h
      · cases h
      · cases h; exact ⟨_, _, rfl, rfl⟩
    | cons d ds =>
      simp only [parseWord] at h
      split at h
      · cases h
      · split at h
        · cases h
        · split at h
          · cases h
          · cases h; exact ⟨_, _, rfl, rfl⟩
  | o ds =>
    cases ds with
    | nil =>
      simp only [parseWord] at h
      split at h
      · cases h
      · cases h; exact ⟨_, _, rfl, rfl⟩
      · cases h
    | cons d ds =>
      simp only [parseWord] at h
      split at h
      · cases h
      · cases h; exact ⟨_, _, rfl, rfl⟩

-- non-vacuity: `ㄴ ㄴㄱ ㄹ ㅎ ㅎㄷ` (docs/spec.md:88) round-trips
example : parseTokens [] (unparse (.call (.funDef (.lit 3 ⟨0,6,7⟩) ⟨0,8,9⟩)
    [.lit 1 ⟨0,0,1⟩, .lit (-1) ⟨0,2,4⟩] ⟨0,10,12⟩))
  = .ok [.call (.funDef (.lit 3 ⟨0,6,7⟩) ⟨0,8,9⟩) [.lit 1 ⟨0,0,1⟩, .lit (-1) ⟨0,2,4⟩] ⟨0,10,12⟩] :=
  parse_unparse _ (by simp [noBomb, noBombList]) []

end UH.C09
