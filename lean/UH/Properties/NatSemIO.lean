/-
Big-step theorems used by C07 (I/O only on execution, in bind order) and C10 (throw / try deliver the raised
exception through every strict position); proofs in UH/Proofs/NatSemIO.lean.  All of them are statements about
`BigStep.Eval`, which the machine realises (`NatSemP.bigstep_sound_comp`, `bigstep_run_head`).
-/
import UH.Proofs.NatSemIO
import UH.Proofs.MonadLaws
import UH.Properties.NatSem
namespace UH.NatSemIOP
open UH BigStep Comp

/-- the result, final store and final world of the head coroutine are unique -/
theorem head_deterministic {s w c h1 h2 r1 r2 s1 s2 w1 w2}
    (e1 : Eval s w (.comp c) h1 r1 s1 w1) (e2 : Eval s w (.comp c) h2 r2 s2 w2)
    (hh1 : h1 < maxStackSize) (hh2 : h2 < maxStackSize) : r1 = r2 ∧ s1 = s2 ∧ w1 = w2 :=
  Eval.head_deterministic e1 e2 hh1 hh2

/-! ### C10 -/

/-- **sequencing**: first the coroutine, then the continuation on its result -/
theorem sequencing {s w c h x s1 w1 k r s' w'} (hc : Eval s w (.comp c) h (.ok x) s1 w1)
    (hk : Eval s1 w1 (.comp (k x)) h r s' w') : Eval s w (.comp (c.bind k)) h r s' w' := hc.bind hk

/-- **an exception propagates through every strict position**: if the first part of a coroutine raises `e`, the whole
raises `e` — with the same contents and locations (`e` is the very `ErrV`), whatever would have followed -/
theorem exception_propagates {s w c h e s1 w1} (k : Res → Comp Res) (hc : Eval s w (.comp c) h (.error e) s1 w1) :
    Eval s w (.comp (c.bind k)) h (.error e) s1 w1 := hc.bind_raises k

/-- … in particular through a demand (`yield expr`): a failing delayed expression fails its user -/
theorem exception_through_force {s w h t e s1 w1} (lit : Option Int) (k : Val → Comp Res)
    (hn : (s.getCell t).value = none) (hf : Eval s w (.frame t) h (.error e) s1 w1) :
    Eval s w (.comp ((forceArg (.thunk t lit)).bind k)) h (.error e) s1 w1 :=
  Raises.forceEval lit hn hf k

/-- … and **a failed sub-expression fails identically each time its value is needed again**: the cell holds the
exception, the demand is answered from it in the same store and world -/
theorem failure_shared {s : Store} {w h t e} (lit : Option Int) (k : Val → Comp Res)
    (hv : (s.getCell t).value = some (.error e)) :
    Eval s w (.comp ((forceArg (.thunk t lit)).bind k)) h (.error e) s w := by
  simp only [forceArg, Comp.bind]
  exact .forceErr hv (.throw _ _ _ _)

/-- `try` around a body that does not raise: the handler is not run -/
theorem try_no_raise {s w c h x s1 w1} (hd : ErrV → Comp Res) (hc : Eval s w (.comp c) h (.ok x) s1 w1) :
    Eval s w (.comp (c.tryCatch hd)) h (.ok x) s1 w1 := hc.tryCatch_ok hd

/-- `try` around a body that raises `e`: the handler receives exactly `e` -/
theorem try_raise {s w c h e s1 w1 hd r s' w'} (hc : Eval s w (.comp c) h (.error e) s1 w1)
    (hh : Eval s1 w1 (.comp (hd e)) h r s' w') : Eval s w (.comp (c.tryCatch hd)) h r s' w' :=
  hc.tryCatch_raises hh

/-! ### C07 -/

theorem io_value_ends (s : Store) (w : World) (h : Nat) (v : Val) (hv : v.isIO = false) :
    Exec s w v h (.strict v) s w := exec_value s w h v hv

theorem io_print (s : Store) (w : World) (h : Nat) (sp : Span) (str : String) :
    Exec s w (.io .print [.strict (.str str)] sp none) h (.strict .nil) s
      { w with stdout := ('\n' :: str.toList.reverse) ++ w.stdout } := exec_print s w h sp str

theorem io_input_eof (s : Store) (w : World) (h : Nat) (sp : Span) (hw : w.stdin = []) :
    Exec s w (.io .input [] sp none) h (.strict .nil) s w := exec_input_eof s w h sp hw

theorem io_input_line (s : Store) (w : World) (h : Nat) (sp : Span) (hw : w.stdin.isEmpty = false) :
    Exec s w (.io .input [] sp none) h
      (.strict (.str (String.ofList (w.stdin.takeWhile (· != '\n'))))) s
      { w with stdin := (w.stdin.dropWhile (· != '\n')).drop 1 } := exec_input_line s w h sp hw

theorem io_return (s : Store) (w : World) (h : Nat) (sp : Span) (v : Val) (hv : v.isIO = false) :
    Exec s w (.io .ret [.strict v] sp none) h (.strict v) s w := exec_return s w h sp v hv

/-- **bind order** (see `BigStep.exec_bind`) -/
theorem io_bind_order {s w h argv sp io0 f a s1 w1 r s2 w2 rv s3 w3 res s4 w4}
    (hf : f.isFunction = true)
    (h1 : Exec s w io0 h a s1 w1)
    (h2 : Eval s1 w1 (.comp (expand (.apply f sp [a]))) h (.ok (.arg r)) s2 w2)
    (h3 : EvalTo s2 w2 (forceArg r) h rv s3 w3)
    (hio : rv.isIO = true)
    (h4 : Exec s3 w3 rv h res s4 w4) :
    Exec s w (.io .bind argv sp (some (io0, f, none))) h res s4 w4 := exec_bind hf h1 h2 h3 hio h4

theorem io_bind_propagates {s w h argv sp io0 f e s1 w1}
    (h1 : Eval s w (.comp (expand (.doIO io0))) h (.error e) s1 w1) :
    Raises s w (doIO (.io .bind argv sp (some (io0, f, none)))) h e s1 w1 := exec_bind_raises h1

theorem io_bind_handler {s w h argv sp io0 f rej e s1 w1 r s2 w2 rv s3 w3 res s4 w4}
    (hrej : rej.isFunction = true)
    (h1 : Eval s w (.comp (expand (.doIO io0))) h (.error e) s1 w1)
    (h2 : Eval s1 w1 (.comp (expand (.apply rej sp [.strict (.err e.metas e.vals)]))) h (.ok (.arg r)) s2 w2)
    (h3 : EvalTo s2 w2 (forceArg r) h rv s3 w3)
    (hio : rv.isIO = true)
    (h4 : Exec s3 w3 rv h res s4 w4) :
    Exec s w (.io .bind argv sp (some (io0, f, some rej))) h res s4 w4 := exec_bind_handler hrej h1 h2 h3 hio h4

/-- executing an action through the machine: `ㅈㄹ` from the top level -/
theorem io_run_print (s : Store) (w : World) (sp : Span) (str : String) :
    ∃ n, (runN n (initState s w (expand (.doIO (.io .print [.strict (.str str)] sp none))))).status
        = .done (.ok (.arg (.strict .nil))) ∧
      (runN n (initState s w (expand (.doIO (.io .print [.strict (.str str)] sp none))))).world
        = { w with stdout := ('\n' :: str.toList.reverse) ++ w.stdout } := run_print s w sp str

/-- two prints in sequence through the loop of `do_IO`: the first string precedes the second in the output
(a closed instance of `exec_step`; the premises of the rules are satisfiable) -/
example (s : Store) (w : World) (sp : Span) :
    ∃ w1 w2, Exec s w (.io .print [.strict (.str "a")] sp none) 1 (.strict .nil) s w1 ∧
      Exec s w1 (.io .print [.strict (.str "b")] sp none) 1 (.strict .nil) s w2 ∧
      w2.stdout = '\n' :: 'b' :: '\n' :: 'a' :: w.stdout :=
  ⟨_, _, exec_print s w 1 sp "a", exec_print s _ 1 sp "b", rfl⟩

/-! ### the monad laws of the I/O actions (C07) -/

/-- **left identity**: executing `(ㄱㅅ v) ㄱㄹ f` does what evaluating `f v` and executing the action it gives does — same
result, same final store, same final world (the judgment is deterministic, so "does what" is an equality of outcomes) -/
theorem monad_left_identity {s w h argv sp sp' f v r s2 w2 rv s3 w3 res s4 w4}
    (hcc : checkCallee isBuiltinName sp f false = Comp.ret ())
    (hv : v.isIO = false)
    (h2 : Eval s w (.comp (expand (.apply f sp [.strict v]))) h (.ok (.arg r)) s2 w2)
    (h3 : EvalTo s2 w2 (forceArg r) h rv s3 w3)
    (hio : rv.isIO = true)
    (h4 : Exec s3 w3 rv h res s4 w4) :
    Exec s w (.io .bind argv sp (some (.io .ret [.strict v] sp' none, f, none))) h res s4 w4 :=
  exec_left_identity hcc hv h2 h3 hio h4

/-- **right identity**: executing `m ㄱㄹ ㄱㅅ` does what executing `m` does, for every action `m` whose result has no
components (a number, Boolean, string, byte string, the empty value, a function): the continuation `ㄱㅅ` — named by any
literal that spells ㄱㅅ — evaluates nothing and performs nothing -/
theorem monad_right_identity {s w h argv sp m v s1 w1} (n : Int)
    (hn : encodeNumber n = [0, 6]) (hv : isAtom v = true) (hio : v.isIO = false)
    (h1 : Exec s w m h (.strict v) s1 w1) :
    Exec s w (.io .bind argv sp (some (m, .builtin n, none))) h (.strict v) s1 w1 :=
  exec_right_identity n hn hv hio h1

/-- … and for every *completely evaluated* result — values without components and lists of completely evaluated values, nested to
any depth `d` (`DeepN d v`): ㄱㅅ's complete evaluation of its argument finds nothing left to evaluate -/
theorem monad_right_identity_deep {s w h argv sp m v s1 w1} (n : Int) (d : Nat)
    (hn : encodeNumber n = [0, 6]) (hv : DeepN d v) (hio : v.isIO = false)
    (h1 : Exec s w m h (.strict v) s1 w1) :
    Exec s w (.io .bind argv sp (some (m, .builtin n, none))) h (.strict v) s1 w1 :=
  exec_right_identity_deep n d hn hv hio h1

/-- **sequencing of a left-nested bind**: `(m ㄱㄹ f) ㄱㄹ g` executes `m`, then the action of `f`, then the action of `g` -/
theorem monad_sequencing {s w h argv argv' sp sp' m f g a s1 w1 r s2 w2 rv s3 w3 b s4 w4 r' s5 w5 rv' s6 w6 res s7 w7}
    (hf : checkCallee isBuiltinName sp' f false = Comp.ret ())
    (hg : checkCallee isBuiltinName sp g false = Comp.ret ())
    (h1 : Exec s w m h a s1 w1)
    (h2 : Eval s1 w1 (.comp (expand (.apply f sp' [a]))) h (.ok (.arg r)) s2 w2)
    (h3 : EvalTo s2 w2 (forceArg r) h rv s3 w3) (hio : rv.isIO = true)
    (h4 : Exec s3 w3 rv h b s4 w4)
    (h5 : Eval s4 w4 (.comp (expand (.apply g sp [b]))) h (.ok (.arg r')) s5 w5)
    (h6 : EvalTo s5 w5 (forceArg r') h rv' s6 w6) (hio' : rv'.isIO = true)
    (h7 : Exec s6 w6 rv' h res s7 w7) :
    Exec s w (.io .bind argv sp (some (.io .bind argv' sp' (some (m, f, none)), g, none))) h res s7 w7 :=
  exec_bind_bind hf hg h1 h2 h3 hio h4 h5 h6 hio' h7

/-- closed instances (the premises are satisfiable): `(ㅈㄹ "a") ㄱㄹ ㄱㅅ` writes `a` and a newline and yields the empty value,
exactly as `ㅈㄹ "a"` does; `(ㄱㅅ 7) ㄱㄹ ㄱㅅ` — left and right identity at once — yields 7 and touches nothing -/
example (s : Store) (w : World) (sp : Span) :
    Exec s w (.io .bind [] sp (some (.io .print [.strict (.str "a")] sp none, .builtin (-48), none))) 1 (.strict .nil) s
      { w with stdout := '\n' :: 'a' :: w.stdout } :=
  monad_right_identity (-48) (by decide +kernel) rfl rfl (exec_print s w 1 sp "a")

example (s : Store) (w : World) (sp : Span) :
    Exec s w (.io .bind [] sp (some (.io .ret [.strict (.int 7)] sp none, .builtin (-48), none))) 1 (.strict (.int 7)) s w :=
  monad_right_identity (-48) (by decide +kernel) rfl rfl (exec_return s w 1 sp (.int 7) rfl)

/-- a closed instance with a nested result: `(ㄱㅅ [1, [2]]) ㄱㄹ ㄱㅅ` yields `[1, [2]]` and touches nothing -/
example (s : Store) (w : World) (sp : Span) :
    Exec s w (.io .bind [] sp (some (.io .ret [.strict (.list [.strict (.int 1), .strict (.list [.strict (.int 2)])])] sp none,
      .builtin (-48), none))) 1 (.strict (.list [.strict (.int 1), .strict (.list [.strict (.int 2)])])) s w := by
  refine monad_right_identity_deep (-48) 2 (by decide +kernel) ?_ rfl (exec_return s w 1 sp _ rfl)
  refine Or.inr ⟨[.int 1, .list [.strict (.int 2)]], rfl, ?_⟩
  intro x hx
  simp only [List.mem_cons, List.not_mem_nil, or_false] at hx
  rcases hx with rfl | rfl
  · exact Or.inl rfl
  · exact Or.inr ⟨[.int 2], rfl, fun y hy => by simp only [List.mem_cons, List.not_mem_nil, or_false] at hy; subst hy; rfl⟩

end UH.NatSemIOP
