import UH.Model.Interp
namespace UH.C18
theorem placeholder : True := trivial
end UH.C18
