/-
C18 — printed form is canonical and re-readable; exit status is the program's result.
-/
import UH.Model.Main
namespace UH.C18
open UH

/-! ### a dictionary prints its entries sorted by printed key, whatever the insertion order -/

theorem sortByKey_cons (p : String × String) (l : List (String × String)) :
    sortByKey (p :: l) = insertByKey p (sortByKey l) := by
  simp [sortByKey, List.foldl_append]

theorem insert_comm (a b : String × String) (h : a.1 < b.1) :
    ∀ l, insertByKey a (insertByKey b l) = insertByKey b (insertByKey a l) := by
  have hba : ¬ (b.1 < a.1) := String.lt_asymm h
  intro l
  induction l with
  | nil => simp [insertByKey, h, hba]
  | cons q r ih =>
    by_cases hqa : q.1 < a.1
    · have hqb : q.1 < b.1 := String.lt_trans hqa h
      simp [insertByKey, hqa, hqb, ih]
    · by_cases hqb : q.1 < b.1
      · simp [insertByKey, hqa, hqb, h]
      · simp [insertByKey, hqa, hqb, h, hba]

theorem insert_comm_ne (a b : String × String) (hne : a.1 ≠ b.1) (l : List (String × String)) :
    insertByKey a (insertByKey b l) = insertByKey b (insertByKey a l) := by
  rcases String.le_total a.1 b.1 with h | h
  · have : a.1 < b.1 := by
      rcases Decidable.em (a.1 < b.1) with h' | h'
      · exact h'
      · exact absurd (String.le_antisymm h (String.not_lt.mp h')) hne
    exact insert_comm a b this l
  · have : b.1 < a.1 := by
      rcases Decidable.em (b.1 < a.1) with h' | h'
      · exact h'
      · exact absurd (String.le_antisymm (String.not_lt.mp h') h) hne
    exact (insert_comm b a this l).symm

/-- **insertion order does not matter**: two entry lists that are permutations of each other, with
distinct printed keys, are printed in the same order -/
theorem sortByKey_perm (l₁ l₂ : List (String × String)) (hp : l₁.Perm l₂)
    (hd : (l₁.map Prod.fst).Nodup) : sortByKey l₁ = sortByKey l₂ := by
  induction hp with
  | nil => rfl
  | cons x _ ih =>
    simp only [List.map_cons, List.nodup_cons] at hd
    rw [sortByKey_cons, sortByKey_cons, ih hd.2]
  | swap x y l =>
    simp only [List.map_cons, List.nodup_cons, List.mem_cons, not_or] at hd
    rw [sortByKey_cons, sortByKey_cons, sortByKey_cons, sortByKey_cons]
    exact insert_comm_ne y x (fun e => hd.1.1 e) _
  | trans h₁ _ ih₁ ih₂ =>
    rw [ih₁ hd, ih₂ ((h₁.map Prod.fst).nodup_iff.mp hd)]


/-- non-decreasing in the printed key -/
def KeySorted (l : List (String × String)) : Prop := l.Pairwise (fun a b => ¬ (b.1 < a.1))

theorem insertByKey_mem (p x : String × String) (l : List (String × String)) :
    x ∈ insertByKey p l ↔ x = p ∨ x ∈ l := by
  induction l with
  | nil => simp [insertByKey]
  | cons q r ih =>
    unfold insertByKey
    split
    · simp only [List.mem_cons, ih]
      constructor
      · rintro (h | h | h) <;> simp [h]
      · rintro (h | h | h) <;> simp [h]
    · simp

theorem insertByKey_sorted (p : String × String) (l : List (String × String)) (h : KeySorted l) :
    KeySorted (insertByKey p l) := by
  induction l with
  | nil => simp [insertByKey, KeySorted]
  | cons q r ih =>
    unfold insertByKey
    have hq : ∀ x ∈ r, ¬ (x.1 < q.1) := (List.pairwise_cons.mp h).1
    have hr : KeySorted r := (List.pairwise_cons.mp h).2
    split
    · rename_i hqp
      refine List.pairwise_cons.mpr ⟨?_, ih hr⟩
      intro x hx
      rcases (insertByKey_mem p x r).mp hx with rfl | hx
      · exact String.lt_asymm hqp
      · exact hq x hx
    · rename_i hqp
      refine List.pairwise_cons.mpr ⟨?_, h⟩
      intro x hx
      rcases List.mem_cons.mp hx with rfl | hx
      · exact hqp
      · intro hxp
        -- x < p and ¬ q < p give x < q, which sortedness of q :: r forbids
        have : x.1 < q.1 := by
          by_cases hpq : p.1 < q.1
          · exact String.lt_trans hxp hpq
          · have e : p.1 = q.1 := String.le_antisymm (String.not_lt.mp hqp) (String.not_lt.mp hpq)
            rw [← e]; exact hxp
        exact hq x hx this

/-- **a dictionary's printed entries are in non-decreasing order of their printed keys**, whatever the order in
which they were inserted, and they are exactly the entries given -/
theorem sortByKey_sorted (l : List (String × String)) : KeySorted (sortByKey l) := by
  induction l with
  | nil => simp [sortByKey, KeySorted]
  | cons p l ih => rw [sortByKey_cons]; exact insertByKey_sorted p _ ih

theorem sortByKey_mem (x : String × String) (l : List (String × String)) : x ∈ sortByKey l ↔ x ∈ l := by
  induction l with
  | nil => simp [sortByKey]
  | cons p l ih => rw [sortByKey_cons, insertByKey_mem, ih]; simp

theorem sortByKey_length (l : List (String × String)) : (sortByKey l).length = l.length := by
  induction l with
  | nil => rfl
  | cons p l ih =>
    rw [sortByKey_cons]
    have : ∀ (q : String × String) (m : List (String × String)), (insertByKey q m).length = m.length + 1 := by
      intro q m
      induction m with
      | nil => rfl
      | cons a b ihb => unfold insertByKey; split <;> simp [ihb]
    rw [this, ih]; rfl

/-- the order is by the printed *key*, not by the joined `key: value` text: `1: …` precedes `10: …` -/
example : sortByKey [("10", "6"), ("1", "5")] = [("1", "5"), ("10", "6")] ∧
    sortByKey [("0.5", "2"), ("0", "1")] = [("0", "1"), ("0.5", "2")] := by decide +kernel

/-! ### integers print in a form `ㅈㅅ` reads back to the same number -/

theorem digitVal_digitChar (d : Nat) (h : d < 10) : digitVal (Nat.digitChar d) = some d := by
  have : d = 0 ∨ d = 1 ∨ d = 2 ∨ d = 3 ∨ d = 4 ∨ d = 5 ∨ d = 6 ∨ d = 7 ∨ d = 8 ∨ d = 9 := by omega
  rcases this with h | h | h | h | h | h | h | h | h | h <;> subst h <;> decide

theorem digitChar_ne_underscore (d : Nat) (h : d < 10) : (Nat.digitChar d == '_') = false := by
  have : d = 0 ∨ d = 1 ∨ d = 2 ∨ d = 3 ∨ d = 4 ∨ d = 5 ∨ d = 6 ∨ d = 7 ∨ d = 8 ∨ d = 9 := by omega
  rcases this with h | h | h | h | h | h | h | h | h | h <;> subst h <;> decide

/-- the digit loop of `int(s, 10)` on the decimal digits of `n`, followed by anything -/
theorem go_toDigits (n : Nat) : ∀ (rest : List Char) (acc : Nat) (prev any : Bool),
    parseDigits.go 10 (Nat.toDigits 10 n ++ rest) acc prev any =
      parseDigits.go 10 rest (acc * 10 ^ (Nat.toDigits 10 n).length + n) true true := by
  induction n using Nat.strongRecOn with
  | _ n ih =>
    intro rest acc prev any
    rw [Nat.toDigits_eq_if (by decide)]
    by_cases hlt : n < 10
    · simp only [hlt, if_true, List.cons_append, List.nil_append, List.length_cons, List.length_nil]
      rw [parseDigits.go]
      simp [digitChar_ne_underscore n hlt, digitVal_digitChar n hlt, hlt]
    · simp only [hlt, if_false, List.append_assoc, List.cons_append, List.nil_append, List.length_append,
        List.length_cons, List.length_nil]
      rw [ih (n / 10) (by omega)]
      have hd : n % 10 < 10 := Nat.mod_lt _ (by decide)
      rw [parseDigits.go]
      simp only [digitChar_ne_underscore _ hd, digitVal_digitChar _ hd, hd, if_true, Bool.false_eq_true, if_false]
      congr 1
      rw [Nat.pow_succ, ← Nat.mul_assoc, Nat.add_mul]
      omega

theorem parseDigits_toDigits (n : Nat) : parseDigits 10 false (Nat.toDigits 10 n) = some n := by
  have h := go_toDigits n [] 0 false false
  simp only [List.append_nil, Nat.zero_mul, Nat.zero_add] at h
  have hne : Nat.toDigits 10 n ≠ [] := Nat.toDigits_ne_nil
  have hund : ∀ r, Nat.toDigits 10 n ≠ '_' :: r := by
    intro r e
    have : '_' ∈ Nat.toDigits 10 n := by rw [e]; exact List.mem_cons_self
    exact Nat.underscore_not_in_toDigits this
  unfold parseDigits
  split
  · rename_i r e; exact absurd e (hund r)
  · rw [h]; simp [parseDigits.go]

theorem digitChar_not_space (d : Nat) (h : d < 10) : isPyspace (Nat.digitChar d) = false := by
  have : d = 0 ∨ d = 1 ∨ d = 2 ∨ d = 3 ∨ d = 4 ∨ d = 5 ∨ d = 6 ∨ d = 7 ∨ d = 8 ∨ d = 9 := by omega
  rcases this with h | h | h | h | h | h | h | h | h | h <;> subst h <;> decide

theorem toDigits_head (n : Nat) : ∃ d, d < 10 ∧ ∃ t, Nat.toDigits 10 n = Nat.digitChar d :: t := by
  induction n using Nat.strongRecOn with
  | _ n ih =>
    rw [Nat.toDigits_eq_if (by decide)]
    by_cases hlt : n < 10
    · exact ⟨n, hlt, [], by simp [hlt]⟩
    · obtain ⟨d, hd, t, ht⟩ := ih (n / 10) (by omega)
      exact ⟨d, hd, t ++ [Nat.digitChar (n % 10)], by simp [hlt, ht]⟩

theorem toDigits_last (n : Nat) : ∃ d, d < 10 ∧ ∃ i, Nat.toDigits 10 n = i ++ [Nat.digitChar d] := by
  rw [Nat.toDigits_eq_if (by decide)]
  by_cases hlt : n < 10
  · exact ⟨n, hlt, [], by simp [hlt]⟩
  · exact ⟨n % 10, Nat.mod_lt _ (by decide), Nat.toDigits 10 (n / 10), by simp [hlt]⟩

/-- stripping leaves a text alone whose first and last characters are not white space -/
theorem strip_id (l : List Char) (a z : Char) (t i : List Char) (h1 : l = a :: t) (h2 : l = i ++ [z])
    (ha : isPyspace a = false) (hz : isPyspace z = false) : pyStrip (String.ofList l) = String.ofList l := by
  unfold pyStrip
  rw [String.toList_ofList]
  have e1 : l.dropWhile isPyspace = l := by rw [h1]; simp [List.dropWhile, ha]
  rw [e1]
  have e2 : l.reverse.dropWhile isPyspace = l.reverse := by
    rw [h2]; simp [List.dropWhile, hz]
  rw [e2, List.reverse_reverse]

theorem intPrefix_ten (cs : List Char) : intPrefix 10 cs = none := by
  unfold intPrefix
  split <;> simp

theorem intSign_digit (d : Nat) (hd : d < 10) (t : List Char) :
    intSign (Nat.digitChar d :: t) = (false, Nat.digitChar d :: t) := by
  have : d = 0 ∨ d = 1 ∨ d = 2 ∨ d = 3 ∨ d = 4 ∨ d = 5 ∨ d = 6 ∨ d = 7 ∨ d = 8 ∨ d = 9 := by omega
  rcases this with h | h | h | h | h | h | h | h | h | h <;> subst h <;> rfl

theorem intMag_toDigits (n : Nat) : intMag 10 (Nat.toDigits 10 n) = some n := by
  simp [intMag, intPrefix_ten, parseDigits_toDigits]

theorem repr_strip (n : Nat) : pyStrip (Nat.repr n) = Nat.repr n := by
  obtain ⟨d, hd, t, ht⟩ := toDigits_head n
  obtain ⟨d', hd', i, hi⟩ := toDigits_last n
  exact strip_id _ _ _ t i ht hi (digitChar_not_space d hd) (digitChar_not_space d' hd')

/-- **`ㅈㅅ(ㅁㅈ(n)) = n` for every integer**: the decimal string `ㅁㅈ` produces is read back to
the same integer by the base-10 integer parser -/
theorem int_readback (n : Int) : pyIntOfString (toString n) 10 = some n := by
  rw [Int.toString_eq_repr, Int.repr_eq_if]
  have hb : ¬ ((10 : Int) ≠ 0 ∧ ((10 : Int) < 2 ∨ (10 : Int) > 36)) := by omega
  have h10 : (10 : Int).toNat = 10 := rfl
  by_cases hn : 0 ≤ n
  · simp only [hn, if_true]
    obtain ⟨d, hd, t, ht⟩ := toDigits_head n.toNat
    have hl : (Nat.repr n.toNat).toList = Nat.toDigits 10 n.toNat := String.toList_ofList
    unfold pyIntOfString
    simp only [hb, if_false, repr_strip, hl, h10]
    have hm := intMag_toDigits n.toNat
    rw [ht] at hm ⊢
    rw [intSign_digit d hd t]
    simp only [hm, Option.map_some, Bool.false_eq_true, if_false]
    simp; omega
  · simp only [hn, if_false]
    obtain ⟨d', hd', i, hi⟩ := toDigits_last (-n).toNat
    have hl : ("-" ++ Nat.repr (-n).toNat).toList = '-' :: Nat.toDigits 10 (-n).toNat := by
      rw [String.toList_append]
      have : (Nat.repr (-n).toNat).toList = Nat.toDigits 10 (-n).toNat := String.toList_ofList
      rw [this]; rfl
    have hs : pyStrip ("-" ++ Nat.repr (-n).toNat) = "-" ++ Nat.repr (-n).toNat := by
      have e : "-" ++ Nat.repr (-n).toNat = String.ofList ('-' :: Nat.toDigits 10 (-n).toNat) := by
        apply String.ext; rw [hl, String.toList_ofList]
      rw [e]
      exact strip_id _ '-' (Nat.digitChar d') _ ('-' :: i) rfl (by rw [hi]; rfl) (by decide) (digitChar_not_space d' hd')
    unfold pyIntOfString
    simp only [hb, if_false, hs, hl, h10]
    have : intSign ('-' :: Nat.toDigits 10 (-n).toNat) = (true, Nat.toDigits 10 (-n).toNat) := rfl
    rw [this]
    simp only [intMag_toDigits, Option.map_some, if_true]
    simp; omega

-- examples
example : pyIntOfString "  -0x1F " 16 = some (-31) ∧ pyIntOfString "1_000" 10 = some 1000 ∧
    pyIntOfString "010" 0 = none ∧ pyIntOfString "12" 1 = none := by decide +kernel

end UH.C18
