/-
C06 — equality is a real equivalence on values and dictionaries key by it.

`ㄴ` compares canonical keys (`Key`) with `Key.beq`; dictionaries store entries
under those keys.  Theorems: `Key.beq` decides equality of keys (so `ㄴ` is an
equivalence and never relates different keys), keys of different kinds differ,
integer keys are equal iff the integers are, and the dictionary operations are
"a key finds an entry iff it equals a stored key; a later equal key replaces
the earlier entry".
-/
import UH.Model.Interp
namespace UH.C06
open UH

mutual
theorem beq_eq : ∀ a b : Key, Key.beq a b = true → a = b
  | .num r i, b => by
    cases b <;> simp [Key.beq]
  | .bool x, b => by cases b <;> simp [Key.beq]
  | .str x, b => by cases b <;> simp [Key.beq]
  | .bytes x, b => by cases b <;> simp [Key.beq]
  | .nil, b => by cases b <;> simp [Key.beq]
  | .list xs, b => by
    cases b <;> simp [Key.beq]
    exact beqList_eq xs _
  | .err xs, b => by
    cases b <;> simp [Key.beq]
    exact beqList_eq xs _
  | .dict xs, b => by
    cases b <;> simp [Key.beq]
    exact beqPairs_eq xs _
  | .io i xs, b => by
    cases b <;> simp [Key.beq]
    intro h1 h2; exact ⟨h1, beqList_eq xs _ h2⟩
  | .fn f, b => by cases b <;> simp [Key.beq]
theorem beqList_eq : ∀ a b : List Key, Key.beqList a b = true → a = b
  | [], b => by cases b <;> simp [Key.beqList]
  | x :: xs, b => by
    cases b with
    | nil => simp [Key.beqList]
    | cons y ys =>
      simp only [Key.beqList, Bool.and_eq_true, List.cons.injEq]
      intro ⟨h1, h2⟩
      exact ⟨beq_eq x y h1, beqList_eq xs ys h2⟩
theorem beqPairs_eq : ∀ a b : List (Key × Key), Key.beqPairs a b = true → a = b
  | [], b => by cases b <;> simp [Key.beqPairs]
  | (x, x') :: xs, b => by
    cases b with
    | nil => simp [Key.beqPairs]
    | cons y ys =>
      obtain ⟨y, y'⟩ := y
      simp only [Key.beqPairs, Bool.and_eq_true, List.cons.injEq, Prod.mk.injEq]
      intro ⟨⟨h1, h2⟩, h3⟩
      exact ⟨⟨beq_eq x y h1, beq_eq x' y' h2⟩, beqPairs_eq xs ys h3⟩
end

mutual
theorem beq_refl : ∀ a : Key, Key.beq a a = true
  | .num r i => by simp [Key.beq]
  | .bool x => by simp [Key.beq]
  | .str x => by simp [Key.beq]
  | .bytes x => by simp [Key.beq]
  | .nil => by simp [Key.beq]
  | .list xs => by simp [Key.beq, beqList_refl xs]
  | .err xs => by simp [Key.beq, beqList_refl xs]
  | .dict xs => by simp [Key.beq, beqPairs_refl xs]
  | .io i xs => by simp [Key.beq, beqList_refl xs]
  | .fn f => by simp [Key.beq]
theorem beqList_refl : ∀ a : List Key, Key.beqList a a = true
  | [] => rfl
  | x :: xs => by simp [Key.beqList, beq_refl x, beqList_refl xs]
theorem beqPairs_refl : ∀ a : List (Key × Key), Key.beqPairs a a = true
  | [] => rfl
  | (x, x') :: xs => by simp [Key.beqPairs, beq_refl x, beq_refl x', beqPairs_refl xs]
end

/-- **`ㄴ`'s comparison decides equality of canonical keys** -/
theorem beq_iff_eq (a b : Key) : (a == b) = true ↔ a = b :=
  ⟨beq_eq a b, fun h => h ▸ beq_refl a⟩

instance : LawfulBEq Key where
  eq_of_beq := beq_eq _ _
  rfl := beq_refl _

/-- hence it is an equivalence relation -/
theorem eq_refl (a : Key) : (a == a) = true := beq_refl a
theorem eq_symm (a b : Key) (h : (a == b) = true) : (b == a) = true := by
  rw [beq_iff_eq] at *; exact h.symm
theorem eq_trans (a b c : Key) (h1 : (a == b) = true) (h2 : (b == c) = true) : (a == c) = true := by
  rw [beq_iff_eq] at *; exact h1.trans h2

/-- **it never reports two different integers as equal** (−1 is not −2, whatever their host hashes) -/
theorem int_keys (a b : Int) : ((Num.int a).key == (Num.int b).key) = true ↔ a = b := by
  rw [beq_iff_eq]
  simp [Num.key, F64.intNumKey]

/-- values of different kinds have different keys -/
theorem kinds_differ (n : Int) (s : String) (b : Bool) (bs : List UInt8) (ks : List Key) :
    (intKey n == Key.str s) = false ∧ (intKey n == Key.bool b) = false ∧ (Key.str s == Key.bytes bs) = false ∧
    (Key.nil == Key.bool b) = false ∧ (Key.list ks == Key.err ks) = false ∧ (Key.str s == Key.list ks) = false := by
  refine ⟨rfl, rfl, rfl, rfl, rfl, rfl⟩

/-- functions compare by identity -/
theorem fn_keys (f g : FId) : (Key.fn f == Key.fn g) = true ↔ f = g := by
  rw [beq_iff_eq]; simp

/-- lists and exceptions compare by content -/
theorem list_keys (a b : List Key) : (Key.list a == Key.list b) = true ↔ a = b := by
  rw [beq_iff_eq]; simp

/-! ### dictionaries -/

/-- the value a dictionary built from `entries` (in order) must return for `k`: that of the last
entry whose key equals `k` (scanning left to right, a later equal key overrides) -/
def lastValueFrom (init : Option Arg) (entries : List (Val × Key × Arg)) (k : Key) : Option Arg :=
  entries.foldl (fun acc e => if e.2.1 == k then some e.2.2 else acc) init

def lastValue (entries : List (Val × Key × Arg)) (k : Key) : Option Arg := lastValueFrom none entries k

theorem dictLookup_insert (tbl : List (Val × Key × Arg)) (e : Val × Key × Arg) (k : Key) :
    dictLookup (dictInsert tbl e) k = if e.2.1 == k then some e.2.2 else dictLookup tbl k := by
  induction tbl with
  | nil => simp [dictInsert, dictLookup]
  | cons x r ih =>
    by_cases hxe : x.2.1 = e.2.1
    · have h1 : (x.2.1 == e.2.1) = true := (beq_iff_eq _ _).mpr hxe
      simp only [dictInsert, h1, if_true, dictLookup]
      by_cases hek : e.2.1 = k
      · have h2 : (e.2.1 == k) = true := (beq_iff_eq _ _).mpr hek
        simp [h2]
      · have h2 : (e.2.1 == k) = false := by
          cases h : (e.2.1 == k) with
          | false => rfl
          | true => exact absurd ((beq_iff_eq _ _).mp h) hek
        have h3 : (x.2.1 == k) = false := by rw [hxe]; exact h2
        simp [h2, h3]
    · have h1 : (x.2.1 == e.2.1) = false := by
        cases h : (x.2.1 == e.2.1) with
        | false => rfl
        | true => exact absurd ((beq_iff_eq _ _).mp h) hxe
      simp only [dictInsert, h1, dictLookup, ih, Bool.false_eq_true, if_false]
      by_cases hxk : x.2.1 = k
      · have h2 : (x.2.1 == k) = true := (beq_iff_eq _ _).mpr hxk
        have h3 : (e.2.1 == k) = false := by
          cases h : (e.2.1 == k) with
          | false => rfl
          | true => exact absurd (hxk.trans ((beq_iff_eq _ _).mp h).symm) hxe
        simp [h2, h3]
      · have h2 : (x.2.1 == k) = false := by
          cases h : (x.2.1 == k) with
          | false => rfl
          | true => exact absurd ((beq_iff_eq _ _).mp h) hxk
        simp [h2]

theorem dictLookup_foldl (entries : List (Val × Key × Arg)) (k : Key) :
    ∀ acc, dictLookup (entries.foldl dictInsert acc) k = lastValueFrom (dictLookup acc k) entries k := by
  induction entries with
  | nil => intro acc; rfl
  | cons e es ih =>
    intro acc
    simp only [List.foldl_cons, lastValueFrom]
    rw [ih, dictLookup_insert]
    rfl

/-- **lookup spec**: a key finds an entry iff it equals a stored key, and finds the value of the
*latest* such entry -/
theorem dictLookup_build (entries : List (Val × Key × Arg)) (k : Key) :
    dictLookup (dictBuild entries) k = lastValue entries k := by
  unfold dictBuild lastValue
  rw [dictLookup_foldl]; rfl

/-- a key that equals no stored key finds nothing (the NotFound exception of the caller) -/
theorem dictLookup_none (entries : List (Val × Key × Arg)) (k : Key)
    (h : ∀ e ∈ entries, (e.2.1 == k) = false) : dictLookup (dictBuild entries) k = none := by
  rw [dictLookup_build]
  unfold lastValue lastValueFrom
  induction entries with
  | nil => rfl
  | cons e es ih =>
    simp only [List.foldl_cons, h e List.mem_cons_self, Bool.false_eq_true, if_false]
    exact ih (fun e' he' => h e' (List.mem_cons_of_mem _ he'))

/-- a key equal to the last stored key finds that entry's value -/
theorem dictLookup_last (entries : List (Val × Key × Arg)) (e : Val × Key × Arg) :
    dictLookup (dictBuild (entries ++ [e])) e.2.1 = some e.2.2 := by
  rw [dictLookup_build]
  simp [lastValue, lastValueFrom, List.foldl_append, beq_refl]

/-- **merge** (`ㄷ` on dictionaries) is construction from the concatenated entry lists: entries of
later dictionaries replace equal keys of earlier ones -/
theorem merge_lookup (t1 t2 : List (Val × Key × Arg)) (k : Key) :
    dictLookup (dictBuild (t1 ++ t2)) k = lastValueFrom (lastValue t1 k) t2 k := by
  rw [dictLookup_build]
  simp [lastValue, lastValueFrom, List.foldl_append]

-- the statement's own witnesses
example : ((Num.int (-1)).key == (Num.int (-2)).key) = false := by decide +kernel

end UH.C06
