/-
C11 — arithmetic is exact on unbounded integers and obeys the numeric-tower laws.
-/
import UH.Model.Interp
namespace UH.C11
open UH

/-! ### integers: ㄷ and ㄱ are the ring operations of ℤ -/

theorem add_int (a b : Int) : Num.add (.int a) (.int b) = .ok (.int (a + b)) := rfl
theorem mul_int (a b : Int) : Num.mul (.int a) (.int b) = .ok (.int (a * b)) := rfl

/-- the sum of integer operands is their exact sum (fold from 0, as `sum()` does) -/
theorem sum_ints (xs : List Int) (init : Int) :
    (xs.map Num.int).foldlM Num.add (Num.int init) = (.ok (Num.int (xs.foldl (· + ·) init)) : NumM Num) := by
  induction xs generalizing init with
  | nil => rfl
  | cons x xs ih => simp only [List.map_cons, List.foldlM_cons, List.foldl_cons]; exact ih (init + x)

theorem prod_ints (xs : List Int) (init : Int) :
    (xs.map Num.int).foldlM Num.mul (Num.int init) = (.ok (Num.int (xs.foldl (· * ·) init)) : NumM Num) := by
  induction xs generalizing init with
  | nil => rfl
  | cons x xs ih => simp only [List.map_cons, List.foldlM_cons, List.foldl_cons]; exact ih (init * x)

/-! ### quotient and remainder (ㄴㄴ, ㄴㅁ) -/

theorem tdiv_nonpos_of_nonpos_of_nonneg {a b : Int} (Ha : a ≤ 0) (Hb : 0 ≤ b) : a.tdiv b ≤ 0 := by
  have := Int.tdiv_nonneg (a := -a) (b := b) (by omega) Hb
  rw [Int.neg_tdiv] at this; omega

/-- **the quotient is truncated toward zero** -/
theorem intQuot_eq_tdiv (n d : Int) (hd : d ≠ 0) : intQuot n d = Int.tdiv n d := by
  unfold intQuot
  simp only [Int.fdiv_eq_tdiv, Int.neg_tdiv, Int.dvd_neg]
  have s1 : 0 < d → d.sign = 1 := Int.sign_eq_one_of_pos
  have s2 : d < 0 → d.sign = -1 := Int.sign_eq_neg_one_of_neg
  have t1 : 0 ≤ n → 0 ≤ d → 0 ≤ n.tdiv d := Int.tdiv_nonneg
  have t2 : n ≤ 0 → d ≤ 0 → 0 ≤ n.tdiv d := Int.tdiv_nonneg_of_nonpos_of_nonpos
  have t3 : 0 ≤ n → d ≤ 0 → n.tdiv d ≤ 0 := Int.tdiv_nonpos_of_nonneg_of_nonpos
  have t4 : n ≤ 0 → 0 ≤ d → n.tdiv d ≤ 0 := tdiv_nonpos_of_nonpos_of_nonneg
  by_cases hdvd : d ∣ n <;> simp only [hdvd, if_true, if_false]
  · split <;> omega
  · have hn0 : n ≠ 0 := by intro h; subst h; exact hdvd (Int.dvd_zero d)
    rcases Int.lt_or_gt_of_ne hd with hneg | hpos
    · have := s2 hneg
      by_cases hn : 0 ≤ n <;> by_cases hn' : 0 ≤ -n <;> simp only [hn, hn', if_true, if_false] <;>
        (have hd0 : ¬ (0 ≤ d) := by omega) <;> simp only [hd0, if_false, this] <;> split <;> omega
    · have := s1 hpos
      by_cases hn : 0 ≤ n <;> by_cases hn' : 0 ≤ -n <;> simp only [hn, hn', if_true, if_false] <;>
        (have hd0 : (0 ≤ d) := by omega) <;> simp only [hd0, if_true, this] <;> split <;> omega

/-- **the remainder has the sign of the dividend** (it is the truncated remainder) -/
theorem intRem_eq_tmod (n d : Int) (hd : d ≠ 0) : intRem n d = Int.tmod n d := by
  have hq := intQuot_eq_tdiv n d hd
  -- both satisfy  x + d * quotient = n  with the respective quotient; use the fdiv/fmod identities
  unfold intRem
  have e1 := Int.fmod_add_mul_fdiv n d
  have e2 := Int.fmod_add_mul_fdiv (-n) d
  have e3 := Int.tmod_add_mul_tdiv n d
  unfold intQuot at hq
  by_cases h : Int.fdiv n d ≥ 0
  · have h' : ¬ (Int.fdiv n d < 0) := by omega
    simp only [h, h', if_true, if_false] at hq ⊢
    rw [hq] at e1; omega
  · have h' : (Int.fdiv n d < 0) := by omega
    simp only [h, h', if_true, if_false] at hq ⊢
    have : (-n).fdiv d = -(n.tdiv d) := by omega
    rw [this] at e2
    -- e2 : (-n).fmod d + d * -(tdiv) = -n ; e3 : tmod + d * tdiv = n
    have hm : d * -(n.tdiv d) = -(d * n.tdiv d) := by rw [Int.mul_neg]
    omega

/-- **dividend = quotient × divisor + remainder, |remainder| < |divisor|** -/
theorem div_law (n d : Int) (hd : d ≠ 0) :
    n = intQuot n d * d + intRem n d ∧ (intRem n d).natAbs < d.natAbs := by
  rw [intQuot_eq_tdiv n d hd, intRem_eq_tmod n d hd]
  constructor
  · have := Int.tmod_add_mul_tdiv n d
    rw [Int.mul_comm]; omega
  · rw [Int.natAbs_tmod]
    exact Nat.mod_lt _ (by omega)

/-- the remainder is zero or has the sign of the dividend -/
theorem rem_sign (n d : Int) (hd : d ≠ 0) : (0 ≤ n → 0 ≤ intRem n d) ∧ (n ≤ 0 → intRem n d ≤ 0) := by
  rw [intRem_eq_tmod n d hd]
  constructor
  · intro h; exact Int.tmod_nonneg d h
  · intro h
    have := Int.tmod_nonneg (a := -n) d (by omega)
    rw [Int.neg_tmod] at this; omega

/-- division by zero is the Division exception (both built-ins check the divisor first) -/
theorem div_zero (sp : Span) (n : Int) :
    bIntegerDivision sp [.strict (.int n), .strict (.int 0)] = Comp.throw (builtinErr .division sp) ∧
    bRemainder sp [.strict (.int n), .strict (.int 0)] = Comp.throw (builtinErr .division sp) := by
  constructor <;>
    simp [bIntegerDivision, bRemainder, matchArguments, checkArity, Comp.forceAll, Comp.forceArg, checkType,
      Val.isReal, Bind.bind, Comp.bind, pure]

/-! ### powers -/

/-- integer powers with non-negative exponent stay exact integers -/
theorem pow_nonneg_exact (b : Int) (e : Nat) (h : e ≤ 100000) :
    Num.pow (.int b) (.int e) = .ok (.int (b ^ e)) := by
  have h1 : (0 : Int) ≤ (e : Int) := by omega
  have h2 : ¬ ((e : Int) > 100000 ∧ b.natAbs > 1) := by omega
  simp [Num.pow, h1, h2]

/-! ### order: ㅈ on integers is the strict total order of ℤ -/

theorem lt_int (a b : Int) : Num.realLt (.int a) (.int b) = decide (a < b) := rfl

theorem lt_trichotomy (a b : Int) :
    (Num.realLt (.int a) (.int b) = true ∧ a ≠ b ∧ Num.realLt (.int b) (.int a) = false) ∨
    (Num.realLt (.int a) (.int b) = false ∧ a = b ∧ Num.realLt (.int b) (.int a) = false) ∨
    (Num.realLt (.int a) (.int b) = false ∧ a ≠ b ∧ Num.realLt (.int b) (.int a) = true) := by
  simp only [lt_int, decide_eq_true_eq, decide_eq_false_iff_not]
  omega

/-- exact comparison of an integer with a float goes through exact keys, never through rounding -/
theorem lt_int_float (a : Int) (x : F64) :
    Num.realLt (.int a) (.float x) = F64.NumKey.lt (F64.intNumKey a) (F64.toNumKey x) := rfl

/-! ### Boolean ㄱ / ㄷ are conjunction / disjunction -/

theorem and_bools (sp : Span) (bs : List Bool) :
    bAll sp (bs.map (fun b => Arg.strict (.bool b))) = Comp.ret (.strict (.bool (bs.all id))) := by
  induction bs with
  | nil => rfl
  | cons b bs ih =>
    cases b
    · simp [bAll, Comp.forceArg, checkType, Val.isBoolean, retV, Bind.bind, Comp.bind]
    · simp only [List.map_cons, List.all_cons, id, Bool.true_and]
      rw [← ih]
      simp [bAll, Comp.forceArg, checkType, Val.isBoolean, Bind.bind, Comp.bind]

theorem or_bools (sp : Span) (bs : List Bool) :
    bAny sp (bs.map (fun b => Arg.strict (.bool b))) = Comp.ret (.strict (.bool (bs.any id))) := by
  induction bs with
  | nil => rfl
  | cons b bs ih =>
    cases b
    · simp only [List.map_cons, List.any_cons, id, Bool.false_or]
      rw [← ih]
      simp [bAny, Comp.forceArg, checkType, Val.isBoolean, Bind.bind, Comp.bind]
    · simp [bAny, Comp.forceArg, checkType, Val.isBoolean, retV, Bind.bind, Comp.bind]

-- documented examples
example : intQuot (-7) 2 = -3 ∧ intRem (-7) 2 = -1 ∧ intQuot 7 (-2) = -3 ∧ intRem 7 (-2) = 1 := by decide

end UH.C11
