/-
C11 — arithmetic is exact on unbounded integers and obeys the numeric-tower laws.
-/
import UH.Model.Interp
namespace UH.C11
open UH

/-! ### integers: ㄷ and ㄱ are the ring operations of ℤ -/

theorem add_int (a b : Int) : Num.add (.int a) (.int b) = .ok (.int (a + b)) := rfl
theorem mul_int (a b : Int) : Num.mul (.int a) (.int b) = .ok (.int (a * b)) := rfl

/-- the sum of integer operands is their exact sum (fold from 0, as `sum()` does) -/
theorem sum_ints (xs : List Int) (init : Int) :
    (xs.map Num.int).foldlM Num.add (Num.int init) = (.ok (Num.int (xs.foldl (· + ·) init)) : NumM Num) := by
  induction xs generalizing init with
  | nil => rfl
  | cons x xs ih => simp only [List.map_cons, List.foldlM_cons, List.foldl_cons]; exact ih (init + x)

theorem prod_ints (xs : List Int) (init : Int) :
    (xs.map Num.int).foldlM Num.mul (Num.int init) = (.ok (Num.int (xs.foldl (· * ·) init)) : NumM Num) := by
  induction xs generalizing init with
  | nil => rfl
  | cons x xs ih => simp only [List.map_cons, List.foldlM_cons, List.foldl_cons]; exact ih (init * x)

/-! ### quotient and remainder (ㄴㄴ, ㄴㅁ) -/

theorem tdiv_nonpos_of_nonpos_of_nonneg {a b : Int} (Ha : a ≤ 0) (Hb : 0 ≤ b) : a.tdiv b ≤ 0 := by
  have := Int.tdiv_nonneg (a := -a) (b := b) (by omega) Hb
  rw [Int.neg_tdiv] at this; omega

/-- **the quotient is truncated toward zero** -/
theorem intQuot_eq_tdiv (n d : Int) (hd : d ≠ 0) : intQuot n d = Int.tdiv n d := by
  unfold intQuot
  simp only [Int.fdiv_eq_tdiv, Int.neg_tdiv, Int.dvd_neg]
  have s1 : 0 < d → d.sign = 1 := Int.sign_eq_one_of_pos
  have s2 : d < 0 → d.sign = -1 := Int.sign_eq_neg_one_of_neg
  have t1 : 0 ≤ n → 0 ≤ d → 0 ≤ n.tdiv d := Int.tdiv_nonneg
  have t2 : n ≤ 0 → d ≤ 0 → 0 ≤ n.tdiv d := Int.tdiv_nonneg_of_nonpos_of_nonpos
  have t3 : 0 ≤ n → d ≤ 0 → n.tdiv d ≤ 0 := Int.tdiv_nonpos_of_nonneg_of_nonpos
  have t4 : n ≤ 0 → 0 ≤ d → n.tdiv d ≤ 0 := tdiv_nonpos_of_nonpos_of_nonneg
  by_cases hdvd : d ∣ n <;> simp only [hdvd, if_true, if_false]
  · split <;> omega
  · have hn0 : n ≠ 0 := by intro h; subst h; exact hdvd (Int.dvd_zero d)
    rcases Int.lt_or_gt_of_ne hd with hneg | hpos
    · have := s2 hneg
      by_cases hn : 0 ≤ n <;> by_cases hn' : 0 ≤ -n <;> simp only [hn, hn', if_true, if_false] <;>
        (have hd0 : ¬ (0 ≤ d) := by omega) <;> simp only [hd0, if_false, this] <;> split <;> omega
    · have := s1 hpos
      by_cases hn : 0 ≤ n <;> by_cases hn' : 0 ≤ -n <;> simp only [hn, hn', if_true, if_false] <;>
        (have hd0 : (0 ≤ d) := by omega) <;> simp only [hd0, if_true, this] <;> split <;> omega

/-- **the remainder has the sign of the dividend** (it is the truncated remainder) -/
theorem intRem_eq_tmod (n d : Int) (hd : d ≠ 0) : intRem n d = Int.tmod n d := by
  have hq := intQuot_eq_tdiv n d hd
  -- both satisfy  x + d * quotient = n  with the respective quotient; use the fdiv/fmod identities
  unfold intRem
  have e1 := Int.fmod_add_mul_fdiv n d
  have e2 := Int.fmod_add_mul_fdiv (-n) d
  have e3 := Int.tmod_add_mul_tdiv n d
  unfold intQuot at hq
  by_cases h : Int.fdiv n d ≥ 0
  · have h' : ¬ (Int.fdiv n d < 0) := by omega
    simp only [h, h', if_true, if_false] at hq ⊢
    rw [hq] at e1; omega
  · have h' : (Int.fdiv n d < 0) := by omega
    simp only [h, h', if_true, if_false] at hq ⊢
    have : (-n).fdiv d = -(n.tdiv d) := by omega
    rw [this] at e2
    -- e2 : (-n).fmod d + d * -(tdiv) = -n ; e3 : tmod + d * tdiv = n
    have hm : d * -(n.tdiv d) = -(d * n.tdiv d) := by rw [Int.mul_neg]
    omega

/-- **dividend = quotient × divisor + remainder, |remainder| < |divisor|** -/
theorem div_law (n d : Int) (hd : d ≠ 0) :
    n = intQuot n d * d + intRem n d ∧ (intRem n d).natAbs < d.natAbs := by
  rw [intQuot_eq_tdiv n d hd, intRem_eq_tmod n d hd]
  constructor
  · have := Int.tmod_add_mul_tdiv n d
    rw [Int.mul_comm]; omega
  · rw [Int.natAbs_tmod]
    exact Nat.mod_lt _ (by omega)

/-- the remainder is zero or has the sign of the dividend -/
theorem rem_sign (n d : Int) (hd : d ≠ 0) : (0 ≤ n → 0 ≤ intRem n d) ∧ (n ≤ 0 → intRem n d ≤ 0) := by
  rw [intRem_eq_tmod n d hd]
  constructor
  · intro h; exact Int.tmod_nonneg d h
  · intro h
    have := Int.tmod_nonneg (a := -n) d (by omega)
    rw [Int.neg_tmod] at this; omega

/-- division by zero is the Division exception (both built-ins check the divisor first) -/
theorem div_zero (sp : Span) (n : Int) :
    bIntegerDivision sp [.strict (.int n), .strict (.int 0)] = Comp.throw (builtinErr .division sp) ∧
    bRemainder sp [.strict (.int n), .strict (.int 0)] = Comp.throw (builtinErr .division sp) := by
  constructor <;>
    simp [bIntegerDivision, bRemainder, matchArguments, checkArity, Comp.forceAll, Comp.forceArg, checkType,
      Val.isReal, Bind.bind, Comp.bind, pure]

/-! ### powers -/

/-- integer powers with non-negative exponent stay exact integers -/
theorem pow_nonneg_exact (b : Int) (e : Nat) (h : e ≤ 100000) :
    Num.pow (.int b) (.int e) = .ok (.int (b ^ e)) := by
  have h1 : (0 : Int) ≤ (e : Int) := by omega
  have h2 : ¬ ((e : Int) > 100000 ∧ b.natAbs > 1) := by omega
  simp [Num.pow, h1, h2]

/-! ### order: ㅈ on integers is the strict total order of ℤ -/

theorem lt_int (a b : Int) : Num.realLt (.int a) (.int b) = decide (a < b) := rfl

theorem lt_trichotomy (a b : Int) :
    (Num.realLt (.int a) (.int b) = true ∧ a ≠ b ∧ Num.realLt (.int b) (.int a) = false) ∨
    (Num.realLt (.int a) (.int b) = false ∧ a = b ∧ Num.realLt (.int b) (.int a) = false) ∨
    (Num.realLt (.int a) (.int b) = false ∧ a ≠ b ∧ Num.realLt (.int b) (.int a) = true) := by
  simp only [lt_int, decide_eq_true_eq, decide_eq_false_iff_not]
  omega

/-- exact comparison of an integer with a float goes through exact keys, never through rounding -/
theorem lt_int_float (a : Int) (x : F64) :
    Num.realLt (.int a) (.float x) = F64.NumKey.lt (F64.intNumKey a) (F64.toNumKey x) := rfl

/-! ### Boolean ㄱ / ㄷ are conjunction / disjunction -/

theorem and_bools (sp : Span) (bs : List Bool) :
    bAll sp (bs.map (fun b => Arg.strict (.bool b))) = Comp.ret (.strict (.bool (bs.all id))) := by
  induction bs with
  | nil => rfl
  | cons b bs ih =>
    cases b
    · simp [bAll, Comp.forceArg, checkType, Val.isBoolean, retV, Bind.bind, Comp.bind]
    · simp only [List.map_cons, List.all_cons, id, Bool.true_and]
      rw [← ih]
      simp [bAll, Comp.forceArg, checkType, Val.isBoolean, Bind.bind, Comp.bind]

theorem or_bools (sp : Span) (bs : List Bool) :
    bAny sp (bs.map (fun b => Arg.strict (.bool b))) = Comp.ret (.strict (.bool (bs.any id))) := by
  induction bs with
  | nil => rfl
  | cons b bs ih =>
    cases b
    · simp only [List.map_cons, List.any_cons, id, Bool.false_or]
      rw [← ih]
      simp [bAny, Comp.forceArg, checkType, Val.isBoolean, Bind.bind, Comp.bind]
    · simp [bAny, Comp.forceArg, checkType, Val.isBoolean, retV, Bind.bind, Comp.bind]

-- documented examples
example : intQuot (-7) 2 = -3 ∧ intRem (-7) 2 = -1 ∧ intQuot 7 (-2) = -3 ∧ intRem 7 (-2) = 1 := by decide

/-! ### modular power and inverse (`ㅅ` with three arguments) -/

theorem powModNat_go_spec (m : Nat) (hm : 0 < m) : ∀ (fuel b e acc : Nat), e < 2 ^ fuel → acc < m →
    powModNat.go m fuel b e acc = acc * b ^ e % m := by
  intro fuel
  induction fuel with
  | zero =>
    intro b e acc he hacc
    have : e = 0 := by simpa using he
    subst this
    simp [powModNat.go, Nat.mod_eq_of_lt hacc]
  | succ fuel ih =>
    intro b e acc he hacc
    unfold powModNat.go
    by_cases h0 : e = 0
    · subst h0; simp [Nat.mod_eq_of_lt hacc]
    · simp only [h0, if_false]
      have he2 : e / 2 < 2 ^ fuel := by
        rw [Nat.pow_succ] at he; omega
      have hsq : ∀ k : Nat, (b * b % m) ^ k % m = b ^ (2 * k) % m := by
        intro k
        rw [← Nat.pow_mod, Nat.pow_mul, Nat.pow_two]
      by_cases hodd : e % 2 = 1
      · simp only [hodd, if_true]
        rw [ih _ _ _ he2 (Nat.mod_lt _ hm)]
        have hk : e = 2 * (e / 2) + 1 := by omega
        conv => rhs; rw [hk, Nat.pow_succ]
        rw [Nat.mul_mod, Nat.mod_mod, hsq, ← Nat.mul_mod]
        congr 1
        rw [Nat.mul_assoc, Nat.mul_comm b, ← Nat.mul_assoc]
      · simp only [hodd, if_false]
        rw [ih _ _ _ he2 hacc]
        have hk : e = 2 * (e / 2) := by omega
        conv => rhs; rw [hk]
        rw [Nat.mul_mod, hsq, ← Nat.mul_mod]

/-- **modular power**: square-and-multiply computes `b^e mod m` exactly, for every base, exponent and modulus -/
theorem powModNat_spec (b e m : Nat) (hm : 0 < m) : powModNat b e m = b ^ e % m := by
  unfold powModNat
  have hlt : e < 2 ^ (Nat.log2 e + 2) := by
    have := @Nat.lt_log2_self e
    calc e < 2 ^ (Nat.log2 e + 1) := this
      _ ≤ 2 ^ (Nat.log2 e + 2) := Nat.pow_le_pow_right (by omega) (by omega)
  rw [powModNat_go_spec m hm _ _ _ _ hlt (Nat.mod_lt _ hm)]
  rw [Nat.mul_mod, Nat.mod_mod, ← Nat.mul_mod, Nat.one_mul, ← Nat.pow_mod]


theorem emod_pow_emod (b M : Int) (k : Nat) : (b % M) ^ k % M = b ^ k % M := by
  induction k with
  | zero => simp
  | succ k ih =>
    rw [Int.pow_succ, Int.pow_succ, Int.mul_emod, ih, Int.emod_emod_of_dvd _ (Int.dvd_refl M), ← Int.mul_emod]

/-- `ㅅ` with three arguments and a non-negative exponent is exactly `base^exp mod |modulus|` -/
theorem powMod_nonneg (b e m : Int) (hm : m ≠ 0) (he : 0 ≤ e) :
    powMod b e m = some (b ^ e.toNat % (m.natAbs : Int)) := by
  unfold powMod
  have hM : m.natAbs ≠ 0 := by omega
  have hMpos : 0 < m.natAbs := by omega
  simp only [hM, if_false, he, if_true]
  rw [powModNat_spec _ _ _ hMpos]
  congr 1
  have hx : 0 ≤ b % (m.natAbs : Int) := Int.emod_nonneg _ (by omega)
  rw [Int.natCast_emod, Int.natCast_pow, Int.toNat_of_nonneg hx, emod_pow_emod]

/-- the result lies in `[0, |m|)` -/
theorem powMod_range (b e m r : Int) (hm : m ≠ 0) (he : 0 ≤ e) (h : powMod b e m = some r) :
    0 ≤ r ∧ r < m.natAbs := by
  rw [powMod_nonneg b e m hm he] at h
  injection h with h
  subst h
  exact ⟨Int.emod_nonneg _ (by omega), Int.emod_lt_of_pos _ (by omega)⟩

theorem powMod_zero_modulus (b e : Int) : powMod b e 0 = none := by simp [powMod]

theorem modInverse_go_inv (a' M : Int) : ∀ (fuel : Nat) (r0 r1 s0 s1 : Int),
    M ∣ r0 - s0 * a' → M ∣ r1 - s1 * a' →
    M ∣ (modInverse.go fuel r0 r1 s0 s1).1 - (modInverse.go fuel r0 r1 s0 s1).2 * a' := by
  intro fuel
  induction fuel with
  | zero => intro r0 r1 s0 s1 h0 _; simpa [modInverse.go] using h0
  | succ fuel ih =>
    intro r0 r1 s0 s1 h0 h1
    unfold modInverse.go
    by_cases hr : r1 = 0
    · simpa [hr] using h0
    · simp only [hr, if_false]
      apply ih _ _ _ _ h1
      have e : r0 - r0 / r1 * r1 - (s0 - r0 / r1 * s1) * a' = (r0 - s0 * a') - r0 / r1 * (r1 - s1 * a') := by
        simp only [Int.sub_mul, Int.mul_sub, Int.mul_assoc]; omega
      rw [e]
      exact Int.dvd_sub h0 (Int.dvd_mul_of_dvd_right h1) 


/-- **modular inverse**: whenever `modInverse a m` answers, the answer is an inverse of `a` modulo `m`, in `[0, m)` -/
theorem modInverse_spec (a : Int) (m i : Nat) (hm : 0 < m) (h : modInverse a m = some i) :
    (a * (i : Int)) % (m : Int) = 1 % (m : Int) ∧ i < m := by
  unfold modInverse at h
  simp only [] at h
  have hM : (0 : Int) < m := by omega
  have hinv := modInverse_go_inv (a % (m : Int)) m (2 * (Nat.log2 m + 2) + 4) (a % (m : Int)) m 1 0
    (by simp) (by simp)
  generalize modInverse.go (2 * (Nat.log2 m + 2) + 4) (a % (m : Int)) m 1 0 = gs at h hinv
  obtain ⟨g, s⟩ := gs
  simp only [] at h hinv
  by_cases hg : g = 1
  · simp only [hg, if_true, Option.some.injEq] at h
    subst hg
    have hs0 : 0 ≤ s % (m : Int) := Int.emod_nonneg _ (by omega)
    have hs1 : s % (m : Int) < m := Int.emod_lt_of_pos _ hM
    have hi : (i : Int) = s % (m : Int) := by rw [← h]; exact Int.toNat_of_nonneg hs0
    refine ⟨?_, by omega⟩
    -- m ∣ 1 - s * (a % m)
    rw [hi]
    have h1 : (a * (s % (m : Int))) % (m : Int) = (s * (a % (m : Int))) % (m : Int) := by
      rw [Int.mul_emod, Int.emod_emod_of_dvd _ (Int.dvd_refl _), Int.mul_comm]
      conv => rhs; rw [Int.mul_emod, Int.emod_emod_of_dvd _ (Int.dvd_refl _)]
    rw [h1]
    have h2 : (1 - s * (a % (m : Int))) % (m : Int) = 0 := Int.emod_eq_zero_of_dvd hinv
    have := (Int.emod_eq_emod_iff_emod_sub_eq_zero (m := 1) (n := (m : Int)) (k := s * (a % (m : Int)))).mpr h2
    exact this.symm
  · simp only [hg, if_false] at h
    by_cases h1 : m = 1
    · simp only [h1, if_true, Option.some.injEq] at h
      subst h; subst h1
      simp
    · simp [h1] at h

/-- a negative exponent uses an inverse of the base: `r = inv^|e| mod |m|` with `base · inv ≡ 1 (mod |m|)`; no inverse ⇒ value error -/
theorem powMod_neg (b e m r : Int) (hm : m ≠ 0) (he : e < 0) (h : powMod b e m = some r) :
    ∃ inv : Nat, (b * (inv : Int)) % (m.natAbs : Int) = 1 % (m.natAbs : Int) ∧ r = (inv : Int) ^ e.natAbs % (m.natAbs : Int) := by
  unfold powMod at h
  have hM : m.natAbs ≠ 0 := by omega
  have hMpos : 0 < m.natAbs := by omega
  have hne : ¬ (0 ≤ e) := by omega
  simp only [hM, if_false, hne] at h
  cases hi : modInverse b m.natAbs with
  | none => simp [hi] at h
  | some inv =>
    simp only [hi, Option.some.injEq] at h
    refine ⟨inv, (modInverse_spec b m.natAbs inv hMpos hi).1, ?_⟩
    rw [← h, powModNat_spec _ _ _ hMpos, Int.natCast_emod, Int.natCast_pow]

example : powMod 3 200 13 = some 9 ∧ powMod (-2) 5 7 = some 3 ∧ powMod 3 (-1) 7 = some 5 ∧ powMod 2 (-1) 4 = none := by
  decide +kernel



end UH.C11
