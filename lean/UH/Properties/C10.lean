/-
C10 — throw / try deliver the raised exception intact through every strict position.
-/
import UH.Properties.C04
import UH.Properties.C13
namespace UH.C10
open UH Comp

/-- **ㄷㅈ raises the given exception value** (locations and contents as given) -/
theorem throw_raises (sp : Span) (metas : List Span) (vals : List Val) :
    bThrow sp [.strict (.err metas vals)] = Comp.throw ⟨metas, vals⟩ := by
  simp [bThrow, checkArity, forceAll, forceArg, checkType, Val.isErr, Bind.bind, Comp.bind, pure]

/-- ㄷㅈ of anything else is a type exception; wrong arity a value exception -/
theorem throw_non_exception (sp : Span) (v : Val) (h : v.isErr = false) :
    bThrow sp [.strict v] = Comp.throw (builtinErr .type sp) := by
  simp [bThrow, checkArity, forceAll, forceArg, checkType, h, typeErr, Bind.bind, Comp.bind, pure]

/-- **ㄷㅂ builds an exception whose contents are the evaluated arguments, in order, located at
the constructing call** -/
theorem exception_contents (sp : Span) (vs : List Val) :
    bException sp (vs.map Arg.strict) = ret (.strict (.err [sp] vs)) := by
  have h : forceAll (vs.map Arg.strict) = ret vs := by
    induction vs with
    | nil => rfl
    | cons v vs ih => simp [forceAll, forceArg, ih, Bind.bind, Comp.bind, pure]
  simp [bException, h, retV, Bind.bind, Comp.bind]

/-- **ㅅㄷ, normal path**: the result is the deep-forced first argument (`recursive_strict`) -/
theorem try_value (sp : Span) (body handler : Arg) (a : Arg) :
    (match bTry isBuiltinName sp [body, handler] with
     | .call (.recStrict b) k _ => some (b, k (.arg a))
     | _ => none) = some (body, ret a) := by
  rw [C04.try_catches]

/-- **ㅅㄷ, exceptional path**: the handler is called with the very exception that was raised —
same locations, same contents — whether user-made or produced by a built-in -/
theorem try_handler (sp : Span) (body handler : Arg) (e : ErrV) (f : Val)
    (hf : strictFunctional sp handler = ret f) (hc : checkCallee isBuiltinName sp f false = ret ()) :
    (match bTry isBuiltinName sp [body, handler] with
     | .call _ _ ke => ke e
     | c => c) = callArg (.apply f sp [.strict (.err e.metas e.vals)]) :=
  C04.try_handler_gets_exception sp body handler e f hf hc

/-- built-in failures begin with the marker 5 and their class code -/
theorem builtin_exception_prefix (c : ErrClass) (sp : Span) (extra : List Int) :
    ∃ rest, (builtinErr c sp extra).vals = Val.int 5 :: Val.int c.code :: rest :=
  ⟨_, (C04.builtinErr_shape c sp extra).2⟩

/-- **strict positions propagate**: an operand is forced with the exception continuation `throw`,
and `bind` passes an exception through whatever follows -/
theorem force_propagates (t : TId) (l : Option Int) : forceArg (.thunk t l) = force t ret Comp.throw := rfl

theorem bind_propagates {α β} (e : ErrV) (f : α → Comp β) : (Comp.throw e : Comp α) >>= f = Comp.throw e := rfl

theorem forceAll_propagates (t : TId) (l : Option Int) (rest : List Arg) (e : ErrV) :
    (match forceAll (.thunk t l :: rest) with
     | .force _ _ ke => ke e
     | c => c) = Comp.throw e := by
  simp [forceAll, forceArg, Bind.bind, Comp.bind]

/-- in the evaluator: an exception delivered to a frame that has no handler pending becomes that
frame's outcome, is stored in its cell and handed to the frame below — up to the top level -/
theorem exception_leaves_frame (m : MState) (f : Frame) (rest : List Frame) (e : ErrV)
    (hs : m.status = .running) (ht : m.tail = f :: rest) (hr : m.resp = none)
    (hc : f.cur = .throw e) (hk : f.konts = []) :
    (step m).resp = some (.error e) ∧ (step m).tail = rest := by
  unfold step
  simp [hs, ht, hr, hc, hk, finishFrame]

theorem exception_reaches_top (m : MState) (e : ErrV)
    (hs : m.status = .running) (ht : m.tail = []) (hr : m.resp = none)
    (hc : m.head.cur = .throw e) (hk : m.head.konts = []) :
    (step m).status = .done (.error e) := by
  unfold step
  simp [hs, ht, hr, hc, hk]

/-- **a failed sub-expression fails identically each time its value is needed again** -/
theorem failure_memoised (m : MState) (f : Frame) (rest : List Frame) (t : TId)
    (k : Val → Comp Res) (ke : ErrV → Comp Res) (e : ErrV)
    (hs : m.status = .running) (ht : m.tail = f :: rest) (hr : m.resp = none)
    (hc : f.cur = .force t k ke) (hv : (m.store.getCell t).value = some (.error e)) :
    (step m).tail = { f with cur := ke e } :: rest ∧ (step m).starts = m.starts :=
  let h := C13.force_completed_error m f rest t k ke e hs ht hr hc hv
  ⟨h.1, h.2.1⟩

end UH.C10
