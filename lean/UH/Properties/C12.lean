/-
C12 — sequence / string built-ins match the documented operations for every index.
-/
import UH.Model.Interp
namespace UH.C12
open UH Comp

/-! ### indexing: accepted iff −len ≤ i < len -/

theorem getElem_isSome_iff {α} (l : List α) (n : Nat) : (l[n]?).isSome = true ↔ n < l.length := by
  constructor
  · intro h
    rcases Nat.lt_or_ge n l.length with hl | hl
    · exact hl
    · rw [List.getElem?_eq_none hl] at h; cases h
  · intro h; rw [List.getElem?_eq_getElem h]; rfl

theorem pyIndex_isSome_iff {α} (l : List α) (i : Int) :
    (pyIndex l i).isSome = true ↔ -(l.length : Int) ≤ i ∧ i < l.length := by
  unfold pyIndex
  by_cases h0 : 0 ≤ i
  · simp only [h0, if_true]
    rw [getElem_isSome_iff]
    constructor <;> intro h <;> omega
  · simp only [h0, if_false]
    by_cases h1 : 0 ≤ (l.length : Int) + i
    · simp only [h1, if_true]
      rw [getElem_isSome_iff]
      constructor <;> intro h <;> omega
    · simp only [h1, if_false]
      constructor
      · intro h; cases h
      · intro h; omega

/-- a non-negative index selects that position; a negative one counts from the end -/
theorem pyIndex_nonneg {α} (l : List α) (i : Nat) : pyIndex l (i : Int) = l[i]? := by
  simp [pyIndex]

theorem pyIndex_neg {α} (l : List α) (k : Nat) (hk : 0 < k) (hle : k ≤ l.length) :
    pyIndex l (-(k : Int)) = l[l.length - k]? := by
  unfold pyIndex
  have h0 : ¬ (0 ≤ -(k : Int)) := by omega
  have h1 : 0 ≤ (l.length : Int) + -(k : Int) := by omega
  simp only [h0, h1, if_true, if_false]
  congr 1; omega

/-! ### slicing selects exactly start, start+step, … before end -/

/-- the clamped start / stop of `PySlice_AdjustIndices` -/
def adjust (len : Nat) (i lo hi : Int) : Int :=
  let i := if i < 0 then i + len else i
  if i < lo then lo else if i > hi then hi else i

/-- positive step: the selected positions are `s, s+step, …`, all `< e`, none skipped, and the
next one would reach `e` — with `s`, `e` the start / stop counted from the end when negative and
clamped to `[0, len]` -/
theorem slice_pos (len : Nat) (start stop step : Int) (hs : 0 < step) :
    let s := adjust len start 0 len
    let e := adjust len stop 0 len
    ∃ cnt : Nat, sliceIndices len start stop step = (List.range cnt).map (fun (k : Nat) => (s + (k : Int) * step).toNat) ∧
      (∀ k : Nat, k < cnt → 0 ≤ s + (k : Int) * step ∧ s + (k : Int) * step < e ∧ s + (k : Int) * step < len) ∧
      (e ≤ s + (cnt : Int) * step) := by
  intro s e
  have hs0 : 0 ≤ s := by simp only [s, adjust]; split <;> split <;> (try split) <;> omega
  have he : e ≤ len := by simp only [e, adjust]; split <;> split <;> (try split) <;> omega
  by_cases hse : s ≥ e
  · refine ⟨0, ?_, by intro k hk; omega, by simpa using hse⟩
    have : adjust len start 0 len ≥ adjust len stop 0 len := hse
    simp only [adjust] at this
    simp only [sliceIndices, hs, if_true, this]
    rfl
  · have hlt : s < e := by omega
    refine ⟨((e - s - 1) / step + 1).toNat, ?_, ?_, ?_⟩
    · simp only [sliceIndices, hs, if_true]
      have : ¬ (adjust len start 0 len ≥ adjust len stop 0 len) := hse
      simp only [adjust] at this
      simp only [this, if_false]
      rfl
    · intro k hk
      have hq : 0 ≤ (e - s - 1) / step := Int.ediv_nonneg (by omega) (by omega)
      have hk' : (k : Int) ≤ (e - s - 1) / step := by omega
      have h1 : (e - s - 1) / step * step ≤ e - s - 1 := Int.ediv_mul_le _ (by omega)
      have h2 : (k : Int) * step ≤ (e - s - 1) / step * step := Int.mul_le_mul_of_nonneg_right hk' (by omega)
      have h3 : 0 ≤ (k : Int) * step := Int.mul_nonneg (by omega) (by omega)
      omega
    · have hq : 0 ≤ (e - s - 1) / step := Int.ediv_nonneg (by omega) (by omega)
      have h1 : e - s - 1 < ((e - s - 1) / step + 1) * step := Int.lt_ediv_add_one_mul_self _ hs
      have : ((((e - s - 1) / step + 1).toNat : Nat) : Int) = (e - s - 1) / step + 1 := by omega
      rw [this]; omega

/-- with step 1 a slice is `drop start` of `take stop` -/
theorem slice_step_one {α} (l : List α) (start stop : Int) :
    ∀ i ∈ sliceIndices l.length start stop 1, i < l.length := by
  intro i hi
  obtain ⟨cnt, heq, hall, _⟩ := slice_pos l.length start stop 1 (by omega)
  rw [heq] at hi
  rw [List.mem_map] at hi
  obtain ⟨k, hk, rfl⟩ := hi
  have := hall k (List.mem_range.mp hk)
  omega

/-- negative step: the selected positions are `s, s+step, …` (descending), all `> e`, all inside the sequence,
none skipped, and the next one would reach `e` — with `s`, `e` counted from the end when negative and
clamped to `[−1, len−1]` -/
theorem slice_neg (len : Nat) (start stop step : Int) (hs : step < 0) :
    let s := adjust len start (-1) (len - 1)
    let e := adjust len stop (-1) (len - 1)
    ∃ cnt : Nat, sliceIndices len start stop step = (List.range cnt).map (fun (k : Nat) => (s + (k : Int) * step).toNat) ∧
      (∀ k : Nat, k < cnt → e < s + (k : Int) * step ∧ 0 ≤ s + (k : Int) * step ∧ s + (k : Int) * step < len) ∧
      (s + (cnt : Int) * step ≤ e) := by
  intro s e
  have hsn : ¬ (step > 0) := by omega
  have hs1 : s ≤ len - 1 := by simp only [s, adjust]; split <;> split <;> (try split) <;> omega
  have he : -1 ≤ e := by simp only [e, adjust]; split <;> split <;> (try split) <;> omega
  by_cases hse : s ≤ e
  · refine ⟨0, ?_, by intro k hk; omega, by simpa using hse⟩
    have : adjust len start (-1) (len - 1) ≤ adjust len stop (-1) (len - 1) := hse
    simp only [adjust] at this
    simp only [sliceIndices, hsn, if_false, this, if_true]
    rfl
  · have hlt : e < s := by omega
    refine ⟨((s - e - 1) / (-step) + 1).toNat, ?_, ?_, ?_⟩
    · simp only [sliceIndices, hsn, if_false]
      have : ¬ (adjust len start (-1) (len - 1) ≤ adjust len stop (-1) (len - 1)) := hse
      simp only [adjust] at this
      simp only [this, if_false]
      rfl
    · intro k hk
      have hq : 0 ≤ (s - e - 1) / (-step) := Int.ediv_nonneg (by omega) (by omega)
      have hk' : (k : Int) ≤ (s - e - 1) / (-step) := by omega
      have h1 : (s - e - 1) / (-step) * (-step) ≤ s - e - 1 := Int.ediv_mul_le _ (by omega)
      have h2 : (k : Int) * (-step) ≤ (s - e - 1) / (-step) * (-step) := Int.mul_le_mul_of_nonneg_right hk' (by omega)
      have h3 : 0 ≤ (k : Int) * (-step) := Int.mul_nonneg (by omega) (by omega)
      have h4 : (k : Int) * (-step) = -((k : Int) * step) := by rw [Int.mul_neg]
      omega
    · have hq : 0 ≤ (s - e - 1) / (-step) := Int.ediv_nonneg (by omega) (by omega)
      have h1 : s - e - 1 < ((s - e - 1) / (-step) + 1) * (-step) := Int.lt_ediv_add_one_mul_self _ (by omega)
      have : ((((s - e - 1) / (-step) + 1).toNat : Nat) : Int) = (s - e - 1) / (-step) + 1 := by omega
      rw [this]
      have h4 : ((s - e - 1) / (-step) + 1) * (-step) = -(((s - e - 1) / (-step) + 1) * step) := by rw [Int.mul_neg]
      omega

/-- every position a slice selects — whatever start, stop and non-zero step — lies inside the sequence, so
`pySlice` never drops a selected position -/
theorem slice_in_range (len : Nat) (start stop step : Int) (hne : step ≠ 0) :
    ∀ i ∈ sliceIndices len start stop step, i < len := by
  intro i hi
  by_cases hs : 0 < step
  · obtain ⟨cnt, heq, hall, _⟩ := slice_pos len start stop step hs
    rw [heq, List.mem_map] at hi
    obtain ⟨k, hk, rfl⟩ := hi
    have := hall k (List.mem_range.mp hk)
    omega
  · obtain ⟨cnt, heq, hall, _⟩ := slice_neg len start stop step (by omega)
    rw [heq, List.mem_map] at hi
    obtain ⟨k, hk, rfl⟩ := hi
    have := hall k (List.mem_range.mp hk)
    omega

/-- the slice has exactly as many elements as positions were selected -/
theorem slice_length {α} (l : List α) (start stop step : Int) (hne : step ≠ 0) :
    (pySlice l start stop step).length = (sliceIndices l.length start stop step).length := by
  unfold pySlice
  have h := slice_in_range l.length start stop step hne
  generalize sliceIndices l.length start stop step = idx at h
  induction idx with
  | nil => rfl
  | cons i is ih =>
    have hi : i < l.length := h i (by simp)
    simp [List.getElem?_eq_getElem hi, ih (fun j hj => h j (by simp [hj]))]

/-- reversing: `[::-1]` selects `len−1, …, 0` -/
example : sliceIndices 4 (-1) (-5) (-1) = [3, 2, 1, 0] ∧ sliceIndices 5 (-1) (-6) (-2) = [4, 2, 0] ∧
    sliceIndices 3 (-7) 9 2 = [0, 2] ∧ sliceIndices 3 1 (-9) (-1) = [1, 0] := by decide +kernel

/-- a zero step is rejected before slicing (value exception) -/
theorem slice_zero_step (sp : Span) (xs : List Arg) (a b : Int) :
    bSlice sp [.strict (.list xs), .strict (.int a), .strict (.int b), .strict (.int 0)] =
      Comp.throw (valueErr sp) := by
  simp [bSlice, checkArity, forceAll, forceArg, checkType, Val.isSequence, Val.isList, Val.isInteger,
    matchDefaults, checkMaxArity, checkMinArity, Bind.bind, Comp.bind, pure]

/-! ### map / filter / folds -/

/-- `ㅁㄷ` applies the function to the elements in order and keeps the results in that order -/
theorem mapM'_order {α β} (f : α → Comp β) (x : α) (xs : List α) :
    mapM' f (x :: xs) = (do let b ← f x; let bs ← mapM' f xs; pure (b :: bs)) := rfl

theorem mapM'_pure {α β} (g : α → β) (xs : List α) :
    mapM' (fun x => (ret (g x) : Comp β)) xs = ret (xs.map g) := by
  induction xs with
  | nil => rfl
  | cons x xs ih => simp [mapM', ih, Bind.bind, Comp.bind, pure]

/-- **folds associate as documented**: the accumulator is threaded through the feed from its first
element; a left fold calls `f(acc, item)`, a right fold (feed = reversed list) calls `f(item, acc)` -/
theorem foldGo_eq (f : Val) (sp : Span) (fromRight : Bool) (acc : Arg) (xs : List Arg) :
    foldGo f sp fromRight acc xs =
      xs.foldlM (fun acc item => applyFn f sp (if fromRight then [item, acc] else [acc, item])) acc := by
  induction xs generalizing acc with
  | nil => rfl
  | cons x xs ih =>
    simp only [foldGo, List.foldlM_cons]
    congr 1
    funext a
    exact ih a

/-! ### split / join -/

theorem isPrefix_split {α} [BEq α] [LawfulBEq α] (d l : List α) (h : isPrefix d l = true) :
    l = d ++ l.drop d.length := by
  induction d generalizing l with
  | nil => simp
  | cons p ps ih =>
    cases l with
    | nil => simp [isPrefix] at h
    | cons x xs =>
      simp only [isPrefix, Bool.and_eq_true, beq_iff_eq] at h
      obtain ⟨rfl, h2⟩ := h
      simp only [List.length_cons, List.drop_succ_cons, List.cons_append, List.cons.injEq, true_and]
      exact ih xs h2

theorem go_ne_nil {α} [BEq α] (d : List α) (fuel : Nat) (cur rest : List α) :
    splitOn.go d fuel cur rest ≠ [] := by
  induction fuel generalizing cur rest with
  | zero => simp [splitOn.go]
  | succ n ih =>
    cases rest with
    | nil => simp [splitOn.go]
    | cons x xs =>
      simp only [splitOn.go]
      split
      · simp
      · exact ih _ _

theorem joinWith_cons {α} (d a : List α) (t : List (List α)) (ht : t ≠ []) :
    joinWith d (a :: t) = a ++ d ++ joinWith d t := by
  cases t with
  | nil => exact absurd rfl ht
  | cons b bs => rfl

theorem join_go {α} [BEq α] [LawfulBEq α] (d : List α) (hd : d ≠ []) :
    ∀ (fuel : Nat) (cur rest : List α), rest.length < fuel →
      joinWith d (splitOn.go d fuel cur rest) = cur.reverse ++ rest := by
  intro fuel
  induction fuel with
  | zero => intro cur rest h; omega
  | succ n ih =>
    intro cur rest h
    cases rest with
    | nil => simp [splitOn.go, joinWith]
    | cons x xs =>
      simp only [splitOn.go]
      by_cases hp : isPrefix d (x :: xs) = true
      · simp only [hp, if_true]
        have hsplit := isPrefix_split d (x :: xs) hp
        have hdl : 0 < d.length := by
          cases d with
          | nil => exact absurd rfl hd
          | cons _ _ => simp
        have hlen : ((x :: xs).drop d.length).length < n := by
          simp only [List.length_drop, List.length_cons] at *; omega
        rw [joinWith_cons _ _ _ (go_ne_nil d n [] _), ih [] _ hlen]
        simp only [List.reverse_nil, List.nil_append, List.append_assoc]
        rw [← hsplit]
      · have hp' : isPrefix d (x :: xs) = false := by simpa using hp
        simp only [hp', Bool.false_eq_true, if_false]
        have hlen : xs.length < n := by simp only [List.length_cons] at h; omega
        rw [ih (x :: cur) xs hlen]
        simp

/-- **joining the pieces of a split with the same non-empty separator restores the original** -/
theorem join_split {α} [BEq α] [LawfulBEq α] (d s : List α) (hd : d ≠ []) :
    joinWith d (splitOn d s) = s := by
  unfold splitOn
  rw [join_go d hd (s.length + 1) [] s (by omega)]
  simp

/-- strings are sequences of Unicode code points: the length of a string value is its number of
characters -/
theorem len_string (s : String) : seqLen (.str s) = s.length := rfl

theorem concat_lists (sp : Span) (xs ys : List Arg) :
    bAdd sp [.strict (.list xs), .strict (.list ys)] = ret (.strict (.list (xs ++ ys))) := by
  simp [bAdd, checkMinArity, forceArg, forceAll, checkType, Val.isNumber, Val.isBoolean, Val.isSequence,
    Val.isList, retV, Bind.bind, Comp.bind, pure]

end UH.C12
