/-
C03 — unneeded sub-expressions are never evaluated.

A delayed expression is evaluated only by a `force` node naming it (`C13`).  The
theorems show, for each position the specification declares non-strict, that the
coroutine's tree contains no `force` of it: the result is *literally the same tree*
whatever delayed expression (evaluating to anything, raising, diverging) sits there.
-/
import UH.Model.Interp
import UH.Proofs.Unforced
import UH.Properties.C02
namespace UH.C03
open UH Comp

/-- **Boolean call**: the unselected branch does not occur in the result at all -/
theorem bool_true_ignores_second (sp : Span) (x y y' : Arg) :
    applyCallee (.bool true) sp [x, y] = applyCallee (.bool true) sp [x, y'] := by
  rw [C02.apply_bool, C02.apply_bool]; rfl

theorem bool_false_ignores_first (sp : Span) (x x' y : Arg) :
    applyCallee (.bool false) sp [x, y] = applyCallee (.bool false) sp [x', y] := by
  rw [C02.apply_bool, C02.apply_bool]; rfl

/-- **Boolean ㄱ (and)**: once an operand is false the remaining operands are never forced -/
theorem and_short_circuit (sp : Span) (rest rest' : List Arg) :
    bAll sp (.strict (.bool false) :: rest) = bAll sp (.strict (.bool false) :: rest') := by
  simp [bAll, forceArg, checkType, Val.isBoolean, retV, Bind.bind, Comp.bind]

/-- operands before the deciding one are evaluated in order: with a true head, `and` continues
with the tail only -/
theorem and_true_continues (sp : Span) (rest : List Arg) :
    bAll sp (.strict (.bool true) :: rest) = bAll sp rest := by
  simp [bAll, forceArg, checkType, Val.isBoolean, Bind.bind, Comp.bind]

/-- **Boolean ㄷ (or)**: once an operand is true the remaining operands are never forced -/
theorem or_short_circuit (sp : Span) (rest rest' : List Arg) :
    bAny sp (.strict (.bool true) :: rest) = bAny sp (.strict (.bool true) :: rest') := by
  simp [bAny, forceArg, checkType, Val.isBoolean, retV, Bind.bind, Comp.bind]

theorem or_false_continues (sp : Span) (rest : List Arg) :
    bAny sp (.strict (.bool false) :: rest) = bAny sp rest := by
  simp [bAny, forceArg, checkType, Val.isBoolean, Bind.bind, Comp.bind]

/-- the Boolean forms of ㄱ / ㄷ are these short-circuit loops -/
theorem multiply_bool_is_and (sp : Span) (b : Bool) (rest : List Arg) :
    bMultiply sp (.strict (.bool b) :: rest) = bAll sp (.strict (.bool b) :: rest) := by
  simp [bMultiply, checkMinArity, forceArg, checkType, Val.isBoolean, Val.isNumber, Bind.bind, Comp.bind]

theorem add_bool_is_or (sp : Span) (b : Bool) (rest : List Arg) :
    bAdd sp (.strict (.bool b) :: rest) = bAny sp (.strict (.bool b) :: rest) := by
  simp [bAdd, checkMinArity, forceArg, checkType, Val.isBoolean, Val.isNumber, Val.isSequence,
    Val.isList, Val.isString, Val.isBytes, Val.isDict, Bind.bind, Comp.bind]

/-- **list construction forces nothing**: `ㅁㄹ` returns its delayed arguments as they are -/
theorem list_elements_lazy (sp : Span) (argv : List Arg) : bList sp argv = ret (.strict (.list argv)) := rfl

/-- **list indexing returns the element still delayed**; the other elements do not occur -/
theorem list_index_ignores_others (sp : Span) (a b b' : Arg) :
    applyCallee (.list [a, b]) sp [.strict (.int 0)] = applyCallee (.list [a, b']) sp [.strict (.int 0)] := by
  rw [C02.apply_list, C02.apply_list]; rfl

/-- the length of a list does not look at its elements -/
theorem len_ignores_elements (sp : Span) (xs ys : List Arg) (h : xs.length = ys.length) :
    bLen sp [.strict (.list xs)] = bLen sp [.strict (.list ys)] := by
  simp [bLen, matchArguments, checkArity, forceAll, forceArg, checkType, Val.isSequence, Val.isList,
    seqLen, h, Bind.bind, Comp.bind, pure]

/-- **an argument its function never uses is never evaluated**: calling a closure only stores the
delayed arguments in the new environment -/
theorem closure_call_forces_no_argument (f : FId) (sp : Span) (args : List Arg) :
    ∃ k, applyCallee (.fn f) sp args = getFn f k := ⟨_, C02.apply_closure f sp args⟩

/-- an argument reference returns the selected argument and only that one -/
theorem argRef_selects_one (frame : List Arg) (i : Nat) (x : Arg) (h : frame[i]? = some x) (sp : Span) :
    (if (0 : Int) ≤ (i : Int) ∧ (i : Int) < frame.length then
        (match frame[((i : Int)).toNat]? with | some x => (ret x : Comp Arg) | none => bottom)
      else Comp.throw (builtinErr .outOfRange sp)) = ret x := by
  have hlt : i < frame.length := by
    rcases Nat.lt_or_ge i frame.length with hl | hl
    · exact hl
    · rw [List.getElem?_eq_none hl] at h; cases h
  have : (0 : Int) ≤ (i : Int) ∧ (i : Int) < frame.length := ⟨by omega, by omega⟩
  simp [this, h]

/-- **`ㄴ` stops at the first difference**: operands after it are never forced -/
theorem equals_stops_at_difference (k0 k : Key) (h : (k0 == k) = false) (rest rest' : List Arg) (v : Val) :
    (match bEqualsGo (some k0) (.strict v :: rest) with
     | .call (.keyOf _) kk _ => kk (.key k)
     | c => c) =
    (match bEqualsGo (some k0) (.strict v :: rest') with
     | .call (.keyOf _) kk _ => kk (.key k)
     | c => c) := by
  simp [bEqualsGo, forceArg, callKey, h, retV, Bind.bind, Comp.bind]

/-- **the handler of ㅅㄷ is not evaluated unless the body raises**: on the normal path the result
is the body's deep-forced value -/
theorem try_handler_lazy (sp : Span) (body h h' : Arg) (r : Res) :
    (match bTry isBuiltinName sp [body, h] with | .call _ k _ => k r | c => c) =
    (match bTry isBuiltinName sp [body, h'] with | .call _ k _ => k r | c => c) := by
  simp only [bTry, checkArity, callArg, Bind.bind, Comp.bind, List.length_cons, List.length_nil,
    List.contains_cons, List.contains_nil, beq_self_eq_true, Bool.or_false, if_true, Comp.tryCatch]
  cases r <;> rfl

/-! ### the general statement, for every program -/

/-- **an expression whose evaluation is never started is irrelevant.**  Take any machine state `m` (any program, at
any point of its evaluation), any delayed expression `u` and any number of steps `n`.  If the run does not start
evaluating `u`, then replacing what `u` delays by *anything* — an expression that raises, never terminates, or
would perform I/O, in any environment — leaves the status (printed result / exception / limit), the world
(standard input and output, files), all frames, the observer's events and the set of started expressions
unchanged; the stores differ only in the expression and environment recorded for `u`.
(`Proofs/Unforced.lean`: `step` is re-stated with its active frame explicit and proved equal to it; the simulation
is proved once for that form.) -/
theorem unforced_irrelevant (u : TId) (e : AST) (env : Env) (n : Nat) (m : MState) (hu : u ∉ (runN n m).starts) :
    let r := runN n m
    let r' := runN n { m with store := Unforced.patchCell m.store u e env }
    r'.status = r.status ∧ r'.world = r.world ∧ r'.head = r.head ∧ r'.tail = r.tail ∧ r'.events = r.events ∧
      r'.starts = r.starts ∧ r'.depth = r.depth ∧ Unforced.StoreRel u r.store r'.store :=
  Unforced.unforced_irrelevant u e env n m hu

/-- the only place where the machine reads what a cell delays is the start of its evaluation, which is logged:
a cell that already has a value, or any cell other than `u`, yields the same frame whatever `u` delays -/
theorem newFrame_reads_only_started (u t : TId) (s s' : Store) (h : Unforced.StoreRel u s s')
    (ht : t ≠ u ∨ (s.getCell t).value ≠ none) : newFrame s' t = newFrame s t :=
  Unforced.newFrame_rel h t ht

/-- non-vacuity: a run that allocates a delayed expression (here the marker `bomb`) and finishes without starting it -/
def demoRun : MState :=
  initState initStore default (.newThunk .bomb ⟨[], []⟩ fun _ => .ret (.arg (.strict (.int 1))))

example : initStore.cells.size ∉ (runN 5 demoRun).starts := by decide +kernel

end UH.C03
