/-
The evaluator's natural (big-step) semantics and what follows from it — shared by C02, C05, C13.

`BigStep.Eval` (UH/Proofs/BigStep.lean) is a big-step judgment for the *whole* evaluator, generic in
the coroutines of the built-ins: demands are served from completed cells, unevaluated cells get a
frame, a frame that ends with a delayed expression is replaced by that expression's frame without
consuming height.  Every derivation is realised by the micro-step machine (`step` / `runN`, the model
of `interpret.evaluate`) under any stack with enough room.  The theorems here are the statements the
properties use; the rules of the core calculus are the specification's lexically scoped call-by-need
semantics (`docs/spec.md`) as *derived* rules of that judgment.
-/
import UH.Proofs.NatSem
import UH.Proofs.EvalF
import UH.Proofs.EvalFComplete
import UH.Proofs.NatSemMemo
import UH.Model.Main
namespace UH.NatSemP
open UH BigStep Unforced C19

/-- **soundness for a coroutine inside any frame**: whatever the state `M` of the evaluator — any frames
below, any observer — if its active frame is about to run `c`, and `c` evaluates to `r` in the big-step
semantics using at most `h` further frames, and `h` frames still fit under `MAX_STACK_SIZE`, then the
machine reaches the state in which that frame holds the finished coroutine, with the derivation's
store and world; nothing else has changed (observer bookkeeping aside). -/
theorem bigstep_sound_comp {s w c h r s' w'} (hev : Eval s w (.comp c) h r s' w')
    (M : MState) (f : Frame) (rest : List Frame) (isHead : Bool)
    (hrun : M.status = .running) (hresp : M.resp = none) (hact : active M = (f, rest, isHead)) (hcur : f.cur = c)
    (hs : M.store = s) (hw : M.world = w) (hh : M.tail.length + h < maxStackSize) :
    Reaches M (upd M isHead rest { f with cur := resCur r } s' w') :=
  hev.sound M f rest isHead hrun hresp hact hcur hs hw hh

/-- **soundness for a frame**: a frame for the delayed expression `t` on top of any stack `rest` runs until it is
popped, and hands its outcome to the frame below -/
theorem bigstep_sound_frame {s w t h r s' w'} (hev : Eval s w (.frame t) h r s' w')
    (M : MState) (rest : List Frame) (hrun : M.status = .running) (hresp : M.resp = none)
    (htail : M.tail = newFrame s t :: rest) (hs : M.store = s) (hw : M.world = w)
    (hh : rest.length + h < maxStackSize) :
    Reaches M { M with tail := rest, resp := some (frameOut r), store := s', world := w' } :=
  hev.sound M rest hrun hresp htail hs hw hh

/-- **top level**: a derivation for the head coroutine is a finished run of `evaluate` with that result -/
theorem bigstep_run_head {s w c h r s' w'} (hev : Eval s w (.comp c) h r s' w') (hh : h < maxStackSize) :
    ∃ n, (runN n (initState s w c)).status = .done r ∧ (runN n (initState s w c)).store = s' ∧
      (runN n (initState s w c)).world = w' :=
  hev.run_head hh

/-- a height bound can always be weakened -/
theorem bigstep_mono {s w task h r s' w'} (hev : Eval s w task h r s' w') (h' : Nat) (hh : h ≤ h') :
    Eval s w task h' r s' w' := hev.mono h' hh

/-- **C05 — a loop written as tail calls runs for any number of iterations in constant stack.**
If each of the frames `t 0 … t (n-1)` ends by handing over the next delayed expression (a call whose result is
directly another call, possibly selected by a Boolean — `rule_call_closure`, `apply_bool`) and needs at most `h`
frames of its own, and the last one produces `r`, then on top of *any* stack with room for `h + 1` frames the
machine runs all `n` iterations and delivers `r` — `n` does not occur in the bound, and the stack-limit report
is never reached. -/
theorem tail_loops_constant_stack {h : Nat} {r : Except ErrV Res} {s' : Store} {w' : World}
    (st : Nat → Store) (wd : Nat → World) (t : Nat → TId) (lit : Nat → Option Int) (n : Nat)
    (hb : ∀ i, i < n → ∃ s1, Eval (st i) (wd i) (.comp (newFrame (st i) (t i)).cur) h
        (.ok (.arg (.thunk (t (i + 1)) (lit i)))) s1 (wd (i + 1)) ∧ st (i + 1) = setRequestor s1 (t (i + 1)) (some (t i)))
    (hl : Eval (st n) (wd n) (.frame (t n)) (h + 1) r s' w')
    (M : MState) (rest : List Frame) (hrun : M.status = .running) (hresp : M.resp = none)
    (htail : M.tail = newFrame (st 0) (t 0) :: rest) (hs : M.store = st 0) (hw : M.world = wd 0)
    (hh : rest.length + (h + 1) < maxStackSize) :
    Reaches M { M with tail := rest, resp := some (frameOut r), store := s', world := w' } :=
  tail_loop_runs st wd t lit n hb hl M rest hrun hresp htail hs hw hh

/-- … in particular the machine is still running afterwards: it did not stop with the limit report -/
theorem tail_loops_no_limit {h : Nat} {r : Except ErrV Res} {s' : Store} {w' : World}
    (st : Nat → Store) (wd : Nat → World) (t : Nat → TId) (lit : Nat → Option Int) (n : Nat)
    (hb : ∀ i, i < n → ∃ s1, Eval (st i) (wd i) (.comp (newFrame (st i) (t i)).cur) h
        (.ok (.arg (.thunk (t (i + 1)) (lit i)))) s1 (wd (i + 1)) ∧ st (i + 1) = setRequestor s1 (t (i + 1)) (some (t i)))
    (hl : Eval (st n) (wd n) (.frame (t n)) (h + 1) r s' w')
    (M : MState) (rest : List Frame) (hrun : M.status = .running) (hresp : M.resp = none)
    (htail : M.tail = newFrame (st 0) (t 0) :: rest) (hs : M.store = st 0) (hw : M.world = wd 0)
    (hh : rest.length + (h + 1) < maxStackSize) :
    ∃ k, (runN k M).status = .running ∧ (runN k M).tail = rest ∧ (runN k M).resp = some (frameOut r) := by
  obtain ⟨k, h1, _, _, h4, h5⟩ :=
    (tail_loops_constant_stack st wd t lit n hb hl M rest hrun hresp htail hs hw hh).fields
  exact ⟨k, h1.trans hrun, h4, h5⟩

/-- **C13 — a completed cell is served, not re-evaluated**: in the big-step semantics the demand for a cell that
holds a value continues with that value in the *same* store and world (no frame, no `starts` entry) -/
theorem completed_cell_served {s w h t k ke v r s' w'} (hv : (s.getCell t).value = some (.ok v))
    (hk : Eval s w (.comp (k v)) h r s' w') : Eval s w (.comp (.force t k ke)) h r s' w' :=
  .forceOk hv hk

theorem completed_failure_served {s w h t k ke e r s' w'} (hv : (s.getCell t).value = some (.error e))
    (hk : Eval s w (.comp (ke e)) h r s' w') : Eval s w (.comp (.force t k ke)) h r s' w' :=
  .forceErr hv hk

/-- **C13 — evaluation never forgets**: whatever is evaluated, in whatever order and with whatever result, every cell
that held an outcome before holds one afterwards — so no completed delayed expression is ever evaluated again
(`completed_cell_served`) -/
theorem knowledge_grows {s w task h r s' w'} (hev : Eval s w task h r s' w') (hw : HeapWF s.cells) :
    HeapWF s'.cells ∧ ∀ t, Known s t → Known s' t := hev.knowledge_grows hw

theorem cells_persist {s w task h r s' w'} (hev : Eval s w task h r s' w') :
    ∀ u, (s.cells.get? u).isSome → (s'.cells.get? u).isSome := hev.cells_persist

/-- a frame that ends with its own value leaves exactly that value in its cell … -/
theorem value_recorded {s w h t v s1 w1}
    (hc : Eval s w (.comp (newFrame s t).cur) h (.ok (.arg (.strict v))) s1 w1) (ht : (s.cells.get? t).isSome) :
    ((s1.resolve (s1.cells.size + 1) t (.ok v)).getCell t).value = some (.ok v) := frame_value_recorded hc ht

/-- … and one that ends with an exception leaves the exception: the failure is shared by every later user -/
theorem failure_recorded {s w h t e s1 w1}
    (hc : Eval s w (.comp (newFrame s t).cur) h (.error e) s1 w1) (ht : (s.cells.get? t).isSome) :
    ((s1.resolve (s1.cells.size + 1) t (.error e)).getCell t).value = some (.error e) := frame_failure_recorded hc ht

/-- the initial store is well-formed (the hypothesis of `knowledge_grows` is satisfiable) -/
theorem initStore_wf : HeapWF initStore.cells := HeapWF.empty

/-! ### C02 — the core calculus: derived natural-semantics rules -/

theorem ns_lit (s : Store) (w : World) (h : Nat) (n : Int) (sp : Span) (env : Env) :
    Eval s w (.comp (bodyOf (.lit n sp) env)) h (.ok (.arg (.strict (.int n)))) s w := rule_lit s w h n sp env

theorem ns_funRef (s : Store) (w : World) (h : Nat) (rel : Int) (sp : Span) (env : Env) (f : FId)
    (hf : pyIndex env.funs (-rel - 1) = some f) :
    Eval s w (.comp (bodyOf (.funRef rel sp) env)) h (.ok (.arg (.strict (.fn f)))) s w :=
  rule_funRef s w h rel sp env f hf

theorem ns_funRef_err (s : Store) (w : World) (h : Nat) (rel : Int) (sp : Span) (env : Env)
    (hf : pyIndex env.funs (-rel - 1) = none) :
    Eval s w (.comp (bodyOf (.funRef rel sp) env)) h (.error (builtinErr .outOfRange sp)) s w :=
  rule_funRef_err s w h rel sp env hf

theorem ns_funDef (s : Store) (w : World) (h : Nat) (body : AST) (sp : Span) (env : Env) :
    Eval s w (.comp (bodyOf (.funDef body sp) env)) h (.ok (.arg (.strict (.fn s.fns.size))))
      { s with fns := s.fns.push (.closure body ⟨env.funs ++ [s.fns.size], env.args⟩) } w :=
  rule_funDef s w h body sp env

theorem ns_argRef (s : Store) (w : World) (h : Nat) (a : AST) (relF : Int) (sp : Span) (env : Env)
    (frame : List Arg) (i : Int) (x : Arg) (s1 : Store) (w1 : World)
    (hfr : pyIndex env.args (-relF - 1) = some frame)
    (hpos : Eval (alloc s a env) w (.frame s.cells.size) h (.ok (.arg (.strict (.int i)))) s1 w1)
    (hi : 0 ≤ i ∧ i < frame.length) (hx : frame[i.toNat]? = some x) :
    Eval s w (.comp (bodyOf (.argRef a relF sp) env)) h (.ok (.arg x)) s1 w1 :=
  rule_argRef s w h a relF sp env frame i x s1 w1 hfr hpos hi hx

theorem ns_call_closure (s : Store) (w : World) (h : Nat) (f : AST) (args : List AST) (sp : Span) (env : Env)
    (fid : FId) (body : AST) (cenv : Env) (s1 : Store) (w1 : World)
    (hf : tagOf f = none)
    (hcallee : Eval (allocArgs (alloc s f env) env args).1 w (.frame s.cells.size) h
        (.ok (.arg (.strict (.fn fid)))) s1 w1)
    (hfn : s1.fns.get? fid = some (.closure body cenv)) :
    Eval s w (.comp (bodyOf (.call f args sp) env)) h
      (.ok (.arg (.thunk s1.cells.size (tagOf body))))
      (alloc s1 body ⟨cenv.funs, cenv.args ++ [(allocArgs (alloc s f env) env args).2]⟩) w1 :=
  rule_call_closure s w h f args sp env fid body cenv s1 w1 hf hcallee hfn

theorem ns_beta (s : Store) (w : World) (h : Nat) (t : TId) (f : AST) (args : List AST) (sp : Span) (env : Env)
    (fid : FId) (body : AST) (cenv : Env) (s1 : Store) (w1 : World) (r : Except ErrV Res) (s' : Store) (w' : World)
    (hcell : (s.getCell t).value = none) (hexpr : (s.getCell t).expr = .call f args sp) (henv : (s.getCell t).env = env)
    (hf : tagOf f = none)
    (hcallee : Eval (allocArgs (alloc s f env) env args).1 w (.frame s.cells.size) h
        (.ok (.arg (.strict (.fn fid)))) s1 w1)
    (hfn : s1.fns.get? fid = some (.closure body cenv))
    (hbody : Eval (setRequestor (alloc s1 body ⟨cenv.funs, cenv.args ++ [(allocArgs (alloc s f env) env args).2]⟩)
        s1.cells.size (some t)) w1 (.frame s1.cells.size) (h + 1) r s' w') :
    Eval s w (.frame t) (h + 1) r s' w' :=
  rule_beta s w h t f args sp env fid body cenv s1 w1 r s' w' hcell hexpr henv hf hcallee hfn hbody

/-! ### the premises are satisfiable -/

/-- a complete derivation: the frame of a freshly delayed literal produces the literal and writes it into the cell -/
theorem frame_of_literal (s : Store) (w : World) (h : Nat) (n : Int) (sp : Span) (env : Env) :
    Eval (alloc s (.lit n sp) env) w (.frame s.cells.size) (h + 1) (.ok (.arg (.strict (.int n))))
      ((alloc s (.lit n sp) env).resolve ((alloc s (.lit n sp) env).cells.size + 1) s.cells.size (.ok (.int n))) w := by
  refine .frameVal ?_
  rw [newFrame_cur_none (by rw [getCell_alloc_new]), getCell_alloc_new]
  exact rule_lit _ _ _ _ _ _

/-- … and the machine realises it: from any running state that has just pushed that frame -/
example (s : Store) (w : World) (n : Int) (sp : Span) (env : Env) (M : MState) (rest : List Frame)
    (hrun : M.status = .running) (hresp : M.resp = none)
    (htail : M.tail = newFrame (alloc s (.lit n sp) env) s.cells.size :: rest)
    (hs : M.store = alloc s (.lit n sp) env) (hw : M.world = w) (hh : rest.length + 1 < maxStackSize) :
    ∃ k, (runN k M).resp = some (.ok (.int n)) ∧ (runN k M).tail = rest := by
  obtain ⟨k, _, _, _, h4, h5⟩ := (bigstep_sound_frame (frame_of_literal s w 0 n sp env) M rest hrun hresp htail hs hw hh).fields
  exact ⟨k, h5, h4⟩

/-! ### the executable big-step evaluator, and closed instances

`evalF` (UH/Model/EvalF.lean) is `Eval` as a function with fuel; the driver runs it on every ordinary case of the
correspondence (command `main2`).  The instances below are *tests*, checked by kernel evaluation — they show that
closed derivations exist for real programs (a closure call with an argument reference; a recursive tail loop), and
that the loop's height does not depend on its iteration count in these instances; the general statement is
`tail_loops_constant_stack`. -/

/-- whatever `evalF` returns is derivable -/
theorem evalF_derivable (fuel : Nat) (s : Store) (w : World) (task : Task) (br : BigResult)
    (h : evalF fuel s w task = .ok br) : Eval s w task br.height br.res br.store br.world :=
  evalF_sound fuel s w task br h

/-- … and is what the machine computes -/
theorem evalF_is_machine (fuel : Nat) (s : Store) (w : World) (c : Comp Res) (br : BigResult)
    (h : evalF fuel s w (.comp c) = .ok br) (hh : br.height < maxStackSize) :
    ∃ n, (runN n (initState s w c)).status = .done br.res ∧ (runN n (initState s w c)).store = br.store ∧
      (runN n (initState s w c)).world = br.world :=
  evalF_machine fuel s w c br h hh

/-- **completeness of the executable evaluator**: every derivation of the natural semantics is found with enough fuel — `Eval`
and `evalF` are two presentations of one partial function -/
theorem evalF_finds_every_derivation {s w task h r s' w'} (hev : Eval s w task h r s' w') :
    ∃ fuel h', evalF fuel s w task = .ok ⟨r, s', w', h'⟩ ∧ h' ≤ h := evalF_complete hev

/-- **the natural semantics is deterministic** (coroutines and frames, any heights) -/
theorem bigstep_deterministic {s w task h1 h2 r1 r2 s1 s2 w1 w2}
    (e1 : Eval s w task h1 r1 s1 w1) (e2 : Eval s w task h2 r2 s2 w2) : r1 = r2 ∧ s1 = s2 ∧ w1 = w2 :=
  Eval.deterministic e1 e2

def w0 : World := { stdin := [], stdout := [], files := [], dirs := [], handles := #[], registry := [] }
def sp0 : Span := ⟨0, 0, 0⟩

/-- the head coroutine "evaluate this program expression to weak-head form" -/
def forceProg (e : AST) : Store × Comp Res :=
  let (t, st) := allocCell initStore e
  (st, do let v ← Comp.forceArg (.thunk t none); pure (Res.arg (.strict v)))

/-- integer result and height of a program, by the big-step evaluator -/
def valueOf (fuel : Nat) (e : AST) : Option (Int × Nat) :=
  match evalF fuel (forceProg e).1 w0 (.comp (forceProg e).2) with
  | .ok ⟨.ok (.arg (.strict (.int n))), _, _, h⟩ => some (n, h)
  | _ => none

theorem valueOf_machine (fuel : Nat) (e : AST) (n : Int) (h : Nat) (hv : valueOf fuel e = some (n, h))
    (hh : h < maxStackSize) :
    ∃ k, (runN k (initState (forceProg e).1 w0 (forceProg e).2)).status = .done (.ok (.arg (.strict (.int n)))) := by
  unfold valueOf at hv
  split at hv
  · rename_i n' s' w' h' heq
    simp only [Option.some.injEq, Prod.mk.injEq] at hv
    obtain ⟨rfl, rfl⟩ := hv
    obtain ⟨k, hk, _, _⟩ := evalF_machine fuel _ w0 _ _ heq hh
    exact ⟨k, hk⟩
  · cases hv

/-- `(λx. x) 5` -/
def progId : AST := .call (.funDef (.argRef (.lit 0 sp0) 0 sp0) sp0) [.lit 5 sp0] sp0

/-- `f(n) = (n = 0)(0, f(n + (−1)))` applied to `n`: a loop by tail calls, selected by a Boolean -/
def countdown (n : Int) : AST :=
  .call (.funDef (.call (.call (.lit 1 sp0) [.argRef (.lit 0 sp0) 0 sp0, .lit 0 sp0] sp0)
      [.lit 0 sp0, .call (.funRef 0 sp0) [.call (.lit 2 sp0) [.argRef (.lit 0 sp0) 0 sp0, .lit (-1) sp0] sp0] sp0] sp0) sp0)
    [.lit n sp0] sp0

theorem instance_id : valueOf 100 progId = some (5, 2) := by decide +kernel
theorem instance_countdown_2 : valueOf 300 (countdown 2) = some (0, 5) := by decide +kernel
theorem instance_countdown_12 : valueOf 3000 (countdown 12) = some (0, 5) := by decide +kernel

/-- the machine evaluates `(λx. x) 5` to 5 (through the big-step derivation) -/
theorem machine_id : ∃ k, (runN k (initState (forceProg progId).1 w0 (forceProg progId).2)).status
    = .done (.ok (.arg (.strict (.int 5)))) := valueOf_machine 100 progId 5 2 instance_id (by decide)

/-- … and the twelve-iteration loop to 0, within five frames -/
theorem machine_countdown_12 : ∃ k, (runN k (initState (forceProg (countdown 12)).1 w0 (forceProg (countdown 12)).2)).status
    = .done (.ok (.arg (.strict (.int 0)))) := valueOf_machine 3000 (countdown 12) 0 5 instance_countdown_12 (by decide)

end UH.NatSemP
