/-
C02 — the evaluator computes the values of the specification's lexically scoped, non-strict semantics.

`ByName.BN` (UH/Proofs/ByName.lean) is a *reference semantics* of the core calculus — integer literals, function
definitions, calls, argument references (static or computed position), function references — that knows nothing of
the implementation: no store, no memo cells, no requestor chains, no frames, no tail calls; environments are finite
trees of closures and unevaluated argument expressions; every use of an argument re-evaluates it (call by name).
`adequacy` proves that the evaluator's call-by-need semantics (`BigStep.Eval`, which the micro-step machine realises —
`NatSemP.bigstep_sound_frame`) yields exactly the values `BN` assigns: memoisation, sharing through requestor chains
and tail returns never change a result.  The proof maintains an invariant relating every heap cell and function
object to its tree (`Inv`: memo cells hold by-name values; requestor links connect expressions of equal value).
-/
import UH.Proofs.ByName
import UH.Proofs.ByNameEval
import UH.Proofs.ByNameComplete
import UH.Proofs.EvalFComplete
import UH.Properties.NatSem
namespace UH.ByNameP
open UH BigStep ByName

/-- the reference semantics is deterministic -/
theorem by_name_deterministic {ρ e v1 v2} (h1 : BN ρ e v1) (h2 : BN ρ e v2) : v1 = v2 := h1.deterministic h2

/-- **adequacy** (any heap satisfying the invariant, any delayed expression that is still unevaluated) -/
theorem by_name_adequacy {ρ e tv} (hbn : BN ρ e tv) (G : Ghost) (s : Store) (w : World) (t : TId)
    (inv : Inv G s) (hex : (s.cells.get? t).isSome) (he : (s.getCell t).expr = e) (hρ : G.cellEnv t = ρ)
    (hnone : (s.getCell t).value = none) :
    ∃ (G' : Ghost) (s' : Store) (v : Val) (h : Nat),
      Eval s w (.frame t) h (.ok (.arg (.strict v))) s' w ∧ Inv G' s' ∧ Ext G s G' s' ∧ RVal G' s' v tv :=
  adequacy hbn G s w t inv hex he hρ hnone

/-- the invariant holds initially -/
theorem invariant_initially : Inv ghost0 initStore := inv_init

/-- **closed programs**: the by-name value of a program is what the evaluator computes -/
theorem by_name_program (e : AST) (n : Int) (w : World) (hbn : BN (.mk [] []) e (.int n)) :
    ∃ (h : Nat) (s' : Store), Eval (alloc initStore e ⟨[], []⟩) w (.frame initStore.cells.size) h
        (.ok (.arg (.strict (.int n)))) s' w := adequacy_program e n w hbn

/-- … and, when the evaluation fits under `MAX_STACK_SIZE`, what the micro-step machine (`interpret.evaluate`)
returns for the head coroutine "evaluate the program expression" -/
theorem machine_computes_by_name (e : AST) (n : Int) (hbn : BN (.mk [] []) e (.int n)) :
    ∃ h : Nat, h < maxStackSize →
      ∃ k, (runN k (initState (NatSemP.forceProg e).1 NatSemP.w0 (NatSemP.forceProg e).2)).status
        = .done (.ok (.arg (.strict (.int n)))) := by
  obtain ⟨h, s', ev⟩ := adequacy_program e n NatSemP.w0 hbn
  refine ⟨h, fun hh => ?_⟩
  have hnone : ((alloc initStore e ⟨[], []⟩).getCell initStore.cells.size).value = none := by rw [getCell_alloc_new]
  have hev : Eval (NatSemP.forceProg e).1 NatSemP.w0 (.comp (NatSemP.forceProg e).2) h (.ok (.arg (.strict (.int n)))) s' NatSemP.w0 := by
    show Eval (alloc initStore e ⟨[], []⟩) NatSemP.w0 (.comp ((Comp.forceArg (.thunk initStore.cells.size none)).bind _)) h _ s' _
    simp only [Comp.forceArg, Comp.bind]
    exact .forceEvalOk hnone ev (.ret _ _ _ _)
  obtain ⟨k, hk, _, _⟩ := hev.run_head hh
  exact ⟨k, hk⟩

/-- the reference semantics is not vacuous: `(λx. x) 5` has the by-name value 5 … -/
theorem bn_identity_application : BN (.mk [] []) NatSemP.progId (.int 5) := by
  refine BN.call rfl BN.funDef ?_
  refine BN.argRef (frame := [(.lit 5 NatSemP.sp0, .mk [] [])]) (i := 0) (e' := .lit 5 NatSemP.sp0) (ρ' := .mk [] []) ?_ BN.lit ?_ ?_ BN.lit
  · rfl
  · decide
  · rfl

/-- … hence (adequacy) the evaluator computes 5 -/
theorem evaluator_identity_application (w : World) :
    ∃ (h : Nat) (s' : Store), Eval (alloc initStore NatSemP.progId ⟨[], []⟩) w (.frame initStore.cells.size) h
        (.ok (.arg (.strict (.int 5)))) s' w := by_name_program _ _ w bn_identity_application

/-! ### a recursive program, for every argument

`NatSemP.countdown n` is `f(n)` with `f(k) = (k = 0)(0, f(k + (−1)))`: recursion through a function reference, a Boolean
selecting between the result and the recursive call, ㄴ and ㄷ on integers.  In the reference semantics its value is 0
for every natural number `n` — a two-line induction on trees — and adequacy transports this to the evaluator. -/

/-- the body of `f` -/
def loopBody : AST :=
  .call (.call (.lit 1 NatSemP.sp0) [.argRef (.lit 0 NatSemP.sp0) 0 NatSemP.sp0, .lit 0 NatSemP.sp0] NatSemP.sp0)
    [.lit 0 NatSemP.sp0, .call (.funRef 0 NatSemP.sp0)
      [.call (.lit 2 NatSemP.sp0) [.argRef (.lit 0 NatSemP.sp0) 0 NatSemP.sp0, .lit (-1) NatSemP.sp0] NatSemP.sp0] NatSemP.sp0] NatSemP.sp0

theorem countdown_eq (n : Int) : NatSemP.countdown n = .call (.funDef loopBody NatSemP.sp0) [.lit n NatSemP.sp0] NatSemP.sp0 := rfl

/-- in the environment of a call of `f` whose argument expression has the value `k`, the body has the value 0 -/
theorem bn_loop : ∀ (k : Nat) (a : AST) (ρa : TEnv), BN ρa a (.int k) →
    BN (.mk [(loopBody, .mk [] [])] [[(a, ρa)]]) loopBody (.int 0) := by
  intro k
  induction k with
  | zero =>
    intro a ρa ha
    have harg : BN (.mk [(loopBody, .mk [] [])] [[(a, ρa)]]) (.argRef (.lit 0 NatSemP.sp0) 0 NatSemP.sp0) (.int 0) :=
      BN.argRef (frame := [(a, ρa)]) (i := 0) rfl BN.lit (by simp) rfl ha
    have hc := BN.eqInt (n := 1) (spf := NatSemP.sp0) (sp := NatSemP.sp0) (by decide +kernel) harg (BN.lit (n := 0) (sp := NatSemP.sp0))
    exact BN.sel (b := true) rfl hc BN.lit
  | succ k ih =>
    intro a ρa ha
    have harg : BN (.mk [(loopBody, .mk [] [])] [[(a, ρa)]]) (.argRef (.lit 0 NatSemP.sp0) 0 NatSemP.sp0) (.int ((k + 1 : Nat) : Int)) :=
      BN.argRef (frame := [(a, ρa)]) (i := 0) rfl BN.lit (by simp) rfl ha
    have hc := BN.eqInt (n := 1) (spf := NatSemP.sp0) (sp := NatSemP.sp0) (by decide +kernel) harg (BN.lit (n := 0) (sp := NatSemP.sp0))
    have hne : (((k + 1 : Nat) : Int) == 0) = false := by
      simp only [beq_eq_false_iff_ne, ne_eq]; omega
    rw [hne] at hc
    refine BN.sel (b := false) rfl hc ?_
    -- the recursive call: its argument expression has the value k
    have hadd := BN.addInt (n := 2) (spf := NatSemP.sp0) (sp := NatSemP.sp0) (by decide +kernel) harg (BN.lit (n := -1) (sp := NatSemP.sp0))
    have hk : (((k + 1 : Nat) : Int) + -1) = (k : Int) := by omega
    rw [hk] at hadd
    exact BN.call (b := loopBody) (ρd := .mk [] []) rfl (BN.funRef rfl) (ih _ _ hadd)

/-- **for every natural number `n`**, the by-name value of `countdown n` is 0 -/
theorem bn_countdown (n : Nat) : BN (.mk [] []) (NatSemP.countdown n) (.int 0) := by
  rw [countdown_eq]
  exact BN.call (b := loopBody) (ρd := .mk [] []) rfl BN.funDef (bn_loop n _ _ BN.lit)

/-- … hence **the evaluator computes 0 for every `n`** — a statement about unboundedly many programs and
unboundedly long evaluations, each with its memo cells, requestor chains and tail returns -/
theorem evaluator_countdown (n : Nat) (w : World) :
    ∃ (h : Nat) (s' : Store), Eval (alloc initStore (NatSemP.countdown n) ⟨[], []⟩) w (.frame initStore.cells.size) h
        (.ok (.arg (.strict (.int 0)))) s' w := by_name_program _ _ w (bn_countdown n)

/-! ### a non-tail recursion, for every argument: `s(k) = (k = 0)(0, k + s(k + (−1)))` -/

def sumBody : AST :=
  .call (.call (.lit 1 NatSemP.sp0) [.argRef (.lit 0 NatSemP.sp0) 0 NatSemP.sp0, .lit 0 NatSemP.sp0] NatSemP.sp0)
    [.lit 0 NatSemP.sp0,
     .call (.lit 2 NatSemP.sp0) [.argRef (.lit 0 NatSemP.sp0) 0 NatSemP.sp0,
       .call (.funRef 0 NatSemP.sp0)
         [.call (.lit 2 NatSemP.sp0) [.argRef (.lit 0 NatSemP.sp0) 0 NatSemP.sp0, .lit (-1) NatSemP.sp0] NatSemP.sp0] NatSemP.sp0] NatSemP.sp0]
    NatSemP.sp0

def sumProg (n : Int) : AST := .call (.funDef sumBody NatSemP.sp0) [.lit n NatSemP.sp0] NatSemP.sp0

/-- 0 + 1 + … + k -/
def tri : Nat → Int
  | 0 => 0
  | k + 1 => ((k + 1 : Nat) : Int) + tri k

theorem bn_sum_loop : ∀ (k : Nat) (a : AST) (ρa : TEnv), BN ρa a (.int k) →
    BN (.mk [(sumBody, .mk [] [])] [[(a, ρa)]]) sumBody (.int (tri k)) := by
  intro k
  induction k with
  | zero =>
    intro a ρa ha
    have harg : BN (.mk [(sumBody, .mk [] [])] [[(a, ρa)]]) (.argRef (.lit 0 NatSemP.sp0) 0 NatSemP.sp0) (.int 0) :=
      BN.argRef (frame := [(a, ρa)]) (i := 0) rfl BN.lit (by simp) rfl ha
    have hc := BN.eqInt (n := 1) (spf := NatSemP.sp0) (sp := NatSemP.sp0) (by decide +kernel) harg (BN.lit (n := 0) (sp := NatSemP.sp0))
    exact BN.sel (b := true) rfl hc BN.lit
  | succ k ih =>
    intro a ρa ha
    have harg : BN (.mk [(sumBody, .mk [] [])] [[(a, ρa)]]) (.argRef (.lit 0 NatSemP.sp0) 0 NatSemP.sp0) (.int ((k + 1 : Nat) : Int)) :=
      BN.argRef (frame := [(a, ρa)]) (i := 0) rfl BN.lit (by simp) rfl ha
    have hc := BN.eqInt (n := 1) (spf := NatSemP.sp0) (sp := NatSemP.sp0) (by decide +kernel) harg (BN.lit (n := 0) (sp := NatSemP.sp0))
    have hne : (((k + 1 : Nat) : Int) == 0) = false := by
      simp only [beq_eq_false_iff_ne, ne_eq]; omega
    rw [hne] at hc
    refine BN.sel (b := false) rfl hc ?_
    have hdec := BN.addInt (n := 2) (spf := NatSemP.sp0) (sp := NatSemP.sp0) (by decide +kernel) harg (BN.lit (n := -1) (sp := NatSemP.sp0))
    have hk : (((k + 1 : Nat) : Int) + -1) = (k : Int) := by omega
    rw [hk] at hdec
    have hrec : BN (.mk [(sumBody, .mk [] [])] [[(a, ρa)]])
        (.call (.funRef 0 NatSemP.sp0) [.call (.lit 2 NatSemP.sp0) [.argRef (.lit 0 NatSemP.sp0) 0 NatSemP.sp0, .lit (-1) NatSemP.sp0] NatSemP.sp0] NatSemP.sp0)
        (.int (tri k)) :=
      BN.call (b := sumBody) (ρd := .mk [] []) rfl (BN.funRef rfl) (ih _ _ hdec)
    exact BN.addInt (n := 2) (spf := NatSemP.sp0) (sp := NatSemP.sp0) (by decide +kernel) harg hrec

/-- **for every natural number `n`** the by-name value of the summation program is 0 + 1 + … + n — a recursion that is
*not* a tail call (the pending addition) … -/
theorem bn_sum (n : Nat) : BN (.mk [] []) (sumProg n) (.int (tri n)) :=
  BN.call (b := sumBody) (ρd := .mk [] []) rfl BN.funDef (bn_sum_loop n _ _ BN.lit)

/-- … and so is what the evaluator computes, for every `n` -/
theorem evaluator_sum (n : Nat) (w : World) :
    ∃ (h : Nat) (s' : Store), Eval (alloc initStore (sumProg n) ⟨[], []⟩) w (.frame initStore.cells.size) h
        (.ok (.arg (.strict (.int (tri n))))) s' w := by_name_program _ _ w (bn_sum n)

theorem tri_closed_form (n : Nat) : 2 * tri n = (n : Int) * ((n : Int) + 1) := by
  induction n with
  | zero => rfl
  | succ k ih =>
    simp only [tri]
    have : (2 : Int) * (((k + 1 : Nat) : Int) + tri k) = 2 * ((k + 1 : Nat) : Int) + 2 * tri k := by
      rw [Int.mul_add]
    rw [this, ih]
    have e : ((k + 1 : Nat) : Int) = (k : Int) + 1 := by omega
    rw [e]
    have : ((k : Int) + 1) * ((k : Int) + 1 + 1) = 2 * ((k : Int) + 1) + (k : Int) * ((k : Int) + 1) := by
      rw [Int.add_mul, Int.mul_add, Int.mul_add, Int.mul_add]; omega
    omega

/-! ### Euclid's algorithm, for every pair of natural numbers

`gcdProg a b` is `g(a, b)` with `g(x, y) = (y = 0)(x, g(y, x ㄴㅁ y))`: a two-parameter tail recursion through a function reference,
with the remainder built-in.  Its by-name value is `Nat.gcd a b` for all `a`, `b` (strong induction on `b`), and adequacy
makes that a statement about the evaluator. -/

def gcdBody : AST :=
  .call (.call (.lit 1 NatSemP.sp0) [.argRef (.lit 1 NatSemP.sp0) 0 NatSemP.sp0, .lit 0 NatSemP.sp0] NatSemP.sp0)
    [.argRef (.lit 0 NatSemP.sp0) 0 NatSemP.sp0,
     .call (.funRef 0 NatSemP.sp0)
       [.argRef (.lit 1 NatSemP.sp0) 0 NatSemP.sp0,
        .call (.lit (-33) NatSemP.sp0) [.argRef (.lit 0 NatSemP.sp0) 0 NatSemP.sp0, .argRef (.lit 1 NatSemP.sp0) 0 NatSemP.sp0] NatSemP.sp0]
       NatSemP.sp0]
    NatSemP.sp0

def gcdProg (a b : Int) : AST := .call (.funDef gcdBody NatSemP.sp0) [.lit a NatSemP.sp0, .lit b NatSemP.sp0] NatSemP.sp0

theorem gcd_step (a b : Nat) : Nat.gcd a b = Nat.gcd b (a % b) := by
  rw [Nat.gcd_comm a b, Nat.gcd_rec b a, Nat.gcd_comm]

/-- in the environment of a call of `g` whose argument expressions have the values `a` and `b`, the body has the value gcd a b -/
theorem bn_gcd_loop : ∀ (b a : Nat) (ea eb : AST) (ρa ρb : TEnv), BN ρa ea (.int a) → BN ρb eb (.int b) →
    BN (.mk [(gcdBody, .mk [] [])] [[(ea, ρa), (eb, ρb)]]) gcdBody (.int (Nat.gcd a b)) := by
  intro b
  induction b using Nat.strongRecOn with
  | ind b ih =>
    intro a ea eb ρa ρb ha hb
    have harg0 : BN (.mk [(gcdBody, .mk [] [])] [[(ea, ρa), (eb, ρb)]]) (.argRef (.lit 0 NatSemP.sp0) 0 NatSemP.sp0) (.int a) :=
      BN.argRef (frame := [(ea, ρa), (eb, ρb)]) (i := 0) rfl BN.lit (by simp) rfl ha
    have harg1 : BN (.mk [(gcdBody, .mk [] [])] [[(ea, ρa), (eb, ρb)]]) (.argRef (.lit 1 NatSemP.sp0) 0 NatSemP.sp0) (.int b) :=
      BN.argRef (frame := [(ea, ρa), (eb, ρb)]) (i := 1) rfl BN.lit (by simp) rfl hb
    have hc := BN.eqInt (n := 1) (spf := NatSemP.sp0) (sp := NatSemP.sp0) (by decide +kernel) harg1 (BN.lit (n := 0) (sp := NatSemP.sp0))
    cases b with
    | zero =>
      rw [Nat.gcd_zero_right]
      exact BN.sel (b := true) rfl hc harg0
    | succ k =>
      have hne : (((k + 1 : Nat) : Int) == 0) = false := by
        simp only [beq_eq_false_iff_ne, ne_eq]; omega
      rw [hne] at hc
      refine BN.sel (b := false) rfl hc ?_
      have hy : ((k + 1 : Nat) : Int) ≠ 0 := by omega
      have hrem := BN.remInt (n := -33) (spf := NatSemP.sp0) (sp := NatSemP.sp0) (by decide +kernel) harg0 harg1 hy
      rw [← Int.ofNat_tmod] at hrem
      rw [gcd_step a (k + 1)]
      exact BN.call (b := gcdBody) (ρd := .mk [] []) rfl (BN.funRef rfl)
        (ih (a % (k + 1)) (Nat.mod_lt _ (Nat.succ_pos k)) (k + 1) _ _ _ _ harg1 hrem)

/-- **for all natural numbers `a`, `b`**, the by-name value of `gcdProg a b` is their greatest common divisor -/
theorem bn_gcd (a b : Nat) : BN (.mk [] []) (gcdProg a b) (.int (Nat.gcd a b)) :=
  BN.call (b := gcdBody) (ρd := .mk [] []) rfl BN.funDef (bn_gcd_loop b a _ _ _ _ BN.lit BN.lit)

/-- … hence **the evaluator computes gcd a b for every pair** — Euclid's algorithm run by the call-by-need machine with its memo
cells, requestor chains and tail returns, for unboundedly many inputs and unboundedly long evaluations -/
theorem evaluator_gcd (a b : Nat) (w : World) :
    ∃ (h : Nat) (s' : Store), Eval (alloc initStore (gcdProg a b) ⟨[], []⟩) w (.frame initStore.cells.size) h
        (.ok (.arg (.strict (.int (Nat.gcd a b))))) s' w := by_name_program _ _ w (bn_gcd a b)

/-! ### C03 in the reference semantics: what is not needed does not matter -/

/-- the branch a Boolean does not select is irrelevant: replacing it by *any* expression — one that raises, diverges or is
ill-scoped — leaves the by-name value unchanged … -/
theorem unselected_branch_irrelevant {ρ f x y sp v} (y' : AST) (hf : tagOf f = none) (hc : BN ρ f (.bool true))
    (h : BN ρ (.call f [x, y] sp) v) : BN ρ (.call f [x, y'] sp) v := by
  cases h with
  | sel _ hc' hv => have := hc.deterministic hc'; cases this; exact BN.sel hf hc hv
  | call _ hc' _ => have := hc.deterministic hc'; cases this
  | eqInt _ _ _ => simp [tagOf] at hf
  | addInt _ _ _ => simp [tagOf] at hf
  | mulInt _ _ _ => simp [tagOf] at hf
  | ltInt _ _ _ => simp [tagOf] at hf
  | remInt _ _ _ _ => simp [tagOf] at hf
  | mkList _ => simp [tagOf] at hf

theorem unselected_branch_irrelevant' {ρ f x y sp v} (x' : AST) (hf : tagOf f = none) (hc : BN ρ f (.bool false))
    (h : BN ρ (.call f [x, y] sp) v) : BN ρ (.call f [x', y] sp) v := by
  cases h with
  | sel _ hc' hv => have := hc.deterministic hc'; cases this; exact BN.sel hf hc hv
  | call _ hc' _ => have := hc.deterministic hc'; cases this
  | eqInt _ _ _ => simp [tagOf] at hf
  | addInt _ _ _ => simp [tagOf] at hf
  | mulInt _ _ _ => simp [tagOf] at hf
  | ltInt _ _ _ => simp [tagOf] at hf
  | remInt _ _ _ _ => simp [tagOf] at hf
  | mkList _ => simp [tagOf] at hf

/-- … and so does the evaluator's result (adequacy): the two closed programs evaluate to the same integer, whatever the
unselected branch is -/
theorem evaluator_ignores_unselected_branch (f x y y' : AST) (sp : Span) (n : Int) (w : World) (hf : tagOf f = none)
    (hc : BN (.mk [] []) f (.bool true)) (h : BN (.mk [] []) (.call f [x, y] sp) (.int n)) :
    ∃ (hh : Nat) (s' : Store), Eval (alloc initStore (.call f [x, y'] sp) ⟨[], []⟩) w (.frame initStore.cells.size) hh
        (.ok (.arg (.strict (.int n)))) s' w :=
  by_name_program _ _ w (unselected_branch_irrelevant y' hf hc h)

/-- an argument a function never refers to is irrelevant: a call of a closure whose body has a by-name value in an
environment that does not look at the argument tuple's contents — here the simplest instance, a body that is a literal -/
theorem unused_argument_irrelevant {ρ f sp b ρd n spn} (args args' : List AST) (hf : tagOf f = none)
    (hc : BN ρ f (.clo b ρd)) (hb : b = .lit n spn) (_h : BN ρ (.call f args sp) (.int n)) :
    BN ρ (.call f args' sp) (.int n) := by
  subst hb
  exact BN.call hf hc BN.lit

/-! ### lists: lazy data (C03) -/

/-- `ㅁㄹ` evaluates none of its arguments: its by-name value is the list of the argument *expressions* -/
theorem list_construction_evaluates_nothing {ρ n spf args sp} (hn : encodeNumber n = [4, 3]) :
    BN ρ (.call (.lit n spf) args sp) (.list (args.map (fun a => (a, ρ)))) := BN.mkList hn

/-- selecting from a list literal evaluates the selected element expression only: for a position `i` inside the list, the
value of `i (e₀ … eₖ ㅁㄹ) ㅎㄴ` is the by-name value of `eᵢ` (negative positions count from the end) -/
theorem list_selection {ρ n spf args spl a sp i e v} (hn : encodeNumber n = [4, 3])
    (ha : BN ρ a (.int i)) (hidx : pyIndex args i = some e) (hv : BN ρ e v) :
    BN ρ (.call (.call (.lit n spf) args spl) [a] sp) v := by
  refine BN.index (by simp [tagOf]) (BN.mkList hn) ha ?_ hv
  rw [pyIndex_map, hidx]; rfl

/-- **an element that is not selected is irrelevant**: replacing every other element of the list by *any* expressions —
ones that raise, diverge or are ill-scoped — leaves the by-name value of the selection unchanged, as long as the selected
position still holds the same expression … -/
theorem unselected_elements_irrelevant {ρ n spf args args' spl a sp i e v} (hn : encodeNumber n = [4, 3])
    (ha : BN ρ a (.int i)) (hidx : pyIndex args i = some e) (hidx' : pyIndex args' i = some e)
    (h : BN ρ (.call (.call (.lit n spf) args spl) [a] sp) v) :
    BN ρ (.call (.call (.lit n spf) args' spl) [a] sp) v := by
  have hv : BN ρ e v := by
    cases h with
    | index _ hl ha' hi hv =>
      cases hl with
      | mkList _ =>
        have := ha.deterministic ha'; cases this
        rw [pyIndex_map, hidx] at hi
        cases hi
        exact hv
      | call hf _ _ => simp [tagOf] at hf
      | sel hf _ _ => simp [tagOf] at hf
      | index hf _ _ _ _ => simp [tagOf] at hf
    | call _ hl _ =>
      cases hl with
      | call hf _ _ => simp [tagOf] at hf
      | sel hf _ _ => simp [tagOf] at hf
      | index hf _ _ _ _ => simp [tagOf] at hf
  exact list_selection hn ha hidx' hv

/-- **the length of a list literal is its number of element expressions — whatever they are**: `(e₀ … eₖ ㅁㄹ) ㅈㄷ` has the by-name
value k + 1 for *every* choice of the `eᵢ` (raising, diverging, ill-scoped: none of them is evaluated) … -/
theorem length_ignores_elements {ρ nl spl nm spm args sp sp'} (hl : encodeNumber nl = [7, 2]) (hm : encodeNumber nm = [4, 3]) :
    BN ρ (.call (.lit nl spl) [.call (.lit nm spm) args sp'] sp) (.int args.length) := by
  have := BN.lenList (ρ := ρ) (spf := spl) (sp := sp) hl (BN.mkList (ρ := ρ) (spf := spm) (args := args) (sp := sp') hm)
  simpa using this

/-- … and the evaluator computes exactly that, for every list of element expressions (adequacy) -/
theorem evaluator_length_of_any_list (nl : Int) (spl : Span) (nm : Int) (spm : Span) (args : List AST) (sp sp' : Span) (w : World)
    (hl : encodeNumber nl = [7, 2]) (hm : encodeNumber nm = [4, 3]) :
    ∃ (hh : Nat) (s' : Store), Eval (alloc initStore (.call (.lit nl spl) [.call (.lit nm spm) args sp'] sp) ⟨[], []⟩) w
        (.frame initStore.cells.size) hh (.ok (.arg (.strict (.int args.length)))) s' w :=
  by_name_program _ _ w (length_ignores_elements hl hm)

/-- … and so does the evaluator's result (adequacy): both closed programs evaluate to the same integer -/
theorem evaluator_ignores_unselected_elements (n : Int) (spf : Span) (args args' : List AST) (spl : Span) (a : AST) (sp : Span)
    (i : Int) (e : AST) (m : Int) (w : World) (hn : encodeNumber n = [4, 3])
    (ha : BN (.mk [] []) a (.int i)) (hidx : pyIndex args i = some e) (hidx' : pyIndex args' i = some e)
    (h : BN (.mk [] []) (.call (.call (.lit n spf) args spl) [a] sp) (.int m)) :
    ∃ (hh : Nat) (s' : Store), Eval (alloc initStore (.call (.call (.lit n spf) args' spl) [a] sp) ⟨[], []⟩) w
        (.frame initStore.cells.size) hh (.ok (.arg (.strict (.int m)))) s' w :=
  by_name_program _ _ w (unselected_elements_irrelevant hn ha hidx hidx' h)

/-- a closed instance: `ㄴ (<bomb> ㄷ ㅁㄹㅎㄷ) ㅎㄴ` — element 1 of a list whose element 0 cannot be evaluated at all — is 2, in
the reference semantics and (adequacy) for the evaluator -/
example (w : World) :
    ∃ (hh : Nat) (s' : Store), Eval (alloc initStore (.call (.call (.lit (-28) ⟨0, 0, 0⟩) [.bomb, .lit 2 ⟨0, 0, 0⟩] ⟨0, 0, 0⟩)
        [.lit 1 ⟨0, 0, 0⟩] ⟨0, 0, 0⟩) ⟨[], []⟩) w (.frame initStore.cells.size) hh (.ok (.arg (.strict (.int 2)))) s' w :=
  by_name_program _ _ w (list_selection (e := .lit 2 ⟨0, 0, 0⟩) (by decide +kernel) BN.lit rfl BN.lit)

/-! ### the executable reference evaluator -/

/-- whatever the executable by-name evaluator (`Model/ByNameEval.lean`, driver command `bn`) returns is a value of the
reference semantics -/
theorem reference_evaluator_sound (fuel : Nat) (ρ : TEnv) (e : AST) (v : TVal) (h : bnEval fuel ρ e = some v) : BN ρ e v :=
  bnEval_sound fuel ρ e v h

/-- … hence, for a closed program, the value the evaluator computes -/
theorem reference_evaluator_program (fuel : Nat) (e : AST) (n : Int) (w : World)
    (h : bnEval fuel (.mk [] []) e = some (.int n)) :
    ∃ (hh : Nat) (s' : Store), Eval (alloc initStore e ⟨[], []⟩) w (.frame initStore.cells.size) hh
        (.ok (.arg (.strict (.int n)))) s' w := bnEval_program fuel e n w h

/-- … and it is **complete**: every value of the reference semantics is returned from some fuel on — the executable evaluator
the correspondence runs next to the implementation *is* the reference semantics -/
theorem reference_evaluator_complete {ρ : TEnv} {e : AST} {v : TVal} (h : BN ρ e v) :
    ∃ k0, ∀ k, k0 ≤ k → bnEval k ρ e = some v := bnEval_complete h

theorem reference_evaluator_iff (ρ : TEnv) (e : AST) (v : TVal) : BN ρ e v ↔ ∃ k, bnEval k ρ e = some v :=
  bnEval_iff ρ e v

/-- **the two executable models agree**: if the reference evaluator (`bn`) returns the integer `n` for a closed program, the
verified big-step evaluator (`main2`'s `evalF`) run on the freshly delayed program returns `n` too, for every large enough
fuel bound — the correspondence compares the implementation with both, and they cannot disagree with each other -/
theorem reference_and_bigstep_evaluators_agree (k : Nat) (e : AST) (n : Int) (w : World)
    (h : bnEval k (.mk [] []) e = some (.int n)) :
    ∃ (fuel height : Nat) (s' : Store),
      evalF fuel (alloc initStore e ⟨[], []⟩) w (.frame initStore.cells.size) = .ok ⟨.ok (.arg (.strict (.int n))), s', w, height⟩ := by
  obtain ⟨hh, s', ev⟩ := bnEval_program k e n w h
  obtain ⟨fuel, h', hf, _⟩ := evalF_complete ev
  exact ⟨fuel, h', s', hf⟩

end UH.ByNameP
