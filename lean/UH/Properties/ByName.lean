/-
C02 — the evaluator computes the values of the specification's lexically scoped, non-strict semantics.

`ByName.BN` (UH/Proofs/ByName.lean) is a *reference semantics* of the core calculus — integer literals, function
definitions, calls, argument references (static or computed position), function references — that knows nothing of
the implementation: no store, no memo cells, no requestor chains, no frames, no tail calls; environments are finite
trees of closures and unevaluated argument expressions; every use of an argument re-evaluates it (call by name).
`adequacy` proves that the evaluator's call-by-need semantics (`BigStep.Eval`, which the micro-step machine realises —
`NatSemP.bigstep_sound_frame`) yields exactly the values `BN` assigns: memoisation, sharing through requestor chains
and tail returns never change a result.  The proof maintains an invariant relating every heap cell and function
object to its tree (`Inv`: memo cells hold by-name values; requestor links connect expressions of equal value).
-/
import UH.Proofs.ByName
import UH.Properties.NatSem
namespace UH.ByNameP
open UH BigStep ByName

/-- the reference semantics is deterministic -/
theorem by_name_deterministic {ρ e v1 v2} (h1 : BN ρ e v1) (h2 : BN ρ e v2) : v1 = v2 := h1.deterministic h2

/-- **adequacy** (any heap satisfying the invariant, any delayed expression that is still unevaluated) -/
theorem by_name_adequacy {ρ e tv} (hbn : BN ρ e tv) (G : Ghost) (s : Store) (w : World) (t : TId)
    (inv : Inv G s) (hex : (s.cells.get? t).isSome) (he : (s.getCell t).expr = e) (hρ : G.cellEnv t = ρ)
    (hnone : (s.getCell t).value = none) :
    ∃ (G' : Ghost) (s' : Store) (v : Val) (h : Nat),
      Eval s w (.frame t) h (.ok (.arg (.strict v))) s' w ∧ Inv G' s' ∧ Ext G s G' s' ∧ RVal G' s' v tv :=
  adequacy hbn G s w t inv hex he hρ hnone

/-- the invariant holds initially -/
theorem invariant_initially : Inv ghost0 initStore := inv_init

/-- **closed programs**: the by-name value of a program is what the evaluator computes -/
theorem by_name_program (e : AST) (n : Int) (w : World) (hbn : BN (.mk [] []) e (.int n)) :
    ∃ (h : Nat) (s' : Store), Eval (alloc initStore e ⟨[], []⟩) w (.frame initStore.cells.size) h
        (.ok (.arg (.strict (.int n)))) s' w := adequacy_program e n w hbn

/-- … and, when the evaluation fits under `MAX_STACK_SIZE`, what the micro-step machine (`interpret.evaluate`)
returns for the head coroutine "evaluate the program expression" -/
theorem machine_computes_by_name (e : AST) (n : Int) (hbn : BN (.mk [] []) e (.int n)) :
    ∃ h : Nat, h < maxStackSize →
      ∃ k, (runN k (initState (NatSemP.forceProg e).1 NatSemP.w0 (NatSemP.forceProg e).2)).status
        = .done (.ok (.arg (.strict (.int n)))) := by
  obtain ⟨h, s', ev⟩ := adequacy_program e n NatSemP.w0 hbn
  refine ⟨h, fun hh => ?_⟩
  have hnone : ((alloc initStore e ⟨[], []⟩).getCell initStore.cells.size).value = none := by rw [getCell_alloc_new]
  have hev : Eval (NatSemP.forceProg e).1 NatSemP.w0 (.comp (NatSemP.forceProg e).2) h (.ok (.arg (.strict (.int n)))) s' NatSemP.w0 := by
    show Eval (alloc initStore e ⟨[], []⟩) NatSemP.w0 (.comp ((Comp.forceArg (.thunk initStore.cells.size none)).bind _)) h _ s' _
    simp only [Comp.forceArg, Comp.bind]
    exact .forceEvalOk hnone ev (.ret _ _ _ _)
  obtain ⟨k, hk, _, _⟩ := hev.run_head hh
  exact ⟨k, hk⟩

/-- the reference semantics is not vacuous: `(λx. x) 5` has the by-name value 5 … -/
theorem bn_identity_application : BN (.mk [] []) NatSemP.progId (.int 5) := by
  refine BN.call rfl BN.funDef ?_
  refine BN.argRef (frame := [(.lit 5 NatSemP.sp0, .mk [] [])]) (i := 0) (e' := .lit 5 NatSemP.sp0) (ρ' := .mk [] []) ?_ BN.lit ?_ ?_ BN.lit
  · rfl
  · decide
  · rfl

/-- … hence (adequacy) the evaluator computes 5 -/
theorem evaluator_identity_application (w : World) :
    ∃ (h : Nat) (s' : Store), Eval (alloc initStore NatSemP.progId ⟨[], []⟩) w (.frame initStore.cells.size) h
        (.ok (.arg (.strict (.int 5)))) s' w := by_name_program _ _ w bn_identity_application

end UH.ByNameP
