/-
C20 — evaluations are isolated from each other and independent of the host hash seed.

The model's front end `runMain` is a *function* of (fuel, world, program text,
flag): there is no interpreter state an earlier evaluation could leave behind —
in particular no hash seed and no global table other than the world's module
registry — so determinism and order-independence hold by construction.  The
theorems below make the inputs explicit.  That the *implementation* has no other
hidden state (stale requestor links, memo fields on values, dictionary order)
is established by the session / hash-seed correspondence (harness/uh/props/c20.py).
-/
import UH.Model.Main
import UH.Proofs.Session
import UH.Properties.ByName
namespace UH.C20
open UH

/-- the outcome of evaluating a program depends only on the program, the input, the files and
the module registry -/
theorem standalone_deterministic (fuel : Nat) (w₁ w₂ : World) (text : List Nat) (fio : Bool)
    (h : w₁ = w₂) : (runMain fuel w₁ text fio).outcome = (runMain fuel w₂ text fio).outcome := by
  rw [h]

/-- every evaluation starts from the same initial store: nothing of an earlier evaluation's heap
(delayed expressions, memo cells, requestor links, function objects) is reachable -/
theorem fresh_store_each_time (fuel : Nat) (w : World) (text : List Nat) (fio : Bool) (pe : PErr)
    (h : parse normChar text = .error pe) : (runMain fuel w text fio).store.cells.size = 0 := by
  simp [runMain, h, initStore, Heap.empty]

/-- equality and dictionary keys are structural (`Key`): no hash value of the host occurs in the
model, so there is nothing for a hash seed to influence -/
theorem keys_are_structural (a b : Key) : (a == b) = true ↔ Key.beq a b = true := Iff.rfl

/-- a dictionary prints its entries sorted by printed key: the order of the result does not depend
on anything but the set of printed pairs when the printed keys are distinct -/
theorem insertByKey_sorted_head (p q : String × String) (r : List (String × String)) (h : p.1 < q.1) :
    insertByKey p (q :: r) = p :: q :: r := by
  simp [insertByKey, String.lt_asymm h]

/-! ### isolation inside one heap (the fragment of the call-by-name reference semantics)

The theorems above say that the model starts every evaluation from the initial store.  The implementation does not: one
Python heap carries every object earlier evaluations created.  The following theorems are about that situation — programs
evaluated one after another in *one growing heap* — for the programs of the fragment of `ByName.BN` (literals, functions,
argument references, Booleans and selection, integer ㄴ / ㄷ / ㄱ / ㅈ, lists): whatever the heap looks like when a program
starts — as long as it satisfies the invariant of the adequacy proof, which the initial heap does and every evaluation
re-establishes — the program evaluates to its by-name value, a function of the program text alone. -/

open ByName BigStep in
/-- a closed program evaluated in *any* heap satisfying the invariant computes its by-name value and leaves such a heap -/
theorem evaluation_in_any_heap {G : Ghost} {s : Store} (inv : Inv G s) (e : AST) (n : Int) (w : World)
    (hbn : BN (.mk [] []) e (.int n)) :
    ∃ (h : Nat) (G' : Ghost) (s' : Store),
      Eval (alloc s e ⟨[], []⟩) w (.frame s.cells.size) h (.ok (.arg (.strict (.int n)))) s' w ∧ Inv G' s' :=
  adequacy_anywhere inv e n w hbn

open ByName in
/-- **every sequence of programs** (any order, any repetitions), evaluated one after another in one heap, produces program
by program the values the programs have on their own — from every heap that satisfies the invariant -/
theorem session_isolated (w : World) {es : List AST} {ns : List Int} (hv : Vals es ns) :
    ∀ (G : Ghost) (s : Store), Inv G s → ∃ (G' : Ghost) (s' : Store), Session w s es ns s' ∧ Inv G' s' :=
  ByName.session_isolated w hv

open ByName in
theorem session_from_start (w : World) {es : List AST} {ns : List Int} (hv : Vals es ns) :
    ∃ s', Session w initStore es ns s' := ByName.session_from_start w hv

open ByName in
/-- the outputs are determined by the programs alone -/
theorem session_outputs_unique {es : List AST} {ns ns' : List Int} (hv : Vals es ns) (hv' : Vals es ns') : ns = ns' :=
  ByName.session_outputs_unique (w := default) hv hv'

open ByName in
/-- a closed instance (the hypotheses are satisfiable): the session `3`, `countdown 2`, `3` — a program, a recursive program that
fills memo cells and requestor chains, and the first program again — yields 3, 0, 3 -/
example (w : World) : ∃ s', Session w initStore [.lit 3 ⟨0, 0, 0⟩, NatSemP.countdown 2, .lit 3 ⟨0, 0, 0⟩] [3, 0, 3] s' :=
  session_from_start w (.cons BN.lit (.cons (ByNameP.bn_countdown 2) (.cons BN.lit .nil)))

end UH.C20
