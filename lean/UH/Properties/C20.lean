/-
C20 — evaluations are isolated from each other and independent of the host hash seed.

The model's front end `runMain` is a *function* of (fuel, world, program text,
flag): there is no interpreter state an earlier evaluation could leave behind —
in particular no hash seed and no global table other than the world's module
registry — so determinism and order-independence hold by construction.  The
theorems below make the inputs explicit.  That the *implementation* has no other
hidden state (stale requestor links, memo fields on values, dictionary order)
is established by the session / hash-seed correspondence (harness/uh/props/c20.py).
-/
import UH.Model.Main
namespace UH.C20
open UH

/-- the outcome of evaluating a program depends only on the program, the input, the files and
the module registry -/
theorem standalone_deterministic (fuel : Nat) (w₁ w₂ : World) (text : List Nat) (fio : Bool)
    (h : w₁ = w₂) : (runMain fuel w₁ text fio).outcome = (runMain fuel w₂ text fio).outcome := by
  rw [h]

/-- every evaluation starts from the same initial store: nothing of an earlier evaluation's heap
(delayed expressions, memo cells, requestor links, function objects) is reachable -/
theorem fresh_store_each_time (fuel : Nat) (w : World) (text : List Nat) (fio : Bool) (pe : PErr)
    (h : parse normChar text = .error pe) : (runMain fuel w text fio).store.cells.size = 0 := by
  simp [runMain, h, initStore, Heap.empty]

/-- equality and dictionary keys are structural (`Key`): no hash value of the host occurs in the
model, so there is nothing for a hash seed to influence -/
theorem keys_are_structural (a b : Key) : (a == b) = true ↔ Key.beq a b = true := Iff.rfl

/-- a dictionary prints its entries sorted by printed key: the order of the result does not depend
on anything but the set of printed pairs when the printed keys are distinct -/
theorem insertByKey_sorted_head (p q : String × String) (r : List (String × String)) (h : p.1 < q.1) :
    insertByKey p (q :: r) = p :: q :: r := by
  simp [insertByKey, String.lt_asymm h]

end UH.C20
