/-
C14 — file handles behave as byte files; open modes never destroy data they must keep.

Theorems about the byte-array file specification used by the model (`openData`,
`writeAt`, `truncTo`, `fileOp`); "a handle behaves as this byte file" is the
correspondence on real files (harness/uh/props/c14.py).
Modes: 0 rb, 1 wb, 2 ab, 3 r+b, 4 w+b, 5 a+b.
-/
import UH.Model.World
namespace UH.C14
open UH World

/-- **read-only, read-write-without-reset and append modes never discard existing contents** -/
theorem open_keeps_contents (data : List UInt8) (mode : Nat) (hm : mode = 0 ∨ mode = 2 ∨ mode = 3 ∨ mode = 5) :
    ∃ pos, openData (some data) mode = some (data, pos) := by
  rcases hm with rfl | rfl | rfl | rfl <;> exact ⟨_, rfl⟩

/-- append modes position at the end, the others at 0 -/
theorem open_position (data : List UInt8) :
    openData (some data) 2 = some (data, data.length) ∧ openData (some data) 5 = some (data, data.length) ∧
    openData (some data) 0 = some (data, 0) ∧ openData (some data) 3 = some (data, 0) := ⟨rfl, rfl, rfl, rfl⟩

/-- **write and write-read modes start from an empty file**, whatever was there -/
theorem open_write_empties (existing : Option (List UInt8)) :
    openData existing 1 = some ([], 0) ∧ openData existing 4 = some ([], 0) := ⟨rfl, rfl⟩

/-- modes r and r+ need an existing file; a and a+ create an empty one -/
theorem open_missing :
    openData none 0 = none ∧ openData none 3 = none ∧ openData none 2 = some ([], 0) ∧
    openData none 5 = some ([], 0) := ⟨rfl, rfl, rfl, rfl⟩

/-! ### writes -/

theorem writeAt_length (data b : List UInt8) (at_ : Nat) :
    (writeAt data at_ b).length = max data.length (at_ + b.length) := by
  unfold writeAt
  by_cases h : at_ > data.length
  · simp only [h, if_true, List.length_append, List.length_take, List.length_drop, List.length_replicate]
    omega
  · simp only [h, if_false, List.length_append, List.length_take, List.length_drop]
    omega

/-- **append writes always land at the end**: writing at the end position is concatenation -/
theorem append_lands_at_end (data b : List UInt8) : writeAt data data.length b = data ++ b := by
  simp [writeAt]

/-- the written bytes are read back from the window -/
theorem writeAt_window (data b : List UInt8) (at_ i : Nat) (hi : i < b.length) :
    (writeAt data at_ b)[at_ + i]? = b[i]? := by
  unfold writeAt
  have hlen : ∀ padded : List UInt8, at_ ≤ padded.length →
      (padded.take at_ ++ b ++ padded.drop (at_ + b.length))[at_ + i]? = b[i]? := by
    intro padded hp
    rw [List.append_assoc, List.getElem?_append_right (by simp; omega)]
    simp only [List.length_take, Nat.min_eq_left hp, Nat.add_sub_cancel_left]
    rw [List.getElem?_append_left hi]
  by_cases h : at_ > data.length
  · simp only [h, if_true]; exact hlen _ (by simp; omega)
  · simp only [h, if_false]; exact hlen _ (by omega)

/-- **every other byte is preserved**: positions before the window keep their byte -/
theorem writeAt_before (data b : List UInt8) (at_ i : Nat) (hi : i < at_) (hd : i < data.length) :
    (writeAt data at_ b)[i]? = data[i]? := by
  unfold writeAt
  by_cases h : at_ > data.length
  · simp only [h, if_true]
    rw [List.append_assoc, List.getElem?_append_left (by simp; omega)]
    rw [List.getElem?_take_of_lt hi, List.getElem?_append_left hd]
  · simp only [h, if_false]
    rw [List.append_assoc, List.getElem?_append_left (by simp; omega)]
    rw [List.getElem?_take_of_lt hi]

/-- positions after the window keep their byte -/
theorem writeAt_after (data b : List UInt8) (at_ i : Nat) (hi : at_ + b.length ≤ i) (hle : at_ ≤ data.length) :
    (writeAt data at_ b)[i]? = data[i]? := by
  unfold writeAt
  have h : ¬ (at_ > data.length) := by omega
  simp only [h, if_false]
  rw [List.append_assoc, List.getElem?_append_right (by simp; omega)]
  simp only [List.length_take, Nat.min_eq_left hle]
  rw [List.getElem?_append_right (by omega), List.getElem?_drop]
  congr 1; omega

/-- a gap between the old end and the write position is zero-filled -/
theorem writeAt_gap (data b : List UInt8) (at_ i : Nat) (h1 : data.length ≤ i) (h2 : i < at_) :
    (writeAt data at_ b)[i]? = some 0 := by
  unfold writeAt
  have h : at_ > data.length := by omega
  simp only [h, if_true]
  rw [List.append_assoc, List.getElem?_append_left (by simp; omega)]
  rw [List.getElem?_take_of_lt h2, List.getElem?_append_right h1]
  rw [List.getElem?_replicate]
  have : i - data.length < at_ - data.length := by omega
  simp [this]

/-! ### truncate -/

theorem truncTo_length (data : List UInt8) (sz : Nat) : (truncTo data sz).length = sz := by
  unfold truncTo
  split <;> simp <;> omega

theorem truncTo_prefix (data : List UInt8) (sz i : Nat) (hi : i < sz) (hd : i < data.length) :
    (truncTo data sz)[i]? = data[i]? := by
  unfold truncTo
  split
  · rw [List.getElem?_take_of_lt hi]
  · rw [List.getElem?_append_left hd]

/-! ### the handle operations (`fileOp`) -/

def mkWorld (path : String) (data : List UInt8) (mode pos : Nat) (closed : Bool := false) : World :=
  ⟨[], [], [(path, data)], [], #[⟨path, mode, pos, closed⟩], []⟩

/-- **read** returns the bytes from the position (at most `n`) and advances the position by
exactly the number of bytes returned; the contents are unchanged -/
theorem read_spec (path : String) (data : List UInt8) (mode pos : Nat) (n : Nat) (hm : canRead mode = true)
    (hn : (n : Int) < 2 ^ 63) (sp : Span) :
    fileOp (mkWorld path data mode pos) 0 (.fread sp 0 n) =
      .ok (.bytes ((data.drop pos).take n),
        { mkWorld path data mode pos with
          handles := #[⟨path, mode, pos + ((data.drop pos).take n).length, false⟩] }) := by
  have h1 : ¬ ((n : Int) < -1) := by omega
  have h2 : ¬ ((n : Int) ≥ 2 ^ 63) := by omega
  have h3 : ¬ ((n : Int) = -1) := by omega
  simp [fileOp, mkWorld, getFile, h1, h3, hm]
  omega

/-- `read(−1)` returns everything from the position to the end -/
theorem read_all (path : String) (data : List UInt8) (mode pos : Nat) (hm : canRead mode = true) (sp : Span) :
    fileOp (mkWorld path data mode pos) 0 (.fread sp 0 (-1)) =
      .ok (.bytes (data.drop pos),
        { mkWorld path data mode pos with handles := #[⟨path, mode, pos + (data.drop pos).length, false⟩] }) := by
  simp [fileOp, mkWorld, getFile, hm]

/-- **write** stores the bytes at the position (at the end in append modes), returns their count and
leaves the position just after them -/
theorem write_spec (path : String) (data b : List UInt8) (mode pos : Nat) (hm : canWrite mode = true)
    (hb : b ≠ []) (sp : Span) :
    fileOp (mkWorld path data mode pos) 0 (.fwrite sp 0 b) =
      (let at_ := if isAppend mode then data.length else pos
       .ok (.int b.length,
        { mkWorld path data mode pos with
          files := [(path, writeAt data at_ b)], handles := #[⟨path, mode, at_ + b.length, false⟩] })) := by
  have : b.isEmpty = false := by cases b <;> simp_all
  simp [fileOp, mkWorld, getFile, setFile, setFile.upd, hm, this]

/-- a zero-length write changes no byte -/
theorem write_empty (path : String) (data : List UInt8) (mode pos : Nat) (hm : canWrite mode = true) (sp : Span) :
    ∃ w', fileOp (mkWorld path data mode pos) 0 (.fwrite sp 0 []) = .ok (.int 0, w') ∧ getFile w' path = some data := by
  refine ⟨_, by simp [fileOp, mkWorld, getFile, hm]; rfl, ?_⟩
  simp [getFile, mkWorld]

/-- **tell / seek**: the position is reported and set exactly; seeking never changes the contents -/
theorem tell_spec (path : String) (data : List UInt8) (mode pos : Nat) (sp : Span) :
    fileOp (mkWorld path data mode pos) 0 (.ftell sp 0) = .ok (.int pos, mkWorld path data mode pos) := by
  simp [fileOp, mkWorld]

theorem seek_set_spec (path : String) (data : List UInt8) (mode pos : Nat) (off : Nat) (hoff : (off : Int) < 2 ^ 63) (sp : Span) :
    fileOp (mkWorld path data mode pos) 0 (.fseek sp 0 off 0) =
      .ok (.int off, { mkWorld path data mode pos with handles := #[⟨path, mode, off, false⟩] }) := by
  have h1 : ¬ ((off : Int) ≥ 2 ^ 63 ∨ (off : Int) < -(2 ^ 63)) := by omega
  have h2 : ¬ ((off : Int) < 0) := by omega
  simp [fileOp, mkWorld, h2]
  omega

theorem seek_cur_spec (path : String) (data : List UInt8) (mode pos : Nat) (off : Int)
    (h0 : 0 ≤ (pos : Int) + off) (hoff : off < 2 ^ 63 ∧ -(2 ^ 63) ≤ off) (sp : Span) :
    fileOp (mkWorld path data mode pos) 0 (.fseek sp 0 off 1) =
      .ok (.int (pos + off), { mkWorld path data mode pos with handles := #[⟨path, mode, ((pos : Int) + off).toNat, false⟩] }) := by
  have h1 : ¬ (off ≥ 2 ^ 63 ∨ off < -(2 ^ 63)) := by omega
  have h2 : ¬ ((pos : Int) + off < 0) := by omega
  simp [fileOp, mkWorld, h2]
  omega

/-- a negative target is rejected (EINVAL) and nothing changes -/
theorem seek_negative (path : String) (data : List UInt8) (mode pos : Nat) (off : Int)
    (h0 : off < 0) (hoff : -(2 ^ 63) ≤ off) (sp : Span) :
    fileOp (mkWorld path data mode pos) 0 (.fseek sp 0 off 0) = .error (.os 22) := by
  have h1 : ¬ (off ≥ 2 ^ 63 ∨ off < -(2 ^ 63)) := by omega
  simp [fileOp, mkWorld, h0]
  omega

/-- **truncate** sets the size (cutting or zero-extending), keeps the position -/
theorem truncate_spec (path : String) (data : List UInt8) (mode pos : Nat) (sz : Nat) (hm : canWrite mode = true)
    (hsz : (sz : Int) < 2 ^ 63) (sp : Span) :
    fileOp (mkWorld path data mode pos) 0 (.ftrunc sp 0 (some sz)) =
      .ok (.int sz, { mkWorld path data mode pos with files := [(path, truncTo data sz)] }) := by
  have h1 : ¬ ((sz : Int) ≥ 2 ^ 63 ∨ (sz : Int) < -(2 ^ 63)) := by omega
  have h2 : ¬ ((sz : Int) < 0) := by omega
  simp [fileOp, mkWorld, getFile, setFile, setFile.upd, hm, h2]
  omega

/-- operations a mode does not permit, or on a closed handle, are rejected without any effect -/
theorem not_permitted (path : String) (data b : List UInt8) (pos : Nat) (sp : Span) :
    fileOp (mkWorld path data 0 pos) 0 (.fwrite sp 0 b) = .error .value ∧
    fileOp (mkWorld path data 1 pos) 0 (.fread sp 0 1) = .error .value ∧
    fileOp (mkWorld path data 3 pos true) 0 (.fread sp 0 1) = .error .value := by
  refine ⟨?_, ?_, ?_⟩ <;> simp [fileOp, mkWorld, getFile, canWrite, canRead]

/-! ### every history of permitted operations: the handle *is* a byte array with a position -/

/-- the plain byte-file of the statement -/
structure BF where
  data : List UInt8
  pos : Nat

inductive BOp where
  | read (n : Nat) | readAll | write (b : List UInt8) | tell
  | seek (off : Nat) | seekCur (off : Int) | trunc (sz : Nat)

/-- what the mode permits, plus the host's 63-bit offset range -/
def BOp.ok (mode : Nat) (s : BF) : BOp → Prop
  | .read n => canRead mode = true ∧ (n : Int) < 2 ^ 63
  | .readAll => canRead mode = true
  | .write b => canWrite mode = true ∧ b ≠ []
  | .tell => True
  | .seek off => (off : Int) < 2 ^ 63
  | .seekCur off => 0 ≤ (s.pos : Int) + off ∧ off < 2 ^ 63 ∧ -(2 ^ 63) ≤ off
  | .trunc sz => canWrite mode = true ∧ (sz : Int) < 2 ^ 63

/-- the specification: one step of a byte array with a cursor -/
def BF.step (mode : Nat) (s : BF) : BOp → Val × BF
  | .read n => (.bytes ((s.data.drop s.pos).take n), ⟨s.data, s.pos + ((s.data.drop s.pos).take n).length⟩)
  | .readAll => (.bytes (s.data.drop s.pos), ⟨s.data, s.pos + (s.data.drop s.pos).length⟩)
  | .write b =>
    let at_ := if isAppend mode then s.data.length else s.pos
    (.int b.length, ⟨writeAt s.data at_ b, at_ + b.length⟩)
  | .tell => (.int s.pos, s)
  | .seek off => (.int off, ⟨s.data, off⟩)
  | .seekCur off => (.int (s.pos + off), ⟨s.data, ((s.pos : Int) + off).toNat⟩)
  | .trunc sz => (.int sz, ⟨truncTo s.data sz, s.pos⟩)

def BOp.toW (sp : Span) : BOp → WOp
  | .read n => .fread sp 0 n
  | .readAll => .fread sp 0 (-1)
  | .write b => .fwrite sp 0 b
  | .tell => .ftell sp 0
  | .seek off => .fseek sp 0 off 0
  | .seekCur off => .fseek sp 0 off 1
  | .trunc sz => .ftrunc sp 0 (some sz)

/-- one permitted operation on the model's world = one step of the byte-file specification -/
theorem step_refines (path : String) (mode : Nat) (s : BF) (op : BOp) (h : op.ok mode s) (sp : Span) :
    fileOp (mkWorld path s.data mode s.pos) 0 (op.toW sp) =
      .ok ((s.step mode op).1, mkWorld path (s.step mode op).2.data mode (s.step mode op).2.pos) := by
  cases op with
  | read n => exact read_spec path s.data mode s.pos n h.1 h.2 sp
  | readAll => exact read_all path s.data mode s.pos h sp
  | write b => exact write_spec path s.data b mode s.pos h.1 h.2 sp
  | tell => exact tell_spec path s.data mode s.pos sp
  | seek off => exact seek_set_spec path s.data mode s.pos off h sp
  | seekCur off => exact seek_cur_spec path s.data mode s.pos off h.1 ⟨h.2.1, h.2.2⟩ sp
  | trunc sz => exact truncate_spec path s.data mode s.pos sz h.1 h.2 sp

/-- run a list of operations on the world, collecting the returned values -/
def runOps (w : World) : List WOp → Except WErr (List Val × World)
  | [] => .ok ([], w)
  | op :: ops =>
    match fileOp w 0 op with
    | .error e => .error e
    | .ok (v, w') => (runOps w' ops).map (fun (vs, w'') => (v :: vs, w''))

def BF.run (mode : Nat) (s : BF) : List BOp → List Val × BF
  | [] => ([], s)
  | op :: ops => let (v, s') := s.step mode op; let (vs, s'') := BF.run mode s' ops; (v :: vs, s'')

/-- each operation of the history is permitted in the state the specification reaches before it -/
def AllOk (mode : Nat) : BF → List BOp → Prop
  | _, [] => True
  | s, op :: ops => op.ok mode s ∧ AllOk mode (s.step mode op).2 ops

/-- **refinement for every history**: whatever sequence of permitted reads, writes, seeks, tells and truncates is
applied to a handle, the values returned and the resulting contents / position are those of the plain byte
array with a cursor -/
theorem history_refines (path : String) (mode : Nat) (sp : Span) : ∀ (ops : List BOp) (s : BF), AllOk mode s ops →
    runOps (mkWorld path s.data mode s.pos) (ops.map (BOp.toW sp)) =
      .ok ((s.run mode ops).1, mkWorld path (s.run mode ops).2.data mode (s.run mode ops).2.pos) := by
  intro ops
  induction ops with
  | nil => intro s _; rfl
  | cons op ops ih =>
    intro s h
    simp only [List.map_cons, runOps, step_refines path mode s op h.1 sp]
    rw [ih _ h.2]
    rfl

/-- non-vacuity: an append-mode history (write, seek 0, write, read all) satisfies the hypothesis -/
example : AllOk 5 ⟨[1, 2], 2⟩ [.write [9], .seek 0, .write [8], .seek 1, .readAll] := by
  simp [AllOk, BOp.ok, canWrite, canRead]

end UH.C14
