/-
C15 — import resolves by skeleton, evaluates once in an empty scope, context-free.
-/
import UH.Model.Machine
namespace UH.C15
open UH World

/-- **a name matches a literal iff its skeleton is a single digit word of that value**: if the
name's symbols, separators stripped at both ends, are the digits `ds` (non-empty), it matches
exactly the literal `parseNumber ds` -/
theorem matches_iff (name : String) (ds : List Digit) (hne : ds ≠ []) (lit : Int)
    (h : symDigits (((name.toList.flatMap (fun c => normChar c.toNat)).dropWhile Sym.isSp).reverse.dropWhile Sym.isSp).reverse
      = some ds) :
    matchesLiteral name lit = true ↔ parseNumber ds = lit := by
  have : ds.isEmpty = false := by cases ds <;> simp_all
  simp [matchesLiteral, h, this]

/-- a name whose skeleton is not one digit word (no consonant, two words, an ㅇ/ㅎ word) matches nothing -/
theorem no_match (name : String) (lit : Int)
    (h : symDigits (((name.toList.flatMap (fun c => normChar c.toNat)).dropWhile Sym.isSp).reverse.dropWhile Sym.isSp).reverse
      = none) : matchesLiteral name lit = false := by
  simp [matchesLiteral, h]

/-- **the search is context-free**: it is a function of the directory tree and the literals only
(no environment, no store) — and the loader registers the file under its path, so a second import
by either route returns the registered delayed expression without reading the file again -/
theorem import_once (st : Store) (w : World) (sp : Span) (path : String) (t : TId)
    (h : w.registry.lookup path = some t) :
    doWorld.loadPath st w sp path = (st, w, .ok (.thunk t none)) := by
  simp [doWorld.loadPath, h]

def litOf (e : AST) : Option Int := match e with | .lit n _ => some n | _ => none

/-- **a loaded module is delayed in the empty scope** (no enclosing functions, no arguments) and
registered -/
theorem import_empty_scope (st : Store) (w : World) (sp : Span) (path : String) (bytes : List UInt8)
    (cps : List Nat) (e : AST)
    (hreg : w.registry.lookup path = none) (hfile : World.getFile w path = some bytes)
    (hdec : utf8Decode bytes = some cps) (hparse : parse normChar cps = .ok [e]) :
    doWorld.loadPath st w sp path =
      ({ st with cells := st.cells.push { expr := e, env := ⟨[], []⟩ } },
       { w with registry := w.registry ++ [(path, st.cells.size)] },
       .ok (.thunk st.cells.size (litOf e))) := by
  simp only [doWorld.loadPath, hreg, hfile, hdec, hparse]
  rfl

/-- **empty and multi-expression modules are language exceptions** (value class) -/
theorem import_bad_module (st : Store) (w : World) (sp : Span) (path : String) (bytes : List UInt8)
    (cps : List Nat) (hreg : w.registry.lookup path = none) (hfile : World.getFile w path = some bytes)
    (hdec : utf8Decode bytes = some cps) :
    (parse normChar cps = .ok [] → doWorld.loadPath st w sp path = (st, w, .err (valueErr sp))) ∧
    (∀ e1 e2 es, parse normChar cps = .ok (e1 :: e2 :: es) →
      doWorld.loadPath st w sp path = (st, w, .err (valueErr e1.span))) := by
  constructor
  · intro hp; simp [doWorld.loadPath, hreg, hfile, hdec, hp]
  · intro e1 e2 es hp; simp [doWorld.loadPath, hreg, hfile, hdec, hp]

/-- a missing file is an OS exception (ENOENT), a directory EISDIR -/
theorem import_missing (st : Store) (w : World) (sp : Span) (path : String)
    (hreg : w.registry.lookup path = none) (hfile : World.getFile w path = none) :
    ∃ errno, doWorld.loadPath st w sp path = (st, w, .err (osErr sp errno)) := by
  simp only [doWorld.loadPath, hreg, hfile]
  exact ⟨_, rfl⟩

/-- ambiguity and absence are reported as import / not-found exceptions -/
theorem import_search_outcomes (st : Store) (w : World) (sp : Span) (lits : List Int) (h5 : lits.head? ≠ some 5) :
    (searchFile w (lits.length + 1) lits "" = .notFound →
      doWorld st w (.importLit sp lits) = (st, w, .err (builtinErr .notFound sp))) ∧
    (searchFile w (lits.length + 1) lits "" = .ambiguous →
      doWorld st w (.importLit sp lits) = (st, w, .err (builtinErr .import_ sp))) := by
  have h5' : (lits.head? == some 5) = false := by
    cases h : lits.head? == some 5 with
    | false => rfl
    | true => exact absurd (by simpa using h) h5
  constructor <;> intro hs <;> simp [doWorld, h5', hs]

end UH.C15
