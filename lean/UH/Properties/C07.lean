/-
C07 — I/O happens only when an action is executed, once each, in bind order.

In the model the only nodes that touch the world are `world` nodes; the theorems
show (a) the I/O built-ins merely *construct* action values — their coroutines
contain no world node —, (b) what executing each primitive action does to the
world, (c) that executing `ㄱㄹ` runs its first action, then the continuation applied
to the produced value (or the handler applied to the exception), and that the
action a continuation returns is executed next (the `do_IO` loop).
-/
import UH.Model.Main
namespace UH.C07
open UH Comp

/-! ### building an action performs nothing -/

theorem print_builds (sp : Span) (s : String) :
    bPrint sp [.strict (.str s)] = ret (.strict (.io .print [.strict (.str s)] sp none)) := by
  simp [bPrint, checkArity, forceAll, forceArg, checkType, Val.isString, retV, Bind.bind, Comp.bind, pure]

theorem input_builds (sp : Span) : bInput sp [] = ret (.strict (.io .input [] sp none)) := by
  simp [bInput, checkArity, retV, Bind.bind, Comp.bind]

theorem return_builds (sp : Span) (a : Arg) :
    bReturn sp [a] = call (.recStrict a) (fun r => match r with
      | .arg x => ret (.strict (.io .ret [x] sp none)) | _ => bottom) Comp.throw := by
  simp only [bReturn, checkArity, mapM', callArg, retV, Bind.bind, Comp.bind, pure, List.length_cons,
    List.length_nil, List.contains_cons, List.contains_nil, beq_self_eq_true, Bool.or_false, if_true]
  congr 1
  funext r
  cases r <;> rfl

/-- `ㄱㄹ` forces its first argument to an action and its function arguments to callables — and
builds the bind action without executing anything -/
theorem bind_builds (sp : Span) (io : Val) (f : Val) (hio : io.isIO = true) (hf : f.isCallable = true) :
    bBind isBuiltinName sp [.strict io, .strict f] =
      ret (.strict (.io .bind [.strict io, .strict f] sp (some (io, f, none)))) := by
  simp [bBind, checkArity, forceArg, checkType, hio, hf, strictFunctional, retV, Bind.bind, Comp.bind, pure]

/-! ### executing the primitive actions -/

/-- **ㅈㄹ writes its string and a newline**, and yields the empty value -/
theorem exec_print (st : Store) (w : World) (sp : Span) (s : String) :
    doWorld st w (.print sp s) =
      (st, { w with stdout := ('\n' :: s.toList.reverse) ++ w.stdout }, .ok (.strict .nil)) := rfl

/-- **ㄹ at end of input yields the empty value and consumes nothing** -/
theorem exec_read_eof (st : Store) (w : World) (sp : Span) (h : w.stdin = []) :
    doWorld st w (.readLine sp) = (st, w, .ok (.strict .nil)) := by
  simp [doWorld, h]

/-- **ㄹ yields one line without its newline** and consumes exactly that line and its newline -/
theorem exec_read_line (st : Store) (w : World) (sp : Span) (line rest : List Char)
    (hl : ∀ c ∈ line, c ≠ '\n') (h : w.stdin = line ++ '\n' :: rest) :
    doWorld st w (.readLine sp) =
      (st, { w with stdin := rest }, .ok (.strict (.str (String.ofList line)))) := by
  have hne : w.stdin.isEmpty = false := by rw [h]; cases line <;> rfl
  have ht : w.stdin.takeWhile (· != '\n') = line := by
    rw [h, List.takeWhile_append_of_pos (by intro c hc; simpa using hl c hc)]
    simp
  have hd : (w.stdin.dropWhile (· != '\n')).drop 1 = rest := by
    rw [h, List.dropWhile_append_of_pos (by intro c hc; simpa using hl c hc)]
    simp
  simp only [doWorld, hne, Bool.false_eq_true, if_false, ht, hd]

/-- a last line without a newline is yielded whole -/
theorem exec_read_last (st : Store) (w : World) (sp : Span) (line : List Char) (hne : line ≠ [])
    (hl : ∀ c ∈ line, c ≠ '\n') (h : w.stdin = line) :
    doWorld st w (.readLine sp) = (st, { w with stdin := [] }, .ok (.strict (.str (String.ofList line)))) := by
  have he : w.stdin.isEmpty = false := by rw [h]; cases line with | nil => exact absurd rfl hne | cons _ _ => rfl
  have hall : ∀ c ∈ line, (c != '\n') = true := by intro c hc; simpa using hl c hc
  have tw : ∀ l : List Char, (∀ c ∈ l, (c != '\n') = true) → l.takeWhile (· != '\n') = l ∧ l.dropWhile (· != '\n') = [] := by
    intro l
    induction l with
    | nil => intro _; exact ⟨rfl, rfl⟩
    | cons x xs ih =>
      intro hx
      have h1 := hx x List.mem_cons_self
      have h2 := ih (fun c hc => hx c (List.mem_cons_of_mem _ hc))
      simp [List.takeWhile, List.dropWhile, h1, h2.1, h2.2]
  have ht : w.stdin.takeWhile (· != '\n') = line := by rw [h]; exact (tw line hall).1
  have hd : (w.stdin.dropWhile (· != '\n')).drop 1 = [] := by
    rw [h, (tw line hall).2]; rfl
  simp only [doWorld, he, Bool.false_eq_true, if_false, ht, hd]

/-! ### the sequencing of ㄱㄹ and the `do_IO` loop -/

/-- **ㄱㄹ runs its first action first**; on a value the continuation is applied to it, on an
exception the handler (if given) is applied to the exception value, else it propagates -/
theorem bind_sequence (argv : List Arg) (sp : Span) (io0 resolve : Val) (reject : Option Val) :
    ∃ kOk kErr, ioCont .bind argv sp (some (io0, resolve, reject)) = call (.doIO io0) kOk kErr ∧
      (∀ a, kOk (.arg a) = (do
        checkCallee isBuiltinName sp resolve false
        let r ← callArg (.apply resolve sp [a])
        let rv ← forceArg r
        checkType sp [rv] Val.isIO
        retV rv)) ∧
      (∀ e, kErr e = match reject with
        | none => Comp.throw e
        | some rej => (do
          checkCallee isBuiltinName sp rej false
          let r ← callArg (.apply rej sp [.strict (.err e.metas e.vals)])
          let rv ← forceArg r
          checkType sp [rv] Val.isIO
          retV rv)) := by
  refine ⟨_, _, rfl, fun a => rfl, fun e => ?_⟩
  cases reject <;> rfl

/-- **the `do_IO` loop**: executing an action runs its continuation once, forces the produced
value, and — if that is again an action (the one a bind's continuation returned) — executes it next -/
theorem doIO_step (inst : IOInst) (argv : List Arg) (sp : Span) (bnd) :
    doIO (.io inst argv sp bnd) = (do
      let a ← ioCont inst argv sp bnd
      let v' ← forceArg a
      callArg (.doIO v')) := rfl

/-- a non-action value ends the loop -/
theorem doIO_done (n : Int) : doIO (.int n) = ret (.strict (.int n)) := rfl

/-- **ㄱㅅ executed yields the value it was given** (already deep-forced at construction) -/
theorem exec_return (a : Arg) (sp : Span) : ioCont .ret [a] sp none = ret a := rfl

/-- executing input / print are single world effects -/
theorem exec_primitives (sp : Span) (s : String) :
    ioCont .input [] sp none = worldArg (.readLine sp) ∧
    ioCont .print [.strict (.str s)] sp none = worldArg (.print sp s) := ⟨rfl, rfl⟩

end UH.C07
