/-
C13 — each delayed expression is evaluated at most once (call-by-need).

Generic in the coroutines.  A delayed expression is a memo cell; `starts` logs
every time a frame begins to *interpret* a cell (as opposed to being served from it).
* a demand for a completed cell is served from the cell — value or the identical exception —
  without a new frame, a new start or an observer event;
* a frame (tail-)created for a completed cell returns the cell's content at once;
* an interpretation only ever starts on a cell that is not completed;
* when a frame finishes, its cell holds exactly the outcome delivered to the waiting user.
-/
import UH.Proofs.MachineInv
namespace UH.C13
open UH

/-- **a completed cell is never re-evaluated by a demand**: the waiting coroutine continues with
the cell's value; stack, start log and observer log are unchanged -/
theorem force_completed_value (m : MState) (f : Frame) (rest : List Frame) (t : TId)
    (k : Val → Comp Res) (ke : ErrV → Comp Res) (v : Val)
    (hs : m.status = .running) (ht : m.tail = f :: rest) (hr : m.resp = none)
    (hc : f.cur = .force t k ke) (hv : (m.store.getCell t).value = some (.ok v)) :
    (step m).tail = { f with cur := k v } :: rest ∧ (step m).starts = m.starts ∧
      (step m).events = m.events ∧ (step m).store = m.store := by
  unfold step
  simp [hs, ht, hr, hc, hv]

/-- **a failed cell fails identically each time its value is needed again** -/
theorem force_completed_error (m : MState) (f : Frame) (rest : List Frame) (t : TId)
    (k : Val → Comp Res) (ke : ErrV → Comp Res) (e : ErrV)
    (hs : m.status = .running) (ht : m.tail = f :: rest) (hr : m.resp = none)
    (hc : f.cur = .force t k ke) (hv : (m.store.getCell t).value = some (.error e)) :
    (step m).tail = { f with cur := ke e } :: rest ∧ (step m).starts = m.starts ∧
      (step m).events = m.events ∧ (step m).store = m.store := by
  unfold step
  simp [hs, ht, hr, hc, hv]

/-- the same for the head coroutine -/
theorem force_completed_head (m : MState) (t : TId) (k : Val → Comp Res) (ke : ErrV → Comp Res)
    (o : Outcome) (hs : m.status = .running) (ht : m.tail = []) (hr : m.resp = none)
    (hc : m.head.cur = .force t k ke) (hv : (m.store.getCell t).value = some o) :
    (step m).head = { m.head with cur := match o with | .ok v => k v | .error e => ke e } ∧
      (step m).tail = [] ∧ (step m).starts = m.starts := by
  unfold step
  cases o <;> simp [hs, ht, hr, hc, hv]

/-- a frame created for a completed cell (tail return of an already evaluated expression) does not
interpret it again: its coroutine is the cell's content -/
theorem newFrame_completed (s : Store) (t : TId) (o : Outcome) (h : (s.getCell t).value = some o) :
    (newFrame s t).cur = (match o with | .ok v => .ret (.arg (.strict v)) | .error e => .throw e) ∧
    (newFrame s t).konts = [] := by
  cases o <;> simp [newFrame, h]

theorem getCell_setRequestor (s : Store) (t t' : TId) (r : Option TId) :
    (({ s with cells := s.cells.modify t' (fun c => { c with requestor := r }) } : Store).getCell t).value
      = (s.getCell t).value := by
  simp only [Store.getCell, Heap.getD_eq, Heap.get?_modify]
  by_cases h : t' = t
  · subst h
    cases hh : s.cells.get? t' <;> simp [hh]
  · simp [h]

/-- **an interpretation only starts on a cell that is not completed** -/
theorem starts_only_fresh (m : MState) (hs : m.status = .running) :
    (step m).starts = m.starts ∨
      ∃ t, (step m).starts = t :: m.starts ∧ (m.store.getCell t).value = none := by
  unfold step
  simp only [hs]
  repeat' split
  all_goals first
    | (left; rfl)
    | (left; simp [finishFrame]; done)
    | (right; refine ⟨_, rfl, ?_⟩; assumption)
    | skip
  all_goals
    first
    | (rename_i hfresh
       right
       refine ⟨_, rfl, ?_⟩
       simpa [getCell_setRequestor] using hfresh)
    | (left; simp_all)

theorem getCell_setValue (s : Store) (t u : TId) (v : Outcome) :
    ((s.setValue t v).getCell u).value =
      if u = t ∧ (s.cells.get? t).isSome then some v else (s.getCell u).value := by
  simp only [Store.setValue, Store.getCell, Heap.getD_eq, Heap.get?_modify]
  by_cases h : t = u
  · subst h
    cases hh : s.cells.get? t <;> simp [hh]
  · have h' : ¬ u = t := fun e => h e.symm
    simp [h, h']

/-- `CacheBox.resolve` only ever writes the one outcome `v` -/
theorem resolve_writes_only (v : Outcome) : ∀ (fuel : Nat) (s : Store) (t u : TId),
    ((s.resolve fuel t v).getCell u).value = some v ∨
      ((s.resolve fuel t v).getCell u).value = (s.getCell u).value := by
  intro fuel
  induction fuel with
  | zero => intro s t u; right; rfl
  | succ fuel ih =>
    intro s t u
    simp only [Store.resolve]
    have hset := getCell_setValue s t u v
    cases hr : (s.getCell t).requestor with
    | none =>
      simp only []
      rw [hset]; split
      · left; rfl
      · right; rfl
    | some r =>
      simp only []
      rcases ih (s.setValue t v) r u with h | h
      · left; exact h
      · rw [h, hset]; split
        · left; rfl
        · right; rfl

/-- **the finished frame's own cell holds the outcome** (`CacheBox.resolve` sets `self._value`
first and every later write on the requestor chain writes the same outcome) -/
theorem resolve_sets_own (s : Store) (fuel : Nat) (t : TId) (v : Outcome) (ht : (s.cells.get? t).isSome) :
    ((s.resolve (fuel + 1) t v).getCell t).value = some v := by
  simp only [Store.resolve]
  have hset : ((s.setValue t v).getCell t).value = some v := by
    rw [getCell_setValue]; simp [ht]
  cases hr : (s.getCell t).requestor with
  | none => simpa using hset
  | some r =>
    simp only []
    rcases resolve_writes_only v fuel (s.setValue t v) r t with h | h
    · exact h
    · rw [h, hset]

/-- every cell on the requestor chain (the frames a tail return replaced) receives the outcome:
the direct requestor -/
theorem resolve_sets_requestor (s : Store) (fuel : Nat) (t r : TId) (v : Outcome)
    (hr : (s.getCell t).requestor = some r) (hlt : (s.cells.get? r).isSome) :
    ((s.resolve (fuel + 2) t v).getCell r).value = some v := by
  simp only [Store.resolve, hr]
  have hreq : ((s.setValue t v).getCell r).requestor = (s.getCell r).requestor := by
    simp only [Store.setValue, Store.getCell, Heap.getD_eq, Heap.get?_modify]
    by_cases h : t = r
    · subst h; cases hh : s.cells.get? t <;> simp [hh]
    · simp [h]
  have hsz : ((s.setValue t v).cells.get? r).isSome := by
    simp only [Store.setValue, Heap.get?_modify]
    by_cases h : t = r
    · subst h; cases hh : s.cells.get? t <;> simp_all
    · simpa [h] using hlt
  have := resolve_sets_own (s.setValue t v) fuel r v hsz
  simpa [Store.resolve] using this

/-- **the outcome delivered to the waiting user is the outcome of the finished frame**
(value or exception alike) -/
theorem finish_delivers (m : MState) (f : Frame) (rest : List Frame) (r : Outcome) :
    (finishFrame m f rest r).resp = some r ∧ (finishFrame m f rest r).tail = rest ∧
      (finishFrame m f rest r).starts = m.starts := by
  simp [finishFrame]

/-! ### the whole requestor chain -/

/-- the `k`-th cell on the requestor chain of `t` (the expressions whose frames were replaced by tail returns) -/
def hop (s : Store) (t : TId) : Nat → Option TId
  | 0 => some t
  | k + 1 => (hop s t k).bind (fun u => (s.getCell u).requestor)

theorem requestor_setValue (s : Store) (t u : TId) (v : Outcome) :
    ((s.setValue t v).getCell u).requestor = (s.getCell u).requestor := by
  simp only [Store.setValue, Store.getCell, Heap.getD_eq, Heap.get?_modify]
  by_cases h : t = u
  · subst h; cases hh : s.cells.get? t <;> simp
  · simp [h]

theorem isSome_setValue (s : Store) (t u : TId) (v : Outcome) :
    ((s.setValue t v).cells.get? u).isSome = (s.cells.get? u).isSome := by
  simp only [Store.setValue, Heap.get?_modify]
  by_cases h : t = u
  · subst h; cases hh : s.cells.get? t <;> simp
  · simp [h]

theorem hop_setValue (s : Store) (t a : TId) (v : Outcome) : ∀ k, hop (s.setValue a v) t k = hop s t k := by
  intro k
  induction k with
  | zero => rfl
  | succ k ih =>
    simp only [hop, ih]
    cases hop s t k with
    | none => rfl
    | some u => simp [requestor_setValue]

/-- walking the chain from the requestor is walking it from `t`, one hop later -/
theorem hop_succ' (s : Store) (t r : TId) (hr : (s.getCell t).requestor = some r) :
    ∀ k, hop s t (k + 1) = hop s r k := by
  intro k
  induction k with
  | zero => simp [hop, hr]
  | succ k ih =>
    have : hop s t (k + 2) = (hop s t (k + 1)).bind (fun u => (s.getCell u).requestor) := rfl
    rw [this, ih]; rfl

theorem hop_none (s : Store) (t : TId) (hr : (s.getCell t).requestor = none) : ∀ k, hop s t (k + 1) = none := by
  intro k
  induction k with
  | zero => simp [hop, hr]
  | succ k ih =>
    have e : hop s t (k + 2) = (hop s t (k + 1)).bind (fun u => (s.getCell u).requestor) := rfl
    rw [e, ih]; rfl

/-- **every expression on the tail-call chain receives the final outcome**: `resolve` with fuel `n` writes `v` into the
cell itself and into each of the next `n − 1` cells of its requestor chain (all that exist) -/
theorem resolve_chain (v : Outcome) : ∀ (fuel : Nat) (s : Store) (t : TId) (k : Nat) (u : TId),
    k < fuel → hop s t k = some u → (s.cells.get? u).isSome →
    ((s.resolve fuel t v).getCell u).value = some v := by
  intro fuel
  induction fuel with
  | zero => intro s t k u hk; omega
  | succ fuel ih =>
    intro s t k u hk hhop hsome
    cases k with
    | zero =>
      simp only [hop, Option.some.injEq] at hhop
      subst hhop
      exact resolve_sets_own s fuel t v hsome
    | succ k =>
      -- the chain continues: there is a requestor r, and u is k hops from r
      cases hr : (s.getCell t).requestor with
      | none =>
        rw [hop_none s t hr k] at hhop; cases hhop
      | some r =>
        simp only [Store.resolve, hr]
        have h1 : hop (s.setValue t v) r k = some u := by
          rw [hop_setValue, ← hop_succ' s t r hr k]; exact hhop
        have h2 : ((s.setValue t v).cells.get? u).isSome := by rw [isSome_setValue]; exact hsome
        exact ih (s.setValue t v) r k u (by omega) h1 h2

/-- in the evaluator: when a frame delivers its outcome, the cell it evaluated and every cell within `size + 1` hops on
its requestor chain — all expressions whose frames it replaced by tail returns — hold that outcome afterwards -/
theorem finish_fills_chain (m : MState) (f : Frame) (rest : List Frame) (r : Outcome) (t : TId) (k : Nat) (u : TId)
    (hb : f.box = some t) (hk : k ≤ m.store.cells.size) (hhop : hop m.store t k = some u)
    (hu : (m.store.cells.get? u).isSome) :
    ((finishFrame m f rest r).store.getCell u).value = some r := by
  simp only [finishFrame, hb]
  exact resolve_chain r _ m.store t k u (by omega) hhop hu

end UH.C13
