/-
C19 — attaching a debugger observer is transparent and sees well-nested events.

Generic in the coroutines.  `replay` re-reads the observer's log with a bracket
stack: a `before(d, e)` must come at depth = nesting + 1, an `after(d, e, r)` must
match the innermost open `before` at the same depth for the same expression.
-/
import UH.Proofs.MachineInv
namespace UH.C19
open UH

/-- **well-nested**: in every reachable state the log replays without a mismatch, and its open
brackets are exactly the evaluations still pending, at depths `depth, depth-1, …, 1` -/
theorem events_well_nested (n : Nat) (store : Store) (w : World) (c : Comp Res) :
    let m := runN n (initState store w c)
    replay m.events = some (zipDown m.depth (openExprs m.dstack)) :=
  (MachineInv.runN n _ (MachineInv.init store w c)).log

/-- the depth counter is the number of pending evaluations, one bookkeeping entry per frame -/
theorem depth_invariant (n : Nat) (store : Store) (w : World) (c : Comp Res) :
    let m := runN n (initState store w c)
    m.depth = sumLens m.dstack ∧ m.dstack.length = m.tail.length :=
  let h := (MachineInv.runN n _ (MachineInv.init store w c)).depth
  ⟨h.depth_eq, h.len_eq⟩

/-- a run can only finish (with a value or an exception) from the head coroutine -/
theorem step_done_tail (m : MState) (hs : m.status = .running) (r : Except ErrV Res)
    (hd : (step m).status = .done r) : m.tail = [] ∧ (step m).tail = [] ∧ (step m).dstack = m.dstack
      ∧ (step m).depth = m.depth ∧ (step m).events = m.events := by
  cases ht : m.tail with
  | nil =>
    revert hd
    unfold step
    simp only [hs, ht]
    repeat' split
    all_goals simp_all
  | cons f rest =>
    exfalso
    revert hd
    unfold step
    simp only [hs, ht]
    repeat' split
    all_goals simp_all [finishFrame]

structure DoneInv (m : MState) : Prop where
  tail_nil : ∀ r, m.status = .done r → m.tail = []

theorem doneInv_step (m : MState) (h : DoneInv m) : DoneInv (step m) := by
  by_cases hrun : m.status = .running
  · constructor
    intro r hd
    exact (step_done_tail m hrun r hd).2.1
  · rw [step_not_running m hrun]; exact h

/-- **the depth is back to zero when evaluation ends, normally or by exception**, and every
`before` event has been matched by exactly one `after` event (the stack-limit abort is excluded:
the implementation raises out of the loop without notifying the observer) -/
theorem depth_zero_at_end (n : Nat) (store : Store) (w : World) (c : Comp Res) (r : Except ErrV Res)
    (hdone : (runN n (initState store w c)).status = .done r) :
    (runN n (initState store w c)).depth = 0 ∧ replay (runN n (initState store w c)).events = some [] := by
  have hinv := MachineInv.runN n _ (MachineInv.init store w c)
  have hd : DoneInv (runN n (initState store w c)) :=
    runN_inv doneInv_step n _ ⟨by intro r h; simp [initState] at h⟩
  have ht := hd.tail_nil r hdone
  have hds : (runN n (initState store w c)).dstack = [] := by
    have := hinv.depth.len_eq
    rw [ht] at this
    exact List.eq_nil_of_length_eq_zero (by simpa using this)
  have hdep : (runN n (initState store w c)).depth = 0 := by
    rw [hinv.depth.depth_eq, hds]; rfl
  refine ⟨hdep, ?_⟩
  rw [hinv.log, hdep, hds]; rfl

/-! ### transparency: the evaluator never branches on the observer's state -/

/-- forget everything only the observer uses -/
def forget (m : MState) : MState := { m with depth := 0, dstack := [], events := [], starts := [] }

theorem forget_finishFrame (m : MState) (f : Frame) (rest : List Frame) (r : Outcome) :
    forget (finishFrame m f rest r) = forget (finishFrame (forget m) f rest r) := by
  simp [forget, finishFrame]

/-- **observer transparency**: result, exception, store and world of a step do not depend on the
observer's bookkeeping -/
theorem step_forget (m : MState) : forget (step m) = forget (step (forget m)) := by
  unfold step
  cases hs : m.status <;> simp only [forget, hs]
  · -- running
    cases ht : m.tail <;> simp only [ht]
    all_goals
      repeat' split
      all_goals first
        | rfl
        | (simp_all [forget, finishFrame])
  all_goals rfl

theorem runN_forget (n : Nat) (m : MState) : forget (runN n m) = forget (runN n (forget m)) := by
  induction n generalizing m with
  | zero => simp [runN, forget]
  | succ n ih =>
    simp only [runN]
    have hst : (forget m).status = m.status := rfl
    rw [hst]
    cases hs : m.status with
    | running =>
      simp only []
      rw [ih (step m), ih (step (forget m)), step_forget]
    | _ => simp [forget]

end UH.C19
