/-
L2 — byte codecs of built-in module `ㅂ ㅂ` (`pbhhg_py/modules/byte.py`) and the
bitwise module (`modules/bitwise.py`), defined independently of the host codecs.
-/
import UH.Model.Value
namespace UH

/-! ### integers ⇄ bytes -/

/-- little-endian bytes of a natural number, exactly `w` of them (value taken mod 256^w) -/
def natToBytesLE : Nat → Nat → List UInt8
  | 0, _ => []
  | w + 1, n => UInt8.ofNat (n % 256) :: natToBytesLE w (n / 256)

def bytesToNatLE : List UInt8 → Nat
  | [] => 0
  | b :: bs => b.toNat + 256 * bytesToNatLE bs

/-- representable in `w` bytes? (unsigned: `0 ≤ n < 2^(8w)`; signed: `−2^(8w−1) ≤ n < 2^(8w−1)`;
CPython lets zero bytes hold 0 and, signed, −1) -/
def intInRange (n : Int) (w : Nat) (signed : Bool) : Bool :=
  if w = 0 then (n == 0 || (signed && n == -1))
  else if signed then decide (-(2 ^ (8 * w - 1) : Int) ≤ n ∧ n < (2 ^ (8 * w - 1) : Int))
  else decide (0 ≤ n ∧ n < (2 ^ (8 * w) : Int))

/-- `int.to_bytes(n, w, order, signed=signed)`; `none` = OverflowError -/
def intToBytes (n : Int) (w : Nat) (big : Bool) (signed : Bool) : Option (List UInt8) :=
  if intInRange n w signed then
    let le := natToBytesLE w (n % (2 ^ (8 * w) : Int)).toNat       -- two's complement
    some (if big then le.reverse else le)
  else none

/-- `int.from_bytes(b, order, signed=signed)` -/
def bytesToInt (b : List UInt8) (big : Bool) (signed : Bool) : Int :=
  let le := if big then b.reverse else b
  let u := bytesToNatLE le
  if signed ∧ b.length > 0 ∧ u ≥ 2 ^ (8 * b.length - 1) then (u : Int) - (2 ^ (8 * b.length) : Int) else u

/-! ### UTF encodings of Unicode scalar values -/

def isScalar (c : Nat) : Bool := c < 0xD800 || (0xE000 ≤ c && c < 0x110000)

def utf8EncodeChar (c : Nat) : List UInt8 :=
  if c < 0x80 then [UInt8.ofNat c]
  else if c < 0x800 then [UInt8.ofNat (0xC0 + c / 64), UInt8.ofNat (0x80 + c % 64)]
  else if c < 0x10000 then
    [UInt8.ofNat (0xE0 + c / 4096), UInt8.ofNat (0x80 + c / 64 % 64), UInt8.ofNat (0x80 + c % 64)]
  else
    [UInt8.ofNat (0xF0 + c / 262144), UInt8.ofNat (0x80 + c / 4096 % 64),
     UInt8.ofNat (0x80 + c / 64 % 64), UInt8.ofNat (0x80 + c % 64)]

def utf8Encode (s : List Nat) : List UInt8 := s.flatMap utf8EncodeChar

/-- strict UTF-8 decoding (shortest form only, no surrogates, ≤ U+10FFFF); `none` = invalid -/
def utf8Decode : List UInt8 → Option (List Nat)
  | [] => some []
  | b0 :: r =>
    let b0 := b0.toNat
    let cont (b : UInt8) : Option Nat := if b.toNat / 64 == 2 then some (b.toNat % 64) else none
    if b0 < 0x80 then (utf8Decode r).map (b0 :: ·)
    else if b0 < 0xC2 then none
    else if b0 < 0xE0 then
      match r with
      | b1 :: r' => do let c1 ← cont b1; let rest ← utf8Decode r'; pure (((b0 - 0xC0) * 64 + c1) :: rest)
      | _ => none
    else if b0 < 0xF0 then
      match r with
      | b1 :: b2 :: r' => do
        let c1 ← cont b1; let c2 ← cont b2
        let c := (b0 - 0xE0) * 4096 + c1 * 64 + c2
        if c < 0x800 || !isScalar c then none else
        let rest ← utf8Decode r'; pure (c :: rest)
      | _ => none
    else if b0 < 0xF5 then
      match r with
      | b1 :: b2 :: b3 :: r' => do
        let c1 ← cont b1; let c2 ← cont b2; let c3 ← cont b3
        let c := (b0 - 0xF0) * 262144 + c1 * 4096 + c2 * 64 + c3
        if c < 0x10000 || c ≥ 0x110000 then none else
        let rest ← utf8Decode r'; pure (c :: rest)
      | _ => none
    else none

def u16Bytes (big : Bool) (u : Nat) : List UInt8 :=
  if big then [UInt8.ofNat (u / 256), UInt8.ofNat (u % 256)] else [UInt8.ofNat (u % 256), UInt8.ofNat (u / 256)]

def utf16Units (c : Nat) : List Nat :=
  if c < 0x10000 then [c] else [0xD800 + (c - 0x10000) / 1024, 0xDC00 + (c - 0x10000) % 1024]

def utf16Encode (big : Bool) (s : List Nat) : List UInt8 :=
  s.flatMap (fun c => (utf16Units c).flatMap (u16Bytes big))

def bytesToUnits16 (big : Bool) : List UInt8 → Option (List Nat)
  | [] => some []
  | [_] => none
  | a :: b :: r => (bytesToUnits16 big r).map ((if big then a.toNat * 256 + b.toNat else b.toNat * 256 + a.toNat) :: ·)

def units16Decode : List Nat → Option (List Nat)
  | [] => some []
  | u :: r =>
    if u < 0xD800 || u ≥ 0xE000 then (units16Decode r).map (u :: ·)
    else if u < 0xDC00 then
      match r with
      | v :: r' => if 0xDC00 ≤ v && v < 0xE000 then
          (units16Decode r').map ((0x10000 + (u - 0xD800) * 1024 + (v - 0xDC00)) :: ·) else none
      | [] => none
    else none

def utf16Decode (big : Bool) (b : List UInt8) : Option (List Nat) :=
  (bytesToUnits16 big b).bind units16Decode

def u32Bytes (big : Bool) (c : Nat) : List UInt8 :=
  let le := natToBytesLE 4 c
  if big then le.reverse else le

def utf32Encode (big : Bool) (s : List Nat) : List UInt8 := s.flatMap (u32Bytes big)

def utf32Decode (big : Bool) : List UInt8 → Option (List Nat)
  | [] => some []
  | a :: b :: c :: d :: r =>
    let u := if big then bytesToNatLE [d, c, b, a] else bytesToNatLE [a, b, c, d]
    if isScalar u then (utf32Decode big r).map (u :: ·) else none
  | _ => none

/-- `str.encode("utf-N[-le|-be]")`; no byte order requested: BOM + little endian -/
def utfEncode (width : Nat) (order : Option Bool) (s : List Nat) : Option (List UInt8) :=
  match width, order with
  | 1, none => some (utf8Encode s)
  | 2, none => some (utf16Encode false (0xFEFF :: s))
  | 2, some big => some (utf16Encode big s)
  | 4, none => some (utf32Encode false (0xFEFF :: s))
  | 4, some big => some (utf32Encode big s)
  | _, _ => none        -- unknown codec name (LookupError → language ValueError)

/-- `bytes.decode("utf-N[-le|-be]")`; no byte order requested: a BOM selects the order
(and is removed), default little endian -/
def utfDecode (width : Nat) (order : Option Bool) (b : List UInt8) : Option (List Nat) :=
  match width, order with
  | 1, none => utf8Decode b
  | 2, some big => utf16Decode big b
  | 4, some big => utf32Decode big b
  | 2, none =>
    match b with
    | 0xFF :: 0xFE :: r => utf16Decode false r
    | 0xFE :: 0xFF :: r => utf16Decode true r
    | _ => utf16Decode false b
  | 4, none =>
    match b with
    | 0xFF :: 0xFE :: 0 :: 0 :: r => utf32Decode false r
    | 0 :: 0 :: 0xFE :: 0xFF :: r => utf32Decode true r
    | _ => utf32Decode false b
  | _, _ => none

/-! ### bitwise module -/

/-- `~x` on unbounded integers (infinite two's complement) -/
def bitNot (x : Int) : Int := -x - 1

/-- `a & ~m` on naturals (clear in `a` the bits set in `m`) -/
def natAndNot (a m : Nat) : Nat := a ^^^ (a &&& m)

/-- `x & y`: both operands as infinite two's-complement bit strings (`~z = −z−1 ≥ 0` for `z < 0`) -/
def bitAnd (x y : Int) : Int :=
  if 0 ≤ x then
    if 0 ≤ y then ((x.toNat &&& y.toNat : Nat) : Int)
    else ((natAndNot x.toNat (bitNot y).toNat : Nat) : Int)            -- x & ~m
  else
    if 0 ≤ y then ((natAndNot y.toNat (bitNot x).toNat : Nat) : Int)
    else bitNot (((bitNot x).toNat ||| (bitNot y).toNat : Nat) : Int)  -- ~(~x | ~y)

/-- `x | y` -/
def bitOr (x y : Int) : Int :=
  if 0 ≤ x then
    if 0 ≤ y then ((x.toNat ||| y.toNat : Nat) : Int)
    else bitNot ((natAndNot (bitNot y).toNat x.toNat : Nat) : Int)     -- ~(~y & ~x)
  else
    if 0 ≤ y then bitNot ((natAndNot (bitNot x).toNat y.toNat : Nat) : Int)
    else bitNot (((bitNot x).toNat &&& (bitNot y).toNat : Nat) : Int)

/-- `x ^ y` -/
def bitXor (x y : Int) : Int :=
  if 0 ≤ x then
    if 0 ≤ y then ((x.toNat ^^^ y.toNat : Nat) : Int)
    else bitNot ((x.toNat ^^^ (bitNot y).toNat : Nat) : Int)
  else
    if 0 ≤ y then bitNot (((bitNot x).toNat ^^^ y.toNat : Nat) : Int)
    else (((bitNot x).toNat ^^^ (bitNot y).toNat : Nat) : Int)

def shiftLeft (x n : Int) : Int := if n < 0 then x >>> (-n).toNat else x <<< n.toNat

end UH
