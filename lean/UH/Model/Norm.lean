/- The implementation's normalisation, read from the regenerated table. -/
import UH.Model.Text
import UH.Generated.NormTable
namespace UH

/-- `"".join(parse.normalize(chr c))` with separators collapsed -/
def normChar (c : Nat) : List Sym := lookupRuns Generated.implRuns c

/-- the TypeScript port's `normalizeChar` on one UTF-16 code unit -/
def normCharTs (u : Nat) : List Sym := lookupRuns Generated.tsRuns u

end UH
