/-
L3 — the built-in functions (`pbhhg_py/builtins/*.py`), written against `Comp`
in the same order of arity checks, forcing and type checks as the Python source.
Each is `Span → List Arg → Comp Arg` (`metadata, argv ↦ EvalContext`).
-/
import UH.Model.Util
import UH.Model.NumStr
namespace UH
open Comp

abbrev Builtin := Span → List Arg → Comp Arg

def liftNum {α} (sp : Span) : NumM α → Comp α
  | .ok a => ret a
  | .error (.cls c) => throw (builtinErr c sp)
  | .error (.unmodelled w) => unmodelled w

def retV (v : Val) : Comp Arg := ret (.strict v)

/-- `proc_functional`'s checks (`interpret.py:248-252,338-343`): unknown built-in name is a
NotFound error, a non-callable (or, without `general`, a non-function) a type error -/
def checkCallee (isBuiltinName : Int → Bool) (sp : Span) (f : Val) (general : Bool) : Comp Unit :=
  match f with
  | .builtin n => if isBuiltinName n then ret () else throw (builtinErr .notFound sp)
  | v => if (if general then v.isCallable else v.isFunction) then ret () else throw (typeErr sp)

/-! ## arithmetics.py -/

def bAll (sp : Span) : List Arg → Comp Arg
  | [] => retV (.bool true)
  | a :: as => do
    let v ← forceArg a
    checkType sp [v] Val.isBoolean
    match v with
    | .bool false => retV (.bool false)
    | _ => bAll sp as

def bAny (sp : Span) : List Arg → Comp Arg
  | [] => retV (.bool false)
  | a :: as => do
    let v ← forceArg a
    checkType sp [v] Val.isBoolean
    match v with
    | .bool true => retV (.bool true)
    | _ => bAny sp as

def numsOf (vs : List Val) : List Num := vs.filterMap Num.ofVal?

def bMultiply : Builtin := fun sp argv => do
  checkMinArity sp argv.length 1
  match argv with
  | [] => bottom
  | a0 :: rest =>
    let first ← forceArg a0
    checkType sp [first] (fun v => v.isNumber || v.isBoolean)
    if first.isBoolean then bAll sp argv else
    let restV ← matchArguments sp rest Val.isNumber
    match Num.ofVal? first with
    | none => bottom
    | some n0 =>
      let r ← liftNum sp ((numsOf restV).foldlM Num.mul n0)
      retV r.toVal

def bAdd : Builtin := fun sp argv => do
  checkMinArity sp argv.length 1
  match argv with
  | [] => bottom
  | a0 :: _ =>
    let first ← forceArg a0
    checkType sp [first] (fun v => v.isNumber || v.isBoolean || v.isSequence || v.isDict)
    if first.isBoolean then bAny sp argv else
    let vs ← forceAll argv
    match first with
    | .list _ => do
      checkType sp vs Val.isList
      retV (.list (vs.flatMap (fun v => match v with | .list xs => xs | _ => [])))
    | .str _ => do
      checkType sp vs Val.isString
      retV (.str (String.join (vs.map (fun v => match v with | .str s => s | _ => ""))))
    | .bytes _ => do
      checkType sp vs Val.isBytes
      retV (.bytes (vs.flatMap (fun v => match v with | .bytes b => b | _ => [])))
    | .dict _ => do
      checkType sp vs Val.isDict
      retV (.dict (dictBuild (vs.flatMap (fun v => match v with | .dict t => t | _ => []))))
    | _ => do
      checkType sp vs Val.isNumber
      let r ← liftNum sp ((numsOf vs).foldlM Num.add (Num.int 0))
      retV r.toVal

def bExponentiate : Builtin := fun sp argv => do
  let vs ← matchArguments sp argv Val.isNumber (some [2, 3])
  match vs with
  | [b, e] =>
    match Num.ofVal? b, Num.ofVal? e with
    | some b, some e => do let r ← liftNum sp (Num.pow b e); retV r.toVal
    | _, _ => bottom
  | [.int b, .int e, .int m] =>
    match powMod b e m with
    | some r => retV (.int r)
    | none => throw (builtinErr .arithmetic sp)
  | [_, _, _] => throw (typeErr sp)
  | _ => bottom

def bIntegerDivision : Builtin := fun sp argv => do
  let vs ← matchArguments sp argv Val.isReal (some [2])
  match vs with
  | [.int n, .int d] =>
    if d = 0 then throw (builtinErr .division sp) else retV (.int (intQuot n d))
  | [a, b] =>
    match Num.ofVal? a, Num.ofVal? b with
    | some a, some b => do
      let x ← liftNum sp a.toF
      let y ← liftNum sp b.toF
      if F64.isZero y then throw (builtinErr .division sp) else retV (.float (floatQuot x y))
    | _, _ => bottom
  | _ => bottom

def bRemainder : Builtin := fun sp argv => do
  let vs ← matchArguments sp argv Val.isReal (some [2])
  match vs with
  | [.int n, .int d] =>
    if d = 0 then throw (builtinErr .division sp) else retV (.int (intRem n d))
  | [a, b] =>
    match Num.ofVal? a, Num.ofVal? b with
    | some a, some b => do
      let x ← liftNum sp a.toF
      let y ← liftNum sp b.toF
      -- math.fmod: ValueError("math domain error") for y = 0 (x not NaN) or x infinite (y not NaN)
      if F64.isNaN x || F64.isNaN y then retV (.float F64.nan)
      else if F64.isInf x || F64.isZero y then throw (valueErr sp)
      else if F64.isInf y then retV (.float x)
      else retV (.float (F64.fmodFinite x y))
    | _, _ => bottom
  | _ => bottom

/-! ## logic.py -/

/-- `_value_equals`: compares keys left to right, stops at the first difference -/
def bEqualsGo (key0 : Option Key) : List Arg → Comp Arg
  | [] => retV (.bool true)
  | a :: as => do
    let v ← forceArg a
    let k ← callKey (.keyOf v)
    match key0 with
    | none => bEqualsGo (some k) as
    | some k0 => if k0 == k then bEqualsGo key0 as else retV (.bool false)

def bEquals : Builtin := fun _ argv => bEqualsGo none argv

def bNegate : Builtin := fun sp argv => do
  let vs ← matchArguments sp argv Val.isBoolean (some [1])
  match vs with
  | [.bool b] => retV (.bool (!b))
  | _ => bottom

def bLessThan : Builtin := fun sp argv => do
  let vs ← matchArguments sp argv Val.isReal (some [2])
  match vs.map Num.ofVal? with
  | [some a, some b] => retV (.bool (Num.realLt a b))
  | _ => bottom

def bTrue : Builtin := fun sp argv => do checkArity sp argv.length [0]; retV (.bool true)
def bFalse : Builtin := fun sp argv => do checkArity sp argv.length [0]; retV (.bool false)

/-! ## constructors.py -/

def evens {α} : List α → List α
  | [] => []
  | [a] => [a]
  | a :: _ :: r => a :: evens r
def odds {α} : List α → List α
  | [] => []
  | [_] => []
  | _ :: b :: r => b :: odds r

def bDict : Builtin := fun sp argv => do
  if argv.length % 2 = 1 then throw (valueErr sp) else
  let keys ← mapM' (fun a => callArg (.recStrict a)) (evens argv)
  let keyVals ← forceAll keys       -- already strict
  let hashes ← mapM' (fun v => callKey (.keyOf v)) keyVals
  let entries := (keyVals.zip (hashes.zip (odds argv)))
  retV (.dict (dictBuild entries))

def bList : Builtin := fun _ argv => retV (.list argv)

def bString : Builtin := fun sp argv => do
  let vs ← matchArguments sp argv (fun v => v.isNumber || v.isString) (some [0, 1])
  match vs with
  | [] => retV (.str "")
  | [.int n] => retV (.str (toString n))
  | [.float f] => retV (.str (F64.pyRepr f))
  | [.complex r i] => retV (.str (complexStr r i))
  | [v] => retV v
  | _ => bottom

/-- `_parse_str_to_number` -/
def parseStrToNumber (sp : Span) (vs : List Val) : Comp (String × Int) := do
  let vs ← matchDefaults sp vs 2 [Val.int 10]
  match vs with
  | [s, b] => do
    checkType sp [s] Val.isString
    checkType sp [b] Val.isInteger
    match s, b with
    | .str s, .int b => pure (s, b)
    | _, _ => bottom
  | _ => bottom

def bInteger : Builtin := fun sp argv => do
  let vs ← matchArguments sp argv (fun v => v.isReal || v.isString) (some [1, 2])
  match vs with
  | [] => bottom
  | v0 :: _ =>
    if v0.isReal then do
      checkArity sp vs.length [1]
      match v0 with
      | .int n => retV (.int n)
      | .float f =>
        -- int(inf) OverflowError / int(nan) ValueError → language errors at the call site (fix F1)
        if F64.isInf f then throw (builtinErr .arithmetic sp)
        else if F64.isNaN f then throw (valueErr sp)
        else retV (.int (F64.truncInt f))
      | _ => bottom
    else do
      let (s, base) ← parseStrToNumber sp vs
      match pyIntOfString s base with
      | some n => retV (.int n)
      | none => throw (valueErr sp)

def bFloat : Builtin := fun sp argv => do
  let vs ← matchArguments sp argv (fun v => v.isReal || v.isString) (some [1, 2])
  match vs with
  | [] => bottom
  | v0 :: _ =>
    if v0.isReal then do
      checkArity sp vs.length [1]
      match v0 with
      | .int n => do let f ← liftNum sp (Num.intToF n); retV (.float f)
      | .float f => retV (.float f)
      | _ => bottom
    else do
      let (s, base) ← parseStrToNumber sp vs
      if base = 10 then
        match pyFloatOfString s with
        | some f => retV (.float f)
        | none => throw (valueErr sp)
      else
        let parts := splitOn ['.'] (pyStrip s).toList
        let parts ← matchDefaults sp parts 2 [[]]
        match parts with
        | [ip, fp] =>
          match pyIntOfString (String.ofList (ip ++ fp)) base with
          | none => throw (valueErr sp)
          | some sig =>
            -- significant / base ** len(frac): correctly rounded true division
            if base = 0 ∧ fp.length > 0 then throw (builtinErr .arithmetic sp) else
            let den : Int := base ^ fp.length
            match intTrueDiv sig den with
            | some f => retV (.float f)
            | none => throw (builtinErr .arithmetic sp)
        | _ => bottom

def bComplex : Builtin := fun sp argv => do
  let vs ← matchArguments sp argv (fun v => v.isNumber || v.isString) (some [1, 2])
  if vs.all Val.isNumber then do
    let vs ← matchDefaults sp vs 2 [Val.float F64.zero]
    match vs.map Num.ofVal? with
    | [some re, some im] =>
      -- complex(re, im) = re + im·1j
      let r ← liftNum sp (do
        let (a, b) ← re.toC
        let (c, d) ← im.toC
        match re, im with
        | .complex _ _, _ | _, .complex _ _ => pure (Num.complex (F64.sub a d) (F64.add b c))
        | _, _ => pure (Num.complex a c))
      retV r.toVal
    | _ => bottom
  else do
    checkType sp vs Val.isString
    checkArity sp vs.length [1]
    unmodelled "complex(str)"

def bNil : Builtin := fun sp argv => do checkArity sp argv.length [0]; retV .nil

def bException : Builtin := fun sp argv => do
  let vs ← forceAll argv
  retV (.err [sp] vs)

/-! ## control.py -/

def bThrow : Builtin := fun sp argv => do
  checkArity sp argv.length [1]
  let vs ← forceAll argv
  checkType sp vs Val.isErr
  match vs with
  | [.err metas vals] => throw ⟨metas, vals⟩
  | _ => bottom

def bTry (isBuiltinName : Int → Bool) : Builtin := fun sp argv => do
  checkArity sp argv.length [2]
  match argv with
  | [body, handler] =>
    tryCatch (callArg (.recStrict body)) (fun err => do
      let f ← strictFunctional sp handler
      checkCallee isBuiltinName sp f false
      callArg (.apply f sp [.strict (.err err.metas err.vals)]))
  | _ => bottom

/-! ## functional.py -/

def procFun (isBuiltinName : Int → Bool) (sp : Span) (a : Arg) (general : Bool) : Comp Val := do
  let f ← strictFunctional sp a
  checkCallee isBuiltinName sp f general
  pure f

def bPipe (isBuiltinName : Int → Bool) : Builtin := fun sp funs => do
  let evs ← mapM' (fun a => procFun isBuiltinName sp a true) funs
  newFn (fun _ => .pipe evs) (fun f => retV (.fn f))

def bCollect (isBuiltinName : Int → Bool) : Builtin := fun sp funs => do
  checkArity sp funs.length [1]
  match funs with
  | [a] => do
    let ev ← procFun isBuiltinName sp a true
    newFn (fun _ => .collect ev) (fun f => retV (.fn f))
  | _ => bottom

def bSpread (isBuiltinName : Int → Bool) : Builtin := fun sp funs => do
  checkArity sp funs.length [1]
  match funs with
  | [a] => do
    let ev ← procFun isBuiltinName sp a true
    newFn (fun _ => .spread ev) (fun f => retV (.fn f))
  | _ => bottom

/-! ## sequence.py -/

def seqLen : Val → Nat
  | .list xs => xs.length
  | .str s => s.length
  | .bytes b => b.length
  | .err _ vs => vs.length
  | _ => 0

def bLen : Builtin := fun sp argv => do
  let vs ← matchArguments sp argv (fun v => v.isSequence || v.isErr) (some [1])
  match vs with
  | [v] => retV (.int (seqLen v))
  | _ => bottom

def bSlice : Builtin := fun sp argv => do
  checkArity sp argv.length [2, 3, 4]
  let vs ← forceAll argv
  match vs with
  | [] => bottom
  | seq :: rest => do
    checkType sp [seq] Val.isSequence
    checkType sp rest Val.isInteger
    let ints := rest.filterMap (fun v => match v with | .int n => some n | _ => none)
    let r ← matchDefaults sp ints 3 [(seqLen seq : Int), 1]
    match r with
    | [start, stop, step] =>
      if step = 0 then throw (valueErr sp) else   -- host ValueError → language error (fix F1)
      match seq with
      | .list xs => retV (.list (pySlice xs start stop step))
      | .str s => retV (.str (String.ofList (pySlice s.toList start stop step)))
      | .bytes b => retV (.bytes (pySlice b start stop step))
      | _ => bottom
    | _ => bottom

def applyFn (f : Val) (sp : Span) (args : List Arg) : Comp Arg := callArg (.apply f sp args)

def bMap (isBuiltinName : Int → Bool) : Builtin := fun sp argv => do
  checkArity sp argv.length [2]
  match argv with
  | [a0, a1] => do
    let seq ← forceArg a0
    checkType sp [seq] Val.isList
    let f ← procFun isBuiltinName sp a1 false
    match seq with
    | .list xs => do
      let ys ← mapM' (fun x => applyFn f sp [x]) xs
      retV (.list ys)
    | _ => bottom
  | _ => bottom

def bFilter (isBuiltinName : Int → Bool) : Builtin := fun sp argv => do
  checkArity sp argv.length [2]
  match argv with
  | [a0, a1] => do
    let seq ← forceArg a0
    checkType sp [seq] Val.isList
    let f ← procFun isBuiltinName sp a1 false
    match seq with
    | .list xs => do
      let fits ← mapM' (fun x => applyFn f sp [x]) xs
      let fitVs ← forceAll fits
      checkType sp fitVs Val.isBoolean
      let kept := (xs.zip fitVs).filterMap (fun (x, b) => match b with | .bool true => some x | _ => none)
      retV (.list kept)
    | _ => bottom
  | _ => bottom

def foldGo (f : Val) (sp : Span) (fromRight : Bool) : Arg → List Arg → Comp Arg
  | acc, [] => ret acc
  | acc, item :: rest => do
    let acc' ← applyFn f sp (if fromRight then [item, acc] else [acc, item])
    foldGo f sp fromRight acc' rest

def bFold (isBuiltinName : Int → Bool) : Builtin := fun sp argv => do
  checkArity sp argv.length [2, 3]
  let (init, pair) : Option Arg × List Arg := match argv with
    | [x, i, y] => (some i, [x, y])
    | l => (none, l)
  match pair with
  | [p0, p1] => do
    let first ← forceArg p0
    let fromRight := first.isList
    let (funA, seqA) := if fromRight then (p1, p0) else (p0, p1)
    let f ← procFun isBuiltinName sp funA false
    let seq ← forceArg seqA
    checkType sp [seq] Val.isList
    match seq with
    | .list xs =>
      let feed := if fromRight then xs.reverse else xs
      match init with
      | some acc => foldGo f sp fromRight acc feed
      | none =>
        match feed with
        | [] => throw (valueErr sp)     -- empty fold without initial value
        | a :: rest => foldGo f sp fromRight a rest
    | _ => bottom
  | _ => bottom

/-! ## string.py -/

def bSplit : Builtin := fun sp argv => do
  let vs ← matchArguments sp argv (fun v => v.isString || v.isBytes) (some [1, 2])
  match vs with
  | .str src :: _ => do
    checkType sp vs Val.isString
    let ss := vs.filterMap (fun v => match v with | .str s => some s | _ => none)
    let r ← matchDefaults sp ss 2 [""]
    match r with
    | [src', delim] =>
      let _ := src
      let pieces := if delim.isEmpty then src'.toList.map (fun c => [c]) else splitOn delim.toList src'.toList
      retV (.list (pieces.map (fun p => Arg.strict (.str (String.ofList p)))))
    | _ => bottom
  | .bytes _ :: _ => do
    checkType sp vs Val.isBytes
    let bs := vs.filterMap (fun v => match v with | .bytes b => some b | _ => none)
    let r ← matchDefaults sp bs 2 [[]]
    match r with
    | [src, delim] =>
      let pieces := if delim.isEmpty then src.map (fun c => [c]) else splitOn delim src
      retV (.list (pieces.map (fun p => Arg.strict (.bytes p))))
    | _ => bottom
  | _ => bottom

def bJoin : Builtin := fun sp argv => do
  checkArity sp argv.length [1, 2]
  let vs ← forceAll argv
  match vs with
  | [] => bottom
  | seq :: rest => do
    checkType sp [seq] Val.isList
    match seq with
    | .list xs => do
      let pieces ← forceAll xs
      checkType sp pieces (fun v => v.isString || v.isBytes)
      match pieces with
      | [] => throw (valueErr sp)      -- joining an empty list
      | .str _ :: _ => do
        checkType sp pieces Val.isString
        let delim ← match rest with
          | [] => pure ""
          | d :: _ => do checkType sp [d] Val.isString; match d with | .str s => pure s | _ => bottom
        let ps := pieces.filterMap (fun v => match v with | .str s => some s.toList | _ => none)
        retV (.str (String.ofList (joinWith delim.toList ps)))
      | _ => do
        checkType sp pieces Val.isBytes
        let delim ← match rest with
          | [] => pure []
          | d :: _ => do checkType sp [d] Val.isBytes; match d with | .bytes s => pure s | _ => bottom
        let ps := pieces.filterMap (fun v => match v with | .bytes s => some s | _ => none)
        retV (.bytes (joinWith delim ps))
    | _ => bottom

/-! ## io.py -/

def bInput : Builtin := fun sp argv => do
  checkArity sp argv.length [0]
  retV (.io .input [] sp none)

def bPrint : Builtin := fun sp argv => do
  checkArity sp argv.length [1]
  let vs ← forceAll argv
  checkType sp vs Val.isString
  retV (.io .print (vs.map Arg.strict) sp none)

def bReturn : Builtin := fun sp argv => do
  checkArity sp argv.length [1]
  let vs ← mapM' (fun a => callArg (.recStrict a)) argv
  retV (.io .ret vs sp none)

def bBind (isBuiltinName : Int → Bool) : Builtin := fun sp argv => do
  checkArity sp argv.length [2, 3]
  match argv with
  | a0 :: a1 :: rest => do
    let io ← forceArg a0
    checkType sp [io] Val.isIO
    let resolve ← strictFunctional sp a1
    let reject ← match rest with
      | [a2] => do let r ← strictFunctional sp a2; pure (some r)
      | _ => pure none
    let _ := isBuiltinName
    retV (.io .bind argv sp (some (io, resolve, reject)))
  | _ => bottom

def bFile : Builtin := fun sp argv => do
  checkArity sp argv.length [2]
  let vs ← forceAll argv
  match vs with
  | [p, m] => do
    checkType sp [p] (fun v => v.isInteger || v.isString)
    checkType sp [m] Val.isInteger
    match m with
    | .int mode =>
      if (fileModes.contains (encodeNumber mode)) then retV (.io .fopen [.strict p, .strict m] sp none)
      else throw (valueErr sp)
    | _ => bottom
  | _ => bottom

/-! ## module.py -/

def bImport : Builtin := fun sp argv => do
  checkMinArity sp argv.length 1
  let lits := argv.map (fun a => match a with | .thunk _ (some n) => some n | _ => none)
  if lits.all Option.isSome then worldArg (.importLit sp (lits.filterMap id)) else do
    checkArity sp argv.length [1]
    match argv with
    | [a] => do
      let v ← forceArg a
      checkType sp [v] Val.isString
      match v with
      | .str p => worldArg (.importPath sp p)
      | _ => bottom
    | _ => bottom

end UH
