/-
L2 — the numeric tower (Python `int` / `float` / `complex` arithmetic as used by
`builtins/arithmetics.py`, `logic.py`, `constructors.py`).
Integer operations are exact; `float` ↔ `int` conversions are exact;
float `+ − × ÷` are the host's.
-/
import UH.Model.F64
namespace UH

inductive Num where
  | int (n : Int)
  | float (f : F64)
  | complex (re im : F64)
deriving Inhabited

/-- outcome of host arithmetic the implementation turns into a language error
(class only; the call site's span is added by the caller) or that is not modelled -/
inductive NumErr where
  | cls (c : ErrClass)
  | unmodelled (why : String)

abbrev NumM := Except NumErr

namespace Num

def ofVal? : Val → Option Num
  | .int n => some (.int n)
  | .float f => some (.float f)
  | .complex r i => some (.complex r i)
  | _ => none

def toVal : Num → Val
  | .int n => .int n
  | .float f => .float f
  | .complex r i => .complex r i

/-- `float(n)`; too large = Python `OverflowError` (language arithmetic error after the fix) -/
def intToF (n : Int) : NumM F64 :=
  match F64.ofInt n with
  | some f => .ok f
  | none => .error (.cls .arithmetic)

def toF : Num → NumM F64
  | .int n => intToF n
  | .float f => .ok f
  | .complex _ _ => .error (.cls .type)

def toC : Num → NumM (F64 × F64)
  | .int n => do let f ← intToF n; pure (f, F64.zero)
  | .float f => .ok (f, F64.zero)
  | .complex r i => .ok (r, i)

def add : Num → Num → NumM Num
  | .int a, .int b => .ok (.int (a + b))
  | .complex r i, y | y, .complex r i => do
      -- complex + real: Python converts the real operand to complex(x, 0.0)
      let (r2, i2) ← toC y
      pure (.complex (F64.add r r2) (F64.add i i2))
  | x, y => do let a ← toF x; let b ← toF y; pure (.float (F64.add a b))

def mul : Num → Num → NumM Num
  | .int a, .int b => .ok (.int (a * b))
  | .complex a b, .complex c d =>
      .ok (.complex (F64.sub (F64.mul a c) (F64.mul b d)) (F64.add (F64.mul a d) (F64.mul b c)))
  | .complex a b, y => do
      let (c, d) ← toC y
      pure (.complex (F64.sub (F64.mul a c) (F64.mul b d)) (F64.add (F64.mul a d) (F64.mul b c)))
  | x, .complex c d => do
      let (a, b) ← toC x
      pure (.complex (F64.sub (F64.mul a c) (F64.mul b d)) (F64.add (F64.mul a d) (F64.mul b c)))
  | x, y => do let a ← toF x; let b ← toF y; pure (.float (F64.mul a b))

/-- key for equality -/
def key : Num → Key
  | .int n => .num (F64.intNumKey n) (.fin 0 0)
  | .float f => .num (F64.toNumKey f) (.fin 0 0)
  | .complex r i => .num (F64.toNumKey r) (F64.toNumKey i)

/-- exact `<` between reals -/
def realLt : Num → Num → Bool
  | .int a, .int b => a < b
  | .int a, .float b => F64.NumKey.lt (F64.intNumKey a) (F64.toNumKey b)
  | .float a, .int b => F64.NumKey.lt (F64.toNumKey a) (F64.intNumKey b)
  | .float a, .float b => F64.lt a b
  | _, _ => false

end Num

/-! ### integer division, remainder, powers -/

/-- `ㄴㄴ` on integers: quotient truncated toward zero (`//` then the sign fix-up of
`_integer_division`) -/
def intQuot (n d : Int) : Int :=
  let v := Int.fdiv n d
  if v < 0 then -(Int.fdiv (-n) d) else v

/-- `ㄴㅁ` on integers (`_remainder`) -/
def intRem (n d : Int) : Int :=
  if Int.fdiv n d ≥ 0 then Int.fmod n d else -(Int.fmod (-n) d)

/-- Python `float.__floordiv__` (`float_divmod`), divisor non-zero -/
def floatFloorDiv (vx wx : F64) : F64 :=
  let fmod (x y : F64) : F64 :=
    if F64.isNaN x || F64.isNaN y || F64.isInf x then F64.nan
    else if F64.isInf y then x
    else F64.fmodFinite x y
  let mod0 := fmod vx wx
  let div0 := F64.div (F64.sub vx mod0) wx
  let nonzero (x : F64) : Bool := !(F64.isZero x)
  let neg (x : F64) : Bool := F64.lt x F64.zero
  let div1 := if nonzero mod0 && (neg wx != neg mod0) then F64.sub div0 (F64.ofFloat 1.0) else div0
  if nonzero div1 then
    let fl := F64.floorF div1
    if F64.lt (F64.ofFloat 0.5) (F64.sub div1 fl) then F64.add fl (F64.ofFloat 1.0) else fl
  else
    -- copysign(0.0, vx / wx)
    let q := F64.div vx wx
    if F64.signBit q then F64.negZero else F64.zero

/-- `ㄴㄴ` on reals with at least one float -/
def floatQuot (a b : F64) : F64 :=
  let v := floatFloorDiv a b
  if F64.lt v F64.zero then F64.neg (floatFloorDiv (F64.neg a) b) else v

def natPow (b : Int) (e : Nat) : Int := b ^ e

/-- modular exponentiation by squaring, `0 ≤ result < m` (`m > 0`) -/
def powModNat (b : Nat) (e : Nat) (m : Nat) : Nat :=
  let rec go (fuel : Nat) (b e acc : Nat) : Nat :=
    match fuel with
    | 0 => acc
    | fuel + 1 =>
      if e = 0 then acc else
      let acc' := if e % 2 = 1 then acc * b % m else acc
      go fuel (b * b % m) (e / 2) acc'
  go (Nat.log2 e + 2) (b % m) e (1 % m)

/-- extended Euclid: modular inverse of `a` modulo `m > 0`, if coprime -/
def modInverse (a : Int) (m : Nat) : Option Nat :=
  let rec go (fuel : Nat) (r0 r1 : Int) (s0 s1 : Int) : Int × Int :=
    match fuel with
    | 0 => (r0, s0)
    | fuel + 1 =>
      if r1 = 0 then (r0, s0) else
      let q := r0 / r1
      go fuel r1 (r0 - q * r1) s1 (s0 - q * s1)
  let a' := a % (m : Int)
  let (g, s) := go (2 * (Nat.log2 m + 2) + 4) a' m 1 0
  if g = 1 then some (s % (m : Int)).toNat else if m = 1 then some 0 else none

/-- Python `pow(base, exp, abs(mod))`; `none` = `ValueError` -/
def powMod (base exp modulo : Int) : Option Int :=
  let m := modulo.natAbs
  if m = 0 then none else
  if 0 ≤ exp then some (powModNat (base % (m : Int)).toNat exp.toNat m : Nat)
  else
    match modInverse base m with
    | none => none
    | some inv => some (powModNat inv exp.natAbs m : Nat)

end UH
