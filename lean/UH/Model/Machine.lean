/-
L4 — the trampolined evaluator (`interpret.evaluate`, `StackFrame.communicate`,
`CacheBox.resolve`, the debugger bookkeeping), one micro-step at a time.

A frame is a Python generator chain: `cur` is the innermost running coroutine,
`konts` the suspended `yield from` callers.  `step` is total and non-recursive;
`runN` iterates it.  The theorems of C05 / C13 / C19 are invariants of `step`
and hold whatever the coroutines do.
-/
import UH.Model.World
import UH.Model.Heap
namespace UH

abbrev Outcome := Except ErrV Val

/-- memo cell of a delayed expression (`Expr` + `CacheBox`) -/
structure Cell where
  expr : AST
  env : Env
  value : Option Outcome := none
  requestor : Option TId := none
deriving Inhabited

structure Store where
  cells : Heap Cell
  fns : Heap FnObj
deriving Inhabited

structure Kont where
  k : Res → Comp Res
  ke : ErrV → Comp Res

structure Frame where
  box : Option TId          -- the cell this frame evaluates (`none` for the head coroutine)
  konts : List Kont
  cur : Comp Res
deriving Inhabited

/-- what the debugger observer is told -/
inductive Event where
  | before (depth : Nat) (t : TId)
  | after (depth : Nat) (t : TId) (failed : Bool)
deriving DecidableEq, Repr

inductive Status where
  | running
  | done (r : Except ErrV Res)
  | limit                     -- `RuntimeError("Maximum Stack Size Exceeded.")`
  | bottom                    -- C03 marker evaluated / impossible branch
  | unmodelled (why : String)
deriving Inhabited

structure MState where
  store : Store
  world : World
  head : Frame
  tail : List Frame           -- top of the stack first
  resp : Option Outcome       -- response to deliver to the top frame
  status : Status
  -- debugger bookkeeping (`depth`, `debug_stack`) and the observer's event log (newest first)
  depth : Nat
  dstack : List (List TId)
  events : List Event
  -- instrumentation for C13: every time a frame starts interpreting a cell
  starts : List TId
deriving Inhabited

def maxStackSize : Nat := 5000

namespace Store
def getCell (s : Store) (t : TId) : Cell := s.cells.getD t default
def setValue (s : Store) (t : TId) (v : Outcome) : Store :=
  { s with cells := s.cells.modify t (fun c => { c with value := some v }) }
/-- `CacheBox.resolve` (iterative form): set the box and every box on its requestor chain -/
def resolve (s : Store) : Nat → TId → Outcome → Store
  | 0, _, _ => s
  | fuel + 1, t, v =>
    let s' := s.setValue t v
    match (s.getCell t).requestor with
    | some r => resolve s' fuel r v
    | none => s'
end Store

/-- the frame created for a request (`StackFrame(request)` → `interpret(request.value)`);
the cache check at the top of `interpret` is part of it -/
def newFrame (s : Store) (t : TId) : Frame :=
  let c := s.getCell t
  { box := some t, konts := []
    cur := match c.value with
      | some (.ok v) => .ret (.arg (.strict v))
      | some (.error e) => .throw e
      | none => (do let a ← interpret c.expr c.env; pure (Res.arg a)) }

def osErr (sp : Span) (errno : Int) : ErrV := builtinErr .os sp [errno]

inductive WResult where
  | ok (a : Arg)
  | err (e : ErrV)
  | unmodelled (why : String)

abbrev WOut := Store × World × WResult

/-- world effects -/
def doWorld (st : Store) (w : World) (op : WOp) : WOut :=
  let fileErr (sp : Span) : WErr → WResult
    | .os n => .err (osErr sp n)
    | .value => .err (valueErr sp)
    | .unmodelled s => .unmodelled s
  let handleOf (f : FId) : Option Nat := match st.fns.get? f with | some (.file h) => some h | _ => none
  let onFile (sp : Span) (f : FId) : WOut :=
    match handleOf f with
    | none => (st, w, .unmodelled "not a file")
    | some h =>
      match fileOp w h op with
      | .ok (v, w') => (st, w', .ok (.strict v))
      | .error e => (st, w, fileErr sp e)
  match op with
  | .readLine _ =>
    if w.stdin.isEmpty then (st, w, .ok (.strict .nil))
    else
      let line := w.stdin.takeWhile (· != '\n')
      let rest := (w.stdin.dropWhile (· != '\n')).drop 1
      (st, { w with stdin := rest }, .ok (.strict (.str (String.ofList line))))
  | .print _ s => (st, { w with stdout := ('\n' :: s.toList.reverse) ++ w.stdout }, .ok (.strict .nil))
  | .fopen sp p m =>
    match p with
    | .str path =>
      match fileModes.idxOf? (encodeNumber m) with
      | none => (st, w, .unmodelled "bad mode")
      | some mi =>
        match openFile w path mi with
        | .ok (h, w') =>
          let f := st.fns.size
          ({ st with fns := st.fns.push (.file h) }, w', .ok (.strict (.fn f)))
        | .error e => (st, w, fileErr sp e)
    | _ => (st, w, .unmodelled "open by file descriptor")
  | .fclose sp f | .fread sp f _ | .fwrite sp f _ | .ftell sp f | .fseek sp f _ _ | .ftrunc sp f _ => onFile sp f
  | .importLit sp lits =>
    if lits.head? == some 5 then
      match loadBuiltinModule sp lits with
      | .ok v => (st, w, .ok (.strict v))
      | .error e => (st, w, .err e)
    else
      match searchFile w (lits.length + 1) lits "" with
      | .notFound => (st, w, .err (builtinErr .notFound sp))
      | .ambiguous => (st, w, .err (builtinErr .import_ sp))
      | .found path => loadPath sp path
  | .importPath sp path =>
    if path.contains (Char.ofNat 0) then (st, w, .err (builtinErr .import_ sp))
    else if World.normPath path == "" && !(path.startsWith "/" || path.startsWith ".") then (st, w, .err (osErr sp 2))
    else loadPath sp (World.normPath path)
where
  loadPath (sp : Span) (path : String) : WOut :=
    match w.registry.lookup path with
    | some t => (st, w, .ok (.thunk t none))
    | none =>
      match World.getFile w path with
      | none =>
        let parts := World.pathParts path
        let prefixIsFile := (List.range parts.length).any (fun k =>
          k > 0 && (World.getFile w ("/".intercalate (parts.take k))).isSome)
        (st, w, .err (osErr sp (if World.isDir w path then 21 else if prefixIsFile then 20 else 2)))
      | some bytes =>
        match utf8Decode bytes with
        | none => (st, w, .err (builtinErr .import_ sp))
        | some cps =>
          match parse normChar cps with
          | .error pe => (st, w, .err (builtinErr .syntax pe.span))
          | .ok [e] =>
            let t := st.cells.size
            ({ st with cells := st.cells.push { expr := e, env := ⟨[], []⟩ } },
             { w with registry := w.registry ++ [(path, t)] },
             .ok (.thunk t (match e with | .lit n _ => some n | _ => none)))
          | .ok [] => (st, w, .err (valueErr sp))
          | .ok (e :: _) => (st, w, .err (valueErr e.span))

/-- the observer's notifications when a frame finishes (`debug_stack.pop()`, reversed): one
`after` event per waiting expression, newest first, the depth decreasing after each; the events
are consed onto the (newest-first) log -/
def afterEvents (failed : Bool) : Nat → List TId → List Event → Nat × List Event
  | depth, [], log => (depth, log)
  | depth, t :: rest, log => afterEvents failed (depth - 1) rest (Event.after depth t failed :: log)

/-- deliver a frame's final result: resolve its box, pop it, answer the frame below -/
def finishFrame (m : MState) (f : Frame) (rest : List Frame) (r : Outcome) : MState :=
  let store := match f.box with
    | some t => m.store.resolve (m.store.cells.size + 1) t r
    | none => m.store
  let waiting := m.dstack.head?.getD []      -- newest first = Python's `reversed(waiting_exprs)`
  let failed := match r with | .ok _ => false | .error _ => true
  let (d, evs) := afterEvents failed m.depth waiting m.events
  { m with store := store, tail := rest, resp := some r,
           depth := d, dstack := m.dstack.drop 1, events := evs }

/-- one micro-step of `evaluate` -/
def step (m : MState) : MState :=
  match m.status with
  | .running =>
    -- the active frame
    let (f, rest, isHead) : Frame × List Frame × Bool := match m.tail with
      | f :: rest => (f, rest, false)
      | [] => (m.head, [], true)
    let put (f' : Frame) (m : MState) : MState :=
      if isHead then { m with head := f' } else { m with tail := f' :: rest }
    match m.resp with
    | some r =>
      -- `coroutine.send(value)` / `coroutine.throw(err)`
      match f.cur with
      | .force _ k ke =>
        let cur' := match r with | .ok v => k v | .error e => ke e
        put { f with cur := cur' } { m with resp := none }
      | _ => { m with status := .bottom }
    | none =>
      match f.cur with
      | .ret r =>
        match f.konts with
        | kt :: ks => put { f with konts := ks, cur := kt.k r } m
        | [] =>
          if isHead then { m with status := .done (.ok r) } else
          match r with
          | .arg (.thunk t' _) =>
            -- tail return: the frame is *replaced* by a frame for `t'` (interpret.py:120-123)
            let store := { m.store with cells := m.store.cells.modify t' (fun c => { c with requestor := f.box }) }
            let fresh := (store.getCell t').value.isNone
            { m with store := store, tail := newFrame store t' :: rest,
                     depth := m.depth + 1,
                     dstack := (match m.dstack with | l :: ls => (t' :: l) :: ls | [] => [[t']]),
                     events := Event.before (m.depth + 1) t' :: m.events,
                     starts := if fresh then t' :: m.starts else m.starts }
          | .arg (.strict v) => finishFrame m f rest (.ok v)
          | _ => { m with status := .bottom }
      | .throw e =>
        match f.konts with
        | kt :: ks => put { f with konts := ks, cur := kt.ke e } m
        | [] =>
          if isHead then { m with status := .done (.error e) } else finishFrame m f rest (.error e)
      | .bottom => { m with status := .bottom }
      | .unmodelled why => { m with status := .unmodelled why }
      | .force t k ke =>
        match (m.store.getCell t).value with
        | some (.ok v) => put { f with cur := k v } m
        | some (.error e) => put { f with cur := ke e } m
        | none =>
          -- `tail.append(StackFrame(request))`
          let tail' := newFrame m.store t :: m.tail
          let m' := { m with tail := tail', depth := m.depth + 1, dstack := [t] :: m.dstack,
                             events := Event.before (m.depth + 1) t :: m.events,
                             starts := t :: m.starts }
          if tail'.length ≥ maxStackSize then { m' with status := .limit } else m'
      | .newThunk e env k =>
        let t := m.store.cells.size
        put { f with cur := k t } { m with store := { m.store with cells := m.store.cells.push { expr := e, env := env } } }
      | .newFn mk k =>
        let id := m.store.fns.size
        put { f with cur := k id } { m with store := { m.store with fns := m.store.fns.push (mk id) } }
      | .getFn id k =>
        match m.store.fns.get? id with
        | some o => put { f with cur := k o } m
        | none => { m with status := .bottom }
      | .call op k ke => put { f with konts := ⟨k, ke⟩ :: f.konts, cur := expand op } m
      | .world op k ke =>
        match doWorld m.store m.world op with
        | (st, w, .ok a) => put { f with cur := k a } { m with store := st, world := w }
        | (st, w, .err e) => put { f with cur := ke e } { m with store := st, world := w }
        | (_, _, .unmodelled why) => { m with status := .unmodelled why }
  | _ => m

def runN : Nat → MState → MState
  | 0, m => m
  | n + 1, m => match m.status with
    | .running => runN n (step m)
    | _ => m

/-- initial store: the built-in module function objects occupy the first ids -/
def initStore : Store := ⟨Heap.empty, Heap.ofList (bmodPaths.map FnObj.bmod)⟩

def initState (store : Store) (world : World) (c : Comp Res) : MState :=
  { store := store, world := world, head := ⟨none, [], c⟩, tail := [], resp := none,
    status := .running, depth := 0, dstack := [], events := [], starts := [] }

end UH
