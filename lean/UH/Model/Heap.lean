/-
A growable store of cells addressed by consecutive ids.  Backed by a balanced
tree so that the compiled driver never copies the store (a shared `Array` is
copied on every update); the four lemmas below are all the proofs use.
-/
import Std.Data.TreeMap
namespace UH

structure Heap (α : Type) where
  map : Std.TreeMap Nat α compare
  size : Nat

namespace Heap
variable {α : Type}

def empty : Heap α := ⟨{}, 0⟩
instance : Inhabited (Heap α) := ⟨empty⟩

/-- allocate the next id -/
def push (h : Heap α) (a : α) : Heap α := ⟨h.map.insert h.size a, h.size + 1⟩
def get? (h : Heap α) (i : Nat) : Option α := h.map[i]?
def getD (h : Heap α) (i : Nat) (d : α) : α := h.map.getD i d
def modify (h : Heap α) (i : Nat) (f : α → α) : Heap α := ⟨h.map.modify i f, h.size⟩
def ofList (l : List α) : Heap α := l.foldl push empty

theorem getD_eq (h : Heap α) (i : Nat) (d : α) : h.getD i d = (h.get? i).getD d := by
  simp [getD, get?, Std.TreeMap.getD_eq_getD_getElem?]

theorem get?_modify (h : Heap α) (i j : Nat) (f : α → α) :
    (h.modify i f).get? j = if i = j then (h.get? i).map f else h.get? j := by
  simp only [modify, get?, Std.TreeMap.getElem?_modify]
  by_cases hij : i = j
  · subst hij; simp
  · have : compare i j ≠ .eq := by simpa [Nat.compare_eq_eq] using hij
    simp [hij, this]

theorem get?_push (h : Heap α) (a : α) (j : Nat) :
    (h.push a).get? j = if h.size = j then some a else h.get? j := by
  simp only [push, get?, Std.TreeMap.getElem?_insert]
  by_cases hij : h.size = j
  · subst hij; simp
  · have : compare h.size j ≠ .eq := by simpa [Nat.compare_eq_eq] using hij
    simp [hij, this]

@[simp] theorem size_modify (h : Heap α) (i : Nat) (f : α → α) : (h.modify i f).size = h.size := rfl
@[simp] theorem size_push (h : Heap α) (a : α) : (h.push a).size = h.size + 1 := rfl

end Heap
end UH
