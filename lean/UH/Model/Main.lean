/-
L6 — front ends: `main.main` (parse, evaluate and format every top-level
expression) and `cli.run` (exit status of a single expression).
-/
import UH.Model.Machine
namespace UH

inductive RunOutcome where
  | ok (results : List String)
  | err (e : ErrV) (formatted : String)
  | limit
  | fuel
  | bottom
  | unmodelled (why : String)
deriving Inhabited

structure RunResult where
  outcome : RunOutcome
  world : World
  store : Store
  events : List Event      -- oldest first
  starts : List TId
  steps : Nat
deriving Inhabited

/-- run a head coroutine to completion (or out of fuel) -/
def runComp (fuel : Nat) (store : Store) (world : World) (c : Comp Res) : MState :=
  runN fuel (initState store world c)

def allocCell (s : Store) (e : AST) : TId × Store :=
  (s.cells.size, { s with cells := s.cells.push { expr := e, env := ⟨[], []⟩ } })

def litTag (e : AST) : Option Int := match e with | .lit n _ => some n | _ => none

/-- format an exception value the way the harness formats `err.err` on the Python side -/
def formatErr (fuel : Nat) (store : Store) (world : World) (e : ErrV) : String :=
  let m := runComp fuel store world (do
    let s ← formatter (.strict (.err e.metas e.vals)) true
    pure (Res.str s))
  match m.status with
  | .done (.ok (.str s)) => s
  | _ => "?"

/-- `main.main(filename, program, format_io)` on a given world -/
def runMain (fuel : Nat) (world : World) (text : List Nat) (formatIO : Bool) : RunResult :=
  match parse normChar text with
  | .error pe =>
    let e := builtinErr .syntax pe.span
    ⟨.err e (formatErr fuel initStore world e), world, initStore, [], [], 0⟩
  | .ok exprs =>
    let rec go (exprs : List AST) (store : Store) (world : World) (acc : List String)
        (evs : List Event) (starts : List TId) : RunResult :=
      match exprs with
      | [] => ⟨.ok acc.reverse, world, store, evs, starts, 0⟩
      | e :: rest =>
        let (t, store) := allocCell store e
        let m := runComp fuel store world (do
          let s ← formatter (.thunk t (litTag e)) formatIO
          pure (Res.str s))
        let evs' := evs ++ m.events.reverse
        let st' := starts ++ m.starts.reverse
        match m.status with
        | .done (.ok (.str s)) => go rest m.store m.world (s :: acc) evs' st'
        | .done (.ok _) => ⟨.bottom, m.world, m.store, evs', st', 0⟩
        | .done (.error err) => ⟨.err err (formatErr fuel m.store m.world err), m.world, m.store, evs', st', 0⟩
        | .limit => ⟨.limit, m.world, m.store, evs', st', 0⟩
        | .running => ⟨.fuel, m.world, m.store, evs', st', 0⟩
        | .bottom => ⟨.bottom, m.world, m.store, evs', st', 0⟩
        | .unmodelled why => ⟨.unmodelled why, m.world, m.store, evs', st', 0⟩
    go exprs initStore world [] [] []

/-- result of `cli.run` -/
inductive CliOutcome where
  | exit (code : Int)
  | err (e : ErrV) (formatted : String)
  | limit | fuel | bottom
  | unmodelled (why : String)
deriving Inhabited

/-- `cli.run(filename, program, argv)` -/
def runCli (fuel : Nat) (world : World) (text : List Nat) (argv : List String) : CliOutcome × World :=
  let cliSpan : Span := ⟨0, 0, 0⟩
  match parse normChar text with
  | .error pe =>
    let e := builtinErr .syntax pe.span
    (.err e (formatErr fuel initStore world e), world)
  | .ok [] => (.exit 0, world)
  | .ok [e] =>
    let (t, store) := allocCell initStore e
    -- phase 1: strict(value)
    let phase (store : Store) (world : World) (c : Comp Res) (k : Val → Store → World → CliOutcome × World) :
        CliOutcome × World :=
      let m := runComp fuel store world c
      match m.status with
      | .done (.ok (.arg (.strict v))) => k v m.store m.world
      | .done (.ok _) => (.bottom, m.world)
      | .done (.error err) => (.err err (formatErr fuel m.store m.world err), m.world)
      | .limit => (.limit, m.world)
      | .running => (.fuel, m.world)
      | .bottom => (.bottom, m.world)
      | .unmodelled why => (.unmodelled why, m.world)
    let strictC (a : Arg) : Comp Res := do let v ← Comp.forceArg a; pure (Res.arg (.strict v))
    let finish (v : Val) (store : Store) (world : World) : CliOutcome × World :=
      let last (v : Val) (store : Store) (world : World) : CliOutcome × World :=
        match v with
        | .int n => (.exit n, world)
        | .nil => (.exit 0, world)
        | _ => let e := typeErr cliSpan; (.err e (formatErr fuel store world e), world)
      match v with
      | .io _ _ _ _ => phase store world (do let a ← doIO v; let x ← Comp.forceArg a; pure (Res.arg (.strict x))) last
      | v => last v store world
    phase store world (strictC (.thunk t (litTag e))) (fun v store world =>
      match v with
      | .fn _ =>
        phase store world (do
            let a ← applyCallee v cliSpan (argv.map (fun s => Arg.strict (.str s)))
            let x ← Comp.forceArg a
            pure (Res.arg (.strict x))) finish
      | v => finish v store world)
  | .ok es =>
    let e : ErrV := ⟨es.map AST.span, []⟩
    (.err e (formatErr fuel initStore world e), world)

end UH
