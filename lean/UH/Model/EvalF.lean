/-
An executable big-step evaluator: the natural semantics `BigStep.Eval` (UH/Proofs/BigStep.lean) as a
function with fuel.  It returns the result, the final store and world, and the number of evaluator
frames the evaluation needed.  `UH/Proofs/EvalF.lean` proves that whatever it returns is derivable in
`Eval` — hence (soundness of `Eval`) is what the micro-step machine computes.  The driver exposes it
(`main2`), so the correspondence also compares the implementation with this second evaluator.
-/
import UH.Model.Machine
namespace UH

inductive Task where
  | comp (c : Comp Res)
  | frame (t : TId)

def setRequestor (s : Store) (t' : TId) (b : Option TId) : Store :=
  { s with cells := s.cells.modify t' (fun c => { c with requestor := b }) }

structure BigResult where
  res : Except ErrV Res
  store : Store
  world : World
  height : Nat

/-- why the evaluator stopped without a result -/
inductive BigStop where
  | fuel | bottom | unmodelled (why : String)

def evalF : Nat → Store → World → Task → Except BigStop BigResult
  | 0, _, _, _ => .error .fuel
  | fuel + 1, s, w, .comp c =>
    match c with
    | .ret r => .ok ⟨.ok r, s, w, 0⟩
    | .throw e => .ok ⟨.error e, s, w, 0⟩
    | .bottom => .error .bottom
    | .unmodelled why => .error (.unmodelled why)
    | .force t k ke =>
      match (s.getCell t).value with
      | some (.ok v) => evalF fuel s w (.comp (k v))
      | some (.error e) => evalF fuel s w (.comp (ke e))
      | none =>
        match evalF fuel s w (.frame t) with
        | .error st => .error st
        | .ok ⟨.ok (.arg (.strict v)), s1, w1, h1⟩ =>
          (match evalF fuel s1 w1 (.comp (k v)) with
           | .ok ⟨r, s2, w2, h2⟩ => .ok ⟨r, s2, w2, max h1 h2⟩
           | .error st => .error st)
        | .ok ⟨.error e, s1, w1, h1⟩ =>
          (match evalF fuel s1 w1 (.comp (ke e)) with
           | .ok ⟨r, s2, w2, h2⟩ => .ok ⟨r, s2, w2, max h1 h2⟩
           | .error st => .error st)
        | .ok _ => .error .bottom
    | .newThunk e env k =>
      evalF fuel { s with cells := s.cells.push { expr := e, env := env } } w (.comp (k s.cells.size))
    | .newFn mk k => evalF fuel { s with fns := s.fns.push (mk s.fns.size) } w (.comp (k s.fns.size))
    | .getFn id k =>
      match s.fns.get? id with
      | some o => evalF fuel s w (.comp (k o))
      | none => .error .bottom
    | .call op k ke =>
      match evalF fuel s w (.comp (expand op)) with
      | .error st => .error st
      | .ok ⟨.ok x, s1, w1, h1⟩ =>
        (match evalF fuel s1 w1 (.comp (k x)) with
         | .ok ⟨r, s2, w2, h2⟩ => .ok ⟨r, s2, w2, max h1 h2⟩
         | .error st => .error st)
      | .ok ⟨.error e, s1, w1, h1⟩ =>
        (match evalF fuel s1 w1 (.comp (ke e)) with
         | .ok ⟨r, s2, w2, h2⟩ => .ok ⟨r, s2, w2, max h1 h2⟩
         | .error st => .error st)
    | .world op k ke =>
      match doWorld s w op with
      | (s1, w1, .ok a) => evalF fuel s1 w1 (.comp (k a))
      | (s1, w1, .err e) => evalF fuel s1 w1 (.comp (ke e))
      | (_, _, .unmodelled why) => .error (.unmodelled why)
  | fuel + 1, s, w, .frame t =>
    match evalF fuel s w (.comp (newFrame s t).cur) with
    | .error st => .error st
    | .ok ⟨.ok (.arg (.strict v)), s1, w1, h1⟩ =>
      .ok ⟨.ok (.arg (.strict v)), s1.resolve (s1.cells.size + 1) t (.ok v), w1, h1 + 1⟩
    | .ok ⟨.error e, s1, w1, h1⟩ => .ok ⟨.error e, s1.resolve (s1.cells.size + 1) t (.error e), w1, h1 + 1⟩
    | .ok ⟨.ok (.arg (.thunk t' _)), s1, w1, h1⟩ =>
      (match evalF fuel (setRequestor s1 t' (some t)) w1 (.frame t') with
       | .ok ⟨r, s2, w2, h2⟩ => .ok ⟨r, s2, w2, max (h1 + 1) h2⟩
       | .error st => .error st)
    | .ok _ => .error .bottom

end UH
