/-
L2 — argument utilities (`pbhhg_py/utils.py`) and Python sequence helpers.
-/
import UH.Model.Comp
import UH.Model.Key
namespace UH
open Comp

/-! ### type predicates (the `isinstance` unions of abstract_syntax.py:397-404) -/
namespace Val
def isInteger : Val → Bool | .int _ => true | _ => false
def isReal : Val → Bool | .int _ | .float _ => true | _ => false
def isNumber : Val → Bool | .int _ | .float _ | .complex _ _ => true | _ => false
def isBoolean : Val → Bool | .bool _ => true | _ => false
def isString : Val → Bool | .str _ => true | _ => false
def isBytes : Val → Bool | .bytes _ => true | _ => false
def isList : Val → Bool | .list _ => true | _ => false
def isDict : Val → Bool | .dict _ => true | _ => false
def isErr : Val → Bool | .err _ _ => true | _ => false
def isIO : Val → Bool | .io _ _ _ _ => true | _ => false
def isFunction : Val → Bool | .fn _ => true | _ => false
def isNil : Val → Bool | .nil => true | _ => false
def isSequence (v : Val) : Bool := v.isList || v.isString || v.isBytes
/-- `AS.Callable` -/
def isCallable (v : Val) : Bool :=
  v.isFunction || v.isBoolean || v.isSequence || v.isDict || (match v with | .complex _ _ => true | _ => false) || v.isErr
end Val

def typeErr (sp : Span) : ErrV := builtinErr .type sp
def valueErr (sp : Span) : ErrV := builtinErr .value sp

/-- `utils.check_type` -/
def checkType (sp : Span) (vs : List Val) (p : Val → Bool) : Comp Unit :=
  if vs.all p then ret () else throw (typeErr sp)

/-- `utils.check_arity` -/
def checkArity (sp : Span) (n : Nat) (arities : List Nat) : Comp Unit :=
  if arities.contains n then ret () else throw (valueErr sp)

def checkMinArity (sp : Span) (n : Nat) (m : Nat) : Comp Unit :=
  if n < m then throw (valueErr sp) else ret ()

def checkMaxArity (sp : Span) (n : Nat) (m : Nat) : Comp Unit :=
  if n > m then throw (valueErr sp) else ret ()

/-- `utils.match_arguments(metadata, argv, types, arities)` -/
def matchArguments (sp : Span) (argv : List Arg) (p : Val → Bool) (arities : Option (List Nat) := none) :
    Comp (List Val) := do
  match arities with
  | some as => checkArity sp argv.length as
  | none => pure ()
  let vs ← forceAll argv
  checkType sp vs p
  pure vs

/-- `utils.match_defaults` on already evaluated items -/
def matchDefaults {α} (sp : Span) (argv : List α) (arity : Nat) (defaults : List α) : Comp (List α) := do
  checkMaxArity sp argv.length arity
  checkMinArity sp argv.length (arity - defaults.length)
  if argv.length < arity then
    let deficiency := arity - argv.length
    pure (argv ++ defaults.drop (defaults.length - deficiency))
  else pure argv

/-- `utils.strict_functional`: an integer-literal expression names a built-in without being
evaluated; anything else is evaluated and must be callable -/
def strictFunctional (sp : Span) (a : Arg) : Comp Val :=
  match a with
  | .thunk _ (some n) => ret (.builtin n)
  | _ => do
    let v ← forceArg a
    checkType sp [v] Val.isCallable
    pure v

/-! ### Python slicing -/

/-- indices selected by `seq[start:stop:step]` on a sequence of length `len` (`step ≠ 0`),
following `PySlice_AdjustIndices` -/
def sliceIndices (len : Nat) (start stop step : Int) : List Nat :=
  let n : Int := len
  let adj (i : Int) (lo hi : Int) : Int :=   -- clamp after adding len to negatives
    let i := if i < 0 then i + n else i
    if i < lo then lo else if i > hi then hi else i
  if step > 0 then
    let s := adj start 0 n
    let e := adj stop 0 n
    if s ≥ e then [] else
    let cnt := ((e - s - 1) / step + 1).toNat
    (List.range cnt).map (fun (k : Nat) => (s + (k : Int) * step).toNat)
  else
    let s := adj start (-1) (n - 1)
    let e := adj stop (-1) (n - 1)
    if s ≤ e then [] else
    let cnt := ((s - e - 1) / (-step) + 1).toNat
    (List.range cnt).map (fun (k : Nat) => (s + (k : Int) * step).toNat)

def pySlice {α} (l : List α) (start stop step : Int) : List α :=
  (sliceIndices l.length start stop step).filterMap (fun i => l[i]?)

/-! ### string / bytes helpers -/

/-- does `pat` occur at the head of `l`? -/
def isPrefix {α} [BEq α] : List α → List α → Bool
  | [], _ => true
  | _ :: _, [] => false
  | p :: ps, x :: xs => p == x && isPrefix ps xs

/-- Python `seq.split(delim)` for non-empty `delim` (non-overlapping, left to right) -/
def splitOn {α} [BEq α] (delim : List α) (l : List α) : List (List α) :=
  let rec go (fuel : Nat) (cur : List α) (rest : List α) : List (List α) :=
    match fuel with
    | 0 => [cur.reverse ++ rest]
    | fuel + 1 =>
      match rest with
      | [] => [cur.reverse]
      | x :: xs =>
        if isPrefix delim rest then cur.reverse :: go fuel [] (rest.drop delim.length)
        else go fuel (x :: cur) xs
  go (l.length + 1) [] l

/-- Python `delim.join(pieces)` -/
def joinWith {α} (delim : List α) : List (List α) → List α
  | [] => []
  | [p] => p
  | p :: ps => p ++ delim ++ joinWith delim ps

end UH
