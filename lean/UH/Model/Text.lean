/-
L0 — text normalisation and tokenizer (model of `pbhhg_py/parse.py:31-98`).

`normalize_char`/`normalize` are modelled *behaviourally*: the per-code-point
result is a run-length table regenerated from the implementation on every run
(`UH/Generated/NormTable.lean`); here we only define how a table is read and how
the tokenizer consumes the per-character symbol lists.
-/
namespace UH

/-- The alphabet after normalisation: the eight digit consonants ㄱㄴㄷㄹㅁㅂㅅㅈ
(`d 0 … d 7`), `ㅇ`, `ㅎ`, and the word separator. -/
inductive Sym where
  | d (n : Fin 8)
  | o
  | h
  | sp
deriving DecidableEq, Repr, Inhabited

namespace Sym
/-- compact numeric code used by generated tables and the line protocol -/
def code : Sym → Nat
  | d n => n.val
  | o => 8
  | h => 9
  | sp => 10

def ofCode (n : Nat) : Sym :=
  if h : n < 8 then d ⟨n, h⟩ else if n = 8 then o else if n = 9 then .h else sp

def isSp : Sym → Bool
  | sp => true
  | _ => false
end Sym

/-- One run of a normalisation table: code points `lo … hi` (inclusive) all
normalise to `syms`. -/
structure Run where
  lo : Nat
  hi : Nat
  syms : List Sym
deriving DecidableEq, Repr

/-- Reading a table: the first run containing `c`, or a lone separator (the
behaviour of every character outside the listed runs). -/
def lookupRuns : List Run → Nat → List Sym
  | [], _ => [Sym.sp]
  | r :: rs, c => if r.lo ≤ c ∧ c ≤ r.hi then r.syms else lookupRuns rs c

/-- source position of one token: line, first column, one-past-last column
(columns count characters of the source line) -/
structure Span where
  line : Nat
  startCol : Nat
  endCol : Nat
deriving DecidableEq, Repr, Inhabited

structure Token where
  syms : List Sym
  span : Span
deriving DecidableEq, Repr

/-- split a code-point list at '\n' (Python `str.split("\n")`) -/
def splitLines : List Nat → List (List Nat)
  | [] => [[]]
  | c :: cs =>
    match splitLines cs with
    | [] => [[]]   -- unreachable
    | l :: ls => if c = 10 then [] :: l :: ls else (c :: l) :: ls

section
variable (norm : Nat → List Sym)

/-- symbols of one line (`line + "\n"`), each tagged with its character's span -/
def lineSyms (i : Nat) (line : List Nat) : List (Sym × Span) :=
  let rec go (j : Nat) : List Nat → List (Sym × Span)
    | [] => []
    | c :: cs => (norm c).map (fun s => (s, ⟨i, j, j + 1⟩)) ++ go (j + 1) cs
  go 0 (line ++ [10])

def linesSyms : Nat → List (List Nat) → List (Sym × Span)
  | _, [] => []
  | i, l :: ls => lineSyms norm i l ++ linesSyms (i + 1) ls

def textSyms (text : List Nat) : List (Sym × Span) :=
  linesSyms norm 0 (splitLines text)
end

/-- the merge loop of `tokenize`: `cur` is the token being built -/
def tokenizeGo : Option Token → List (Sym × Span) → List Token
  | none, [] => []
  | some t, [] => [t]
  | none, (s, sp) :: xs =>
      if s.isSp then tokenizeGo none xs else tokenizeGo (some ⟨[s], sp⟩) xs
  | some t, (s, sp) :: xs =>
      if s.isSp then t :: tokenizeGo none xs
      else tokenizeGo (some ⟨t.syms ++ [s], ⟨t.span.line, t.span.startCol, sp.endCol⟩⟩) xs

def tokenizeSyms (xs : List (Sym × Span)) : List Token := tokenizeGo none xs

def tokenize (norm : Nat → List Sym) (text : List Nat) : List Token :=
  tokenizeSyms (textSyms norm text)

end UH
