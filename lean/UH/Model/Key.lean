/-
L1 — canonical keys: equality (`ㄴ`) and dictionary keying.
-/
import UH.Model.Num
namespace UH

namespace NumKey
def encode : NumKey → List Nat
  | .fin n e => [0, (if n < 0 then 1 else 0), n.natAbs, e]
  | .pinf => [1]
  | .ninf => [2]
  | .nan => [3]
end NumKey

def IOInst.code : IOInst → Nat
  | .input => 0 | .print => 1 | .ret => 2 | .bind => 3 | .fopen => 4
  | .fclose => 5 | .fread => 6 | .fwrite => 7 | .fseek => 8 | .ftrunc => 9

mutual
/-- injective, prefix-free serialisation (used only to order dictionary entries canonically) -/
def Key.encode : Key → List Nat
  | .num r i => 0 :: (r.encode ++ i.encode)
  | .bool b => [1, if b then 1 else 0]
  | .str s => 2 :: s.length :: s.toList.map Char.toNat
  | .bytes b => 3 :: b.length :: b.map UInt8.toNat
  | .nil => [4]
  | .list ks => 5 :: ks.length :: Key.encodeList ks
  | .err ks => 6 :: ks.length :: Key.encodeList ks
  | .dict kvs => 7 :: kvs.length :: Key.encodePairs kvs
  | .io inst ks => 8 :: inst.code :: ks.length :: Key.encodeList ks
  | .fn f => [9, f]
def Key.encodeList : List Key → List Nat
  | [] => []
  | k :: ks => Key.encode k ++ Key.encodeList ks
def Key.encodePairs : List (Key × Key) → List Nat
  | [] => []
  | (a, b) :: r => Key.encode a ++ Key.encode b ++ Key.encodePairs r
end

mutual
def Key.beq : Key → Key → Bool
  | .num r i, .num r' i' => r == r' && i == i'
  | .bool a, .bool b => a == b
  | .str a, .str b => a == b
  | .bytes a, .bytes b => a == b
  | .nil, .nil => true
  | .list a, .list b => Key.beqList a b
  | .err a, .err b => Key.beqList a b
  | .dict a, .dict b => Key.beqPairs a b
  | .io i a, .io j b => i == j && Key.beqList a b
  | .fn a, .fn b => a == b
  | _, _ => false
def Key.beqList : List Key → List Key → Bool
  | [], [] => true
  | a :: as, b :: bs => Key.beq a b && Key.beqList as bs
  | _, _ => false
def Key.beqPairs : List (Key × Key) → List (Key × Key) → Bool
  | [], [] => true
  | (a, a') :: as, (b, b') :: bs => Key.beq a b && Key.beq a' b' && Key.beqPairs as bs
  | _, _ => false
end

instance : BEq Key := ⟨Key.beq⟩

/-- lexicographic `<` on serialisations -/
def natListLt : List Nat → List Nat → Bool
  | [], [] => false
  | [], _ :: _ => true
  | _ :: _, [] => false
  | a :: as, b :: bs => a < b || (a == b && natListLt as bs)

/-- insert a (key, value-key) pair into a list sorted by key serialisation -/
def insertPair (p : Key × Key) : List (Key × Key) → List (Key × Key)
  | [] => [p]
  | q :: r => if natListLt (p.1.encode ++ p.2.encode) (q.1.encode ++ q.2.encode) then p :: q :: r
              else q :: insertPair p r

/-- canonical order of the (key, value-key) set of a dictionary -/
def sortPairs (l : List (Key × Key)) : List (Key × Key) := l.foldr insertPair []

/-- `Dict.__init__` (after the de-duplication fix): a later equal key replaces the earlier
entry's value and original key, keeping the earlier position (Python `dict` semantics) -/
def dictInsert (tbl : List (Val × Key × Arg)) (e : Val × Key × Arg) : List (Val × Key × Arg) :=
  match tbl with
  | [] => [e]
  | x :: r => if x.2.1 == e.2.1 then e :: r else x :: dictInsert r e

def dictBuild (entries : List (Val × Key × Arg)) : List (Val × Key × Arg) :=
  entries.foldl dictInsert []

def dictLookup (tbl : List (Val × Key × Arg)) (k : Key) : Option Arg :=
  match tbl with
  | [] => none
  | x :: r => if x.2.1 == k then some x.2.2 else dictLookup r k

end UH
