/-
L2 — powers, numeric ↔ string conversions (`str(x)`, `int(s, base)`, `float(s)`), name tables.
-/
import UH.Model.Num
namespace UH

/-- literal spellings of the six open modes of `ㄱㄴ` (`io._MODE_TABLE`), as digit words:
ㄹ, ㅈㄹ, ㅈㄱ, ㄹㅈㄹ, ㅈㄹㄹ, ㅈㄱㄹ -/
def fileModes : List (List Digit) := [[3], [7, 3], [7, 0], [3, 7, 3], [7, 3, 3], [7, 0, 3]]

namespace F64
def one : F64 := ofFloat 1.0
def isOddInt (x : F64) : Bool :=
  isFinite x && (exp2 x ≤ 0) && (let k := (-(exp2 x)).toNat; mant x % 2 ^ k == 0 && (mant x / 2 ^ k) % 2 == 1)
  || (isFinite x && exp2 x == 0 && mant x % 2 == 1)
def isIntegral (x : F64) : Bool :=
  isFinite x && (exp2 x ≥ 0 || mant x % 2 ^ (-(exp2 x)).toNat == 0)
end F64

/-- CPython `float_pow` -/
def floatPow (iv iw : F64) : NumM Num :=
  open F64 in
  if isZero iw then .ok (.float one)
  else if isNaN iv then .ok (.float iv)
  else if isNaN iw then .ok (.float (if F64.eq iv one then one else nan))
  else if isInf iw then
    let a := abs iv
    if F64.eq a one then .ok (.float one)
    else if (!signBit iw) == F64.lt one a then .ok (.float (inf false))
    else .ok (.float zero)
  else if isInf iv then
    let odd := isOddInt iw
    if !signBit iw then .ok (.float (if odd then iv else abs iv))
    else .ok (.float (if odd then (if signBit iv then negZero else zero) else zero))
  else if isZero iv then
    if signBit iw then .error (.cls .division)
    else .ok (.float (if isOddInt iw then iv else zero))
  else
    let negBase := signBit iv
    if negBase && !isIntegral iw then .error (.unmodelled "negative ** fractional (complex result)")
    else
      let negate := negBase && isOddInt iw
      let a := abs iv
      if F64.eq a one then .ok (.float (if negate then neg one else one))
      else
        let r := powHost a iw
        if isInf r then .error (.cls .arithmetic)     -- OverflowError (fix F1)
        else .ok (.float (if negate then neg r else r))

/-- Python `base ** exponent` -/
def Num.pow (b e : Num) : NumM Num :=
  match b, e with
  | .int b, .int e =>
    if 0 ≤ e then
      if e > 100000 ∧ b.natAbs > 1 then .error (.unmodelled "huge integer power") else .ok (.int (b ^ e.toNat))
    else if b = 0 then .error (.cls .division)
    else do
      let x ← Num.intToF b
      let y ← Num.intToF e
      floatPow x y
  | .complex _ _, _ | _, .complex _ _ => .error (.unmodelled "complex power")
  | x, y => do
    let a ← x.toF
    let c ← y.toF
    floatPow a c

/-- correctly rounded `a / b` of integers; `none` = ZeroDivisionError / OverflowError -/
def intTrueDiv (a b : Int) : Option F64 :=
  if b = 0 then none else F64.roundRat ((a < 0) != (b < 0)) a.natAbs b.natAbs

/-! ### `Complex.__str__` -/

/-- `_to_int_if_possible`: `some n` when the float prints as the integer `n` -/
def toIntIfPossible (x : F64) : Option Int :=
  open F64 in
  if !isFinite x then none else
  let n := truncInt x
  match ofInt n with
  | none => none
  | some b =>
    -- math.isclose(x, b, rel_tol=1e-09, abs_tol=1e-16)
    let diff := abs (sub b x)
    let tol := mul (ofFloat 1e-09) (if F64.lt (abs x) (abs b) then abs b else abs x)
    let tol := if F64.lt tol (ofFloat 1e-16) then ofFloat 1e-16 else tol
    if F64.eq x b || !(F64.lt tol diff) then some n else none

def complexStr (re im : F64) : String :=
  open F64 in
  let reI := toIntIfPossible re
  let imI := toIntIfPossible im
  let imNeg : Bool := match imI with | some n => n < 0 | none => F64.lt im zero
  let reStr : String := match reI with | some n => toString n | none => pyRepr re
  let reTruthy : Bool := match reI with | some n => n != 0 | none => !(isZero re)
  let imAbsIsOne : Bool := match imI with | some n => n.natAbs == 1 | none => F64.eq (abs im) one
  let imAbsStr : String := match imI with | some n => toString n.natAbs | none => pyRepr (abs im)
  (if reTruthy then reStr ++ (if imNeg then "" else "+") else "")
    ++ (if imNeg then "-" else "") ++ (if imAbsIsOne then "" else imAbsStr) ++ "i"

/-! ### string → number -/

def isPyspace (c : Char) : Bool :=
  c == ' ' || c == '\t' || c == '\n' || c == '\r' || c.toNat == 0x0b || c.toNat == 0x0c
  || c.toNat == 0x1c || c.toNat == 0x1d || c.toNat == 0x1e || c.toNat == 0x1f || c.toNat == 0x85
  || c.toNat == 0xa0 || c.toNat == 0x1680 || (0x2000 ≤ c.toNat && c.toNat ≤ 0x200a)
  || c.toNat == 0x2028 || c.toNat == 0x2029 || c.toNat == 0x202f || c.toNat == 0x205f || c.toNat == 0x3000

/-- `str.strip()` -/
def pyStrip (s : String) : String :=
  String.ofList ((s.toList.dropWhile isPyspace).reverse.dropWhile isPyspace).reverse

def digitVal (c : Char) : Option Nat :=
  if '0' ≤ c ∧ c ≤ '9' then some (c.toNat - 48)
  else if 'a' ≤ c ∧ c ≤ 'z' then some (c.toNat - 97 + 10)
  else if 'A' ≤ c ∧ c ≤ 'Z' then some (c.toNat - 65 + 10)
  else none

/-- digits of `base` with single underscores allowed between digits (and, when `lead`, one
leading underscore after a base prefix); `none` if malformed or empty -/
def parseDigits (base : Nat) (lead : Bool) (cs : List Char) : Option Nat :=
  let rec go (cs : List Char) (acc : Nat) (prevDigit : Bool) (any : Bool) : Option Nat :=
    match cs with
    | [] => if prevDigit && any then some acc else none
    | c :: r =>
      if c == '_' then (if prevDigit then go r acc false any else none)
      else match digitVal c with
        | some d => if d < base then go r (acc * base + d) true true else none
        | none => none
  match cs with
  | '_' :: r => if lead then go r 0 false false else none
  | _ => go cs 0 false false

/-- optional sign of a numeric literal -/
def intSign (cs : List Char) : Bool × List Char :=
  match cs with
  | '-' :: r => (true, r)
  | '+' :: r => (false, r)
  | r => (false, r)

/-- base prefix `0x` / `0o` / `0b`, accepted when the base is that base or 0 -/
def intPrefix (b : Nat) (cs : List Char) : Option (Nat × List Char) :=
  match cs with
  | '0' :: x :: r =>
    if (x == 'x' || x == 'X') && (b == 16 || b == 0) then some (16, r)
    else if (x == 'o' || x == 'O') && (b == 8 || b == 0) then some (8, r)
    else if (x == 'b' || x == 'B') && (b == 2 || b == 0) then some (2, r)
    else none
  | _ => none

/-- magnitude of an unsigned literal in base `b` (0 = by prefix, decimal without leading zeros) -/
def intMag (b : Nat) (cs : List Char) : Option Nat :=
  match intPrefix b cs with
  | some (pb, r) => parseDigits pb true r
  | none =>
    if b == 0 then
      match parseDigits 10 false cs with
      | some n => (match cs with | '0' :: _ => if n == 0 then some 0 else none | _ => some n)
      | none => none
    else parseDigits b false cs

/-- Python `int(s, base)`; `none` = `ValueError` -/
def pyIntOfString (s : String) (base : Int) : Option Int :=
  if base ≠ 0 ∧ (base < 2 ∨ base > 36) then none else
  let (neg, cs) := intSign (pyStrip s).toList
  (intMag base.toNat cs).map (fun n => if neg then -(n : Int) else (n : Int))

def lowerAscii (cs : List Char) : List Char :=
  cs.map (fun c => if 'A' ≤ c ∧ c ≤ 'Z' then Char.ofNat (c.toNat + 32) else c)

/-- decimal digits with single underscores between digits; returns (value, count) -/
def parseDecRun (cs : List Char) : Option (Nat × Nat × List Char) :=
  let rec go (cs : List Char) (acc cnt : Nat) (prevDigit : Bool) : Option (Nat × Nat × List Char) :=
    match cs with
    | c :: r =>
      if '0' ≤ c ∧ c ≤ '9' then go r (acc * 10 + (c.toNat - 48)) (cnt + 1) true
      else if c == '_' then
        (match r with
         | d :: _ => if prevDigit && decide ('0' ≤ d ∧ d ≤ '9') then go r acc cnt false else none
         | [] => none)
      else some (acc, cnt, c :: r)
    | [] => some (acc, cnt, [])
  go cs 0 0 false

/-- Python `float(s)`; `none` = `ValueError` -/
def pyFloatOfString (s : String) : Option F64 :=
  let cs := (pyStrip s).toList
  let (neg, cs) := match cs with
    | '-' :: r => (true, r)
    | '+' :: r => (false, r)
    | r => (false, r)
  let low := lowerAscii cs
  if low == "inf".toList || low == "infinity".toList then some (F64.inf neg)
  else if low == "nan".toList then some (if neg then F64.pack true 2047 (2 ^ 51) else F64.nan)
  else
    match parseDecRun cs with
    | none => none
    | some (ip, icnt, rest) =>
      let fracPart : Option (Nat × Nat × List Char) := match rest with
        | '.' :: r =>
          (match r with
           | '_' :: _ => none
           | _ => parseDecRun r)
        | r => some (0, 0, r)
      match fracPart with
      | none => none
      | some (fp, fcnt, rest) =>
        if icnt + fcnt = 0 then none else
        let expPart : Option (Int × List Char) := match rest with
          | e :: r =>
            if e == 'e' || e == 'E' then
              let (eneg, r) := match r with
                | '-' :: r' => (true, r')
                | '+' :: r' => (false, r')
                | r' => (false, r')
              match parseDecRun r with
              | some (ev, ecnt, r'') => if ecnt = 0 then none else some ((if eneg then -(ev : Int) else ev), r'')
              | none => none
            else some (0, e :: r)
          | [] => some (0, [])
        match expPart with
        | none => none
        | some (ex, rest) =>
          if !rest.isEmpty then none else
          let mantissa := ip * 10 ^ fcnt + fp
          let e10 : Int := ex - fcnt
          if mantissa = 0 then some (F64.pack neg 0 0)
          else
            let nd : Int := (Nat.toDigits 10 mantissa).length
            if e10 + nd > 400 then some (F64.inf neg)
            else if e10 + nd < -400 then some (F64.pack neg 0 0)
            else match F64.ofDecimal neg mantissa e10 with
              | some f => some f
              | none => some (F64.inf neg)

end UH
