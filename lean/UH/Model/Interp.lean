/-
L3 — `interpret`, `proc_functional`, built-in modules, `recursive_strict`,
`as_key`, `main.formatter`, `main.do_IO`: the one-layer expansion of every
sub-coroutine.
-/
import UH.Model.Builtins
import UH.Model.Codec
namespace UH
open Comp

/-! ## name tables -/

def w (ds : List Digit) : Int := parseNumber ds

/-- the built-in function table `interpret.BUITLINS`, keyed by the value of the name literal -/
def builtinNames : List (List Digit) :=
  [[0], [2], [6], [1,1], [1,4],                                  -- ㄱ ㄷ ㅅ ㄴㄴ ㄴㅁ
   [2,5], [4,3], [4,7], [5,0], [5,6], [6,6], [6,7], [7,6],       -- ㄷㅂ ㅁㄹ ㅁㅈ ㅂㄱ ㅂㅅ ㅅㅅ ㅅㅈ ㅈㅅ
   [2,7], [6,2],                                                  -- ㄷㅈ ㅅㄷ
   [1,0], [4,5], [5,5],                                           -- ㄴㄱ ㅁㅂ ㅂㅂ
   [3], [7,3], [0,6], [0,3], [0,1],                               -- ㄹ ㅈㄹ ㄱㅅ ㄱㄹ ㄱㄴ
   [1], [4], [7], [7,7], [0,7],                                   -- ㄴ ㅁ ㅈ ㅈㅈ ㄱㅈ
   [5],                                                           -- ㅂ
   [7,2], [5,7], [4,2], [6,5], [6,3],                             -- ㅈㄷ ㅂㅈ ㅁㄷ ㅅㅂ ㅅㄹ
   [5,3], [0,4]]                                                  -- ㅂㄹ ㄱㅁ

/-- `find_builtin`: a literal names a built-in iff its canonical spelling is in the table -/
def isBuiltinName (n : Int) : Bool := builtinNames.contains (encodeNumber n)

def builtinOf (n : Int) : Option Builtin :=
  let e := encodeNumber n
  if e = [0] then some bMultiply else if e = [2] then some bAdd else if e = [6] then some bExponentiate
  else if e = [1,1] then some bIntegerDivision else if e = [1,4] then some bRemainder
  else if e = [2,5] then some bException else if e = [4,3] then some bList else if e = [4,7] then some bString
  else if e = [5,0] then some bNil else if e = [5,6] then some bComplex else if e = [6,6] then some bFloat
  else if e = [6,7] then some bDict else if e = [7,6] then some bInteger
  else if e = [2,7] then some bThrow else if e = [6,2] then some (bTry isBuiltinName)
  else if e = [1,0] then some (bPipe isBuiltinName) else if e = [4,5] then some (bCollect isBuiltinName)
  else if e = [5,5] then some (bSpread isBuiltinName)
  else if e = [3] then some bInput else if e = [7,3] then some bPrint else if e = [0,6] then some bReturn
  else if e = [0,3] then some (bBind isBuiltinName) else if e = [0,1] then some bFile
  else if e = [1] then some bEquals else if e = [4] then some bNegate else if e = [7] then some bLessThan
  else if e = [7,7] then some bTrue else if e = [0,7] then some bFalse
  else if e = [5] then some bImport
  else if e = [7,2] then some bLen else if e = [5,7] then some bSlice else if e = [4,2] then some (bMap isBuiltinName)
  else if e = [6,5] then some (bFilter isBuiltinName) else if e = [6,3] then some (bFold isBuiltinName)
  else if e = [5,3] then some bSplit else if e = [0,4] then some bJoin
  else none

/-! ## built-in modules (`pbhhg_py/modules/*.py`) -/

/-- paths (values of the name literals after the leading `ㅂ`) of the built-in module functions,
in a fixed order: their index is their function identity in the initial store -/
def bmodPaths : List (List Int) :=
  [[w [5,2], w [0]], [w [5,2], w [2]], [w [5,2], w [4]], [w [5,2], w [5]], [w [5,2], w [7]],   -- ㅂㄷ: ㄱ ㄷ ㅁ ㅂ ㅈ
   [w [5]],                                                                                      -- ㅂ (codec)
   [w [6], w [0]], [w [6], w [1,1]], [w [6], w [4,1]], [w [6], w [7,2]], [w [6], w [3,0]],      -- ㅅ: ㄱ ㄴㄴ ㅁㄴ ㅈㄷ ㄹㄱ
   [w [6], w [6,1]], [w [6], w [1,6]], [w [6], w [0,6]], [w [6], w [6,0]], [w [6], w [2,1]],    --    ㅅㄴ ㄴㅅ ㄱㅅ ㅅㄱ ㄷㄴ
   [w [6], w [1,2]],                                                                             --    ㄴㄷ
   [w [6], w [5,3], w [0]], [w [6], w [5,3], w [1]], [w [6], w [5,3], w [2]],                   --    ㅂㄹ: ㄱ ㄴ ㄷ
   [w [6], w [5,3], w [3]], [w [6], w [5,3], w [4]]]                                            --         ㄹ ㅁ

def bmodId (path : List Int) : Option FId := bmodPaths.idxOf? path

def intKey (n : Int) : Key := (Num.int n).key

def dictOfEntries (es : List (Int × Val)) : Val :=
  .dict (es.map (fun (k, v) => (Val.int k, intKey k, Arg.strict v)))

def bmodFn (path : List Int) : Val := .fn ((bmodId path).getD 0)

/-- constants of the math module: pi, e, inf, nan (bit patterns of `math.pi` … ) -/
def mathPi : F64 := ⟨0x400921FB54442D18⟩
def mathE : F64 := ⟨0x4005BF0A8B145769⟩

def roundingDict : Val :=
  dictOfEntries [(w [0], bmodFn [w [6], w [5,3], w [0]]), (w [1], bmodFn [w [6], w [5,3], w [1]]),
    (w [2], bmodFn [w [6], w [5,3], w [2]]), (w [3], bmodFn [w [6], w [5,3], w [3]]),
    (w [4], bmodFn [w [6], w [5,3], w [4]])]

def mathDict : Val :=
  dictOfEntries [(w [5], .float mathPi), (w [7], .float mathE), (w [4], .float (F64.inf false)),
    (w [1], .float F64.nan),
    (w [0], bmodFn [w [6], w [0]]), (w [1,1], bmodFn [w [6], w [1,1]]), (w [4,1], bmodFn [w [6], w [4,1]]),
    (w [7,2], bmodFn [w [6], w [7,2]]), (w [3,0], bmodFn [w [6], w [3,0]]), (w [6,1], bmodFn [w [6], w [6,1]]),
    (w [1,6], bmodFn [w [6], w [1,6]]), (w [0,6], bmodFn [w [6], w [0,6]]), (w [6,0], bmodFn [w [6], w [6,0]]),
    (w [2,1], bmodFn [w [6], w [2,1]]), (w [1,2], bmodFn [w [6], w [1,2]]), (w [5,3], roundingDict)]

def bitwiseDict : Val :=
  dictOfEntries [(w [0], bmodFn [w [5,2], w [0]]), (w [2], bmodFn [w [5,2], w [2]]),
    (w [4], bmodFn [w [5,2], w [4]]), (w [5], bmodFn [w [5,2], w [5]]), (w [7], bmodFn [w [5,2], w [7]])]

/-- `_BUITLIN_MODULE_REGISTRY` -/
def bmodRegistry : List (Int × Val) :=
  [(w [5,2], bitwiseDict), (w [5], bmodFn [w [5]]), (w [6], mathDict)]

/-- `_load_from_literal` for `literals[0] == 5`: walk the directory dictionaries -/
def loadBuiltinModule (sp : Span) (lits : List Int) : Except ErrV Val :=
  let notFound : ErrV := builtinErr .notFound sp
  let last := lits.getLast?.getD 5
  let dirs := (lits.drop 1).dropLast
  let rec walk (cur : List (Int × Val)) : List Int → Except ErrV (List (Int × Val))
    | [] => .ok cur
    | i :: r =>
      match cur.lookup i with
      | some (.dict t) =>
        walk (t.filterMap (fun (k, _, v) => match k, v with | .int n, .strict v => some (n, v) | _, _ => none)) r
      | _ => .error notFound
  match walk bmodRegistry dirs with
  | .error e => .error e
  | .ok m => match m.lookup last with
    | some v => .ok v
    | none => .error notFound

/-- bitwise module: `_wrap(op, arity)` -/
def bBitwise (op : List Int → Option Int) (arity : Nat) : Builtin := fun sp argv => do
  let vs ← matchArguments sp argv Val.isInteger (some [arity])
  match op (vs.filterMap (fun v => match v with | .int n => some n | _ => none)) with
  | some r => retV (.int r)
  | none => bottom

/-- math module rounding: `_wrap(fn, 1, AS.Real, AS.Integer)` -/
def bRounding (f : F64 → Int) : Builtin := fun sp argv => do
  let vs ← matchArguments sp argv Val.isReal (some [1])
  match vs with
  | [.int n] => retV (.int n)
  | [.float x] =>
    if F64.isInf x then throw (builtinErr .arithmetic sp)      -- OverflowError (fix F1)
    else if F64.isNaN x then throw (valueErr sp)               -- ValueError (fix F1)
    else retV (.int (f x))
  | _ => bottom

def hostFn1 (f : Float → Float) (x : F64) : F64 := F64.ofFloat (f (F64.toFloat x))

/-- `_wrap2(real_fn, complex_fn)`; `dom` = the real function's domain (outside: complex result) -/
def bMath1 (f : Float → Float) (dom : F64 → Bool) : Builtin := fun sp argv => do
  let vs ← matchArguments sp argv Val.isNumber (some [1])
  match vs with
  | [.complex _ _] => unmodelled "cmath function"
  | [v] =>
    match Num.ofVal? v with
    | some n =>
      match n.toF with
      | .ok x =>
        if F64.isNaN x then retV (.float x)
        else if dom x then retV (.float (hostFn1 f x)) else unmodelled "cmath function (domain)"
      | .error _ => unmodelled "math function of huge int"
    | none => bottom
  | _ => bottom

def bmodCall (path : List Int) : Builtin :=
  let two (f : Int → Int → Int) : List Int → Option Int := fun l => match l with | [a, b] => some (f a b) | _ => none
  if path = [w [5,2], w [0]] then bBitwise (two bitAnd) 2
  else if path = [w [5,2], w [2]] then bBitwise (two bitOr) 2
  else if path = [w [5,2], w [4]] then bBitwise (fun l => match l with | [a] => some (bitNot a) | _ => none) 1
  else if path = [w [5,2], w [5]] then bBitwise (two bitXor) 2
  else if path = [w [5,2], w [7]] then fun sp argv => do
    let vs ← matchArguments sp argv Val.isInteger (some [2])
    match vs with
    | [.int x, .int n] =>
      if n.natAbs > 100000 then unmodelled "huge shift" else retV (.int (shiftLeft x n))
    | _ => bottom
  else if path = [w [6], w [5,3], w [0]] then bRounding F64.truncInt
  else if path = [w [6], w [5,3], w [1]] then bRounding F64.floorInt
  else if path = [w [6], w [5,3], w [2]] then bRounding F64.roundInt
  else if path = [w [6], w [5,3], w [3]] then bRounding F64.ceilInt
  else if path = [w [6], w [5,3], w [4]] then bRounding F64.awayInt
  else if path = [w [6], w [1,1]] then fun sp argv => do     -- isnan
    let vs ← matchArguments sp argv Val.isNumber (some [1])
    match vs with
    | [.int n] => do let _ ← liftNum sp (Num.intToF n); retV (.bool false)
    | [.float x] => retV (.bool (F64.isNaN x))
    | [.complex r i] => retV (.bool (F64.isNaN r || F64.isNaN i))
    | _ => bottom
  else if path = [w [6], w [4,1]] then fun sp argv => do     -- isinf
    let vs ← matchArguments sp argv Val.isNumber (some [1])
    match vs with
    | [.int n] => do let _ ← liftNum sp (Num.intToF n); retV (.bool false)
    | [.float x] => retV (.bool (F64.isInf x))
    | [.complex r i] => retV (.bool (F64.isInf r || F64.isInf i))
    | _ => bottom
  else if path = [w [6], w [7,2]] then fun sp argv => do     -- abs
    let vs ← matchArguments sp argv Val.isNumber (some [1])
    match vs with
    | [.int n] => retV (.int n.natAbs)
    | [.float x] => retV (.float (F64.abs x))
    | [.complex _ _] => unmodelled "abs(complex)"
    | _ => bottom
  else if path = [w [6], w [6,1]] then bMath1 Float.sin (fun x => !F64.isInf x)
  else if path = [w [6], w [0,6]] then bMath1 Float.cos (fun x => !F64.isInf x)
  else if path = [w [6], w [2,1]] then bMath1 Float.tan (fun x => !F64.isInf x)
  else if path = [w [6], w [1,6]] then bMath1 Float.asin (fun x => !(F64.lt (F64.ofFloat 1.0) (F64.abs x)))
  else if path = [w [6], w [6,0]] then bMath1 Float.acos (fun x => !(F64.lt (F64.ofFloat 1.0) (F64.abs x)))
  else if path = [w [6], w [3,0]] then fun sp argv => do     -- log
    let vs ← matchArguments sp argv Val.isNumber (some [1])
    match vs with
    | [.float x] =>
      if F64.isNaN x then retV (.float x)
      else if F64.isZero x then throw (valueErr sp)        -- cmath.log(0) ValueError (fix F1)
      else if F64.signBit x then unmodelled "cmath.log"
      else retV (.float (hostFn1 Float.log x))
    | [.int n] =>
      if n = 0 then throw (valueErr sp)
      else if n < 0 then unmodelled "cmath.log"
      else (match F64.ofInt n with
        | some x => retV (.float (hostFn1 Float.log x))
        | none => unmodelled "log of huge int")
    | [.complex _ _] => unmodelled "cmath.log"
    | _ => bottom
  else if path = [w [6], w [1,2]] then fun sp argv => do     -- atan / atan2
    if argv.length = 2 then do
      let vs ← matchArguments sp argv Val.isReal (some [2])
      match vs.map Num.ofVal? with
      | [some a, some b] => do
        let x ← liftNum sp a.toF
        let y ← liftNum sp b.toF
        retV (.float (F64.ofFloat (Float.atan2 (F64.toFloat x) (F64.toFloat y))))
      | _ => bottom
    else bMath1 Float.atan (fun _ => true) sp argv
  else if path = [w [6], w [0]] then fun sp argv => do      -- isclose
    let vs ← matchArguments sp argv Val.isNumber (some [2])
    match vs.map Num.ofVal? with
    | [some a, some b] =>
      match a, b with
      | .complex _ _, _ | _, .complex _ _ => unmodelled "isclose(complex)"
      | _, _ => do
        let x ← liftNum sp a.toF
        let y ← liftNum sp b.toF
        if F64.eq x y then retV (.bool true)
        else if F64.isInf x || F64.isInf y || F64.isNaN x || F64.isNaN y then retV (.bool false)
        else
          let diff := F64.abs (F64.sub y x)
          let ok (t : F64) : Bool := !(F64.lt t diff)     -- diff ≤ t
          retV (.bool (ok (F64.mul (F64.ofFloat 1e-09) (F64.abs y)) || ok (F64.mul (F64.ofFloat 1e-09) (F64.abs x))
            || ok (F64.ofFloat 1e-16)))
    | _ => bottom
  else if path = [w [5]] then fun sp argv => do             -- codec constructor `_codec`
    checkArity sp argv.length [2, 3]
    let vs ← forceAll argv
    match vs with
    | scheme :: nb :: rest => do
      checkType sp [scheme, nb] Val.isInteger
      match scheme, nb with
      | .int s, .int n =>
        -- CODEC_TBL[scheme], 0 ≤ scheme < 4
        match (if 0 ≤ s ∧ s < 4 then some s.toNat else none) with
        | none => throw (valueErr sp)
        | some sc => do
          let be ← match rest with
            | [] => pure none
            | b :: _ => do checkType sp [b] Val.isBoolean; match b with | .bool x => pure (some x) | _ => bottom
          newFn (fun _ => .codec sc n be) (fun f => retV (.fn f))
      | _, _ => bottom
    | _ => bottom
  else fun _ _ => bottom

/-- `Codec.__call__` -/
def codecCall (scheme : Nat) (numBytes : Int) (bigEndian : Option Bool) : Builtin := fun sp argv => do
  let vs ← forceAll argv
  match vs with
  | [arg] =>
    if scheme = 0 then do
      checkType sp [arg] (fun v => v.isString || v.isBytes)
      if numBytes < 0 then throw (valueErr sp) else
      match arg with
      | .str s =>
        match utfEncode numBytes.toNat bigEndian (s.toList.map Char.toNat) with
        | some b => retV (.bytes b)
        | none => throw (valueErr sp)
      | .bytes b =>
        match utfDecode numBytes.toNat bigEndian b with
        | some cs => retV (.str (String.ofList (cs.map Char.ofNat)))
        | none => throw (valueErr sp)
      | _ => bottom
    else if scheme = 1 ∨ scheme = 2 then do
      checkType sp [arg] (fun v => v.isInteger || v.isBytes)
      let big := bigEndian.getD false
      match arg with
      | .int n =>
        if numBytes < 0 then throw (valueErr sp) else
        if numBytes > 100000 then unmodelled "huge width" else
        match intToBytes n numBytes.toNat big (scheme = 2) with
        | some b => retV (.bytes b)
        | none => throw (valueErr sp)
      | .bytes b => retV (.int (bytesToInt b big (scheme = 2)))
      | _ => bottom
    else throw (valueErr sp)          -- "float": NotImplementedError → ValueError
  | _ => throw (valueErr sp)          -- wrong argument count: Python TypeError → ValueError

/-! ## file objects (`io.File.__call__`) -/

def fileCall (f : FId) : Builtin := fun sp argv => do
  checkMinArity sp argv.length 1
  match argv.getLast? with
  | none => bottom
  | some cmdA => do
    let cmd ← forceArg cmdA
    checkType sp [cmd] Val.isInteger
    match cmd with
    | .int c =>
      let e := encodeNumber c
      if e = [2] then do                      -- ㄷ close
        checkArity sp argv.length [1]
        retV (.io .fclose [.strict (.fn f)] sp none)
      else if e = [3] then do                 -- ㄹ read
        checkArity sp argv.length [2]
        let vs ← matchArguments sp (argv.take 1) Val.isInteger
        retV (.io .fread (.strict (.fn f) :: vs.map Arg.strict) sp none)
      else if e = [7, 3] then do              -- ㅈㄹ write
        checkArity sp argv.length [2]
        let vs ← matchArguments sp (argv.take 1) Val.isBytes
        retV (.io .fwrite (.strict (.fn f) :: vs.map Arg.strict) sp none)
      else if e = [7] then do                 -- ㅈ seek / tell
        checkMaxArity sp argv.length 3
        if argv.length = 1 then retV (.io .fseek [.strict (.fn f)] sp none) else do
        let vs ← forceAll argv
        let off := vs.reverse.drop 1 |>.head?
        match off with
        | none => bottom
        | some off => do
          checkType sp [off] Val.isInteger
          if vs.length > 2 then
            match vs.reverse.drop 2 |>.head? with
            | none => bottom
            | some wh => do
              checkType sp [wh] Val.isInteger
              match wh with
              | .int wv =>
                let we := encodeNumber wv
                if we = [6, 7, 5, 2] ∨ we = [7, 0, 5, 2] then      -- ㅅㅈㅂㄷ / ㅈㄱㅂㄷ
                  retV (.io .fseek (.strict (.fn f) :: (vs.dropLast.map Arg.strict)) sp none)
                else throw (valueErr sp)
              | _ => bottom
          else retV (.io .fseek (.strict (.fn f) :: (vs.dropLast.map Arg.strict)) sp none)
      else if e = [0] then do                 -- ㄱ truncate
        checkMaxArity sp argv.length 2
        let vs ← forceAll argv
        checkType sp vs Val.isInteger
        retV (.io .ftrunc (.strict (.fn f) :: (vs.dropLast.map Arg.strict)) sp none)
      else throw (valueErr sp)
    | _ => bottom

/-! ## applying a callee (`proc_functional` + the recipe) -/

def applyCallee (callee : Val) (sp : Span) (args : List Arg) : Comp Arg :=
  match callee with
  | .builtin n =>
    match builtinOf n with
    | some b => b sp args
    | none => throw (builtinErr .notFound sp)
  | .fn f => getFn f (fun obj =>
    match obj with
    | .closure body env =>
      -- `Closure.__call__`: the body in the *captured* environment extended by the arguments
      newThunk body ⟨env.funs, env.args ++ [args]⟩ (fun t =>
        ret (.thunk t (match body with | .lit n _ => some n | _ => none)))
    | .pipe evs =>
      let rec go : List Val → List Arg → Comp Arg
        | [], argv => (match argv with | a :: _ => ret a | [] => throw (valueErr sp))
        | ev :: r, argv => do let a ← callArg (.apply ev sp argv); go r [a]
      go evs args
    | .collect ev => do
      let vs ← matchArguments sp args (fun v => v.isList || v.isErr) (some [1])
      match vs with
      | [.list xs] => callArg (.apply ev sp xs)
      | [.err _ vals] => callArg (.apply ev sp (vals.map Arg.strict))
      | _ => bottom
    | .spread ev => callArg (.apply ev sp [.strict (.list args)])
    | .file _ => fileCall f sp args
    | .bmod path => bmodCall path sp args
    | .codec s n b => codecCall s n b sp args)
  | .bool b => do
    checkArity sp args.length [2]
    match args with
    | [x, y] => ret (if b then x else y)
    | _ => bottom
  | .dict table => do
    checkArity sp args.length [1]
    match args with
    | [a] => do
      let v ← forceArg a
      let k ← callKey (.keyOf v)
      match dictLookup table k with
      | some r => ret r
      | none => throw (builtinErr .notFound sp)
    | _ => bottom
  | .complex re im => do
    let vs ← matchArguments sp args Val.isInteger (some [1])
    match vs with
    | [.int 0] => retV (.float re)
    | [.int 1] => retV (.float im)
    | _ => throw (valueErr sp)
  | .list xs => do
    let vs ← matchArguments sp args Val.isInteger (some [1])
    match vs with
    | [.int i] => (match pyIndex xs i with | some a => ret a | none => throw (builtinErr .outOfRange sp))
    | _ => bottom
  | .err _ vals => do
    let vs ← matchArguments sp args Val.isInteger (some [1])
    match vs with
    | [.int i] => (match pyIndex vals i with | some a => retV a | none => throw (builtinErr .outOfRange sp))
    | _ => bottom
  | .str s => do
    let vs ← matchArguments sp args Val.isInteger (some [1])
    match vs with
    | [.int i] => (match pyIndex s.toList i with
        | some c => retV (.str (String.singleton c)) | none => throw (builtinErr .outOfRange sp))
    | _ => bottom
  | .bytes b => do
    let vs ← matchArguments sp args Val.isInteger (some [1])
    match vs with
    | [.int i] => (match pyIndex b i with
        | some c => retV (.bytes [c]) | none => throw (builtinErr .outOfRange sp))
    | _ => bottom
  | _ => throw (typeErr sp)

/-! ## `interpret` (interpret.py:160-225) -/

def interpret (e : AST) (env : Env) : Comp Arg :=
  match e with
  | .lit n _ => retV (.int n)
  | .funRef rel sp =>
    match pyIndex env.funs (-rel - 1) with
    | some f => retV (.fn f)
    | none => throw (builtinErr .outOfRange sp)
  | .argRef a relF sp =>
    match pyIndex env.args (-relF - 1) with
    | none => throw (builtinErr .outOfRange sp)
    | some frame =>
      newThunk a env (fun t => do
        let v ← forceArg (.thunk t none)
        checkType sp [v] Val.isInteger
        match v with
        | .int i =>
          if 0 ≤ i ∧ i < frame.length then
            (match frame[i.toNat]? with | some x => ret x | none => bottom)
          else throw (builtinErr .outOfRange sp)
        | _ => bottom)
  | .funDef body _ =>
    newFn (fun self => .closure body ⟨env.funs ++ [self], env.args⟩) (fun f => retV (.fn f))
  | .call f args sp =>
    newThunk f env (fun tf => do
      let argv ← mkThunks env args
      let callee ← strictFunctional sp (.thunk tf (match f with | .lit n _ => some n | _ => none))
      checkCallee isBuiltinName sp callee true
      callArg (.apply callee sp argv))
  | .bomb => bottom

/-! ## `recursive_strict`, `as_key`, `formatter`, `do_IO` -/

def recStrict (a : Arg) : Comp Arg := do
  let v ← forceArg a
  match v with
  | .list xs => do
    let ys ← mapM' (fun x => callArg (.recStrict x)) xs
    retV (.list ys)
  | .dict table => do
    let vals ← mapM' (fun (e : Val × Key × Arg) => callArg (.recStrict e.2.2)) table
    retV (.dict (dictBuild ((table.zip vals).map (fun (e, v) => (e.1, e.2.1, v)))))
  | .err metas vals => do
    let ys ← mapM' (fun x => callArg (.recStrict (.strict x))) vals
    let ys ← forceAll ys
    retV (.err metas ys)
  | v => retV v

def keyOf (v : Val) : Comp Key :=
  let keyArg (a : Arg) : Comp Key := do let x ← forceArg a; callKey (.keyOf x)
  match v with
  | .int n => ret (Num.int n).key
  | .float f => if F64.isNaN f then unmodelled "NaN in equality / dictionary key" else ret (Num.float f).key
  | .complex r i =>
    if F64.isNaN r || F64.isNaN i then unmodelled "NaN in equality / dictionary key" else ret (Num.complex r i).key
  | .bool b => ret (.bool b)
  | .str s => ret (.str s)
  | .bytes b => ret (.bytes b)
  | .nil => ret .nil
  | .list xs => do let ks ← mapM' keyArg xs; pure (.list ks)
  | .err _ vals => do let ks ← mapM' (fun x => callKey (.keyOf x)) vals; pure (.err ks)
  | .dict table => do
    let vks ← mapM' (fun (e : Val × Key × Arg) => keyArg e.2.2) table
    pure (.dict (sortPairs ((table.map (·.2.1)).zip vks)))
  | .io inst argv _ _ => do let ks ← mapM' keyArg argv; pure (.io inst ks)
  | .fn f => ret (.fn f)
  | .builtin _ => bottom

def ioInstName : IOInst → String
  | .input => "ㄹ" | .print => "ㅈㄹ" | .ret => "ㄱㅅ" | .bind => "ㄱㄹ" | .fopen => "ㄱㄴ"
  | .fclose => "File::_close" | .fread => "File::_read" | .fwrite => "File::_write"
  | .fseek => "File::_seek_or_tell" | .ftrunc => "File::_truncate"

def hex2 (n : Nat) : String :=
  let d (k : Nat) : Char := if k < 10 then Char.ofNat (48 + k) else Char.ofNat (55 + k)
  String.ofList [d (n / 16), d (n % 16)]

def jamoOfDigits (ds : List Digit) : String :=
  String.ofList (ds.map (fun d => "ㄱㄴㄷㄹㅁㅂㅅㅈ".toList.getD d.val 'ㄱ'))

/-- `Function._str` -/
def fnStr (f : FId) (obj : FnObj) : String :=
  let _ := f
  match obj with
  | .closure _ env => s!"<깊이 {env.args.length}에서 생성된 함수>"
  | .pipe _ => "<연결된  함수>"
  | .collect _ => "<모아 받는  함수>"
  | .spread _ => "<펼쳐 받는  함수>"
  | .file _ => "<파일 접근  함수>"
  | .codec _ _ _ => "<바이트열 부/복호화  함수>"
  | .bmod path => "<기본 제공 모듈 ㅂ " ++ " ".intercalate (path.map (fun n => jamoOfDigits (encodeNumber n))) ++ ">"

/-- insertion into a list sorted by the first component: *before* the entries whose key is not smaller.  `sortByKey`
inserts the entries last to first, so entries with equal printed keys (two functions, say) keep their insertion
order, as Python's stable `sorted` does. -/
def insertByKey (p : String × String) : List (String × String) → List (String × String)
  | [] => [p]
  | q :: r => if q.1 < p.1 then q :: insertByKey p r else p :: q :: r

def sortByKey (l : List (String × String)) : List (String × String) :=
  l.reverse.foldl (fun acc p => insertByKey p acc) []

/-- `main.formatter` -/
def formatter (a : Arg) (formatIO : Bool) : Comp String := do
  let v ← forceArg a
  let sub (x : Arg) : Comp String := callStr (.fmt x formatIO)
  match v with
  | .io _ _ _ _ => do
    let r ← callArg (.doIO v)
    let s ← callStr (.fmt r true)
    pure (if formatIO then "IO(" ++ s ++ ")" else s)
  | .list xs => do
    let ss ← mapM' sub xs
    pure ("[" ++ ", ".intercalate ss ++ "]")
  | .dict table => do
    let ks ← mapM' (fun (e : Val × Key × Arg) => sub (.strict e.1)) table
    let vs ← mapM' (fun (e : Val × Key × Arg) => sub e.2.2) table
    let pairs := sortByKey (ks.zip vs)
    pure ("{" ++ ", ".intercalate (pairs.map (fun (k, v) => k ++ ": " ++ v)) ++ "}")
  | .err _ vals => do
    let ss ← mapM' (fun x => sub (.strict x)) vals
    pure ("<예외: [" ++ ", ".intercalate ss ++ "]>")
  | .int n => pure (toString n)
  | .float f => pure (F64.pyRepr f)
  | .complex r i => pure (complexStr r i)
  | .bool b => pure (if b then "True" else "False")
  | .str s => pure ("'" ++ s ++ "'")
  | .bytes b => pure ("b'" ++ String.join (b.map (fun c => "\\x" ++ hex2 c.toNat)) ++ "'")
  | .nil => pure "Nil"
  | .fn f => getFn f (fun obj => ret (fnStr f obj))
  | .builtin _ => bottom

/-- the continuation of an I/O action (`IO.continuation(do_IO)`) -/
def ioCont (inst : IOInst) (argv : List Arg) (sp : Span) (bnd : Option (Val × Val × Option Val)) : Comp Arg :=
  let fid : Option FId := match argv with | .strict (.fn f) :: _ => some f | _ => none
  let intArg (k : Nat) : Option Int := match argv[k]? with | some (.strict (.int n)) => some n | _ => none
  match inst with
  | .input => worldArg (.readLine sp)
  | .print => (match argv with | [.strict (.str s)] => worldArg (.print sp s) | _ => bottom)
  | .ret => (match argv with | [a] => ret a | _ => bottom)
  | .fopen => (match argv with
      | [.strict p, .strict (.int m)] => worldArg (.fopen sp p m)
      | _ => bottom)
  | .fclose => (match fid with | some f => worldArg (.fclose sp f) | none => bottom)
  | .fread => (match fid, intArg 1 with | some f, some n => worldArg (.fread sp f n) | _, _ => bottom)
  | .fwrite => (match fid, argv with
      | some f, [_, Arg.strict (Val.bytes b)] => worldArg (.fwrite sp f b) | _, _ => bottom)
  | .fseek =>
    match fid with
    | none => bottom
    | some f =>
      match argv with
      | [_] => worldArg (.ftell sp f)
      | [_, .strict (.int off)] => worldArg (.fseek sp f off 0)
      | [_, .strict (.int wh), .strict (.int off)] =>
        worldArg (.fseek sp f off (if encodeNumber wh = [7, 0, 5, 2] then 1 else 0))
      | _ => bottom
  | .ftrunc =>
    match fid with
    | none => bottom
    | some f =>
      match argv with
      | [_] => worldArg (.ftrunc sp f none)
      | [_, .strict (.int n)] => worldArg (.ftrunc sp f (some n))
      | _ => bottom
  | .bind =>
    match bnd with
    | none => bottom
    | some (io0, resolve, reject) =>
      let finish (callee : Val) (x : Arg) : Comp Arg := do
        checkCallee isBuiltinName sp callee false
        let r ← callArg (.apply callee sp [x])
        let rv ← forceArg r
        checkType sp [rv] Val.isIO
        retV rv
      call (.doIO io0)
        (fun r => match r with | .arg a => finish resolve a | _ => bottom)
        (fun err => match reject with
          | none => throw err
          | some rej => finish rej (.strict (.err err.metas err.vals)))

/-- `main.do_IO` -/
def doIO (v : Val) : Comp Arg :=
  match v with
  | .io inst argv sp bnd => do
    let a ← ioCont inst argv sp bnd
    let v' ← forceArg a
    callArg (.doIO v')
  | v => retV v

/-- one layer of a sub-coroutine -/
def expand : Op → Comp Res
  | .apply callee sp args => do let a ← applyCallee callee sp args; pure (.arg a)
  | .recStrict a => do let r ← recStrict a; pure (.arg r)
  | .keyOf v => do let k ← keyOf v; pure (.key k)
  | .fmt a fio => do let s ← formatter a fio; pure (.str s)
  | .doIO v => do let a ← doIO v; pure (.arg a)

end UH
