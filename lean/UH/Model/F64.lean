/-
L1 — binary64 arithmetic.

Exact parts (decode, integer conversion, roundings, comparison with integers,
`fmod`, shortest-round-trip printing, correctly rounded parsing) are defined on
integers so that theorems can be proved about them.  `+ − × ÷` are delegated to
the host's IEEE-754 arithmetic through `Float.ofBits`/`toBits`; libm functions
and float `**` are opaque (trusted base, DESIGN.md §4).
-/
import UH.Model.Value
namespace UH
namespace F64

def ofFloat (x : Float) : F64 := ⟨x.toBits⟩
def toFloat (x : F64) : Float := Float.ofBits x.bits

def signBit (x : F64) : Bool := (x.bits >>> 63) == 1
def expBits (x : F64) : Nat := ((x.bits >>> 52) &&& 0x7FF).toNat
def fracBits (x : F64) : Nat := (x.bits &&& 0xFFFFFFFFFFFFF).toNat

def isNaN (x : F64) : Bool := expBits x == 2047 && fracBits x != 0
def isInf (x : F64) : Bool := expBits x == 2047 && fracBits x == 0
def isFinite (x : F64) : Bool := expBits x != 2047

/-- a finite value is `(-1)^signBit · mant · 2^exp2` -/
def mant (x : F64) : Nat := if expBits x == 0 then fracBits x else fracBits x + 2 ^ 52
def exp2 (x : F64) : Int := if expBits x == 0 then -1074 else (expBits x : Int) - 1075

def isZero (x : F64) : Bool := isFinite x && mant x == 0

def pack (neg : Bool) (e : Nat) (f : Nat) : F64 :=
  ⟨((if neg then 1 else 0 : UInt64) <<< 63) ||| (UInt64.ofNat e <<< 52) ||| UInt64.ofNat f⟩

def zero : F64 := ⟨0⟩
def negZero : F64 := pack true 0 0
def inf (neg : Bool) : F64 := pack neg 2047 0
def nan : F64 := pack false 2047 (2 ^ 51)

/-- strip common factors of two: `num / 2^e` normalised -/
def normDyadic : Nat → Int → Nat → Int × Nat
  | 0, num, e => (num, e)
  | fuel + 1, num, e =>
    if e = 0 then (num, 0) else if num % 2 = 0 ∧ num ≠ 0 then normDyadic fuel (num / 2) (e - 1)
    else if num = 0 then (0, 0) else (num, e)

/-- exact value as a key: `num / 2^exp2` -/
def toNumKey (x : F64) : NumKey :=
  if isNaN x then .nan
  else if isInf x then (if signBit x then .ninf else .pinf)
  else
    let m : Int := if signBit x then -(mant x : Int) else (mant x : Int)
    let e := exp2 x
    if 0 ≤ e then .fin (m * 2 ^ e.toNat) 0
    else
      let (n, k) := normDyadic 1100 m (-e).toNat
      .fin n k

def intNumKey (n : Int) : NumKey := .fin n 0

/-- exact `a < b` on keys (false if either is NaN) -/
def NumKey.lt : NumKey → NumKey → Bool
  | .nan, _ | _, .nan => false
  | .pinf, _ => false
  | _, .ninf => false
  | .ninf, _ => true
  | _, .pinf => true
  | .fin a ea, .fin b eb => a * 2 ^ eb < b * 2 ^ ea

/-- round the non-negative rational `p / q` (`q > 0`) to the nearest binary64, ties to even;
`none` = overflow (≥ 2^1024 after rounding) -/
def roundRat (neg : Bool) (p q : Nat) : Option F64 :=
  if p = 0 then some (pack neg 0 0) else
  -- first guess of the binary exponent k with p/q ≈ m·2^k, m ∈ [2^52, 2^53)
  let k0 : Int := (Nat.log2 p : Int) - (Nat.log2 q : Int) - 52
  let quot (k : Int) : Nat × Nat × Nat :=   -- (floor(p / (q·2^k)), remainder, denominator)
    if 0 ≤ k then let d := q * 2 ^ k.toNat; (p / d, p % d, d)
    else let n := p * 2 ^ (-k).toNat; (n / q, n % q, q)
  let k1 : Int := if (quot k0).1 < 2 ^ 52 then k0 - 1 else if (quot k0).1 ≥ 2 ^ 53 then k0 + 1 else k0
  let k : Int := if k1 < -1074 then -1074 else k1
  let (m0, r, d) := quot k
  let m1 := if 2 * r > d ∨ (2 * r = d ∧ m0 % 2 = 1) then m0 + 1 else m0
  let (m, k) := if m1 ≥ 2 ^ 53 then (m1 / 2, k + 1) else (m1, k)
  if m < 2 ^ 52 then some (pack neg 0 m)          -- subnormal (k = -1074) or zero
  else if k + 1075 ≥ 2047 then none
  else some (pack neg (k + 1075).toNat (m - 2 ^ 52))

/-- `float(n)`: `none` = Python `OverflowError` -/
def ofInt (n : Int) : Option F64 := roundRat (n < 0) n.natAbs 1

/-- exact `m · 2^e` (must be representable) -/
def ofDyadic (neg : Bool) (m : Nat) (e : Int) : Option F64 :=
  if 0 ≤ e then roundRat neg (m * 2 ^ e.toNat) 1 else roundRat neg m (2 ^ (-e).toNat)

/-- the five roundings of a finite value: `⌊·⌋` of `mant·2^exp2` etc. -/
def floorInt (x : F64) : Int :=
  let m : Int := if signBit x then -(mant x : Int) else mant x
  let e := exp2 x
  if 0 ≤ e then m * 2 ^ e.toNat else m / (2 ^ (-e).toNat : Int)     -- Int `/` is floor for positive divisor

def ceilInt (x : F64) : Int :=
  let m : Int := if signBit x then -(mant x : Int) else mant x
  let e := exp2 x
  if 0 ≤ e then m * 2 ^ e.toNat else -((-m) / (2 ^ (-e).toNat : Int))

def truncInt (x : F64) : Int := if signBit x then ceilInt x else floorInt x

def awayInt (x : F64) : Int := if signBit x then floorInt x else ceilInt x

/-- `round(x)`: nearest, ties to even -/
def roundInt (x : F64) : Int :=
  let f := floorInt x
  let m : Int := if signBit x then -(mant x : Int) else mant x
  let e := exp2 x
  if 0 ≤ e then f else
    let d : Int := 2 ^ (-e).toNat
    let r := m - f * d            -- 0 ≤ r < d, x = f + r/d
    if 2 * r < d then f else if 2 * r > d then f + 1 else (if f % 2 = 0 then f else f + 1)

/-- C `fmod(x, y)` for finite `x`, finite non-zero `y` (exact) -/
def fmodFinite (x y : F64) : F64 :=
  let e := min (exp2 x) (exp2 y)
  let X := mant x * 2 ^ (exp2 x - e).toNat
  let Y := mant y * 2 ^ (exp2 y - e).toNat
  let r := X % Y
  if r = 0 then pack (signBit x) 0 0 else (ofDyadic (signBit x) r e).getD nan

-- host IEEE-754 arithmetic
def add (a b : F64) : F64 := ofFloat (toFloat a + toFloat b)
def sub (a b : F64) : F64 := ofFloat (toFloat a - toFloat b)
def mul (a b : F64) : F64 := ofFloat (toFloat a * toFloat b)
def div (a b : F64) : F64 := ofFloat (toFloat a / toFloat b)
def neg (a : F64) : F64 := ⟨a.bits ^^^ ((1 : UInt64) <<< 63)⟩
def abs (a : F64) : F64 := ⟨a.bits &&& 0x7FFFFFFFFFFFFFFF⟩
def powHost (a b : F64) : F64 := ofFloat (Float.pow (toFloat a) (toFloat b))
def floorF (a : F64) : F64 := ofFloat (Float.floor (toFloat a))

def lt (a b : F64) : Bool := NumKey.lt (toNumKey a) (toNumKey b)
/-- IEEE equality (`-0.0 == 0.0`, NaN ≠ NaN) -/
def eq (a b : F64) : Bool := !isNaN a && !isNaN b && toNumKey a == toNumKey b

/-! ### decimal printing (`repr(float)`) and parsing (`float(str)`) -/

def natDecDigits (n : Nat) : List Nat := (Nat.toDigits 10 n).map (fun c => c.toNat - 48)

/-- number of decimal digits of `n > 0` -/
def decLen (n : Nat) : Nat := (Nat.toDigits 10 n).length

/-- for a positive finite `x = p/q` and digit count `n`: the candidates `(d, e10)` with
`d·10^e10` the two `n`-digit decimals around `x` -/
def decCandidates (p q : Nat) (n : Nat) : List (Nat × Int) :=
  -- estimate e10 so that p/q / 10^e10 has n integer digits
  let est : Int := (decLen p : Int) - (decLen q : Int) - n
  let scaled (e : Int) : Nat × Nat :=    -- p/q / 10^e as a fraction
    if 0 ≤ e then (p, q * 10 ^ e.toNat) else (p * 10 ^ (-e).toNat, q)
  let fix (e : Int) : Int :=
    let (a, b) := scaled e
    let d := a / b
    if d ≥ 10 ^ n then e + 1 else if d < 10 ^ (n - 1) then e - 1 else e
  let e := fix (fix est)
  let (a, b) := scaled e
  let d := a / b
  if d + 1 = 10 ^ n then [(d, e), (10 ^ (n - 1), e + 1)] else [(d, e), (d + 1, e)]

/-- value of a decimal `d·10^e` rounded to binary64 -/
def ofDecimal (neg : Bool) (d : Nat) (e : Int) : Option F64 :=
  if 0 ≤ e then roundRat neg (d * 10 ^ e.toNat) 1 else roundRat neg d (10 ^ (-e).toNat)

/-- shortest digits that read back to `x` (positive finite non-zero); among equals, the closest -/
def shortestDigits (x : F64) : Nat × Int :=
  let (p, q) : Nat × Nat :=
    if 0 ≤ exp2 x then (mant x * 2 ^ (exp2 x).toNat, 1) else (mant x, 2 ^ (-(exp2 x)).toNat)
  let ax := abs x
  let rec go (n : Nat) (fuel : Nat) : Nat × Int :=
    match fuel with
    | 0 => (mant x, exp2 x)  -- unreachable (17 digits always suffice)
    | fuel + 1 =>
      let cands := (decCandidates p q n).filter (fun (d, e) => ofDecimal false d e == some ax)
      match cands with
      | [] => go (n + 1) fuel
      | [c] => c
      | (d1, e1) :: (d2, e2) :: _ =>
        -- both round-trip: pick the closer to p/q; compare |d·10^e − p/q|
        let dist (d : Nat) (e : Int) : Int × Nat :=   -- numerator of |d·10^e·q − p| over common scale
          if 0 ≤ e then (((d * 10 ^ e.toNat * q : Nat) : Int) - p, 1)
          else (((d * q : Nat) : Int) - (p * 10 ^ (-e).toNat : Nat), 10 ^ (-e).toNat)
        let (n1, s1) := dist d1 e1
        let (n2, s2) := dist d2 e2
        -- closer one; on an exact tie the even last digit (round-half-even, as dtoa does)
        if n1.natAbs * s2 < n2.natAbs * s1 then (d1, e1)
        else if n1.natAbs * s2 > n2.natAbs * s1 then (d2, e2)
        else if d1 % 2 = 0 then (d1, e1) else (d2, e2)
  go 1 17

/-- strip trailing zeros of the digit string, adjusting the exponent -/
def stripZeros : Nat → Nat → Int → Nat × Int
  | 0, d, e => (d, e)
  | fuel + 1, d, e => if d ≠ 0 ∧ d % 10 = 0 then stripZeros fuel (d / 10) (e + 1) else (d, e)

/-- Python `repr(float)` -/
def pyRepr (x : F64) : String :=
  if isNaN x then "nan"
  else if isInf x then (if signBit x then "-inf" else "inf")
  else
    let s := if signBit x then "-" else ""
    if mant x == 0 then s ++ "0.0" else
    let (d0, e0) := shortestDigits x
    let (d, e) := stripZeros 20 d0 e0
    let digits := String.ofList (Nat.toDigits 10 d)
    let n := digits.length
    let decpt : Int := n + e       -- value = 0.DIGITS × 10^decpt
    if -4 < decpt ∧ decpt ≤ 16 then
      if decpt ≤ 0 then s ++ "0." ++ String.ofList (List.replicate (-decpt).toNat '0') ++ digits
      else if decpt ≥ n then s ++ digits ++ String.ofList (List.replicate (decpt - n).toNat '0') ++ ".0"
      else s ++ String.ofList (digits.toList.take decpt.toNat) ++ "." ++ String.ofList (digits.toList.drop decpt.toNat)
    else
      let ex := decpt - 1
      let es := toString ex.natAbs
      let es := if es.length < 2 then "0" ++ es else es
      let ms := if n = 1 then digits else
        String.ofList (digits.toList.take 1) ++ "." ++ String.ofList (digits.toList.drop 1)
      s ++ ms ++ "e" ++ (if ex < 0 then "-" else "+") ++ es

end F64
end UH
