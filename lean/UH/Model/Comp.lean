/-
L3 — interpreter coroutines as a free monad.

A Python generator that `yield`s delayed expressions and receives strict values
(or has exceptions thrown into it) is a tree `Comp α`.  Every effect the code can
have is a node; all recursion over run-time structure goes through `call`
(a sub-coroutine, Python `yield from`), which the machine expands one layer at
a time — so every definition here is total and the model has no `partial`.
-/
import UH.Model.Value
namespace UH

/-- results a sub-coroutine can return -/
inductive Res where
  | arg (a : Arg)
  | key (k : Key)
  | str (s : String)
deriving Inhabited

/-- sub-coroutines that recurse over run-time structure (Python `yield from`) -/
inductive Op where
  | apply (callee : Val) (sp : Span) (args : List Arg)   -- `recipe(metadata, argv)`
  | recStrict (a : Arg)                                   -- `utils.recursive_strict`
  | keyOf (v : Val)                                       -- `value.as_key()`
  | fmt (a : Arg) (formatIO : Bool)                       -- `main.formatter`
  | doIO (v : Val)                                        -- `main.do_IO`
deriving Inhabited

/-- effects on the outside world (only reachable from I/O continuations) and the
module loader (reads files, never writes) -/
inductive WOp where
  | readLine (sp : Span)
  | print (sp : Span) (s : String)
  | fopen (sp : Span) (path : Val) (mode : Int)
  | fclose (sp : Span) (f : FId)
  | fread (sp : Span) (f : FId) (n : Int)
  | fwrite (sp : Span) (f : FId) (b : List UInt8)
  | ftell (sp : Span) (f : FId)
  | fseek (sp : Span) (f : FId) (off : Int) (whence : Nat)
  | ftrunc (sp : Span) (f : FId) (n : Option Int)
  | importLit (sp : Span) (lits : List Int)
  | importPath (sp : Span) (path : String)
deriving Inhabited

inductive Comp (α : Type) where
  | ret (a : α)
  | throw (e : ErrV)
  /-- the C03 marker was evaluated, or an "impossible" branch of the model -/
  | bottom
  /-- behaviour of the implementation not modelled (the harness skips the case) -/
  | unmodelled (why : String)
  /-- `yield expr` : ask the evaluator for the value of a delayed expression -/
  | force (t : TId) (k : Val → Comp α) (ke : ErrV → Comp α)
  /-- `AS.Expr(expr, env)` -/
  | newThunk (e : AST) (env : Env) (k : TId → Comp α)
  /-- allocate a function object (it may mention its own identity) -/
  | newFn (mk : FId → FnObj) (k : FId → Comp α)
  | getFn (f : FId) (k : FnObj → Comp α)
  /-- `yield from sub` with an exception continuation -/
  | call (op : Op) (k : Res → Comp α) (ke : ErrV → Comp α)
  | world (w : WOp) (k : Arg → Comp α) (ke : ErrV → Comp α)

namespace Comp

def bind {α β} : Comp α → (α → Comp β) → Comp β
  | ret a, f => f a
  | throw e, _ => throw e
  | bottom, _ => bottom
  | unmodelled w, _ => unmodelled w
  | force t k ke, f => force t (fun v => bind (k v) f) (fun e => bind (ke e) f)
  | newThunk e env k, f => newThunk e env (fun t => bind (k t) f)
  | newFn mk k, f => newFn mk (fun c => bind (k c) f)
  | getFn c k, f => getFn c (fun o => bind (k o) f)
  | call op k ke, f => call op (fun r => bind (k r) f) (fun e => bind (ke e) f)
  | world w k ke, f => world w (fun r => bind (k r) f) (fun e => bind (ke e) f)

instance : Monad Comp where
  pure := ret
  bind := bind

/-- `try: body except UnsuspectedHangeulError as err: handler(err)` inside a generator -/
def tryCatch {α} : Comp α → (ErrV → Comp α) → Comp α
  | ret a, _ => ret a
  | throw e, h => h e
  | bottom, _ => bottom
  | unmodelled w, _ => unmodelled w
  | force t k ke, h => force t (fun v => tryCatch (k v) h) (fun e => tryCatch (ke e) h)
  | newThunk e env k, h => newThunk e env (fun t => tryCatch (k t) h)
  | newFn mk k, h => newFn mk (fun c => tryCatch (k c) h)
  | getFn c k, h => getFn c (fun o => tryCatch (k o) h)
  | call op k ke, h => call op (fun r => tryCatch (k r) h) (fun e => tryCatch (ke e) h)
  | world w k ke, h => world w (fun r => tryCatch (k r) h) (fun e => tryCatch (ke e) h)

/-- `yield value` -/
def forceArg : Arg → Comp Val
  | .strict v => ret v
  | .thunk t _ => force t ret throw

/-- `utils.map_strict` -/
def forceAll : List Arg → Comp (List Val)
  | [] => ret []
  | a :: as => do let v ← forceArg a; let vs ← forceAll as; pure (v :: vs)

/-- `[AS.Expr(arg, env) for arg in argv]` -/
def mkThunks (env : Env) : List AST → Comp (List Arg)
  | [] => ret []
  | e :: es => newThunk e env (fun t => do
      let ts ← mkThunks env es
      pure (Arg.thunk t (match e with | .lit n _ => some n | _ => none) :: ts))

def callArg (op : Op) : Comp Arg :=
  call op (fun r => match r with | .arg a => ret a | _ => bottom) throw
def callKey (op : Op) : Comp Key :=
  call op (fun r => match r with | .key k => ret k | _ => bottom) throw
def callStr (op : Op) : Comp String :=
  call op (fun r => match r with | .str s => ret s | _ => bottom) throw

def worldArg (w : WOp) : Comp Arg := world w ret throw

/-- `utils.map_strict_with_hook` -/
def mapM' {α β} (f : α → Comp β) : List α → Comp (List β)
  | [] => ret []
  | a :: as => do let b ← f a; let bs ← mapM' f as; pure (b :: bs)

def liftExcept {α} : Except ErrV α → Comp α
  | .ok a => ret a
  | .error e => throw e

end Comp
end UH
