/-
The call-by-name reference semantics (`ByName.BN`, UH/Proofs/ByName.lean) as an executable function with fuel:
trees only — no store, no memo cells, no frames.  `UH/Proofs/ByNameEval.lean` proves that whatever it returns is a
value of `BN`; by adequacy that is what the evaluator computes.  The driver exposes it (`bn`), so the
correspondence also compares the implementation with the *reference semantics itself* on the programs of the fragment.
-/
import UH.Model.Interp
namespace UH.ByName

inductive TEnv where
  | mk (funs : List (AST × TEnv)) (args : List (List (AST × TEnv)))

def TEnv.funs : TEnv → List (AST × TEnv) | .mk f _ => f
def TEnv.args : TEnv → List (List (AST × TEnv)) | .mk _ a => a
instance : Inhabited TEnv := ⟨.mk [] []⟩

inductive TVal where
  | int (n : Int)
  | bool (b : Bool)
  | clo (body : AST) (env : TEnv)
  /-- a list: its element expressions, each still delayed in its environment -/
  | list (elems : List (AST × TEnv))

def isLit : AST → Option Int | .lit n _ => some n | _ => none

def bnEval : Nat → TEnv → AST → Option TVal
  | 0, _, _ => none
  | fuel + 1, ρ, e =>
    match e with
    | .lit n _ => some (.int n)
    | .funDef b _ => some (.clo b ρ)
    | .funRef rel _ =>
      match pyIndex ρ.funs (-rel - 1) with
      | some (b, ρ') => some (.clo b ρ')
      | none => none
    | .argRef a relF _ =>
      match pyIndex ρ.args (-relF - 1) with
      | none => none
      | some frame =>
        match bnEval fuel ρ a with
        | some (.int i) =>
          if 0 ≤ i ∧ i < frame.length then
            match frame[i.toNat]? with
            | some (e', ρ') => bnEval fuel ρ' e'
            | none => none
          else none
        | _ => none
    | .call f args _ =>
      match isLit f with
      | some n =>
        if encodeNumber n = [7, 7] then (match args with | [] => some (.bool true) | _ => none)
        else if encodeNumber n = [0, 7] then (match args with | [] => some (.bool false) | _ => none)
        else if encodeNumber n = [1] then
          (match args with
           | [a1, a2] => (match bnEval fuel ρ a1, bnEval fuel ρ a2 with
              | some (.int x), some (.int y) => some (.bool (x == y))
              | _, _ => none)
           | _ => none)
        else if encodeNumber n = [2] then
          (match args with
           | [a1, a2] => (match bnEval fuel ρ a1, bnEval fuel ρ a2 with
              | some (.int x), some (.int y) => some (.int (x + y))
              | _, _ => none)
           | _ => none)
        else if encodeNumber n = [0] then
          (match args with
           | [a1, a2] => (match bnEval fuel ρ a1, bnEval fuel ρ a2 with
              | some (.int x), some (.int y) => some (.int (x * y))
              | _, _ => none)
           | _ => none)
        else if encodeNumber n = [7] then
          (match args with
           | [a1, a2] => (match bnEval fuel ρ a1, bnEval fuel ρ a2 with
              | some (.int x), some (.int y) => some (.bool (decide (x < y)))
              | _, _ => none)
           | _ => none)
        else if encodeNumber n = [1, 4] then
          (match args with
           | [a1, a2] => (match bnEval fuel ρ a1, bnEval fuel ρ a2 with
              | some (.int x), some (.int y) => if y = 0 then none else some (.int (Int.tmod x y))
              | _, _ => none)
           | _ => none)
        else if encodeNumber n = [4, 3] then some (.list (args.map (fun a => (a, ρ))))
        else if encodeNumber n = [7, 2] then
          (match args with
           | [a] => (match bnEval fuel ρ a with
              | some (.list elems) => some (.int elems.length)
              | _ => none)
           | _ => none)
        else none
      | none =>
        match bnEval fuel ρ f with
        | some (.clo b ρd) => bnEval fuel (.mk (ρd.funs ++ [(b, ρd)]) (ρd.args ++ [args.map (fun a => (a, ρ))])) b
        | some (.bool bb) => (match args with | [x, y] => bnEval fuel ρ (if bb then x else y) | _ => none)
        | some (.list elems) =>
          (match args with
           | [a] =>
             (match bnEval fuel ρ a with
              | some (.int i) =>
                (match pyIndex elems i with
                 | some (e', ρ') => bnEval fuel ρ' e'
                 | none => none)
              | _ => none)
           | _ => none)
        | _ => none
    | .bomb => none

end UH.ByName
