/-
L0 — integer literal codec (model of `parse_number` / `encode_number`,
`pbhhg_py/parse.py:101-123`).
-/
namespace UH

abbrev Digit := Fin 8

/-- value of little-endian base-8 digits -/
def digitsVal : List Digit → Nat
  | [] => 0
  | d :: ds => d.val + 8 * digitsVal ds

/-- `parse_number`: little-endian base 8, negative iff the word length is even -/
def parseNumber (ds : List Digit) : Int :=
  if ds.length % 2 = 0 then - (digitsVal ds : Int) else (digitsVal ds : Int)

/-- little-endian base-8 digits of a natural number; `0 ↦ [0]` like `f"{0:o}"` -/
def natDigits (n : Nat) : List Digit :=
  if h : n < 8 then [⟨n, h⟩] else ⟨n % 8, Nat.mod_lt _ (by decide)⟩ :: natDigits (n / 8)
decreasing_by omega

/-- `encode_number` -/
def encodeNumber (n : Int) : List Digit :=
  let ds := natDigits n.natAbs
  if (ds.length % 2 = 0) != (decide (n < 0)) then ds ++ [0] else ds

end UH
