/-
`main.main` through the executable big-step evaluator `evalF` instead of the micro-step machine
(driver command `main2`).  `BigStep.evalF_machine` proves the two agree whenever `evalF` returns.
-/
import UH.Model.Main
import UH.Model.EvalF
namespace UH

def runMainBig (fuel : Nat) (world : World) (text : List Nat) (formatIO : Bool) : RunOutcome × World × Nat :=
  match parse normChar text with
  | .error pe =>
    let e := builtinErr .syntax pe.span
    (.err e (formatErr fuel initStore world e), world, 0)
  | .ok exprs =>
    let rec go (exprs : List AST) (store : Store) (world : World) (acc : List String) (hmax : Nat) :
        RunOutcome × World × Nat :=
      match exprs with
      | [] => (.ok acc.reverse, world, hmax)
      | e :: rest =>
        let (t, store) := allocCell store e
        match evalF fuel store world (.comp (do
            let s ← formatter (.thunk t (litTag e)) formatIO
            pure (Res.str s))) with
        | .ok ⟨res, s1, w1, h⟩ =>
          if h ≥ maxStackSize then (.limit, w1, h) else
          (match res with
           | .ok (.str s) => go rest s1 w1 (s :: acc) (max hmax h)
           | .ok _ => (.bottom, w1, h)
           | .error err => (.err err (formatErr (64 * fuel + 100000) s1 w1 err), w1, max hmax h))
        | .error .fuel => (.fuel, world, hmax)
        | .error .bottom => (.bottom, world, hmax)
        | .error (.unmodelled why) => (.unmodelled why, world, hmax)
    go exprs initStore world [] 0

end UH
