/-
L5 — the outside world: standard input / output, a byte-array file system with
open handles (`builtins/io.py`), and the module loader (`builtins/module.py`).
-/
import UH.Model.Interp
import UH.Model.Norm
namespace UH

/-- an open file handle (`File(open(path, mode))`) -/
structure Handle where
  path : String
  mode : Nat          -- index into `fileModes`: 0 rb, 1 wb, 2 ab, 3 r+b, 4 w+b, 5 a+b
  pos : Nat
  closed : Bool
deriving Repr, Inhabited

structure World where
  stdin : List Char                         -- unread standard input
  stdout : List Char                        -- everything printed so far (reverse order)
  files : List (String × List UInt8)        -- regular files by normalised relative path
  dirs : List String                        -- (possibly empty) directories
  handles : Array Handle
  registry : List (String × TId)            -- `_MODULE_REGISTRY`
deriving Inhabited

namespace World

def canRead (m : Nat) : Bool := m == 0 || m == 3 || m == 4 || m == 5
def canWrite (m : Nat) : Bool := m != 0
def isAppend (m : Nat) : Bool := m == 2 || m == 5

/-- split a path at '/', dropping empty and "." components -/
def pathParts (p : String) : List String :=
  (p.splitOn "/").filter (fun c => c != "" && c != ".")

def normPath (p : String) : String := "/".intercalate (pathParts p)

def getFile (w : World) (p : String) : Option (List UInt8) := w.files.lookup p

def setFile (w : World) (p : String) (b : List UInt8) : World :=
  let rec upd : List (String × List UInt8) → List (String × List UInt8)
    | [] => [(p, b)]
    | (q, c) :: r => if q == p then (p, b) :: r else (q, c) :: upd r
  { w with files := upd w.files }

def isDir (w : World) (p : String) : Bool :=
  p == "" || w.dirs.contains p || w.files.any (fun (q, _) => (p ++ "/").isPrefixOf q)
    || w.dirs.any (fun q => (p ++ "/").isPrefixOf q)

/-- names directly inside directory `p` (`os.listdir`), without duplicates -/
def listDir (w : World) (p : String) : List String :=
  let pre := if p == "" then "" else p ++ "/"
  let names := (w.files.map (·.1) ++ w.dirs).filterMap (fun q =>
    if pre.isPrefixOf q && q != p then
      match ((q.drop pre.length).toString.splitOn "/") with
      | n :: _ => if n == "" then none else some n
      | [] => none
    else none)
  names.eraseDups

end World

/-! ### the byte-array file specification -/

/-- contents and initial position after `open(mode)` given the existing contents (if any);
`none` = the file must exist (modes r, r+) -/
def openData (existing : Option (List UInt8)) (mode : Nat) : Option (List UInt8 × Nat) :=
  if (mode == 0 || mode == 3) && existing.isNone then none
  else
    let data := if mode == 1 || mode == 4 then [] else existing.getD []
    some (data, if World.isAppend mode then data.length else 0)

/-- write `b` at offset `at_`: a gap beyond the end is zero-filled, bytes outside the window stay -/
def writeAt (data : List UInt8) (at_ : Nat) (b : List UInt8) : List UInt8 :=
  let padded := if at_ > data.length then data ++ List.replicate (at_ - data.length) 0 else data
  padded.take at_ ++ b ++ padded.drop (at_ + b.length)

/-- truncate / zero-extend to `sz` bytes -/
def truncTo (data : List UInt8) (sz : Nat) : List UInt8 :=
  if sz ≤ data.length then data.take sz else data ++ List.replicate (sz - data.length) 0

/-- failure of a world operation -/
inductive WErr where
  | os (errno : Int)        -- OSError with an errno
  | value                   -- ValueError / io.UnsupportedOperation
  | unmodelled (why : String)

open World in
/-- the byte-file operations; results are the values the Python file object returns -/
def fileOp (w : World) (h : Nat) (op : WOp) : Except WErr (Val × World) :=
  match w.handles[h]? with
  | none => .error (.unmodelled "bad handle")
  | some hd =>
    let setH (hd' : Handle) (w : World) : World := { w with handles := w.handles.set! h hd' }
    let data := (getFile w hd.path).getD []
    match op with
    | .fclose _ _ => .ok (.nil, setH { hd with closed := true } w)
    | .fread _ _ n =>
      if hd.closed then .error .value
      else if n < -1 then .error .value
      else if n ≥ 2 ^ 63 then .error .value                 -- OverflowError: does not fit an index
      else if !canRead hd.mode then .error .value
      else
        let avail := data.drop hd.pos
        let got := if n = -1 then avail else avail.take n.toNat
        .ok (.bytes got, setH { hd with pos := hd.pos + got.length } w)
    | .fwrite _ _ b =>
      if hd.closed then .error .value
      else if !canWrite hd.mode then .error .value
      else if b.isEmpty then
        -- a zero-length write changes nothing (append modes still move to the end first)
        .ok (.int 0, setH { hd with pos := if isAppend hd.mode then data.length else hd.pos } w)
      else
        let at_ := if isAppend hd.mode then data.length else hd.pos
        .ok (.int b.length, setH { hd with pos := at_ + b.length } (setFile w hd.path (writeAt data at_ b)))
    | .ftell _ _ =>
      if hd.closed then .error .value else .ok (.int hd.pos, w)
    | .fseek _ _ off whence =>
      if hd.closed then .error .value
      else
        let target : Int := if whence = 1 then (hd.pos : Int) + off else off
        if off ≥ 2 ^ 63 ∨ off < -(2 ^ 63) then .error .value      -- OverflowError
        else if target < 0 then .error (.os 22)
        else .ok (.int target, setH { hd with pos := target.toNat } w)
    | .ftrunc _ _ n =>
      if hd.closed then .error .value
      else if !canWrite hd.mode then .error .value
      else
        let size : Int := match n with | some k => k | none => hd.pos
        if size ≥ 2 ^ 63 ∨ size < -(2 ^ 63) then .error .value     -- OverflowError
        else if size < 0 then .error (.os 22)
        else
          .ok (.int size, setFile w hd.path (truncTo data size.toNat))
    | _ => .error (.unmodelled "not a file operation")

open World in
/-- `open(path, mode)`: returns the new handle index -/
def openFile (w : World) (path : String) (mode : Nat) : Except WErr (Nat × World) :=
  let p := normPath path
  let parent := "/".intercalate (pathParts path).dropLast
  if path.contains (Char.ofNat 0) then .error .value               -- embedded NUL: ValueError
  else if p == "" && !(path.startsWith "/" || path.startsWith ".") then .error (.os 2)   -- open("") : ENOENT
  else if p == "" || isDir w p then .error (.os 21)                    -- EISDIR
  else if !(isDir w parent) then
    (if (getFile w parent).isSome then .error (.os 20) else .error (.os 2))   -- ENOTDIR / ENOENT
  else
    match openData (getFile w p) mode with
    | none => .error (.os 2)   -- ENOENT
    | some (data, pos) =>
      let w1 := setFile w p data
      .ok (w1.handles.size, { w1 with handles := w1.handles.push ⟨p, mode, pos, false⟩ })

/-! ### module search (`_search_file_from_literal`, `_matches_literal`) -/

/-- a directory entry matches a literal iff its consonant skeleton is one digit word of that value -/
def matchesLiteral (name : String) (lit : Int) : Bool :=
  let syms := name.toList.flatMap (fun c => normChar c.toNat)
  let core := ((syms.dropWhile Sym.isSp).reverse.dropWhile Sym.isSp).reverse
  match symDigits core with
  | some ds => !ds.isEmpty && parseNumber ds == lit
  | none => false

inductive SearchRes where
  | found (path : String)
  | notFound
  | ambiguous
deriving Repr, DecidableEq

open World in
def searchFile (w : World) : Nat → List Int → String → SearchRes
  | 0, _, _ => .notFound
  | fuel + 1, lits, loc =>
    match lits with
    | [] => if (getFile w loc).isSome then .found loc else .notFound
    | cur :: sub =>
      if !(isDir w loc) then .notFound else
      let results := (listDir w loc).filterMap (fun entry =>
        if matchesLiteral entry cur then
          some (searchFile w fuel sub (if loc == "" then entry else loc ++ "/" ++ entry))
        else none)
      if results.contains .ambiguous then .ambiguous else
      match results.filter (fun r => match r with | .found _ => true | _ => false) with
      | [] => .notFound
      | [r] => r
      | _ => .ambiguous

end UH
