/-
L1 — values (`abstract_syntax.py:85-412`).

Heap-based: delayed expressions (`Expr` + `CacheBox`) and function objects live
in a store and are referred to by id, so cyclic environments, function identity
and memo cells are represented exactly and every type stays first-order.
-/
import UH.Model.Parse
namespace UH

abbrev TId := Nat   -- id of a delayed expression (Python `Expr`)
abbrev FId := Nat   -- id of a function object (identity = Python `id(self)`)

/-- IEEE-754 binary64, as its bit pattern -/
structure F64 where
  bits : UInt64
deriving DecidableEq, Repr, Inhabited

/-- exact numeric value used for equality: `num / 2^exp2`, or an infinity / NaN -/
inductive NumKey where
  | fin (num : Int) (exp2 : Nat)   -- normalised: exp2 = 0 or num odd
  | pinf | ninf | nan
deriving DecidableEq, Repr, Inhabited

/-- instruction tag of an I/O action (`IO._inst`) -/
inductive IOInst where
  | input | print | ret | bind | fopen
  | fclose | fread | fwrite | fseek | ftrunc
deriving DecidableEq, Repr, Inhabited

/-- canonical key of a value (`as_key` after the structural-key fix): two values are equal for
`ㄴ` and for dictionaries iff their keys are equal -/
inductive Key where
  | num (re im : NumKey)
  | bool (b : Bool)
  | str (s : String)
  | bytes (b : List UInt8)
  | nil
  | list (ks : List Key)
  | err (ks : List Key)
  | dict (kvs : List (Key × Key))     -- kept sorted by `Key.sortPairs` (set semantics)
  | io (inst : IOInst) (ks : List Key)
  | fn (f : FId)
deriving Repr, Inhabited

mutual
inductive Val where
  | int (n : Int)
  | float (f : F64)
  | complex (re im : F64)
  | bool (b : Bool)
  | str (s : String)
  | bytes (b : List UInt8)
  | list (xs : List Arg)
  | dict (table : List (Val × Key × Arg))           -- (original key, key, value), later equal key wins
  | err (metas : List Span) (vals : List Val)        -- ErrorValue: locations + contents
  | nil
  | io (inst : IOInst) (argv : List Arg) (sp : Span) (bind : Option (Val × Val × Option Val))
  | fn (f : FId)
  | builtin (n : Int)     -- `BuiltinFunction(literal)`: not a value, only ever a callee
/-- `Value = StrictValue | Expr`; a delayed reference remembers whether its
expression is an integer literal (`isinstance(x.expr, Literal)`, immutable) -/
inductive Arg where
  | strict (v : Val)
  | thunk (t : TId) (lit : Option Int)
end

instance : Inhabited Val := ⟨.nil⟩
instance : Inhabited Arg := ⟨.strict .nil⟩

/-- `Env`: enclosing closures (outermost first) and their argument tuples -/
structure Env where
  funs : List FId
  args : List (List Arg)
deriving Inhabited

/-- language-level exception in flight (`UnsuspectedHangeulError(err)`) -/
structure ErrV where
  metas : List Span
  vals : List Val
deriving Inhabited

/-- function objects (`Function` subclasses) -/
inductive FnObj where
  | closure (body : AST) (env : Env)
  | pipe (evs : List Val)
  | collect (ev : Val)
  | spread (ev : Val)
  | file (h : Nat)
  | bmod (name : List Int)                 -- built-in module function, by its literal path
  | codec (scheme : Nat) (numBytes : Int) (bigEndian : Option Bool)
deriving Inhabited

/-- the eleven error classes of `error.py`, value = the literal passed to `parse_number` -/
inductive ErrClass where
  | os | arithmetic | syntax | type | value | division | notFound | import_ | outOfRange | interrupt
deriving DecidableEq, Repr

/-- class code: `parse_number` of the class name in `error.py` -/
def ErrClass.code : ErrClass → Int
  | .os => parseNumber [7, 7]          -- ㅈㅈ
  | .arithmetic => parseNumber [6, 6]  -- ㅅㅅ
  | .syntax => parseNumber [4, 5]      -- ㅁㅂ
  | .type => parseNumber [0]           -- ㄱ
  | .value => parseNumber [7, 4]       -- ㅈㅁ
  | .division => parseNumber [1, 1]    -- ㄴㄴ
  | .notFound => parseNumber [4, 7]    -- ㅁㅈ
  | .import_ => parseNumber [5]        -- ㅂ
  | .outOfRange => parseNumber [5, 0]  -- ㅂㄱ
  | .interrupt => parseNumber [7, 2]   -- ㅈㄷ

/-- `UnsuspectedHangeulBuiltinError(metadata, msg, codes)`: contents `[5, class, …]` -/
def builtinErr (c : ErrClass) (sp : Span) (extra : List Int := []) : ErrV :=
  ⟨[sp], (Val.int (parseNumber [5]) :: Val.int c.code :: extra.map Val.int)⟩

/-- Python sequence indexing `l[i]` (negative from the end); `none` = IndexError -/
def pyIndex {α} (l : List α) (i : Int) : Option α :=
  if 0 ≤ i then l[i.toNat]? else
  if 0 ≤ (l.length : Int) + i then l[((l.length : Int) + i).toNat]? else none

end UH
