/-
L0 — the postfix stack-machine parser (model of `parse_token` / `parse`,
`pbhhg_py/parse.py:126-212`).
-/
import UH.Model.Text
import UH.Model.Number
namespace UH

/-- Abstract syntax (`abstract_syntax.py:31-59`), every node carrying the span
of the word that created it. `bomb` is never produced by the parser: it is the
"unneeded sub-expression" marker of property C03. -/
inductive AST where
  | lit (n : Int) (sp : Span)
  | funRef (rel : Int) (sp : Span)
  | argRef (a : AST) (relF : Int) (sp : Span)
  | funDef (body : AST) (sp : Span)
  | call (f : AST) (args : List AST) (sp : Span)
  | bomb
deriving Repr, Inhabited

namespace AST
def span : AST → Span
  | lit _ s | funRef _ s | argRef _ _ s | funDef _ s | call _ _ s => s
  | bomb => default
end AST

/-- shape of a word: digits only, `ㅎ`+digits, `ㅇ`+digits -/
inductive Word where
  | lit (ds : List Digit)
  | h (ds : List Digit)
  | o (ds : List Digit)
deriving DecidableEq, Repr

def symDigits : List Sym → Option (List Digit)
  | [] => some []
  | .d n :: r => (symDigits r).map (n :: ·)
  | _ :: _ => none

/-- `none` = a word on which the Python `parse_token` would not follow one of
its three documented branches (two `ㅎ`/`ㅇ`, foreign symbol, empty literal);
`classify_tokens` (C09) proves the tokenizer never produces such a word. -/
def classify : List Sym → Option Word
  | [] => none
  | .h :: r => (symDigits r).map Word.h
  | .o :: r => (symDigits r).map Word.o
  | .sp :: _ => none
  | .d n :: r => (symDigits r).map (fun ds => Word.lit (n :: ds))

/-- the seven ways `parse_token` rejects a word (all raise
`UnsuspectedHangeulSyntaxError`) plus `malformed` (host crash; unreachable) -/
inductive PErrKind where
  | negArity | noFun | fewArgs | noBody | noArg | noRef | refNotLit | malformed
deriving DecidableEq, Repr

structure PErr where
  kind : PErrKind
  span : Span
deriving DecidableEq, Repr

/-- `parse_token`; the stack's top is its last element, as in Python. -/
def parseWord (w : Word) (sp : Span) (stack : List AST) : Except PErr (List AST) :=
  match w with
  | .lit ds => .ok (stack ++ [.lit (parseNumber ds) sp])
  | .h [] =>
      match stack.getLast? with
      | none => .error ⟨.noBody, sp⟩
      | some b => .ok (stack.dropLast ++ [.funDef b sp])
  | .h (d :: ds) =>
      let arity := parseNumber (d :: ds)
      if arity < 0 then .error ⟨.negArity, sp⟩ else
      match stack.getLast? with
      | none => .error ⟨.noFun, sp⟩
      | some f =>
        let rest := stack.dropLast
        let n := arity.toNat
        if rest.length < n then .error ⟨.fewArgs, sp⟩ else
        .ok (rest.take (rest.length - n) ++ [.call f (rest.drop (rest.length - n)) sp])
  | .o (d :: ds) =>
      match stack.getLast? with
      | none => .error ⟨.noArg, sp⟩
      | some a => .ok (stack.dropLast ++ [.argRef a (parseNumber (d :: ds)) sp])
  | .o [] =>
      match stack.getLast? with
      | none => .error ⟨.noRef, sp⟩
      | some (.lit n _) => .ok (stack.dropLast ++ [.funRef n sp])
      | some _ => .error ⟨.refNotLit, sp⟩

def parseToken (t : Token) (stack : List AST) : Except PErr (List AST) :=
  match classify t.syms with
  | none => .error ⟨.malformed, t.span⟩
  | some w => parseWord w t.span stack

def parseTokens (stack : List AST) : List Token → Except PErr (List AST)
  | [] => .ok stack
  | t :: ts =>
    match parseToken t stack with
    | .ok s => parseTokens s ts
    | .error e => .error e

def parse (norm : Nat → List Sym) (text : List Nat) : Except PErr (List AST) :=
  parseTokens [] (tokenize norm text)

end UH
