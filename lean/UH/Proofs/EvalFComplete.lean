/-
The executable big-step evaluator is *complete* for the natural semantics: every derivation is found with enough fuel,
at a height not above the derivation's.  With soundness (`evalF_sound`) this makes `Eval` and `evalF` two presentations
of one partial function — in particular **`Eval` is deterministic**, for coroutines and frames alike.
-/
import UH.Proofs.EvalF
namespace UH.BigStep
open UH Unforced C19

/-! one-layer unfoldings of `evalF` -/
theorem evalF_force (fuel : Nat) (s : Store) (w : World) (t : TId) (k : Val → Comp Res) (ke : ErrV → Comp Res) :
    evalF (fuel + 1) s w (.comp (.force t k ke)) =
      (match (s.getCell t).value with
      | some (.ok v) => evalF fuel s w (.comp (k v))
      | some (.error e) => evalF fuel s w (.comp (ke e))
      | none =>
        match evalF fuel s w (.frame t) with
        | .error st => .error st
        | .ok ⟨.ok (.arg (.strict v)), s1, w1, h1⟩ =>
          (match evalF fuel s1 w1 (.comp (k v)) with
           | .ok ⟨r, s2, w2, h2⟩ => .ok ⟨r, s2, w2, max h1 h2⟩
           | .error st => .error st)
        | .ok ⟨.error e, s1, w1, h1⟩ =>
          (match evalF fuel s1 w1 (.comp (ke e)) with
           | .ok ⟨r, s2, w2, h2⟩ => .ok ⟨r, s2, w2, max h1 h2⟩
           | .error st => .error st)
        | .ok _ => .error .bottom) := rfl

theorem evalF_call (fuel : Nat) (s : Store) (w : World) (op : Op) (k : Res → Comp Res) (ke : ErrV → Comp Res) :
    evalF (fuel + 1) s w (.comp (.call op k ke)) =
      (match evalF fuel s w (.comp (expand op)) with
      | .error st => .error st
      | .ok ⟨.ok x, s1, w1, h1⟩ =>
        (match evalF fuel s1 w1 (.comp (k x)) with
         | .ok ⟨r, s2, w2, h2⟩ => .ok ⟨r, s2, w2, max h1 h2⟩
         | .error st => .error st)
      | .ok ⟨.error e, s1, w1, h1⟩ =>
        (match evalF fuel s1 w1 (.comp (ke e)) with
         | .ok ⟨r, s2, w2, h2⟩ => .ok ⟨r, s2, w2, max h1 h2⟩
         | .error st => .error st)) := rfl

theorem evalF_world (fuel : Nat) (s : Store) (w : World) (op : WOp) (k : Arg → Comp Res) (ke : ErrV → Comp Res) :
    evalF (fuel + 1) s w (.comp (.world op k ke)) =
      (match doWorld s w op with
      | (s1, w1, .ok a) => evalF fuel s1 w1 (.comp (k a))
      | (s1, w1, .err e) => evalF fuel s1 w1 (.comp (ke e))
      | (_, _, .unmodelled why) => .error (.unmodelled why)) := rfl

theorem evalF_getFn (fuel : Nat) (s : Store) (w : World) (id : FId) (k : FnObj → Comp Res) :
    evalF (fuel + 1) s w (.comp (.getFn id k)) =
      (match s.fns.get? id with
      | some o => evalF fuel s w (.comp (k o))
      | none => .error .bottom) := rfl

theorem evalF_frame (fuel : Nat) (s : Store) (w : World) (t : TId) :
    evalF (fuel + 1) s w (.frame t) =
      (match evalF fuel s w (.comp (newFrame s t).cur) with
      | .error st => .error st
      | .ok ⟨.ok (.arg (.strict v)), s1, w1, h1⟩ =>
        .ok ⟨.ok (.arg (.strict v)), s1.resolve (s1.cells.size + 1) t (.ok v), w1, h1 + 1⟩
      | .ok ⟨.error e, s1, w1, h1⟩ => .ok ⟨.error e, s1.resolve (s1.cells.size + 1) t (.error e), w1, h1 + 1⟩
      | .ok ⟨.ok (.arg (.thunk t' _)), s1, w1, h1⟩ =>
        (match evalF fuel (setRequestor s1 t' (some t)) w1 (.frame t') with
         | .ok ⟨r, s2, w2, h2⟩ => .ok ⟨r, s2, w2, max (h1 + 1) h2⟩
         | .error st => .error st)
      | .ok _ => .error .bottom) := rfl

theorem evalF_mono_step : ∀ (fuel : Nat) (s : Store) (w : World) (task : Task) (br : BigResult),
    evalF fuel s w task = .ok br → evalF (fuel + 1) s w task = .ok br := by
  intro fuel
  induction fuel with
  | zero => intro s w task br h; simp [evalF] at h
  | succ fuel ih =>
    intro s w task br h
    cases task with
    | comp c =>
      cases c with
      | ret r => exact h
      | throw e => exact h
      | bottom => exact h
      | unmodelled why => exact h
      | force t k ke =>
        rw [evalF_force] at h ⊢
        split at h
        · rename_i v hv; (try simp only [hv]); exact ih _ _ _ _ h
        · rename_i e hv; (try simp only [hv]); exact ih _ _ _ _ h
        · rename_i hv
          try simp only [hv]
          split at h
          · cases h
          · rename_i v s1 w1 h1 hf
            rw [ih _ _ _ _ hf]
            simp only []
            split at h
            · rename_i r s2 w2 h2 hk
              rw [ih _ _ _ _ hk]; exact h
            · cases h
          · rename_i e s1 w1 h1 hf
            rw [ih _ _ _ _ hf]
            simp only []
            split at h
            · rename_i r s2 w2 h2 hk
              rw [ih _ _ _ _ hk]; exact h
            · cases h
          · cases h
      | newThunk e env k => exact ih _ _ _ _ h
      | newFn mk k => exact ih _ _ _ _ h
      | getFn id k =>
        rw [evalF_getFn] at h ⊢
        split at h
        · rename_i o ho; (try simp only [ho]); exact ih _ _ _ _ h
        · cases h
      | call op k ke =>
        rw [evalF_call] at h ⊢
        split at h
        · cases h
        · rename_i x s1 w1 h1 hf
          rw [ih _ _ _ _ hf]
          simp only []
          split at h
          · rename_i r s2 w2 h2 hk
            rw [ih _ _ _ _ hk]; exact h
          · cases h
        · rename_i e s1 w1 h1 hf
          rw [ih _ _ _ _ hf]
          simp only []
          split at h
          · rename_i r s2 w2 h2 hk
            rw [ih _ _ _ _ hk]; exact h
          · cases h
      | world op k ke =>
        rw [evalF_world] at h ⊢
        split at h
        · rename_i s1 w1 a hd; (try simp only [hd]); exact ih _ _ _ _ h
        · rename_i s1 w1 e hd; (try simp only [hd]); exact ih _ _ _ _ h
        · cases h
    | frame t =>
      rw [evalF_frame] at h ⊢
      split at h
      · cases h
      · rename_i v s1 w1 h1 hf
        rw [ih _ _ _ _ hf]; exact h
      · rename_i e s1 w1 h1 hf
        rw [ih _ _ _ _ hf]; exact h
      · rename_i t' lit s1 w1 h1 hf
        rw [ih _ _ _ _ hf]
        simp only []
        split at h
        · rename_i r s2 w2 h2 hk
          rw [ih _ _ _ _ hk]; exact h
        · cases h
      · cases h

theorem evalF_mono {fuel fuel' : Nat} (hle : fuel ≤ fuel') {s w task br} (h : evalF fuel s w task = .ok br) :
    evalF fuel' s w task = .ok br := by
  obtain ⟨k, rfl⟩ := Nat.exists_eq_add_of_le hle
  induction k with
  | zero => exact h
  | succ k ih => exact evalF_mono_step _ _ _ _ _ (ih (Nat.le_add_right _ _))


/-- **completeness**: every derivation is found by `evalF` with enough fuel, at a height not above the derivation's -/
theorem evalF_complete {s w task h r s' w'} (hev : Eval s w task h r s' w') :
    ∃ fuel h', evalF fuel s w task = .ok ⟨r, s', w', h'⟩ ∧ h' ≤ h := by
  induction hev with
  | ret s w h r => exact ⟨1, 0, rfl, Nat.zero_le _⟩
  | throw s w h e => exact ⟨1, 0, rfl, Nat.zero_le _⟩
  | @forceOk s w h t k ke v r s' w' hv _ ih =>
    obtain ⟨f, h', e, hl⟩ := ih
    exact ⟨f + 1, h', by rw [evalF_force]; simp only [hv]; exact e, hl⟩
  | @forceErr s w h t k ke e0 r s' w' hv _ ih =>
    obtain ⟨f, h', e, hl⟩ := ih
    exact ⟨f + 1, h', by rw [evalF_force]; simp only [hv]; exact e, hl⟩
  | @forceEvalOk s w h t k ke v s1 w1 r s' w' hv _ _ ih1 ih2 =>
    obtain ⟨f1, h1, e1, l1⟩ := ih1
    obtain ⟨f2, h2, e2, l2⟩ := ih2
    refine ⟨max f1 f2 + 1, max h1 h2, ?_, by omega⟩
    rw [evalF_force]; simp only [hv]
    rw [evalF_mono (Nat.le_max_left f1 f2) e1]; simp only []
    rw [evalF_mono (Nat.le_max_right f1 f2) e2]
  | @forceEvalErr s w h t k ke e0 s1 w1 r s' w' hv _ _ ih1 ih2 =>
    obtain ⟨f1, h1, e1, l1⟩ := ih1
    obtain ⟨f2, h2, e2, l2⟩ := ih2
    refine ⟨max f1 f2 + 1, max h1 h2, ?_, by omega⟩
    rw [evalF_force]; simp only [hv]
    rw [evalF_mono (Nat.le_max_left f1 f2) e1]; simp only []
    rw [evalF_mono (Nat.le_max_right f1 f2) e2]
  | newThunk _ ih => obtain ⟨f, h', e, hl⟩ := ih; exact ⟨f + 1, h', e, hl⟩
  | newFn _ ih => obtain ⟨f, h', e, hl⟩ := ih; exact ⟨f + 1, h', e, hl⟩
  | @getFn s w h id o k r s' w' hg _ ih =>
    obtain ⟨f, h', e, hl⟩ := ih
    exact ⟨f + 1, h', by rw [evalF_getFn]; simp only [hg]; exact e, hl⟩
  | callOk _ _ ih1 ih2 =>
    obtain ⟨f1, h1, e1, l1⟩ := ih1
    obtain ⟨f2, h2, e2, l2⟩ := ih2
    refine ⟨max f1 f2 + 1, max h1 h2, ?_, by omega⟩
    rw [evalF_call, evalF_mono (Nat.le_max_left f1 f2) e1]; simp only []
    rw [evalF_mono (Nat.le_max_right f1 f2) e2]
  | callErr _ _ ih1 ih2 =>
    obtain ⟨f1, h1, e1, l1⟩ := ih1
    obtain ⟨f2, h2, e2, l2⟩ := ih2
    refine ⟨max f1 f2 + 1, max h1 h2, ?_, by omega⟩
    rw [evalF_call, evalF_mono (Nat.le_max_left f1 f2) e1]; simp only []
    rw [evalF_mono (Nat.le_max_right f1 f2) e2]
  | @worldOk s w h op k ke a s1 w1 r s' w' hd _ ih =>
    obtain ⟨f, h', e, hl⟩ := ih
    exact ⟨f + 1, h', by rw [evalF_world]; simp only [hd]; exact e, hl⟩
  | @worldErr s w h op k ke e0 s1 w1 r s' w' hd _ ih =>
    obtain ⟨f, h', e, hl⟩ := ih
    exact ⟨f + 1, h', by rw [evalF_world]; simp only [hd]; exact e, hl⟩
  | frameVal _ ih =>
    obtain ⟨f, h', e, hl⟩ := ih
    exact ⟨f + 1, h' + 1, by rw [evalF_frame, e], by omega⟩
  | frameErr _ ih =>
    obtain ⟨f, h', e, hl⟩ := ih
    exact ⟨f + 1, h' + 1, by rw [evalF_frame, e], by omega⟩
  | frameTail _ _ ih1 ih2 =>
    obtain ⟨f1, h1, e1, l1⟩ := ih1
    obtain ⟨f2, h2, e2, l2⟩ := ih2
    refine ⟨max f1 f2 + 1, max (h1 + 1) h2, ?_, by omega⟩
    rw [evalF_frame, evalF_mono (Nat.le_max_left f1 f2) e1]; simp only []
    rw [evalF_mono (Nat.le_max_right f1 f2) e2]

/-- **the natural semantics is deterministic**: result, final store and final world of a task are unique — for
coroutines and for frames, at any heights -/
theorem Eval.deterministic {s w task h1 h2 r1 r2 s1 s2 w1 w2}
    (e1 : Eval s w task h1 r1 s1 w1) (e2 : Eval s w task h2 r2 s2 w2) : r1 = r2 ∧ s1 = s2 ∧ w1 = w2 := by
  obtain ⟨f1, k1, a1, _⟩ := evalF_complete e1
  obtain ⟨f2, k2, a2, _⟩ := evalF_complete e2
  have b1 := evalF_mono (Nat.le_max_left f1 f2) a1
  have b2 := evalF_mono (Nat.le_max_right f1 f2) a2
  rw [b1] at b2
  simp only [Except.ok.injEq, BigResult.mk.injEq] at b2
  exact ⟨b2.1, b2.2.1, b2.2.2.1⟩

/-- the least height: every derivation can be replayed at the height `evalF` reports, which no derivation undercuts -/
theorem evalF_least_height {s w task h r s' w'} (hev : Eval s w task h r s' w') :
    ∃ h', h' ≤ h ∧ Eval s w task h' r s' w' := by
  obtain ⟨f, h', e, hl⟩ := evalF_complete hev
  exact ⟨h', hl, evalF_sound f s w task _ e⟩

end UH.BigStep
