/-
A memo-free, store-free reference semantics of the core calculus — **call by name** on trees — and the
proof that the evaluator's call-by-need big-step semantics (`BigStep.Eval`, hence the machine) computes
the values it assigns (adequacy).

`BN ρ e v` : in the tree environment `ρ` (enclosing functions and their *unevaluated* argument
expressions, each with the environment it was written in) the expression `e` has the value `v`.  No
store, no memo cells, no requestor chains, no frames: this is the lexically scoped, non-strict reading of
docs/spec.md — a function value is its body with the environment of its definition; an argument reference
re-evaluates the argument expression in the *caller's* environment; a call evaluates the body in the
environment of the function's definition extended by the argument expressions.
-/
import UH.Proofs.NatSemMemo
import UH.Proofs.NatSemPrim
import UH.Model.ByNameEval
namespace UH.ByName
open UH BigStep Comp

/-- call by name -/
inductive BN : TEnv → AST → TVal → Prop
  | lit {ρ n sp} : BN ρ (.lit n sp) (.int n)
  | funDef {ρ b sp} : BN ρ (.funDef b sp) (.clo b ρ)
  | funRef {ρ rel sp b ρ'} : pyIndex ρ.funs (-rel - 1) = some (b, ρ') → BN ρ (.funRef rel sp) (.clo b ρ')
  | argRef {ρ a relF sp frame i e' ρ' v} : pyIndex ρ.args (-relF - 1) = some frame →
      BN ρ a (.int i) → 0 ≤ i ∧ i < frame.length → frame[i.toNat]? = some (e', ρ') →
      BN ρ' e' v → BN ρ (.argRef a relF sp) v
  | call {ρ f args sp b ρd v} : tagOf f = none → BN ρ f (.clo b ρd) →
      BN (.mk (ρd.funs ++ [(b, ρd)]) (ρd.args ++ [args.map (fun a => (a, ρ))])) b v →
      BN ρ (.call f args sp) v
  /-- the Boolean constants ㅈㅈ / ㄱㅈ -/
  | ctrue {ρ n spf sp} : encodeNumber n = [7, 7] → BN ρ (.call (.lit n spf) [] sp) (.bool true)
  | cfalse {ρ n spf sp} : encodeNumber n = [0, 7] → BN ρ (.call (.lit n spf) [] sp) (.bool false)
  /-- a Boolean applied to two expressions selects one of them; the other is not evaluated -/
  | sel {ρ f x y sp b v} : tagOf f = none → BN ρ f (.bool b) → BN ρ (if b then x else y) v → BN ρ (.call f [x, y] sp) v
  /-- ㄴ on two integers -/
  | eqInt {ρ n spf a1 a2 sp x y} : encodeNumber n = [1] → BN ρ a1 (.int x) → BN ρ a2 (.int y) →
      BN ρ (.call (.lit n spf) [a1, a2] sp) (.bool (x == y))
  /-- ㄷ on two integers -/
  | addInt {ρ n spf a1 a2 sp x y} : encodeNumber n = [2] → BN ρ a1 (.int x) → BN ρ a2 (.int y) →
      BN ρ (.call (.lit n spf) [a1, a2] sp) (.int (x + y))
  /-- ㄱ on two integers -/
  | mulInt {ρ n spf a1 a2 sp x y} : encodeNumber n = [0] → BN ρ a1 (.int x) → BN ρ a2 (.int y) →
      BN ρ (.call (.lit n spf) [a1, a2] sp) (.int (x * y))
  /-- ㅈ on two integers -/
  | ltInt {ρ n spf a1 a2 sp x y} : encodeNumber n = [7] → BN ρ a1 (.int x) → BN ρ a2 (.int y) →
      BN ρ (.call (.lit n spf) [a1, a2] sp) (.bool (decide (x < y)))
  /-- ㄴㅁ on two integers, the divisor non-zero: the truncated remainder -/
  | remInt {ρ n spf a1 a2 sp x y} : encodeNumber n = [1, 4] → BN ρ a1 (.int x) → BN ρ a2 (.int y) → y ≠ 0 →
      BN ρ (.call (.lit n spf) [a1, a2] sp) (.int (Int.tmod x y))
  /-- ㅁㄹ builds a list of its argument expressions, none of them evaluated -/
  | mkList {ρ n spf args sp} : encodeNumber n = [4, 3] →
      BN ρ (.call (.lit n spf) args sp) (.list (args.map (fun a => (a, ρ))))
  /-- ㅈㄷ of a list: its number of elements — the list is evaluated, its elements are not -/
  | lenList {ρ n spf a sp elems} : encodeNumber n = [7, 2] → BN ρ a (.list elems) →
      BN ρ (.call (.lit n spf) [a] sp) (.int elems.length)
  /-- a list applied to an integer: the element at that position (negative positions count from the end) is evaluated —
  and no other element -/
  | index {ρ f a sp elems i e' ρ' v} : tagOf f = none → BN ρ f (.list elems) → BN ρ a (.int i) →
      pyIndex elems i = some (e', ρ') → BN ρ' e' v → BN ρ (.call f [a] sp) v


theorem BN.deterministic {ρ e v1 v2} (h1 : BN ρ e v1) (h2 : BN ρ e v2) : v1 = v2 := by
  induction h1 generalizing v2 with
  | lit => cases h2; rfl
  | funDef => cases h2; rfl
  | funRef h => cases h2 with | funRef h' => rw [h] at h'; cases h'; rfl
  | argRef hf _ hi hx _ ih1 ih2 =>
    cases h2 with
    | argRef hf' hp' hi' hx' hv' =>
      rw [hf] at hf'; cases hf'
      have := ih1 hp'; cases this
      rw [hx] at hx'; cases hx'
      exact ih2 hv'
  | call hf _ _ ih1 ih2 =>
    cases h2 with
    | call _ hf' hb' =>
      have := ih1 hf'; cases this
      exact ih2 hb'
    | sel _ hf' _ => have := ih1 hf'; cases this
    | index _ hf' _ _ _ => have := ih1 hf'; cases this
    | ctrue _ => simp [tagOf] at hf
    | cfalse _ => simp [tagOf] at hf
    | eqInt _ _ _ => simp [tagOf] at hf
    | addInt _ _ _ => simp [tagOf] at hf
    | mulInt _ _ _ => simp [tagOf] at hf
    | ltInt _ _ _ => simp [tagOf] at hf
    | remInt _ _ _ _ => simp [tagOf] at hf
    | mkList _ => simp [tagOf] at hf
    | lenList _ _ => simp [tagOf] at hf
  | ctrue hn =>
    cases h2 with
    | ctrue _ => rfl
    | cfalse hn' => rw [hn] at hn'; cases hn'
    | mkList hn' => rw [hn] at hn'; cases hn'
    | call hf _ _ => simp [tagOf] at hf
  | cfalse hn =>
    cases h2 with
    | cfalse _ => rfl
    | ctrue hn' => rw [hn] at hn'; cases hn'
    | mkList hn' => rw [hn] at hn'; cases hn'
    | call hf _ _ => simp [tagOf] at hf
  | sel hf _ _ ih1 ih2 =>
    cases h2 with
    | sel _ hf' hv' => have := ih1 hf'; cases this; exact ih2 hv'
    | call _ hf' _ => have := ih1 hf'; cases this
    | eqInt _ _ _ => simp [tagOf] at hf
    | addInt _ _ _ => simp [tagOf] at hf
    | mulInt _ _ _ => simp [tagOf] at hf
    | ltInt _ _ _ => simp [tagOf] at hf
    | remInt _ _ _ _ => simp [tagOf] at hf
    | mkList _ => simp [tagOf] at hf
  | eqInt hn _ _ ih1 ih2 =>
    cases h2 with
    | eqInt _ h1' h2' => have := ih1 h1'; cases this; have := ih2 h2'; cases this; rfl
    | addInt hn' _ _ => rw [hn] at hn'; cases hn'
    | mulInt hn' _ _ => rw [hn] at hn'; cases hn'
    | ltInt hn' _ _ => rw [hn] at hn'; cases hn'
    | remInt hn' _ _ _ => rw [hn] at hn'; cases hn'
    | mkList hn' => rw [hn] at hn'; cases hn'
    | call hf _ _ => simp [tagOf] at hf
    | sel hf _ _ => simp [tagOf] at hf
  | addInt hn _ _ ih1 ih2 =>
    cases h2 with
    | addInt _ h1' h2' => have := ih1 h1'; cases this; have := ih2 h2'; cases this; rfl
    | eqInt hn' _ _ => rw [hn] at hn'; cases hn'
    | mulInt hn' _ _ => rw [hn] at hn'; cases hn'
    | ltInt hn' _ _ => rw [hn] at hn'; cases hn'
    | remInt hn' _ _ _ => rw [hn] at hn'; cases hn'
    | mkList hn' => rw [hn] at hn'; cases hn'
    | call hf _ _ => simp [tagOf] at hf
    | sel hf _ _ => simp [tagOf] at hf
  | mulInt hn _ _ ih1 ih2 =>
    cases h2 with
    | mulInt _ h1' h2' => have := ih1 h1'; cases this; have := ih2 h2'; cases this; rfl
    | eqInt hn' _ _ => rw [hn] at hn'; cases hn'
    | addInt hn' _ _ => rw [hn] at hn'; cases hn'
    | ltInt hn' _ _ => rw [hn] at hn'; cases hn'
    | remInt hn' _ _ _ => rw [hn] at hn'; cases hn'
    | mkList hn' => rw [hn] at hn'; cases hn'
    | call hf _ _ => simp [tagOf] at hf
    | sel hf _ _ => simp [tagOf] at hf
  | ltInt hn _ _ ih1 ih2 =>
    cases h2 with
    | ltInt _ h1' h2' => have := ih1 h1'; cases this; have := ih2 h2'; cases this; rfl
    | eqInt hn' _ _ => rw [hn] at hn'; cases hn'
    | addInt hn' _ _ => rw [hn] at hn'; cases hn'
    | mulInt hn' _ _ => rw [hn] at hn'; cases hn'
    | remInt hn' _ _ _ => rw [hn] at hn'; cases hn'
    | mkList hn' => rw [hn] at hn'; cases hn'
    | call hf _ _ => simp [tagOf] at hf
    | sel hf _ _ => simp [tagOf] at hf
  | remInt hn _ _ _ ih1 ih2 =>
    cases h2 with
    | remInt _ h1' h2' _ => have := ih1 h1'; cases this; have := ih2 h2'; cases this; rfl
    | eqInt hn' _ _ => rw [hn] at hn'; cases hn'
    | addInt hn' _ _ => rw [hn] at hn'; cases hn'
    | mulInt hn' _ _ => rw [hn] at hn'; cases hn'
    | ltInt hn' _ _ => rw [hn] at hn'; cases hn'
    | mkList hn' => rw [hn] at hn'; cases hn'
    | call hf _ _ => simp [tagOf] at hf
    | sel hf _ _ => simp [tagOf] at hf
  | mkList hn =>
    cases h2 with
    | mkList _ => rfl
    | ctrue hn' => rw [hn] at hn'; cases hn'
    | cfalse hn' => rw [hn] at hn'; cases hn'
    | eqInt hn' _ _ => rw [hn] at hn'; cases hn'
    | addInt hn' _ _ => rw [hn] at hn'; cases hn'
    | mulInt hn' _ _ => rw [hn] at hn'; cases hn'
    | ltInt hn' _ _ => rw [hn] at hn'; cases hn'
    | remInt hn' _ _ _ => rw [hn] at hn'; cases hn'
    | lenList hn' _ => rw [hn] at hn'; cases hn'
    | call hf _ _ => simp [tagOf] at hf
    | sel hf _ _ => simp [tagOf] at hf
    | index hf _ _ _ _ => simp [tagOf] at hf
  | lenList hn _ ih =>
    cases h2 with
    | lenList _ h' => have := ih h'; cases this; rfl
    | mkList hn' => rw [hn] at hn'; cases hn'
    | call hf _ _ => simp [tagOf] at hf
    | index hf _ _ _ _ => simp [tagOf] at hf
  | index hf _ _ hidx _ ih1 ih2 ih3 =>
    cases h2 with
    | index _ hf' ha' hidx' hv' =>
      have := ih1 hf'; cases this
      have := ih2 ha'; cases this
      rw [hidx] at hidx'; cases hidx'
      exact ih3 hv'
    | call _ hf' _ => have := ih1 hf'; cases this
    | mkList _ => simp [tagOf] at hf
    | lenList _ _ => simp [tagOf] at hf

/-! ### ghost trees for heap objects -/

structure Ghost where
  cellEnv : TId → TEnv
  fnClo : FId → AST × TEnv

def Ghost.setCell (G : Ghost) (t : TId) (ρ : TEnv) : Ghost :=
  { G with cellEnv := fun u => if u = t then ρ else G.cellEnv u }
def Ghost.setFn (G : Ghost) (f : FId) (c : AST × TEnv) : Ghost :=
  { G with fnClo := fun g => if g = f then c else G.fnClo g }

def trArg (G : Ghost) (s : Store) : Arg → AST × TEnv
  | .thunk t _ => ((s.getCell t).expr, G.cellEnv t)
  | .strict _ => (.bomb, default)

def trEnv (G : Ghost) (s : Store) (env : Env) : TEnv :=
  .mk (env.funs.map G.fnClo) (env.args.map (fun fr => fr.map (trArg G s)))

theorem pyIndex_map {α β} (g : α → β) (l : List α) (i : Int) : pyIndex (l.map g) i = (pyIndex l i).map g := by
  unfold pyIndex
  simp only [List.length_map]
  split
  · simp
  · split
    · simp
    · rfl

/-- every id an environment mentions is allocated; the functions are closures, the arguments delayed expressions -/
structure Scoped (s : Store) (env : Env) : Prop where
  funs : ∀ f ∈ env.funs, ∃ b cenv, s.fns.get? f = some (.closure b cenv)
  args : ∀ fr ∈ env.args, ∀ a ∈ fr, ∃ t lit, a = .thunk t lit ∧ (s.cells.get? t).isSome

/-- the later store / ghost extend the earlier ones: nothing that was allocated has changed its expression, its
environment, its function object or its ghost tree -/
structure Ext (G : Ghost) (s : Store) (G' : Ghost) (s' : Store) : Prop where
  cells : ∀ t, (s.cells.get? t).isSome → (s'.cells.get? t).isSome ∧ (s'.getCell t).expr = (s.getCell t).expr ∧
      (s'.getCell t).env = (s.getCell t).env ∧ G'.cellEnv t = G.cellEnv t
  fns : ∀ f o, s.fns.get? f = some o → s'.fns.get? f = some o ∧ G'.fnClo f = G.fnClo f

theorem Ext.refl (G : Ghost) (s : Store) : Ext G s G s :=
  ⟨fun _ h => ⟨h, rfl, rfl, rfl⟩, fun _ _ h => ⟨h, rfl⟩⟩

theorem Ext.trans {G1 s1 G2 s2 G3 s3} (a : Ext G1 s1 G2 s2) (b : Ext G2 s2 G3 s3) : Ext G1 s1 G3 s3 := by
  refine ⟨fun t h => ?_, fun f o h => ?_⟩
  · obtain ⟨h1, e1, n1, g1⟩ := a.cells t h
    obtain ⟨h2, e2, n2, g2⟩ := b.cells t h1
    exact ⟨h2, e2.trans e1, n2.trans n1, g2.trans g1⟩
  · obtain ⟨h1, g1⟩ := a.fns f o h
    obtain ⟨h2, g2⟩ := b.fns f o h1
    exact ⟨h2, g2.trans g1⟩

theorem Scoped.ext {G s G' s' env} (h : Scoped s env) (e : Ext G s G' s') : Scoped s' env := by
  refine ⟨fun f hf => ?_, fun fr hfr a ha => ?_⟩
  · obtain ⟨b, cenv, hg⟩ := h.funs f hf
    exact ⟨b, cenv, (e.fns f _ hg).1⟩
  · obtain ⟨t, lit, rfl, ht⟩ := h.args fr hfr a ha
    exact ⟨t, lit, rfl, (e.cells t ht).1⟩

theorem trEnv_ext {G s G' s' env} (h : Scoped s env) (e : Ext G s G' s') : trEnv G' s' env = trEnv G s env := by
  unfold trEnv
  congr 1
  · apply List.map_congr_left
    intro f hf
    obtain ⟨b, cenv, hg⟩ := h.funs f hf
    exact (e.fns f _ hg).2
  · apply List.map_congr_left
    intro fr hfr
    apply List.map_congr_left
    intro a ha
    obtain ⟨t, lit, rfl, ht⟩ := h.args fr hfr a ha
    obtain ⟨_, e1, _, g1⟩ := e.cells t ht
    simp only [trArg, e1, g1]


/-! ### the invariant relating the heap to the trees -/

/-- the by-name value of the delayed expression `t` -/
def Den (G : Ghost) (s : Store) (t : TId) (tv : TVal) : Prop := BN (G.cellEnv t) (s.getCell t).expr tv

inductive RVal (G : Ghost) (s : Store) : Val → TVal → Prop
  | int (n : Int) : RVal G s (.int n) (.int n)
  | bool (b : Bool) : RVal G s (.bool b) (.bool b)
  | fn {f b ρ cenv} : s.fns.get? f = some (.closure b cenv) → G.fnClo f = (b, ρ) → RVal G s (.fn f) (.clo b ρ)
  /-- a list: every element is a delayed expression whose tree is the corresponding element of the by-name list -/
  | list {xs elems} : xs.map (trArg G s) = elems →
      (∀ a ∈ xs, ∃ t lit, a = .thunk t lit ∧ (s.cells.get? t).isSome) → RVal G s (.list xs) (.list elems)

structure Inv (G : Ghost) (s : Store) : Prop where
  cellEnv : ∀ t, (s.cells.get? t).isSome → G.cellEnv t = trEnv G s (s.getCell t).env
  cellScoped : ∀ t, (s.cells.get? t).isSome → Scoped s (s.getCell t).env
  fnClo : ∀ f b cenv, s.fns.get? f = some (.closure b cenv) →
    ∃ funs', cenv.funs = funs' ++ [f] ∧ G.fnClo f = (b, trEnv G s ⟨funs', cenv.args⟩) ∧ Scoped s ⟨funs', cenv.args⟩
  /-- what a memo cell holds is the by-name value of its expression -/
  memo : ∀ t v, (s.getCell t).value = some (.ok v) → ∀ tv, Den G s t tv → RVal G s v tv
  noErr : ∀ t e, (s.getCell t).value ≠ some (.error e)
  /-- a requestor link points to an expression with the same by-name value -/
  link : ∀ t u, (s.getCell t).requestor = some u → ∀ tv, Den G s t tv → Den G s u tv
  linkEx : ∀ t u, (s.getCell t).requestor = some u → (s.cells.get? u).isSome
  wf : HeapWF s.cells
  wfF : HeapWF s.fns

theorem RVal.ext {G s G' s' v tv} (h : RVal G s v tv) (e : Ext G s G' s') : RVal G' s' v tv := by
  cases h with
  | int n => exact .int n
  | bool b => exact .bool b
  | fn hg hc => obtain ⟨h1, h2⟩ := e.fns _ _ hg; exact .fn h1 (h2.trans hc)
  | list hm hs =>
    refine .list ?_ ?_
    · rw [← hm]
      apply List.map_congr_left
      intro a ha
      obtain ⟨t, lit, rfl, ht⟩ := hs a ha
      obtain ⟨_, e1, _, g1⟩ := e.cells t ht
      simp only [trArg, e1, g1]
    · intro a ha
      obtain ⟨t, lit, rfl, ht⟩ := hs a ha
      exact ⟨t, lit, rfl, (e.cells t ht).1⟩

theorem Den.ext {G s G' s' t tv} (e : Ext G s G' s') (ht : (s.cells.get? t).isSome) :
    Den G' s' t tv ↔ Den G s t tv := by
  obtain ⟨_, e1, _, g1⟩ := e.cells t ht
  unfold Den; rw [e1, g1]

theorem getCell_of_get? {s : Store} {t : TId} {c : Cell} (h : s.cells.get? t = some c) : s.getCell t = c := by
  simp [Store.getCell, Heap.getD_eq, h]

theorem getCell_default {s : Store} {t : TId} (h : s.cells.get? t = none) : s.getCell t = default := by
  simp [Store.getCell, Heap.getD_eq, h]

theorem value_exists {s : Store} {t : TId} {o} (h : (s.getCell t).value = some o) : (s.cells.get? t).isSome := by
  cases hg : s.cells.get? t with
  | none => rw [getCell_default hg] at h; cases h
  | some c => rfl

theorem requestor_exists {s : Store} {t u : TId} (h : (s.getCell t).requestor = some u) : (s.cells.get? t).isSome := by
  cases hg : s.cells.get? t with
  | none => rw [getCell_default hg] at h; cases h
  | some c => rfl

/-- stores that differ only in what evaluation has *learned* (values, requestor links) -/
structure SameStatic (s s' : Store) : Prop where
  fns : s'.fns = s.fns
  size : s'.cells.size = s.cells.size
  ex : ∀ t, (s'.cells.get? t).isSome = (s.cells.get? t).isSome
  expr : ∀ t, (s'.getCell t).expr = (s.getCell t).expr
  env : ∀ t, (s'.getCell t).env = (s.getCell t).env

theorem SameStatic.refl (s : Store) : SameStatic s s := ⟨rfl, rfl, fun _ => rfl, fun _ => rfl, fun _ => rfl⟩

theorem SameStatic.trans {a b c : Store} (h1 : SameStatic a b) (h2 : SameStatic b c) : SameStatic a c :=
  ⟨h2.fns.trans h1.fns, h2.size.trans h1.size, fun t => (h2.ex t).trans (h1.ex t), fun t => (h2.expr t).trans (h1.expr t),
   fun t => (h2.env t).trans (h1.env t)⟩

theorem sameStatic_modify (s : Store) (a : TId) (f : Cell → Cell) (he : ∀ c, (f c).expr = c.expr) (hn : ∀ c, (f c).env = c.env)
    (_hd : f default = default ∨ True) :
    SameStatic s { s with cells := s.cells.modify a f } := by
  refine ⟨rfl, rfl, fun t => ?_, fun t => ?_, fun t => ?_⟩
  · simp only [Heap.get?_modify]; split
    · rename_i h; subst h; simp
    · rfl
  · simp only [Store.getCell, Heap.getD_eq, Heap.get?_modify]
    by_cases h : a = t
    · subst h; cases hg : s.cells.get? a <;> simp [hg, he]
    · simp [h]
  · simp only [Store.getCell, Heap.getD_eq, Heap.get?_modify]
    by_cases h : a = t
    · subst h; cases hg : s.cells.get? a <;> simp [hg, hn]
    · simp [h]

theorem sameStatic_setValue (s : Store) (a : TId) (o : Outcome) : SameStatic s (s.setValue a o) :=
  sameStatic_modify s a _ (fun _ => rfl) (fun _ => rfl) (Or.inr trivial)

theorem sameStatic_setRequestor (s : Store) (a : TId) (b : Option TId) : SameStatic s (setRequestor s a b) :=
  sameStatic_modify s a _ (fun _ => rfl) (fun _ => rfl) (Or.inr trivial)

theorem sameStatic_resolve (o : Outcome) : ∀ (fuel : Nat) (s : Store) (a : TId), SameStatic s (s.resolve fuel a o) := by
  intro fuel
  induction fuel with
  | zero => intro s a; exact SameStatic.refl s
  | succ fuel ih =>
    intro s a
    simp only [Store.resolve]
    cases (s.getCell a).requestor with
    | none => exact sameStatic_setValue s a o
    | some r => exact (sameStatic_setValue s a o).trans (ih _ r)

theorem SameStatic.ext {s s' : Store} (h : SameStatic s s') (G : Ghost) : Ext G s G s' := by
  refine ⟨fun t ht => ⟨by rw [h.ex t]; exact ht, h.expr t, h.env t, rfl⟩, fun f o hf => ⟨by rw [h.fns]; exact hf, rfl⟩⟩

theorem SameStatic.scoped {s s' : Store} (h : SameStatic s s') {env : Env} (hs : Scoped s env) : Scoped s' env :=
  hs.ext (h.ext ⟨fun _ => default, fun _ => (.bomb, default)⟩)

theorem SameStatic.trEnv {s s' : Store} (h : SameStatic s s') (G : Ghost) (env : Env) : trEnv G s' env = trEnv G s env := by
  unfold ByName.trEnv
  congr 1
  apply List.map_congr_left; intro fr _
  apply List.map_congr_left; intro a _
  cases a with
  | strict v => rfl
  | thunk t lit => simp only [trArg, h.expr t]

theorem SameStatic.den {s s' : Store} (h : SameStatic s s') (G : Ghost) (t : TId) (tv : TVal) : Den G s' t tv ↔ Den G s t tv := by
  unfold Den; rw [h.expr t]

theorem SameStatic.rval {s s' : Store} (h : SameStatic s s') {G : Ghost} {v tv} (r : RVal G s v tv) : RVal G s' v tv :=
  r.ext (h.ext G)

/-- reachability along requestor links -/
inductive Reach (s : Store) : TId → TId → Prop
  | refl (t : TId) : Reach s t t
  | step {t r u : TId} : (s.getCell t).requestor = some r → Reach s r u → Reach s t u

theorem getCell_setValue_requestor (s : Store) (a t : TId) (o : Outcome) :
    ((s.setValue a o).getCell t).requestor = (s.getCell t).requestor := by
  simp only [Store.setValue, Store.getCell, Heap.getD_eq, Heap.get?_modify]
  by_cases h : a = t
  · subst h; cases hg : s.cells.get? a <;> simp [hg]
  · simp [h]

theorem Reach.of_setValue {s : Store} {a : TId} {o : Outcome} {t u : TId} (h : Reach (s.setValue a o) t u) : Reach s t u := by
  induction h with
  | refl t => exact .refl t
  | step hr _ ih => rw [getCell_setValue_requestor] at hr; exact .step hr ih

/-- `CacheBox.resolve` changes a cell only if it lies on the requestor chain, and then to the given outcome -/
theorem resolve_changed (o : Outcome) : ∀ (fuel : Nat) (s : Store) (t u : TId),
    ((s.resolve fuel t o).getCell u).value = (s.getCell u).value ∨
      (Reach s t u ∧ ((s.resolve fuel t o).getCell u).value = some o) := by
  intro fuel
  induction fuel with
  | zero => intro s t u; left; rfl
  | succ fuel ih =>
    intro s t u
    simp only [Store.resolve]
    have hset := C13.getCell_setValue s t u o
    cases hr : (s.getCell t).requestor with
    | none =>
      simp only []
      rw [hset]; split
      · rename_i h; right; rw [h.1]; exact ⟨.refl t, rfl⟩
      · left; rfl
    | some r =>
      simp only []
      rcases ih (s.setValue t o) r u with h | ⟨h1, h2⟩
      · rw [h, hset]; split
        · rename_i h'; right; rw [h'.1]; exact ⟨.refl t, rfl⟩
        · left; rfl
      · right; exact ⟨.step hr h1.of_setValue, h2⟩

theorem Inv.link_reach {G s} (inv : Inv G s) {t u : TId} (h : Reach s t u) : ∀ tv, Den G s t tv → Den G s u tv := by
  induction h with
  | refl t => intro tv h; exact h
  | step hr _ ih => intro tv h; exact ih tv (inv.link _ _ hr tv h)

/-- writing the by-name value of `t` into `t` and its requestor chain keeps the invariant -/
theorem Inv.resolve {G s} (inv : Inv G s) (fuel : Nat) (t : TId) (v : Val) (tv : TVal)
    (hd : Den G s t tv) (hv : RVal G s v tv) : Inv G (s.resolve fuel t (.ok v)) := by
  have st := sameStatic_resolve (.ok v) fuel s t
  have hreq : ∀ x, ((s.resolve fuel t (.ok v)).getCell x).requestor = (s.getCell x).requestor := by
    intro x
    -- resolve only uses setValue
    have : ∀ (fuel : Nat) (s : Store) (a : TId), ((s.resolve fuel a (.ok v)).getCell x).requestor = (s.getCell x).requestor := by
      intro fuel
      induction fuel with
      | zero => intro s a; rfl
      | succ fuel ih =>
        intro s a
        simp only [Store.resolve]
        cases (s.getCell a).requestor with
        | none => exact getCell_setValue_requestor s a x _
        | some r => simp only []; rw [ih, getCell_setValue_requestor]
    exact this fuel s t
  refine ⟨?_, ?_, ?_, ?_, ?_, ?_, ?_, ?_, ?_⟩
  · intro x hx; rw [st.env x, st.trEnv]; exact inv.cellEnv x (by rw [← st.ex x]; exact hx)
  · intro x hx; rw [st.env x]; exact st.scoped (inv.cellScoped x (by rw [← st.ex x]; exact hx))
  · intro f b cenv hf
    rw [st.fns] at hf
    obtain ⟨funs', h1, h2, h3⟩ := inv.fnClo f b cenv hf
    exact ⟨funs', h1, by rw [st.trEnv]; exact h2, st.scoped h3⟩
  · intro x v' hx tv' hden
    rw [st.den] at hden
    rcases resolve_changed (.ok v) fuel s t x with h | ⟨hreach, h⟩
    · rw [h] at hx; exact st.rval (inv.memo x v' hx tv' hden)
    · rw [h] at hx; cases hx
      have := inv.link_reach hreach tv hd
      have e := BN.deterministic hden this
      rw [e]; exact st.rval hv
  · intro x e hx
    rcases resolve_changed (.ok v) fuel s t x with h | ⟨_, h⟩
    · rw [h] at hx; exact inv.noErr x e hx
    · rw [h] at hx; cases hx
  · intro x u hx tv' hden
    rw [hreq] at hx
    rw [st.den] at hden ⊢
    exact inv.link x u hx tv' hden
  · intro x u hx
    rw [hreq] at hx
    rw [st.ex u]; exact inv.linkEx x u hx
  · exact resolve_cells_size _ _ _ _ inv.wf
  · rw [st.fns]; exact inv.wfF


theorem getCell_setRequestor_value (s : Store) (a x : TId) (b : Option TId) :
    ((setRequestor s a b).getCell x).value = (s.getCell x).value := by
  simp only [setRequestor, Store.getCell, Heap.getD_eq, Heap.get?_modify]
  by_cases h : a = x
  · subst h; cases hg : s.cells.get? a <;> simp
  · simp [h]

theorem getCell_setRequestor_requestor (s : Store) (a x : TId) (b : Option TId) :
    ((setRequestor s a b).getCell x).requestor = if x = a ∧ (s.cells.get? a).isSome then b else (s.getCell x).requestor := by
  simp only [setRequestor, Store.getCell, Heap.getD_eq, Heap.get?_modify]
  by_cases h : a = x
  · subst h; cases hg : s.cells.get? a <;> simp
  · have h' : ¬ x = a := fun e => h e.symm
    simp [h, h']

/-- a tail return: the new requestor link is justified by the by-name semantics -/
theorem Inv.setRequestor {G s} (inv : Inv G s) (t' t : TId) (hl : ∀ tv, Den G s t' tv → Den G s t tv)
    (hte : (s.cells.get? t).isSome) : Inv G (setRequestor s t' (some t)) := by
  have st := sameStatic_setRequestor s t' (some t)
  refine ⟨?_, ?_, ?_, ?_, ?_, ?_, ?_, ?_, ?_⟩
  · intro x hx; rw [st.env x, st.trEnv]; exact inv.cellEnv x (by rw [← st.ex x]; exact hx)
  · intro x hx; rw [st.env x]; exact st.scoped (inv.cellScoped x (by rw [← st.ex x]; exact hx))
  · intro f b cenv hf
    rw [st.fns] at hf
    obtain ⟨funs', h1, h2, h3⟩ := inv.fnClo f b cenv hf
    exact ⟨funs', h1, by rw [st.trEnv]; exact h2, st.scoped h3⟩
  · intro x v hx tv hden
    rw [getCell_setRequestor_value] at hx
    rw [st.den] at hden
    exact st.rval (inv.memo x v hx tv hden)
  · intro x e hx
    rw [getCell_setRequestor_value] at hx
    exact inv.noErr x e hx
  · intro x u hx tv hden
    rw [getCell_setRequestor_requestor] at hx
    rw [st.den] at hden ⊢
    split at hx
    · rename_i h; cases hx; rw [h.1] at hden; exact hl tv hden
    · exact inv.link x u hx tv hden
  · intro x u hx
    rw [getCell_setRequestor_requestor] at hx
    rw [st.ex u]
    split at hx
    · cases hx; exact hte
    · exact inv.linkEx x u hx
  · exact inv.wf.modify _ _
  · rw [st.fns]; exact inv.wfF

theorem ext_alloc {G : Ghost} {s : Store} (hw : HeapWF s.cells) (e : AST) (env : Env) (ρ : TEnv) :
    Ext G s (G.setCell s.cells.size ρ) (alloc s e env) := by
  refine ⟨fun t ht => ?_, fun f o hf => ⟨hf, rfl⟩⟩
  have hlt := hw t ht
  have hne : t ≠ s.cells.size := by omega
  refine ⟨exists_push _ ht, ?_, ?_, ?_⟩
  · rw [getCell_alloc_old s e env t hne]
  · rw [getCell_alloc_old s e env t hne]
  · simp [Ghost.setCell, hne]

theorem alloc_get?_new (s : Store) (e : AST) (env : Env) : ((alloc s e env).cells.get? s.cells.size).isSome := by
  simp [alloc, Heap.get?_push]

theorem alloc_exists_cases (s : Store) (e : AST) (env : Env) (t : TId) (h : ((alloc s e env).cells.get? t).isSome) :
    t = s.cells.size ∨ (t ≠ s.cells.size ∧ (s.cells.get? t).isSome) := by
  by_cases ht : t = s.cells.size
  · left; exact ht
  · right; refine ⟨ht, ?_⟩
    simp only [alloc, Heap.get?_push] at h
    have : ¬ s.cells.size = t := fun e => ht e.symm
    simpa [this] using h

/-- delaying an expression in a well-scoped environment -/
theorem Inv.alloc {G s} (inv : Inv G s) (e : AST) (env : Env) (hs : Scoped s env) :
    Inv (G.setCell s.cells.size (trEnv G s env)) (alloc s e env) := by
  have ex := ext_alloc (G := G) inv.wf e env (trEnv G s env)
  refine ⟨?_, ?_, ?_, ?_, ?_, ?_, ?_, ?_, ?_⟩
  · intro x hx
    rcases alloc_exists_cases s e env x hx with h | ⟨hne, hold⟩
    · subst h
      rw [getCell_alloc_new]
      simp only [Ghost.setCell, if_true]
      exact (trEnv_ext hs ex).symm
    · rw [getCell_alloc_old s e env x hne]
      rw [(ex.cells x hold).2.2.2, inv.cellEnv x hold]
      exact (trEnv_ext (inv.cellScoped x hold) ex).symm
  · intro x hx
    rcases alloc_exists_cases s e env x hx with h | ⟨hne, hold⟩
    · subst h; rw [getCell_alloc_new]; exact hs.ext ex
    · rw [getCell_alloc_old s e env x hne]; exact (inv.cellScoped x hold).ext ex
  · intro f b cenv hf
    obtain ⟨funs', h1, h2, h3⟩ := inv.fnClo f b cenv hf
    exact ⟨funs', h1, by rw [trEnv_ext h3 ex]; exact h2, h3.ext ex⟩
  · intro x v hx tv hden
    have hxe := value_exists hx
    rcases alloc_exists_cases s e env x hxe with h | ⟨hne, hold⟩
    · subst h; rw [getCell_alloc_new] at hx; cases hx
    · rw [getCell_alloc_old s e env x hne] at hx
      rw [Den.ext ex hold] at hden
      exact (inv.memo x v hx tv hden).ext ex
  · intro x e' hx
    have hxe := value_exists hx
    rcases alloc_exists_cases s e env x hxe with h | ⟨hne, hold⟩
    · subst h; rw [getCell_alloc_new] at hx; cases hx
    · rw [getCell_alloc_old s e env x hne] at hx; exact inv.noErr x e' hx
  · intro x u hx tv hden
    have hxe := requestor_exists hx
    rcases alloc_exists_cases s e env x hxe with h | ⟨hne, hold⟩
    · subst h; rw [getCell_alloc_new] at hx; cases hx
    · rw [getCell_alloc_old s e env x hne] at hx
      rw [Den.ext ex hold] at hden
      have hu := inv.link x u hx tv hden
      exact (Den.ext ex (inv.linkEx x u hx)).2 hu
  · intro x u hx
    have hxe := requestor_exists hx
    rcases alloc_exists_cases s e env x hxe with h | ⟨hne, hold⟩
    · subst h; rw [getCell_alloc_new] at hx; cases hx
    · rw [getCell_alloc_old s e env x hne] at hx
      exact exists_push _ (inv.linkEx x u hx)
  · exact inv.wf.push _
  · exact inv.wfF


def pushFn (s : Store) (o : FnObj) : Store := { s with fns := s.fns.push o }

theorem ext_pushFn {G : Ghost} {s : Store} (hw : HeapWF s.fns) (o : FnObj) (c : AST × TEnv) :
    Ext G s (G.setFn s.fns.size c) (pushFn s o) := by
  refine ⟨fun t ht => ⟨ht, rfl, rfl, rfl⟩, fun f o' hf => ?_⟩
  have hlt := hw f (by rw [hf]; rfl)
  have hne : ¬ s.fns.size = f := by omega
  have hne' : f ≠ s.fns.size := by omega
  refine ⟨?_, ?_⟩
  · simp only [pushFn, Heap.get?_push, hne, if_false]; exact hf
  · simp [Ghost.setFn, hne']

/-- defining a function in a well-scoped environment -/
theorem Inv.newFn {G s} (inv : Inv G s) (b : AST) (env : Env) (hs : Scoped s env) :
    Inv (G.setFn s.fns.size (b, trEnv G s env)) (pushFn s (.closure b ⟨env.funs ++ [s.fns.size], env.args⟩)) := by
  have ex := ext_pushFn (G := G) inv.wfF (.closure b ⟨env.funs ++ [s.fns.size], env.args⟩) (b, trEnv G s env)
  have hden : ∀ t tv, Den (G.setFn s.fns.size (b, trEnv G s env)) (pushFn s (.closure b ⟨env.funs ++ [s.fns.size], env.args⟩)) t tv
      ↔ Den G s t tv := fun t tv => Iff.rfl
  refine ⟨?_, ?_, ?_, ?_, ?_, ?_, ?_, ?_, ?_⟩
  · intro x hx
    show G.cellEnv x = _
    rw [inv.cellEnv x hx]
    exact (trEnv_ext (inv.cellScoped x hx) ex).symm
  · intro x hx; exact (inv.cellScoped x hx).ext ex
  · intro f b' cenv hf
    simp only [pushFn, Heap.get?_push] at hf
    by_cases hfs : s.fns.size = f
    · subst hfs
      simp only [if_true, Option.some.injEq, FnObj.closure.injEq] at hf
      obtain ⟨rfl, rfl⟩ := hf
      refine ⟨env.funs, rfl, ?_, hs.ext ex⟩
      simp only [Ghost.setFn, if_true]
      congr 1
      exact (trEnv_ext hs ex).symm
    · simp only [hfs, if_false] at hf
      obtain ⟨funs', h1, h2, h3⟩ := inv.fnClo f b' cenv hf
      refine ⟨funs', h1, ?_, h3.ext ex⟩
      rw [(ex.fns f _ hf).2, h2, trEnv_ext h3 ex]
  · intro x v hx tv hd
    exact (inv.memo x v hx tv ((hden x tv).1 hd)).ext ex
  · intro x e hx; exact inv.noErr x e hx
  · intro x u hx tv hd; exact (hden u tv).2 (inv.link x u hx tv ((hden x tv).1 hd))
  · intro x u hx; exact inv.linkEx x u hx
  · exact inv.wf
  · exact inv.wfF.push _


theorem pyIndex_mem {α} {l : List α} {i : Int} {x : α} (h : pyIndex l i = some x) : x ∈ l := by
  unfold pyIndex at h
  split at h
  · exact List.mem_of_getElem? h
  · split at h
    · exact List.mem_of_getElem? h
    · cases h

/-- the argument expressions of a call, delayed in the caller's environment -/
theorem allocArgs_spec (env : Env) : ∀ (args : List AST) (G : Ghost) (s : Store), Inv G s → Scoped s env →
    ∃ G', Inv G' (allocArgs s env args).1 ∧ Ext G s G' (allocArgs s env args).1 ∧
      (allocArgs s env args).2.map (trArg G' (allocArgs s env args).1) = args.map (fun a => (a, trEnv G s env)) ∧
      (∀ a ∈ (allocArgs s env args).2, ∃ t lit, a = .thunk t lit ∧ ((allocArgs s env args).1.cells.get? t).isSome) := by
  intro args
  induction args with
  | nil => intro G s inv _; exact ⟨G, inv, Ext.refl G s, rfl, fun a ha => by cases ha⟩
  | cons e es ih =>
    intro G s inv hs
    have inv1 := inv.alloc e env hs
    have ex1 := ext_alloc (G := G) inv.wf e env (trEnv G s env)
    obtain ⟨G', inv', ex', hmap, hsc⟩ := ih _ _ inv1 (hs.ext ex1)
    refine ⟨G', inv', ex1.trans ex', ?_, ?_⟩
    · simp only [allocArgs, List.map_cons]
      congr 1
      · -- the head argument
        have hnew := alloc_get?_new s e env
        obtain ⟨_, e1, _, g1⟩ := ex'.cells s.cells.size hnew
        simp only [trArg, e1, g1, getCell_alloc_new, Ghost.setCell, if_true]
      · rw [hmap, trEnv_ext hs ex1]
    · intro a ha
      simp only [allocArgs, List.mem_cons] at ha
      rcases ha with rfl | ha
      · exact ⟨_, _, rfl, (ex'.cells _ (alloc_get?_new s e env)).1⟩
      · exact hsc a ha

theorem Inv.den_of {G s} (_inv : Inv G s) {t : TId} {e : AST} {ρ : TEnv} {tv : TVal}
    (he : (s.getCell t).expr = e) (hρ : G.cellEnv t = ρ) (h : BN ρ e tv) : Den G s t tv := by
  unfold Den; rw [he, hρ]; exact h

/-- a frame for a cell that already holds a value: the value is handed on (and written to the requestor chain) -/
theorem frame_memo {G s} (inv : Inv G s) (w : World) {t : TId} {v : Val} {tv : TVal}
    (hv : (s.getCell t).value = some (.ok v)) (hd : Den G s t tv) :
    Eval s w (.frame t) 1 (.ok (.arg (.strict v))) (s.resolve (s.cells.size + 1) t (.ok v)) w ∧
      Inv G (s.resolve (s.cells.size + 1) t (.ok v)) ∧ Ext G s G (s.resolve (s.cells.size + 1) t (.ok v)) ∧
      RVal G (s.resolve (s.cells.size + 1) t (.ok v)) v tv := by
  have rv := inv.memo t v hv tv hd
  have st := sameStatic_resolve (.ok v) (s.cells.size + 1) s t
  refine ⟨?_, inv.resolve _ t v tv hd rv, st.ext G, st.rval rv⟩
  refine Eval.frameVal (h := 0) ?_
  rw [newFrame_cur_ok hv]
  exact .ret _ _ _ _

/-- the conclusion of adequacy for one delayed expression -/
def Adequate (tv : TVal) (G : Ghost) (s : Store) (w : World) (t : TId) : Prop :=
  ∃ (G' : Ghost) (s' : Store) (v : Val) (h : Nat),
    Eval s w (.frame t) h (.ok (.arg (.strict v))) s' w ∧ Inv G' s' ∧ Ext G s G' s' ∧ RVal G' s' v tv

/-- from "adequate when unevaluated" to "adequate in any state of the memo cell" -/
theorem adequate_any {ρ e tv} (hbn : BN ρ e tv)
    (IH : ∀ (G : Ghost) (s : Store) (w : World) (t : TId), Inv G s → (s.cells.get? t).isSome → (s.getCell t).expr = e →
      G.cellEnv t = ρ → (s.getCell t).value = none → Adequate tv G s w t)
    (G : Ghost) (s : Store) (w : World) (t : TId) (inv : Inv G s) (hex : (s.cells.get? t).isSome)
    (he : (s.getCell t).expr = e) (hρ : G.cellEnv t = ρ) : Adequate tv G s w t := by
  cases hv : (s.getCell t).value with
  | none => exact IH G s w t inv hex he hρ hv
  | some o =>
    cases o with
    | error e' => exact absurd hv (inv.noErr t e')
    | ok v =>
      obtain ⟨h1, h2, h3, h4⟩ := frame_memo inv w hv (inv.den_of he hρ hbn)
      exact ⟨G, _, v, 1, h1, h2, h3, h4⟩


/-- a demand for a delayed expression, however its memo cell stands: it delivers a value related to the by-name value -/
theorem forces_any {ρ e tv} (hbn : BN ρ e tv)
    (IH : ∀ (G : Ghost) (s : Store) (w : World) (t : TId), Inv G s → (s.cells.get? t).isSome → (s.getCell t).expr = e →
      G.cellEnv t = ρ → (s.getCell t).value = none → Adequate tv G s w t)
    (G : Ghost) (s : Store) (w : World) (t : TId) (inv : Inv G s) (hex : (s.cells.get? t).isSome)
    (he : (s.getCell t).expr = e) (hρ : G.cellEnv t = ρ) :
    ∃ (G' : Ghost) (s' : Store) (v : Val) (h0 : Nat), Forces s w t v h0 s' ∧ Inv G' s' ∧ Ext G s G' s' ∧ RVal G' s' v tv := by
  cases hv : (s.getCell t).value with
  | none =>
    obtain ⟨G', s', v, h, ev, inv', ex, rv⟩ := IH G s w t inv hex he hρ hv
    exact ⟨G', s', v, h, Forces.eval hv ev, inv', ex, rv⟩
  | some o =>
    cases o with
    | error e' => exact absurd hv (inv.noErr t e')
    | ok v => exact ⟨G, s, v, 0, Forces.memo w hv, inv, Ext.refl G s, inv.memo t v hv tv (inv.den_of he hρ hbn)⟩

theorem builtin_name {n : Int} {e : List Digit} (h : encodeNumber n = e) (he : builtinNames.contains e = true) :
    isBuiltinName n = true := by unfold isBuiltinName; rw [h]; exact he

/-- **adequacy of call by need for call by name**: if the memo-free tree semantics assigns the value `tv` to the
expression delayed in cell `t`, the evaluator's big-step semantics evaluates `t` to a value related to `tv`
(the same integer / the closure of the same body and environment), keeping the invariant -/
theorem adequacy {ρ e tv} (hbn : BN ρ e tv) : ∀ (G : Ghost) (s : Store) (w : World) (t : TId),
    Inv G s → (s.cells.get? t).isSome → (s.getCell t).expr = e → G.cellEnv t = ρ → (s.getCell t).value = none →
    Adequate tv G s w t := by
  induction hbn with
  | @lit ρ n sp =>
    intro G s w t inv hex he hρ hnone
    have hd : Den G s t (.int n) := inv.den_of he hρ BN.lit
    have st := sameStatic_resolve (.ok (.int n)) (s.cells.size + 1) s t
    refine ⟨G, _, .int n, 1, ?_, inv.resolve _ t _ _ hd (.int n), st.ext G, .int n⟩
    refine Eval.frameVal (h := 0) ?_
    rw [newFrame_cur_none hnone, he]
    exact rule_lit _ _ _ _ _ _
  | @funDef ρ b sp =>
    intro G s w t inv hex he hρ hnone
    let env := (s.getCell t).env
    have hsc := inv.cellScoped t hex
    have hρ' : ρ = trEnv G s env := hρ.symm.trans (inv.cellEnv t hex)
    have inv1 := inv.newFn b env hsc
    have ex1 := ext_pushFn (G := G) inv.wfF (.closure b ⟨env.funs ++ [s.fns.size], env.args⟩) (b, trEnv G s env)
    have hd1 : Den (G.setFn s.fns.size (b, trEnv G s env)) (pushFn s (.closure b ⟨env.funs ++ [s.fns.size], env.args⟩)) t (.clo b ρ) :=
      inv.den_of (G := G) (s := s) he hρ BN.funDef
    have rv1 : RVal (G.setFn s.fns.size (b, trEnv G s env)) (pushFn s (.closure b ⟨env.funs ++ [s.fns.size], env.args⟩))
        (.fn s.fns.size) (.clo b ρ) := by
      refine RVal.fn (cenv := ⟨env.funs ++ [s.fns.size], env.args⟩) ?_ ?_
      · simp [pushFn, Heap.get?_push]
      · simp [Ghost.setFn, hρ']
    have st := sameStatic_resolve (.ok (.fn s.fns.size)) ((pushFn s (.closure b ⟨env.funs ++ [s.fns.size], env.args⟩)).cells.size + 1)
      (pushFn s (.closure b ⟨env.funs ++ [s.fns.size], env.args⟩)) t
    refine ⟨_, _, .fn s.fns.size, 1, ?_, inv1.resolve _ t _ _ hd1 rv1, ex1.trans (st.ext _), st.rval rv1⟩
    refine Eval.frameVal (h := 0) ?_
    rw [newFrame_cur_none hnone, he]
    exact rule_funDef s w 0 b sp env
  | @funRef ρ rel sp b ρ' hidx =>
    intro G s w t inv hex he hρ hnone
    let env := (s.getCell t).env
    have hsc := inv.cellScoped t hex
    have hρ' : ρ = trEnv G s env := hρ.symm.trans (inv.cellEnv t hex)
    rw [hρ'] at hidx
    simp only [trEnv, TEnv.funs, pyIndex_map] at hidx
    cases hf : pyIndex env.funs (-rel - 1) with
    | none => rw [hf] at hidx; cases hidx
    | some f =>
      rw [hf] at hidx
      simp only [Option.map_some, Option.some.injEq] at hidx
      obtain ⟨b', cenv, hget⟩ := hsc.funs f (pyIndex_mem hf)
      obtain ⟨funs', _, hclo, _⟩ := inv.fnClo f b' cenv hget
      have hb : b' = b := by rw [hclo] at hidx; exact (Prod.mk.inj hidx).1
      subst hb
      have hd : Den G s t (.clo b' ρ') := inv.den_of he hρ (by rw [hρ']; exact BN.funRef (by simp only [trEnv, TEnv.funs, pyIndex_map, hf, Option.map_some, hidx]))
      have rv : RVal G s (.fn f) (.clo b' ρ') := .fn hget hidx
      have st := sameStatic_resolve (.ok (.fn f)) (s.cells.size + 1) s t
      refine ⟨G, _, .fn f, 1, ?_, inv.resolve _ t _ _ hd rv, st.ext G, st.rval rv⟩
      refine Eval.frameVal (h := 0) ?_
      rw [newFrame_cur_none hnone, he]
      exact rule_funRef s w 0 rel sp env f hf
  | @argRef ρ a relF sp frame i e' ρ' v hfr hpos hi hx hv ih1 ih2 =>
    intro G s w t inv hex he hρ hnone
    let env := (s.getCell t).env
    have hsc := inv.cellScoped t hex
    have hρ' : ρ = trEnv G s env := hρ.symm.trans (inv.cellEnv t hex)
    have hfr' := hfr
    rw [hρ'] at hfr'
    simp only [trEnv, TEnv.args, pyIndex_map] at hfr'
    cases hfe : pyIndex env.args (-relF - 1) with
    | none => rw [hfe] at hfr'; cases hfr'
    | some fr =>
      rw [hfe] at hfr'
      simp only [Option.map_some, Option.some.injEq] at hfr'
      -- the position expression, delayed in the referring environment
      have inv1 := inv.alloc a env hsc
      have ex1 := ext_alloc (G := G) inv.wf a env (trEnv G s env)
      obtain ⟨G2, s2, v2, h1, ev1, inv2, ex12, rv2⟩ :=
        ih1 (G.setCell s.cells.size (trEnv G s env)) (alloc s a env) w s.cells.size inv1 (alloc_get?_new s a env)
          (by rw [getCell_alloc_new]) (by simp [Ghost.setCell, hρ']) (by rw [getCell_alloc_new])
      cases rv2
      -- the selected argument
      have hx' := hx
      rw [← hfr', List.getElem?_map] at hx'
      cases hxe : fr[i.toNat]? with
      | none => rw [hxe] at hx'; cases hx'
      | some x =>
        rw [hxe] at hx'
        simp only [Option.map_some, Option.some.injEq] at hx'
        obtain ⟨t', lit, rfl, ht'⟩ := hsc.args fr (pyIndex_mem hfe) x (List.mem_of_getElem? hxe)
        simp only [trArg, Prod.mk.injEq] at hx'
        obtain ⟨he', hρ''⟩ := hx'
        have ex02 := ex1.trans ex12
        have hi' : 0 ≤ i ∧ i < (fr.length : Int) := by
          rw [← hfr', List.length_map] at hi; exact hi
        have hbody : Eval s w (.comp (bodyOf (.argRef a relF sp) env)) h1 (.ok (.arg (.thunk t' lit))) s2 w :=
          rule_argRef s w h1 a relF sp env fr i (.thunk t' lit) s2 w hfe ev1 hi' hxe
        have ht'2 := (ex02.cells t' ht').1
        have ht2 := (ex02.cells t hex).1
        have hl : ∀ tv', Den G2 s2 t' tv' → Den G2 s2 t tv' := by
          intro tv' hd
          rw [Den.ext ex02 ht'] at hd
          rw [Den.ext ex02 hex]
          unfold Den at hd ⊢
          rw [he, hρ]
          rw [he', hρ''] at hd
          exact BN.argRef hfr hpos hi hx hd
        have inv2' := inv2.setRequestor t' t hl ht2
        have st2 := sameStatic_setRequestor s2 t' (some t)
        obtain ⟨G3, s3, v3, h2, ev2, inv3, ex23, rv3⟩ :=
          adequate_any hv ih2 G2 (setRequestor s2 t' (some t)) w t' inv2' (by rw [st2.ex]; exact ht'2)
            (by rw [st2.expr, (ex02.cells t' ht').2.1]; exact he') (by rw [(ex02.cells t' ht').2.2.2]; exact hρ'')
        refine ⟨G3, s3, v3, max h1 h2 + 1, ?_, inv3, ex02.trans ((st2.ext G2).trans ex23), rv3⟩
        refine Eval.frameTail (t' := t') (lit := lit) ?_ (ev2.mono _ (by omega))
        rw [newFrame_cur_none hnone, he]
        exact hbody.mono _ (Nat.le_max_left _ _)
  | @call ρ f args sp b ρd v hf hcallee hbody ih1 ih2 =>
    intro G s w t inv hex he hρ hnone
    let env := (s.getCell t).env
    have hsc := inv.cellScoped t hex
    have hρ' : ρ = trEnv G s env := hρ.symm.trans (inv.cellEnv t hex)
    -- the function expression and the argument expressions, delayed in the caller's environment
    have inv0 := inv.alloc f env hsc
    have ex0 := ext_alloc (G := G) inv.wf f env (trEnv G s env)
    obtain ⟨Ga, inva, exa, hmap, hargs⟩ := allocArgs_spec env args _ _ inv0 (hsc.ext ex0)
    have hnew0 := alloc_get?_new s f env
    have hna := exa.cells s.cells.size hnew0
    -- the function expression evaluates to a closure
    obtain ⟨G2, s2, v2, h1, ev1, inv2, ex12, rv2⟩ :=
      ih1 Ga (allocArgs (alloc s f env) env args).1 w s.cells.size inva hna.1
        (by rw [hna.2.1, getCell_alloc_new]) (by rw [hna.2.2.2]; simp [Ghost.setCell, hρ'])
        (by rw [allocArgs_getCell env args _ _ (by simp [alloc]), getCell_alloc_new])
    cases rv2 with
    | @fn fid _ _ cenv hget hclo =>
      obtain ⟨funs', hfuns, hclo', hsc'⟩ := inv2.fnClo fid b cenv hget
      have hρd : ρd = trEnv G2 s2 ⟨funs', cenv.args⟩ := by rw [hclo] at hclo'; exact (Prod.mk.inj hclo').2
      have ex02 := (ex0.trans exa).trans ex12
      let argv := (allocArgs (alloc s f env) env args).2
      -- the body, delayed in the captured environment extended by the arguments
      have hscb : Scoped s2 ⟨cenv.funs, cenv.args ++ [argv]⟩ := by
        refine ⟨fun g hg => ?_, fun fr hfr a ha => ?_⟩
        · simp only [hfuns, List.mem_append, List.mem_singleton] at hg
          rcases hg with hg | rfl
          · exact hsc'.funs g hg
          · exact ⟨b, cenv, hget⟩
        · simp only [List.mem_append, List.mem_singleton] at hfr
          rcases hfr with hfr | rfl
          · exact hsc'.args fr hfr a ha
          · obtain ⟨ta, lit, rfl, hta⟩ := hargs a ha
            exact ⟨ta, lit, rfl, (ex12.cells ta hta).1⟩
      have henvb : trEnv G2 s2 ⟨cenv.funs, cenv.args ++ [argv]⟩ =
          .mk (ρd.funs ++ [(b, ρd)]) (ρd.args ++ [args.map (fun a => (a, ρ))]) := by
        have hargv : argv.map (trArg G2 s2) = args.map (fun a => (a, ρ)) := by
          have h1 : argv.map (trArg G2 s2) = argv.map (trArg Ga (allocArgs (alloc s f env) env args).1) := by
            apply List.map_congr_left
            intro a ha
            obtain ⟨ta, lit, rfl, hta⟩ := hargs a ha
            obtain ⟨_, e1, _, g1⟩ := ex12.cells ta hta
            simp only [trArg, e1, g1]
          rw [h1, hmap, trEnv_ext hsc ex0, ← hρ']
        have e1 : ρd.funs = funs'.map G2.fnClo := by rw [hρd]; rfl
        have e2 : ρd.args = cenv.args.map (fun fr => fr.map (trArg G2 s2)) := by rw [hρd]; rfl
        simp only [trEnv, hfuns, List.map_append, List.map_cons, List.map_nil, hclo, hargv, e1, e2]
      have inv3 := inv2.alloc b ⟨cenv.funs, cenv.args ++ [argv]⟩ hscb
      have ex23 := ext_alloc (G := G2) inv2.wf b ⟨cenv.funs, cenv.args ++ [argv]⟩ (trEnv G2 s2 ⟨cenv.funs, cenv.args ++ [argv]⟩)
      have ex03 := ex02.trans ex23
      have hcomp : Eval s w (.comp (bodyOf (.call f args sp) env)) h1 (.ok (.arg (.thunk s2.cells.size (tagOf b))))
          (alloc s2 b ⟨cenv.funs, cenv.args ++ [argv]⟩) w :=
        rule_call_closure s w h1 f args sp env fid b cenv s2 w hf ev1 hget
      have hnewb := alloc_get?_new s2 b ⟨cenv.funs, cenv.args ++ [argv]⟩
      have hl : ∀ tv', Den (G2.setCell s2.cells.size (trEnv G2 s2 ⟨cenv.funs, cenv.args ++ [argv]⟩))
            (alloc s2 b ⟨cenv.funs, cenv.args ++ [argv]⟩) s2.cells.size tv' →
          Den (G2.setCell s2.cells.size (trEnv G2 s2 ⟨cenv.funs, cenv.args ++ [argv]⟩))
            (alloc s2 b ⟨cenv.funs, cenv.args ++ [argv]⟩) t tv' := by
        intro tv' hd
        rw [Den.ext ex03 hex]
        unfold Den at hd ⊢
        rw [he, hρ]
        rw [getCell_alloc_new] at hd
        simp only [Ghost.setCell, if_true, henvb] at hd
        exact BN.call hf hcallee hd
      have inv3' := inv3.setRequestor s2.cells.size t hl (ex03.cells t hex).1
      have st3 := sameStatic_setRequestor (alloc s2 b ⟨cenv.funs, cenv.args ++ [argv]⟩) s2.cells.size (some t)
      obtain ⟨G4, s4, v4, h2, ev2, inv4, ex34, rv4⟩ :=
        ih2 _ (setRequestor (alloc s2 b ⟨cenv.funs, cenv.args ++ [argv]⟩) s2.cells.size (some t)) w s2.cells.size inv3'
          (by rw [st3.ex]; exact hnewb) (by rw [st3.expr, getCell_alloc_new])
          (by simp only [Ghost.setCell, if_true, henvb])
          (by rw [getCell_setRequestor_value, getCell_alloc_new])
      refine ⟨G4, s4, v4, max h1 h2 + 1, ?_, inv4, ex03.trans ((st3.ext _).trans ex34), rv4⟩
      refine Eval.frameTail (t' := s2.cells.size) (lit := tagOf b) ?_ (ev2.mono _ (by omega))
      rw [newFrame_cur_none hnone, he]
      exact hcomp.mono _ (Nat.le_max_left _ _)

  | @ctrue ρ n spf sp hn =>
    intro G s w t inv hex he hρ hnone
    let env := (s.getCell t).env
    have hsc := inv.cellScoped t hex
    have inv0 := inv.alloc (.lit n spf) env hsc
    have ex0 := ext_alloc (G := G) inv.wf (.lit n spf) env (trEnv G s env)
    have hb : builtinOf n = some bTrue := by simp [builtinOf, hn]
    have hcomp : Eval s w (.comp (bodyOf (.call (.lit n spf) [] sp) env)) 0 (.ok (.arg (.strict (.bool true))))
        (alloc s (.lit n spf) env) w :=
      rule_call_builtin s w 0 n spf [] sp env bTrue (builtin_name hn (by decide)) hb (eval_true _ _ _ _)
    have hd : Den (G.setCell s.cells.size (trEnv G s env)) (alloc s (.lit n spf) env) t (.bool true) :=
      (Den.ext ex0 hex).2 (inv.den_of he hρ (BN.ctrue hn))
    have st := sameStatic_resolve (.ok (.bool true)) ((alloc s (.lit n spf) env).cells.size + 1) (alloc s (.lit n spf) env) t
    refine ⟨_, _, .bool true, 1, ?_, inv0.resolve _ t _ _ hd (.bool true), ex0.trans (st.ext _), .bool true⟩
    refine Eval.frameVal (h := 0) ?_
    rw [newFrame_cur_none hnone, he]
    exact hcomp
  | @cfalse ρ n spf sp hn =>
    intro G s w t inv hex he hρ hnone
    let env := (s.getCell t).env
    have hsc := inv.cellScoped t hex
    have inv0 := inv.alloc (.lit n spf) env hsc
    have ex0 := ext_alloc (G := G) inv.wf (.lit n spf) env (trEnv G s env)
    have hb : builtinOf n = some bFalse := by simp [builtinOf, hn]
    have hcomp : Eval s w (.comp (bodyOf (.call (.lit n spf) [] sp) env)) 0 (.ok (.arg (.strict (.bool false))))
        (alloc s (.lit n spf) env) w :=
      rule_call_builtin s w 0 n spf [] sp env bFalse (builtin_name hn (by decide)) hb (eval_false _ _ _ _)
    have hd : Den (G.setCell s.cells.size (trEnv G s env)) (alloc s (.lit n spf) env) t (.bool false) :=
      (Den.ext ex0 hex).2 (inv.den_of he hρ (BN.cfalse hn))
    have st := sameStatic_resolve (.ok (.bool false)) ((alloc s (.lit n spf) env).cells.size + 1) (alloc s (.lit n spf) env) t
    refine ⟨_, _, .bool false, 1, ?_, inv0.resolve _ t _ _ hd (.bool false), ex0.trans (st.ext _), .bool false⟩
    refine Eval.frameVal (h := 0) ?_
    rw [newFrame_cur_none hnone, he]
    exact hcomp
  | @sel ρ f x y sp b v hf hcallee hsel ih1 ih2 =>
    intro G s w t inv hex he hρ hnone
    let env := (s.getCell t).env
    have hsc := inv.cellScoped t hex
    have hρ' : ρ = trEnv G s env := hρ.symm.trans (inv.cellEnv t hex)
    have inv0 := inv.alloc f env hsc
    have ex0 := ext_alloc (G := G) inv.wf f env (trEnv G s env)
    obtain ⟨Ga, inva, exa, hmap, hargs⟩ := allocArgs_spec env [x, y] _ _ inv0 (hsc.ext ex0)
    have hnew0 := alloc_get?_new s f env
    have hna := exa.cells s.cells.size hnew0
    obtain ⟨G2, s2, v2, h1, ev1, inv2, ex12, rv2⟩ :=
      ih1 Ga (allocArgs (alloc s f env) env [x, y]).1 w s.cells.size inva hna.1
        (by rw [hna.2.1, getCell_alloc_new]) (by rw [hna.2.2.2]; simp [Ghost.setCell, hρ'])
        (by rw [allocArgs_getCell env [x, y] _ _ (by simp [alloc]), getCell_alloc_new])
    cases rv2
    have ex02 := (ex0.trans exa).trans ex12
    have hcomp := rule_call_bool s w h1 f x y sp env b s2 w hf ev1
    -- the two argument cells
    have hsz : (alloc s f env).cells.size = s.cells.size + 1 := by simp [alloc]
    simp only [allocArgs, List.map_cons, List.map_nil, hsz, alloc, Heap.size_push, trArg, List.cons.injEq, Prod.mk.injEq, and_true] at hmap
    obtain ⟨⟨hx1, hx2⟩, hy1, hy2⟩ := hmap
    have hax := hargs (.thunk (s.cells.size + 1) (tagOf x)) (by simp [allocArgs, alloc])
    have hay := hargs (.thunk (s.cells.size + 1 + 1) (tagOf y)) (by simp [allocArgs, alloc])
    obtain ⟨_, _, hax1, hax2⟩ := hax
    obtain ⟨_, _, hay1, hay2⟩ := hay
    cases hax1; cases hay1
    -- the selected one
    have key : ∀ (tt : TId) (ee : AST) (lit : Option Int), ((allocArgs (alloc s f env) env [x, y]).1.cells.get? tt).isSome →
        ((allocArgs (alloc s f env) env [x, y]).1.getCell tt).expr = ee → Ga.cellEnv tt = trEnv (G.setCell s.cells.size (trEnv G s env)) (alloc s f env) env →
        BN ρ ee v → (∀ tv', BN ρ ee tv' → BN ρ (.call f [x, y] sp) tv') →
        (∀ (G : Ghost) (s : Store) (w : World) (t : TId), Inv G s → (s.cells.get? t).isSome → (s.getCell t).expr = ee →
          G.cellEnv t = ρ → (s.getCell t).value = none → Adequate v G s w t) →
        Eval s w (.comp (bodyOf (.call f [x, y] sp) env)) h1 (.ok (.arg (.thunk tt lit))) s2 w →
        Adequate v G s w t := by
      intro tt ee lit htt hee hgg hbnee hlink ihh hcomp'
      have htt2 := (ex12.cells tt htt).1
      have ht2 := (ex02.cells t hex).1
      have hgρ : G2.cellEnv tt = ρ := by
        rw [(ex12.cells tt htt).2.2.2, hgg, trEnv_ext hsc ex0, ← hρ']
      have hl : ∀ tv', Den G2 s2 tt tv' → Den G2 s2 t tv' := by
        intro tv' hd
        rw [Den.ext ex02 hex]
        unfold Den at hd ⊢
        rw [he, hρ]
        rw [(ex12.cells tt htt).2.1, hee, hgρ] at hd
        exact hlink tv' hd
      have inv2' := inv2.setRequestor tt t hl ht2
      have st2 := sameStatic_setRequestor s2 tt (some t)
      obtain ⟨G3, s3, v3, h2, ev2, inv3, ex23, rv3⟩ :=
        adequate_any hbnee ihh G2 (setRequestor s2 tt (some t)) w tt inv2' (by rw [st2.ex]; exact htt2)
          (by rw [st2.expr, (ex12.cells tt htt).2.1]; exact hee) hgρ
      refine ⟨G3, s3, v3, max h1 h2 + 1, ?_, inv3, ex02.trans ((st2.ext G2).trans ex23), rv3⟩
      refine Eval.frameTail (t' := tt) (lit := lit) ?_ (ev2.mono _ (by omega))
      rw [newFrame_cur_none hnone, he]
      exact hcomp'.mono _ (Nat.le_max_left _ _)
    cases b with
    | true =>
      exact key (s.cells.size + 1) x (tagOf x) hax2 hx1 hx2 hsel (fun tv' h' => BN.sel hf hcallee h') ih2 (by simpa using hcomp)
    | false =>
      exact key (s.cells.size + 1 + 1) y (tagOf y) hay2 hy1 hy2 hsel (fun tv' h' => BN.sel hf hcallee h') ih2 (by simpa using hcomp)
  | @mkList ρ n spf args sp hn =>
    intro G s w t inv hex he hρ hnone
    let env := (s.getCell t).env
    have hsc := inv.cellScoped t hex
    have hρ' : ρ = trEnv G s env := hρ.symm.trans (inv.cellEnv t hex)
    have inv0 := inv.alloc (.lit n spf) env hsc
    have ex0 := ext_alloc (G := G) inv.wf (.lit n spf) env (trEnv G s env)
    obtain ⟨Ga, inva, exa, hmap, hargs⟩ := allocArgs_spec env args _ _ inv0 (hsc.ext ex0)
    have hb : builtinOf n = some bList := by simp [builtinOf, hn]
    have hcomp : Eval s w (.comp (bodyOf (.call (.lit n spf) args sp) env)) 0
        (.ok (.arg (.strict (.list (allocArgs (alloc s (.lit n spf) env) env args).2))))
        (allocArgs (alloc s (.lit n spf) env) env args).1 w :=
      rule_call_builtin s w 0 n spf args sp env bList (builtin_name hn (by decide)) hb (by
        simp only [bList, retV, Comp.bind]; exact .ret _ _ _ _)
    have ex0a := ex0.trans exa
    have hd : Den Ga (allocArgs (alloc s (.lit n spf) env) env args).1 t (.list (args.map (fun a => (a, ρ)))) :=
      (Den.ext ex0a hex).2 (inv.den_of he hρ (BN.mkList hn))
    have rv : RVal Ga (allocArgs (alloc s (.lit n spf) env) env args).1
        (.list (allocArgs (alloc s (.lit n spf) env) env args).2) (.list (args.map (fun a => (a, ρ)))) := by
      refine .list ?_ hargs
      rw [hmap, trEnv_ext hsc ex0, ← hρ']
    have st := sameStatic_resolve (.ok (.list (allocArgs (alloc s (.lit n spf) env) env args).2))
      ((allocArgs (alloc s (.lit n spf) env) env args).1.cells.size + 1) (allocArgs (alloc s (.lit n spf) env) env args).1 t
    refine ⟨Ga, _, _, 1, ?_, inva.resolve _ t _ _ hd rv, ex0a.trans (st.ext _), st.rval rv⟩
    refine Eval.frameVal (h := 0) ?_
    rw [newFrame_cur_none hnone, he]
    exact hcomp
  | @index ρ f a sp elems i e' ρ' v hf hcallee hidxarg hidx hbody ih1 ih2 ih3 =>
    intro G s w t inv hex he hρ hnone
    let env := (s.getCell t).env
    have hsc := inv.cellScoped t hex
    have hρ' : ρ = trEnv G s env := hρ.symm.trans (inv.cellEnv t hex)
    have inv0 := inv.alloc f env hsc
    have ex0 := ext_alloc (G := G) inv.wf f env (trEnv G s env)
    obtain ⟨Ga, inva, exa, hmap, hargs⟩ := allocArgs_spec env [a] _ _ inv0 (hsc.ext ex0)
    have hnew0 := alloc_get?_new s f env
    have hna := exa.cells s.cells.size hnew0
    -- the function expression evaluates to a list
    obtain ⟨G2, s2, v2, h1, ev1, inv2, ex12, rv2⟩ :=
      ih1 Ga (allocArgs (alloc s f env) env [a]).1 w s.cells.size inva hna.1
        (by rw [hna.2.1, getCell_alloc_new]) (by rw [hna.2.2.2]; simp [Ghost.setCell, hρ'])
        (by rw [allocArgs_getCell env [a] _ _ (by simp [alloc]), getCell_alloc_new])
    cases rv2 with
    | @list xs _ hxs hxsc =>
      -- the argument cell
      have hsz : (alloc s f env).cells.size = s.cells.size + 1 := by simp [alloc]
      simp only [allocArgs, List.map_cons, List.map_nil, hsz, alloc, Heap.size_push, trArg, List.cons.injEq, Prod.mk.injEq,
        and_true] at hmap
      obtain ⟨hx1, hx2⟩ := hmap
      obtain ⟨_, _, hax1, hax2⟩ := hargs (.thunk (s.cells.size + 1) (tagOf a)) (by simp [allocArgs, alloc])
      cases hax1
      have hρa : trEnv (G.setCell s.cells.size (trEnv G s env)) (alloc s f env) env = ρ := by
        rw [trEnv_ext hsc ex0, ← hρ']
      have hax2' := ex12.cells _ hax2
      obtain ⟨G3, s3, v3, k3, f3, inv3, ex23, rv3⟩ := forces_any hidxarg ih2 G2 s2 w (s.cells.size + 1) inv2 hax2'.1
        (by rw [hax2'.2.1]; exact hx1) (by rw [hax2'.2.2.2]; exact hx2.trans hρa)
      cases rv3
      -- the selected element: a delayed expression of the store, with the tree the by-name list holds at that position
      rw [← hxs, pyIndex_map] at hidx
      cases hp : pyIndex xs i with
      | none => rw [hp] at hidx; cases hidx
      | some x =>
        rw [hp] at hidx
        have htr : trArg G2 s2 x = (e', ρ') := by simpa using hidx
        obtain ⟨tt, lit, rfl, htt2⟩ := hxsc x (pyIndex_mem hp)
        simp only [trArg, Prod.mk.injEq] at htr
        obtain ⟨hte, htg⟩ := htr
        have hx23 := ex23.cells tt htt2
        have ex02 := (ex0.trans exa).trans ex12
        have ex03 := ex02.trans ex23
        have hcomp := rule_call_list s w (max h1 k3) f a sp env xs i (.thunk tt lit) s2 s3 k3 hf
          (ev1.mono _ (Nat.le_max_left _ _)) f3 (Nat.le_max_right _ _) hp
        have hgρ : G3.cellEnv tt = ρ' := by rw [hx23.2.2.2]; exact htg
        have hl : ∀ tv', Den G3 s3 tt tv' → Den G3 s3 t tv' := by
          intro tv' hd
          rw [Den.ext ex03 hex]
          unfold Den at hd ⊢
          rw [he, hρ]
          rw [hx23.2.1, hte, hgρ] at hd
          exact BN.index hf hcallee hidxarg (by rw [← hxs, pyIndex_map, hp]; simp [trArg, hte, htg]) hd
        have inv3' := inv3.setRequestor tt t hl (ex03.cells t hex).1
        have st3 := sameStatic_setRequestor s3 tt (some t)
        obtain ⟨G4, s4, v4, h2, ev2, inv4, ex34, rv4⟩ :=
          adequate_any hbody ih3 G3 (setRequestor s3 tt (some t)) w tt inv3' (by rw [st3.ex]; exact hx23.1)
            (by rw [st3.expr, hx23.2.1]; exact hte) hgρ
        refine ⟨G4, s4, v4, max (max h1 k3) h2 + 1, ?_, inv4, ex03.trans ((st3.ext G3).trans ex34), rv4⟩
        refine Eval.frameTail (t' := tt) (lit := lit) ?_ (ev2.mono _ (by omega))
        rw [newFrame_cur_none hnone, he]
        exact hcomp.mono _ (Nat.le_max_left _ _)
  | @lenList ρ n spf a sp elems hn hb1 ih1 =>
    intro G s w t inv hex he hρ hnone
    let env := (s.getCell t).env
    have hsc := inv.cellScoped t hex
    have hρ' : ρ = trEnv G s env := hρ.symm.trans (inv.cellEnv t hex)
    have inv0 := inv.alloc (.lit n spf) env hsc
    have ex0 := ext_alloc (G := G) inv.wf (.lit n spf) env (trEnv G s env)
    obtain ⟨Ga, inva, exa, hmap, hargs⟩ := allocArgs_spec env [a] _ _ inv0 (hsc.ext ex0)
    have hsz : (alloc s (.lit n spf) env).cells.size = s.cells.size + 1 := by simp [alloc]
    simp only [allocArgs, List.map_cons, List.map_nil, hsz, alloc, Heap.size_push, trArg, List.cons.injEq, Prod.mk.injEq,
      and_true] at hmap
    obtain ⟨hx1, hx2⟩ := hmap
    obtain ⟨_, _, hax1, hax2⟩ := hargs (.thunk (s.cells.size + 1) (tagOf a)) (by simp [allocArgs, alloc])
    cases hax1
    have hρa : trEnv (G.setCell s.cells.size (trEnv G s env)) (alloc s (.lit n spf) env) env = ρ := by
      rw [trEnv_ext hsc ex0, ← hρ']
    obtain ⟨G1, s1, v1, k1, f1, inv1, ex1, rv1⟩ := forces_any hb1 ih1 Ga _ w (s.cells.size + 1) inva hax2 hx1 (hx2.trans hρa)
    cases rv1 with
    | @list xs _ hxs hxsc =>
      have hlen : xs.length = elems.length := by rw [← hxs, List.length_map]
      have hbi : builtinOf n = some bLen := by simp [builtinOf, hn]
      have hcomp : Eval s w (.comp (bodyOf (.call (.lit n spf) [a] sp) env)) k1 (.ok (.arg (.strict (.int xs.length)))) s1 w := by
        refine rule_call_builtin s w _ n spf [a] sp env bLen (builtin_name hn (by decide)) hbi ?_
        simp only [allocArgs, hsz, alloc, Heap.size_push]
        exact eval_len_list f1 _ (Nat.le_refl _)
      rw [hlen] at hcomp
      have ex01 := (ex0.trans exa).trans ex1
      have hd : Den G1 s1 t (.int elems.length) := (Den.ext ex01 hex).2 (inv.den_of he hρ (BN.lenList hn hb1))
      have st := sameStatic_resolve (.ok (.int elems.length)) (s1.cells.size + 1) s1 t
      refine ⟨G1, _, .int elems.length, k1 + 1, ?_, inv1.resolve _ t _ _ hd (.int _), ex01.trans (st.ext _), .int _⟩
      refine Eval.frameVal ?_
      rw [newFrame_cur_none hnone, he]
      exact hcomp
  | @eqInt ρ n spf a1 a2 sp x y hn hb1 hb2 ih1 ih2 =>
    intro G s w t inv hex he hρ hnone
    let env := (s.getCell t).env
    have hsc := inv.cellScoped t hex
    have hρ' : ρ = trEnv G s env := hρ.symm.trans (inv.cellEnv t hex)
    have inv0 := inv.alloc (.lit n spf) env hsc
    have ex0 := ext_alloc (G := G) inv.wf (.lit n spf) env (trEnv G s env)
    obtain ⟨Ga, inva, exa, hmap, hargs⟩ := allocArgs_spec env [a1, a2] _ _ inv0 (hsc.ext ex0)
    have hsz : (alloc s (.lit n spf) env).cells.size = s.cells.size + 1 := by simp [alloc]
    simp only [allocArgs, List.map_cons, List.map_nil, hsz, alloc, Heap.size_push, trArg, List.cons.injEq, Prod.mk.injEq, and_true] at hmap
    obtain ⟨⟨hx1, hx2⟩, hy1, hy2⟩ := hmap
    obtain ⟨_, _, hax1, hax2⟩ := hargs (.thunk (s.cells.size + 1) (tagOf a1)) (by simp [allocArgs, alloc])
    obtain ⟨_, _, hay1, hay2⟩ := hargs (.thunk (s.cells.size + 1 + 1) (tagOf a2)) (by simp [allocArgs, alloc])
    cases hax1; cases hay1
    have hρa : trEnv (G.setCell s.cells.size (trEnv G s env)) (alloc s (.lit n spf) env) env = ρ := by
      rw [trEnv_ext hsc ex0, ← hρ']
    obtain ⟨G1, s1, v1, k1, f1, inv1, ex1, rv1⟩ := forces_any hb1 ih1 Ga _ w (s.cells.size + 1) inva hax2 hx1 (hx2.trans hρa)
    cases rv1
    have hay2' := (ex1.cells _ hay2)
    obtain ⟨G2, s2, v2, k2, f2, inv2, ex2, rv2⟩ := forces_any hb2 ih2 G1 s1 w (s.cells.size + 1 + 1) inv1 hay2'.1
      (by rw [hay2'.2.1]; exact hy1) (by rw [hay2'.2.2.2]; exact hy2.trans hρa)
    cases rv2
    have hbi : builtinOf n = some bEquals := by simp [builtinOf, hn]
    have hcomp : Eval s w (.comp (bodyOf (.call (.lit n spf) [a1, a2] sp) env)) (max k1 k2) (.ok (.arg (.strict (.bool (x == y))))) s2 w := by
      refine rule_call_builtin s w _ n spf [a1, a2] sp env bEquals (builtin_name hn (by decide)) hbi ?_
      simp only [allocArgs, hsz, alloc, Heap.size_push]
      exact eval_equals_ints f1 f2 _ (Nat.le_max_left _ _) (Nat.le_max_right _ _)
    have ex02 := ((ex0.trans exa).trans ex1).trans ex2
    have hd : Den G2 s2 t (.bool (x == y)) := (Den.ext ex02 hex).2 (inv.den_of he hρ (BN.eqInt hn hb1 hb2))
    have st := sameStatic_resolve (.ok (.bool (x == y))) (s2.cells.size + 1) s2 t
    refine ⟨G2, _, .bool (x == y), max k1 k2 + 1, ?_, inv2.resolve _ t _ _ hd (.bool _), ex02.trans (st.ext _), .bool _⟩
    refine Eval.frameVal ?_
    rw [newFrame_cur_none hnone, he]
    exact hcomp
  | @addInt ρ n spf a1 a2 sp x y hn hb1 hb2 ih1 ih2 =>
    intro G s w t inv hex he hρ hnone
    let env := (s.getCell t).env
    have hsc := inv.cellScoped t hex
    have hρ' : ρ = trEnv G s env := hρ.symm.trans (inv.cellEnv t hex)
    have inv0 := inv.alloc (.lit n spf) env hsc
    have ex0 := ext_alloc (G := G) inv.wf (.lit n spf) env (trEnv G s env)
    obtain ⟨Ga, inva, exa, hmap, hargs⟩ := allocArgs_spec env [a1, a2] _ _ inv0 (hsc.ext ex0)
    have hsz : (alloc s (.lit n spf) env).cells.size = s.cells.size + 1 := by simp [alloc]
    simp only [allocArgs, List.map_cons, List.map_nil, hsz, alloc, Heap.size_push, trArg, List.cons.injEq, Prod.mk.injEq, and_true] at hmap
    obtain ⟨⟨hx1, hx2⟩, hy1, hy2⟩ := hmap
    obtain ⟨_, _, hax1, hax2⟩ := hargs (.thunk (s.cells.size + 1) (tagOf a1)) (by simp [allocArgs, alloc])
    obtain ⟨_, _, hay1, hay2⟩ := hargs (.thunk (s.cells.size + 1 + 1) (tagOf a2)) (by simp [allocArgs, alloc])
    cases hax1; cases hay1
    have hρa : trEnv (G.setCell s.cells.size (trEnv G s env)) (alloc s (.lit n spf) env) env = ρ := by
      rw [trEnv_ext hsc ex0, ← hρ']
    obtain ⟨G1, s1, v1, k1, f1, inv1, ex1, rv1⟩ := forces_any hb1 ih1 Ga _ w (s.cells.size + 1) inva hax2 hx1 (hx2.trans hρa)
    cases rv1
    have hax2' := (ex1.cells _ hax2)
    obtain ⟨G1', s1', v1', k1', f1', inv1', ex1', rv1'⟩ := forces_any hb1 ih1 G1 s1 w (s.cells.size + 1) inv1 hax2'.1
      (by rw [hax2'.2.1]; exact hx1) (by rw [hax2'.2.2.2]; exact hx2.trans hρa)
    cases rv1'
    have hay2' := ((ex1.trans ex1').cells _ hay2)
    obtain ⟨G2, s2, v2, k2, f2, inv2, ex2, rv2⟩ := forces_any hb2 ih2 G1' s1' w (s.cells.size + 1 + 1) inv1' hay2'.1
      (by rw [hay2'.2.1]; exact hy1) (by rw [hay2'.2.2.2]; exact hy2.trans hρa)
    cases rv2
    have hbi : builtinOf n = some bAdd := by simp [builtinOf, hn]
    have hcomp : Eval s w (.comp (bodyOf (.call (.lit n spf) [a1, a2] sp) env)) (max (max k1 k1') k2) (.ok (.arg (.strict (.int (x + y))))) s2 w := by
      refine rule_call_builtin s w _ n spf [a1, a2] sp env bAdd (builtin_name hn (by decide)) hbi ?_
      simp only [allocArgs, hsz, alloc, Heap.size_push]
      exact eval_add_ints f1 f1' f2 _ (by omega) (by omega) (by omega)
    have ex02 := (((ex0.trans exa).trans ex1).trans ex1').trans ex2
    have hd : Den G2 s2 t (.int (x + y)) := (Den.ext ex02 hex).2 (inv.den_of he hρ (BN.addInt hn hb1 hb2))
    have st := sameStatic_resolve (.ok (.int (x + y))) (s2.cells.size + 1) s2 t
    refine ⟨G2, _, .int (x + y), max (max k1 k1') k2 + 1, ?_, inv2.resolve _ t _ _ hd (.int _), ex02.trans (st.ext _), .int _⟩
    refine Eval.frameVal ?_
    rw [newFrame_cur_none hnone, he]
    exact hcomp
  | @mulInt ρ n spf a1 a2 sp x y hn hb1 hb2 ih1 ih2 =>
    intro G s w t inv hex he hρ hnone
    let env := (s.getCell t).env
    have hsc := inv.cellScoped t hex
    have hρ' : ρ = trEnv G s env := hρ.symm.trans (inv.cellEnv t hex)
    have inv0 := inv.alloc (.lit n spf) env hsc
    have ex0 := ext_alloc (G := G) inv.wf (.lit n spf) env (trEnv G s env)
    obtain ⟨Ga, inva, exa, hmap, hargs⟩ := allocArgs_spec env [a1, a2] _ _ inv0 (hsc.ext ex0)
    have hsz : (alloc s (.lit n spf) env).cells.size = s.cells.size + 1 := by simp [alloc]
    simp only [allocArgs, List.map_cons, List.map_nil, hsz, alloc, Heap.size_push, trArg, List.cons.injEq, Prod.mk.injEq, and_true] at hmap
    obtain ⟨⟨hx1, hx2⟩, hy1, hy2⟩ := hmap
    obtain ⟨_, _, hax1, hax2⟩ := hargs (.thunk (s.cells.size + 1) (tagOf a1)) (by simp [allocArgs, alloc])
    obtain ⟨_, _, hay1, hay2⟩ := hargs (.thunk (s.cells.size + 1 + 1) (tagOf a2)) (by simp [allocArgs, alloc])
    cases hax1; cases hay1
    have hρa : trEnv (G.setCell s.cells.size (trEnv G s env)) (alloc s (.lit n spf) env) env = ρ := by
      rw [trEnv_ext hsc ex0, ← hρ']
    obtain ⟨G1, s1, v1, k1, f1, inv1, ex1, rv1⟩ := forces_any hb1 ih1 Ga _ w (s.cells.size + 1) inva hax2 hx1 (hx2.trans hρa)
    cases rv1
    have hay2' := (ex1.cells _ hay2)
    obtain ⟨G2, s2, v2, k2, f2, inv2, ex2, rv2⟩ := forces_any hb2 ih2 G1 s1 w (s.cells.size + 1 + 1) inv1 hay2'.1
      (by rw [hay2'.2.1]; exact hy1) (by rw [hay2'.2.2.2]; exact hy2.trans hρa)
    cases rv2
    have hbi : builtinOf n = some bMultiply := by simp [builtinOf, hn]
    have hcomp : Eval s w (.comp (bodyOf (.call (.lit n spf) [a1, a2] sp) env)) (max k1 k2) (.ok (.arg (.strict (.int (x * y))))) s2 w := by
      refine rule_call_builtin s w _ n spf [a1, a2] sp env bMultiply (builtin_name hn (by decide)) hbi ?_
      simp only [allocArgs, hsz, alloc, Heap.size_push]
      exact eval_mul_ints f1 f2 _ (Nat.le_max_left _ _) (Nat.le_max_right _ _)
    have ex02 := ((ex0.trans exa).trans ex1).trans ex2
    have hd : Den G2 s2 t (.int (x * y)) := (Den.ext ex02 hex).2 (inv.den_of he hρ (BN.mulInt hn hb1 hb2))
    have st := sameStatic_resolve (.ok (.int (x * y))) (s2.cells.size + 1) s2 t
    refine ⟨G2, _, .int (x * y), max k1 k2 + 1, ?_, inv2.resolve _ t _ _ hd (.int _), ex02.trans (st.ext _), .int _⟩
    refine Eval.frameVal ?_
    rw [newFrame_cur_none hnone, he]
    exact hcomp
  | @ltInt ρ n spf a1 a2 sp x y hn hb1 hb2 ih1 ih2 =>
    intro G s w t inv hex he hρ hnone
    let env := (s.getCell t).env
    have hsc := inv.cellScoped t hex
    have hρ' : ρ = trEnv G s env := hρ.symm.trans (inv.cellEnv t hex)
    have inv0 := inv.alloc (.lit n spf) env hsc
    have ex0 := ext_alloc (G := G) inv.wf (.lit n spf) env (trEnv G s env)
    obtain ⟨Ga, inva, exa, hmap, hargs⟩ := allocArgs_spec env [a1, a2] _ _ inv0 (hsc.ext ex0)
    have hsz : (alloc s (.lit n spf) env).cells.size = s.cells.size + 1 := by simp [alloc]
    simp only [allocArgs, List.map_cons, List.map_nil, hsz, alloc, Heap.size_push, trArg, List.cons.injEq, Prod.mk.injEq, and_true] at hmap
    obtain ⟨⟨hx1, hx2⟩, hy1, hy2⟩ := hmap
    obtain ⟨_, _, hax1, hax2⟩ := hargs (.thunk (s.cells.size + 1) (tagOf a1)) (by simp [allocArgs, alloc])
    obtain ⟨_, _, hay1, hay2⟩ := hargs (.thunk (s.cells.size + 1 + 1) (tagOf a2)) (by simp [allocArgs, alloc])
    cases hax1; cases hay1
    have hρa : trEnv (G.setCell s.cells.size (trEnv G s env)) (alloc s (.lit n spf) env) env = ρ := by
      rw [trEnv_ext hsc ex0, ← hρ']
    obtain ⟨G1, s1, v1, k1, f1, inv1, ex1, rv1⟩ := forces_any hb1 ih1 Ga _ w (s.cells.size + 1) inva hax2 hx1 (hx2.trans hρa)
    cases rv1
    have hay2' := (ex1.cells _ hay2)
    obtain ⟨G2, s2, v2, k2, f2, inv2, ex2, rv2⟩ := forces_any hb2 ih2 G1 s1 w (s.cells.size + 1 + 1) inv1 hay2'.1
      (by rw [hay2'.2.1]; exact hy1) (by rw [hay2'.2.2.2]; exact hy2.trans hρa)
    cases rv2
    have hbi : builtinOf n = some bLessThan := by simp [builtinOf, hn]
    have hcomp : Eval s w (.comp (bodyOf (.call (.lit n spf) [a1, a2] sp) env)) (max k1 k2) (.ok (.arg (.strict (.bool (decide (x < y)))))) s2 w := by
      refine rule_call_builtin s w _ n spf [a1, a2] sp env bLessThan (builtin_name hn (by decide)) hbi ?_
      simp only [allocArgs, hsz, alloc, Heap.size_push]
      exact eval_lt_ints f1 f2 _ (Nat.le_max_left _ _) (Nat.le_max_right _ _)
    have ex02 := ((ex0.trans exa).trans ex1).trans ex2
    have hd : Den G2 s2 t (.bool (decide (x < y))) := (Den.ext ex02 hex).2 (inv.den_of he hρ (BN.ltInt hn hb1 hb2))
    have st := sameStatic_resolve (.ok (.bool (decide (x < y)))) (s2.cells.size + 1) s2 t
    refine ⟨G2, _, .bool (decide (x < y)), max k1 k2 + 1, ?_, inv2.resolve _ t _ _ hd (.bool _), ex02.trans (st.ext _), .bool _⟩
    refine Eval.frameVal ?_
    rw [newFrame_cur_none hnone, he]
    exact hcomp
  | @remInt ρ n spf a1 a2 sp x y hn hb1 hb2 hy ih1 ih2 =>
    intro G s w t inv hex he hρ hnone
    let env := (s.getCell t).env
    have hsc := inv.cellScoped t hex
    have hρ' : ρ = trEnv G s env := hρ.symm.trans (inv.cellEnv t hex)
    have inv0 := inv.alloc (.lit n spf) env hsc
    have ex0 := ext_alloc (G := G) inv.wf (.lit n spf) env (trEnv G s env)
    obtain ⟨Ga, inva, exa, hmap, hargs⟩ := allocArgs_spec env [a1, a2] _ _ inv0 (hsc.ext ex0)
    have hsz : (alloc s (.lit n spf) env).cells.size = s.cells.size + 1 := by simp [alloc]
    simp only [allocArgs, List.map_cons, List.map_nil, hsz, alloc, Heap.size_push, trArg, List.cons.injEq, Prod.mk.injEq, and_true] at hmap
    obtain ⟨⟨hx1, hx2⟩, hy1, hy2⟩ := hmap
    obtain ⟨_, _, hax1, hax2⟩ := hargs (.thunk (s.cells.size + 1) (tagOf a1)) (by simp [allocArgs, alloc])
    obtain ⟨_, _, hay1, hay2⟩ := hargs (.thunk (s.cells.size + 1 + 1) (tagOf a2)) (by simp [allocArgs, alloc])
    cases hax1; cases hay1
    have hρa : trEnv (G.setCell s.cells.size (trEnv G s env)) (alloc s (.lit n spf) env) env = ρ := by
      rw [trEnv_ext hsc ex0, ← hρ']
    obtain ⟨G1, s1, v1, k1, f1, inv1, ex1, rv1⟩ := forces_any hb1 ih1 Ga _ w (s.cells.size + 1) inva hax2 hx1 (hx2.trans hρa)
    cases rv1
    have hay2' := (ex1.cells _ hay2)
    obtain ⟨G2, s2, v2, k2, f2, inv2, ex2, rv2⟩ := forces_any hb2 ih2 G1 s1 w (s.cells.size + 1 + 1) inv1 hay2'.1
      (by rw [hay2'.2.1]; exact hy1) (by rw [hay2'.2.2.2]; exact hy2.trans hρa)
    cases rv2
    have hbi : builtinOf n = some bRemainder := by simp [builtinOf, hn]
    have hcomp : Eval s w (.comp (bodyOf (.call (.lit n spf) [a1, a2] sp) env)) (max k1 k2) (.ok (.arg (.strict (.int (Int.tmod x y))))) s2 w := by
      refine rule_call_builtin s w _ n spf [a1, a2] sp env bRemainder (builtin_name hn (by decide)) hbi ?_
      simp only [allocArgs, hsz, alloc, Heap.size_push]
      exact eval_rem_ints f1 f2 hy _ (Nat.le_max_left _ _) (Nat.le_max_right _ _)
    have ex02 := ((ex0.trans exa).trans ex1).trans ex2
    have hd : Den G2 s2 t (.int (Int.tmod x y)) := (Den.ext ex02 hex).2 (inv.den_of he hρ (BN.remInt hn hb1 hb2 hy))
    have st := sameStatic_resolve (.ok (.int (Int.tmod x y))) (s2.cells.size + 1) s2 t
    refine ⟨G2, _, .int (Int.tmod x y), max k1 k2 + 1, ?_, inv2.resolve _ t _ _ hd (.int _), ex02.trans (st.ext _), .int _⟩
    refine Eval.frameVal ?_
    rw [newFrame_cur_none hnone, he]
    exact hcomp


/-! ### closed programs -/

theorem heapWF_ofList {α : Type} (l : List α) : HeapWF (Heap.ofList l) := by
  unfold Heap.ofList
  suffices h : ∀ (l : List α) (h0 : Heap α), HeapWF h0 → HeapWF (l.foldl Heap.push h0) from h l _ HeapWF.empty
  intro l
  induction l with
  | nil => intro h0 h; exact h
  | cons a as ih => intro h0 h; exact ih _ (h.push a)

theorem ofList_get? {α : Type} (l : List α) (i : Nat) (o : α) (h : (Heap.ofList l).get? i = some o) : o ∈ l := by
  unfold Heap.ofList at h
  suffices hh : ∀ (l : List α) (h0 : Heap α), (l.foldl Heap.push h0).get? i = some o → o ∈ l ∨ h0.get? i = some o by
    rcases hh l _ h with h' | h'
    · exact h'
    · simp [Heap.empty, Heap.get?] at h'
  intro l
  induction l with
  | nil => intro h0 h; right; exact h
  | cons a as ih =>
    intro h0 h
    rcases ih _ h with h' | h'
    · left; exact List.mem_cons_of_mem _ h'
    · rw [Heap.get?_push] at h'
      split at h'
      · cases h'; left; exact List.mem_cons_self
      · right; exact h'

def ghost0 : Ghost := ⟨fun _ => default, fun _ => (.bomb, default)⟩

/-- the initial store satisfies the invariant: no cells, and no user-defined function objects -/
theorem inv_init : Inv ghost0 initStore := by
  have hc : ∀ t, initStore.cells.get? t = none := by intro t; simp [initStore, Heap.empty, Heap.get?]
  refine ⟨?_, ?_, ?_, ?_, ?_, ?_, ?_, HeapWF.empty, heapWF_ofList _⟩
  · intro t ht; rw [hc t] at ht; cases ht
  · intro t ht; rw [hc t] at ht; cases ht
  · intro f b cenv hf
    have := ofList_get? _ f _ hf
    simp only [List.mem_map] at this
    obtain ⟨_, _, h⟩ := this
    cases h
  · intro t v hv; rw [getCell_default (hc t)] at hv; cases hv
  · intro t e hv; rw [getCell_default (hc t)] at hv; cases hv
  · intro t u hr; rw [getCell_default (hc t)] at hr; cases hr
  · intro t u hr; rw [getCell_default (hc t)] at hr; cases hr

/-- **a closed program**: if call by name gives the program expression `e` the integer `n` (in the empty
environment), then the evaluator, started on the freshly delayed program in the initial store, evaluates it to `n`;
and whenever the evaluation fits under the stack limit, so does the micro-step machine (`interpret.evaluate`) -/
theorem adequacy_program (e : AST) (n : Int) (w : World) (hbn : BN (.mk [] []) e (.int n)) :
    ∃ (h : Nat) (s' : Store), Eval (alloc initStore e ⟨[], []⟩) w (.frame initStore.cells.size) h
        (.ok (.arg (.strict (.int n)))) s' w := by
  have hsc0 : Scoped initStore ⟨[], []⟩ := by
    constructor
    · intro f hf; cases hf
    · intro fr hfr; cases hfr
  have inv1 := inv_init.alloc e ⟨[], []⟩ hsc0
  obtain ⟨G', s', v, h, ev, _, _, rv⟩ := adequacy hbn _ (alloc initStore e ⟨[], []⟩) w initStore.cells.size inv1
    (alloc_get?_new _ _ _) (by rw [getCell_alloc_new]) (by simp [Ghost.setCell, trEnv]) (by rw [getCell_alloc_new])
  cases rv
  exact ⟨h, s', ev⟩

end UH.ByName
