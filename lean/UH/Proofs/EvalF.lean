/-
The executable big-step evaluator `evalF` only returns what the natural semantics derives, hence what
the micro-step machine computes.
-/
import UH.Proofs.NatSem
namespace UH.BigStep
open UH Unforced C19

theorem evalF_sound : ∀ (fuel : Nat) (s : Store) (w : World) (task : Task) (br : BigResult),
    evalF fuel s w task = .ok br → Eval s w task br.height br.res br.store br.world := by
  intro fuel
  induction fuel with
  | zero => intro s w task br h; simp [evalF] at h
  | succ fuel ih =>
    intro s w task br h
    cases task with
    | comp c =>
      cases c with
      | ret r => simp only [evalF] at h; cases h; exact .ret _ _ _ _
      | throw e => simp only [evalF] at h; cases h; exact .throw _ _ _ _
      | bottom => simp [evalF] at h
      | unmodelled why => simp [evalF] at h
      | force t k ke =>
        simp only [evalF] at h
        split at h
        · rename_i v hv; exact .forceOk hv (ih _ _ _ _ h)
        · rename_i e hv; exact .forceErr hv (ih _ _ _ _ h)
        · rename_i hv
          split at h
          · cases h
          · rename_i v s1 w1 h1 hf
            split at h
            · rename_i r s2 w2 h2 hk
              cases h
              have e1 := ih _ _ _ _ hf
              have e2 := ih _ _ _ _ hk
              exact .forceEvalOk hv (e1.mono _ (Nat.le_max_left _ _)) (e2.mono _ (Nat.le_max_right _ _))
            · cases h
          · rename_i e s1 w1 h1 hf
            split at h
            · rename_i r s2 w2 h2 hk
              cases h
              have e1 := ih _ _ _ _ hf
              have e2 := ih _ _ _ _ hk
              exact .forceEvalErr hv (e1.mono _ (Nat.le_max_left _ _)) (e2.mono _ (Nat.le_max_right _ _))
            · cases h
          · cases h
      | newThunk e env k => simp only [evalF] at h; exact .newThunk (ih _ _ _ _ h)
      | newFn mk k => simp only [evalF] at h; exact .newFn (ih _ _ _ _ h)
      | getFn id k =>
        simp only [evalF] at h
        split at h
        · rename_i o ho; exact .getFn ho (ih _ _ _ _ h)
        · cases h
      | call op k ke =>
        simp only [evalF] at h
        split at h
        · cases h
        · rename_i x s1 w1 h1 hf
          split at h
          · rename_i r s2 w2 h2 hk
            cases h
            exact .callOk ((ih _ _ _ _ hf).mono _ (Nat.le_max_left _ _)) ((ih _ _ _ _ hk).mono _ (Nat.le_max_right _ _))
          · cases h
        · rename_i e s1 w1 h1 hf
          split at h
          · rename_i r s2 w2 h2 hk
            cases h
            exact .callErr ((ih _ _ _ _ hf).mono _ (Nat.le_max_left _ _)) ((ih _ _ _ _ hk).mono _ (Nat.le_max_right _ _))
          · cases h
      | world op k ke =>
        simp only [evalF] at h
        split at h
        · rename_i s1 w1 a hd; exact .worldOk hd (ih _ _ _ _ h)
        · rename_i s1 w1 e hd; exact .worldErr hd (ih _ _ _ _ h)
        · cases h
    | frame t =>
      simp only [evalF] at h
      split at h
      · cases h
      · rename_i v s1 w1 h1 hf
        cases h
        exact .frameVal (ih _ _ _ _ hf)
      · rename_i e s1 w1 h1 hf
        cases h
        exact .frameErr (ih _ _ _ _ hf)
      · rename_i t' lit s1 w1 h1 hf
        split at h
        · rename_i r s2 w2 h2 hk
          cases h
          have e1 := ih _ _ _ _ hf
          have e2 := ih _ _ _ _ hk
          have hpos := e2.frame_pos
          obtain ⟨m, hm⟩ : ∃ m, max (h1 + 1) h2 = m + 1 := ⟨max (h1 + 1) h2 - 1, by omega⟩
          simp only [] at e1 e2 ⊢
          rw [hm]
          exact .frameTail (e1.mono m (by omega)) (e2.mono (m + 1) (by omega))
        · cases h
      · cases h

/-- **the executable big-step evaluator agrees with the machine**: when `evalF` returns a result for the head
coroutine and the height it reports fits under `MAX_STACK_SIZE`, `evaluate` (the micro-step machine) finishes
with exactly that result, store and world -/
theorem evalF_machine (fuel : Nat) (s : Store) (w : World) (c : Comp Res) (br : BigResult)
    (h : evalF fuel s w (.comp c) = .ok br) (hh : br.height < maxStackSize) :
    ∃ n, (runN n (initState s w c)).status = .done br.res ∧ (runN n (initState s w c)).store = br.store ∧
      (runN n (initState s w c)).world = br.world :=
  (evalF_sound fuel s w _ br h).run_head hh

end UH.BigStep
