/-
More consequences of the big-step semantics:

* results of the head coroutine are unique (`Eval.head_deterministic`);
* the **sequencing rule** (`Eval.bind`): a coroutine followed by a continuation evaluates the coroutine
  first, then the continuation on its result, threading store and world — and **an exception raised by the
  first part propagates through the continuation** (C10: "through every strict position");
* `try … except` inside a coroutine (`Eval.tryCatch`): the handler runs exactly when the body raised, with the
  raised exception (C10);
* evaluation "to a value of any type" in continuation-passing form (`EvalTo`), and with it the execution of
  I/O actions (C07): a `ㄱㄹ` action executes its first action, applies the continuation to the value it
  produced, and executes the action this returns — the world is threaded in exactly that order
  (`exec_bind`), `ㅈㄹ` appends its string and a newline (`exec_print`), `ㄹ` consumes one line
  (`exec_input`), `ㄱㅅ` performs nothing (`exec_return`).
-/
import UH.Proofs.NatSem
namespace UH.BigStep
open UH Unforced C19 Comp

/-! ### uniqueness of results at the top level -/

theorem runN_done_stable (n k : Nat) (m : MState) (r : Except ErrV Res) (h : (runN n m).status = .done r) :
    runN (n + k) m = runN n m := by
  rw [runN_add]
  cases k with
  | zero => rfl
  | succ k => simp only [runN, h]

theorem Eval.head_deterministic {s w c h1 h2 r1 r2 s1 s2 w1 w2}
    (e1 : Eval s w (.comp c) h1 r1 s1 w1) (e2 : Eval s w (.comp c) h2 r2 s2 w2)
    (hh1 : h1 < maxStackSize) (hh2 : h2 < maxStackSize) : r1 = r2 ∧ s1 = s2 ∧ w1 = w2 := by
  obtain ⟨n1, a1, b1, c1⟩ := e1.run_head hh1
  obtain ⟨n2, a2, b2, c2⟩ := e2.run_head hh2
  have k1 := runN_done_stable n1 n2 _ _ a1
  have k2 := runN_done_stable n2 n1 _ _ a2
  rw [Nat.add_comm] at k2
  have e : runN n1 (initState s w c) = runN n2 (initState s w c) := k1.symm.trans k2
  rw [e] at a1 b1 c1
  refine ⟨?_, b1.symm.trans b2, c1.symm.trans c2⟩
  have := a1.symm.trans a2
  simpa using this

/-! ### sequencing and exception propagation -/

/-- what "`c` followed by `k`" does, given what `c` did -/
def BindGoal (k : Res → Comp Res) (h : Nat) (s : Store) (w : World) (c : Comp Res) (res : Except ErrV Res)
    (s1 : Store) (w1 : World) : Prop :=
  match res with
  | .ok x => ∀ r s' w', Eval s1 w1 (.comp (k x)) h r s' w' → Eval s w (.comp (c.bind k)) h r s' w'
  | .error e => Eval s w (.comp (c.bind k)) h (.error e) s1 w1

theorem Eval.bind_aux {s w task h res s1 w1} (hev : Eval s w task h res s1 w1) :
    ∀ (k : Res → Comp Res), match task with
      | .comp c => BindGoal k h s w c res s1 w1
      | .frame _ => True := by
  induction hev with
  | ret s w h r => intro k; exact fun _ _ _ hk => hk
  | throw s w h e => intro k; exact .throw _ _ _ _
  | @forceOk s w h t k0 ke0 v r s' w' hv _ ih =>
    intro k
    have := ih k
    cases r with
    | ok x => exact fun r' s'' w'' hk => .forceOk hv (this r' s'' w'' hk)
    | error e => exact .forceOk hv this
  | @forceErr s w h t k0 ke0 e r s' w' hv _ ih =>
    intro k
    have := ih k
    cases r with
    | ok x => exact fun r' s'' w'' hk => .forceErr hv (this r' s'' w'' hk)
    | error e => exact .forceErr hv this
  | @forceEvalOk s w h t k0 ke0 v s1 w1 r s' w' hv hf _ _ ih =>
    intro k
    have := ih k
    cases r with
    | ok x => exact fun r' s'' w'' hk => .forceEvalOk hv hf (this r' s'' w'' hk)
    | error e => exact .forceEvalOk hv hf this
  | @forceEvalErr s w h t k0 ke0 e s1 w1 r s' w' hv hf _ _ ih =>
    intro k
    have := ih k
    cases r with
    | ok x => exact fun r' s'' w'' hk => .forceEvalErr hv hf (this r' s'' w'' hk)
    | error e => exact .forceEvalErr hv hf this
  | @newThunk s w h e env k0 r s' w' _ ih =>
    intro k
    have := ih k
    cases r with
    | ok x => exact fun r' s'' w'' hk => .newThunk (this r' s'' w'' hk)
    | error e => exact .newThunk this
  | @newFn s w h mk k0 r s' w' _ ih =>
    intro k
    have := ih k
    cases r with
    | ok x => exact fun r' s'' w'' hk => .newFn (this r' s'' w'' hk)
    | error e => exact .newFn this
  | @getFn s w h id o k0 r s' w' hg _ ih =>
    intro k
    have := ih k
    cases r with
    | ok x => exact fun r' s'' w'' hk => .getFn hg (this r' s'' w'' hk)
    | error e => exact .getFn hg this
  | @callOk s w h op k0 ke0 x s1 w1 r s' w' h1 _ _ ih =>
    intro k
    have := ih k
    cases r with
    | ok y => exact fun r' s'' w'' hk => .callOk h1 (this r' s'' w'' hk)
    | error e => exact .callOk h1 this
  | @callErr s w h op k0 ke0 e s1 w1 r s' w' h1 _ _ ih =>
    intro k
    have := ih k
    cases r with
    | ok y => exact fun r' s'' w'' hk => .callErr h1 (this r' s'' w'' hk)
    | error e => exact .callErr h1 this
  | @worldOk s w h op k0 ke0 a s1 w1 r s' w' hd _ ih =>
    intro k
    have := ih k
    cases r with
    | ok y => exact fun r' s'' w'' hk => .worldOk hd (this r' s'' w'' hk)
    | error e => exact .worldOk hd this
  | @worldErr s w h op k0 ke0 e s1 w1 r s' w' hd _ ih =>
    intro k
    have := ih k
    cases r with
    | ok y => exact fun r' s'' w'' hk => .worldErr hd (this r' s'' w'' hk)
    | error e => exact .worldErr hd this
  | frameVal _ _ => intro _; trivial
  | frameErr _ _ => intro _; trivial
  | frameTail _ _ _ _ => intro _; trivial

/-- **sequencing**: `c` evaluates to `x`, then `k x` evaluates to `r` — so `c >>= k` evaluates to `r`,
the store and world going through `c`'s first -/
theorem Eval.bind {s w c h x s1 w1 k r s' w'} (hc : Eval s w (.comp c) h (.ok x) s1 w1)
    (hk : Eval s1 w1 (.comp (k x)) h r s' w') : Eval s w (.comp (c.bind k)) h r s' w' :=
  hc.bind_aux k r s' w' hk

/-- **an exception raised by the first part propagates through the continuation** — whatever the continuation is -/
theorem Eval.bind_raises {s w c h e s1 w1} (k : Res → Comp Res) (hc : Eval s w (.comp c) h (.error e) s1 w1) :
    Eval s w (.comp (c.bind k)) h (.error e) s1 w1 :=
  hc.bind_aux k

/-! ### `try … except` inside a coroutine -/

def TryGoal (hd : ErrV → Comp Res) (h : Nat) (s : Store) (w : World) (c : Comp Res) (res : Except ErrV Res)
    (s1 : Store) (w1 : World) : Prop :=
  match res with
  | .ok x => Eval s w (.comp (c.tryCatch hd)) h (.ok x) s1 w1
  | .error e => ∀ r s' w', Eval s1 w1 (.comp (hd e)) h r s' w' → Eval s w (.comp (c.tryCatch hd)) h r s' w'

theorem Eval.try_aux {s w task h res s1 w1} (hev : Eval s w task h res s1 w1) :
    ∀ (hd : ErrV → Comp Res), match task with
      | .comp c => TryGoal hd h s w c res s1 w1
      | .frame _ => True := by
  induction hev with
  | ret s w h r => intro hd; exact .ret _ _ _ _
  | throw s w h e => intro hd; exact fun _ _ _ hk => hk
  | @forceOk s w h t k0 ke0 v r s' w' hv _ ih =>
    intro hd
    have := ih hd
    cases r with
    | ok x => exact .forceOk hv this
    | error e => exact fun r' s'' w'' hk => .forceOk hv (this r' s'' w'' hk)
  | @forceErr s w h t k0 ke0 e r s' w' hv _ ih =>
    intro hd
    have := ih hd
    cases r with
    | ok x => exact .forceErr hv this
    | error e => exact fun r' s'' w'' hk => .forceErr hv (this r' s'' w'' hk)
  | @forceEvalOk s w h t k0 ke0 v s1 w1 r s' w' hv hf _ _ ih =>
    intro hd
    have := ih hd
    cases r with
    | ok x => exact .forceEvalOk hv hf this
    | error e => exact fun r' s'' w'' hk => .forceEvalOk hv hf (this r' s'' w'' hk)
  | @forceEvalErr s w h t k0 ke0 e s1 w1 r s' w' hv hf _ _ ih =>
    intro hd
    have := ih hd
    cases r with
    | ok x => exact .forceEvalErr hv hf this
    | error e => exact fun r' s'' w'' hk => .forceEvalErr hv hf (this r' s'' w'' hk)
  | @newThunk s w h e env k0 r s' w' _ ih =>
    intro hd
    have := ih hd
    cases r with
    | ok x => exact .newThunk this
    | error e => exact fun r' s'' w'' hk => .newThunk (this r' s'' w'' hk)
  | @newFn s w h mk k0 r s' w' _ ih =>
    intro hd
    have := ih hd
    cases r with
    | ok x => exact .newFn this
    | error e => exact fun r' s'' w'' hk => .newFn (this r' s'' w'' hk)
  | @getFn s w h id o k0 r s' w' hg _ ih =>
    intro hd
    have := ih hd
    cases r with
    | ok x => exact .getFn hg this
    | error e => exact fun r' s'' w'' hk => .getFn hg (this r' s'' w'' hk)
  | @callOk s w h op k0 ke0 x s1 w1 r s' w' h1 _ _ ih =>
    intro hd
    have := ih hd
    cases r with
    | ok y => exact .callOk h1 this
    | error e => exact fun r' s'' w'' hk => .callOk h1 (this r' s'' w'' hk)
  | @callErr s w h op k0 ke0 e s1 w1 r s' w' h1 _ _ ih =>
    intro hd
    have := ih hd
    cases r with
    | ok y => exact .callErr h1 this
    | error e => exact fun r' s'' w'' hk => .callErr h1 (this r' s'' w'' hk)
  | @worldOk s w h op k0 ke0 a s1 w1 r s' w' hdw _ ih =>
    intro hd
    have := ih hd
    cases r with
    | ok y => exact .worldOk hdw this
    | error e => exact fun r' s'' w'' hk => .worldOk hdw (this r' s'' w'' hk)
  | @worldErr s w h op k0 ke0 e s1 w1 r s' w' hdw _ ih =>
    intro hd
    have := ih hd
    cases r with
    | ok y => exact .worldErr hdw this
    | error e => exact fun r' s'' w'' hk => .worldErr hdw (this r' s'' w'' hk)
  | frameVal _ _ => intro _; trivial
  | frameErr _ _ => intro _; trivial
  | frameTail _ _ _ _ => intro _; trivial

/-- a body that does not raise: the handler is not run -/
theorem Eval.tryCatch_ok {s w c h x s1 w1} (hd : ErrV → Comp Res) (hc : Eval s w (.comp c) h (.ok x) s1 w1) :
    Eval s w (.comp (c.tryCatch hd)) h (.ok x) s1 w1 := hc.try_aux hd

/-- a body that raises `e`: the handler runs on exactly `e`, in the store and world the body left -/
theorem Eval.tryCatch_raises {s w c h e s1 w1 hd r s' w'} (hc : Eval s w (.comp c) h (.error e) s1 w1)
    (hh : Eval s1 w1 (.comp (hd e)) h r s' w') : Eval s w (.comp (c.tryCatch hd)) h r s' w' :=
  hc.try_aux hd r s' w' hh

/-! ### evaluation to a value of any type, in continuation-passing form -/

/-- `c` evaluates to `x` (taking `s, w` to `s1, w1`): whatever follows, the whole evaluates as the rest does on `x` -/
def EvalTo {α : Type} (s : Store) (w : World) (c : Comp α) (h : Nat) (x : α) (s1 : Store) (w1 : World) : Prop :=
  ∀ (k : α → Comp Res) r s' w', Eval s1 w1 (.comp (k x)) h r s' w' → Eval s w (.comp (c.bind k)) h r s' w'

/-- `c` raises `e`: whatever follows is skipped -/
def Raises {α : Type} (s : Store) (w : World) (c : Comp α) (h : Nat) (e : ErrV) (s1 : Store) (w1 : World) : Prop :=
  ∀ (k : α → Comp Res), Eval s w (.comp (c.bind k)) h (.error e) s1 w1

theorem EvalTo.ret {α} (s : Store) (w : World) (h : Nat) (x : α) : EvalTo s w (Comp.ret x) h x s w :=
  fun _ _ _ _ hk => hk

theorem Raises.throw {α} (s : Store) (w : World) (h : Nat) (e : ErrV) : Raises s w (Comp.throw e : Comp α) h e s w :=
  fun _ => .throw _ _ _ _

theorem EvalTo.bind {α β} {s w h s1 w1 s2 w2} {c : Comp α} {f : α → Comp β} {x : α} {y : β}
    (hc : EvalTo s w c h x s1 w1) (hf : EvalTo s1 w1 (f x) h y s2 w2) : EvalTo s w (c.bind f) h y s2 w2 := by
  intro k r s' w' hk
  rw [bind_assoc]
  exact hc _ r s' w' (hf k r s' w' hk)

theorem Raises.bind_left {α β} {s w h s1 w1} {c : Comp α} (f : α → Comp β) {e : ErrV}
    (hc : Raises s w c h e s1 w1) : Raises s w (c.bind f) h e s1 w1 := by
  intro k
  rw [bind_assoc]
  exact hc _

theorem Raises.bind_right {α β} {s w h s1 w1 s2 w2} {c : Comp α} {f : α → Comp β} {x : α} {e : ErrV}
    (hc : EvalTo s w c h x s1 w1) (hf : Raises s1 w1 (f x) h e s2 w2) : Raises s w (c.bind f) h e s2 w2 := by
  intro k
  rw [bind_assoc]
  exact hc _ _ _ _ (hf k)

/-- back to the plain judgment -/
theorem EvalTo.toEval {α} {s w h s1 w1} {c : Comp α} {x : α} (hc : EvalTo s w c h x s1 w1) (f : α → Res) :
    Eval s w (.comp (c.bind (fun a => .ret (f a)))) h (.ok (f x)) s1 w1 :=
  hc _ _ _ _ (.ret _ _ _ _)

theorem EvalTo.ofEval {s w h s1 w1} {c : Comp Res} {x : Res} (hc : Eval s w (.comp c) h (.ok x) s1 w1) :
    EvalTo s w c h x s1 w1 := fun _ _ _ _ hk => hc.bind hk

theorem Raises.ofEval {s w h s1 w1} {c : Comp Res} {e : ErrV} (hc : Eval s w (.comp c) h (.error e) s1 w1) :
    Raises s w c h e s1 w1 := fun k => hc.bind_raises k

/-- a value that is already there -/
theorem EvalTo.forceStrict (s : Store) (w : World) (h : Nat) (v : Val) : EvalTo s w (forceArg (.strict v)) h v s w :=
  EvalTo.ret s w h v

/-- a delayed expression whose cell holds a value: served from the cell (C13) -/
theorem EvalTo.forceMemo {s : Store} (w : World) (h : Nat) {t : TId} (lit : Option Int) {v : Val}
    (hv : (s.getCell t).value = some (.ok v)) : EvalTo s w (forceArg (.thunk t lit)) h v s w := by
  intro k r s' w' hk
  simp only [forceArg, Comp.bind]
  exact .forceOk hv hk

/-- a delayed expression that has to be evaluated: its frame runs -/
theorem EvalTo.forceEval {s : Store} {w : World} {h : Nat} {t : TId} (lit : Option Int) {v : Val} {s1 w1}
    (hn : (s.getCell t).value = none) (hf : Eval s w (.frame t) h (.ok (.arg (.strict v))) s1 w1) :
    EvalTo s w (forceArg (.thunk t lit)) h v s1 w1 := by
  intro k r s' w' hk
  simp only [forceArg, Comp.bind]
  exact .forceEvalOk hn hf hk

theorem Raises.forceEval {s : Store} {w : World} {h : Nat} {t : TId} (lit : Option Int) {e : ErrV} {s1 w1}
    (hn : (s.getCell t).value = none) (hf : Eval s w (.frame t) h (.error e) s1 w1) :
    Raises s w (forceArg (.thunk t lit)) h e s1 w1 := by
  intro k
  simp only [forceArg, Comp.bind]
  exact .forceEvalErr hn hf (.throw _ _ _ _)

/-- `yield from`: a sub-coroutine that produces a value -/
theorem EvalTo.callArg {s w h s1 w1} {op : Op} {a : Arg} (hc : Eval s w (.comp (expand op)) h (.ok (.arg a)) s1 w1) :
    EvalTo s w (Comp.callArg op) h a s1 w1 := by
  intro k r s' w' hk
  simp only [Comp.callArg, Comp.bind]
  exact .callOk hc hk

theorem Raises.callArg {s w h s1 w1} {op : Op} {e : ErrV} (hc : Eval s w (.comp (expand op)) h (.error e) s1 w1) :
    Raises s w (Comp.callArg op) h e s1 w1 := by
  intro k
  simp only [Comp.callArg, Comp.bind]
  exact .callErr hc (.throw _ _ _ _)

/-- one effect on the world -/
theorem EvalTo.world {s w h s1 w1} {op : WOp} {a : Arg} (hd : doWorld s w op = (s1, w1, .ok a)) :
    EvalTo s w (Comp.worldArg op) h a s1 w1 := by
  intro k r s' w' hk
  simp only [Comp.worldArg, Comp.bind]
  exact .worldOk hd hk

theorem Raises.world {s w h s1 w1} {op : WOp} {e : ErrV} (hd : doWorld s w op = (s1, w1, .err e)) :
    Raises s w (Comp.worldArg op) h e s1 w1 := by
  intro k
  simp only [Comp.worldArg, Comp.bind]
  exact .worldErr hd (.throw _ _ _ _)

/-! ### executing I/O actions (C07) -/

/-- executing the value `v` the way the front end does (`main.do_IO`) produces `a`, taking the store and the
**world** from `(s, w)` to `(s', w')` -/
def Exec (s : Store) (w : World) (v : Val) (h : Nat) (a : Arg) (s' : Store) (w' : World) : Prop :=
  EvalTo s w (doIO v) h a s' w'

theorem Exec.toEval {s w v h a s' w'} (hx : Exec s w v h a s' w') :
    Eval s w (.comp (expand (.doIO v))) h (.ok (.arg a)) s' w' := by
  have := EvalTo.toEval hx Res.arg
  simpa [expand, Bind.bind, pure] using this

/-- a value that is not an action ends the loop: nothing happens -/
theorem exec_value (s : Store) (w : World) (h : Nat) (v : Val) (hv : v.isIO = false) : Exec s w v h (.strict v) s w := by
  unfold Exec
  cases v <;> first | exact EvalTo.ret _ _ _ _ | (simp [Val.isIO] at hv)

/-- the loop of `do_IO`: run the action's continuation, force what it produced, go on with that -/
theorem exec_step {s w h inst argv sp bnd a s1 w1 v' s2 w2 r s3 w3}
    (h1 : EvalTo s w (ioCont inst argv sp bnd) h a s1 w1)
    (h2 : EvalTo s1 w1 (forceArg a) h v' s2 w2)
    (h3 : Exec s2 w2 v' h r s3 w3) :
    Exec s w (.io inst argv sp bnd) h r s3 w3 := by
  unfold Exec
  simp only [doIO, Bind.bind]
  exact h1.bind (h2.bind (EvalTo.callArg h3.toEval))

/-- **ㅈㄹ writes its string and a newline** — once — and yields the empty value -/
theorem exec_print (s : Store) (w : World) (h : Nat) (sp : Span) (str : String) :
    Exec s w (.io .print [.strict (.str str)] sp none) h (.strict .nil) s
      { w with stdout := ('\n' :: str.toList.reverse) ++ w.stdout } := by
  refine exec_step (a := .strict .nil) (v' := .nil) ?_ (EvalTo.forceStrict _ _ _ _) (exec_value _ _ _ _ rfl)
  simp only [ioCont]
  exact EvalTo.world rfl

/-- **ㄹ at end of input** yields the empty value and consumes nothing -/
theorem exec_input_eof (s : Store) (w : World) (h : Nat) (sp : Span) (hw : w.stdin = []) :
    Exec s w (.io .input [] sp none) h (.strict .nil) s w := by
  refine exec_step (a := .strict .nil) (v' := .nil) ?_ (EvalTo.forceStrict _ _ _ _) (exec_value _ _ _ _ rfl)
  simp only [ioCont]
  exact EvalTo.world (by simp [doWorld, hw])

/-- **ㄹ yields one line without its newline** and consumes exactly that line and its newline -/
theorem exec_input_line (s : Store) (w : World) (h : Nat) (sp : Span) (hw : w.stdin.isEmpty = false) :
    Exec s w (.io .input [] sp none) h
      (.strict (.str (String.ofList (w.stdin.takeWhile (· != '\n'))))) s
      { w with stdin := (w.stdin.dropWhile (· != '\n')).drop 1 } := by
  refine exec_step (a := .strict (.str _)) (v' := .str _) ?_ (EvalTo.forceStrict _ _ _ _) (exec_value _ _ _ _ rfl)
  simp only [ioCont]
  exact EvalTo.world (by simp [doWorld, hw])

/-- **ㄱㅅ performs nothing**: executing it yields the (already fully evaluated, non-action) value it was given -/
theorem exec_return (s : Store) (w : World) (h : Nat) (sp : Span) (v : Val) (hv : v.isIO = false) :
    Exec s w (.io .ret [.strict v] sp none) h (.strict v) s w := by
  refine exec_step (a := .strict v) (v' := v) ?_ (EvalTo.forceStrict _ _ _ _) (exec_value _ _ _ _ hv)
  simp only [ioCont]
  exact EvalTo.ret _ _ _ _

/-- **ㄱㄹ, bind order.**  Executing `io0 ㄱㄹ f`: first `io0` is executed (world `w → w1`), producing `a`; then the
continuation `f` — a function — is applied to exactly `a` and its result evaluated to an action `rv`
(`w1 → w2`: evaluation may import modules, it performs no other I/O); then *that* action is executed
(`w2 → w3`).  The world is threaded in this order and in no other. -/
theorem exec_bind {s w h argv sp io0 f a s1 w1 r s2 w2 rv s3 w3 res s4 w4}
    (hf : f.isFunction = true)
    (h1 : Exec s w io0 h a s1 w1)
    (h2 : Eval s1 w1 (.comp (expand (.apply f sp [a]))) h (.ok (.arg r)) s2 w2)
    (h3 : EvalTo s2 w2 (forceArg r) h rv s3 w3)
    (hio : rv.isIO = true)
    (h4 : Exec s3 w3 rv h res s4 w4) :
    Exec s w (.io .bind argv sp (some (io0, f, none))) h res s4 w4 := by
  refine exec_step (a := .strict rv) (v' := rv) ?_ (EvalTo.forceStrict _ _ _ _) h4
  intro k r' s' w' hk
  simp only [ioCont, Comp.bind]
  refine .callOk h1.toEval ?_
  have hcc : checkCallee isBuiltinName sp f false = Comp.ret () := by
    cases f <;> simp_all [checkCallee, Val.isFunction]
  simp only [hcc, Bind.bind, Comp.bind]
  rw [bind_assoc]
  refine (EvalTo.callArg h2) _ _ _ _ ?_
  rw [bind_assoc]
  refine h3 _ _ _ _ ?_
  simp only [checkType, hio, List.all_cons, List.all_nil, Bool.and_true, if_true, Comp.bind, retV]
  exact hk

/-- … and when executing the first action **raises**, a bind without handler propagates the exception:
the continuation is not applied, nothing further happens to the world -/
theorem exec_bind_raises {s w h argv sp io0 f e s1 w1}
    (h1 : Eval s w (.comp (expand (.doIO io0))) h (.error e) s1 w1) :
    Raises s w (doIO (.io .bind argv sp (some (io0, f, none)))) h e s1 w1 := by
  intro k
  simp only [doIO, ioCont, Bind.bind, Comp.bind]
  exact .callErr h1 (.throw _ _ _ _)

/-- **the handler of a three-argument ㄱㄹ**: when executing the first action raises `e`, the handler `rej` is applied
to the exception *value* carrying exactly `e`'s locations and contents, and the action it returns is executed;
the continuation `f` is not applied -/
theorem exec_bind_handler {s w h argv sp io0 f rej e s1 w1 r s2 w2 rv s3 w3 res s4 w4}
    (hrej : rej.isFunction = true)
    (h1 : Eval s w (.comp (expand (.doIO io0))) h (.error e) s1 w1)
    (h2 : Eval s1 w1 (.comp (expand (.apply rej sp [.strict (.err e.metas e.vals)]))) h (.ok (.arg r)) s2 w2)
    (h3 : EvalTo s2 w2 (forceArg r) h rv s3 w3)
    (hio : rv.isIO = true)
    (h4 : Exec s3 w3 rv h res s4 w4) :
    Exec s w (.io .bind argv sp (some (io0, f, some rej))) h res s4 w4 := by
  refine exec_step (a := .strict rv) (v' := rv) ?_ (EvalTo.forceStrict _ _ _ _) h4
  intro k r' s' w' hk
  simp only [ioCont, Comp.bind]
  refine .callErr h1 ?_
  have hcc : checkCallee isBuiltinName sp rej false = Comp.ret () := by
    cases rej <;> simp_all [checkCallee, Val.isFunction]
  simp only [hcc, Bind.bind, Comp.bind]
  rw [bind_assoc]
  refine (EvalTo.callArg h2) _ _ _ _ ?_
  rw [bind_assoc]
  refine h3 _ _ _ _ ?_
  simp only [checkType, hio, List.all_cons, List.all_nil, Bool.and_true, if_true, Comp.bind, retV]
  exact hk

/-- a complete run: executing a `ㅈㄹ` action from the top level ends with the string and a newline appended to the
standard output, and nothing else changed -/
theorem run_print (s : Store) (w : World) (sp : Span) (str : String) :
    ∃ n, (runN n (initState s w (expand (.doIO (.io .print [.strict (.str str)] sp none))))).status
        = .done (.ok (.arg (.strict .nil))) ∧
      (runN n (initState s w (expand (.doIO (.io .print [.strict (.str str)] sp none))))).world
        = { w with stdout := ('\n' :: str.toList.reverse) ++ w.stdout } := by
  obtain ⟨n, h1, _, h3⟩ := (exec_print s w 1 sp str).toEval.run_head (by decide)
  exact ⟨n, h1, h3⟩

end UH.BigStep
