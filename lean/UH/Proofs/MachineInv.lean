/-
Invariants of the trampolined evaluator `step` (generic in the coroutines):
stack height, debugger bookkeeping, event log nesting.  Used by C05, C13, C19.
-/
import UH.Model.Machine
namespace UH

/-! ### small facts about the helpers -/

theorem afterEvents_depth (failed : Bool) (l : List TId) : ∀ (depth : Nat) (log : List Event),
    (afterEvents failed depth l log).1 = depth - l.length := by
  induction l with
  | nil => intro depth log; simp [afterEvents]
  | cons t rest ih => intro depth log; simp only [afterEvents, ih, List.length_cons]; omega

def sumLens (l : List (List TId)) : Nat := (l.map List.length).sum

@[simp] theorem sumLens_nil : sumLens [] = 0 := rfl
@[simp] theorem sumLens_cons (a : List TId) (l) : sumLens (a :: l) = a.length + sumLens l := by
  simp [sumLens]

/-- bookkeeping invariant of `evaluate`: `depth = Σ |debug_stack[i]|`, and `debug_stack`
has one entry per stack frame -/
structure DepthInv (m : MState) : Prop where
  depth_eq : m.depth = sumLens m.dstack
  len_eq : m.dstack.length = m.tail.length

theorem DepthInv.init (store : Store) (w : World) (c : Comp Res) : DepthInv (initState store w c) :=
  ⟨rfl, rfl⟩

/-- `finishFrame` pops one frame and one bookkeeping entry -/
theorem finishFrame_inv (m : MState) (f : Frame) (rest : List Frame) (r : Outcome)
    (h : DepthInv m) (ht : m.tail = f :: rest) : DepthInv (finishFrame m f rest r) := by
  obtain ⟨hd, hl⟩ := h
  rw [ht] at hl
  cases hds : m.dstack with
  | nil => rw [hds] at hl; simp at hl
  | cons l ls =>
    rw [hds] at hl hd
    constructor
    · simp only [finishFrame, hds, List.head?_cons, Option.getD_some, List.drop_one, List.tail_cons]
      rw [afterEvents_depth, hd]
      simp
    · simp only [finishFrame, hds, List.drop_one, List.tail_cons]
      simpa using hl

theorem step_depthInv (m : MState) (h : DepthInv m) : DepthInv (step m) := by
  obtain ⟨hd, hl⟩ := h
  unfold step
  split
  · -- running
    rename_i hs
    cases htail : m.tail with
    | nil =>
      -- the head coroutine is active; `dstack` is empty
      have hds : m.dstack = [] := by
        cases hh : m.dstack with
        | nil => rfl
        | cons a b => rw [hh, htail] at hl; simp at hl
      simp only []
      split
      · -- a response is pending
        split <;> (constructor <;> simp_all)
      · split
        · split <;> (constructor <;> simp_all)
        · split <;> (constructor <;> simp_all)
        · constructor <;> simp_all
        · constructor <;> simp_all
        · -- force
          split
          · constructor <;> simp_all
          · constructor <;> simp_all
          · split <;> (constructor <;> simp_all [sumLens])
        · constructor <;> simp_all
        · constructor <;> simp_all
        · split <;> (constructor <;> simp_all)
        · constructor <;> simp_all
        · split <;> (constructor <;> simp_all)
    | cons f rest =>
      have hlen : m.dstack.length = rest.length + 1 := by rw [hl, htail]; simp
      obtain ⟨l, ls, hds⟩ : ∃ l ls, m.dstack = l :: ls := by
        cases hh : m.dstack with
        | nil => rw [hh] at hlen; simp at hlen
        | cons a b => exact ⟨a, b, rfl⟩
      have hls : ls.length = rest.length := by rw [hds] at hlen; simpa using hlen
      simp only []
      split
      · split <;> (constructor <;> simp_all)
      · split
        · -- ret
          split
          · constructor <;> simp_all
          · simp only [Bool.false_eq_true, if_false]
            split
            · -- tail return
              constructor
              · simp only [hds, sumLens_cons, List.length_append, List.length_singleton]
                rw [hd, hds]; simp; omega
              · simp [hds, hls]
            · exact finishFrame_inv m f rest _ ⟨hd, hl⟩ htail
            · constructor <;> simp_all
        · -- throw
          split
          · constructor <;> simp_all
          · simp only [Bool.false_eq_true, if_false]
            exact finishFrame_inv m f rest _ ⟨hd, hl⟩ htail
        · constructor <;> simp_all
        · constructor <;> simp_all
        · -- force
          split
          · constructor <;> simp_all
          · constructor <;> simp_all
          · split
            · constructor
              · simp [hd, hds]; omega
              · simp [htail, hl]
            · constructor
              · simp [hd, hds]; omega
              · simp [htail, hl]
        · constructor <;> simp_all
        · constructor <;> simp_all
        · split <;> (constructor <;> simp_all)
        · constructor <;> simp_all
        · split <;> (constructor <;> simp_all)
  · exact ⟨hd, hl⟩

end UH

namespace UH

/-! ### the four kinds of transition, as far as the stack and the observer are concerned -/

inductive StepKind (m m' : MState) : Prop where
  /-- nothing the observer can see; same stack height -/
  | stay (hd : m'.depth = m.depth) (hs : m'.dstack = m.dstack) (he : m'.events = m.events)
      (ht : m'.tail.length = m.tail.length) (hst : m'.starts = m.starts)
      (hnl : m'.status ≠ .limit)
  /-- a request: a new frame is pushed -/
  | push (t : TId) (hd : m'.depth = m.depth + 1) (hs : m'.dstack = [t] :: m.dstack)
      (he : m'.events = Event.before (m.depth + 1) t :: m.events)
      (ht : m'.tail.length = m.tail.length + 1)
      (hlim : m'.status = .limit ∨ (m'.status = m.status ∧ m'.tail.length < maxStackSize))
      (hfresh : (m.store.getCell t).value = none)
  /-- a tail return: the top frame is replaced -/
  | replace (t : TId) (l : List TId) (ls : List (List TId)) (h0 : m.dstack = l :: ls)
      (hd : m'.depth = m.depth + 1) (hs : m'.dstack = (t :: l) :: ls)
      (he : m'.events = Event.before (m.depth + 1) t :: m.events)
      (ht : m'.tail.length = m.tail.length) (hst : m'.status = m.status)
  /-- the top frame finished with a strict value or an exception -/
  | pop (f : Frame) (rest : List Frame) (r : Outcome) (h0 : m.tail = f :: rest)
      (hm : m' = finishFrame m f rest r)

theorem step_kind (m : MState) (hrun : m.status = .running) (hl : m.dstack.length = m.tail.length) :
    StepKind m (step m) := by
  unfold step
  simp only [hrun]
  cases htail : m.tail with
  | nil =>
    have hds : m.dstack = [] := by
      cases hh : m.dstack with
      | nil => rfl
      | cons a b => rw [hh, htail] at hl; simp at hl
    simp only []
    split
    · split <;> (apply StepKind.stay <;> simp_all)
    · split
      · split <;> (apply StepKind.stay <;> simp_all)
      · split <;> (apply StepKind.stay <;> simp_all)
      · apply StepKind.stay <;> simp_all
      · apply StepKind.stay <;> simp_all
      · rename_i t k ke _
        split
        · apply StepKind.stay <;> simp_all
        · apply StepKind.stay <;> simp_all
        · rename_i hv
          split
          · exact StepKind.push t (by simp) (by simp) (by simp) (by simp [htail]) (Or.inl (by simp)) hv
          · rename_i hlt
            exact StepKind.push t (by simp) (by simp) (by simp) (by simp [htail])
              (Or.inr ⟨by simp [hrun], by simpa [htail] using hlt⟩) hv
      · apply StepKind.stay <;> simp_all
      · apply StepKind.stay <;> simp_all
      · split <;> (apply StepKind.stay <;> simp_all)
      · apply StepKind.stay <;> simp_all
      · split <;> (apply StepKind.stay <;> simp_all)
  | cons f rest =>
    obtain ⟨l, ls, hds⟩ : ∃ l ls, m.dstack = l :: ls := by
      cases hh : m.dstack with
      | nil => rw [hh, htail] at hl; simp at hl
      | cons a b => exact ⟨a, b, rfl⟩
    simp only []
    split
    · split <;> (apply StepKind.stay <;> simp_all)
    · split
      · split
        · apply StepKind.stay <;> simp_all
        · simp only [Bool.false_eq_true, if_false]
          split
          · rename_i t' _ _
            exact StepKind.replace t' l ls hds (by simp) (by simp [hds]) (by simp) (by simp [htail]) (by simp [hrun])
          · exact StepKind.pop f rest _ htail rfl
          · apply StepKind.stay <;> simp_all
      · split
        · apply StepKind.stay <;> simp_all
        · simp only [Bool.false_eq_true, if_false]
          exact StepKind.pop f rest _ htail rfl
      · apply StepKind.stay <;> simp_all
      · apply StepKind.stay <;> simp_all
      · rename_i t k ke _
        split
        · apply StepKind.stay <;> simp_all
        · apply StepKind.stay <;> simp_all
        · rename_i hv
          split
          · exact StepKind.push t (by simp) (by simp) (by simp) (by simp [htail]) (Or.inl (by simp)) hv
          · rename_i hlt
            exact StepKind.push t (by simp) (by simp) (by simp) (by simp [htail])
              (Or.inr ⟨by simp [hrun], by simpa [htail] using hlt⟩) hv
      · apply StepKind.stay <;> simp_all
      · apply StepKind.stay <;> simp_all
      · split <;> (apply StepKind.stay <;> simp_all)
      · apply StepKind.stay <;> simp_all
      · split <;> (apply StepKind.stay <;> simp_all)

end UH

namespace UH

/-! ### stack height (C05) -/

/-- while the evaluator runs, its stack is below the limit -/
def HeightInv (m : MState) : Prop := m.status = .running → m.tail.length < maxStackSize

theorem finishFrame_status (m : MState) (f : Frame) (rest : List Frame) (r : Outcome) :
    (finishFrame m f rest r).status = m.status ∧ (finishFrame m f rest r).tail = rest := by
  simp [finishFrame]

theorem step_heightInv (m : MState) (hd : DepthInv m) (h : HeightInv m) : HeightInv (step m) := by
  by_cases hrun : m.status = .running
  · have hlt := h hrun
    intro hr'
    cases step_kind m hrun hd.len_eq with
    | stay _ _ _ ht _ _ => omega
    | push t _ _ _ ht hlim _ =>
      rcases hlim with hl | ⟨_, hl⟩
      · rw [hl] at hr'; cases hr'
      · exact hl
    | replace t l ls _ _ _ _ ht _ => omega
    | pop f rest r h0 hm =>
      rw [hm, (finishFrame_status m f rest r).2]
      rw [h0] at hlt; simp at hlt; omega
  · -- not running: `step` is the identity
    have : step m = m := by
      unfold step
      split
      · rename_i hs; exact absurd hs hrun
      · rfl
    rw [this]; exact h

theorem step_not_running (m : MState) (h : m.status ≠ .running) : step m = m := by
  unfold step
  split
  · rename_i hs; exact absurd hs h
  · rfl

theorem runN_inv {P : MState → Prop} (hstep : ∀ m, P m → P (step m)) :
    ∀ n m, P m → P (runN n m) := by
  intro n
  induction n with
  | zero => intro m h; exact h
  | succ n ih =>
    intro m h
    simp only [runN]
    split
    · exact ih _ (hstep m h)
    · exact h

/-! ### event log nesting (C19) -/

/-- the observer's bracket stack after one more event; `none` = ill-nested -/
def applyEvent (st : Option (List (Nat × TId))) (e : Event) : Option (List (Nat × TId)) :=
  match st, e with
  | none, _ => none
  | some st, .before d t => if d = st.length + 1 then some ((d, t) :: st) else none
  | some ((d', t') :: r), .after d t _ => if d = d' ∧ t = t' then some r else none
  | some [], .after _ _ _ => none

/-- replay a log stored newest-first: the stack of still-open `before` events, or `none` if some
`after` did not match the innermost open `before` at the same depth for the same expression, or a
`before` did not have depth = nesting + 1 -/
def replay (log : List Event) : Option (List (Nat × TId)) :=
  log.foldr (fun e acc => applyEvent acc e) (some [])

theorem replay_cons (e : Event) (log : List Event) : replay (e :: log) = applyEvent (replay log) e := rfl

theorem replay_append (a b : List Event) :
    replay (a ++ b) = a.foldr (fun e acc => applyEvent acc e) (replay b) := by
  simp [replay, List.foldr_append]

/-- pair open expressions (innermost first) with their depths `d, d-1, …` -/
def zipDown : Nat → List TId → List (Nat × TId)
  | _, [] => []
  | d, t :: r => (d, t) :: zipDown (d - 1) r

theorem zipDown_length (d : Nat) (l : List TId) : (zipDown d l).length = l.length := by
  induction l generalizing d with
  | nil => rfl
  | cons t r ih => simp [zipDown, ih]

/-- the expressions currently being evaluated, innermost first -/
def openExprs (dstack : List (List TId)) : List TId := dstack.flatten

theorem openExprs_length (ds : List (List TId)) : (openExprs ds).length = sumLens ds := by
  induction ds with
  | nil => rfl
  | cons a l ih =>
    simp only [openExprs, List.flatten_cons, List.length_append, sumLens_cons] at *
    omega

/-- the event log is well nested and its open brackets are exactly the pending evaluations -/
def LogInv (m : MState) : Prop := replay m.events = some (zipDown m.depth (openExprs m.dstack))

theorem replay_afterEvents (failed : Bool) (flat : List TId) :
    ∀ (w : List TId) (depth : Nat) (log : List Event), depth = w.length + flat.length →
      replay log = some (zipDown depth (w ++ flat)) →
      replay (afterEvents failed depth w log).2 = some (zipDown (depth - w.length) flat) := by
  intro w
  induction w with
  | nil => intro depth log _ h; simpa [afterEvents] using h
  | cons t r ih =>
    intro depth log hdep h
    simp only [afterEvents]
    have h1 : replay (Event.after depth t failed :: log) = some (zipDown (depth - 1) (r ++ flat)) := by
      rw [replay_cons, h]
      simp [applyEvent, zipDown]
    rw [ih (depth - 1) _ (by simp at hdep; omega) h1]
    simp only [List.length_cons]
    congr 2; omega

theorem step_logInv (m : MState) (hd : DepthInv m) (h : LogInv m) : LogInv (step m) := by
  by_cases hrun : m.status = .running
  · unfold LogInv at *
    have hlen : (zipDown m.depth (openExprs m.dstack)).length = m.depth := by
      rw [zipDown_length, openExprs_length, hd.depth_eq]
    cases step_kind m hrun hd.len_eq with
    | stay hdp hs he _ _ _ => rw [he, hdp, hs]; exact h
    | push t hdp hs he _ _ _ =>
      rw [he, hdp, hs, replay_cons, h]
      simp only [applyEvent, hlen, if_true]
      simp [openExprs, zipDown]
    | replace t l ls h0 hdp hs he _ _ =>
      rw [he, hdp, hs, replay_cons, h]
      simp only [applyEvent, hlen, if_true]
      simp [openExprs, zipDown, h0]
    | pop f rest r h0 hm =>
      have hl := hd.len_eq
      rw [h0] at hl
      obtain ⟨l, ls, hds⟩ : ∃ l ls, m.dstack = l :: ls := by
        cases hh : m.dstack with
        | nil => rw [hh] at hl; simp at hl
        | cons a b => exact ⟨a, b, rfl⟩
      rw [hm]
      simp only [finishFrame, hds, List.head?_cons, Option.getD_some, List.drop_one, List.tail_cons]
      have hdep : m.depth = l.length + (openExprs ls).length := by
        rw [hd.depth_eq, hds, openExprs_length]; simp
      have h' : replay m.events = some (zipDown m.depth (l ++ openExprs ls)) := by
        rw [h, hds]; simp [openExprs]
      rw [replay_afterEvents _ (openExprs ls) l m.depth m.events hdep h', afterEvents_depth]
  · rw [step_not_running m hrun]; exact h

/-- all three invariants together, preserved by every step -/
structure MachineInv (m : MState) : Prop where
  depth : DepthInv m
  height : HeightInv m
  log : LogInv m

theorem MachineInv.init (store : Store) (w : World) (c : Comp Res) : MachineInv (initState store w c) :=
  ⟨DepthInv.init store w c, by intro _; simp [initState, maxStackSize], rfl⟩

theorem MachineInv.step (m : MState) (h : MachineInv m) : MachineInv (step m) :=
  ⟨step_depthInv m h.depth, step_heightInv m h.depth h.height, step_logInv m h.depth h.log⟩

theorem MachineInv.runN (n : Nat) (m : MState) (h : MachineInv m) : MachineInv (UH.runN n m) :=
  runN_inv MachineInv.step n m h

end UH
