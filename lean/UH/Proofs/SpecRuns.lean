/-
`specRuns` (committed run-length table) is exactly the specification map
`specNorm`, for every code point.

Beyond U+FFFF both sides are a lone separator (bounds of the tables).  Below,
a verified interval checker: `specCells` partitions [0, 0x10000) into intervals
on which both sides are provably constant, and the kernel evaluates both sides
at the left end of each interval.
-/
import UH.Spec.Hangul
import UH.Spec.SpecRuns
import UH.Spec.SpecCells
namespace UH.Spec
open UH

/-! ### both sides above the tables -/

theorem lookupRuns_above (runs : List Run) (B c : Nat)
    (h : runs.all (fun r => decide (r.hi < B)) = true) (hc : B ≤ c) :
    lookupRuns runs c = [Sym.sp] := by
  induction runs with
  | nil => rfl
  | cons r rs ih =>
    simp only [List.all_cons, Bool.and_eq_true, decide_eq_true_eq] at h
    have : ¬ (r.lo ≤ c ∧ c ≤ r.hi) := by omega
    simp only [lookupRuns, this, if_false]
    exact ih h.2

theorem lookup_above {β} (l : List (Nat × β)) (B c : Nat)
    (h : l.all (fun r => decide (r.1 < B)) = true) (hc : B ≤ c) : l.lookup c = none := by
  induction l with
  | nil => rfl
  | cons r rs ih =>
    simp only [List.all_cons, Bool.and_eq_true, decide_eq_true_eq] at h
    obtain ⟨k, v⟩ := r
    have : (c == k) = false := by simp; omega
    simp only [List.lookup, this]
    exact ih h.2

theorem inRanges_above (rs : List (Nat × Nat)) (B c : Nat)
    (h : rs.all (fun r => decide (r.2 < B)) = true) (hc : B ≤ c) : inRanges rs c = false := by
  induction rs with
  | nil => rfl
  | cons r rs ih =>
    simp only [List.all_cons, Bool.and_eq_true, decide_eq_true_eq] at h
    simp only [inRanges, List.any_cons, Bool.or_eq_false_iff]
    refine ⟨?_, ih h.2⟩
    simp; omega

theorem specNorm_above (c : Nat) (hc : 0x10000 ≤ c) : specNorm c = [Sym.sp] := by
  have h1 : isSyllable c = false := by simp [isSyllable]; omega
  have h2 : letterSyms c = none := by
    simp [letterSyms, letterOf, lookup_above letters 0x10000 c (by decide) hc]
  have h3 := inRanges_above hangulRanges 0x10000 c (by decide) hc
  simp [specNorm, h1, h2, h3]

/-! ### constancy on an interval -/

/-- every run is disjoint from `[a,b]` or contains it -/
def runsUniform (runs : List Run) (a b : Nat) : Bool :=
  runs.all (fun r => decide (r.hi < a) || decide (b < r.lo) || (decide (r.lo ≤ a) && decide (b ≤ r.hi)))

theorem lookupRuns_const (runs : List Run) (a b c : Nat) (h : runsUniform runs a b = true)
    (h1 : a ≤ c) (h2 : c ≤ b) : lookupRuns runs c = lookupRuns runs a := by
  induction runs with
  | nil => rfl
  | cons r rs ih =>
    simp only [runsUniform, List.all_cons, Bool.and_eq_true, Bool.or_eq_true, decide_eq_true_eq] at h
    have ih' := ih (by simpa [runsUniform] using h.2)
    simp only [lookupRuns]
    rcases h.1 with (h' | h') | h'
    · have e1 : ¬ (r.lo ≤ c ∧ c ≤ r.hi) := by omega
      have e2 : ¬ (r.lo ≤ a ∧ a ≤ r.hi) := by omega
      simp only [e1, e2, if_false, ih']
    · have e1 : ¬ (r.lo ≤ c ∧ c ≤ r.hi) := by omega
      have e2 : ¬ (r.lo ≤ a ∧ a ≤ r.hi) := by omega
      simp only [e1, e2, if_false, ih']
    · have e1 : (r.lo ≤ c ∧ c ≤ r.hi) := by omega
      have e2 : (r.lo ≤ a ∧ a ≤ r.hi) := by omega
      simp only [e1, e2, and_self, if_true]

/-- no key lies in `[a,b]` -/
def keysOutside {β} (l : List (Nat × β)) (a b : Nat) : Bool :=
  l.all (fun r => decide (r.1 < a) || decide (b < r.1))

theorem lookup_outside {β} (l : List (Nat × β)) (a b c : Nat) (h : keysOutside l a b = true)
    (h1 : a ≤ c) (h2 : c ≤ b) : l.lookup c = none := by
  induction l with
  | nil => rfl
  | cons r rs ih =>
    simp only [keysOutside, List.all_cons, Bool.and_eq_true, Bool.or_eq_true, decide_eq_true_eq] at h
    obtain ⟨k, v⟩ := r
    have : (c == k) = false := by simp; omega
    simp only [List.lookup, this]
    exact ih (by simpa [keysOutside] using h.2)

def rangesUniform (rs : List (Nat × Nat)) (a b : Nat) : Bool :=
  rs.all (fun r => decide (r.2 < a) || decide (b < r.1) || (decide (r.1 ≤ a) && decide (b ≤ r.2)))

theorem inRanges_const (rs : List (Nat × Nat)) (a b c : Nat) (h : rangesUniform rs a b = true)
    (h1 : a ≤ c) (h2 : c ≤ b) : inRanges rs c = inRanges rs a := by
  induction rs with
  | nil => rfl
  | cons r rs ih =>
    simp only [rangesUniform, List.all_cons, Bool.and_eq_true, Bool.or_eq_true, decide_eq_true_eq] at h
    have ih' := ih (by simpa [rangesUniform] using h.2)
    simp only [inRanges, List.any_cons] at ih' ⊢
    rw [ih']
    congr 1
    rcases h.1 with (h' | h') | h'
    · have e1 : ¬ (c ≤ r.2) := by omega
      have e2 : ¬ (a ≤ r.2) := by omega
      simp [e1, e2]
    · have e1 : ¬ (r.1 ≤ c) := by omega
      have e2 : ¬ (r.1 ≤ a) := by omega
      simp [e1, e2]
    · have e1 : r.1 ≤ c ∧ c ≤ r.2 := by omega
      have e2 : r.1 ≤ a ∧ a ≤ r.2 := by omega
      simp [e1, e2]

/-- `[a,b]` is outside the syllable block, or inside one 588-block of it -/
def syllableUniform (a b : Nat) : Bool :=
  (decide (b < 0xAC00) || decide (0xD7A3 < a)) ||
  (decide (0xAC00 ≤ a) && decide (b ≤ 0xD7A3) && ((a - 0xAC00) / 588 == (b - 0xAC00) / 588))

/-- the interval checker -/
def checkCell (ab : Nat × Nat) : Bool :=
  runsUniform specRuns ab.1 ab.2 &&
  (ab.1 == ab.2 || keysOutside letters ab.1 ab.2) &&
  rangesUniform hangulRanges ab.1 ab.2 &&
  syllableUniform ab.1 ab.2 &&
  decide (lookupRuns specRuns ab.1 = specNorm ab.1)

theorem specNorm_const (a b c : Nat)
    (hk : (a == b || keysOutside letters a b) = true)
    (hr : rangesUniform hangulRanges a b = true)
    (hs : syllableUniform a b = true) (h1 : a ≤ c) (h2 : c ≤ b) : specNorm c = specNorm a := by
  by_cases hab : a = b
  · have : c = a := by omega
    rw [this]
  · have hk' : keysOutside letters a b = true := by
      simp only [Bool.or_eq_true, beq_iff_eq] at hk
      rcases hk with hk | hk
      · exact absurd hk hab
      · exact hk
    have l1 : letterSyms c = none := by
      simp [letterSyms, letterOf, lookup_outside letters a b c hk' h1 h2]
    have l2 : letterSyms a = none := by
      simp [letterSyms, letterOf, lookup_outside letters a b a hk' (Nat.le_refl _) (by omega)]
    have l3 := inRanges_const hangulRanges a b c hr h1 h2
    simp only [syllableUniform, Bool.or_eq_true, Bool.and_eq_true, decide_eq_true_eq, beq_iff_eq] at hs
    rcases hs with (hs | hs) | ⟨⟨hs1, hs2⟩, hs3⟩
    · have s1 : isSyllable c = false := by simp [isSyllable]; omega
      have s2 : isSyllable a = false := by simp [isSyllable]; omega
      simp [specNorm, s1, s2, l1, l2, l3]
    · have s1 : isSyllable c = false := by simp [isSyllable]; omega
      have s2 : isSyllable a = false := by simp [isSyllable]; omega
      simp [specNorm, s1, s2, l1, l2, l3]
    · have s1 : isSyllable c = true := by simp [isSyllable]; omega
      have s2 : isSyllable a = true := by simp [isSyllable]; omega
      have s3 : syllableInitial c = syllableInitial a := by
        simp only [syllableInitial]
        have m1 : (a - 0xAC00) / 588 ≤ (c - 0xAC00) / 588 := Nat.div_le_div_right (by omega)
        have m2 : (c - 0xAC00) / 588 ≤ (b - 0xAC00) / 588 := Nat.div_le_div_right (by omega)
        omega
      simp [specNorm, s1, s2, s3]

theorem checkCell_sound (ab : Nat × Nat) (h : checkCell ab = true) (c : Nat)
    (h1 : ab.1 ≤ c) (h2 : c ≤ ab.2) : lookupRuns specRuns c = specNorm c := by
  simp only [checkCell, Bool.and_eq_true, decide_eq_true_eq] at h
  obtain ⟨⟨⟨⟨hr, hk⟩, hg⟩, hs⟩, he⟩ := h
  rw [lookupRuns_const specRuns ab.1 ab.2 c hr h1 h2, specNorm_const ab.1 ab.2 c hk hg hs h1 h2, he]

/-- `cells` is a chain of adjacent intervals from `s` to `e` (exclusive) -/
def chainOk : Nat → List (Nat × Nat) → Nat → Bool
  | s, [], e => s == e
  | s, ab :: cs, e => ab.1 == s && decide (ab.1 ≤ ab.2) && chainOk (ab.2 + 1) cs e

theorem chainOk_covers : ∀ (cells : List (Nat × Nat)) (s e : Nat), chainOk s cells e = true →
    ∀ c, s ≤ c → c < e → ∃ ab ∈ cells, ab.1 ≤ c ∧ c ≤ ab.2 := by
  intro cells
  induction cells with
  | nil =>
    intro s e h c h1 h2
    simp [chainOk] at h; omega
  | cons ab cs ih =>
    intro s e h c h1 h2
    simp only [chainOk, Bool.and_eq_true, beq_iff_eq, decide_eq_true_eq] at h
    obtain ⟨⟨ha, hb⟩, hc⟩ := h
    by_cases hle : c ≤ ab.2
    · exact ⟨ab, List.mem_cons_self, by omega, hle⟩
    · obtain ⟨x, hx, hx'⟩ := ih (ab.2 + 1) e hc c (by omega) h2
      exact ⟨x, List.mem_cons_of_mem _ hx, hx'⟩

theorem specCells_chain : chainOk 0 specCells 0x10000 = true := by decide +kernel

theorem specCells_checked : specCells.all checkCell = true := by decide +kernel

/-- **the committed run table is the specification map, for every code point** -/
theorem specRuns_correct (c : Nat) : lookupRuns specRuns c = specNorm c := by
  by_cases hc : c < 0x10000
  · obtain ⟨ab, hab, h1, h2⟩ := chainOk_covers specCells 0 0x10000 specCells_chain c (Nat.zero_le _) hc
    exact checkCell_sound ab (List.all_eq_true.mp specCells_checked ab hab) c h1 h2
  · rw [lookupRuns_above specRuns 0x10000 c (by decide) (by omega), specNorm_above c (by omega)]

end UH.Spec
