/-
A big-step (natural) semantics of the evaluator, generic in the coroutines, and its soundness
with respect to the micro-step machine.

`Eval s w task h r s' w'` : started in store `s` and world `w`, the task — a coroutine running
inside some frame (`.comp c`), or a whole frame evaluating the delayed expression `t`
(`.frame t`) — ends with `r` in store `s'` and world `w'`, and needs at most `h` evaluator frames
above the frames that already exist.  The rules are the ones a reader of `interpret.evaluate`
would write down: a demand for a completed cell is served from the cell; a demand for an
unevaluated cell runs a frame for it and delivers the outcome; a frame whose coroutine returns a
strict value (or raises) writes the outcome into its cell and the requestor chain; **a frame whose
coroutine returns a delayed expression is replaced by a frame for that expression — at the same
height**.

`Eval.sound` : every derivation is realised by the machine (`step`, `runN`), whatever frames lie
below, as long as `h` more frames fit under `MAX_STACK_SIZE`.  All results are stated up to the
observer's bookkeeping (`C19.forget`), which the evaluator never reads (`C19.runN_forget`).
-/
import UH.Proofs.Unforced
import UH.Model.EvalF
import UH.Properties.C19
namespace UH.BigStep
open UH Unforced C19

/-! ### reachability up to the observer's bookkeeping -/

theorem runN_add (a b : Nat) (m : MState) : runN (a + b) m = runN b (runN a m) := by
  induction a generalizing m with
  | zero => simp [runN]
  | succ a ih =>
    rw [Nat.succ_add]
    simp only [runN]
    split
    · exact ih _
    · rename_i hs
      -- a stopped machine stays where it is
      have : ∀ b, runN b m = m := by
        intro b
        cases b with
        | zero => rfl
        | succ b =>
          simp only [runN]
      rw [this]

/-- `m'` is reached from `m`, observer bookkeeping aside -/
def Reaches (m m' : MState) : Prop := ∃ n, forget (runN n m) = forget m'

theorem Reaches.refl (m : MState) : Reaches m m := ⟨0, rfl⟩

theorem Reaches.of_forget {m m' : MState} (h : forget m = forget m') : Reaches m m' := ⟨0, h⟩

theorem Reaches.trans {a b c : MState} (h1 : Reaches a b) (h2 : Reaches b c) : Reaches a c := by
  obtain ⟨n1, e1⟩ := h1
  obtain ⟨n2, e2⟩ := h2
  refine ⟨n1 + n2, ?_⟩
  rw [runN_add, runN_forget, e1, ← runN_forget, e2]

theorem Reaches.step {m m' : MState} (hrun : m.status = .running) (h : Reaches (UH.step m) m') : Reaches m m' := by
  obtain ⟨n, e⟩ := h
  refine ⟨n + 1, ?_⟩
  simp only [runN, hrun]
  exact e

/-! ### the big-step judgment -/

inductive Eval : Store → World → Task → Nat → Except ErrV Res → Store → World → Prop
  | ret (s w h r) : Eval s w (.comp (.ret r)) h (.ok r) s w
  | throw (s w h e) : Eval s w (.comp (.throw e)) h (.error e) s w
  /-- a completed cell is served from the cell -/
  | forceOk {s w h t k ke v r s' w'} : (s.getCell t).value = some (.ok v) →
      Eval s w (.comp (k v)) h r s' w' → Eval s w (.comp (.force t k ke)) h r s' w'
  | forceErr {s w h t k ke e r s' w'} : (s.getCell t).value = some (.error e) →
      Eval s w (.comp (ke e)) h r s' w' → Eval s w (.comp (.force t k ke)) h r s' w'
  /-- an unevaluated cell gets a frame; the frame's outcome is delivered -/
  | forceEvalOk {s w h t k ke v s1 w1 r s' w'} : (s.getCell t).value = none →
      Eval s w (.frame t) h (.ok (.arg (.strict v))) s1 w1 →
      Eval s1 w1 (.comp (k v)) h r s' w' → Eval s w (.comp (.force t k ke)) h r s' w'
  | forceEvalErr {s w h t k ke e s1 w1 r s' w'} : (s.getCell t).value = none →
      Eval s w (.frame t) h (.error e) s1 w1 →
      Eval s1 w1 (.comp (ke e)) h r s' w' → Eval s w (.comp (.force t k ke)) h r s' w'
  | newThunk {s w h e env k r s' w'} :
      Eval { s with cells := s.cells.push { expr := e, env := env } } w (.comp (k s.cells.size)) h r s' w' →
      Eval s w (.comp (.newThunk e env k)) h r s' w'
  | newFn {s w h mk k r s' w'} :
      Eval { s with fns := s.fns.push (mk s.fns.size) } w (.comp (k s.fns.size)) h r s' w' →
      Eval s w (.comp (.newFn mk k)) h r s' w'
  | getFn {s w h id o k r s' w'} : s.fns.get? id = some o →
      Eval s w (.comp (k o)) h r s' w' → Eval s w (.comp (.getFn id k)) h r s' w'
  /-- `yield from`: the sub-coroutine runs to its end, then the caller goes on -/
  | callOk {s w h op k ke x s1 w1 r s' w'} : Eval s w (.comp (expand op)) h (.ok x) s1 w1 →
      Eval s1 w1 (.comp (k x)) h r s' w' → Eval s w (.comp (.call op k ke)) h r s' w'
  | callErr {s w h op k ke e s1 w1 r s' w'} : Eval s w (.comp (expand op)) h (.error e) s1 w1 →
      Eval s1 w1 (.comp (ke e)) h r s' w' → Eval s w (.comp (.call op k ke)) h r s' w'
  | worldOk {s w h op k ke a s1 w1 r s' w'} : doWorld s w op = (s1, w1, .ok a) →
      Eval s1 w1 (.comp (k a)) h r s' w' → Eval s w (.comp (.world op k ke)) h r s' w'
  | worldErr {s w h op k ke e s1 w1 r s' w'} : doWorld s w op = (s1, w1, .err e) →
      Eval s1 w1 (.comp (ke e)) h r s' w' → Eval s w (.comp (.world op k ke)) h r s' w'
  /-- the frame's coroutine ends with a strict value: the cell and its requestor chain get it -/
  | frameVal {s w h t v s1 w1} : Eval s w (.comp (newFrame s t).cur) h (.ok (.arg (.strict v))) s1 w1 →
      Eval s w (.frame t) (h + 1) (.ok (.arg (.strict v))) (s1.resolve (s1.cells.size + 1) t (.ok v)) w1
  | frameErr {s w h t e s1 w1} : Eval s w (.comp (newFrame s t).cur) h (.error e) s1 w1 →
      Eval s w (.frame t) (h + 1) (.error e) (s1.resolve (s1.cells.size + 1) t (.error e)) w1
  /-- **tail return**: the coroutine ends with a delayed expression `t'`; the frame is replaced by a
  frame for `t'` (which remembers `t` as its requestor) — no height is consumed -/
  | frameTail {s w h t t' lit s1 w1 r s' w'} :
      Eval s w (.comp (newFrame s t).cur) h (.ok (.arg (.thunk t' lit))) s1 w1 →
      Eval (setRequestor s1 t' (some t)) w1 (.frame t') (h + 1) r s' w' →
      Eval s w (.frame t) (h + 1) r s' w'

/-! ### machine states seen through their active frame -/

theorem active_tail {M : MState} {f : Frame} {rest : List Frame} (h : active M = (f, rest, false)) :
    M.tail = f :: rest := by
  unfold active at h
  cases ht : M.tail with
  | nil => simp [ht] at h
  | cons g r => simp [ht] at h; rw [h.1, h.2]

theorem active_head {M : MState} {f : Frame} {rest : List Frame} (h : active M = (f, rest, true)) :
    M.tail = [] ∧ M.head = f ∧ rest = [] := by
  unfold active at h
  cases ht : M.tail with
  | nil => simp [ht] at h; exact ⟨rfl, h.1, h.2⟩
  | cons g r => simp [ht] at h

/-- replace the active frame and the store / world -/
def upd (M : MState) (isHead : Bool) (rest : List Frame) (f' : Frame) (s : Store) (w : World) : MState :=
  put isHead rest f' { M with store := s, world := w }

theorem active_upd {M : MState} {f : Frame} {rest : List Frame} {isHead : Bool}
    (h : active M = (f, rest, isHead)) (f' : Frame) (s : Store) (w : World) :
    active (upd M isHead rest f' s w) = (f', rest, isHead) := by
  cases isHead with
  | true =>
    obtain ⟨ht, _, hr⟩ := active_head h
    simp [upd, put, active, ht, hr]
  | false => simp [upd, put, active]

@[simp] theorem upd_status (M : MState) (b : Bool) (rest f' s w) : (upd M b rest f' s w).status = M.status := by
  cases b <;> rfl
@[simp] theorem upd_resp (M : MState) (b : Bool) (rest f' s w) : (upd M b rest f' s w).resp = M.resp := by
  cases b <;> rfl
@[simp] theorem upd_store (M : MState) (b : Bool) (rest f' s w) : (upd M b rest f' s w).store = s := by
  cases b <;> rfl
@[simp] theorem upd_world (M : MState) (b : Bool) (rest f' s w) : (upd M b rest f' s w).world = w := by
  cases b <;> rfl

theorem upd_tail_length {M : MState} {f : Frame} {rest : List Frame} {isHead : Bool}
    (h : active M = (f, rest, isHead)) (f' : Frame) (s : Store) (w : World) :
    (upd M isHead rest f' s w).tail.length = M.tail.length := by
  cases isHead with
  | true => simp [upd, put]
  | false => simp [upd, put, active_tail h]

theorem upd_upd (M : MState) (b : Bool) (rest f' f'' s w s' w') :
    upd (upd M b rest f' s w) b rest f'' s' w' = upd M b rest f'' s' w' := by
  cases b <;> rfl


theorem upd_self {M : MState} {f : Frame} {rest : List Frame} {isHead : Bool}
    (h : active M = (f, rest, isHead)) : upd M isHead rest f M.store M.world = M := by
  cases isHead with
  | true =>
    obtain ⟨_, hh, _⟩ := active_head h
    simp only [upd, put, if_true]; rw [← hh]
  | false =>
    have ht := active_tail h
    simp only [upd, put, Bool.false_eq_true, if_false]; rw [← ht]

theorem Reaches.congr_right {a b b' : MState} (h : Reaches a b) (e : forget b = forget b') : Reaches a b' := by
  obtain ⟨n, hn⟩ := h
  exact ⟨n, hn.trans e⟩

/-- one machine step from a state whose active frame is known -/
theorem step_at {M : MState} {f : Frame} {rest : List Frame} {isHead : Bool}
    (hrun : M.status = .running) (hact : active M = (f, rest, isHead)) :
    UH.step M = stepCore M f rest isHead := by
  rw [step_eq_core M hrun, hact]

/-- the current coroutine of a finished task -/
def resCur : Except ErrV Res → Comp Res
  | .ok r => .ret r
  | .error e => .throw e

/-- what a frame hands to the frame below -/
def frameOut : Except ErrV Res → Outcome
  | .ok (.arg (.strict v)) => .ok v
  | .ok _ => .error default
  | .error e => .error e

theorem Eval.frame_pos {s w t h r s' w'} (hev : Eval s w (.frame t) h r s' w') : 0 < h := by
  cases hev <;> omega

/-- what soundness means for the two kinds of task -/
def Sound (s : Store) (w : World) (task : Task) (h : Nat) (r : Except ErrV Res) (s' : Store) (w' : World) : Prop :=
  match task with
  | .comp c => ∀ (M : MState) (f : Frame) (rest : List Frame) (isHead : Bool),
      M.status = .running → M.resp = none → active M = (f, rest, isHead) → f.cur = c →
      M.store = s → M.world = w → M.tail.length + h < maxStackSize →
      Reaches M (upd M isHead rest { f with cur := resCur r } s' w')
  | .frame t => ∀ (M : MState) (rest : List Frame), M.status = .running → M.resp = none →
      M.tail = newFrame s t :: rest → M.store = s → M.world = w → rest.length + h < maxStackSize →
      Reaches M { M with tail := rest, resp := some (frameOut r), store := s', world := w' }

/-- a step that only replaces the active frame's coroutine (and possibly store / world), followed by
the rest of the run -/
theorem comp_step {M : MState} {f : Frame} {rest : List Frame} {isHead : Bool} {f1 : Frame} {s1 : Store} {w1 : World}
    {r : Except ErrV Res} {s' : Store} {w' : World}
    (hrun : M.status = .running) (hresp : M.resp = none) (hact : active M = (f, rest, isHead))
    (hstep : stepCore M f rest isHead = upd M isHead rest f1 s1 w1)
    (hbox : f1.box = f.box) (hk : f1.konts = f.konts)
    (ih : ∀ (M' : MState), M'.status = .running → M'.resp = none → active M' = (f1, rest, isHead) →
      M'.store = s1 → M'.world = w1 → M'.tail.length = M.tail.length →
      Reaches M' (upd M' isHead rest { f1 with cur := resCur r } s' w')) :
    Reaches M (upd M isHead rest { f with cur := resCur r } s' w') := by
  apply Reaches.step hrun
  rw [step_at hrun hact, hstep]
  have := ih (upd M isHead rest f1 s1 w1) (by simp [hrun]) (by simp [hresp]) (active_upd hact _ _ _)
    (by simp) (by simp) (upd_tail_length hact _ _ _)
  rw [upd_upd] at this
  have e : ({ f1 with cur := resCur r } : Frame) = { f with cur := resCur r } := by
    cases f1; cases f; simp_all
  rw [e] at this
  exact this


/-- applying a soundness statement for a coroutine to a state given in `upd` form -/
theorem Sound.apply_upd {c : Comp Res} {h : Nat} {r : Except ErrV Res} {s1 s' : Store} {w1 w' : World}
    (ih : Sound s1 w1 (.comp c) h r s' w') {M : MState} {f : Frame} {rest : List Frame} {isHead : Bool}
    (hrun : M.status = .running) (hresp : M.resp = none) (hact : active M = (f, rest, isHead))
    (F : Frame) (hF : F.cur = c) (hh : M.tail.length + h < maxStackSize) :
    Reaches (upd M isHead rest F s1 w1) (upd M isHead rest { F with cur := resCur r } s' w') := by
  have := ih (upd M isHead rest F s1 w1) F rest isHead (by simp [hrun]) (by simp [hresp]) (active_upd hact _ _ _) hF
    (by simp) (by simp) (by rw [upd_tail_length hact]; exact hh)
  rwa [upd_upd] at this

/-- a demand for an unevaluated cell pushes a frame for it -/
theorem step_force_push {M : MState} {f : Frame} {rest : List Frame} {isHead : Bool} {t k ke}
    (hrun : M.status = .running) (hresp : M.resp = none) (hact : active M = (f, rest, isHead))
    (hcur : f.cur = .force t k ke) (hval : (M.store.getCell t).value = none)
    (hh : M.tail.length + 1 < maxStackSize) :
    UH.step M = { M with tail := newFrame M.store t :: M.tail, depth := M.depth + 1, dstack := [t] :: M.dstack,
                         events := Event.before (M.depth + 1) t :: M.events, starts := t :: M.starts } := by
  rw [step_at hrun hact]
  simp only [stepCore, hresp, hcur, hval]
  have : ¬ ((newFrame M.store t :: M.tail).length ≥ maxStackSize) := by simp only [List.length_cons]; omega
  simp only [this, if_false]

/-- the outcome of the demanded evaluation is delivered to the waiting coroutine -/
theorem step_deliver {M : MState} {f : Frame} {rest : List Frame} {isHead : Bool} {t k ke} (o : Outcome)
    (hrun : M.status = .running) (hresp : M.resp = some o) (hact : active M = (f, rest, isHead))
    (hcur : f.cur = .force t k ke) :
    UH.step M = put isHead rest { f with cur := match o with | .ok v => k v | .error e => ke e } { M with resp := none } := by
  rw [step_at hrun hact]
  simp only [stepCore, hresp, hcur]
  cases o <;> rfl

theorem active_congr {M M' : MState} (ht : M'.tail = M.tail) (hh : M'.head = M.head) : active M' = active M := by
  unfold active; rw [ht, hh]

/-- a machine step from a state in `upd` form -/
theorem step_upd {M : MState} {f : Frame} {rest : List Frame} {isHead : Bool}
    (hrun : M.status = .running) (hact : active M = (f, rest, isHead)) (F : Frame) (S : Store) (W : World) :
    UH.step (upd M isHead rest F S W) = stepCore (upd M isHead rest F S W) F rest isHead :=
  step_at (by simp [hrun]) (active_upd hact _ _ _)

theorem put_upd (M : MState) (b : Bool) (rest : List Frame) (F F' : Frame) (S : Store) (W : World) :
    put b rest F' (upd M b rest F S W) = upd M b rest F' S W := by
  cases b <;> rfl

theorem maxStack_pos : 0 < maxStackSize := by decide

/-- **soundness**: the machine realises every derivation -/
theorem Eval.sound {s w task h r s' w'} (hev : Eval s w task h r s' w') : Sound s w task h r s' w' := by
  induction hev with
  | ret s w h r =>
    intro M f rest isHead hrun hresp hact hcur hs hw hh
    subst hs hw
    have : ({ f with cur := resCur (.ok r) } : Frame) = f := by cases f; simp_all [resCur]
    rw [this, upd_self hact]; exact Reaches.refl _
  | throw s w h e =>
    intro M f rest isHead hrun hresp hact hcur hs hw hh
    subst hs hw
    have : ({ f with cur := resCur (.error e) } : Frame) = f := by cases f; simp_all [resCur]
    rw [this, upd_self hact]; exact Reaches.refl _
  | @forceOk s w h t k ke v r s' w' hval _ ih =>
    intro M f rest isHead hrun hresp hact hcur hs hw hh
    subst hs hw
    refine comp_step (f1 := { f with cur := k v }) (s1 := M.store) (w1 := M.world) hrun hresp hact ?_ rfl rfl ?_
    · simp only [stepCore, hresp, hcur, hval, upd]
      try (clear ih; congr 1; cases M; simp_all)
    · intro M' h1 h2 h3 h4 h5 h6
      exact ih M' _ rest isHead h1 h2 h3 rfl h4 h5 (by omega)
  | @forceErr s w h t k ke e r s' w' hval _ ih =>
    intro M f rest isHead hrun hresp hact hcur hs hw hh
    subst hs hw
    refine comp_step (f1 := { f with cur := ke e }) (s1 := M.store) (w1 := M.world) hrun hresp hact ?_ rfl rfl ?_
    · simp only [stepCore, hresp, hcur, hval, upd]
      try (clear ih; congr 1; cases M; simp_all)
    · intro M' h1 h2 h3 h4 h5 h6
      exact ih M' _ rest isHead h1 h2 h3 rfl h4 h5 (by omega)
  | @newThunk s w h e env k r s' w' _ ih =>
    intro M f rest isHead hrun hresp hact hcur hs hw hh
    subst hs hw
    refine comp_step (f1 := { f with cur := k M.store.cells.size })
      (s1 := { M.store with cells := M.store.cells.push { expr := e, env := env } }) (w1 := M.world) hrun hresp hact ?_ rfl rfl ?_
    · simp only [stepCore, hresp, hcur, upd]
      try (clear ih; congr 1; cases M; simp_all)
    · intro M' h1 h2 h3 h4 h5 h6
      exact ih M' _ rest isHead h1 h2 h3 rfl h4 h5 (by omega)
  | @newFn s w h mk k r s' w' _ ih =>
    intro M f rest isHead hrun hresp hact hcur hs hw hh
    subst hs hw
    refine comp_step (f1 := { f with cur := k M.store.fns.size })
      (s1 := { M.store with fns := M.store.fns.push (mk M.store.fns.size) }) (w1 := M.world) hrun hresp hact ?_ rfl rfl ?_
    · simp only [stepCore, hresp, hcur, upd]
      try (clear ih; congr 1; cases M; simp_all)
    · intro M' h1 h2 h3 h4 h5 h6
      exact ih M' _ rest isHead h1 h2 h3 rfl h4 h5 (by omega)
  | @getFn s w h id o k r s' w' hget _ ih =>
    intro M f rest isHead hrun hresp hact hcur hs hw hh
    subst hs hw
    refine comp_step (f1 := { f with cur := k o }) (s1 := M.store) (w1 := M.world) hrun hresp hact ?_ rfl rfl ?_
    · simp only [stepCore, hresp, hcur, hget, upd]
      try (clear ih; congr 1; cases M; simp_all)
    · intro M' h1 h2 h3 h4 h5 h6
      exact ih M' _ rest isHead h1 h2 h3 rfl h4 h5 (by omega)
  | @worldOk s w h op k ke a s1 w1 r s' w' hdw _ ih =>
    intro M f rest isHead hrun hresp hact hcur hs hw hh
    subst hs hw
    refine comp_step (f1 := { f with cur := k a }) (s1 := s1) (w1 := w1) hrun hresp hact ?_ rfl rfl ?_
    · simp only [stepCore, hresp, hcur, hdw, upd]
      try (clear ih; congr 1; cases M; simp_all)
    · intro M' h1 h2 h3 h4 h5 h6
      exact ih M' _ rest isHead h1 h2 h3 rfl h4 h5 (by omega)
  | @worldErr s w h op k ke e s1 w1 r s' w' hdw _ ih =>
    intro M f rest isHead hrun hresp hact hcur hs hw hh
    subst hs hw
    refine comp_step (f1 := { f with cur := ke e }) (s1 := s1) (w1 := w1) hrun hresp hact ?_ rfl rfl ?_
    · simp only [stepCore, hresp, hcur, hdw, upd]
      try (clear ih; congr 1; cases M; simp_all)
    · intro M' h1 h2 h3 h4 h5 h6
      exact ih M' _ rest isHead h1 h2 h3 rfl h4 h5 (by omega)
  | @forceEvalOk s w h t k ke v s1 w1 r s' w' hval hfr _ ihF ihC =>
    intro M f rest isHead hrun hresp hact hcur hs hw hh
    subst hs hw
    have hpos := hfr.frame_pos
    apply Reaches.step hrun
    rw [step_force_push hrun hresp hact hcur hval (by omega)]
    refine Reaches.trans (ihF _ M.tail hrun hresp rfl rfl rfl hh) ?_
    refine Reaches.trans (Reaches.of_forget (m' := { M with resp := some (.ok v), store := s1, world := w1 }) rfl) ?_
    refine Reaches.step (m := { M with resp := some (.ok v), store := s1, world := w1 }) hrun ?_
    rw [step_deliver (M := { M with resp := some (.ok v), store := s1, world := w1 }) (f := f) (rest := rest)
      (isHead := isHead) (.ok v) hrun rfl hact hcur]
    have e : put isHead rest { f with cur := k v }
        { ({ M with resp := some (.ok v), store := s1, world := w1 } : MState) with resp := none } =
        upd M isHead rest { f with cur := k v } s1 w1 := by
      simp only [upd]; congr 1; cases M; simp_all
    simp only [] at e ⊢
    rw [e]
    exact ihC.apply_upd hrun hresp hact _ rfl (by omega)
  | @forceEvalErr s w h t k ke e s1 w1 r s' w' hval hfr _ ihF ihC =>
    intro M f rest isHead hrun hresp hact hcur hs hw hh
    subst hs hw
    have hpos := hfr.frame_pos
    apply Reaches.step hrun
    rw [step_force_push hrun hresp hact hcur hval (by omega)]
    refine Reaches.trans (ihF _ M.tail hrun hresp rfl rfl rfl hh) ?_
    refine Reaches.trans (Reaches.of_forget (m' := { M with resp := some (.error e), store := s1, world := w1 }) rfl) ?_
    refine Reaches.step (m := { M with resp := some (.error e), store := s1, world := w1 }) hrun ?_
    rw [step_deliver (M := { M with resp := some (.error e), store := s1, world := w1 }) (f := f) (rest := rest)
      (isHead := isHead) (.error e) hrun rfl hact hcur]
    have e' : put isHead rest { f with cur := ke e }
        { ({ M with resp := some (.error e), store := s1, world := w1 } : MState) with resp := none } =
        upd M isHead rest { f with cur := ke e } s1 w1 := by
      simp only [upd]; congr 1; cases M; simp_all
    simp only [] at e' ⊢
    rw [e']
    exact ihC.apply_upd hrun hresp hact _ rfl (by omega)
  | @callOk s w h op k ke x s1 w1 r s' w' _ _ ih1 ih2 =>
    intro M f rest isHead hrun hresp hact hcur hs hw hh
    subst hs hw
    apply Reaches.step hrun
    rw [step_at hrun hact]
    have e1 : stepCore M f rest isHead =
        upd M isHead rest { f with konts := ⟨k, ke⟩ :: f.konts, cur := expand op } M.store M.world := by
      simp only [stepCore, hresp, hcur, upd]
      congr 1; cases M; simp_all
    rw [e1]
    refine Reaches.trans (ih1.apply_upd hrun hresp hact _ rfl hh) ?_
    refine Reaches.step (by simp [hrun]) ?_
    rw [step_upd hrun hact]
    have e2 : stepCore (upd M isHead rest { box := f.box, konts := ⟨k, ke⟩ :: f.konts, cur := resCur (.ok x) } s1 w1)
        { box := f.box, konts := ⟨k, ke⟩ :: f.konts, cur := resCur (.ok x) } rest isHead =
        upd M isHead rest { f with cur := k x } s1 w1 := by
      simp only [stepCore, upd_resp, hresp, resCur, put_upd]
    rw [e2]
    exact ih2.apply_upd hrun hresp hact _ rfl hh
  | @callErr s w h op k ke e s1 w1 r s' w' _ _ ih1 ih2 =>
    intro M f rest isHead hrun hresp hact hcur hs hw hh
    subst hs hw
    apply Reaches.step hrun
    rw [step_at hrun hact]
    have e1 : stepCore M f rest isHead =
        upd M isHead rest { f with konts := ⟨k, ke⟩ :: f.konts, cur := expand op } M.store M.world := by
      simp only [stepCore, hresp, hcur, upd]
      congr 1; cases M; simp_all
    rw [e1]
    refine Reaches.trans (ih1.apply_upd hrun hresp hact _ rfl hh) ?_
    refine Reaches.step (by simp [hrun]) ?_
    rw [step_upd hrun hact]
    have e2 : stepCore (upd M isHead rest { box := f.box, konts := ⟨k, ke⟩ :: f.konts, cur := resCur (.error e) } s1 w1)
        { box := f.box, konts := ⟨k, ke⟩ :: f.konts, cur := resCur (.error e) } rest isHead =
        upd M isHead rest { f with cur := ke e } s1 w1 := by
      simp only [stepCore, upd_resp, hresp, resCur, put_upd]
    rw [e2]
    exact ih2.apply_upd hrun hresp hact _ rfl hh
  | @frameVal s w h t v s1 w1 _ ih =>
    intro M rest hrun hresp htail hs hw hh
    have hact : active M = (newFrame s t, rest, false) := by simp [active, htail]
    refine Reaches.trans (ih M (newFrame s t) rest false hrun hresp hact rfl hs hw (by rw [htail]; simp only [List.length_cons]; omega)) ?_
    refine Reaches.step (by simp [hrun]) ?_
    rw [step_upd hrun hact]
    apply Reaches.of_forget
    simp [stepCore, hresp, resCur, newFrame, finishFrame, forget, upd, put, frameOut]
  | @frameErr s w h t e s1 w1 _ ih =>
    intro M rest hrun hresp htail hs hw hh
    have hact : active M = (newFrame s t, rest, false) := by simp [active, htail]
    refine Reaches.trans (ih M (newFrame s t) rest false hrun hresp hact rfl hs hw (by rw [htail]; simp only [List.length_cons]; omega)) ?_
    refine Reaches.step (by simp [hrun]) ?_
    rw [step_upd hrun hact]
    apply Reaches.of_forget
    simp [stepCore, hresp, resCur, newFrame, finishFrame, forget, upd, put, frameOut]
  | @frameTail s w h t t' lit s1 w1 r s' w' _ _ ih1 ih2 =>
    intro M rest hrun hresp htail hs hw hh
    have hact : active M = (newFrame s t, rest, false) := by simp [active, htail]
    refine Reaches.trans (ih1 M (newFrame s t) rest false hrun hresp hact rfl hs hw (by rw [htail]; simp only [List.length_cons]; omega)) ?_
    refine Reaches.step (by simp [hrun]) ?_
    rw [step_upd hrun hact]
    refine Reaches.trans (ih2 _ rest ?_ ?_ ?_ ?_ ?_ hh) ?_
    · simp [stepCore, hresp, resCur, newFrame, upd, put, hrun]
    · simp [stepCore, hresp, resCur, newFrame, upd, put]
    · simp [stepCore, hresp, resCur, newFrame, upd, put, setRequestor]
    · simp [stepCore, hresp, resCur, newFrame, upd, put, setRequestor]
    · simp [stepCore, hresp, resCur, newFrame, upd, put]
    · apply Reaches.of_forget
      simp [stepCore, hresp, resCur, newFrame, forget, upd, put]

end UH.BigStep
