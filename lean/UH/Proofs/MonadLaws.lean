/-
The monad laws of the I/O actions, as theorems about the big-step execution judgment `Exec` (C07).

`ㄱㅅ v` (return) and `m ㄱㄹ f` (bind) are *values*; executing them is what `main.do_IO` does.  The laws say what executing
the composed action does in terms of executing its parts:

* left identity   — executing `(ㄱㅅ v) ㄱㄹ f` does exactly what evaluating `f v` and executing the action it gives does;
* right identity  — executing `m ㄱㄹ ㄱㅅ` does exactly what executing `m` does (for results without components, which
                    `ㄱㅅ`'s complete evaluation of its argument leaves alone without any further evaluation);
* sequencing      — executing `(m ㄱㄹ f) ㄱㄹ g` executes `m`, then the action of `f`, then the action of `g`, threading store
                    and world in exactly this order (the left-nested form of associativity).

Together with `Eval.deterministic` (the judgment has at most one outcome) "does exactly what" is an equality of outcomes.
-/
import UH.Proofs.NatSemPrim
namespace UH.BigStep
open UH Unforced C19 Comp

/-- `exec_bind` for any continuation the callee check accepts (a function, or the name of a built-in) -/
theorem exec_bind_cc {s w h argv sp io0 f a s1 w1 r s2 w2 rv s3 w3 res s4 w4}
    (hcc : checkCallee isBuiltinName sp f false = Comp.ret ())
    (h1 : Exec s w io0 h a s1 w1)
    (h2 : Eval s1 w1 (.comp (expand (.apply f sp [a]))) h (.ok (.arg r)) s2 w2)
    (h3 : EvalTo s2 w2 (forceArg r) h rv s3 w3)
    (hio : rv.isIO = true)
    (h4 : Exec s3 w3 rv h res s4 w4) :
    Exec s w (.io .bind argv sp (some (io0, f, none))) h res s4 w4 := by
  refine exec_step (a := .strict rv) (v' := rv) ?_ (EvalTo.forceStrict _ _ _ _) h4
  intro k r' s' w' hk
  simp only [ioCont, Comp.bind]
  refine .callOk h1.toEval ?_
  simp only [hcc, Bind.bind, Comp.bind]
  rw [bind_assoc]
  refine (EvalTo.callArg h2) _ _ _ _ ?_
  rw [bind_assoc]
  refine h3 _ _ _ _ ?_
  simp only [checkType, hio, List.all_cons, List.all_nil, Bool.and_true, if_true, Comp.bind, retV]
  exact hk

/-- values without components: `recursive_strict` has nothing to descend into -/
def isAtom : Val → Bool
  | .list _ => false
  | .dict _ => false
  | .err _ _ => false
  | _ => true

/-- `recursive_strict` of an evaluated value without components is that value; nothing is evaluated -/
theorem evalTo_recStrict_atom (s : Store) (w : World) (h : Nat) (v : Val) (hv : isAtom v = true) :
    EvalTo s w (recStrict (.strict v)) h (.strict v) s w := by
  intro k r s' w' hk
  cases v <;> first
    | (simpa only [recStrict, forceArg, retV, Bind.bind, Comp.bind] using hk)
    | (exact absurd hv (by simp [isAtom]))

/-- a traversal whose every step returns its element and changes nothing returns the list and changes nothing -/
theorem evalTo_mapM'_id {α : Type} (s : Store) (w : World) (h : Nat) (f : α → Comp α) :
    ∀ (as : List α), (∀ a ∈ as, EvalTo s w (f a) h a s w) → EvalTo s w (mapM' f as) h as s w := by
  intro as
  induction as with
  | nil => intro _; exact EvalTo.ret _ _ _ _
  | cons a as ih =>
    intro hall
    have h1 := hall a (by simp)
    have h2 := ih (fun b hb => hall b (by simp [hb]))
    simp only [mapM', Bind.bind, pure]
    exact h1.bind (h2.bind (EvalTo.ret _ _ _ _))

/-- **completely evaluated values** of nesting depth ≤ n: values without components, and lists of (already evaluated)
completely evaluated values of smaller depth -/
def DeepN : Nat → Val → Prop
  | 0, v => isAtom v = true
  | n + 1, v => isAtom v = true ∨ ∃ xs : List Val, v = .list (xs.map Arg.strict) ∧ ∀ x ∈ xs, DeepN n x

/-- `recursive_strict` of a completely evaluated value is that value — at any nesting depth — and changes nothing -/
theorem evalTo_recStrict_deep (s : Store) (w : World) (h : Nat) :
    ∀ (n : Nat) (v : Val), DeepN n v → EvalTo s w (recStrict (.strict v)) h (.strict v) s w := by
  intro n
  induction n with
  | zero => intro v hv; exact evalTo_recStrict_atom s w h v hv
  | succ n ih =>
    intro v hv
    rcases hv with hv | ⟨xs, rfl, hall⟩
    · exact evalTo_recStrict_atom s w h v hv
    · have hmap : EvalTo s w (mapM' (fun x => callArg (.recStrict x)) (xs.map Arg.strict)) h (xs.map Arg.strict) s w := by
        refine evalTo_mapM'_id s w h _ _ ?_
        intro a ha
        simp only [List.mem_map] at ha
        obtain ⟨x, hx, rfl⟩ := ha
        have := (ih x (hall x hx)).toEval Res.arg
        refine EvalTo.callArg ?_
        simpa only [expand, Bind.bind, pure] using this
      have hrec : recStrict (.strict (.list (xs.map Arg.strict))) =
          (mapM' (fun x => callArg (.recStrict x)) (xs.map Arg.strict)).bind (fun zs => retV (.list zs)) := by
        simp only [recStrict, forceArg, Bind.bind, Comp.bind]
      rw [hrec]
      exact hmap.bind (f := fun zs => retV (.list zs)) (EvalTo.ret _ _ _ _)

/-- applying the built-in `ㄱㅅ` to an evaluated value without components gives the action that returns it; nothing
else happens -/
theorem eval_apply_return (s : Store) (w : World) (h : Nat) (sp : Span) (n : Int) (v : Val)
    (hb : builtinOf n = some bReturn) (hv : isAtom v = true) :
    Eval s w (.comp (expand (.apply (.builtin n) sp [.strict v]))) h
      (.ok (.arg (.strict (.io .ret [.strict v] sp none)))) s w := by
  simp only [expand, applyCallee, hb, bReturn, checkArity, mapM', callArg, List.length_cons, List.length_nil,
    List.contains_cons, List.contains_nil, Bind.bind, Comp.bind, pure]
  refine .callOk (x := .arg (.strict v)) (s1 := s) (w1 := w) ?_ ?_
  · have := (evalTo_recStrict_atom s w h v hv).toEval Res.arg
    simpa only [expand, Bind.bind, pure] using this
  · simp only [Comp.bind, retV]
    exact .ret _ _ _ _

/-- **left identity.**  If applying `f` to `v` evaluates to an action `rv` and executing `rv` produces `res`, then executing
`(ㄱㅅ v) ㄱㄹ f` produces `res` too — with the same final store and world: the return action performs nothing. -/
theorem exec_left_identity {s w h argv sp sp' f v r s2 w2 rv s3 w3 res s4 w4}
    (hcc : checkCallee isBuiltinName sp f false = Comp.ret ())
    (hv : v.isIO = false)
    (h2 : Eval s w (.comp (expand (.apply f sp [.strict v]))) h (.ok (.arg r)) s2 w2)
    (h3 : EvalTo s2 w2 (forceArg r) h rv s3 w3)
    (hio : rv.isIO = true)
    (h4 : Exec s3 w3 rv h res s4 w4) :
    Exec s w (.io .bind argv sp (some (.io .ret [.strict v] sp' none, f, none))) h res s4 w4 :=
  exec_bind_cc hcc (exec_return s w h sp' v hv) h2 h3 hio h4

/-- **right identity.**  If executing `m` produces the value `v` (without components), executing `m ㄱㄹ ㄱㅅ` produces `v`
as well, with the same final store and world: the continuation `ㄱㅅ` adds nothing. -/
theorem exec_right_identity {s w h argv sp m v s1 w1} (n : Int)
    (hn : encodeNumber n = [0, 6])                       -- the literal spells ㄱㅅ
    (hv : isAtom v = true) (hio : v.isIO = false)
    (h1 : Exec s w m h (.strict v) s1 w1) :
    Exec s w (.io .bind argv sp (some (m, .builtin n, none))) h (.strict v) s1 w1 := by
  have hb : builtinOf n = some bReturn := by simp [builtinOf, hn]
  have hname : isBuiltinName n = true := by simp only [isBuiltinName, hn]; decide
  refine exec_bind_cc (f := .builtin n) (rv := .io .ret [.strict v] sp none) ?_ h1
    (eval_apply_return s1 w1 h sp n v hb hv) (EvalTo.forceStrict _ _ _ _) rfl (exec_return s1 w1 h sp v hio)
  simp only [checkCallee, hname, if_true]

/-- applying `ㄱㅅ` to a completely evaluated value (of any nesting depth) gives the action that returns it; nothing else happens -/
theorem eval_apply_return_deep (s : Store) (w : World) (h : Nat) (sp : Span) (n : Int) (d : Nat) (v : Val)
    (hb : builtinOf n = some bReturn) (hv : DeepN d v) :
    Eval s w (.comp (expand (.apply (.builtin n) sp [.strict v]))) h
      (.ok (.arg (.strict (.io .ret [.strict v] sp none)))) s w := by
  simp only [expand, applyCallee, hb, bReturn, checkArity, mapM', callArg, List.length_cons, List.length_nil,
    List.contains_cons, List.contains_nil, Bind.bind, Comp.bind, pure]
  refine .callOk (x := .arg (.strict v)) (s1 := s) (w1 := w) ?_ ?_
  · have := (evalTo_recStrict_deep s w h d v hv).toEval Res.arg
    simpa only [expand, Bind.bind, pure] using this
  · simp only [Comp.bind, retV]
    exact .ret _ _ _ _

/-- **right identity, any completely evaluated result**: numbers, strings, …, and lists of such values nested to any depth -/
theorem exec_right_identity_deep {s w h argv sp m v s1 w1} (n : Int) (d : Nat)
    (hn : encodeNumber n = [0, 6]) (hv : DeepN d v) (hio : v.isIO = false)
    (h1 : Exec s w m h (.strict v) s1 w1) :
    Exec s w (.io .bind argv sp (some (m, .builtin n, none))) h (.strict v) s1 w1 := by
  have hb : builtinOf n = some bReturn := by simp [builtinOf, hn]
  have hname : isBuiltinName n = true := by simp only [isBuiltinName, hn]; decide
  refine exec_bind_cc (f := .builtin n) (rv := .io .ret [.strict v] sp none) ?_ h1
    (eval_apply_return_deep s1 w1 h sp n d v hb hv) (EvalTo.forceStrict _ _ _ _) rfl (exec_return s1 w1 h sp v hio)
  simp only [checkCallee, hname, if_true]

/-- **sequencing (left-nested associativity).**  Executing `(m ㄱㄹ f) ㄱㄹ g` executes `m` (`w → w1`), evaluates `f` on its
result and executes that action (`→ w4`), then evaluates `g` on *its* result and executes that action (`→ w7`) — in this
order, each step starting from the store and world the previous one left. -/
theorem exec_bind_bind {s w h argv argv' sp sp' m f g a s1 w1 r s2 w2 rv s3 w3 b s4 w4 r' s5 w5 rv' s6 w6 res s7 w7}
    (hf : checkCallee isBuiltinName sp' f false = Comp.ret ())
    (hg : checkCallee isBuiltinName sp g false = Comp.ret ())
    (h1 : Exec s w m h a s1 w1)
    (h2 : Eval s1 w1 (.comp (expand (.apply f sp' [a]))) h (.ok (.arg r)) s2 w2)
    (h3 : EvalTo s2 w2 (forceArg r) h rv s3 w3) (hio : rv.isIO = true)
    (h4 : Exec s3 w3 rv h b s4 w4)
    (h5 : Eval s4 w4 (.comp (expand (.apply g sp [b]))) h (.ok (.arg r')) s5 w5)
    (h6 : EvalTo s5 w5 (forceArg r') h rv' s6 w6) (hio' : rv'.isIO = true)
    (h7 : Exec s6 w6 rv' h res s7 w7) :
    Exec s w (.io .bind argv sp (some (.io .bind argv' sp' (some (m, f, none)), g, none))) h res s7 w7 :=
  exec_bind_cc hg (exec_bind_cc hf h1 h2 h3 hio h4) h5 h6 hio' h7

/-- … and a failure while executing the *inner* bind of `(m ㄱㄹ f) ㄱㄹ g` skips `g`: it propagates unchanged -/
theorem exec_bind_bind_raises {s w h argv sp inner g e s1 w1}
    (h1 : Eval s w (.comp (expand (.doIO inner))) h (.error e) s1 w1) :
    Raises s w (doIO (.io .bind argv sp (some (inner, g, none)))) h e s1 w1 :=
  exec_bind_raises h1

end UH.BigStep
