/- Parsing commutes with span erasure: the tree shape depends on the words only (for C01). -/
import UH.Model.Parse
namespace UH

mutual
/-- forget all source spans -/
def AST.erase : AST → AST
  | .lit n _ => .lit n default
  | .funRef r _ => .funRef r default
  | .argRef a r _ => .argRef (AST.erase a) r default
  | .funDef b _ => .funDef (AST.erase b) default
  | .call f args _ => .call (AST.erase f) (AST.eraseList args) default
  | .bomb => .bomb
def AST.eraseList : List AST → List AST
  | [] => []
  | a :: as => AST.erase a :: AST.eraseList as
end

theorem AST.eraseList_eq_map (l : List AST) : AST.eraseList l = l.map AST.erase := by
  induction l with
  | nil => rfl
  | cons a as ih => simp [AST.eraseList, ih]

/-- observable part of a parse result when spans are ignored -/
def resErase : Except PErr (List AST) → Except PErrKind (List AST)
  | .ok s => .ok (s.map AST.erase)
  | .error e => .error e.kind

/-- stacks equal up to spans -/
def StackRel (s s' : List AST) : Prop := s.map AST.erase = s'.map AST.erase

theorem StackRel.length {s s'} (h : StackRel s s') : s.length = s'.length := by
  have := congrArg List.length h; simpa using this

theorem StackRel.getLast? {s s'} (h : StackRel s s') :
    s.getLast?.map AST.erase = s'.getLast?.map AST.erase := by
  have := congrArg List.getLast? h; simpa [List.getLast?_map] using this

theorem StackRel.dropLast {s s'} (h : StackRel s s') : StackRel s.dropLast s'.dropLast := by
  have := congrArg List.dropLast h; simpa [StackRel, List.map_dropLast] using this

theorem StackRel.take {s s'} (n) (h : StackRel s s') : StackRel (s.take n) (s'.take n) := by
  have := congrArg (List.take n) h; simpa [StackRel, List.map_take] using this

theorem StackRel.drop {s s'} (n) (h : StackRel s s') : StackRel (s.drop n) (s'.drop n) := by
  have := congrArg (List.drop n) h; simpa [StackRel, List.map_drop] using this

theorem StackRel.snoc {s s'} {a a'} (h : StackRel s s') (ha : a.erase = a'.erase) :
    StackRel (s ++ [a]) (s' ++ [a']) := by
  simp [StackRel] at *; exact ⟨h, ha⟩

theorem resErase_ok {s s'} (h : StackRel s s') :
    resErase (.ok s) = resErase (.ok s') := by simp [resErase]; exact h

theorem parseWord_rel (w : Word) (sp sp' : Span) (s s' : List AST) (h : StackRel s s') :
    resErase (parseWord w sp s) = resErase (parseWord w sp' s') := by
  have hl := h.getLast?
  have hd := h.dropLast
  cases w with
  | lit ds => exact resErase_ok (h.snoc rfl)
  | h ds =>
    cases ds with
    | nil =>
      simp only [parseWord]
      cases h1 : s.getLast? <;> cases h2 : s'.getLast? <;> rw [h1, h2] at hl <;> simp at hl
      · simp [resErase]
      · exact resErase_ok (hd.snoc (by simp [AST.erase, hl]))
    | cons d ds =>
      simp only [parseWord]
      by_cases hneg : parseNumber (d :: ds) < 0
      · simp [hneg, resErase]
      · simp only [hneg, if_false]
        cases h1 : s.getLast? <;> cases h2 : s'.getLast? <;> rw [h1, h2] at hl <;> simp at hl
        · simp [resErase]
        · simp only []
          rw [hd.length]
          by_cases hfew : s'.dropLast.length < (parseNumber (d :: ds)).toNat
          · simp only [hfew, ↓reduceIte, resErase]
          · simp only [hfew, ↓reduceIte]
            apply resErase_ok
            apply StackRel.snoc (hd.take _)
            have := hd.drop (s'.dropLast.length - (parseNumber (d :: ds)).toNat)
            simp only [StackRel] at this
            simpa [AST.erase, AST.eraseList_eq_map, hl, List.map_drop, List.map_dropLast] using this
  | o ds =>
    cases ds with
    | nil =>
      simp only [parseWord]
      cases h1 : s.getLast? <;> cases h2 : s'.getLast? <;> rw [h1, h2] at hl <;> simp at hl
      · simp [resErase]
      · rename_i a a'
        cases a <;> cases a' <;> simp [AST.erase] at hl <;>
          first
          | (subst hl; exact resErase_ok (hd.snoc rfl))
          | simp [resErase]
    | cons d ds =>
      simp only [parseWord]
      cases h1 : s.getLast? <;> cases h2 : s'.getLast? <;> rw [h1, h2] at hl <;> simp at hl
      · simp [resErase]
      · exact resErase_ok (hd.snoc (by simp [AST.erase, hl]))

theorem parseTokens_rel (ts ts' : List Token) (hts : ts.map (·.syms) = ts'.map (·.syms)) :
    ∀ (s s' : List AST), StackRel s s' →
      resErase (parseTokens s ts) = resErase (parseTokens s' ts') := by
  induction ts generalizing ts' with
  | nil =>
    cases ts' with
    | nil => intro s s' h; exact resErase_ok h
    | cons _ _ => simp at hts
  | cons t ts ih =>
    cases ts' with
    | nil => simp at hts
    | cons t' ts' =>
      simp only [List.map_cons, List.cons.injEq] at hts
      intro s s' h
      simp only [parseTokens]
      have hw : resErase (parseToken t s) = resErase (parseToken t' s') := by
        simp only [parseToken, hts.1]
        cases classify t'.syms with
        | none => simp [resErase]
        | some w => exact parseWord_rel w _ _ s s' h
      cases h1 : parseToken t s <;> cases h2 : parseToken t' s' <;> rw [h1, h2] at hw <;>
        simp [resErase] at hw
      · simp [resErase, hw]
      · exact ih ts' hts.2 _ _ hw

/-- **two token streams with the same words parse to the same trees up to spans**
(and are rejected for the same reason) -/
theorem same_words_same_parse (ts1 ts2 : List Token)
    (h : ts1.map (·.syms) = ts2.map (·.syms)) :
    resErase (parseTokens [] ts1) = resErase (parseTokens [] ts2) :=
  parseTokens_rel ts1 ts2 h [] [] rfl

end UH
