/-
Consequences of the big-step semantics (`BigStep.Eval`, sound for the machine):

* the top level: a derivation for the head coroutine is a finished run of `evaluate`;
* heights can be weakened; **a loop of any number of tail returns needs no more evaluator frames than
  its deepest single iteration** (`Eval.tail_iter`);
* the natural-semantics rules of the core calculus — literal, function reference, function
  definition, argument reference (static or computed position), call of a closure — as derived rules:
  the call-by-need, lexically scoped reading of `docs/spec.md` (C02), each of them realised by
  the machine through `Eval.sound`.
-/
import UH.Proofs.BigStep
namespace UH.BigStep
open UH Unforced C19 Comp

/-! ### weakening and the top level -/

theorem Eval.mono {s w task h r s' w'} (hev : Eval s w task h r s' w') : ∀ h', h ≤ h' → Eval s w task h' r s' w' := by
  induction hev with
  | ret s w h r => intro h' _; exact .ret s w h' r
  | throw s w h e => intro h' _; exact .throw s w h' e
  | forceOk hv _ ih => intro h' hh; exact .forceOk hv (ih h' hh)
  | forceErr hv _ ih => intro h' hh; exact .forceErr hv (ih h' hh)
  | forceEvalOk hv _ _ ih1 ih2 => intro h' hh; exact .forceEvalOk hv (ih1 h' hh) (ih2 h' hh)
  | forceEvalErr hv _ _ ih1 ih2 => intro h' hh; exact .forceEvalErr hv (ih1 h' hh) (ih2 h' hh)
  | newThunk _ ih => intro h' hh; exact .newThunk (ih h' hh)
  | newFn _ ih => intro h' hh; exact .newFn (ih h' hh)
  | getFn hg _ ih => intro h' hh; exact .getFn hg (ih h' hh)
  | callOk _ _ ih1 ih2 => intro h' hh; exact .callOk (ih1 h' hh) (ih2 h' hh)
  | callErr _ _ ih1 ih2 => intro h' hh; exact .callErr (ih1 h' hh) (ih2 h' hh)
  | worldOk hd _ ih => intro h' hh; exact .worldOk hd (ih h' hh)
  | worldErr hd _ ih => intro h' hh; exact .worldErr hd (ih h' hh)
  | frameVal _ ih =>
    intro h' hh
    obtain ⟨h'', rfl⟩ : ∃ h'', h' = h'' + 1 := ⟨h' - 1, by omega⟩
    exact .frameVal (ih h'' (by omega))
  | frameErr _ ih =>
    intro h' hh
    obtain ⟨h'', rfl⟩ : ∃ h'', h' = h'' + 1 := ⟨h' - 1, by omega⟩
    exact .frameErr (ih h'' (by omega))
  | frameTail _ _ ih1 ih2 =>
    intro h' hh
    obtain ⟨h'', rfl⟩ : ∃ h'', h' = h'' + 1 := ⟨h' - 1, by omega⟩
    exact .frameTail (ih1 h'' (by omega)) (ih2 (h'' + 1) (by omega))

theorem Reaches.fields {m m' : MState} (h : Reaches m m') :
    ∃ n, (runN n m).status = m'.status ∧ (runN n m).store = m'.store ∧ (runN n m).world = m'.world ∧
      (runN n m).tail = m'.tail ∧ (runN n m).resp = m'.resp := by
  obtain ⟨n, e⟩ := h
  exact ⟨n, congrArg (fun x => x.status) e, congrArg (fun x => x.store) e, congrArg (fun x => x.world) e,
    congrArg (fun x => x.tail) e, congrArg (fun x => x.resp) e⟩

/-- **a derivation for the head coroutine is a finished run of the evaluator**: `evaluate` returns
`r` (or raises `e`) leaving store `s'` and world `w'`; in particular it never reports the stack limit -/
theorem Eval.run_head {s w c h r s' w'} (hev : Eval s w (.comp c) h r s' w') (hh : h < maxStackSize) :
    ∃ n, (runN n (initState s w c)).status = .done r ∧ (runN n (initState s w c)).store = s' ∧
      (runN n (initState s w c)).world = w' := by
  have hs := hev.sound (initState s w c) ⟨none, [], c⟩ [] true rfl rfl rfl rfl rfl rfl (by simpa [initState] using hh)
  have hfin : Reaches (initState s w c)
      { (upd (initState s w c) true [] { box := none, konts := [], cur := resCur r } s' w') with status := .done r } := by
    refine Reaches.trans hs (Reaches.step (by simp [initState]) ?_)
    rw [step_upd (M := initState s w c) (f := ⟨none, [], c⟩) rfl rfl]
    apply Reaches.of_forget
    cases r <;> simp [stepCore, resCur, upd, put, initState]
  obtain ⟨n, h1, h2, h3, _, _⟩ := hfin.fields
  exact ⟨n, h1, by simpa [upd, put] using h2, by simpa [upd, put] using h3⟩

/-! ### tail returns consume no height (C05) -/

/-- **constant stack for tail loops.**  Let the frames for `t 0, t 1, …, t n` be such that the coroutine of
each `t i` (`i < n`) ends by handing over the delayed expression `t (i+1)` — a tail call — using at most
`h` frames of its own, and let the last one produce `r`.  Then the frame for `t 0` produces `r` within
`h + 1` frames: the number `n` of iterations does not occur in the bound. -/
theorem Eval.tail_iter {h : Nat} {r : Except ErrV Res} {s' : Store} {w' : World}
    (st : Nat → Store) (wd : Nat → World) (t : Nat → TId) (lit : Nat → Option Int) :
    ∀ (n : Nat),
    (∀ i, i < n → ∃ s1, Eval (st i) (wd i) (.comp (newFrame (st i) (t i)).cur) h
        (.ok (.arg (.thunk (t (i + 1)) (lit i)))) s1 (wd (i + 1)) ∧ st (i + 1) = setRequestor s1 (t (i + 1)) (some (t i))) →
    Eval (st n) (wd n) (.frame (t n)) (h + 1) r s' w' →
    Eval (st 0) (wd 0) (.frame (t 0)) (h + 1) r s' w' := by
  intro n
  induction n with
  | zero => intro _ hl; exact hl
  | succ n ih =>
    intro hb hl
    apply ih (fun i hi => hb i (by omega))
    obtain ⟨s1, hbody, hst⟩ := hb n (by omega)
    rw [hst] at hl
    exact .frameTail hbody hl

/-- … and the machine runs such a loop to completion under any stack that has room for `h + 1` more frames -/
theorem tail_loop_runs {h : Nat} {r : Except ErrV Res} {s' : Store} {w' : World}
    (st : Nat → Store) (wd : Nat → World) (t : Nat → TId) (lit : Nat → Option Int) (n : Nat)
    (hb : ∀ i, i < n → ∃ s1, Eval (st i) (wd i) (.comp (newFrame (st i) (t i)).cur) h
        (.ok (.arg (.thunk (t (i + 1)) (lit i)))) s1 (wd (i + 1)) ∧ st (i + 1) = setRequestor s1 (t (i + 1)) (some (t i)))
    (hl : Eval (st n) (wd n) (.frame (t n)) (h + 1) r s' w')
    (M : MState) (rest : List Frame) (hrun : M.status = .running) (hresp : M.resp = none)
    (htail : M.tail = newFrame (st 0) (t 0) :: rest) (hs : M.store = st 0) (hw : M.world = wd 0)
    (hh : rest.length + (h + 1) < maxStackSize) :
    Reaches M { M with tail := rest, resp := some (frameOut r), store := s', world := w' } :=
  (Eval.tail_iter st wd t lit n hb hl).sound M rest hrun hresp htail hs hw hh

/-! ### the natural semantics of the core calculus, as derived rules (C02) -/

/-- what a frame runs for an unevaluated cell: `interpret(expr)` -/
def bodyOf (e : AST) (env : Env) : Comp Res := do let a ← interpret e env; pure (Res.arg a)

theorem newFrame_cur_none {s : Store} {t : TId} (h : (s.getCell t).value = none) :
    (newFrame s t).cur = bodyOf (s.getCell t).expr (s.getCell t).env := by
  simp [newFrame, h, bodyOf]

theorem newFrame_cur_ok {s : Store} {t : TId} {v : Val} (h : (s.getCell t).value = some (.ok v)) :
    (newFrame s t).cur = .ret (.arg (.strict v)) := by
  simp [newFrame, h]

/-- allocate a delayed expression -/
def alloc (s : Store) (e : AST) (env : Env) : Store := { s with cells := s.cells.push { expr := e, env := env } }

theorem getCell_alloc_new (s : Store) (e : AST) (env : Env) :
    (alloc s e env).getCell s.cells.size = { expr := e, env := env } := by
  simp [alloc, Store.getCell, Heap.getD_eq, Heap.get?_push]

theorem getCell_alloc_old (s : Store) (e : AST) (env : Env) (t : TId) (ht : t ≠ s.cells.size) :
    (alloc s e env).getCell t = s.getCell t := by
  simp [alloc, Store.getCell, Heap.getD_eq, Heap.get?_push, Ne.symm ht]

/-- **literal** -/
theorem rule_lit (s : Store) (w : World) (h : Nat) (n : Int) (sp : Span) (env : Env) :
    Eval s w (.comp (bodyOf (.lit n sp) env)) h (.ok (.arg (.strict (.int n)))) s w := by
  simp only [bodyOf, interpret, retV, Bind.bind, Comp.bind, pure]
  exact .ret _ _ _ _

/-- **function reference**: the `rel`-th enclosing function of the place of *definition* -/
theorem rule_funRef (s : Store) (w : World) (h : Nat) (rel : Int) (sp : Span) (env : Env) (f : FId)
    (hf : pyIndex env.funs (-rel - 1) = some f) :
    Eval s w (.comp (bodyOf (.funRef rel sp) env)) h (.ok (.arg (.strict (.fn f)))) s w := by
  simp only [bodyOf, interpret, hf, retV, Bind.bind, Comp.bind, pure]
  exact .ret _ _ _ _

theorem rule_funRef_err (s : Store) (w : World) (h : Nat) (rel : Int) (sp : Span) (env : Env)
    (hf : pyIndex env.funs (-rel - 1) = none) :
    Eval s w (.comp (bodyOf (.funRef rel sp) env)) h (.error (builtinErr .outOfRange sp)) s w := by
  simp only [bodyOf, interpret, hf, Bind.bind, Comp.bind]
  exact .throw _ _ _ _

/-- **function definition**: a new function object closing over the defining environment (and itself) -/
theorem rule_funDef (s : Store) (w : World) (h : Nat) (body : AST) (sp : Span) (env : Env) :
    Eval s w (.comp (bodyOf (.funDef body sp) env)) h (.ok (.arg (.strict (.fn s.fns.size))))
      { s with fns := s.fns.push (.closure body ⟨env.funs ++ [s.fns.size], env.args⟩) } w := by
  simp only [bodyOf, interpret, retV, Bind.bind, Comp.bind, pure]
  exact .newFn (.ret _ _ _ _)

/-- **argument reference**: the position expression is evaluated (in the referring environment); the
selected argument of the `relF`-th enclosing call is handed over *unevaluated* -/
theorem rule_argRef (s : Store) (w : World) (h : Nat) (a : AST) (relF : Int) (sp : Span) (env : Env)
    (frame : List Arg) (i : Int) (x : Arg) (s1 : Store) (w1 : World)
    (hfr : pyIndex env.args (-relF - 1) = some frame)
    (hpos : Eval (alloc s a env) w (.frame s.cells.size) h (.ok (.arg (.strict (.int i)))) s1 w1)
    (hi : 0 ≤ i ∧ i < frame.length) (hx : frame[i.toNat]? = some x) :
    Eval s w (.comp (bodyOf (.argRef a relF sp) env)) h (.ok (.arg x)) s1 w1 := by
  simp only [bodyOf, interpret, hfr, forceArg, Bind.bind, Comp.bind]
  refine .newThunk (.forceEvalOk ?_ hpos ?_)
  · have := getCell_alloc_new s a env
    simp only [alloc] at this
    rw [this]
  · simp only [checkType, Val.isInteger, List.all_cons, List.all_nil, Bool.and_true, if_true, Comp.bind, hi,
      and_self, hx, pure]
    exact .ret _ _ _ _

theorem bind_assoc {α β γ : Type} (m : Comp α) (f : α → Comp β) (g : β → Comp γ) :
    (m.bind f).bind g = m.bind (fun a => (f a).bind g) := by
  induction m with
  | ret a => rfl
  | throw e => rfl
  | bottom => rfl
  | unmodelled w => rfl
  | force t k ke ih1 ih2 => simp only [Comp.bind]; congr 1 <;> funext x <;> first | exact ih1 x | exact ih2 x
  | newThunk e env k ih => simp only [Comp.bind]; congr 1; funext x; exact ih x
  | newFn mk k ih => simp only [Comp.bind]; congr 1; funext x; exact ih x
  | getFn c k ih => simp only [Comp.bind]; congr 1; funext x; exact ih x
  | call op k ke ih1 ih2 => simp only [Comp.bind]; congr 1 <;> funext x <;> first | exact ih1 x | exact ih2 x
  | world op k ke ih1 ih2 => simp only [Comp.bind]; congr 1 <;> funext x <;> first | exact ih1 x | exact ih2 x

/-- `isinstance(arg, Literal)` of an argument expression -/
def tagOf (e : AST) : Option Int := match e with | .lit n _ => some n | _ => none

theorem mkThunks_cons (env : Env) (e : AST) (es : List AST) :
    mkThunks env (e :: es) = .newThunk e env (fun t => (mkThunks env es).bind (fun ts => .ret (Arg.thunk t (tagOf e) :: ts))) := rfl

/-- the store after `[Expr(arg, env) for arg in argv]`, and the argument tuple -/
def allocArgs (s : Store) (env : Env) : List AST → Store × List Arg
  | [] => (s, [])
  | e :: es =>
    let r := allocArgs (alloc s e env) env es
    (r.1, Arg.thunk s.cells.size (tagOf e) :: r.2)

theorem eval_mkThunks (env : Env) (w : World) (h : Nat) (r : Except ErrV Res)
    (s' : Store) (w' : World) : ∀ (args : List AST) (k : List Arg → Comp Res) (s : Store),
    Eval (allocArgs s env args).1 w (.comp (k (allocArgs s env args).2)) h r s' w' →
    Eval s w (.comp (Comp.bind (mkThunks env args) k)) h r s' w' := by
  intro args
  induction args with
  | nil => intro k s hk; simpa [mkThunks, Comp.bind, allocArgs] using hk
  | cons e es ih =>
    intro k s hk
    rw [mkThunks_cons]
    simp only [Comp.bind]
    refine .newThunk ?_
    rw [bind_assoc]
    simp only [Comp.bind]
    exact ih (fun ts => k (Arg.thunk s.cells.size (tagOf e) :: ts)) (alloc s e env) hk

theorem allocArgs_size (env : Env) : ∀ (args : List AST) (s : Store),
    (allocArgs s env args).1.cells.size = s.cells.size + args.length := by
  intro args
  induction args with
  | nil => intro s; rfl
  | cons e es ih => intro s; simp only [allocArgs, ih, alloc, Heap.size_push, List.length_cons]; omega

theorem allocArgs_fns (env : Env) : ∀ (args : List AST) (s : Store), (allocArgs s env args).1.fns = s.fns := by
  intro args
  induction args with
  | nil => intro s; rfl
  | cons e es ih => intro s; simp only [allocArgs, ih, alloc]

theorem allocArgs_getCell (env : Env) : ∀ (args : List AST) (s : Store) (t : TId), t < s.cells.size →
    (allocArgs s env args).1.getCell t = s.getCell t := by
  intro args
  induction args with
  | nil => intro s t _; rfl
  | cons e es ih =>
    intro s t ht
    simp only [allocArgs]
    have h1 : t < (alloc s e env).cells.size := by simp only [alloc, Heap.size_push]; exact Nat.lt_succ_of_lt ht
    rw [ih (alloc s e env) t h1, getCell_alloc_old s e env t (Nat.ne_of_lt ht)]

theorem interpret_call_nonlit (f : AST) (args : List AST) (sp : Span) (env : Env) (hf : tagOf f = none) :
    interpret (.call f args sp) env = .newThunk f env (fun tf => do
      let argv ← mkThunks env args
      let callee ← strictFunctional sp (.thunk tf none)
      checkCallee isBuiltinName sp callee true
      callArg (.apply callee sp argv)) := by
  cases f <;> first | rfl | (simp [tagOf] at hf)

/-- **call of a closure** (`f` is not an integer literal, i.e. not a built-in name): the function
expression and the argument expressions are *delayed* in the caller's environment; the function
expression is evaluated; the result is the closure's body, delayed in the environment the closure
**captured** — extended by the still unevaluated arguments — and handed over unevaluated (a tail
return).  The caller's environment does not occur in the body's environment. -/
theorem rule_call_closure (s : Store) (w : World) (h : Nat) (f : AST) (args : List AST) (sp : Span) (env : Env)
    (fid : FId) (body : AST) (cenv : Env) (s1 : Store) (w1 : World)
    (hf : tagOf f = none)
    (hcallee : Eval (allocArgs (alloc s f env) env args).1 w (.frame s.cells.size) h
        (.ok (.arg (.strict (.fn fid)))) s1 w1)
    (hfn : s1.fns.get? fid = some (.closure body cenv)) :
    Eval s w (.comp (bodyOf (.call f args sp) env)) h
      (.ok (.arg (.thunk s1.cells.size (tagOf body))))
      (alloc s1 body ⟨cenv.funs, cenv.args ++ [(allocArgs (alloc s f env) env args).2]⟩) w1 := by
  simp only [bodyOf, interpret_call_nonlit f args sp env hf, Bind.bind, Comp.bind]
  refine .newThunk ?_
  rw [bind_assoc]
  refine eval_mkThunks env w h _ _ _ args _ (alloc s f env) ?_
  simp only [strictFunctional, forceArg]
  refine .forceEvalOk ?_ hcallee ?_
  · rw [allocArgs_getCell env args _ _ (by simp [alloc]), getCell_alloc_new]
  · simp only [checkType, Val.isCallable, Val.isFunction, List.all_cons, List.all_nil, Bool.and_true, Bool.true_or,
      if_true, Comp.bind, pure, checkCallee, callArg]
    refine .callOk (x := .arg (.thunk s1.cells.size (tagOf body)))
      (s1 := alloc s1 body ⟨cenv.funs, cenv.args ++ [(allocArgs (alloc s f env) env args).2]⟩) (w1 := w1) ?_ ?_
    · simp only [expand, applyCallee, Bind.bind, Comp.bind, pure]
      exact .getFn hfn (.newThunk (.ret _ _ _ _))
    · exact .ret _ _ _ _

/-- **β, call by need**: the frame of a call expression whose function part evaluates to a closure is
*replaced* by the frame of the closure's body — its outcome is the body's outcome, at the same height -/
theorem rule_beta (s : Store) (w : World) (h : Nat) (t : TId) (f : AST) (args : List AST) (sp : Span) (env : Env)
    (fid : FId) (body : AST) (cenv : Env) (s1 : Store) (w1 : World) (r : Except ErrV Res) (s' : Store) (w' : World)
    (hcell : (s.getCell t).value = none) (hexpr : (s.getCell t).expr = .call f args sp) (henv : (s.getCell t).env = env)
    (hf : tagOf f = none)
    (hcallee : Eval (allocArgs (alloc s f env) env args).1 w (.frame s.cells.size) h
        (.ok (.arg (.strict (.fn fid)))) s1 w1)
    (hfn : s1.fns.get? fid = some (.closure body cenv))
    (hbody : Eval (setRequestor (alloc s1 body ⟨cenv.funs, cenv.args ++ [(allocArgs (alloc s f env) env args).2]⟩)
        s1.cells.size (some t)) w1 (.frame s1.cells.size) (h + 1) r s' w') :
    Eval s w (.frame t) (h + 1) r s' w' := by
  refine .frameTail (t' := s1.cells.size) (lit := tagOf body) ?_ hbody
  rw [newFrame_cur_none hcell, hexpr, henv]
  exact rule_call_closure s w h f args sp env fid body cenv s1 w1 hf hcallee hfn

end UH.BigStep
