/-
Isolation of evaluations (C20) for the fragment of the reference semantics: a closed program evaluated in *any* heap that
satisfies the invariant of the adequacy proof — the initial one, or whatever earlier evaluations left behind: memo cells
filled, requestor chains written, closures and delayed expressions allocated — evaluates to its call-by-name value, which is a
function of the program text alone (`BN.deterministic`), and leaves a heap that satisfies the invariant again.  Hence every
sequence of programs evaluated one after another in one growing heap (any order, any repetitions) yields, program by
program, the values the programs have on their own.
-/
import UH.Proofs.ByName
namespace UH.ByName
open UH BigStep Comp

theorem scoped_empty (s : Store) : Scoped s ⟨[], []⟩ := by
  constructor
  · intro f hf; cases hf
  · intro fr hfr; cases hfr

/-- the programs `es` have the by-name values `ns`, one by one (in the empty environment) -/
inductive Vals : List AST → List Int → Prop
  | nil : Vals [] []
  | cons {e n es ns} : BN (.mk [] []) e (.int n) → Vals es ns → Vals (e :: es) (n :: ns)

/-- **a closed program evaluated in any invariant heap** computes its by-name value and re-establishes the invariant -/
theorem adequacy_anywhere {G : Ghost} {s : Store} (inv : Inv G s) (e : AST) (n : Int) (w : World)
    (hbn : BN (.mk [] []) e (.int n)) :
    ∃ (h : Nat) (G' : Ghost) (s' : Store),
      Eval (alloc s e ⟨[], []⟩) w (.frame s.cells.size) h (.ok (.arg (.strict (.int n)))) s' w ∧ Inv G' s' := by
  have inv1 := inv.alloc e ⟨[], []⟩ (scoped_empty s)
  obtain ⟨G', s', v, h, ev, inv', _, rv⟩ := adequacy hbn _ (alloc s e ⟨[], []⟩) w s.cells.size inv1
    (alloc_get?_new _ _ _) (by rw [getCell_alloc_new]) (by simp [Ghost.setCell, trEnv]) (by rw [getCell_alloc_new])
  cases rv
  exact ⟨h, G', s', ev, inv'⟩

/-- programs evaluated one after another, each delayed at the end of the heap the previous one left: the integers they
produce and the final heap -/
inductive Session (w : World) : Store → List AST → List Int → Store → Prop
  | nil (s : Store) : Session w s [] [] s
  | cons {s : Store} {e : AST} {n : Int} {h : Nat} {s1 : Store} {es : List AST} {ns : List Int} {s2 : Store} :
      Eval (alloc s e ⟨[], []⟩) w (.frame s.cells.size) h (.ok (.arg (.strict (.int n)))) s1 w →
      Session w s1 es ns s2 → Session w s (e :: es) (n :: ns) s2

/-- **isolation**: whatever heap the session starts from (as long as it satisfies the invariant — every heap an earlier
session produced does), each program of the session produces its own by-name value -/
theorem session_isolated (w : World) {es : List AST} {ns : List Int}
    (hv : Vals es ns) :
    ∀ (G : Ghost) (s : Store), Inv G s → ∃ (G' : Ghost) (s' : Store), Session w s es ns s' ∧ Inv G' s' := by
  induction hv with
  | nil => intro G s inv; exact ⟨G, s, .nil s, inv⟩
  | cons hbn _ ih =>
    intro G s inv
    obtain ⟨h, G1, s1, ev, inv1⟩ := adequacy_anywhere inv _ _ w hbn
    obtain ⟨G2, s2, hs, inv2⟩ := ih G1 s1 inv1
    exact ⟨G2, s2, .cons ev hs, inv2⟩

/-- from the initial heap -/
theorem session_from_start (w : World) {es : List AST} {ns : List Int}
    (hv : Vals es ns) :
    ∃ s', Session w initStore es ns s' := by
  obtain ⟨_, s', hs, _⟩ := session_isolated w hv _ _ inv_init
  exact ⟨s', hs⟩

/-- the outputs of a session are determined by its programs alone: two sessions over the same programs — from different
heaps, after different histories — produce the same integers, as soon as the programs have by-name values -/
theorem session_outputs_unique {w : World} {es : List AST} {ns ns' : List Int}
    (hv : Vals es ns)
    (hv' : Vals es ns') : ns = ns' := by
  induction hv generalizing ns' with
  | nil => cases hv'; rfl
  | cons hbn _ ih =>
    cases hv' with
    | cons hbn' hrest =>
      have := hbn.deterministic hbn'
      cases this
      rw [ih hrest]

end UH.ByName
