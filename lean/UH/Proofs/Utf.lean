/-
Round trips of the UTF-8 / UTF-16 / UTF-32 codecs of the model (`UH/Model/Codec.lean`), for every list of
Unicode scalar values: helper lemmas for `UH/Properties/C16.lean`.
-/
import UH.Model.Codec
namespace UH.Utf
open UH

theorem u8 (n : Nat) (h : n < 256) : (UInt8.ofNat n).toNat = n := by
  simp [UInt8.toNat_ofNat']; omega

theorem isScalar_iff (c : Nat) : isScalar c = true ↔ (c < 0xD800 ∨ (0xE000 ≤ c ∧ c < 0x110000)) := by
  simp [isScalar]

/-! ### UTF-8 -/

theorem split3 (c : Nat) : c / 4096 * 4096 + c / 64 % 64 * 64 + c % 64 = c := by omega
theorem split4 (c : Nat) : c / 262144 * 262144 + c / 4096 % 64 * 4096 + c / 64 % 64 * 64 + c % 64 = c := by omega

/-- decoding one encoded scalar value followed by anything -/
theorem utf8_char (c : Nat) (hc : isScalar c = true) (rest : List UInt8) :
    utf8Decode (utf8EncodeChar c ++ rest) = (utf8Decode rest).map (c :: ·) := by
  have hs := (isScalar_iff c).mp hc
  unfold utf8EncodeChar
  by_cases h1 : c < 0x80
  · simp only [h1, if_true, List.cons_append, List.nil_append]
    rw [utf8Decode.eq_def]; simp only []
    simp [u8 c (by omega), h1]
  · by_cases h2 : c < 0x800
    · simp only [h1, h2, if_true, if_false, List.cons_append, List.nil_append]
      rw [utf8Decode.eq_def]; simp only []
      have e0 := u8 (0xC0 + c / 64) (by omega)
      have e1 := u8 (0x80 + c % 64) (by omega)
      simp only [e0, e1]
      have a1 : ¬ (0xC0 + c / 64 < 0x80) := by omega
      have a2 : ¬ (0xC0 + c / 64 < 0xC2) := by omega
      have a3 : (0xC0 + c / 64 < 0xE0) := by omega
      have a4 : (0x80 + c % 64) / 64 = 2 := by omega
      simp [a1, a2, a3, a4]
      cases utf8Decode rest <;> simp
      omega
    · by_cases h3 : c < 0x10000
      · simp only [h1, h2, h3, if_true, if_false, List.cons_append, List.nil_append]
        rw [utf8Decode.eq_def]; simp only []
        have e0 := u8 (0xE0 + c / 4096) (by omega)
        have e1 := u8 (0x80 + c / 64 % 64) (by omega)
        have e2 := u8 (0x80 + c % 64) (by omega)
        simp only [e0, e1, e2]
        have a1 : ¬ (0xE0 + c / 4096 < 0x80) := by omega
        have a2 : ¬ (0xE0 + c / 4096 < 0xC2) := by omega
        have a3 : ¬ (0xE0 + c / 4096 < 0xE0) := by omega
        have a3' : (0xE0 + c / 4096 < 0xF0) := by omega
        have a4 : (0x80 + c / 64 % 64) / 64 = 2 := by omega
        have a5 : (0x80 + c % 64) / 64 = 2 := by omega
        simp [a1, a2, a3, a3', a4, a5]
        have m1 : (128 + c / 64) % 64 = c / 64 % 64 := by omega
        have m2 : (128 + c) % 64 = c % 64 := by omega
        have a7 := split3 c
        rw [m1, m2, a7]
        have a8 : ¬ (c < 2048 ∨ isScalar c = false) := by simp [hc]; omega
        rw [if_neg a8]
        cases utf8Decode rest <;> simp
      · simp only [h1, h2, h3, if_false, List.cons_append, List.nil_append]
        rw [utf8Decode.eq_def]; simp only []
        have e0 := u8 (0xF0 + c / 262144) (by omega)
        have e1 := u8 (0x80 + c / 4096 % 64) (by omega)
        have e2 := u8 (0x80 + c / 64 % 64) (by omega)
        have e3 := u8 (0x80 + c % 64) (by omega)
        simp only [e0, e1, e2, e3]
        have a1 : ¬ (0xF0 + c / 262144 < 0x80) := by omega
        have a2 : ¬ (0xF0 + c / 262144 < 0xC2) := by omega
        have a3 : ¬ (0xF0 + c / 262144 < 0xE0) := by omega
        have a3' : ¬ (0xF0 + c / 262144 < 0xF0) := by omega
        have a3'' : (0xF0 + c / 262144 < 0xF5) := by omega
        have a4 : (0x80 + c / 4096 % 64) / 64 = 2 := by omega
        have a5 : (0x80 + c / 64 % 64) / 64 = 2 := by omega
        have a5' : (0x80 + c % 64) / 64 = 2 := by omega
        simp [a1, a2, a3, a3', a3'', a4, a5, a5']
        have m0 : (128 + c / 4096) % 64 = c / 4096 % 64 := by omega
        have m1 : (128 + c / 64) % 64 = c / 64 % 64 := by omega
        have m2 : (128 + c) % 64 = c % 64 := by omega
        have a7 := split4 c
        rw [m0, m1, m2, a7]
        have a8 : ¬ (c < 65536 ∨ 1114112 ≤ c) := by omega
        rw [if_neg a8]
        cases utf8Decode rest <;> simp

theorem utf8_decode_encode (s : List Nat) (hs : ∀ c ∈ s, isScalar c = true) :
    utf8Decode (utf8Encode s) = some s := by
  induction s with
  | nil => simp [utf8Encode, utf8Decode]
  | cons c s ih =>
    have : utf8Encode (c :: s) = utf8EncodeChar c ++ utf8Encode s := by simp [utf8Encode]
    rw [this, utf8_char c (hs c (by simp)), ih (fun x hx => hs x (by simp [hx]))]
    rfl

/-! ### UTF-16 -/

theorem split16 (c : Nat) (h : 65536 ≤ c) : 65536 + (c - 65536) / 1024 * 1024 + (c - 65536) % 1024 = c := by omega


theorem units16_of_bytes (big : Bool) (u : Nat) (hu : u < 65536) (rest : List UInt8) :
    bytesToUnits16 big (u16Bytes big u ++ rest) = (bytesToUnits16 big rest).map (u :: ·) := by
  have e1 := u8 (u / 256) (by omega)
  have e2 := u8 (u % 256) (by omega)
  cases big <;> simp [u16Bytes, bytesToUnits16, e1, e2] <;> (cases bytesToUnits16 _ rest <;> simp <;> omega)

theorem units16_roundtrip (big : Bool) (us : List Nat) (h : ∀ u ∈ us, u < 65536) :
    bytesToUnits16 big (us.flatMap (u16Bytes big)) = some us := by
  induction us with
  | nil => simp [bytesToUnits16]
  | cons u us ih =>
    simp only [List.flatMap_cons]
    rw [units16_of_bytes big u (h u (by simp)), ih (fun x hx => h x (by simp [hx]))]
    rfl

theorem utf16Units_lt (c : Nat) (hc : isScalar c = true) : ∀ u ∈ utf16Units c, u < 65536 := by
  have hs := (isScalar_iff c).mp hc
  unfold utf16Units
  split <;> simp <;> omega

theorem units16Decode_char (c : Nat) (hc : isScalar c = true) (rest : List Nat) :
    units16Decode (utf16Units c ++ rest) = (units16Decode rest).map (c :: ·) := by
  have hs := (isScalar_iff c).mp hc
  unfold utf16Units
  by_cases h : c < 0x10000
  · simp only [h, if_true, List.cons_append, List.nil_append]
    rw [units16Decode.eq_def]; simp only []
    have : (c < 0xD800 || c ≥ 0xE000) = true := by simp; omega
    simp [this]
  · simp only [h, if_false, List.cons_append, List.nil_append]
    rw [units16Decode.eq_def]; simp only []
    have a1 : ¬ (0xD800 + (c - 0x10000) / 1024 < 0xD800) := by omega
    have a2 : ¬ (0xD800 + (c - 0x10000) / 1024 ≥ 0xE000) := by omega
    have a3 : (0xD800 + (c - 0x10000) / 1024 < 0xDC00) := by omega
    have a4 : 0xDC00 ≤ 0xDC00 + (c - 0x10000) % 1024 := by omega
    have a5 : 0xDC00 + (c - 0x10000) % 1024 < 0xE000 := by omega
    have a6 : 0x10000 + (0xD800 + (c - 0x10000) / 1024 - 0xD800) * 1024 + (0xDC00 + (c - 0x10000) % 1024 - 0xDC00) = c := by omega
    simp [a1, a2, a3, a4, a5]
    rw [split16 c (by omega)]

theorem units16Decode_units (s : List Nat) (hs : ∀ c ∈ s, isScalar c = true) :
    units16Decode (s.flatMap utf16Units) = some s := by
  induction s with
  | nil => simp [units16Decode]
  | cons c s ih =>
    simp only [List.flatMap_cons]
    rw [units16Decode_char c (hs c (by simp)), ih (fun x hx => hs x (by simp [hx]))]
    rfl

/-- **UTF-16 round trip** (either byte order, no BOM) -/
theorem utf16_decode_encode (big : Bool) (s : List Nat) (hs : ∀ c ∈ s, isScalar c = true) :
    utf16Decode big (utf16Encode big s) = some s := by
  unfold utf16Decode utf16Encode
  have e : (s.flatMap fun c => (utf16Units c).flatMap (u16Bytes big)) = (s.flatMap utf16Units).flatMap (u16Bytes big) := by
    rw [List.flatMap_assoc]
  rw [e, units16_roundtrip big _ (by
    intro u hu
    rcases List.mem_flatMap.mp hu with ⟨c, hc, huc⟩
    exact utf16Units_lt c (hs c hc) u huc)]
  simp [units16Decode_units s hs]

/-! ### UTF-32 -/

theorem utf32_char (big : Bool) (c : Nat) (hc : isScalar c = true) (rest : List UInt8) :
    utf32Decode big (u32Bytes big c ++ rest) = (utf32Decode big rest).map (c :: ·) := by
  have hs := (isScalar_iff c).mp hc
  have e0 := u8 (c % 256) (by omega)
  have e1 := u8 (c / 256 % 256) (by omega)
  have e2 := u8 (c / 256 / 256 % 256) (by omega)
  have e3 := u8 (c / 256 / 256 / 256 % 256) (by omega)
  have v : c % 256 + 256 * (c / 256 % 256 + 256 * (c / 256 / 256 % 256 + 256 * (c / 256 / 256 / 256 % 256))) = c := by omega
  cases big <;> simp [u32Bytes, natToBytesLE, utf32Decode, bytesToNatLE, e0, e1, e2, e3] <;> rw [v] <;> simp [hc]

theorem utf32_decode_encode (big : Bool) (s : List Nat) (hs : ∀ c ∈ s, isScalar c = true) :
    utf32Decode big (utf32Encode big s) = some s := by
  induction s with
  | nil => simp [utf32Encode, utf32Decode]
  | cons c s ih =>
    have : utf32Encode big (c :: s) = u32Bytes big c ++ utf32Encode big s := by simp [utf32Encode]
    rw [this, utf32_char big c (hs c (by simp)), ih (fun x hx => hs x (by simp [hx]))]
    rfl



/-! ### the converters of module `ㅂ ㅂ` -/

theorem bom16 (s : List Nat) : utf16Encode false (0xFEFF :: s) = 0xFF :: 0xFE :: utf16Encode false s := by
  simp [utf16Encode, utf16Units, u16Bytes]

theorem bom32 (s : List Nat) : utf32Encode false (0xFEFF :: s) = 0xFF :: 0xFE :: 0 :: 0 :: utf32Encode false s := by
  simp [utf32Encode, u32Bytes, natToBytesLE]

/-- **decoding inverts encoding** for UTF-8 / 16 / 32, with an explicit byte order (no BOM is written and a
leading U+FEFF is ordinary payload) and without one (BOM written, recognised and removed) -/
theorem utf_decode_encode (width : Nat) (order : Option Bool) (s : List Nat) (hs : ∀ c ∈ s, isScalar c = true)
    (b : List UInt8) (h : utfEncode width order s = some b) : utfDecode width order b = some s := by
  unfold utfEncode at h
  unfold utfDecode
  split at h
  · injection h with h; subst h; exact utf8_decode_encode s hs
  · injection h with h; subst h; rw [bom16]; simp [utf16_decode_encode false s hs]
  · injection h with h; subst h; exact utf16_decode_encode _ s hs
  · injection h with h; subst h; rw [bom32]; simp [utf32_decode_encode false s hs]
  · injection h with h; subst h; exact utf32_decode_encode _ s hs
  · cases h

end UH.Utf
