/-
Completeness of the executable reference evaluator: every value of the call-by-name reference semantics `BN` is returned by
`bnEval` as soon as the fuel is large enough.  With `bnEval_sound` the function and the relation coincide: the driver
command `bn`, against which the correspondence compares the implementation, *is* the reference semantics — a
disagreement cannot hide behind an incomplete evaluator.
-/
import UH.Proofs.ByNameEval
namespace UH.ByName
open UH BigStep

/-- from some fuel on, the evaluator returns `v` -/
def Returns (ρ : TEnv) (e : AST) (v : TVal) : Prop := ∃ k0, ∀ k, k0 ≤ k → bnEval k ρ e = some v

theorem Returns.at {ρ e v} (h : Returns ρ e v) : ∃ k, bnEval k ρ e = some v := by
  obtain ⟨k0, hk⟩ := h; exact ⟨k0, hk k0 (Nat.le_refl _)⟩

private theorem ge_succ {a k : Nat} (h : a + 1 ≤ k) : ∃ j, k = j + 1 ∧ a ≤ j := ⟨k - 1, by omega, by omega⟩

theorem isLit_lit (n : Int) (sp : Span) : isLit (.lit n sp) = some n := rfl

theorem bnEval_complete {ρ e v} (h : BN ρ e v) : Returns ρ e v := by
  induction h with
  | lit => exact ⟨1, fun k hk => by obtain ⟨j, rfl, _⟩ := ge_succ hk; simp [bnEval]⟩
  | funDef => exact ⟨1, fun k hk => by obtain ⟨j, rfl, _⟩ := ge_succ hk; simp [bnEval]⟩
  | funRef hidx => exact ⟨1, fun k hk => by obtain ⟨j, rfl, _⟩ := ge_succ hk; simp [bnEval, hidx]⟩
  | @argRef ρ a relF sp frame i e' ρ' v hfr _ hi hx _ ih1 ih2 =>
    obtain ⟨k1, h1⟩ := ih1
    obtain ⟨k2, h2⟩ := ih2
    refine ⟨max k1 k2 + 1, fun k hk => ?_⟩
    obtain ⟨j, rfl, hj⟩ := ge_succ hk
    have e1 := h1 j (by omega)
    have e2 := h2 j (by omega)
    simp only [bnEval, hfr, e1, if_pos hi, hx, e2]
  | @call ρ f args sp b ρd v hf _ _ ih1 ih2 =>
    obtain ⟨k1, h1⟩ := ih1
    obtain ⟨k2, h2⟩ := ih2
    refine ⟨max k1 k2 + 1, fun k hk => ?_⟩
    obtain ⟨j, rfl, hj⟩ := ge_succ hk
    have hl : isLit f = none := by rw [isLit_eq_tagOf]; exact hf
    simp [bnEval, hl, h1 j (by omega), h2 j (by omega)]
  | @ctrue ρ n spf sp hn =>
    exact ⟨1, fun k hk => by obtain ⟨j, rfl, _⟩ := ge_succ hk; simp [bnEval, isLit, hn]⟩
  | @cfalse ρ n spf sp hn =>
    exact ⟨1, fun k hk => by obtain ⟨j, rfl, _⟩ := ge_succ hk; simp [bnEval, isLit, hn]⟩
  | @sel ρ f x y sp b v hf _ _ ih1 ih2 =>
    obtain ⟨k1, h1⟩ := ih1
    obtain ⟨k2, h2⟩ := ih2
    refine ⟨max k1 k2 + 1, fun k hk => ?_⟩
    obtain ⟨j, rfl, hj⟩ := ge_succ hk
    have hl : isLit f = none := by rw [isLit_eq_tagOf]; exact hf
    simp [bnEval, hl, h1 j (by omega), h2 j (by omega)]
  | @eqInt ρ n spf a1 a2 sp x y hn _ _ ih1 ih2 =>
    obtain ⟨k1, h1⟩ := ih1
    obtain ⟨k2, h2⟩ := ih2
    refine ⟨max k1 k2 + 1, fun k hk => ?_⟩
    obtain ⟨j, rfl, hj⟩ := ge_succ hk
    simp [bnEval, isLit, hn, h1 j (by omega), h2 j (by omega)]
  | @addInt ρ n spf a1 a2 sp x y hn _ _ ih1 ih2 =>
    obtain ⟨k1, h1⟩ := ih1
    obtain ⟨k2, h2⟩ := ih2
    refine ⟨max k1 k2 + 1, fun k hk => ?_⟩
    obtain ⟨j, rfl, hj⟩ := ge_succ hk
    simp [bnEval, isLit, hn, h1 j (by omega), h2 j (by omega)]
  | @mulInt ρ n spf a1 a2 sp x y hn _ _ ih1 ih2 =>
    obtain ⟨k1, h1⟩ := ih1
    obtain ⟨k2, h2⟩ := ih2
    refine ⟨max k1 k2 + 1, fun k hk => ?_⟩
    obtain ⟨j, rfl, hj⟩ := ge_succ hk
    simp [bnEval, isLit, hn, h1 j (by omega), h2 j (by omega)]
  | @ltInt ρ n spf a1 a2 sp x y hn _ _ ih1 ih2 =>
    obtain ⟨k1, h1⟩ := ih1
    obtain ⟨k2, h2⟩ := ih2
    refine ⟨max k1 k2 + 1, fun k hk => ?_⟩
    obtain ⟨j, rfl, hj⟩ := ge_succ hk
    simp [bnEval, isLit, hn, h1 j (by omega), h2 j (by omega)]
  | @remInt ρ n spf a1 a2 sp x y hn _ _ hy ih1 ih2 =>
    obtain ⟨k1, h1⟩ := ih1
    obtain ⟨k2, h2⟩ := ih2
    refine ⟨max k1 k2 + 1, fun k hk => ?_⟩
    obtain ⟨j, rfl, hj⟩ := ge_succ hk
    simp [bnEval, isLit, hn, h1 j (by omega), h2 j (by omega), hy]
  | @mkList ρ n spf args sp hn =>
    exact ⟨1, fun k hk => by obtain ⟨j, rfl, _⟩ := ge_succ hk; simp [bnEval, isLit, hn]⟩
  | @lenList ρ n spf a sp elems hn _ ih1 =>
    obtain ⟨k1, h1⟩ := ih1
    refine ⟨k1 + 1, fun k hk => ?_⟩
    obtain ⟨j, rfl, hj⟩ := ge_succ hk
    simp [bnEval, isLit, hn, h1 j (by omega)]
  | @index ρ f a sp elems i e' ρ' v hf _ _ hidx _ ih1 ih2 ih3 =>
    obtain ⟨k1, h1⟩ := ih1
    obtain ⟨k2, h2⟩ := ih2
    obtain ⟨k3, h3⟩ := ih3
    refine ⟨max k1 (max k2 k3) + 1, fun k hk => ?_⟩
    obtain ⟨j, rfl, hj⟩ := ge_succ hk
    have hl : isLit f = none := by rw [isLit_eq_tagOf]; exact hf
    simp [bnEval, hl, h1 j (by omega), h2 j (by omega), hidx, h3 j (by omega)]

/-- the executable evaluator and the reference semantics coincide -/
theorem bnEval_iff (ρ : TEnv) (e : AST) (v : TVal) : BN ρ e v ↔ ∃ k, bnEval k ρ e = some v :=
  ⟨fun h => (bnEval_complete h).at, fun ⟨k, hk⟩ => bnEval_sound k ρ e v hk⟩

end UH.ByName
