/- Helper lemmas about the literal codec (for C08). -/
import UH.Model.Number
namespace UH

@[simp] theorem digitsVal_nil : digitsVal [] = 0 := rfl
@[simp] theorem digitsVal_cons (d : Digit) (ds) : digitsVal (d :: ds) = d.val + 8 * digitsVal ds := rfl

theorem digitsVal_append (a b : List Digit) :
    digitsVal (a ++ b) = digitsVal a + 8 ^ a.length * digitsVal b := by
  induction a with
  | nil => simp
  | cons d ds ih => simp [ih, Nat.pow_succ]; rw [Nat.mul_add]; rw [Nat.mul_comm (8 ^ ds.length) 8, Nat.mul_assoc]; omega

@[simp] theorem digitsVal_replicate_zero (k : Nat) : digitsVal (List.replicate k (0 : Digit)) = 0 := by
  induction k with
  | zero => rfl
  | succ k ih => simp [List.replicate_succ, ih]

theorem digitsVal_pad (w : List Digit) (k : Nat) :
    digitsVal (w ++ List.replicate k (0 : Digit)) = digitsVal w := by
  simp [digitsVal_append]

theorem natDigits_lt (n : Nat) (h : n < 8) : natDigits n = [⟨n, h⟩] := by
  rw [natDigits]; simp [h]

theorem natDigits_ge (n : Nat) (h : ¬ n < 8) :
    natDigits n = ⟨n % 8, Nat.mod_lt _ (by decide)⟩ :: natDigits (n / 8) := by
  rw [natDigits]; simp [h]

theorem digitsVal_natDigits (n : Nat) : digitsVal (natDigits n) = n := by
  induction n using Nat.strongRecOn with
  | _ n ih =>
    by_cases h : n < 8
    · simp [natDigits_lt n h]
    · rw [natDigits_ge n h]
      simp [ih (n / 8) (by omega)]
      omega

theorem natDigits_ne_nil (n : Nat) : natDigits n ≠ [] := by
  by_cases h : n < 8
  · simp [natDigits_lt n h]
  · simp [natDigits_ge n h]

/-- base-8 representations are unique up to trailing zeros -/
theorem digits_unique (w : List Digit) (hw : w ≠ []) :
    ∃ j, w = natDigits (digitsVal w) ++ List.replicate j (0 : Digit) := by
  induction w with
  | nil => exact absurd rfl hw
  | cons d ds ih =>
    by_cases hds : ds = []
    · subst hds
      refine ⟨0, ?_⟩
      simp [natDigits_lt d.val d.isLt]
    · obtain ⟨j, hj⟩ := ih hds
      by_cases hv : digitsVal ds = 0
      · refine ⟨j + 1, ?_⟩
        rw [hv, natDigits_lt 0 (by decide)] at hj
        simp only [digitsVal_cons, hv, Nat.mul_zero, Nat.add_zero, natDigits_lt d.val d.isLt]
        rw [hj]
        simp [List.replicate_succ]
      · refine ⟨j, ?_⟩
        have hge : ¬ (d.val + 8 * digitsVal ds < 8) := by omega
        rw [digitsVal_cons, natDigits_ge _ hge]
        have e1 : (d.val + 8 * digitsVal ds) % 8 = d.val := by omega
        have e2 : (d.val + 8 * digitsVal ds) / 8 = digitsVal ds := by omega
        simp only [e2, List.cons_append]
        rw [← hj]
        congr 1
        exact Fin.ext e1.symm

end UH
