/-
C03 core: a delayed expression whose evaluation is never started is irrelevant to the run of the machine.
`step` is re-stated with its active frame explicit (`stepCore`, proved equal to `step`), then a simulation
between two machines whose stores agree except for what one cell delays.
-/
import UH.Model.Machine
import UH.Proofs.MachineInv
namespace UH.Unforced
open UH

/-- two cells agree on everything evaluation has *learned* (value, requestor) and — unless the cell is `u` — on
the expression and environment they delay -/
structure CellRel (u t : TId) (c c' : Cell) : Prop where
  value : c'.value = c.value
  requestor : c'.requestor = c.requestor
  expr : t ≠ u → c'.expr = c.expr ∧ c'.env = c.env

theorem CellRel.refl (u t : TId) (c : Cell) : CellRel u t c c := ⟨rfl, rfl, fun _ => ⟨rfl, rfl⟩⟩

def ORel (R : Cell → Cell → Prop) : Option Cell → Option Cell → Prop
  | none, none => True
  | some c, some c' => R c c'
  | _, _ => False

def CellsRel (u : TId) (h h' : Heap Cell) : Prop :=
  h'.size = h.size ∧ ∀ t, ORel (CellRel u t) (h.get? t) (h'.get? t)

structure StoreRel (u : TId) (s s' : Store) : Prop where
  fns : s'.fns = s.fns
  cells : CellsRel u s.cells s'.cells

theorem CellsRel.refl (u : TId) (h : Heap Cell) : CellsRel u h h :=
  ⟨rfl, fun t => by cases h.get? t <;> simp [ORel, CellRel.refl]⟩

theorem StoreRel.refl (u : TId) (s : Store) : StoreRel u s s := ⟨rfl, CellsRel.refl u _⟩

theorem getCell_rel {u : TId} {s s' : Store} (h : StoreRel u s s') (t : TId) :
    CellRel u t (s.getCell t) (s'.getCell t) := by
  unfold Store.getCell
  rw [Heap.getD_eq, Heap.getD_eq]
  have := h.cells.2 t
  cases hx : s.cells.get? t <;> cases hy : s'.cells.get? t <;> simp [ORel, hx, hy] at this ⊢
  · exact CellRel.refl _ _ _
  · exact this

theorem CellsRel.modify {u : TId} {h h' : Heap Cell} (hr : CellsRel u h h') (t : TId) (f : Cell → Cell)
    (hf : ∀ c c', CellRel u t c c' → CellRel u t (f c) (f c')) : CellsRel u (h.modify t f) (h'.modify t f) := by
  refine ⟨by simp [hr.1], fun j => ?_⟩
  rw [Heap.get?_modify, Heap.get?_modify]
  by_cases htj : t = j
  · subst htj
    simp only [if_true]
    have := hr.2 t
    cases hx : h.get? t <;> cases hy : h'.get? t <;> simp [ORel, hx, hy] at this ⊢
    exact hf _ _ this
  · simp only [htj, if_false]; exact hr.2 j

theorem CellsRel.push {u : TId} {h h' : Heap Cell} (hr : CellsRel u h h') (c : Cell) :
    CellsRel u (h.push c) (h'.push c) := by
  refine ⟨by simp [hr.1], fun j => ?_⟩
  rw [Heap.get?_push, Heap.get?_push, hr.1]
  by_cases hj : h.size = j
  · simp only [hj, if_true]; exact CellRel.refl _ _ _
  · simp only [hj, if_false]; exact hr.2 j

theorem setValue_rel {u : TId} {s s' : Store} (h : StoreRel u s s') (t : TId) (v : Outcome) :
    StoreRel u (s.setValue t v) (s'.setValue t v) :=
  ⟨h.fns, h.cells.modify t _ (fun c c' hc => ⟨rfl, hc.requestor, hc.expr⟩)⟩

theorem resolve_rel {u : TId} (v : Outcome) : ∀ (fuel : Nat) (s s' : Store) (t : TId), StoreRel u s s' →
    StoreRel u (s.resolve fuel t v) (s'.resolve fuel t v) := by
  intro fuel
  induction fuel with
  | zero => intro s s' t h; exact h
  | succ fuel ih =>
    intro s s' t h
    unfold Store.resolve
    have hreq := (getCell_rel h t).requestor
    rw [hreq]
    cases (s.getCell t).requestor with
    | none => exact setValue_rel h t v
    | some r => exact ih _ _ r (setValue_rel h t v)

/-- a frame created for a cell other than `u`, or for a cell that already has a value, does not look at `u`'s expression -/
theorem newFrame_rel {u : TId} {s s' : Store} (h : StoreRel u s s') (t : TId)
    (ht : t ≠ u ∨ (s.getCell t).value ≠ none) : newFrame s' t = newFrame s t := by
  have hc := getCell_rel h t
  unfold newFrame
  simp only [hc.value]
  cases hv : (s.getCell t).value with
  | some o => cases o <;> rfl
  | none =>
    rcases ht with ht | ht
    · obtain ⟨he, hn⟩ := hc.expr ht
      rw [he, hn]
    · exact absurd hv ht


theorem StoreRel.size {u : TId} {s s' : Store} (h : StoreRel u s s') : s'.cells.size = s.cells.size := h.cells.1

theorem loadPath_rel {u : TId} {st st' : Store} (h : StoreRel u st st') (w : World) (sp : Span) (path : String) :
    StoreRel u (doWorld.loadPath st w sp path).1 (doWorld.loadPath st' w sp path).1 ∧
    (doWorld.loadPath st' w sp path).2 = (doWorld.loadPath st w sp path).2 := by
  unfold doWorld.loadPath
  split
  · exact ⟨h, rfl⟩
  · split
    · exact ⟨h, rfl⟩
    · split
      · exact ⟨h, rfl⟩
      · split
        · exact ⟨h, rfl⟩
        · refine ⟨⟨h.fns, h.cells.push _⟩, ?_⟩
          simp [h.size]
        · exact ⟨h, rfl⟩
        · exact ⟨h, rfl⟩


theorem doWorld_rel {u : TId} {st st' : Store} (h : StoreRel u st st') (w : World) (op : WOp) :
    StoreRel u (doWorld st w op).1 (doWorld st' w op).1 ∧ (doWorld st' w op).2 = (doWorld st w op).2 := by
  have hf := h.fns
  unfold doWorld
  simp only [hf]
  cases op with
  | readLine sp => simp only []; split <;> exact ⟨h, rfl⟩
  | print sp s => exact ⟨h, rfl⟩
  | fopen sp p m =>
    simp only []
    split
    · split
      · exact ⟨h, rfl⟩
      · split
        · exact ⟨⟨by simp [hf], h.cells⟩, rfl⟩
        · exact ⟨h, rfl⟩
    · exact ⟨h, rfl⟩
  | fclose sp f => simp only []; split <;> (try split) <;> exact ⟨h, rfl⟩
  | fread sp f n => simp only []; split <;> (try split) <;> exact ⟨h, rfl⟩
  | fwrite sp f b => simp only []; split <;> (try split) <;> exact ⟨h, rfl⟩
  | ftell sp f => simp only []; split <;> (try split) <;> exact ⟨h, rfl⟩
  | fseek sp f o wh => simp only []; split <;> (try split) <;> exact ⟨h, rfl⟩
  | ftrunc sp f n => simp only []; split <;> (try split) <;> exact ⟨h, rfl⟩
  | importLit sp lits =>
    simp only []
    split
    · split <;> exact ⟨h, rfl⟩
    · split
      · exact ⟨h, rfl⟩
      · exact ⟨h, rfl⟩
      · exact loadPath_rel h w sp _
  | importPath sp path =>
    simp only []
    split
    · exact ⟨h, rfl⟩
    · split
      · exact ⟨h, rfl⟩
      · exact loadPath_rel h w sp _


/-! ### the step function with the active frame made explicit -/

def put (isHead : Bool) (rest : List Frame) (f' : Frame) (m : MState) : MState :=
  if isHead then { m with head := f' } else { m with tail := f' :: rest }

/-- the body of `step` for a running machine whose active frame is `f` (`rest` below it) -/
def stepCore (m : MState) (f : Frame) (rest : List Frame) (isHead : Bool) : MState :=
    match m.resp with
    | some r =>
      match f.cur with
      | .force _ k ke =>
        let cur' := match r with | .ok v => k v | .error e => ke e
        put isHead rest { f with cur := cur' } { m with resp := none }
      | _ => { m with status := .bottom }
    | none =>
      match f.cur with
      | .ret r =>
        match f.konts with
        | kt :: ks => put isHead rest { f with konts := ks, cur := kt.k r } m
        | [] =>
          if isHead then { m with status := .done (.ok r) } else
          match r with
          | .arg (.thunk t' _) =>
            let store := { m.store with cells := m.store.cells.modify t' (fun c => { c with requestor := f.box }) }
            let fresh := (store.getCell t').value.isNone
            { m with store := store, tail := newFrame store t' :: rest,
                     depth := m.depth + 1,
                     dstack := (match m.dstack with | l :: ls => (t' :: l) :: ls | [] => [[t']]),
                     events := Event.before (m.depth + 1) t' :: m.events,
                     starts := if fresh then t' :: m.starts else m.starts }
          | .arg (.strict v) => finishFrame m f rest (.ok v)
          | _ => { m with status := .bottom }
      | .throw e =>
        match f.konts with
        | kt :: ks => put isHead rest { f with konts := ks, cur := kt.ke e } m
        | [] =>
          if isHead then { m with status := .done (.error e) } else finishFrame m f rest (.error e)
      | .bottom => { m with status := .bottom }
      | .unmodelled why => { m with status := .unmodelled why }
      | .force t k ke =>
        match (m.store.getCell t).value with
        | some (.ok v) => put isHead rest { f with cur := k v } m
        | some (.error e) => put isHead rest { f with cur := ke e } m
        | none =>
          let tail' := newFrame m.store t :: m.tail
          let m' := { m with tail := tail', depth := m.depth + 1, dstack := [t] :: m.dstack,
                             events := Event.before (m.depth + 1) t :: m.events,
                             starts := t :: m.starts }
          if tail'.length ≥ maxStackSize then { m' with status := .limit } else m'
      | .newThunk e env k =>
        let t := m.store.cells.size
        put isHead rest { f with cur := k t } { m with store := { m.store with cells := m.store.cells.push { expr := e, env := env } } }
      | .newFn mk k =>
        let id := m.store.fns.size
        put isHead rest { f with cur := k id } { m with store := { m.store with fns := m.store.fns.push (mk id) } }
      | .getFn id k =>
        match m.store.fns.get? id with
        | some o => put isHead rest { f with cur := k o } m
        | none => { m with status := .bottom }
      | .call op k ke => put isHead rest { f with konts := ⟨k, ke⟩ :: f.konts, cur := expand op } m
      | .world op k ke =>
        match doWorld m.store m.world op with
        | (st, w, .ok a) => put isHead rest { f with cur := k a } { m with store := st, world := w }
        | (st, w, .err e) => put isHead rest { f with cur := ke e } { m with store := st, world := w }
        | (_, _, .unmodelled why) => { m with status := .unmodelled why }

/-- the active frame, the frames below it, and whether it is the head coroutine -/
def active (m : MState) : Frame × List Frame × Bool :=
  match m.tail with
  | f :: rest => (f, rest, false)
  | [] => (m.head, [], true)

/-- `step` is `stepCore` on the active frame (the definitions are literally the same text) -/
theorem step_eq_core (m : MState) (h : m.status = .running) :
    step m = stepCore m (active m).1 (active m).2.1 (active m).2.2 := by
  unfold step stepCore put active
  simp only [h]
  cases m.tail <;> rfl

/-- the two machines differ in the store only, and the stores are related -/
def Sim (u : TId) (a b : MState) : Prop := ∃ s'', b = { a with store := s'' } ∧ StoreRel u a.store s''

theorem Sim.mk' {u : TId} (m : MState) (s' : Store) (h : StoreRel u m.store s') : Sim u m { m with store := s' } :=
  ⟨s', rfl, h⟩

theorem Sim.put {u : TId} {a b : MState} (h : Sim u a b) (isHead : Bool) (rest : List Frame) (f' : Frame) :
    Sim u (put isHead rest f' a) (put isHead rest f' b) := by
  obtain ⟨s'', rfl, hr⟩ := h
  cases isHead <;> exact ⟨s'', rfl, hr⟩

theorem finishFrame_sim {u : TId} (m : MState) (s' : Store) (hrel : StoreRel u m.store s') (f : Frame) (rest : List Frame)
    (r : Outcome) : Sim u (finishFrame m f rest r) (finishFrame { m with store := s' } f rest r) := by
  unfold finishFrame Sim
  cases hb : f.box with
  | none => exact ⟨s', rfl, hrel⟩
  | some t =>
    refine ⟨s'.resolve (m.store.cells.size + 1) t r, ?_, resolve_rel r _ _ _ t hrel⟩
    simp only [hrel.size]

theorem stepCore_patch (u : TId) (m : MState) (s' : Store) (f : Frame) (rest : List Frame) (isHead : Bool)
    (hrel : StoreRel u m.store s') (hu : u ∉ (stepCore m f rest isHead).starts) :
    Sim u (stepCore m f rest isHead) (stepCore { m with store := s' } f rest isHead) := by
  unfold stepCore at hu ⊢
  simp only [] at hu ⊢
  cases hresp : m.resp with
  | some r =>
    simp only [hresp] at hu ⊢
    split
    · apply Sim.put; exact ⟨s', rfl, hrel⟩
    · exact ⟨s', rfl, hrel⟩
  | none =>
    simp only [hresp] at hu ⊢
    cases hcur : f.cur with
    | ret r =>
      simp only [hcur] at hu ⊢
      cases hk : f.konts with
      | cons kt ks => simp only []; apply Sim.put; exact ⟨s', by simp [hresp], hrel⟩
      | nil =>
        simp only [hk] at hu ⊢
        cases isHead with
        | true => exact ⟨s', rfl, hrel⟩
        | false =>
          simp only [Bool.false_eq_true, if_false] at hu ⊢
          split
          · -- tail return
            rename_i t' lit
            simp only [] at hu
            have hrel' : StoreRel u
                { m.store with cells := m.store.cells.modify t' (fun c => { c with requestor := f.box }) }
                { s' with cells := s'.cells.modify t' (fun c => { c with requestor := f.box }) } :=
              ⟨hrel.fns, hrel.cells.modify t' _ (fun c c' hc => ⟨hc.value, rfl, hc.expr⟩)⟩
            simp only [] at hrel'
            have hval := (getCell_rel hrel' t').value
            have hcond : t' ≠ u ∨ (Store.getCell { cells := m.store.cells.modify t' (fun c => { c with requestor := f.box }), fns := m.store.fns } t').value ≠ none := by
              by_cases hn : (Store.getCell { cells := m.store.cells.modify t' (fun c => { c with requestor := f.box }), fns := m.store.fns } t').value = none
              · left
                simp only [hn, Option.isNone_none, if_true] at hu
                intro h; subst h; exact hu (by simp)
              · right; exact hn
            have hnf := newFrame_rel hrel' t' hcond
            refine ⟨_, ?_, hrel'⟩
            simp only [hnf, hval]
          · exact finishFrame_sim _ _ hrel _ _ _
          · exact ⟨s', rfl, hrel⟩
    | throw e =>
      simp only [hcur] at hu ⊢
      cases hk : f.konts with
      | cons kt ks => simp only []; apply Sim.put; exact ⟨s', by simp [hresp], hrel⟩
      | nil =>
        simp only [hk] at hu ⊢
        cases isHead with
        | true => exact ⟨s', rfl, hrel⟩
        | false =>
          simp only [Bool.false_eq_true, if_false] at hu ⊢
          exact finishFrame_sim _ _ hrel _ _ _
    | bottom => exact ⟨s', rfl, hrel⟩
    | unmodelled why => exact ⟨s', rfl, hrel⟩
    | force t k ke =>
      simp only [hcur] at hu ⊢
      have hval := (getCell_rel hrel t).value
      rw [hval]
      cases hv : (m.store.getCell t).value with
      | some o =>
        cases o with
        | ok v => simp only []; apply Sim.put; exact ⟨s', by simp [hresp], hrel⟩
        | error e => simp only []; apply Sim.put; exact ⟨s', by simp [hresp], hrel⟩
      | none =>
        simp only [hv] at hu ⊢
        have htu : t ≠ u := by
          intro h; subst h
          split at hu <;> exact hu (by simp)
        have hnf := newFrame_rel hrel t (Or.inl htu)
        rw [hnf]
        split <;> exact ⟨s', rfl, hrel⟩
    | newThunk e env k =>
      simp only [hcur] at hu ⊢
      rw [hrel.size]
      apply Sim.put
      refine ⟨⟨s'.cells.push { expr := e, env := env }, s'.fns⟩, by simp [hresp], ?_⟩
      exact ⟨hrel.fns, hrel.cells.push _⟩
    | newFn mk k =>
      simp only [hcur] at hu ⊢
      rw [hrel.fns]
      apply Sim.put
      refine ⟨⟨s'.cells, m.store.fns.push (mk m.store.fns.size)⟩, by simp [hresp], ?_⟩
      exact ⟨rfl, hrel.cells⟩
    | getFn id k =>
      simp only [hcur] at hu ⊢
      rw [hrel.fns]
      split
      · apply Sim.put; exact ⟨s', by simp [hresp], hrel⟩
      · exact ⟨s', rfl, hrel⟩
    | call op k ke => simp only []; apply Sim.put; exact ⟨s', by simp [hresp], hrel⟩
    | world op k ke =>
      simp only [hcur] at hu ⊢
      obtain ⟨hws, hwr⟩ := doWorld_rel hrel m.world op
      generalize doWorld m.store m.world op = o at hws hwr hu ⊢
      generalize doWorld s' m.world op = o' at hws hwr ⊢
      obtain ⟨st, w, r⟩ := o
      obtain ⟨st', w', r'⟩ := o'
      simp only [Prod.mk.injEq] at hwr
      obtain ⟨rfl, rfl⟩ := hwr
      simp only [] at hws
      cases r' with
      | ok a => simp only []; apply Sim.put; exact ⟨st', by simp [hresp], hws⟩
      | err e => simp only []; apply Sim.put; exact ⟨st', by simp [hresp], hws⟩
      | unmodelled why => exact ⟨s', rfl, hrel⟩


theorem step_patch (u : TId) (m : MState) (s' : Store) (hrel : StoreRel u m.store s') (hu : u ∉ (step m).starts) :
    Sim u (step m) (step { m with store := s' }) := by
  by_cases hst : m.status = .running
  · rw [step_eq_core m hst] at hu ⊢
    rw [step_eq_core { m with store := s' } hst]
    exact stepCore_patch u m s' _ _ _ hrel hu
  · have h1 : step m = m := step_not_running m hst
    have h2 : step { m with store := s' } = { m with store := s' } := step_not_running _ hst
    rw [h1, h2]; exact ⟨s', rfl, hrel⟩

/-- the log of started cells only grows -/
theorem starts_mono_step (m : MState) (x : TId) (hx : x ∈ m.starts) : x ∈ (step m).starts := by
  by_cases hst : m.status = .running
  · rw [step_eq_core m hst]
    have key : ∀ f rest isHead, x ∈ (stepCore m f rest isHead).starts := by
      intro f rest isHead
      unfold stepCore
      have hput : ∀ (b : Bool) (r : List Frame) (f' : Frame) (m1 : MState), (put b r f' m1).starts = m1.starts := by
        intro b r f' m1; cases b <;> rfl
      have hfin : ∀ (m1 : MState) f r o, (finishFrame m1 f r o).starts = m1.starts := by
        intro m1 f r o; rfl
      split
      · split <;> simp [hput, hx]
      · split
        · split
          · simp [hput, hx]
          · split
            · exact hx
            · split
              · simp only []; split <;> simp [hx]
              · rw [hfin]; exact hx
              · exact hx
        · split
          · simp [hput, hx]
          · split
            · exact hx
            · rw [hfin]; exact hx
        · exact hx
        · exact hx
        · split
          · simp [hput, hx]
          · simp [hput, hx]
          · simp only []; split <;> simp [hx]
        · simp [hput, hx]
        · simp [hput, hx]
        · split
          · simp [hput, hx]
          · exact hx
        · simp [hput, hx]
        · split
          · simp [hput, hx]
          · simp [hput, hx]
          · exact hx
    exact key _ _ _
  · rw [step_not_running m hst]; exact hx

theorem starts_mono_runN (n : Nat) : ∀ (m : MState) (x : TId), x ∈ m.starts → x ∈ (runN n m).starts := by
  induction n with
  | zero => intro m x hx; exact hx
  | succ n ih =>
    intro m x hx
    unfold runN
    split
    · exact ih _ _ (starts_mono_step m x hx)
    · exact hx

theorem runN_succ_running (n : Nat) (m : MState) (h : m.status = .running) : runN (n + 1) m = runN n (step m) := by
  simp [runN, h]

theorem runN_not_running (n : Nat) (m : MState) (h : m.status ≠ .running) : runN n m = m := by
  cases n with
  | zero => rfl
  | succ n =>
    unfold runN
    split
    · rename_i h'; exact absurd h' h
    · rfl

/-- **a delayed expression that is never started is irrelevant**: run the machine `n` steps from `m` and from the
same state with another store related by `StoreRel u` (the cell `u` may delay a different expression in a different
environment); if `u` is not among the cells whose evaluation was started, the two runs agree on everything but
the store, and the stores are still related -/
theorem runN_patch (u : TId) (n : Nat) : ∀ (m : MState) (s' : Store), StoreRel u m.store s' →
    u ∉ (runN n m).starts → Sim u (runN n m) (runN n { m with store := s' }) := by
  induction n with
  | zero => intro m s' hrel _; exact ⟨s', rfl, hrel⟩
  | succ n ih =>
    intro m s' hrel hu
    by_cases hst : m.status = .running
    · rw [runN_succ_running n m hst] at hu ⊢
      rw [runN_succ_running n { m with store := s' } hst]
      have hu1 : u ∉ (step m).starts := fun h => hu (starts_mono_runN n _ _ h)
      obtain ⟨s'', heq, hrel''⟩ := step_patch u m s' hrel hu1
      rw [heq]
      exact ih (step m) s'' hrel'' hu
    · rw [runN_not_running _ m hst]
      rw [runN_not_running _ { m with store := s' } hst]
      exact ⟨s', rfl, hrel⟩

/-- replace what cell `u` delays -/
def patchCell (s : Store) (u : TId) (e : AST) (env : Env) : Store :=
  { s with cells := s.cells.modify u (fun c => { c with expr := e, env := env }) }

theorem patchCell_rel (s : Store) (u : TId) (e : AST) (env : Env) : StoreRel u s (patchCell s u e env) := by
  refine ⟨rfl, by simp [patchCell], fun t => ?_⟩
  simp only [patchCell]
  rw [Heap.get?_modify]
  by_cases h : u = t
  · subst h
    simp only [if_true]
    cases s.cells.get? u with
    | none => simp [ORel]
    | some c => simp only [Option.map_some, ORel]; exact ⟨rfl, rfl, fun h => absurd rfl h⟩
  · simp only [h, if_false]
    cases s.cells.get? t <;> simp [ORel, CellRel.refl]

/-- **C03, for every program and every replacement**: if running the machine for `n` steps never starts the delayed
expression `u`, then replacing what `u` delays — by an expression that raises, diverges, would print, anything —
changes neither the status (result / exception / limit), nor the world (stdin, stdout, files), nor the frames,
nor the observer's events, nor which cells were started; only the store differs, and only at `u`'s expression -/
theorem unforced_irrelevant (u : TId) (e : AST) (env : Env) (n : Nat) (m : MState) (hu : u ∉ (runN n m).starts) :
    let r := runN n m
    let r' := runN n { m with store := patchCell m.store u e env }
    r'.status = r.status ∧ r'.world = r.world ∧ r'.head = r.head ∧ r'.tail = r.tail ∧ r'.events = r.events ∧
      r'.starts = r.starts ∧ r'.depth = r.depth ∧ StoreRel u r.store r'.store := by
  intro r r'
  obtain ⟨s'', heq, hrel⟩ := runN_patch u n m _ (patchCell_rel m.store u e env) hu
  have h : r' = { r with store := s'' } := heq
  rw [h]
  exact ⟨rfl, rfl, rfl, rfl, rfl, rfl, rfl, hrel⟩

end UH.Unforced
