/-
Big-step rules for calls whose function part is a built-in name (an integer literal) or evaluates to a Boolean, and
the evaluation of four built-ins on the values the reference semantics `ByName.BN` knows: the Boolean constants
ㅈㅈ / ㄱㅈ, ㄴ on two integers, ㄷ on two integers.
-/
import UH.Proofs.NatSemIO
import UH.Properties.C06
import UH.Properties.C11
namespace UH.BigStep
open UH Unforced C19 Comp

/-- a demand that (however the memo cell stands) delivers `v`, taking the store from `s` to `s'` — at every height
from `h0` on -/
def Forces (s : Store) (w : World) (t : TId) (v : Val) (h0 : Nat) (s' : Store) : Prop :=
  ∀ h, h0 ≤ h → ∀ (k : Val → Comp Res) (ke : ErrV → Comp Res) r s'' w'',
    Eval s' w (.comp (k v)) h r s'' w'' → Eval s w (.comp (.force t k ke)) h r s'' w''

theorem Forces.memo {s : Store} (w : World) {t : TId} {v : Val} (hv : (s.getCell t).value = some (.ok v)) :
    Forces s w t v 0 s :=
  fun _ _ _ _ _ _ _ hk => .forceOk hv hk

theorem Forces.eval {s : Store} {w : World} {t : TId} {v : Val} {h0 : Nat} {s' : Store}
    (hn : (s.getCell t).value = none) (hf : Eval s w (.frame t) h0 (.ok (.arg (.strict v))) s' w) :
    Forces s w t v h0 s' :=
  fun h hh _ _ _ _ _ hk => .forceEvalOk hn (hf.mono h hh) hk

theorem interpret_call_lit (n : Int) (spf : Span) (args : List AST) (sp : Span) (env : Env) :
    interpret (.call (.lit n spf) args sp) env = .newThunk (.lit n spf) env (fun tf => do
      let argv ← mkThunks env args
      let callee ← strictFunctional sp (.thunk tf (some n))
      checkCallee isBuiltinName sp callee true
      callArg (.apply callee sp argv)) := rfl

/-- **call of a built-in**: the function part is an integer literal naming a built-in — it is not evaluated; the
argument expressions are delayed in the caller's environment and handed to the built-in -/
theorem rule_call_builtin (s : Store) (w : World) (h : Nat) (n : Int) (spf : Span) (args : List AST) (sp : Span) (env : Env)
    (b : Builtin) (hn : isBuiltinName n = true) (hb : builtinOf n = some b) {a : Arg} {s' : Store} {w' : World}
    (hk : Eval (allocArgs (alloc s (.lit n spf) env) env args).1 w
      (.comp ((b sp (allocArgs (alloc s (.lit n spf) env) env args).2).bind (fun x => .ret (Res.arg x)))) h (.ok (.arg a)) s' w') :
    Eval s w (.comp (bodyOf (.call (.lit n spf) args sp) env)) h (.ok (.arg a)) s' w' := by
  simp only [bodyOf, interpret_call_lit, Bind.bind, Comp.bind]
  refine .newThunk ?_
  rw [bind_assoc]
  refine eval_mkThunks env w h _ _ _ args _ (alloc s (.lit n spf) env) ?_
  simp only [strictFunctional, checkCallee, hn, if_true, Comp.bind, callArg]
  refine .callOk (x := .arg a) ?_ (.ret _ _ _ _)
  simpa only [expand, applyCallee, hb, Bind.bind, pure] using hk

/-- **call of a Boolean**: the function part evaluates to a Boolean; the selected one of the two argument expressions is
handed over *unevaluated* (a tail return), the other one is never touched -/
theorem rule_call_bool (s : Store) (w : World) (h : Nat) (f x y : AST) (sp : Span) (env : Env)
    (b : Bool) (s1 : Store) (w1 : World) (hf : tagOf f = none)
    (hcallee : Eval (allocArgs (alloc s f env) env [x, y]).1 w (.frame s.cells.size) h
        (.ok (.arg (.strict (.bool b)))) s1 w1) :
    Eval s w (.comp (bodyOf (.call f [x, y] sp) env)) h
      (.ok (.arg (if b then .thunk (s.cells.size + 1) (tagOf x) else .thunk (s.cells.size + 2) (tagOf y)))) s1 w1 := by
  simp only [bodyOf, interpret_call_nonlit f [x, y] sp env hf, Bind.bind, Comp.bind]
  refine .newThunk ?_
  rw [bind_assoc]
  refine eval_mkThunks env w h _ _ _ [x, y] _ (alloc s f env) ?_
  simp only [strictFunctional, forceArg]
  refine .forceEvalOk ?_ hcallee ?_
  · rw [allocArgs_getCell env [x, y] _ _ (by simp [alloc]), getCell_alloc_new]
  · simp only [checkType, Val.isCallable, Val.isFunction, Val.isBoolean, List.all_cons, List.all_nil, Bool.and_true,
      Bool.true_or, Bool.or_true, Bool.false_or, if_true, Comp.bind, pure, checkCallee, callArg]
    refine .callOk (x := .arg (if b then .thunk (s.cells.size + 1) (tagOf x) else .thunk (s.cells.size + 2) (tagOf y))) ?_ (.ret _ _ _ _)
    simp only [expand, applyCallee, checkArity, allocArgs, alloc, Heap.size_push, List.length_cons, List.length_nil,
      List.contains_cons, List.contains_nil, Bind.bind, Comp.bind, pure]
    cases b <;> exact .ret _ _ _ _

/-- **call of a list**: the function part evaluates to a list; the (single) argument is demanded and must be an integer;
the element at that position is handed over *unevaluated* (a tail return) — no other element is touched -/
theorem rule_call_list (s : Store) (w : World) (h : Nat) (f a : AST) (sp : Span) (env : Env)
    (xs : List Arg) (i : Int) (x : Arg) (s1 s2 : Store) (h2 : Nat) (hf : tagOf f = none)
    (hcallee : Eval (allocArgs (alloc s f env) env [a]).1 w (.frame s.cells.size) h
        (.ok (.arg (.strict (.list xs)))) s1 w)
    (harg : Forces s1 w (s.cells.size + 1) (.int i) h2 s2) (hh : h2 ≤ h)
    (hidx : pyIndex xs i = some x) :
    Eval s w (.comp (bodyOf (.call f [a] sp) env)) h (.ok (.arg x)) s2 w := by
  simp only [bodyOf, interpret_call_nonlit f [a] sp env hf, Bind.bind, Comp.bind]
  refine .newThunk ?_
  rw [bind_assoc]
  refine eval_mkThunks env w h _ _ _ [a] _ (alloc s f env) ?_
  simp only [strictFunctional, forceArg]
  refine .forceEvalOk ?_ hcallee ?_
  · rw [allocArgs_getCell env [a] _ _ (by simp [alloc]), getCell_alloc_new]
  · simp only [checkType, Val.isCallable, Val.isFunction, Val.isBoolean, Val.isSequence, Val.isList, List.all_cons, List.all_nil,
      Bool.and_true, Bool.true_or, Bool.or_true, Bool.false_or, if_true, Comp.bind, pure, checkCallee, callArg]
    refine .callOk (x := .arg x) (s1 := s2) (w1 := w) ?_ (.ret _ _ _ _)
    simp only [expand, applyCallee, matchArguments, checkArity, forceAll, forceArg, allocArgs, alloc, Heap.size_push,
      List.length_cons, List.length_nil, List.contains_cons, List.contains_nil, Bind.bind, Comp.bind, pure]
    refine harg h hh _ _ _ _ _ ?_
    simp only [Comp.bind, checkType, Val.isInteger, List.all_cons, List.all_nil, Bool.and_true, if_true, hidx]
    exact .ret _ _ _ _

theorem expand_keyOf_int (s : Store) (w : World) (h : Nat) (x : Int) :
    Eval s w (.comp (expand (.keyOf (.int x)))) h (.ok (.key (Num.int x).key)) s w := by
  simp only [expand, keyOf, Bind.bind, Comp.bind, pure]
  exact .ret _ _ _ _

theorem int_key_beq (x y : Int) : ((Num.int x).key == (Num.int y).key) = (x == y) := by
  by_cases h : x = y
  · subst h; simp
  · have hk : ((Num.int x).key == (Num.int y).key) = false := by
      cases hb : ((Num.int x).key == (Num.int y).key) with
      | false => rfl
      | true => exact absurd ((C06.int_keys x y).1 hb) h
    rw [hk]; simp [h]

/-- ㄴ on two delayed integers: both are demanded, left to right; the result is the Boolean `x = y` -/
theorem eval_equals_ints {s : Store} {w : World} {sp : Span} {t1 t2 : TId} {l1 l2 : Option Int} {x y : Int}
    {h1 h2 : Nat} {s1 s2 : Store} (f1 : Forces s w t1 (.int x) h1 s1) (f2 : Forces s1 w t2 (.int y) h2 s2)
    (h : Nat) (hh1 : h1 ≤ h) (hh2 : h2 ≤ h) :
    Eval s w (.comp ((bEquals sp [.thunk t1 l1, .thunk t2 l2]).bind (fun a => .ret (Res.arg a)))) h
      (.ok (.arg (.strict (.bool (x == y))))) s2 w := by
  simp only [bEquals, bEqualsGo, forceArg, callKey, Bind.bind, Comp.bind]
  refine f1 h hh1 _ _ _ _ _ ?_
  refine .callOk (expand_keyOf_int _ _ _ x) ?_
  simp only [Comp.bind]
  refine f2 h hh2 _ _ _ _ _ ?_
  refine .callOk (expand_keyOf_int _ _ _ y) ?_
  simp only [Comp.bind, int_key_beq]
  cases hxy : (x == y) <;> simp only [retV, Comp.bind, bEqualsGo, if_true, if_false, Bool.false_eq_true] <;> exact .ret _ _ _ _

/-- ㄷ on two delayed integers: the first is demanded (to decide what kind of addition this is), then both in order;
the result is the exact sum -/
theorem eval_add_ints {s : Store} {w : World} {sp : Span} {t1 t2 : TId} {l1 l2 : Option Int} {x y : Int}
    {h1 h1' h2 : Nat} {s1 s1' s2 : Store} (f1 : Forces s w t1 (.int x) h1 s1) (f1' : Forces s1 w t1 (.int x) h1' s1')
    (f2 : Forces s1' w t2 (.int y) h2 s2) (h : Nat) (hh1 : h1 ≤ h) (hh1' : h1' ≤ h) (hh2 : h2 ≤ h) :
    Eval s w (.comp ((bAdd sp [.thunk t1 l1, .thunk t2 l2]).bind (fun a => .ret (Res.arg a)))) h
      (.ok (.arg (.strict (.int (x + y))))) s2 w := by
  simp only [bAdd, checkMinArity, forceArg, forceAll, List.length_cons, List.length_nil, Bind.bind, Comp.bind, pure]
  have h0 : ¬ (0 + 1 + 1 < 1) := by omega
  simp only [h0, if_false, Comp.bind]
  refine f1 h hh1 _ _ _ _ _ ?_
  simp only [checkType, Val.isNumber, Val.isBoolean, List.all_cons, List.all_nil, Bool.and_true, Bool.true_or, if_true,
    Comp.bind, Bool.false_eq_true, if_false]
  refine f1' h hh1' _ _ _ _ _ ?_
  simp only [Comp.bind]
  refine f2 h hh2 _ _ _ _ _ ?_
  have hsum : (numsOf [Val.int x, Val.int y]).foldlM Num.add (Num.int 0) = (.ok (Num.int (x + y)) : NumM Num) := by
    have := C11.sum_ints [x, y] 0
    simpa [numsOf, Num.ofVal?] using this
  simp only [Comp.bind, Val.isNumber, List.all_cons, List.all_nil, Bool.and_true, if_true, Bool.and_self, hsum, liftNum, retV, Num.toVal]
  exact .ret _ _ _ _

/-- ㄱ on two delayed integers: the first is demanded (to decide what kind of product this is), then the second; the
result is the exact product -/
theorem eval_mul_ints {s : Store} {w : World} {sp : Span} {t1 t2 : TId} {l1 l2 : Option Int} {x y : Int}
    {h1 h2 : Nat} {s1 s2 : Store} (f1 : Forces s w t1 (.int x) h1 s1) (f2 : Forces s1 w t2 (.int y) h2 s2)
    (h : Nat) (hh1 : h1 ≤ h) (hh2 : h2 ≤ h) :
    Eval s w (.comp ((bMultiply sp [.thunk t1 l1, .thunk t2 l2]).bind (fun a => .ret (Res.arg a)))) h
      (.ok (.arg (.strict (.int (x * y))))) s2 w := by
  simp only [bMultiply, checkMinArity, matchArguments, forceArg, forceAll, List.length_cons, List.length_nil, Bind.bind, Comp.bind, pure]
  have h0 : ¬ (0 + 1 + 1 < 1) := by omega
  simp only [h0, if_false, Comp.bind]
  refine f1 h hh1 _ _ _ _ _ ?_
  simp only [checkType, Val.isNumber, Val.isBoolean, List.all_cons, List.all_nil, Bool.and_true, Bool.true_or, if_true,
    Comp.bind, Bool.false_eq_true, if_false]
  refine f2 h hh2 _ _ _ _ _ ?_
  have hprod : (numsOf [Val.int y]).foldlM Num.mul (Num.int x) = (.ok (Num.int (x * y)) : NumM Num) := by
    have := C11.prod_ints [y] x
    simpa [numsOf, Num.ofVal?] using this
  simp only [Comp.bind, Val.isNumber, List.all_cons, List.all_nil, Bool.and_true, if_true, Num.ofVal?, hprod, liftNum, retV, Num.toVal]
  exact .ret _ _ _ _

/-- ㅈ on two delayed integers: both are demanded, left to right; the result is the Boolean `x < y` -/
theorem eval_lt_ints {s : Store} {w : World} {sp : Span} {t1 t2 : TId} {l1 l2 : Option Int} {x y : Int}
    {h1 h2 : Nat} {s1 s2 : Store} (f1 : Forces s w t1 (.int x) h1 s1) (f2 : Forces s1 w t2 (.int y) h2 s2)
    (h : Nat) (hh1 : h1 ≤ h) (hh2 : h2 ≤ h) :
    Eval s w (.comp ((bLessThan sp [.thunk t1 l1, .thunk t2 l2]).bind (fun a => .ret (Res.arg a)))) h
      (.ok (.arg (.strict (.bool (decide (x < y)))))) s2 w := by
  simp only [bLessThan, matchArguments, checkArity, forceArg, forceAll, List.length_cons, List.length_nil, List.contains_cons,
    List.contains_nil, Bind.bind, Comp.bind, pure]
  refine f1 h hh1 _ _ _ _ _ ?_
  simp only [Comp.bind]
  refine f2 h hh2 _ _ _ _ _ ?_
  simp only [Comp.bind, checkType, Val.isReal, List.all_cons, List.all_nil, Bool.and_true, Bool.and_self, if_true, List.map_cons,
    List.map_nil, Num.ofVal?, retV, C11.lt_int]
  exact .ret _ _ _ _

/-- ㄴㅁ on two delayed integers, the second non-zero: both are demanded in order; the result is the truncated remainder -/
theorem eval_rem_ints {s : Store} {w : World} {sp : Span} {t1 t2 : TId} {l1 l2 : Option Int} {x y : Int}
    {h1 h2 : Nat} {s1 s2 : Store} (f1 : Forces s w t1 (.int x) h1 s1) (f2 : Forces s1 w t2 (.int y) h2 s2)
    (hy : y ≠ 0) (h : Nat) (hh1 : h1 ≤ h) (hh2 : h2 ≤ h) :
    Eval s w (.comp ((bRemainder sp [.thunk t1 l1, .thunk t2 l2]).bind (fun a => .ret (Res.arg a)))) h
      (.ok (.arg (.strict (.int (Int.tmod x y))))) s2 w := by
  simp only [bRemainder, matchArguments, checkArity, forceArg, forceAll, List.length_cons, List.length_nil, List.contains_cons,
    List.contains_nil, Bind.bind, Comp.bind, pure]
  refine f1 h hh1 _ _ _ _ _ ?_
  simp only [Comp.bind]
  refine f2 h hh2 _ _ _ _ _ ?_
  simp only [Comp.bind, checkType, Val.isReal, List.all_cons, List.all_nil, Bool.and_true, Bool.and_self, if_true, hy, if_false,
    retV, C11.intRem_eq_tmod x y hy]
  exact .ret _ _ _ _

/-- ㅈㄷ on a delayed list: the list is demanded — not its elements — and its number of elements returned -/
theorem eval_len_list {s : Store} {w : World} {sp : Span} {t1 : TId} {l1 : Option Int} {xs : List Arg}
    {h1 : Nat} {s1 : Store} (f1 : Forces s w t1 (.list xs) h1 s1) (h : Nat) (hh1 : h1 ≤ h) :
    Eval s w (.comp ((bLen sp [.thunk t1 l1]).bind (fun a => .ret (Res.arg a)))) h
      (.ok (.arg (.strict (.int xs.length)))) s1 w := by
  simp only [bLen, matchArguments, checkArity, forceAll, forceArg, List.length_cons, List.length_nil, List.contains_cons,
    List.contains_nil, Bind.bind, Comp.bind, pure]
  refine f1 h hh1 _ _ _ _ _ ?_
  simp only [Comp.bind, checkType, Val.isSequence, Val.isList, List.all_cons, List.all_nil, Bool.and_true, Bool.true_or,
    Bool.or_true, if_true, retV, seqLen]
  exact .ret _ _ _ _

theorem eval_true (s : Store) (w : World) (sp : Span) (h : Nat) :
    Eval s w (.comp ((bTrue sp []).bind (fun a => .ret (Res.arg a)))) h (.ok (.arg (.strict (.bool true)))) s w := by
  simp only [bTrue, checkArity, retV, List.length_nil, List.contains_cons, List.contains_nil, Bind.bind, Comp.bind]
  exact .ret _ _ _ _

theorem eval_false (s : Store) (w : World) (sp : Span) (h : Nat) :
    Eval s w (.comp ((bFalse sp []).bind (fun a => .ret (Res.arg a)))) h (.ok (.arg (.strict (.bool false)))) s w := by
  simp only [bFalse, checkArity, retV, List.length_nil, List.contains_cons, List.contains_nil, Bind.bind, Comp.bind]
  exact .ret _ _ _ _

end UH.BigStep
