/- Lemmas about the tokenizer merge loop (for C01 / C09). -/
import UH.Model.Parse
namespace UH

/-- every `ㅇ`/`ㅎ` is immediately preceded by a separator (`prev` = "the previous symbol was one") -/
def shapeGo : Bool → List Sym → Bool
  | _, [] => true
  | prev, s :: r => (match s with | .o | .h => prev | _ => true) && shapeGo s.isSp r

/-- shape of one character's normalisation -/
def shapeOk (l : List Sym) : Bool := shapeGo false l

theorem shapeGo_mono (l : List Sym) : shapeGo false l = true → shapeGo true l = true := by
  cases l with
  | nil => simp [shapeGo]
  | cons s r => cases s <;> simp [shapeGo]

theorem shapeGo_append (p : Bool) (a b : List Sym) :
    shapeGo p a = true → shapeGo false b = true → shapeGo p (a ++ b) = true := by
  induction a generalizing p with
  | nil =>
    intro _ hb
    cases p
    · simpa using hb
    · simpa using shapeGo_mono b hb
  | cons s r ih =>
    intro ha hb
    simp only [shapeGo, Bool.and_eq_true] at ha
    simp only [List.cons_append, shapeGo, Bool.and_eq_true]
    exact ⟨ha.1, ih _ ha.2 hb⟩

/-- a word: a non-separator head followed by digits only -/
def wordShape (syms : List Sym) : Prop :=
  ∃ hd ds, syms = hd :: List.map Sym.d ds ∧ hd ≠ Sym.sp

theorem symDigits_map' (ds : List Digit) : symDigits (ds.map Sym.d) = some ds := by
  induction ds with
  | nil => rfl
  | cons d ds ih => simp [symDigits, ih]

theorem classify_wordShape (syms : List Sym) (h : wordShape syms) : (classify syms).isSome = true := by
  obtain ⟨hd, ds, rfl, hne⟩ := h
  cases hd with
  | d n => simp [classify, symDigits_map']
  | o => simp [classify, symDigits_map']
  | h => simp [classify, symDigits_map']
  | sp => exact absurd rfl hne

theorem tokenizeGo_wordShape :
    ∀ (xs : List (Sym × Span)) (cur : Option Token),
      (∀ t, cur = some t → wordShape t.syms) →
      shapeGo cur.isNone (xs.map (·.1)) = true →
      ∀ t ∈ tokenizeGo cur xs, wordShape t.syms := by
  intro xs
  induction xs with
  | nil =>
    intro cur hc _ t ht
    cases cur with
    | none => simp [tokenizeGo] at ht
    | some t0 => simp [tokenizeGo] at ht; subst ht; exact hc _ rfl
  | cons x xs ih =>
    intro cur hc hs t ht
    obtain ⟨s, sp⟩ := x
    simp only [List.map_cons, shapeGo, Bool.and_eq_true] at hs
    cases cur with
    | none =>
      simp only [tokenizeGo] at ht
      by_cases hsp : s.isSp = true
      · simp only [hsp, if_true] at ht
        exact ih none (by intro t h; cases h) (by simpa [hsp] using hs.2) t ht
      · simp only [hsp] at ht
        have hsp' : s.isSp = false := by simpa using hsp
        refine ih (some ⟨[s], sp⟩) ?_ (by simpa [hsp'] using hs.2) t ht
        intro t0 h0; cases h0
        exact ⟨s, [], rfl, by intro h; subst h; simp [Sym.isSp] at hsp⟩
    | some t0 =>
      simp only [tokenizeGo] at ht
      by_cases hsp : s.isSp = true
      · simp only [hsp, if_true, List.mem_cons] at ht
        rcases ht with ht | ht
        · subst ht; exact hc _ rfl
        · exact ih none (by intro t h; cases h) (by simpa [hsp] using hs.2) t ht
      · simp only [hsp] at ht
        have hsp' : s.isSp = false := by simpa using hsp
        refine ih _ ?_ (by simpa [hsp'] using hs.2) t ht
        intro t1 h1; cases h1
        obtain ⟨hd, ds, he, hne⟩ := hc t0 rfl
        have hs1 := hs.1
        cases s with
        | d n => exact ⟨hd, ds ++ [n], by simp [he], hne⟩
        | o => simp at hs1
        | h => simp at hs1
        | sp => simp [Sym.isSp] at hsp'

section
variable (norm : Nat → List Sym) (hnorm : ∀ c, shapeOk (norm c) = true)
include hnorm

theorem lineSyms_go_shape (i j : Nat) (cs : List Nat) :
    shapeGo false ((lineSyms.go norm i j cs).map (·.1)) = true := by
  induction cs generalizing j with
  | nil => simp [lineSyms.go, shapeGo]
  | cons c cs ih =>
    simp only [lineSyms.go, List.map_append, List.map_map]
    apply shapeGo_append
    · have : (List.map ((fun x => x.1) ∘ fun s => (s, (⟨i, j, j + 1⟩ : Span))) (norm c)) = norm c := by
        simp [Function.comp_def]
      rw [this]; exact hnorm c
    · exact ih (j + 1)

theorem linesSyms_shape (i : Nat) (ls : List (List Nat)) :
    shapeGo false ((linesSyms norm i ls).map (·.1)) = true := by
  induction ls generalizing i with
  | nil => simp [linesSyms, shapeGo]
  | cons l ls ih =>
    simp only [linesSyms, List.map_append]
    exact shapeGo_append _ _ _ (lineSyms_go_shape norm hnorm i 0 _) (ih (i + 1))

/-- **every token the tokenizer produces is a well-formed word**
(`[ㅇㅎ]? digit*`, non-empty), so `parse_token` always follows a documented branch -/
theorem classify_tokens (text : List Nat) :
    ∀ t ∈ tokenize norm text, (classify t.syms).isSome = true := by
  intro t ht
  apply classify_wordShape
  refine tokenizeGo_wordShape _ none (by intro t h; cases h) ?_ t ht
  exact shapeGo_mono _ (linesSyms_shape norm hnorm 0 _)
end

end UH
