/-
Memo cells in the big-step semantics (C13): what evaluation has learned is never forgotten, and a frame that
ends with its own value (or exception) leaves exactly that outcome in its cell.
-/
import UH.Proofs.NatSem
import UH.Properties.C13
namespace UH.BigStep
open UH Unforced C19

/-- ids are allocated consecutively: only ids below `size` are in use -/
def HeapWF {α : Type} (h : Heap α) : Prop := ∀ i, (h.get? i).isSome → i < h.size

theorem HeapWF.empty {α : Type} : HeapWF (Heap.empty : Heap α) := by
  intro i hi
  simp [Heap.empty, Heap.get?] at hi

theorem HeapWF.push {α : Type} {h : Heap α} (hw : HeapWF h) (a : α) : HeapWF (h.push a) := by
  intro i hi
  rw [Heap.get?_push] at hi
  simp only [Heap.size_push]
  by_cases e : h.size = i
  · omega
  · simp only [e, if_false] at hi
    have := hw i hi
    omega

theorem HeapWF.modify {α : Type} {h : Heap α} (hw : HeapWF h) (i : Nat) (f : α → α) : HeapWF (h.modify i f) := by
  intro j hj
  rw [Heap.get?_modify] at hj
  simp only [Heap.size_modify]
  by_cases e : i = j
  · subst e
    simp only [if_true, Option.isSome_map] at hj
    exact hw i hj
  · simp only [e, if_false] at hj
    exact hw j hj

/-- `t` holds an outcome -/
def Known (s : Store) (t : TId) : Prop := (s.getCell t).value ≠ none

theorem known_exists {s : Store} {t : TId} (h : Known s t) : (s.cells.get? t).isSome := by
  unfold Known Store.getCell at h
  rw [Heap.getD_eq] at h
  cases hg : s.cells.get? t with
  | none => rw [hg] at h; exact absurd rfl h
  | some c => rfl

theorem known_push {s : Store} {t : TId} (hw : HeapWF s.cells) (c : Cell) (h : Known s t) :
    Known { s with cells := s.cells.push c } t := by
  have hl := hw t (known_exists h)
  unfold Known Store.getCell at h ⊢
  rw [Heap.getD_eq] at h ⊢
  rw [Heap.get?_push]
  have e : ¬ s.cells.size = t := by omega
  simp only [e, if_false]; exact h

theorem known_setValue {s : Store} {t : TId} (a : TId) (v : Outcome) (h : Known s t) : Known (s.setValue a v) t := by
  unfold Known at h ⊢
  rw [C13.getCell_setValue]
  split
  · simp
  · exact h

theorem known_resolve (v : Outcome) : ∀ (fuel : Nat) (s : Store) (a t : TId), Known s t → Known (s.resolve fuel a v) t := by
  intro fuel s a t h
  unfold Known at h ⊢
  rcases C13.resolve_writes_only v fuel s a t with e | e
  · rw [e]; simp
  · rw [e]; exact h

theorem known_setRequestor {s : Store} {t : TId} (a : TId) (b : Option TId) (h : Known s t) :
    Known (setRequestor s a b) t := by
  unfold Known Store.getCell setRequestor at *
  rw [Heap.getD_eq] at h ⊢
  rw [Heap.get?_modify]
  by_cases e : a = t
  · subst e
    simp only [if_true]
    cases hg : s.cells.get? a with
    | none => rw [hg] at h; exact absurd rfl h
    | some c => rw [hg] at h; simpa using h
  · simp only [e, if_false]; exact h

theorem resolve_cells_size (v : Outcome) : ∀ (fuel : Nat) (s : Store) (a : TId),
    HeapWF s.cells → HeapWF (s.resolve fuel a v).cells := by
  intro fuel
  induction fuel with
  | zero => intro s a h; exact h
  | succ fuel ih =>
    intro s a h
    simp only [Store.resolve]
    have h1 : HeapWF (s.setValue a v).cells := h.modify _ _
    cases (s.getCell a).requestor with
    | none => exact h1
    | some r => exact ih _ r h1

/-- what a world operation does to the store: nothing, one more function object, or one more (unevaluated) cell -/
theorem doWorld_store (st : Store) (w : World) (op : WOp) :
    (doWorld st w op).1 = st ∨ (∃ f, (doWorld st w op).1 = { st with fns := st.fns.push f }) ∨
      (∃ c, (doWorld st w op).1 = { st with cells := st.cells.push c }) := by
  have loadPath : ∀ sp path, (doWorld.loadPath st w sp path).1 = st ∨
      (∃ c, (doWorld.loadPath st w sp path).1 = { st with cells := st.cells.push c }) := by
    intro sp path
    unfold doWorld.loadPath
    split
    · left; rfl
    · split
      · left; rfl
      · split
        · left; rfl
        · split
          · left; rfl
          · right; exact ⟨_, rfl⟩
          · left; rfl
          · left; rfl
  unfold doWorld
  cases op with
  | readLine sp => simp only []; split <;> (left; rfl)
  | print sp s => left; rfl
  | fopen sp p m =>
    simp only []
    split
    · split
      · left; rfl
      · split
        · right; left; exact ⟨_, rfl⟩
        · left; rfl
    · left; rfl
  | fclose sp f => simp only []; split <;> (try split) <;> (left; rfl)
  | fread sp f n => simp only []; split <;> (try split) <;> (left; rfl)
  | fwrite sp f b => simp only []; split <;> (try split) <;> (left; rfl)
  | ftell sp f => simp only []; split <;> (try split) <;> (left; rfl)
  | fseek sp f o wh => simp only []; split <;> (try split) <;> (left; rfl)
  | ftrunc sp f n => simp only []; split <;> (try split) <;> (left; rfl)
  | importLit sp lits =>
    simp only []
    split
    · split <;> (left; rfl)
    · split
      · left; rfl
      · left; rfl
      · rcases loadPath sp _ with h | h
        · left; exact h
        · right; right; exact h
  | importPath sp path =>
    simp only []
    split
    · left; rfl
    · split
      · left; rfl
      · rcases loadPath sp _ with h | h
        · left; exact h
        · right; right; exact h

/-- **evaluation never forgets**: every cell that held an outcome before still holds one afterwards (and the store
stays well-formed) — whatever is evaluated, in whatever order, with whatever result -/
theorem Eval.knowledge_grows {s w task h r s' w'} (hev : Eval s w task h r s' w') :
    HeapWF s.cells → HeapWF s'.cells ∧ ∀ t, Known s t → Known s' t := by
  induction hev with
  | ret s w h r => intro hw; exact ⟨hw, fun _ h => h⟩
  | throw s w h e => intro hw; exact ⟨hw, fun _ h => h⟩
  | forceOk _ _ ih => exact ih
  | forceErr _ _ ih => exact ih
  | forceEvalOk _ _ _ ih1 ih2 =>
    intro hw
    obtain ⟨h1, k1⟩ := ih1 hw
    obtain ⟨h2, k2⟩ := ih2 h1
    exact ⟨h2, fun t ht => k2 t (k1 t ht)⟩
  | forceEvalErr _ _ _ ih1 ih2 =>
    intro hw
    obtain ⟨h1, k1⟩ := ih1 hw
    obtain ⟨h2, k2⟩ := ih2 h1
    exact ⟨h2, fun t ht => k2 t (k1 t ht)⟩
  | @newThunk s w h e env k r s' w' _ ih =>
    intro hw
    obtain ⟨h1, k1⟩ := ih (hw.push _)
    exact ⟨h1, fun t ht => k1 t (known_push hw _ ht)⟩
  | newFn _ ih => intro hw; exact ih hw
  | getFn _ _ ih => exact ih
  | callOk _ _ ih1 ih2 =>
    intro hw
    obtain ⟨h1, k1⟩ := ih1 hw
    obtain ⟨h2, k2⟩ := ih2 h1
    exact ⟨h2, fun t ht => k2 t (k1 t ht)⟩
  | callErr _ _ ih1 ih2 =>
    intro hw
    obtain ⟨h1, k1⟩ := ih1 hw
    obtain ⟨h2, k2⟩ := ih2 h1
    exact ⟨h2, fun t ht => k2 t (k1 t ht)⟩
  | @worldOk s w h op k ke a s1 w1 r s' w' hd _ ih =>
    intro hw
    have hs : s1 = (doWorld s w op).1 := by rw [hd]
    have step : HeapWF s1.cells ∧ ∀ t, Known s t → Known s1 t := by
      rcases doWorld_store s w op with e | ⟨f, e⟩ | ⟨c, e⟩
      · rw [hs, e]; exact ⟨hw, fun _ h => h⟩
      · rw [hs, e]; exact ⟨hw, fun _ h => h⟩
      · rw [hs, e]; exact ⟨hw.push _, fun t ht => known_push hw _ ht⟩
    obtain ⟨h2, k2⟩ := ih step.1
    exact ⟨h2, fun t ht => k2 t (step.2 t ht)⟩
  | @worldErr s w h op k ke e s1 w1 r s' w' hd _ ih =>
    intro hw
    have hs : s1 = (doWorld s w op).1 := by rw [hd]
    have step : HeapWF s1.cells ∧ ∀ t, Known s t → Known s1 t := by
      rcases doWorld_store s w op with e | ⟨f, e⟩ | ⟨c, e⟩
      · rw [hs, e]; exact ⟨hw, fun _ h => h⟩
      · rw [hs, e]; exact ⟨hw, fun _ h => h⟩
      · rw [hs, e]; exact ⟨hw.push _, fun t ht => known_push hw _ ht⟩
    obtain ⟨h2, k2⟩ := ih step.1
    exact ⟨h2, fun t ht => k2 t (step.2 t ht)⟩
  | frameVal _ ih =>
    intro hw
    obtain ⟨h1, k1⟩ := ih hw
    exact ⟨resolve_cells_size _ _ _ _ h1, fun t ht => known_resolve _ _ _ _ t (k1 t ht)⟩
  | frameErr _ ih =>
    intro hw
    obtain ⟨h1, k1⟩ := ih hw
    exact ⟨resolve_cells_size _ _ _ _ h1, fun t ht => known_resolve _ _ _ _ t (k1 t ht)⟩
  | @frameTail s w h t t' lit s1 w1 r s' w' _ _ ih1 ih2 =>
    intro hw
    obtain ⟨h1, k1⟩ := ih1 hw
    have h1' : HeapWF (setRequestor s1 t' (some t)).cells := h1.modify _ _
    obtain ⟨h2, k2⟩ := ih2 h1'
    exact ⟨h2, fun u hu => k2 u (known_setRequestor _ _ (k1 u hu))⟩

theorem exists_push {α : Type} {h : Heap α} {u : Nat} (a : α) (hu : (h.get? u).isSome) : ((h.push a).get? u).isSome := by
  rw [Heap.get?_push]; split <;> simp_all

theorem exists_modify {α : Type} {h : Heap α} {u : Nat} (i : Nat) (f : α → α) (hu : (h.get? u).isSome) :
    ((h.modify i f).get? u).isSome := by
  rw [Heap.get?_modify]
  by_cases e : i = u
  · subst e; simpa using hu
  · simpa [e] using hu

theorem exists_resolve (v : Outcome) : ∀ (fuel : Nat) (s : Store) (a u : TId),
    (s.cells.get? u).isSome → ((s.resolve fuel a v).cells.get? u).isSome := by
  intro fuel
  induction fuel with
  | zero => intro s a u h; exact h
  | succ fuel ih =>
    intro s a u h
    simp only [Store.resolve]
    have h1 : ((s.setValue a v).cells.get? u).isSome := exists_modify _ _ h
    cases (s.getCell a).requestor with
    | none => exact h1
    | some r => exact ih _ r u h1

/-- evaluation only allocates: every cell that exists before exists afterwards -/
theorem Eval.cells_persist {s w task h r s' w'} (hev : Eval s w task h r s' w') :
    ∀ u, (s.cells.get? u).isSome → (s'.cells.get? u).isSome := by
  induction hev with
  | ret => intro _ h; exact h
  | throw => intro _ h; exact h
  | forceOk _ _ ih => exact ih
  | forceErr _ _ ih => exact ih
  | forceEvalOk _ _ _ ih1 ih2 => intro u hu; exact ih2 u (ih1 u hu)
  | forceEvalErr _ _ _ ih1 ih2 => intro u hu; exact ih2 u (ih1 u hu)
  | newThunk _ ih => intro u hu; exact ih u (exists_push _ hu)
  | newFn _ ih => exact ih
  | getFn _ _ ih => exact ih
  | callOk _ _ ih1 ih2 => intro u hu; exact ih2 u (ih1 u hu)
  | callErr _ _ ih1 ih2 => intro u hu; exact ih2 u (ih1 u hu)
  | @worldOk s w h op k ke a s1 w1 r s' w' hd _ ih =>
    intro u hu
    have hs : s1 = (doWorld s w op).1 := by rw [hd]
    refine ih u ?_
    rcases doWorld_store s w op with e | ⟨f, e⟩ | ⟨c, e⟩
    · rw [hs, e]; exact hu
    · rw [hs, e]; exact hu
    · rw [hs, e]; exact exists_push _ hu
  | @worldErr s w h op k ke e0 s1 w1 r s' w' hd _ ih =>
    intro u hu
    have hs : s1 = (doWorld s w op).1 := by rw [hd]
    refine ih u ?_
    rcases doWorld_store s w op with e | ⟨f, e⟩ | ⟨c, e⟩
    · rw [hs, e]; exact hu
    · rw [hs, e]; exact hu
    · rw [hs, e]; exact exists_push _ hu
  | frameVal _ ih => intro u hu; exact exists_resolve _ _ _ _ u (ih u hu)
  | frameErr _ ih => intro u hu; exact exists_resolve _ _ _ _ u (ih u hu)
  | frameTail _ _ ih1 ih2 => intro u hu; exact ih2 u (exists_modify _ _ (ih1 u hu))

/-- **a frame that ends with its own value leaves exactly that value in its cell** — every later demand is then
served from the cell (`Eval.forceOk`), in the same store and world -/
theorem frame_value_recorded {s w h t v s1 w1}
    (hc : Eval s w (.comp (newFrame s t).cur) h (.ok (.arg (.strict v))) s1 w1) (ht : (s.cells.get? t).isSome) :
    ((s1.resolve (s1.cells.size + 1) t (.ok v)).getCell t).value = some (.ok v) :=
  C13.resolve_sets_own _ _ _ _ (hc.cells_persist _ ht)

/-- … and a frame that ends with an exception leaves that exception: the failure is shared by all later users -/
theorem frame_failure_recorded {s w h t e s1 w1}
    (hc : Eval s w (.comp (newFrame s t).cur) h (.error e) s1 w1) (ht : (s.cells.get? t).isSome) :
    ((s1.resolve (s1.cells.size + 1) t (.error e)).getCell t).value = some (.error e) :=
  C13.resolve_sets_own _ _ _ _ (hc.cells_persist _ ht)

end UH.BigStep
