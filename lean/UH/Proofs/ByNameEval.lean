/-
The executable by-name evaluator `bnEval` only returns values of the reference semantics `BN`; hence (adequacy) what it
returns for a closed program is what the evaluator — and, when the height fits, the machine — computes.
-/
import UH.Proofs.ByName
namespace UH.ByName
open UH BigStep

theorem isLit_eq_tagOf (f : AST) : isLit f = tagOf f := by cases f <;> rfl

theorem isLit_some {f : AST} {n : Int} (h : isLit f = some n) : ∃ sp, f = .lit n sp := by
  cases f <;> simp [isLit] at h
  rename_i m sp; exact ⟨sp, by rw [h]⟩

theorem bnEval_sound : ∀ (fuel : Nat) (ρ : TEnv) (e : AST) (v : TVal), bnEval fuel ρ e = some v → BN ρ e v := by
  intro fuel
  induction fuel with
  | zero => intro ρ e v h; simp [bnEval] at h
  | succ fuel ih =>
    intro ρ e v h
    cases e with
    | lit n sp => simp only [bnEval, Option.some.injEq] at h; subst h; exact BN.lit
    | funDef b sp => simp only [bnEval, Option.some.injEq] at h; subst h; exact BN.funDef
    | funRef rel sp =>
      simp only [bnEval] at h
      split at h
      · rename_i b ρ' hidx; cases h; exact BN.funRef hidx
      · cases h
    | argRef a relF sp =>
      simp only [bnEval] at h
      split at h
      · cases h
      · rename_i frame hfr
        split at h
        · rename_i i hpos
          split at h
          · rename_i hi
            split at h
            · rename_i e' ρ' hx
              exact BN.argRef hfr (ih _ _ _ hpos) hi hx (ih _ _ _ h)
            · cases h
          · cases h
        · cases h
    | bomb => simp [bnEval] at h
    | call f args sp =>
      simp only [bnEval] at h
      split at h
      · rename_i n hl
        obtain ⟨spf, rfl⟩ := isLit_some hl
        split at h
        · rename_i hn
          split at h
          · cases h; exact BN.ctrue hn
          · cases h
        · split at h
          · rename_i hn
            split at h
            · cases h; exact BN.cfalse hn
            · cases h
          · split at h
            · rename_i hn
              split at h
              · rename_i a1 a2
                split at h
                · rename_i x y h1 h2; cases h; exact BN.eqInt hn (ih _ _ _ h1) (ih _ _ _ h2)
                · cases h
              · cases h
            · split at h
              · rename_i hn
                split at h
                · rename_i a1 a2
                  split at h
                  · rename_i x y h1 h2; cases h; exact BN.addInt hn (ih _ _ _ h1) (ih _ _ _ h2)
                  · cases h
                · cases h
              · split at h
                · rename_i hn
                  split at h
                  · rename_i a1 a2
                    split at h
                    · rename_i x y h1 h2; cases h; exact BN.mulInt hn (ih _ _ _ h1) (ih _ _ _ h2)
                    · cases h
                  · cases h
                · split at h
                  · rename_i hn
                    split at h
                    · rename_i a1 a2
                      split at h
                      · rename_i x y h1 h2; cases h; exact BN.ltInt hn (ih _ _ _ h1) (ih _ _ _ h2)
                      · cases h
                    · cases h
                  · split at h
                    · rename_i hn
                      split at h
                      · rename_i a1 a2
                        split at h
                        · rename_i x y h1 h2
                          split at h
                          · cases h
                          · rename_i hy; cases h; exact BN.remInt hn (ih _ _ _ h1) (ih _ _ _ h2) hy
                        · cases h
                      · cases h
                    · split at h
                      · rename_i hn; cases h; exact BN.mkList hn
                      · split at h
                        · rename_i hn
                          split at h
                          · rename_i a
                            split at h
                            · rename_i elems ha; cases h; exact BN.lenList hn (ih _ _ _ ha)
                            · cases h
                          · cases h
                        · cases h
      · rename_i hl
        have hf : tagOf f = none := by rw [← isLit_eq_tagOf]; exact hl
        split at h
        · rename_i b ρd hc
          exact BN.call hf (ih _ _ _ hc) (ih _ _ _ h)
        · rename_i bb hc
          split at h
          · rename_i x y; exact BN.sel hf (ih _ _ _ hc) (ih _ _ _ h)
          · cases h
        · rename_i elems hc
          split at h
          · rename_i a
            split at h
            · rename_i i ha
              split at h
              · rename_i e' ρ' hidx
                exact BN.index hf (ih _ _ _ hc) (ih _ _ _ ha) hidx (ih _ _ _ h)
              · cases h
            · cases h
          · cases h
        · cases h

/-- **the reference evaluator agrees with the evaluator**: an integer it returns for a closed program is the value the
call-by-need big-step semantics computes for that program from the initial store -/
theorem bnEval_program (fuel : Nat) (e : AST) (n : Int) (w : World) (h : bnEval fuel (.mk [] []) e = some (.int n)) :
    ∃ (hh : Nat) (s' : Store), Eval (alloc initStore e ⟨[], []⟩) w (.frame initStore.cells.size) hh
        (.ok (.arg (.strict (.int n)))) s' w :=
  adequacy_program e n w (bnEval_sound fuel _ _ _ h)

end UH.ByName
