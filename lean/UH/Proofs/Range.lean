/-
Divide-and-conquer bounded universal quantifier for kernel evaluation
(`decide +kernel` over linear recursion of depth > 70k overflows the kernel).
-/
namespace UH

/-- all `c ∈ [lo, lo + 2^k)` satisfy `p` -/
def allPow (p : Nat → Bool) : Nat → Nat → Bool
  | 0, lo => p lo
  | k+1, lo => allPow p k lo && allPow p k (lo + 2^k)

theorem allPow_sound (p : Nat → Bool) :
    ∀ k lo, allPow p k lo = true → ∀ c, lo ≤ c → c < lo + 2^k → p c = true := by
  intro k
  induction k with
  | zero =>
    intro lo h c h1 h2
    simp [allPow] at *
    have : c = lo := by omega
    subst this; exact h
  | succ k ih =>
    intro lo h c h1 h2
    simp [allPow] at h
    by_cases hc : c < lo + 2^k
    · exact ih lo h.1 c h1 hc
    · exact ih (lo + 2^k) h.2 c (by omega) (by rw [Nat.pow_succ] at h2; omega)

end UH
