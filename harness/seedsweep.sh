#!/bin/sh
# harness/seedsweep.sh [tier] [seeds…] — development aid: every check's case stream (Lean stage skipped, no evidence
# written) under several VERIF_SEED values on the current tree; prints only the summary / violation lines.
cd "$(dirname "$0")/.."
tier="${1:-quick}"; [ $# -gt 0 ] && shift
seeds="${*:-1 2 3 4 5}"
for s in $seeds; do
  for p in C01 C02 C03 C04 C05 C06 C07 C08 C09 C10 C11 C12 C13 C14 C15 C16 C17 C18 C19 C20; do
    out="$(VERIF_SEED=$s ./check $p --tier "$tier" --skip-lean 2>&1)"; rc=$?
    echo "$out" | grep -E "VIOLATION|$tier:" | cut -c1-220 | sed "s/^/seed=$s /"
    [ $rc -ne 0 ] && echo "seed=$s $p EXIT $rc"
  done
done
