"""Tie A translator: behavioural extraction of `pbhhg_py.parse.normalize` over all
1,114,112 code points -> run-length table (symbol codes, separators collapsed)."""
import sys, os
sys.path.insert(0, os.path.dirname(__file__))
from common import codes_of, rle

def extract(repo):
    sys.path.insert(0, repo)
    try:
        for m in [m for m in sys.modules if m == 'pbhhg_py' or m.startswith('pbhhg_py.')]:
            del sys.modules[m]
        import pbhhg_py.main                      # the interpreter's own entry point first: its import order is the one that must work
        from pbhhg_py import parse
        def fn(c):
            pieces = parse.normalize(chr(c))
            return codes_of("".join(pieces))
        return rle(fn, 0x110000)
    finally:
        sys.path.remove(repo)

def norm_table(repo):
    """code point -> codes, as a function (for monitors)"""
    runs = extract(repo)
    return runs
