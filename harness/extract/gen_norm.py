#!/venv/bin/python
"""Regenerates /verif/lean/UH/Generated/NormTable.lean from the repository's
current source (tie A).  Usage: gen_norm.py [repo]"""
import sys, os, json
sys.path.insert(0, os.path.dirname(__file__))
import norm_py, norm_ts
from common import runs_lean, write_if_changed

def main(repo, out_dir):
    py_runs = norm_py.extract(repo)
    ts_err = None
    try:
        ts_runs = norm_ts.extract(repo)
    except Exception as e:   # translation failed: emit an empty table, proof obligation will break
        ts_runs, ts_err = [], f"{type(e).__name__}: {e}"
    text = ("/- REGENERATED on every check run by harness/extract/gen_norm.py from the\n"
            "   repository's current source.  Do not edit. -/\n"
            "import UH.Model.Text\nnamespace UH.Generated\nopen UH\n\n"
            + runs_lean("implRuns", py_runs,
                        "`pbhhg_py.parse.normalize` evaluated on every code point 0…0x10FFFF, run-length encoded")
            + "\n\n"
            + runs_lean("tsRuns", ts_runs,
                        "`normalizeChar` of pbhhg_js/src/parse.ts translated from source, over all UTF-16 code units"
                        + (f" (TRANSLATION FAILED: {ts_err})" if ts_err else ""))
            + "\n\nend UH.Generated\n")
    changed = write_if_changed(os.path.join(out_dir, 'NormTable.lean'), text)
    return {"py_runs": len(py_runs), "ts_runs": len(ts_runs), "ts_error": ts_err, "changed": changed,
            "py": py_runs, "ts": ts_runs}

if __name__ == '__main__':
    repo = sys.argv[1] if len(sys.argv) > 1 else os.environ.get('UH_REPO', '/repo')
    r = main(repo, '/verif/lean/UH/Generated')
    print(json.dumps({k: v for k, v in r.items() if k not in ('py', 'ts')}))
