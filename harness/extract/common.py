"""Shared helpers for the tie-A translators: symbol codes, run-length encoding,
Lean emission. Symbol codes: 0-7 = ㄱㄴㄷㄹㅁㅂㅅㅈ, 8 = ㅇ, 9 = ㅎ, 10 = separator."""
import os
JAMO = "ㄱㄴㄷㄹㅁㅂㅅㅈㅇㅎ "

def codes_of(s):
    """string over the ten plain consonants and ' ' -> tuple of symbol codes with
    adjacent separators collapsed (sound: the tokenizer merges them)."""
    out = []
    for ch in s:
        k = JAMO.index(ch)          # ValueError on a foreign character
        if k == 10 and out and out[-1] == 10:
            continue
        out.append(k)
    return tuple(out)

def rle(fn, n):
    """runs (lo, hi, codes) of fn over range(n), omitting the default (10,)"""
    runs = []
    cur = None
    for c in range(n):
        v = fn(c)
        if cur is not None and cur[2] == v and cur[1] == c - 1:
            cur[1] = c
        else:
            if cur is not None and cur[2] != (10,):
                runs.append(tuple(cur))
            cur = [c, c, v]
    if cur is not None and cur[2] != (10,):
        runs.append(tuple(cur))
    return runs

def sym_lean(k):
    return f".d {k}" if k < 8 else {8: ".o", 9: ".h", 10: ".sp"}[k]

def runs_lean(name, runs, doc):
    lines = [f"/-- {doc} -/", f"def {name} : List Run := ["]
    lines.append(",\n".join(
        f"  ⟨0x{lo:X}, 0x{hi:X}, [{', '.join(sym_lean(k) for k in syms)}]⟩" for lo, hi, syms in runs))
    lines.append("]")
    return "\n".join(lines)

def write_if_changed(path, text):
    try:
        if open(path, encoding='utf-8').read() == text:
            return False
    except FileNotFoundError:
        pass
    tmp = path + ".tmp%d" % os.getpid()
    open(tmp, 'w', encoding='utf-8').write(text)
    os.replace(tmp, path)
    return True
