"""Tie A translator: source-level translation of `pbhhg_js/src/parse.ts`
(`normalizeChar`: four tables + the if-chain over UTF-16 code units) into a
run-length table over the 65,536 code units.  No TypeScript tool chain exists in
the sandbox, so the translation is textual; every construct it does not
recognise raises TranslationError (never silently skipped)."""
import re, sys, os
sys.path.insert(0, os.path.dirname(__file__))
from common import codes_of, rle

class TranslationError(Exception):
    pass

def _unescape(s):
    return re.sub(r'\\u([0-9A-Fa-f]{4})', lambda m: chr(int(m.group(1), 16)), s)

def _tables(src):
    tables = {}
    for m in re.finditer(r"const\s+(\w+)\s*=\s*\(\s*((?:'[^']*'\s*\+?\s*)+)\)\s*\.split\('\|'\)", src):
        lits = re.findall(r"'([^']*)'", m.group(2))
        tables[m.group(1)] = "".join(lits).split("|")
    return tables

def translate(src):
    tables = _tables(src)
    m = re.search(r"function normalizeChar\(c: string\)\s*\{(.*?)\n\}\n", src, re.S)
    if not m:
        raise TranslationError("normalizeChar not found")
    body = m.group(1)
    # _get helper must be the known one
    g = re.search(r"function _get\(arr: string\[\], ref: string, divisor = 1\)\s*\{(.*?)\n  \}", body, re.S)
    if not g:
        raise TranslationError("_get helper not recognised")
    gb = re.sub(r"\s+", " ", g.group(1)).strip()
    expect = ("let idx = c.charCodeAt(0) - ref.charCodeAt(0) idx = Math.floor(idx / divisor) "
              "if (idx >= 0 && idx < arr.length) { return arr[idx] } return ''")
    if gb != expect:
        raise TranslationError("_get body changed: " + gb)
    chain = body[g.end():]
    # tokenise the if / else-if chain
    pos = 0
    clauses = []
    pat = re.compile(r"\s*(?:\}\s*else\s+)?if\s*\((.*?)\)\s*\{\s*return\s+(.*?)\s*\n", re.S)
    while True:
        mm = pat.match(chain, pos)
        if not mm:
            break
        clauses.append((mm.group(1).strip(), mm.group(2).strip()))
        pos = mm.end()
    tail = re.sub(r"\s+", " ", chain[pos:]).strip()
    if tail != "} else return ' '":
        raise TranslationError("unrecognised tail of if-chain: " + tail[:80])
    if not clauses:
        raise TranslationError("no clauses")
    compiled = []
    for cond, ret in clauses:
        mr = re.fullmatch(r"c >= '(\\u[0-9A-Fa-f]{4})' && c <= '(\\u[0-9A-Fa-f]{4})'", cond)
        mi = re.fullmatch(r"'([^']*)'\.indexOf\(c\) >= 0", cond)
        if mr:
            lo, hi = ord(_unescape(mr.group(1))), ord(_unescape(mr.group(2)))
            test = (lambda lo, hi: lambda u: lo <= u <= hi)(lo, hi)
        elif mi:
            chars = set(ord(ch) for ch in mi.group(1))
            test = (lambda chars: lambda u: u in chars)(chars)
        elif cond.startswith("c.length"):
            continue  # the length guard (throws); single code units only
        else:
            raise TranslationError("unrecognised condition: " + cond)
        mg = re.fullmatch(r"_get\((\w+), '(\\u[0-9A-Fa-f]{4})'(?:, (\d+))?\)", ret)
        if mg:
            if mg.group(1) not in tables:
                raise TranslationError("unknown table " + mg.group(1))
            arr, ref, div = tables[mg.group(1)], ord(_unescape(mg.group(2))), int(mg.group(3) or 1)
            val = (lambda arr, ref, div: lambda u: arr[(u - ref) // div] if 0 <= (u - ref) // div < len(arr) else '')(arr, ref, div)
        elif ret == "''":
            val = lambda u: ''
        elif ret == "' '":
            val = lambda u: ' '
        else:
            raise TranslationError("unrecognised return: " + ret)
        compiled.append((test, val))
    def norm(u):
        for test, val in compiled:
            if test(u):
                return val(u)
        return ' '
    return norm

def extract(repo):
    src = open(os.path.join(repo, 'pbhhg_js/src/parse.ts'), encoding='utf-8').read()
    norm = translate(src)
    return rle(lambda u: codes_of(norm(u)), 0x10000)
