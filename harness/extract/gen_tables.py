#!/venv/bin/python
"""Tie A translator for the finite tables other than normalisation: built-in names,
error class codes, file modes / commands / whence names, codec schemes, built-in module
directory, MAX_STACK_SIZE.  Introspects the imported implementation; writes
UH/Generated/Tables.lean."""
import sys, os, ast, inspect, json
sys.path.insert(0, os.path.dirname(__file__))
from common import write_if_changed

JAMO = "ㄱㄴㄷㄹㅁㅂㅅㅈ"

def digits(name):
    return "[" + ", ".join(str(JAMO.index(c)) for c in name) + "]"

def dict_keys_in_source(fn, which):
    """string keys of dict literals inside a function's source (in order of appearance)"""
    src = inspect.getsource(fn)
    tree = ast.parse("if 1:\n" + "\n".join("    " + l for l in src.splitlines())) if src.startswith(' ') else ast.parse(src)
    out = []
    for node in ast.walk(tree):
        if isinstance(node, ast.Dict):
            keys = [k.value for k in node.keys if isinstance(k, ast.Constant) and isinstance(k.value, str)]
            if keys:
                out.append(keys)
    return out

def main(repo, out_dir):
    sys.path.insert(0, repo)
    try:
        for m in [m for m in sys.modules if m == 'pbhhg_py' or m.startswith('pbhhg_py.')]:
            del sys.modules[m]
        import pbhhg_py.main                      # the interpreter's own entry point first: its import order is the one that must work
        from pbhhg_py import interpret, error, parse, abstract_syntax as AS
        from pbhhg_py.builtins import io as uio, module as umod
        from pbhhg_py.modules import byte
        names = list(interpret.BUITLINS.keys())
        modes = list(uio._MODE_TABLE.items())
        # error classes: instantiate each with a dummy location, read the codes
        md = AS.Metadata('<x>', 0, 0, 1, '')
        classes = []
        for cname in ['OSError', 'ArithmeticError', 'SyntaxError', 'TypeError', 'ValueError', 'DivisionError',
                      'NotFoundError', 'ImportError', 'OutOfRangeError', 'KeyboardInterruptError']:
            cls = getattr(error, 'UnsuspectedHangeul' + cname)
            e = cls(md, 'm', 7) if cname == 'OSError' else cls(md, 'm')
            classes.append((cname, [v.value for v in e.err.value]))
        cmd_keys = dict_keys_in_source(uio.File.__call__, 'cmd')
        whence_keys = dict_keys_in_source(uio.File._seek_or_tell, 'whence')
        # built-in module directory: paths of functions
        def walk(mapping, path):
            out = []
            for k, v in mapping.items():
                if isinstance(v, AS.Dict):
                    out += walk(v.mapping, path + [k])
                elif isinstance(v, AS.Function):
                    out.append((path + [k], 'fn'))
                else:
                    out.append((path + [k], 'const'))
            return out
        bmods = walk(umod._BUITLIN_MODULE_REGISTRY, [])
        # MAX_STACK_SIZE from the source of evaluate
        max_stack = None
        for node in ast.walk(ast.parse(inspect.getsource(interpret.evaluate))):
            if isinstance(node, ast.Assign) and getattr(node.targets[0], 'id', '') == 'MAX_STACK_SIZE':
                max_stack = node.value.value
        lines = ["/- REGENERATED on every check run by harness/extract/gen_tables.py from the",
                 "   repository's current source.  Do not edit. -/",
                 "import UH.Model.Number", "namespace UH.Generated", "open UH", "",
                 "/-- keys of `interpret.BUITLINS` as digit words -/",
                 "def builtinNames : List (List Digit) := [" + ", ".join(digits(n) for n in names) + "]", "",
                 "/-- keys of `io._MODE_TABLE` with the host open mode -/",
                 "def fileModes : List (List Digit × String) := [" +
                 ", ".join(f'({digits(k)}, "{v}")' for k, v in modes) + "]", "",
                 "/-- command names recognised by `File.__call__` -/",
                 "def fileCommands : List (List Digit) := [" + ", ".join(digits(k) for k in (cmd_keys[0] if cmd_keys else [])) + "]", "",
                 "/-- whence names recognised by `File._seek_or_tell` -/",
                 "def whenceNames : List (List Digit) := [" + ", ".join(digits(k) for k in (whence_keys[0] if whence_keys else [])) + "]", "",
                 "/-- the contents every `error.py` class gives its exception (OSError built with errno 7) -/",
                 "def errorCodes : List (String × List Int) := [" +
                 ", ".join(f'("{c}", [{", ".join(str(x) for x in codes)}])' for c, codes in classes) + "]", "",
                 "/-- `Codec.CODEC_TBL` -/",
                 "def codecSchemes : List String := [" + ", ".join(f'"{s}"' for s in byte.Codec.CODEC_TBL) + "]", "",
                 "/-- paths (literal values) of the built-in module registry's function entries -/",
                 "def bmodFunctionPaths : List (List Int) := [" +
                 ", ".join("[" + ", ".join(str(k) for k in p) + "]" for p, kind in bmods if kind == 'fn') + "]", "",
                 "def bmodConstantPaths : List (List Int) := [" +
                 ", ".join("[" + ", ".join(str(k) for k in p) + "]" for p, kind in bmods if kind == 'const') + "]", "",
                 f"def maxStackSize : Nat := {max_stack if max_stack is not None else 0}", "",
                 "end UH.Generated", ""]
        changed = write_if_changed(os.path.join(out_dir, 'Tables.lean'), "\n".join(lines))
        return {"builtins": len(names), "modes": len(modes), "classes": len(classes), "bmods": len(bmods),
                "max_stack": max_stack, "changed": changed}
    finally:
        sys.path.remove(repo)

if __name__ == '__main__':
    repo = sys.argv[1] if len(sys.argv) > 1 else os.environ.get('UH_REPO', '/repo')
    print(json.dumps(main(repo, '/verif/lean/UH/Generated')))
