#!/venv/bin/python
"""DEV-TIME generator: partition of [0, 0x10000) into cells on which both the
run table and the specification map are constant (boundaries of runs, letters,
Hangul ranges and syllable blocks).  Lean checks the partition with a verified
checker (UH/Proofs/SpecRuns.lean); nothing here is trusted."""
import sys, os
sys.path.insert(0, os.path.dirname(__file__))
import spec_runs
N = 0x10000
cells = []
cur = None
for c in range(N):
    key = (spec_runs.spec_norm(c), c in spec_runs.LETTERS,
           (c - 0xAC00) // 588 if 0xAC00 <= c <= 0xD7A3 else -1,
           tuple(lo <= c <= hi for lo, hi in spec_runs.HANGUL_RANGES))
    if cur and cur[2] == key and not key[1]:
        cur[1] = c
    else:
        if cur: cells.append((cur[0], cur[1]))
        cur = [c, c, key]
cells.append((cur[0], cur[1]))
body = ",\n  ".join(f"(0x{a:X}, 0x{b:X})" for a, b in cells)
open('/verif/lean/UH/Spec/SpecCells.lean', 'w').write(
    "/- GENERATED ONCE by harness/extract/spec_cells.py (committed; checked, not trusted). -/\n"
    "namespace UH.Spec\n\n/-- a partition of [0, 0x10000) into intervals of constancy -/\n"
    f"def specCells : List (Nat × Nat) := [\n  {body}\n]\n\nend UH.Spec\n")
print(len(cells), 'cells')
