#!/venv/bin/python
"""DEV-TIME generator: run-length form of the specification map `specNorm`
(UH/Spec/Hangul.lean), from harness/data/spec_letters.json.  Committed; Lean
proves `specRuns_correct : ∀ c, lookupRuns specRuns c = specNorm c`."""
import json, sys, os
sys.path.insert(0, os.path.dirname(__file__))
from common import codes_of, rle, runs_lean

D = json.load(open('/verif/harness/data/spec_letters.json'))
LETTERS = {c: ps for c, ps in D['letters']}
PLAIN = D['plain']
HANGUL_RANGES = [(0x1100, 0x11FF), (0x302E, 0x302F), (0x3131, 0x318E), (0xA960, 0xA97C),
                 (0xAC00, 0xD7A3), (0xD7B0, 0xD7C6), (0xD7CB, 0xD7FB), (0xFFA1, 0xFFBE),
                 (0xFFC2, 0xFFC7), (0xFFCA, 0xFFCF), (0xFFD2, 0xFFD7), (0xFFDA, 0xFFDC)]

def spec_norm(c):
    """The specification's per-code-point map, as symbol codes."""
    if 0xAC00 <= c <= 0xD7A3:
        c = 0x1100 + (c - 0xAC00) // 588
    if c in LETTERS:
        return codes_of("".join(PLAIN[p] for p in LETTERS[c]))
    if any(lo <= c <= hi for lo, hi in HANGUL_RANGES):
        return ()
    return (10,)

if __name__ == '__main__':
    runs = rle(spec_norm, 0x110000)
    text = ("/- GENERATED ONCE by harness/extract/spec_runs.py (committed). -/\n"
            "import UH.Model.Text\nnamespace UH.Spec\nopen UH\n\n"
            + runs_lean("specRuns", runs, "run-length form of `specNorm` (proved equal to it in UH/Proofs/SpecRuns.lean)")
            + "\n\nend UH.Spec\n")
    open('/verif/lean/UH/Spec/SpecRuns.lean', 'w').write(text)
    print(len(runs), 'runs')
