"""Lean stage of a check: regenerate tables from the source (tie A), build the property
module and the model driver, audit axioms and forbidden constructs."""
import os, re, subprocess, sys, json, fcntl, time, glob
from .common import VERIF, LEAN_DIR, REPO

ALLOWED_AXIOMS = {'propext', 'Classical.choice', 'Quot.sound'}
FORBIDDEN = re.compile(r'\b(sorry|admit|native_decide|bv_decide|implemented_by|unsafe)\b|^\s*axiom\s|maxHeartbeats\s+0')


def regenerate():
    """tie A: rewrite UH/Generated/*.lean from the repository's current source"""
    sys.path.insert(0, os.path.join(VERIF, 'harness', 'extract'))
    import gen_norm, gen_tables
    info = {}
    info['norm'] = {k: v for k, v in gen_norm.main(REPO, os.path.join(LEAN_DIR, 'UH', 'Generated')).items()
                    if k not in ('py', 'ts')}
    info['tables'] = gen_tables.main(REPO, os.path.join(LEAN_DIR, 'UH', 'Generated'))
    return info


def strip_comments(src: str) -> str:
    src = re.sub(r'/-.*?-/', '', src, flags=re.S)
    return re.sub(r'--.*', '', src)


def theorem_names(path, namespace_hint=None):
    src = strip_comments(open(path, encoding='utf-8').read())
    ns = []
    names = []
    for line in src.splitlines():
        m = re.match(r'\s*namespace\s+([\w.]+)', line)
        if m:
            ns.append(m.group(1)); continue
        m = re.match(r'\s*end\s+([\w.]+)\s*$', line)
        if m and ns and ns[-1].split('.')[-1] == m.group(1).split('.')[-1]:
            ns.pop(); continue
        m = re.match(r'\s*(?:@\[[^\]]*\]\s*)?(?:private\s+|protected\s+)?theorem\s+([\w.\'?!]+)', line)
        if m:
            names.append(".".join(ns + [m.group(1)]))
    return names


def forbidden_hits():
    hits = []
    for p in glob.glob(os.path.join(LEAN_DIR, '**', '*.lean'), recursive=True):
        if '/.lake/' in p:
            continue
        src = strip_comments(open(p, encoding='utf-8').read())
        for i, line in enumerate(src.splitlines(), 1):
            if FORBIDDEN.search(line):
                hits.append(f"{os.path.relpath(p, LEAN_DIR)}:{i}: {line.strip()[:120]}")
    return hits


def lake(args, timeout=1800):
    lock = open(os.path.join(LEAN_DIR, '.check.lock'), 'w')
    fcntl.flock(lock, fcntl.LOCK_EX)
    try:
        p = subprocess.run(['lake'] + args, cwd=LEAN_DIR, capture_output=True, text=True, timeout=timeout)
        return p.returncode, (p.stdout + p.stderr)
    finally:
        fcntl.flock(lock, fcntl.LOCK_UN)
        lock.close()


def build(modules):
    """returns (ok, log, failed_theorem_hints)"""
    rc, log = lake(['build'] + modules + ['uhdrv'])
    failed = []
    if rc != 0:
        for m in re.finditer(r'error: (UH/[\w/]+\.lean):(\d+):\d+: (.*)', log):
            failed.append({'file': m.group(1), 'line': int(m.group(2)), 'msg': m.group(3)[:200]})
    return rc == 0, log, failed


def recheck(modules, timeout=1800):
    """thorough tier: replay the compiled modules through `leanchecker`, the toolchain's independent re-checker of
    .olean files (kernel re-check of every declaration, without the elaborator). Returns (ok, log)."""
    rc, log = lake(['env', 'leanchecker'] + modules, timeout=timeout)
    return rc == 0, log


def theorem_at(file_rel, line_no):
    """name of the theorem enclosing a source line (for naming a broken obligation)"""
    try:
        lines = open(os.path.join(LEAN_DIR, file_rel), encoding='utf-8').read().splitlines()
    except OSError:
        return None
    for i in range(min(line_no, len(lines)) - 1, -1, -1):
        m = re.match(r'\s*(?:private\s+)?theorem\s+([\w.\'?!]+)', lines[i])
        if m:
            return m.group(1)
    return None


def audit(prop_files):
    """#print axioms for every theorem of the given property files"""
    names = []
    imports = []
    for f in prop_files:
        names += theorem_names(os.path.join(LEAN_DIR, f))
        imports.append("import " + f[:-5].replace('/', '.'))
    src = "\n".join(imports) + "\n" + "\n".join(f"#print axioms {n}" for n in names) + "\n"
    path = os.path.join(LEAN_DIR, '.lake', f'audit_{os.getpid()}.lean')
    open(path, 'w').write(src)
    try:
        rc, log = lake(['env', 'lean', path])
    finally:
        try: os.unlink(path)
        except OSError: pass
    result = {}
    for m in re.finditer(r"'([\w.\']+)' (does not depend on any axioms|depends on axioms: \[([^\]]*)\])", log):
        axs = [a.strip() for a in (m.group(3) or '').split(',') if a.strip()]
        result[m.group(1)] = axs
    bad = {n: a for n, a in result.items() if not set(a) <= ALLOWED_AXIOMS}
    missing = [n for n in names if n not in result]
    return {'theorems': names, 'axioms': result, 'bad': bad, 'missing': missing, 'rc': rc,
            'log': log[-2000:] if (rc != 0 or missing) else ''}
