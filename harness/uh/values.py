"""Value descriptions: each describes one value of the language and knows (a) a program expression
that evaluates to it, (b) its specification-level meaning for the monitors (equality, printing)."""
import math, struct
from fractions import Fraction
from . import gen
from .gen import lit, bi, raw, call, fundef, arg, str_lit, bytes_lit


class V:
    def __init__(self, kind, payload, expr):
        self.kind, self.payload, self.expr = kind, payload, expr

    def __repr__(self):
        return f"V({self.kind},{self.payload!r})"


def float_expr(x: float):
    """an expression evaluating to exactly the double x (finite), built from its exact dyadic value"""
    if x == 0:
        return bi('ㄱ', bi('ㅅㅅ', lit(0)), lit(-1)) if math.copysign(1, x) < 0 else bi('ㅅㅅ', lit(0))
    m, e = math.frexp(x)
    mi = int(m * 2 ** 53)
    ee = e - 53
    while mi % 2 == 0:
        mi //= 2
        ee += 1
    # mi * 2^ee exactly:  float(mi) * 2.0**ee  (both exact; product exact as x is representable)
    if ee >= 0:
        return bi('ㅅㅅ', lit(mi * 2 ** ee)) if mi * 2 ** ee < 2 ** 1023 else bi('ㄱ', bi('ㅅㅅ', lit(mi)), bi('ㅅㅅ', lit(2 ** ee)))
    if ee >= -1000:
        return bi('ㄱ', bi('ㅅㅅ', lit(mi)), bi('ㅅ', bi('ㅅㅅ', lit(2)), lit(ee)))
    return bi('ㄱ', bi('ㄱ', bi('ㅅㅅ', lit(mi)), bi('ㅅ', bi('ㅅㅅ', lit(2)), lit(-1000))), bi('ㅅ', bi('ㅅㅅ', lit(2)), lit(ee + 1000)))


def vint(n): return V('int', n, lit(n))
def vfloat(x): return V('float', x, float_expr(x))
def vcomplex(re, im): return V('complex', (re, im), bi('ㅂㅅ', float_expr(re), float_expr(im)))
def vbool(b): return V('bool', b, gen.BOOL_T if b else gen.BOOL_F)
def vstr(s): return V('str', s, str_lit(s))
def vbytes(b): return V('bytes', b, bytes_lit(b))
def vnil(): return V('nil', None, gen.NIL)
def vlist(xs): return V('list', xs, bi('ㅁㄹ', *[x.expr for x in xs]))
def vexc(xs): return V('exc', xs, bi('ㄷㅂ', *[x.expr for x in xs]))
def vdict(kvs):
    flat = []
    for k, v in kvs:
        flat += [k.expr, v.expr]
    return V('dict', kvs, bi('ㅅㅈ', *flat))
def vio(x): return V('io', x, bi('ㄱㅅ', x.expr))


def num_value(v):
    """exact value of a number as (re, im) of Fractions / floats inf"""
    if v.kind == 'int': return (Fraction(v.payload), Fraction(0))
    if v.kind == 'float': return (Fraction(v.payload) if math.isfinite(v.payload) else v.payload, Fraction(0))
    re, im = v.payload
    return (Fraction(re) if math.isfinite(re) else re, Fraction(im) if math.isfinite(im) else im)


def spec_eq(a: V, b: V) -> bool:
    """the equality of the specification (property C06)"""
    num = ('int', 'float', 'complex')
    if a.kind in num and b.kind in num:
        return num_value(a) == num_value(b)
    if a.kind != b.kind:
        return False
    if a.kind in ('bool', 'str', 'bytes', 'nil'):
        return a.payload == b.payload
    if a.kind in ('list', 'exc'):
        return len(a.payload) == len(b.payload) and all(spec_eq(x, y) for x, y in zip(a.payload, b.payload))
    if a.kind == 'io':
        return spec_eq(a.payload, b.payload)
    if a.kind == 'dict':
        da, db = dict_entries(a), dict_entries(b)
        if len(da) != len(db):
            return False
        return all(any(spec_eq(k1, k2) and spec_eq(v1, v2) for k2, v2 in db) for k1, v1 in da)
    raise ValueError(a.kind)


def dict_entries(d: V):
    """entries of a dictionary value after 'a later equal key replaces the earlier entry'"""
    out = []
    for k, v in d.payload:
        for i, (k0, _) in enumerate(out):
            if spec_eq(k0, k):
                out[i] = (k, v)
                break
        else:
            out.append((k, v))
    return out


def py_float_repr(x): return repr(x)


def spec_format(v: V) -> str:
    """the printed form the documentation promises (used by C18)"""
    k = v.kind
    if k == 'int': return str(v.payload)
    if k == 'float': return repr(v.payload)
    if k == 'bool': return 'True' if v.payload else 'False'
    if k == 'str': return "'" + v.payload + "'"
    if k == 'bytes': return "b'" + "".join("\\x%02X" % c for c in v.payload) + "'"
    if k == 'nil': return 'Nil'
    if k == 'list': return "[" + ", ".join(spec_format(x) for x in v.payload) + "]"
    if k == 'exc': return "<예외: [" + ", ".join(spec_format(x) for x in v.payload) + "]>"
    if k == 'dict':
        pairs = sorted(((spec_format(a), spec_format(b)) for a, b in dict_entries(v)), key=lambda p: p[0])
        return "{" + ", ".join(f"{a}: {b}" for a, b in pairs) + "}"
    if k == 'io': return "IO(" + spec_format(v.payload) + ")"
    raise ValueError(k)


ADVERSARIAL_INTS = [0, 1, -1, -2, 2, 7, 2 ** 61 - 1, 2 ** 61 - 2, -(2 ** 61 - 1), 2 * (2 ** 61 - 1), 2 ** 61, 2 ** 60, 2 ** 53, 2 ** 53 + 1,
                    2 ** 53 - 1, 2 ** 63, 2 ** 64, -2 ** 63, 10 ** 30, 3 + (2 ** 61 - 1), 255, 256]
ADVERSARIAL_FLOATS = [0.0, -0.0, 0.5, 1.0, -1.0, 2.0, 2.0 ** 60, 2.0 ** 53, 2.0 ** 53 + 2, float(2 ** 61 - 1), 1.5, 0.1, 1e300, 2.0 ** 61,
                      -2.0, 3.0, 255.0, 1e-300, 5e-324, float(10 ** 30)]


def rand_value(rng, depth=0, kinds=None):
    kinds = kinds or ['int', 'int', 'float', 'complex', 'bool', 'str', 'bytes', 'nil', 'list', 'dict', 'exc', 'io']
    k = rng.choice(kinds if depth < 3 else [x for x in kinds if x not in ('list', 'dict', 'exc', 'io')] or ['int'])
    if k == 'int': return vint(rng.choice(ADVERSARIAL_INTS) if rng.random() < 0.7 else rng.randint(-5, 5))
    if k == 'float': return vfloat(rng.choice(ADVERSARIAL_FLOATS))
    if k == 'complex':
        return vcomplex(rng.choice([0.0, 1.0, -1.0, 0.5, 2.0 ** 60, 2.0]), rng.choice([0.0, 0.0, 1.0, -2.0, 0.5]))
    if k == 'bool': return vbool(rng.random() < 0.5)
    # (strings are sequences of code points: canonically equivalent but different spellings are different strings)
    if k == 'str': return vstr(rng.choice(["", "a", "ab", "0", "1", "가", "😀", "True", "Nil", "\u1100\u1161", "\u00e9", "e\u0301", "\u212b", "\u00c5",
                                           "A\u030a", "\uf900", "\u8c48", " ", "a ", "A"]))
    if k == 'bytes': return vbytes(rng.choice([b"", b"a", b"ab", b"\x00", b"0"]))
    if k == 'nil': return vnil()
    if k == 'list': return vlist([rand_value(rng, depth + 1, kinds) for _ in range(rng.randint(0, 3))])
    if k == 'exc': return vexc([rand_value(rng, depth + 1, kinds) for _ in range(rng.randint(0, 2))])
    if k == 'io': return vio(rand_value(rng, depth + 1, [x for x in kinds if x != 'io']))
    if k == 'dict':
        return vdict([(rand_value(rng, depth + 1, ['int', 'float', 'str', 'bool', 'nil', 'bytes', 'list']), rand_value(rng, depth + 1, kinds))
                      for _ in range(rng.randint(0, 3))])
    raise ValueError(k)
