"""Re-spelling of program texts: same consonant skeleton, different surface."""
import json, os, random, unicodedata
from .common import VERIF

_D = json.load(open(os.path.join(VERIF, 'harness', 'data', 'spec_letters.json'), encoding='utf-8'))
PLAIN = _D['plain']
LETTERS = {c: ps for c, ps in _D['letters']}
HANGUL_RANGES = [(0x1100, 0x11FF), (0x302E, 0x302F), (0x3131, 0x318E), (0xA960, 0xA97C),
                 (0xAC00, 0xD7A3), (0xD7B0, 0xD7C6), (0xD7CB, 0xD7FB), (0xFFA1, 0xFFBE),
                 (0xFFC2, 0xFFC7), (0xFFCA, 0xFFCF), (0xFFD2, 0xFFD7), (0xFFDA, 0xFFDC)]


def spec_norm(c: int) -> str:
    """the specification's normalisation of one code point (independent of the implementation)"""
    if 0xAC00 <= c <= 0xD7A3:
        c = 0x1100 + (c - 0xAC00) // 588
    if c in LETTERS:
        return "".join(PLAIN[p] for p in LETTERS[c])
    if any(lo <= c <= hi for lo, hi in HANGUL_RANGES):
        return ""
    return " "


def skeleton(text: str):
    """words of a text under the specification"""
    s = "".join(spec_norm(ord(ch)) for ch in text.replace("\n", " "))
    return s.split()


# single letters that normalise to exactly one plain consonant (no separator), per consonant
_BY_PLAIN = {}
for c, ps in LETTERS.items():
    s = "".join(PLAIN[p] for p in ps)
    _BY_PLAIN.setdefault(s, []).append(c)
_DELETED = [0x1161, 0x1175, 0x11A8, 0x11F9, 0x302E, 0x302F, 0x314F, 0x3163, 0x3164, 0x318E, 0x115F, 0x1160,
            0xD7B0, 0xD7CB, 0xFFC2, 0xFFDC, 0xA97C + 0]  # vowels, finals, tone marks, fillers
_DELETED = [c for c in _DELETED if spec_norm(c) == ""]
_SEPS = list(" \t,.;:!?()[]{}<>|/\\'\"-_=+*&^%$#@~`0123456789abcXYZéßж中あ😀 ​ﾠ힤")
_INITIAL = {"ㄱ": [0, 1, 15], "ㄴ": [2], "ㄷ": [3, 4, 16], "ㄹ": [5], "ㅁ": [6], "ㅂ": [7, 8, 17],
            "ㅅ": [9, 10], "ㅈ": [12, 13, 14]}      # syllable-initial indices of plain / tense / aspirated


def respell(text: str, rng: random.Random) -> str:
    """a text with the same skeleton: consonants swapped for same-consonant letters of other blocks,
    tense / aspirated / archaic variants or syllables; deleted characters and separators inserted;
    optionally NFC/NFD-recomposed"""
    out = []
    for ch in text:
        c = ord(ch)
        s = spec_norm(c)
        if ch == "\n":
            out.append(ch)
            continue
        if s == " ":
            k = rng.random()
            out.append(ch if k < 0.6 else rng.choice(_SEPS) + (rng.choice(_SEPS) if k > 0.9 else ""))
        elif s == "":
            out.append(ch)
        elif s in _BY_PLAIN and len(s) == 1:
            k = rng.random()
            if k < 0.35:
                out.append(ch)
            elif k < 0.7:
                out.append(chr(rng.choice(_BY_PLAIN[s])))
            else:   # a syllable with that initial and a random vowel / final
                li = rng.choice(_INITIAL[s])
                out.append(chr(0xAC00 + li * 588 + rng.randrange(21) * 28 + rng.randrange(28)))
        elif s in (" ㅇ", " ㅎ"):
            k = rng.random()
            if k < 0.4:
                out.append(ch)
            elif k < 0.7:
                out.append(chr(rng.choice(_BY_PLAIN[s])))
            else:
                li = 11 if s == " ㅇ" else 18
                out.append(chr(0xAC00 + li * 588 + rng.randrange(21) * 28 + rng.randrange(28)))
        else:
            out.append(ch)
        if rng.random() < 0.08:
            out.append(chr(rng.choice(_DELETED)))
    t = "".join(out)
    k = rng.random()
    if k < 0.15:
        t = unicodedata.normalize("NFD", t)
    elif k < 0.3:
        t = unicodedata.normalize("NFC", t)
    return t
