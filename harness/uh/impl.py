"""Runs the real implementation in-process and canonicalises what it did.

Outcome dictionary (same shape as model.py produces):
  kind: 'ok' | 'err' | 'limit' | 'crash' | 'timeout'
  results: [str]            (kind ok)        the strings main.main returns
  err: str, spans: [(line, c0, c1)]  (kind err)  formatted exception value + locations
  crash: 'Type: site'       (kind crash)     host exception that escaped
  out: str                  everything written to sys.stdout
  rest: str                 unread standard input
  fs: {path: bytes}         regular files under the scratch directory afterwards
"""
import gc, io, os, sys, signal, shutil, tempfile, traceback
from .common import REPO

if REPO not in sys.path:
    sys.path.insert(0, REPO)

from pbhhg_py import abstract_syntax as AS      # noqa: E402
from pbhhg_py import interpret, main as M, parse, cli  # noqa: E402
from pbhhg_py.builtins import module as module_mod     # noqa: E402


class _KeepOpen(io.BytesIO):
    def close(self):
        pass


class CaseTimeout(Exception):
    pass


def _alarm(signum, frame):
    raise CaseTimeout()


def crash_site(exc: BaseException) -> str:
    """`Type: file: function` of the innermost repository frame (stable across line moves)."""
    tb = traceback.extract_tb(exc.__traceback__)
    if isinstance(exc, RecursionError):
        names = {fr.name for fr in tb if '/pbhhg_py/' in fr.filename}
        if 'do_IO' in names:
            return "RecursionError: nested do_IO / bind continuations"
        if names & {'formatter', 'recursive_strict', 'as_key', 'format', 'map_strict_with_hook'}:
            return "RecursionError: nested-value traversal (formatter / recursive_strict / as_key)"
        return "RecursionError: " + ",".join(sorted(names))[:80]
    site = None
    for fr in tb:
        if '/pbhhg_py/' in fr.filename:
            site = f"{os.path.basename(fr.filename)}:{fr.name}"
    return f"{type(exc).__name__}: {site}"


def format_err(err: AS.ErrorValue) -> str:
    try:
        return interpret.evaluate(M.formatter(err))
    except BaseException:
        return '?'


class Sandbox:
    """A scratch directory holding the virtual file system of one case."""

    def __init__(self):
        self.root = tempfile.mkdtemp(prefix='uhverif_')

    def populate(self, fs):
        for name in os.listdir(self.root):
            p = os.path.join(self.root, name)
            shutil.rmtree(p) if os.path.isdir(p) and not os.path.islink(p) else os.unlink(p)
        for path, content in (fs or {}).items():
            full = os.path.join(self.root, path)
            if content is None:
                os.makedirs(full, exist_ok=True)
            elif isinstance(content, tuple) and content[0] == 'symlink':   # harness-only (never sent to the model)
                os.makedirs(os.path.dirname(full) or self.root, exist_ok=True)
                os.symlink(content[1], full)
            else:
                os.makedirs(os.path.dirname(full) or self.root, exist_ok=True)
                with open(full, 'wb') as f:
                    f.write(content)

    def snapshot(self):
        out = {}
        for d, _, files in os.walk(self.root):
            for fn in files:
                full = os.path.join(d, fn)
                if os.path.islink(full):
                    continue
                with open(full, 'rb') as f:
                    out[os.path.relpath(full, self.root)] = f.read()
        return out

    def close(self):
        shutil.rmtree(self.root, ignore_errors=True)


_SANDBOX = None
KEEP = object()


def sandbox():
    global _SANDBOX
    if _SANDBOX is None:
        _SANDBOX = Sandbox()
        import atexit
        atexit.register(_SANDBOX.close)
    return _SANDBOX


def run(fn, stdin: str = '', fs=None, timeout: float = 5.0, reset_registry: bool = True):
    """Runs `fn()` (which calls into the implementation) under captured stdio, in the sandbox
    directory, with a wall-clock alarm."""
    sb = sandbox()
    if fs is not KEEP:          # KEEP: leave the scratch directory as the previous evaluation left it
        sb.populate(fs)
    if reset_registry:
        module_mod._MODULE_REGISTRY.clear()
    reader = _KeepOpen(stdin.encode('utf-8'))
    writer = _KeepOpen()
    old = (sys.stdin, sys.stdout, os.getcwd())
    sys.stdin = io.TextIOWrapper(reader, encoding='utf-8', newline='\n')
    sys.stdout = io.TextIOWrapper(writer, encoding='utf-8', newline='\n')
    os.chdir(sb.root)
    res = {}
    signal.signal(signal.SIGALRM, _alarm)
    signal.setitimer(signal.ITIMER_REAL, timeout)
    try:
        try:
            res = fn()
        finally:
            signal.setitimer(signal.ITIMER_REAL, 0)
    except CaseTimeout:
        res = {'kind': 'timeout'}
    except AS.UnsuspectedHangeulError as e:
        # observe stdout / unread stdin *before* the harness formats the exception value: formatting is the harness's
        # doing (main() only raises), and it executes any I/O action the exception's contents hold
        sys.stdout.flush()
        pre = {'out': writer.getvalue().decode('utf-8', 'replace')}
        pos = reader.tell() if hasattr(reader, 'tell') else None
        try:
            pre['rest'] = sys.stdin.read()
            sys.stdin = io.TextIOWrapper(_KeepOpen(pre['rest'].encode('utf-8')), encoding='utf-8', newline='\n')
        except Exception:
            pre['rest'] = ''
        res = {'kind': 'err', 'err': format_err(e.err),
               'spans': [(m.line_no, m.start_col, m.end_col) for m in e.err.metadatas], '_pre': pre}
    except RuntimeError as e:
        if str(e) == "Maximum Stack Size Exceeded.":
            res = {'kind': 'limit'}
        else:
            res = {'kind': 'crash', 'crash': crash_site(e), 'msg': str(e)[:200]}
    except RecursionError as e:   # (subclass of RuntimeError; kept for clarity)
        res = {'kind': 'crash', 'crash': crash_site(e), 'msg': str(e)[:200]}
    except BaseException as e:
        if isinstance(e, (KeyboardInterrupt, SystemExit)):
            raise
        res = {'kind': 'crash', 'crash': crash_site(e), 'msg': str(e)[:200]}
    finally:
        try:
            sys.stdout.flush()
            res['out'] = writer.getvalue().decode('utf-8', 'replace')
            res['rest'] = sys.stdin.read()
        except Exception:
            res.setdefault('out', '')
            res.setdefault('rest', '')
        if '_pre' in res:
            res.update(res.pop('_pre'))
        sys.stdin, sys.stdout = old[0], old[1]
        os.chdir(old[2])
        gc.collect()           # unreferenced file objects flush their buffers when collected
        res['fs'] = sb.snapshot()
    return res


def run_main(program: str, stdin: str = '', fs=None, format_io: bool = True, timeout: float = 5.0,
             reset_registry: bool = True):
    def fn():
        return {'kind': 'ok', 'results': M.main('<t>', program, format_io)}
    return run(fn, stdin, fs, timeout, reset_registry)


def run_cli(program: str, argv, stdin: str = '', fs=None, timeout: float = 5.0):
    def fn():
        return {'kind': 'exit', 'code': cli.run('<t>', program, list(argv))}
    return run(fn, stdin, fs, timeout)


class Recorder(interpret.DebuggerBase):
    """passive observer: records the event stream"""
    def __init__(self):
        self.events = []
        self.keep = []          # keep every Expr alive: id() of a collected object may be reused

    def before_eval(self, depth, expr):
        m = expr.expr.metadata
        self.keep.append(expr)
        self.events.append(('B', depth, (m.line_no, m.start_col, m.end_col), id(expr)))

    def after_eval(self, depth, expr, result):
        m = expr.expr.metadata
        self.events.append(('A', depth, (m.line_no, m.start_col, m.end_col), id(expr),
                            isinstance(result, AS.UnsuspectedHangeulError)))


def run_main_events(program: str, stdin: str = '', fs=None, format_io: bool = True, timeout: float = 5.0):
    """like run_main but with a recording observer attached to every evaluation"""
    rec = Recorder()
    def fn():
        exprs = parse.parse('<t>', program)
        env = AS.Env([], [])
        values = [AS.Expr(e, env) for e in exprs]
        out = [interpret.evaluate(M.formatter(v, format_io), debugger=rec) for v in values]
        return {'kind': 'ok', 'results': out}
    res = run(fn, stdin, fs, timeout)
    res['events'] = rec.events
    return res
