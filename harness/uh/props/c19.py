"""C19 — attaching a debugger observer is transparent and sees well-nested events."""
from .. import gen, impl
from ..corr import Case, monitor, obs


@monitor('c19_nested')
def _nested(case, a):
    """well-nesting of the implementation's event stream + transparency (same outcome without observer)"""
    stack = []
    depth = 0
    for e in a['events']:
        if e[0] == 'B':
            if e[1] != depth + 1:
                return f"before-event at depth {e[1]}, expected {depth + 1}"
            depth += 1
            stack.append((e[1], e[3]))
        else:
            if not stack:
                return "after-event without a pending before-event"
            d, eid = stack.pop()
            if (e[1], e[3]) != (d, eid):
                return f"after-event (depth {e[1]}) does not match the innermost pending before-event (depth {d})"
            depth -= 1
    if a['kind'] in ('ok', 'err') and depth != 0:
        # formatter evaluates several top-level expressions one after another; each ends at depth 0
        return f"depth is {depth} when evaluation ends"
    if a['kind'] == 'err' and stack:
        return "pending before-events after an exception"
    b = impl.run_main(case.program, case.stdin, case.fs, case.format_io, case.timeout)
    oa, ob = obs(a), obs(b)
    if oa != ob:
        return f"observer changed the outcome: with {oa}, without {ob}"
    return None


@monitor('c19_light')
def _light(case, a):
    """the same stream as seen by an observer that keeps **nothing** of what it is shown (no reference to any expression: only
    depth, source span and outcome kind are noted) — what the project's own printing debugger is. Expressions the evaluator
    no longer needs may then be freed while their frame is still open; every announced expression must be reported finished
    all the same, at its depth."""
    import gc
    from pbhhg_py import interpret, parse, abstract_syntax as AS, main as M
    ev = []
    class Light(interpret.DebuggerBase):
        def before_eval(self, depth, expr):
            m = expr.expr.metadata
            ev.append(('B', depth, (m.line_no, m.start_col, m.end_col)))
        def after_eval(self, depth, expr, result):
            m = expr.expr.metadata
            ev.append(('A', depth, (m.line_no, m.start_col, m.end_col)))
    def fn():
        exprs = parse.parse('<t>', case.program)
        out = []
        for e in exprs:
            out.append(interpret.evaluate(M.formatter(AS.Expr(e, AS.Env([], [])), case.format_io), debugger=Light()))
            gc.collect()
        return {'kind': 'ok', 'results': out}
    r = impl.run(fn, case.stdin, case.fs, case.timeout)
    stack, depth = [], 0
    for e in ev:
        if e[0] == 'B':
            if e[1] != depth + 1:
                return f"non-retaining observer: before-event at depth {e[1]}, expected {depth + 1}"
            depth += 1
            stack.append((e[1], e[2]))
        else:
            if not stack:
                return "non-retaining observer: after-event without a pending before-event"
            d, sp = stack.pop()
            if (e[1], e[2]) != (d, sp):
                return (f"non-retaining observer: after-event (depth {e[1]}, span {e[2]}) does not match the innermost pending "
                        f"before-event (depth {d}, span {sp})")
            depth -= 1
    if r['kind'] in ('ok', 'err') and (depth != 0 or stack):
        return f"non-retaining observer: {len(stack)} announced expression(s) never reported finished"
    if len(ev) != len(a['events']) and r['kind'] == a['kind'] and r['kind'] in ('ok', 'err'):
        return f"non-retaining observer saw {len(ev)} events, the retaining one {len(a['events'])}"
    return None


def cases(rng, tier):
    k = 0
    for c in _cases(rng, tier):
        yield c
        k += 1
        if c.mode == 'events' and c.monitor == 'c19_nested' and k % (2 if tier == 'quick' else 4) == 0:
            # every second (thorough: fourth) case again under an observer that retains nothing (seeded change S19l held tail-called expressions
            # only weakly: invisible to an observer that keeps them alive)
            yield Case(program=c.program, stdin=c.stdin, fs=c.fs, mode='events', tag=c.tag + '-light', monitor='c19_light', skip_model=True,
                       timeout=c.timeout, format_io=c.format_io)


def _cases(rng, tier):
    n = 800 if tier == 'quick' else 20000
    g = gen.Gen(rng, max_depth=5)
    for i in range(n):
        c = rng.random()
        if c < 0.6:
            t = g.program()
        elif c < 0.8:
            t = gen.gen_illtyped(rng, g)
        else:   # I/O
            t = gen.bi('ㄱㄹ', gen.bi('ㄹ'), gen.fundef(gen.bi('ㅈㄹ', gen.bi('ㄷ', gen.arg(0), gen.str_lit("!")))))
            if rng.random() < 0.5:
                t = gen.bi('ㄱㄹ', t, gen.fundef(gen.bi('ㄱㅅ', g.gen('int', None, 3))))
        yield Case(program=gen.render(t), stdin="line1\nline2\n", mode='events', tag='events', monitor='c19_nested',
                   nontrivial=gen.size(t) >= 6)
    yield from deep_cases(rng, tier)
    yield from io_failure_cases(rng, tier)
    # exceptions under the observer: every throw / try / re-throw / retry shape of the C10 stream (caught faults,
    # cached failures evaluated again, failing values handed back by handlers, deep forcing)
    import random as _random
    from . import c10
    pool = [c for c in c10.cases(_random.Random(rng.random()), 'quick')
            if c.tag.split(':')[0] in ('caught', 'uncaught', 'deep-force', 'memoised-failure', 'rethrow', 'wrap-rethrow', 'retry-in-handler',
                                       'retry-sequence', 'retry-in-list', 'retry-after-swallow', 'retry-uncaught', 'handler-untouched',
                                       'handler-faulty-used', 'bind-handler-eval', 'bind-handler-exec')]
    rng.shuffle(pool)
    for c in pool[:(250 if tier == 'quick' else 2000)]:
        yield Case(program=c.program, stdin=c.stdin, mode='events', tag='exc-' + c.tag.split(':')[0], monitor='c19_nested')
    # a failing argument handed back by its own handler, with an outer try still waiting (cached error returned in tail position)
    for body in ["(ㄷ ㄷㅂㅎㄴ ㄷㅈㅎㄴ)", "(ㄴ ㄱ ㄴㄴㅎㄷ)"]:
        yield Case(program=f"{body} ((ㄱㅇㄱ (ㄱㅇㄴ ㅎ) ㅅㄷㅎㄷ) (ㅈ ㅎ) ㅅㄷㅎㄷ ㅎ) ㅎㄴ", mode='events', tag='exc-handed-back', monitor='c19_nested')
        yield Case(program=f"{body} ((ㄱㅇㄱ (ㄱㅇㄴ ㅎ) ㅅㄷㅎㄷ) (ㄱㅇㄱ ㅎ) ㅅㄷㅎㄷ ㅎ) ㅎㄴ", mode='events', tag='exc-handed-back', monitor='c19_nested')
        yield Case(program=f"{body} (ㄱㅇㄱ (ㄱㅇㄴ ㅎ) ㅅㄷㅎㄷ ㅎ) ㅎㄴ", mode='events', tag='exc-handed-back-uncaught', monitor='c19_nested')


def io_failure_cases(rng, tier):
    """exceptions raised while the front end is *performing* an action (in the outermost evaluation context, not
    inside a delayed expression): continuation returns a non-action / throws, failing file open / operation,
    with and without a ㄱㄹ handler, at several bind depths"""
    from ..gen import str_lit, render, enc
    missing = render(str_lit("none.txt"))
    fails = [
        "ㄱ ㄱㅅㅎㄴ (ㄱㅇㄱ ㅎ) ㄱㄹㅎㄷ",                                   # continuation returns a number
        "ㄱ ㄱㅅㅎㄴ (ㄹ ㄷㅂㅎㄴ ㄷㅈㅎㄴ ㅎ) ㄱㄹㅎㄷ",                        # continuation throws
        "ㄹㅎㄱ (ㄱㅇㄱ ㄴ ㄷㅎㄷ ㄱㅅㅎㄴ ㅎ) ㄱㄹㅎㄷ",                         # continuation's action fails when performed (str + int)
        f"{missing} ㄹ ㄱㄴㅎㄷ",                                           # open a missing file
        f"{missing} ㄹ ㄱㄴㅎㄷ (ㄱㅇㄱ ㄱㅅㅎㄴ ㅎ) ㄱㄹㅎㄷ",
        f"{missing} ㅈㄹ ㄱㄴㅎㄷ (ㄹ ㄹ ㄱㅇㄱ ㅎㄷ ㅎ) ㄱㄹㅎㄷ",               # read on a write-only handle
        "(ㄴ ㄱ ㄴㄴㅎㄷ) ㄱㅅㅎㄴ",                                          # ㄱㅅ forcing a failing payload when performed
        "ㄴ ㅈㄹㅎㄴ",                                                     # ㅈㄹ of a non-string: fails at evaluation (control)
    ]
    H = "(ㄱㅇㄱ ㄱㅅㅎㄴ ㅎ)"
    for f in fails:
        yield Case(program=f, stdin="l1\nl2\n", mode='events', tag='io-fail', monitor='c19_nested')
        yield Case(program=f"({f}) (ㄱㅇㄱ ㄱㅅㅎㄴ ㅎ) {H} ㄱㄹㅎㄹ", stdin="l1\nl2\n", mode='events', tag='io-fail-handled', monitor='c19_nested')
        yield Case(program=f"(ㄴ ㄱㅅㅎㄴ) (({f}) ㅎ) ㄱㄹㅎㄷ", stdin="l1\nl2\n", mode='events', tag='io-fail-nested', monitor='c19_nested')
        yield Case(program=f"(ㄴ ㄱㅅㅎㄴ) (({f}) ㅎ) ㄱㄹㅎㄷ (ㄱㅇㄱ ㄱㅅㅎㄴ ㅎ) ㄱㄹㅎㄷ", stdin="l1\nl2\n", mode='events', tag='io-fail-nested2', monitor='c19_nested')


def deep_cases(rng, tier):
    """long-running and deep evaluations under the observer: tail loops far beyond the frame limit, non-tail
    recursion close to it, the stack-limit abort, and a throw from the bottom of a long loop (caught and not)"""
    from . import c05
    from ..gen import enc
    sizes = [50, 2600, 6000] if tier == 'quick' else [50, 700, 2600, 6000, 20000]
    for name, mk in c05.TAIL.items():
        for n in sizes:
            yield Case(program=mk(n)[0], mode='events', tag=f'deep-tail-{name}', monitor='c19_nested', timeout=120, fuel=10 ** 9)
    for n in ([300, 1200] if tier == 'quick' else [300, 1200, 1600]):
        # non-tail: s(n) = n == 0 ? 0 : 1 + s(n-1)
        yield Case(program=f"{enc(n)} (ㄱ (ㄴ (ㄱㅇㄱ ㄴㄱ ㄷㅎㄷ ㄱㅇ ㅎㄴ) ㄷㅎㄷ) (ㄱㅇㄱ ㄱ ㄴㅎㄷ) ㅎㄷ ㅎ) ㅎㄴ", mode='events',
                   tag='deep-nontail', monitor='c19_nested', timeout=120, fuel=10 ** 9)
    # runs into the evaluator's frame limit
    yield Case(program="ㄴ ㄱㅇ ㅎㄱ ㄷㅎㄷ ㅎ ㅎㄱ", mode='events', tag='deep-limit', monitor='c19_nested', timeout=120, fuel=10 ** 9)
    # non-tail recursion that fails at the bottom: the exception unwinds through n pending calls of the same source
    # expression — f(n) = n == 0 ? 0/0 : 1 + f(n-1) — uncaught, caught outside, caught half-way; and g(g(x)) failing inside
    F = "((ㄱ ㄱ ㄴㄴㅎㄷ) (ㄴ (ㄱㅇㄱ ㄴㄱ ㄷㅎㄷ ㄱㅇ ㅎㄴ) ㄷㅎㄷ) (ㄱㅇㄱ ㄱ ㄴㅎㄷ) ㅎㄷ ㅎ)"
    for n in ([0, 1, 3, 40] if tier == 'quick' else [0, 1, 2, 3, 10, 40, 400, 2000]):
        yield Case(program=f"{enc(n)} {F} ㅎㄴ", mode='events', tag='unwind-nontail', monitor='c19_nested', timeout=60, fuel=10 ** 8)
        yield Case(program=f"({enc(n)} {F} ㅎㄴ) (ㄴㄱ ㅎ) ㅅㄷㅎㄷ", mode='events', tag='unwind-nontail-caught', monitor='c19_nested', timeout=60, fuel=10 ** 8)
        yield Case(program=f"ㄴ ({enc(n)} {F} ㅎㄴ) ㄷㅎㄷ", mode='events', tag='unwind-nontail-nested', monitor='c19_nested', timeout=60, fuel=10 ** 8)
    G = "((ㄱㅇㄱ ㄱ ㄴㅎㄷ) (ㄱ ㄱ ㄴㄴㅎㄷ) (ㄱㅇㄱ ㄴㄱ ㄷㅎㄷ) ㅎㄷ ㅎ)".replace("(ㄱㅇㄱ ㄱ ㄴㅎㄷ) (ㄱ ㄱ ㄴㄴㅎㄷ) (ㄱㅇㄱ ㄴㄱ ㄷㅎㄷ) ㅎㄷ", "(ㄱ ㄱ ㄴㄴㅎㄷ) (ㄱㅇㄱ ㄴㄱ ㄷㅎㄷ) (ㄱㅇㄱ ㄱ ㄴㅎㄷ) ㅎㄷ")
    for x in (0, 1, 2, 5):
        # g(x) = x == 0 ? 0/0 : x - 1;  g(g(x)), g(g(g(x))): the inner call fails while outer calls of the same expression wait
        yield Case(program=f"(λ ((({enc(x)} ㄱㅇㄱ ㅎㄴ) ㄱㅇㄱ ㅎㄴ) ㄱㅇㄱ ㅎㄴ ㅎ)".replace("(λ (", "(").replace(" ㅎ)", " ㅎ)") + f" ㅎㄱ".replace(" ㅎㄱ", "") if False else
                   f"{G} ((({enc(x)} ㄱㅇㄱ ㅎㄴ) ㄱㅇㄱ ㅎㄴ) ㄱㅇㄱ ㅎㄴ ㅎ) ㅎㄴ", mode='events', tag='unwind-self-applied', monitor='c19_nested', timeout=60)
    for n in ([2600] if tier == 'quick' else [100, 2600, 6000]):
        # t(n) = n == 0 ? throw : t(n-1), uncaught and caught by ㅅㄷ
        loop = f"{enc(n)} (ㄱㅇㄱ ㄴㄱ ㄷㅎㄷ ㄱㅇ ㅎㄴ (ㄷ ㄷㅂㅎㄴ ㄷㅈㅎㄴ) (ㄱㅇㄱ ㄱ ㄴㅎㄷ) ㅎㄷ ㅎ) ㅎㄴ"
        yield Case(program=loop, mode='events', tag='deep-throw', monitor='c19_nested', timeout=120, fuel=10 ** 9)
        yield Case(program=f"({loop}) (ㄱ ㅎ) ㅅㄷㅎㄷ", mode='events', tag='deep-throw-caught', monitor='c19_nested', timeout=120, fuel=10 ** 9)


SPEC = {
    'lean': ['C19'],
    'cases': cases,
    'stream': 'C19 observer event stream',
    'rule': 'typed programs (60 %), ill-typed / throwing calls (20 %) and I/O bind programs (20 %) run with a passive '
            'recording DebuggerBase subclass: the stream must be a balanced bracket word with depth = nesting + 1, end at '
            'depth 0 for value and exception outcomes, equal the model machine\'s stream event by event, and result / '
            'exception / stdout / consumed stdin must equal those of the run without observer; plus long tail loops (5 shapes × 50 … 6000 / 20000 iterations), non-tail recursion 300 … 1600 deep, the frame-limit abort and a throw from the bottom of a 2600-iteration loop (caught / uncaught), all under the observer; exceptions raised while an action is being performed (non-action continuation, throwing continuation, failing file open / operation, with / without handler, nested in binds); 250 / 2000 programs of the C10 exception stream (throw, try, re-throw, cached failures tried again, failing values handed back by handlers) under the observer. Non-trivial = ≥ 6 nodes',
    'trusted': [],
    'assumptions': ['the stack-limit abort is excluded from "depth back to zero" (the loop is left by a raised RuntimeError)'],
}
