"""C08 — integer literal codec is a bijection; all spellings are interchangeable."""
import itertools
from .. import gen, common
from ..corr import Case, monitor

JAMO = "ㄱㄴㄷㄹㅁㅂㅅㅈ"


def py_parse(word):         # independent reading of the specification (docs/spec.md:31-44)
    v = sum(JAMO.index(c) * 8 ** i for i, c in enumerate(word))
    return -v if len(word) % 2 == 0 else v


def _codec_one(parse, kind, x):
    if kind == 'int':
        w = parse.encode_number(x)
        if parse.parse_number(w) != x or py_parse(w) != x:
            return f"decode(encode({x})) = {parse.parse_number(w)}"
        if gen.enc(x) != w:
            return f"encode({x}) = {w!r}, shortest spelling is {gen.enc(x)!r}"
    else:
        if parse.parse_number(x) != py_parse(x):
            return f"parse_number({x!r}) = {parse.parse_number(x)}, specification says {py_parse(x)}"
        w = parse.encode_number(py_parse(x))
        if len(w) > len(x):
            return f"encoder spelling {w!r} longer than {x!r}"
    return None


@monitor('c08_codec')
def _codec(case, a):
    """direct monitor on the implementation's two functions; `data` = (kind, [items…]) — a batch"""
    from pbhhg_py import parse
    kind, items = case.data
    for x in items:
        why = _codec_one(parse, kind, x)
        if why:
            return why
    return None


def pad(word, k):
    return word + "ㄱ" * (2 * k)


def cases(rng, tier):
    # (1) the two functions: exhaustive small ranges + random big integers; checked against the
    #     implementation directly and against the model driver in bulk below
    lim = 2 ** 11 if tier == 'quick' else 2 ** 20
    ints = list(range(-lim, lim + 1)) + [rng.randint(-2 ** 4096, 2 ** 4096) for _ in range(200)] + \
           [s * 8 ** k + d for k in range(1, 40) for s in (1, -1) for d in (-1, 0, 1)]
    B = 512
    for i in range(0, len(ints), B):
        yield Case(program='ㄱ', tag='codec-int', monitor='c08_codec', data=('int', ints[i:i + B]), skip_model=True, nontrivial=True, timeout=120)
    maxlen = 4 if tier == 'quick' else 7
    words = ["".join(w) for n in range(1, maxlen + 1) for w in itertools.product(JAMO, repeat=n)]
    for i in range(0, len(words), B):
        yield Case(program='ㄱ', tag='codec-word', monitor='c08_codec', data=('word', words[i:i + B]), skip_model=True, nontrivial=True, timeout=120)
    # (2) spellings are interchangeable wherever a literal is used
    n = 300 if tier == 'quick' else 5000
    g = gen.Gen(rng, max_depth=3)
    for i in range(n):
        a, b = rng.randint(-50, 50), rng.randint(-50, 50)
        k = rng.randint(1, 2)
        e, P = gen.enc, lambda x: pad(gen.enc(x), k)
        c = rng.randrange(9)
        if c == 0:    # value
            ref, var = f"{e(a)} {e(b)} ㄷ ㅎㄷ", f"{P(a)} {P(b)} ㄷ ㅎㄷ"
        elif c == 1:  # call arity
            ref, var = f"{e(a)} {e(b)} ㄷ ㅎ{e(2)}", f"{e(a)} {e(b)} ㄷ ㅎ{P(2)}"
        elif c == 2:  # nesting index of an argument reference
            ref, var = f"{e(a)} {e(b)} (ㄱㅇ{e(1)} ㄴㅇ{e(0)} ㄷㅎㄷ ㅎ ㅎㄱ ㅎ) ㅎㄷ", f"{e(a)} {e(b)} (ㄱㅇ{P(1)} ㄴㅇ{P(0)} ㄷㅎㄷ ㅎ ㅎㄱ ㅎ) ㅎㄷ"
        elif c == 3:  # function reference index
            ref, var = f"{e(3)} ㄱ ({e(0)}ㅇ ㅎ) ㅎㄴ", f"{e(3)} ㄱ ({P(0)}ㅇ ㅎ) ㅎㄴ"
            ref, var = f"({e(0)} ㅇ ㅎ) ㅎㄱ", f"({P(0)} ㅇ ㅎ) ㅎㄱ"
        elif c == 4:  # built-in function name
            name = rng.choice(["ㄷ", "ㄱ", "ㅁㄹ", "ㄴ", "ㅈ", "ㅁㅈ", "ㄴㄴ", "ㄱㅈ"])
            args = f"{e(a)} {e(b)}" if name not in ("ㄱㅈ",) else ""
            ar = "ㄷ" if args else "ㄱ"
            ref, var = f"{args} {name} ㅎ{ar}", f"{args} {pad(name, k)} ㅎ{ar}"
        elif c == 5:  # negative padded literal as a value inside a list
            ref, var = f"{e(a)} {e(-abs(b) - 1)} ㅁㄹ ㅎㄷ", f"{P(a)} {P(-abs(b) - 1)} ㅁㄹ ㅎㄷ"
        elif c == 6:  # built-in module path component
            ref, var = f"{e(a)} {e(b)} (ㅂ ㅂㄷ ㄱ ㅂㅎㄹ) ㅎㄷ", f"{e(a)} {e(b)} ({pad('ㅂ', k)} {pad('ㅂㄷ', k)} {pad('ㄱ', k)} ㅂㅎㄹ) ㅎㄷ"
        elif c == 7:  # file mode / command / whence (open a scratch file for writing, write, tell)
            ref = "ㄱ"
            var = "ㄱㄱㄱ"
        else:         # index given to a list callable
            ref, var = f"{e(a)} {e(b)} ㅁㄹㅎㄷ {e(1)} ㅎㄴ".replace(f" {e(1)} ㅎㄴ", f" ㅎㄱ").replace("ㅁㄹㅎㄷ ㅎㄱ", f"ㅁㄹㅎㄷ") , ""
            ref = f"{e(1)} ({e(a)} {e(b)} ㅁㄹㅎㄷ) ㅎㄴ"
            var = f"{P(1)} ({e(a)} {e(b)} ㅁㄹㅎㄷ) ㅎㄴ"
        yield Case(program=ref, variants=(var,), tag=f'spelling{c}')
    # (3) zero has spellings of *both* parities (ㄱ, ㄱㄱ, ㄱㄱㄱ, …: −0 = 0): every role in which a zero can stand
    for z in ["ㄱ" * m for m in range(2, 8 if tier == 'quick' else 14)]:
        e = gen.enc
        a, b = rng.randint(-50, 50), rng.randint(-50, 50)
        roles = {
            'value': f"{e(a)} {{z}} ㄷ ㅎㄷ",
            'arity-closure': f"{e(a)} ㅎ ㅎ{{z}}",
            'arity-builtin': f"ㅁㄹ ㅎ{{z}}",
            'arity-nested': f"({e(a)} ㅎ ㅎ{{z}}) (ㅁㅈ ㅎ{{z}}) ㅁㄹ ㅎㄷ",
            'argpos': f"{e(a)} {e(b)} ({{z}} ㅇㄱ ㅎ) ㅎㄷ",
            'argnest': f"{e(a)} {e(b)} (ㄴㅇ{{z}} ㅎ) ㅎㄷ",
            'argnest-outer': f"{e(b)} ({e(a)} (ㄱㅇㄴ ㄱㅇ{{z}} ㄷㅎㄷ ㅎ ㅎ) ㅎㄴ) ㅎㄴ",
            'funref': f"({{z}} ㅇ ㅎ) ㅎㄱ",
            'builtin-name': f"{e(a)} {e(b)} {{z}} ㅎㄷ",                      # ㄱ = multiplication
            'list-index': f"{{z}} ({e(a)} {e(b)} ㅁㄹㅎㄷ) ㅎㄴ",
            'module-path': f"{e(a)} {e(b)} (ㅂ ㅂㄷ {{z}} ㅂㅎㄹ) ㅎㄷ",
        }
        for role, tpl in roles.items():
            if tpl is None:
                continue
            yield Case(program=tpl.replace("{z}", "ㄱ"), variants=(tpl.replace("{z}", z),), tag=f'zero-{role}')
        # file command ㄱ (truncate at the current position) on a real file
        from . import c14
        tp = c14.program("z.bin", 'w+', [('write', b'abcdefg'), ('seek', 3), ('trunc',), ('close',)])
        assert "ㄱ ㄱㅇㄷ ㅎㄴ" in tp
        yield Case(program=tp, variants=(tp.replace("ㄱ ㄱㅇㄷ ㅎㄴ", f"{z} ㄱㅇㄷ ㅎㄴ"),), tag='zero-filecmd', compare_fs=True)
    # (4) every trailer word of up to three digits after ㅎ (call arity) and up to two after ㅇ (frame number), with
    #     the right number of arguments / enclosing functions actually present: the number is read by the codec's
    #     rule and by nothing else (the model parser and evaluator are the oracle)
    import itertools as _it
    words3 = ["".join(w) for n in (1, 2, 3) for w in _it.product(JAMO, repeat=n)]
    if tier == 'quick':
        words3 = [w for w in words3 if len(w) < 3] + rng.sample([w for w in words3 if len(w) == 3], 60) + ["ㄱㄴㄷ", "ㄴㄷㄹ", "ㄷㄹㅁ", "ㅂㅅㅈ"]
    for w in words3:
        n = py_parse(w)
        k = n if 0 <= n <= 600 else 2
        args = " ".join(gen.enc(i % 7) for i in range(k))
        yield Case(program=f"({args} ㅁㄹ ㅎ{w}) ㅈㄷㅎㄴ", tag='trailer-arity', nontrivial=True, timeout=20)
    D = 66
    for w in ["".join(x) for n in (1, 2) for x in _it.product(JAMO, repeat=n)]:
        # D nested functions, the i-th (from the outside) applied to the number i; the innermost returns argument 0 of frame w
        body = f"ㄱ ㅇ{w}"
        for i in range(D - 1, -1, -1):
            body = f"{gen.enc(i)} ({body} ㅎ) ㅎㄴ"
        yield Case(program=body, tag='trailer-frame', nontrivial=True, timeout=20)
    # (5) module files and directories named by any spelling of a number (0–3 padding pairs; zero in both parities),
    #     imported by any spelling of the literal
    SYL = dict(zip(JAMO, "가나다라마바사자"))
    for n_ in [0, 1, 5, -8, 9, 64, -1]:
        for pads in range(0, 4):
            for zl in ([1, 2, 3, 4, 5] if n_ == 0 else [None]):
                word = ("ㄱ" * zl) if n_ == 0 else gen.enc(n_) + "ㄱ" * (2 * pads)
                if n_ == 0 and pads:
                    continue
                fname = "".join(SYL[c] for c in word)
                lit_sp = rng.choice([gen.enc(n_), gen.enc(n_) + "ㄱㄱ", word])
                yield Case(program=f"{lit_sp} ㅂㅎㄴ", fs={fname + ".pbhhg": "ㄷㅈ".encode()}, tag='spelling-module-file')
                yield Case(program=f"{lit_sp} ㄴ ㅂㅎㄷ", fs={fname + "/나.pbhhg": "ㄷㅈ".encode()}, tag='spelling-module-dir')
                # … next to entries whose names spell *no* number (no consonant at all): the empty word is not a spelling of
                # zero, so they match no literal (seeded change S08j decoded the empty word as 0)
                noise = {"README.txt": b"x", "main.pbhhg": "ㄹ".encode(), "docs/a.txt": b"y", "123": b"z"}
                yield Case(program=f"{lit_sp} ㅂㅎㄴ", fs={fname + ".pbhhg": "ㄷㅈ".encode(), **noise}, tag='spelling-module-file-noise')
                yield Case(program=f"{lit_sp} ㅂㅎㄴ", fs=noise, tag='spelling-module-only-noise')
                yield Case(program=f"{lit_sp} ㄴ ㅂㅎㄷ", fs={fname + "/나.pbhhg": "ㄷㅈ".encode(), fname + "/x.txt": b"q", **noise}, tag='spelling-module-dir-noise')
                # … next to *other spellings of the same number*: every spelling is searched (a directory is found although a
                # padded file or directory lies beside it), and two files that both spell the number are ambiguous (seeded
                # change S08k indexed a directory by the decoded number and so kept one spelling per number)
                twin = "".join(SYL[c] for c in (word + "ㄱㄱ"))
                mod = {fname + "/나.pbhhg": "ㄷㅈ".encode()}
                yield Case(program=f"{lit_sp} ㄴ ㅂㅎㄷ", fs={**mod, twin + ".txt": b"q"}, tag='spelling-module-twin-file')
                yield Case(program=f"{lit_sp} ㄴ ㅂㅎㄷ", fs={**mod, fname + ".pbhhg": "ㄹ".encode()}, tag='spelling-module-twin-ext')
                yield Case(program=f"{lit_sp} ㄴ ㅂㅎㄷ", fs={**mod, twin + "/x.txt": b"q"}, tag='spelling-module-twin-dir')
                yield Case(program=f"{lit_sp} ㄴ ㅂㅎㄷ", fs={twin + "/나.pbhhg": "ㄷㅈ".encode(), fname + "/x.txt": b"q"}, tag='spelling-module-twin-dir2')
                yield Case(program=f"{lit_sp} ㅂㅎㄴ", fs={fname + ".pbhhg": "ㄷㅈ".encode(), twin + ".pbhhg": "ㄷㅈ".encode()}, tag='spelling-module-twin-ambiguous')
                yield Case(program=f"{lit_sp} ㄴ ㅂㅎㄷ", fs={**mod, twin + "/나.pbhhg": "ㄷㅈ".encode()}, tag='spelling-module-twin-ambiguous-dir')
    # file mode / command spellings on a real scratch file
    for k in (1, 2):
        P = lambda w: pad(w, k)
        ref = file_prog("ㅈㄹ", "ㅈㄹ", "ㅈ", "ㄷ")
        var = file_prog(P("ㅈㄹ"), P("ㅈㄹ"), P("ㅈ"), P("ㄷ"))
        yield Case(program=ref, variants=(var,), tag='spelling-file', compare_fs=True)


def file_prog(mode, wr, tell, close):
    path = gen.render(gen.str_lit("f.bin"))
    data = gen.render(gen.bytes_lit(b"abc"))
    return (f"{path} {mode} ㄱㄴㅎㄷ "
            f"({data} {wr} ㄱㅇㄱ ㅎㄷ ({tell} ㄱㅇㄴ ㅎㄴ ({close} ㄱㅇㄷ ㅎㄴ (ㄱㅇㄴ ㄱㅅㅎㄴ ㅎ) ㄱㄹㅎㄷ ㅎ) ㄱㄹㅎㄷ ㅎ) ㄱㄹㅎㄷ ㅎ) ㄱㄹㅎㄷ")


SPEC = {
    'lean': ['C08', 'Tables'],
    'cases': cases,
    'big': True,
    'stream': 'C08 spelling stream',
    'rule': 'parse_number / encode_number (checked in batches: one case = 512 integers or words): exhaustive |n| ≤ 2^11 (quick) / 2^20 (thorough), all digit words up to '
            'length 4 / 7, 200 random integers up to 2^4096, powers of 8 ± 1; programs in which one literal is replaced by '
            'a zero-padded spelling in each role (value, arity, nesting index, function reference, built-in name, module '
            'path, file mode / command, list index) must behave identically; every spelling of zero of either parity (ㄱㄱ … ㄱ×7 / ×13) in every role where a zero can stand (value, closure / built-in arity, argument position, nesting index, function reference, built-in name, list index, module path, file command); module files / directories named by padded spellings (0–3 pairs, zero of length 1–5) imported by literals; every trailer word of ≤ 3 digits as an arity with that many arguments present and of ≤ 2 digits as a frame number inside 66 nested functions; non-trivial = multi-digit word / |n| > 7',
    'trusted': ["the harness's own reading of docs/spec.md:31-44 (py_parse) used as the monitor's oracle"],
    'assumptions': [],
}
