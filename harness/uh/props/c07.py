"""C07 — I/O happens only when an action is executed, once each, in bind order."""
from .. import gen
from ..gen import lit, bi, raw, call, fundef, arg, render, str_lit, enc
from ..corr import Case, monitor


class Sim:
    """independent oracle: executes a bind tree over (stdin lines, stdout) and returns the result"""
    def __init__(self, stdin):
        self.rest = stdin
        self.out = ""

    def run(self, t):
        k = t[0]
        if k == 'ret': return t[1]
        if k == 'retexc': return ExcVal(t[1])    # an exception *value* handed on normally: nothing is raised
        if k == 'print':
            self.out += t[1] + "\n"
            return None
        if k == 'read':
            if self.rest == "":
                return None
            line, sep, rest = self.rest.partition("\n")
            self.rest = rest
            return line
        if k == 'throw':
            raise SimErr(t[1])
        if k == 'bind':      # ('bind', m, f, handler); f = ('ignore', tree) | ('printthen', tree) | ('retarg',) | ('read',)
            self.construct(t)    # evaluating the ㄱㄹ expression evaluates its action and function arguments — before anything runs
            try:
                v = self.run(t[1])
            except SimErr as e:
                if t[3] is None:
                    raise
                if t[3][0] == 'hthrow':  # the handler raises while it is evaluated
                    raise SimErr(t[3][1])
                return self.run(t[3])
            f = t[2]
            if f[0] == 'ignore': return self.run(f[1])
            if f[0] == 'printthen':
                self.out += ">1\n"
                return self.run(f[1])
            if f[0] == 'retarg': return v
            if f[0] == 'throwing':       # the continuation raises while it is *evaluated*: after m ran, and
                raise SimErr(f[1])       # outside the reach of this bind's own handler (which guards m only)
            raise ValueError(f)
        raise ValueError(k)


def _construct(self, t):
    """what *evaluating* a ㄱㄹ expression does: its first argument is evaluated to an action (so a ㄱㄹ there is constructed
    too), then the continuation and the handler expressions are evaluated to functions — a failure here is raised at
    evaluation time: nothing has been executed, no handler of this or an enclosing ㄱㄹ is involved"""
    if t[0] != 'bind':
        return
    self.construct(t[1])
    if t[2][0] == 'evalthrow':
        raise SimErr(t[2][1])
    if t[3] is not None and t[3][0] == 'evalthrow':
        raise SimErr(t[3][1])
Sim.construct = _construct


class ExcVal:
    def __init__(self, n): self.n = n


class SimErr(Exception):
    def __init__(self, payload):
        self.payload = payload


def fmt(v):
    if v is None: return "Nil"
    if isinstance(v, str): return "'" + v + "'"
    if isinstance(v, ExcVal): return f"<예외: [{v.n}]>"
    return str(v)


def rand_tree(rng, depth, bad=True):
    """returns (program expression, oracle tree)"""
    c = rng.random()
    if depth <= 0 or c < 0.25:
        k = rng.randrange(5)
        if k == 4:
            # an action that *returns* an exception value without raising (seeded change S07g: such a value must go
            # to the continuation, never to the handler)
            n = rng.randint(30, 39)
            if rng.random() < 0.5:
                return bi('ㄱㅅ', bi('ㄷㅂ', lit(n))), ('retexc', n)
            # … or because an inner ㄱㄹ caught a raised exception and returned it as data
            return raw(f"(((ㄱ ㄱㅅㅎㄴ) ({enc(n)} ㄷㅂㅎㄴ ㄷㅈㅎㄴ ㅎ) ㄱㄹㅎㄷ) ㄱㅅ ㄱㅅ ㄱㄹㅎㄹ)"), ('retexc', n)
        if k == 0:
            n = rng.randint(-9, 99)
            return bi('ㄱㅅ', lit(n)), ('ret', n)
        if k == 1:
            s = rng.choice(["a", "bb", "가나", "x y", "", "a\n", "\n", "b\r\n", "c\n\n", " ", "d\r"])
            return bi('ㅈㄹ', str_lit(s)), ('print', s)
        if k == 2:
            return bi('ㄹ'), ('read',)
        n = rng.randint(0, 9)
        # an action that raises when it is *executed*: return 0 >>= λ_. throw exc(n)
        return raw(f"((ㄱ ㄱㅅㅎㄴ) ({enc(n)} ㄷㅂㅎㄴ ㄷㅈㅎㄴ ㅎ) ㄱㄹㅎㄷ)"), ('throw', n)
    # bind m f [h]: the continuation ignores / prints / returns its argument and then runs another tree
    me, mt = rand_tree(rng, depth - 1, bad)
    ne, nt = rand_tree(rng, depth - 1, bad)
    use = rng.randrange(4)
    if bad and rng.random() < 0.07:
        # the continuation (or handler) *expression* is not a function: it raises when evaluated, or is the empty value / a
        # computed integer — the ㄱㄹ expression has no value and nothing of it is ever executed (seeded change S07i deferred
        # this evaluation to execution time)
        kind = rng.randrange(3)
        bad, payload = [(f"({enc(40)} ㄷㅂㅎㄴ ㄷㅈㅎㄴ)", 40), ("(ㅂㄱㅎㄱ)", "5, 0"), ("(ㄴ ㄷ ㄷㅎㄷ)", "5, 0")][kind]
        if rng.random() < 0.5:
            return bi('ㄱㄹ', me, raw(bad)), ('bind', mt, ('evalthrow', payload), None)
        return bi('ㄱㄹ', me, fundef(ne), raw(bad)), ('bind', mt, ('ignore', nt), ('evalthrow', payload))
    if use == 3:      # the continuation fails while being evaluated (before any action exists)
        n = rng.randint(10, 19)
        fe, ff = fundef(raw(f"({enc(n)} ㄷㅂㅎㄴ ㄷㅈㅎㄴ)")), ('throwing', n)
    elif use == 0:      # ignore the value
        fe, ff = fundef(ne), ('ignore', nt)
    elif use == 1:    # print the value's printed form, then continue
        fe = fundef(bi('ㄱㄹ', bi('ㅈㄹ', bi('ㄷ', str_lit(">"), bi('ㅁㅈ', bi('ㅈㄷ', bi('ㅁㄹ', arg(0)))))), fundef(ne)))
        ff = ('printthen', nt)
    else:             # return the value itself
        fe, ff = fundef(bi('ㄱㅅ', arg(0))), ('retarg',)
    if rng.random() < 0.45:
        if rng.random() < 0.15:
            n = rng.randint(20, 29)
            return bi('ㄱㄹ', me, fe, fundef(raw(f"({enc(n)} ㄷㅂㅎㄴ ㄷㅈㅎㄴ)"))), ('bind', mt, ff, ('hthrow', n))
        he_, ht_ = rand_tree(rng, depth - 1, bad)
        return bi('ㄱㄹ', me, fe, fundef(he_)), ('bind', mt, ff, ht_)
    return bi('ㄱㄹ', me, fe), ('bind', mt, ff, None)


@monitor('c07_sim')
def _sim(case, a):
    stdin, tree = case.stdin, case.data
    sim = Sim(stdin)
    try:
        v = sim.run(tree)
        want = ('ok', "IO(" + fmt(v) + ")")
    except SimErr as e:
        want = ('err', f"<예외: [{e.payload}]>")
    got = (a['kind'], (a.get('results') or [None])[0] if a['kind'] == 'ok' else a.get('err'))
    if got != want:
        return f"result {got}, oracle {want}"
    if a['out'] != sim.out:
        return f"stdout {a['out']!r}, oracle {sim.out!r}"
    if a['rest'] != sim.rest:
        return f"unread stdin {a['rest']!r}, oracle {sim.rest!r}"
    return None


@monitor('c07_repeat')
def _repeat(case, a):
    """the same three-argument bind action value executed several times in one run: every execution decides afresh
    between continuation and handler (data = number of executions)"""
    reps = case.data
    lines = case.stdin.split("\n")[:-1] if case.stdin.endswith("\n") else case.stdin.split("\n")
    out, vals, pos = "", [], 0
    for _ in range(reps):
        line = lines[pos] if pos < len(lines) else None
        pos += 1 if line is not None else 0
        if line is not None and line.lstrip("+-").isdigit() and line == line.strip():
            out += f"k{int(line)}\n"
            vals.append(str(int(line) + 1))              # continuation: print k<n>, return n+1
        else:
            out += "h\n"
            vals.append("-1")                            # handler: print h, return -1
    want = ('ok', "IO([" + ", ".join(vals) + "])")
    got = (a['kind'], (a.get('results') or [None])[0] if a['kind'] == 'ok' else a.get('err'))
    if got != want:
        return f"result {got}, oracle {want}"
    if a['out'] != out:
        return f"stdout {a['out']!r}, oracle {out!r}"
    return None


def repeat_program(reps):
    """B = (read a line, parse it as an integer) >>= (λn. print k<n>; return n+1)  with handler (λe. print h; return -1);
    the program executes the one value B `reps` times and returns the list of results"""
    first = "(ㄹㅎㄱ (ㄱㅇㄱ ㅈㅅㅎㄴ ㄱㅅㅎㄴ ㅎ) ㄱㄹㅎㄷ)"                                  # fails when executed on a non-numeric line
    K = render(str_lit("k")); Hs = render(str_lit("h"))
    k = f"(({K} (ㄱㅇㄱ ㅁㅈㅎㄴ) ㄷㅎㄷ ㅈㄹㅎㄴ) ((ㄱㅇㄴ ㄴ ㄷㅎㄷ) ㄱㅅㅎㄴ ㅎ) ㄱㄹㅎㄷ ㅎ)"
    h = f"(({Hs} ㅈㄹㅎㄴ) (ㄴㄱ ㄱㅅㅎㄴ ㅎ) ㄱㄹㅎㄷ ㅎ)"
    B = f"({first} {k} {h} ㄱㄹㅎㄹ)"
    # b >>= λv1. b >>= λv2. … return [v1 … vn]; inside i nested continuations b is argument 0 of the function i levels out
    def build(level):
        if level == reps:
            return " ".join(f"ㄱㅇ{enc(reps - i)}" for i in range(1, reps + 1)) + f" ㅁㄹㅎ{enc(reps)} ㄱㅅㅎㄴ"
        return f"ㄱㅇ{enc(level)} ({build(level + 1)} ㅎ) ㄱㄹㅎㄷ"
    body = build(0)
    return f"{B} ({body} ㅎ) ㅎㄴ"


STDINS = ["a\x0bb\nc\n", "x\x0cy\n", "p\x1cq\x1dr\x1es\nt\n", "n\x85m\n", "l\u2028k\u2029j\nz\n", "tab\there\n", " lead and trail \n", "", "one\n", "one\ntwo\nthree\n", "no newline", "a\n\nb\n", "가나다\n😀\n", "\n", "x\ny"]


def cases(rng, tier):
    n = 600 if tier == 'quick' else 25000
    for _ in range(n):
        e, t = rand_tree(rng, rng.randint(0, 4 if tier == 'quick' else 6))
        yield Case(program=render(e), stdin=rng.choice(STDINS), tag='tree', monitor='c07_sim', data=t, nontrivial=e[0] == 'call' and len(render(e)) > 30)
    g = gen.Gen(rng, max_depth=3)
    g.neg_rel = False        # `pure` is embedded under one more function definition: outermost-relative frames would shift
    from .. import values as VL
    for _ in range(n // 4):
        stdin = rng.choice(STDINS)
        m, _ = rand_tree(rng, 2, bad=False)     # these families need an action that *has* a value
        # evaluating an expression performs no I/O: actions built and discarded inside pure code
        pure = g.gen('int', None, 2)
        yield Case(program=render(call(fundef(pure), m)), variants=(render(pure),), stdin=stdin, tag='discarded')
        yield Case(program=render(bi('ㅈㄷ', bi('ㅁㄹ', m, m))), variants=("ㄷ",), stdin=stdin, tag='in-list')
        yield Case(program=render(call(fundef(bi('ㄴ', arg(0), arg(0))), m)), variants=(render(gen.BOOL_T),), stdin=stdin, tag='compared')
        # the same action executed twice happens twice
        yield Case(program=render(call(fundef(bi('ㄱㄹ', arg(0), fundef(arg(0, 1)))), m)), stdin=stdin, tag='twice')
        # monad laws up to observable behaviour
        k = fundef(bi('ㄱㄹ', bi('ㅈㄹ', bi('ㅁㅈ', bi('ㅈㄷ', bi('ㅁㄹ', arg(0))))), fundef(bi('ㄱㅅ', arg(0, 1)))))
        h = fundef(bi('ㄱㅅ', bi('ㅁㄹ', arg(0))))
        # the laws are about *values*: v is a constructed, total value (ㄱㅅ is strict in its payload, so a failing
        # or non-terminating expression in its place is outside the law)
        v = VL.rand_value(rng, 1, ['int', 'str', 'bool', 'float', 'list', 'nil']).expr
        yield Case(program=render(bi('ㄱㄹ', bi('ㄱㅅ', v), k)), variants=(render(call(k, v)),), stdin=stdin, tag='left-identity')
        yield Case(program=render(bi('ㄱㄹ', m, raw('ㄱㅅ'))), variants=(render(m),), stdin=stdin, tag='right-identity')
        yield Case(program=render(bi('ㄱㄹ', bi('ㄱㄹ', m, k), h)),
                   variants=(render(bi('ㄱㄹ', m, fundef(bi('ㄱㄹ', call(k, arg(0)), h)))),), stdin=stdin, tag='associativity')
    # one action value, several executions, outcomes alternating between failure and success
    for reps in (2, 3):
        for stdin in ["x\n5\n7\n", "5\nx\n7\n", "5\n7\n9\n", "x\ny\nz\n", "x\n5\ny\n", "5\n\n6\n", "1\n"]:
            yield Case(program=repeat_program(reps), stdin=stdin, tag='repeat', monitor='c07_repeat', data=reps)
    # left identity for a payload that is itself an I/O action (KNOWN FINDING: do_IO auto-joins)
    yield Case(program="(ㄴ ㅁㅈㅎㄴ ㅈㄹㅎㄴ) ㄱㅅㅎㄴ (ㄱ ㄱㅅㅎㄴ ㅎ) ㄱㄹㅎㄷ", variants=("(ㄴ ㅁㅈㅎㄴ ㅈㄹㅎㄴ) (ㄱ ㄱㅅㅎㄴ ㅎ) ㅎㄴ",), tag='left-identity-io-payload',
               monitor='c07_tag')
    # ㄹ at end of input yields the empty value and consumes nothing; ㅈㄹ writes string + newline
    yield Case(program="ㄹㅎㄱ", stdin="", tag='eof', monitor='c07_sim', data=('read',))
    yield Case(program="ㄹㅎㄱ (ㄹㅎㄱ ㅎ) ㄱㄹㅎㄷ", stdin="only", tag='eof2', monitor='c07_sim', data=('bind', ('read',), ('ignore', ('read',)), None))


@monitor('c07_tag')
def _tag(case, a):
    return None


def post(recs, cases):
    return None


SPEC = {
    'lean': ['C07', 'NatSemIO'],
    'cases': cases,
    'big': True,
    'stream': 'C07 bind-tree stream',
    'rule': 'random bind trees (depth ≤ 4 / 6, left- and right-nested, continuations that ignore / print / return their '
            'argument, handlers present / absent, throwing actions) × 8 stdin contents (empty, with / without final newline, '
            'blank lines, astral characters): result, stdout and unread stdin against an independent sequential oracle and '
            'against the model; actions built but discarded inside pure code (argument, list element, operand of ㄴ) must '
            'leave no trace; an action executed twice happens twice; the three monad laws as program pairs on all '
            'observables. Non-trivial = tree with at least one bind',
    'trusted': ['the sequential oracle uh/props/c07.py:Sim'],
    'assumptions': ['stdin is a UTF-8 text stream whose only line terminator is "\\n" (the harness opens it with newline="\\n")'],
}
