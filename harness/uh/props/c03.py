"""C03 — unneeded sub-expressions are never evaluated."""
from .. import gen
from ..gen import lit, bi, raw, call, fundef, arg, render, enc
from ..corr import Case

# payloads that are observable the moment they are evaluated
PAYLOADS = [
    ("throw", "(ㄴ ㄷㅂㅎㄴ ㄷㅈㅎㄴ)"),                      # raises a user exception
    ("illtyped", "(ㅂㄱㅎㄱ ㅎㄱ)"),                          # calling the empty value: type exception
    ("diverge", "(ㄴ ㄱㅇ ㅎㄱ ㄷㅎㄷ ㅎ ㅎㄱ)"),               # f() = 1 + f(): runs into the evaluator's limit
    ("unknown", "(ㅈㅈㅈㅈㅈ ㅎㄱ)"),                          # unknown built-in name
    ("baddiv", "(ㄴ ㄱ ㄴㄴㅎㄷ)"),                            # division by zero
    ("badidx", "(ㄹ ㅇㄱ)"),
    ("badfunref", "(ㅈㅈㅈ ㅇ)"),                             # function reference 511 levels out: out of range
    ("badfunref-neg", "(ㅈㅈㅈㄱ ㅇ)"),                       # … counted from the outermost                                  # argument index out of range (inside a function: also out of range)
]
HARMLESS = "ㄱ"


def templates(rng, g):
    """(program text with a {X} hole in a position the specification declares non-strict)"""
    gi = lambda: render(g.gen('int', None, 3))
    gb = lambda: render(g.gen('bool', None, 3))
    out = []
    # an argument its function never uses
    out.append(("unused-arg", f"{{X}} {gi()} (ㄴㅇㄱ ㅎ) ㅎㄷ"))
    out.append(("unused-arg2", f"{gi()} {{X}} {gi()} (ㄱㅇㄱ ㄷㅇㄱ ㄷㅎㄷ ㅎ) ㅎㄹ"))
    out.append(("unused-outer-arg", f"{{X}} {gi()} ((ㄴㅇㄴ ㅎ) ㅎㄱ ㅎ) ㅎㄷ"))
    # the branch a Boolean call does not select
    out.append(("bool-true", f"{gi()} {{X}} (ㅈㅈㅎㄱ) ㅎㄷ"))
    out.append(("bool-false", f"{{X}} {gi()} (ㄱㅈㅎㄱ) ㅎㄷ"))
    out.append(("bool-computed", f"{gi()} {{X}} ({enc(3)} {enc(3)} ㄴㅎㄷ) ㅎㄷ"))
    # operands after the deciding one in Boolean ㄱ / ㄷ
    out.append(("and-after-false", f"(ㄱㅈㅎㄱ) {{X}} ㄱㅎㄷ"))
    out.append(("and-after-false3", f"(ㅈㅈㅎㄱ) (ㄱㅈㅎㄱ) {{X}} {{X}} ㄱㅎㅁ"))
    out.append(("or-after-true", f"(ㅈㅈㅎㄱ) {{X}} ㄷㅎㄷ"))
    out.append(("or-after-true3", f"(ㄱㅈㅎㄱ) (ㅈㅈㅎㄱ) {{X}} ㄷㅎㄹ"))
    # list elements / dictionary values that are never inspected
    out.append(("list-len", f"({gi()} {{X}} {gi()} ㅁㄹㅎㄹ) ㅈㄷㅎㄴ"))
    out.append(("list-index", f"ㄱ ({gi()} {{X}} ㅁㄹㅎㄷ) ㅎㄴ"))
    out.append(("list-slice", f"ㄱ ((ㄴ {{X}} ㄷ ㅁㄹㅎㄹ) ㄷ ㅂㅈㅎㄷ) ㅎㄴ"))
    out.append(("list-concat", f"ㄱ ((ㄴ {{X}} ㅁㄹㅎㄷ) ({{X}} ㅁㄹㅎㄴ) ㄷㅎㄷ) ㅎㄴ"))
    out.append(("dict-value", f"ㄴ (ㄴ {gi()} ㄷ {{X}} ㅅㅈㅎㅁ) ㅎㄴ"))
    out.append(("dict-merge", f"ㄴ ((ㄴ {gi()} ㅅㅈㅎㄷ) (ㄷ {{X}} ㅅㅈㅎㄷ) ㄷㅎㄷ) ㅎㄴ"))
    out.append(("map-unused", f"ㄱ (({{X}} {{X}} ㅁㄹㅎㄷ) (ㄹ ㅎ) ㅁㄷㅎㄷ) ㅎㄴ"))
    out.append(("equals-after-diff", f"ㄱ ㄴ {{X}} ㄴㅎㄹ"))
    out.append(("try-not-raised", f"{gi()} ({{X}} ㅎ) ㅅㄷㅎㄷ"))
    # the handler *expression itself* is unneeded when nothing is raised (seeded change S03g evaluated it up front)
    out.append(("try-handler-expr-unneeded", f"{gi()} {{X}} ㅅㄷㅎㄷ"))
    out.append(("try-handler-arg-unneeded", f"{gi()} {{X}} (ㄱ ㅇㄱ ㄴ ㅇㄱ ㅅㄷㅎㄷ ㅎ) ㅎㄷ"))
    # an unused argument *captured* by a function value that travels through the deep-forcing positions (ㅅㄷ result, ㄱㅅ
    # argument, ㅅㅈ key): deep forcing descends into lists / dictionaries / exceptions, never into a function's captured
    # environment (seeded change S03h)
    out.append(("captured-unused-through-try", f"(({{X}} ((ㅈ ㅎ) ㅎ) ㅎㄴ) ((ㄱㄴ ㅎ) ㅎ) ㅅㄷㅎㄷ) ㅎㄱ"))
    out.append(("captured-unused-through-try-list", f"((({{X}} ((ㅈ ㅎ) ㅎ) ㅎㄴ) ㅁㄹㅎㄴ) (ㄱ ㅎ) ㅅㄷㅎㄷ) ㅈㄷㅎㄴ"))
    out.append(("captured-unused-through-return", f"({{X}} ((ㅈ ㅎ) ㅎ) ㅎㄴ) ㄱㅅㅎㄴ"))
    out.append(("captured-unused-as-key", f"({{X}} ((ㅈ ㅎ) ㅎ) ㅎㄴ) ㄴ ㅅㅈㅎㄷ"))
    out.append(("captured-unused-in-exception", f"(((ㄷ ({{X}} ((ㅈ ㅎ) ㅎ) ㅎㄴ) ㄷㅂㅎㄷ) ㄷㅈㅎㄴ) (ㄱ ㄱㅇㄱ ㅎㄴ ㅎ) ㅅㄷㅎㄷ)"))
    # a *failed* dictionary lookup inspects the keys only: the values (and what they contain) stay unevaluated also on the
    # not-found path (seeded change S03i printed the whole dictionary into the error message)
    out.append(("dict-miss-value-unneeded", f"(ㄹ (ㄴ {{X}} ㅅㅈㅎㄷ) ㅎㄴ) (ㄴ ㄱㅇㄱ ㅎㄴ ㅎ) ㅅㄷㅎㄷ"))
    out.append(("dict-miss-nested-value-unneeded", f"(ㄹ (ㄴ ({{X}} ㅁㄹㅎㄴ) ㄷ ㄷ ㅅㅈㅎㅁ) ㅎㄴ) (ㄴ ㄱㅇㄱ ㅎㄴ ㅎ) ㅅㄷㅎㄷ"))
    out.append(("dict-miss-uncaught", f"ㄹ (ㄴ {{X}} ㅅㅈㅎㄷ) ㅎㄴ"))
    # what the *handler* of a ㅅㄷ returns is an ordinary lazy result: elements / values of a container it returns that are never
    # inspected stay unevaluated (only the protected value is evaluated fully) (seeded change S03j deep-forced the handler's result)
    out.append(("try-handler-result-elem-unneeded", f"ㄴ ((ㄴ ㄷㅂㅎㄴ ㄷㅈㅎㄴ) ({{X}} ㅈ ㅁㄹㅎㄷ ㅎ) ㅅㄷㅎㄷ) ㅎㄴ"))
    out.append(("try-handler-result-value-unneeded", f"ㄴ ((ㄴ ㄷㅂㅎㄴ ㄷㅈㅎㄴ) (ㄱ {{X}} ㄴ ㅈ ㅅㅈㅎㅁ ㅎ) ㅅㄷㅎㄷ) ㅎㄴ"))
    out.append(("try-handler-result-len", f"((ㄱ ㄱ ㄴㄴㅎㄷ) ({{X}} ㅁㄹㅎㄴ ㅎ) ㅅㄷㅎㄷ) ㅈㄷㅎㄴ"))
    out.append(("try-handler-result-nested", f"ㄱ (ㄴ ((ㄴ ㄷㅂㅎㄴ ㄷㅈㅎㄴ) (({{X}} ㅁㄹㅎㄴ) (ㅈ ㅁㄹㅎㄴ) ㅁㄹㅎㄷ ㅎ) ㅅㄷㅎㄷ) ㅎㄴ) ㅎㄴ"))
    out.append(("try-handler-list-unneeded", f"({gi()} ㅁㄹㅎㄴ) {{X}} ㅅㄷㅎㄷ"))
    out.append(("fold-init-unused", f"(ㄴ ㅁㄹㅎㄴ) {{X}} (ㄴㅇㄱ ㅎ) ㅅㄹㅎㄹ".replace("(ㄴㅇㄱ ㅎ)", "(ㄱㅇㄱ ㅎ)")))
    # arguments handed to a user function *by a built-in* (fold / filter / pipe / spread / collect) that the
    # function never uses, and list elements those built-ins pass along without inspecting them
    out.append(("foldl-acc-unused", f"(ㄴㅇㄱ ㅎ) ({{X}} {gi()} {gi()} ㅁㄹㅎㄹ) ㅅㄹㅎㄷ"))
    out.append(("foldl-init-unused", f"(ㄴㅇㄱ ㅎ) {{X}} ({gi()} {gi()} ㅁㄹㅎㄷ) ㅅㄹㅎㄹ"))
    out.append(("foldl-elem-unused", f"(ㄱㅇㄱ ㅎ) ({gi()} {{X}} {{X}} ㅁㄹㅎㄹ) ㅅㄹㅎㄷ"))
    out.append(("foldl-acc-dropped-midway", f"(ㄱㅇㄱ ㄴㅇㄱ (ㄴㅇㄱ ㄷ ㅈㅎㄷ) ㅎㄷ ㅎ) ({{X}} ㄴ ㄹ ㅁ ㅁㄹㅎㅁ) ㅅㄹㅎㄷ"))
    out.append(("foldr-acc-unused", f"({gi()} {gi()} {{X}} ㅁㄹㅎㄹ) (ㄱㅇㄱ ㅎ) ㅅㄹㅎㄷ"))
    out.append(("foldr-init-unused", f"({gi()} {gi()} ㅁㄹㅎㄷ) {{X}} (ㄱㅇㄱ ㅎ) ㅅㄹㅎㄹ"))
    out.append(("foldr-elem-unused", f"({{X}} {{X}} {gi()} ㅁㄹㅎㄹ) (ㄴㅇㄱ ㅎ) ㅅㄹㅎㄷ"))
    out.append(("filter-elem-uninspected", f"(({{X}} {gi()} {{X}} ㅁㄹㅎㄹ) (ㅈㅈㅎㄱ ㅎ) ㅅㅂㅎㄷ) ㅈㄷㅎㄴ"))
    out.append(("filter-kept-unused", f"ㄴ (({{X}} {gi()} ㅁㄹㅎㄷ) (ㅈㅈㅎㄱ ㅎ) ㅅㅂㅎㄷ) ㅎㄴ"))
    out.append(("pipe-arg-unused", f"{{X}} ((ㄹ ㅎ) (ㄱㅇㄱ ㅎ) ㄴㄱㅎㄷ) ㅎㄴ"))
    out.append(("pipe-stage-result-unused", f"ㄱ (({{X}} ㅎ) ({gi()} ㅎ) ㄴㄱㅎㄷ) ㅎㄴ"))
    out.append(("pipe-passthrough-unused", f"{{X}} ((ㄱㅇㄱ ㅎ) ({gi()} ㅎ) ㄴㄱㅎㄷ) ㅎㄴ"))
    out.append(("pipe-3-stage-unused", f"ㄱ ((ㄱㅇㄱ ㅎ) ({{X}} ㅎ) ((ㄱㅇㄱ ㅁㄹㅎㄴ) ㅈㄷㅎㄴ ㅎ) ㄴㄱㅎㄹ) ㅎㄴ"))
    out.append(("pipe-bool-unselected", f"ㄱ (({{X}} ㅎ) ({gi()} ㄱㅇㄱ (ㅈㅈㅎㄱ) ㅎㄷ ㅎ) ㄴㄱㅎㄷ) ㅎㄴ"))
    out.append(("spread-elem-unused", f"({{X}} {gi()} ㅁㄹㅎㄷ) ((ㄴㅇㄱ ㅎ) ㅁㅂㅎㄴ) ㅎㄴ"))
    out.append(("collect-elem-unused", f"{{X}} {gi()} ((ㄱㅇㄱ ㅈㄷㅎㄴ ㅎ) ㅂㅂㅎㄴ) ㅎㄷ"))
    out.append(("map-result-len", f"(({{X}} {{X}} ㅁㄹㅎㄷ) (ㄱㅇㄱ ㄴ ㄷㅎㄷ ㅎ) ㅁㄷㅎㄷ) ㅈㄷㅎㄴ"))
    out.append(("list-in-list-len", f"(({{X}} ㅁㄹㅎㄴ) ({{X}} {{X}} ㅁㄹㅎㄷ) ㅁㄹㅎㄷ) ㅈㄷㅎㄴ"))
    # exception contents are as lazy as list elements: building, throwing, catching and partially inspecting an
    # exception never evaluates the contents nobody looks at
    # (ㄷㅂ itself evaluates its direct arguments to weak-head form — that is not a declared non-strict position;
    # the lists / dictionaries inside stay lazy)
    out.append(("exc-built-uninspected", f"ㄱ (ㅈ ({{X}} ㅁㄹㅎㄴ) (ㄴ {{X}} ㅅㅈㅎㄷ) ㄷㅂㅎㄹ) ㅎㄴ"))
    out.append(("exc-thrown-uninspected", f"((ㅈ ({{X}} ㅁㄹㅎㄴ) ㄷㅂㅎㄷ) ㄷㅈㅎㄴ) (ㄱ ㄱㅇㄱ ㅎㄴ ㅎ) ㅅㄷㅎㄷ"))
    out.append(("exc-thrown-dict-uninspected", f"((ㅈ (ㄴ {{X}} ㅅㅈㅎㄷ) ㄷㅂㅎㄷ) ㄷㅈㅎㄴ) (ㄱ ㄱㅇㄱ ㅎㄴ ㅎ) ㅅㄷㅎㄷ"))
    out.append(("exc-thrown-handler-ignores", f"((ㅈ ({{X}} ㅁㄹㅎㄴ) ㄷㅂㅎㄷ) ㄷㅈㅎㄴ) ({gi()} ㅎ) ㅅㄷㅎㄷ"))
    out.append(("exc-thrown-nested", f"((ㅈ (({{X}} ㅁㄹㅎㄴ) ㄴ ㅁㄹㅎㄷ) ㄷㅂㅎㄷ) ㄷㅈㅎㄴ) (ㄴ (ㄴ ㄱㅇㄱ ㅎㄴ) ㅎㄴ ㅎ) ㅅㄷㅎㄷ"))
    out.append(("closure-captured-unused", f"{{X}} ((ㄹ ㅎ) ㅎ) ㅎㄴ ㅎㄱ"))
    return out


def cases(rng, tier):
    rounds = 12 if tier == 'quick' else 400
    g = gen.Gen(rng, max_depth=3)
    for _ in range(rounds):
        for name, tpl in templates(rng, g):
            ref = tpl.replace("{X}", HARMLESS)
            vs = tuple(tpl.replace("{X}", p) for _, p in PAYLOADS)
            # every payload variant must behave exactly like the harmless reference on the implementation;
            # the reference and one variant are also compared with the model
            yield Case(program=ref, variants=vs, tag=name, stdin="unread\n")
            k = rng.randrange(len(PAYLOADS))
            yield Case(program=vs[k], tag=name + ":" + PAYLOADS[k][0], stdin="unread\n")


SPEC = {
    'lean': ['C03', 'ByName'],
    'cases': cases,
    'big': True,
    'stream': 'C03 marked-position stream',
    'rule': '59 templates with a marked non-strict position (unused argument, arguments and list elements passed on by fold / filter / pipe (also results of intermediate pipe stages) / spread / collect / map to functions that ignore them, exception contents built / thrown / caught but not inspected, unselected Boolean branch, operands after the '
            'deciding one of Boolean ㄱ / ㄷ, uninspected list elements / dictionary values, map over unused elements, ㄴ after '
            'the first difference, handler of a ㅅㄷ that does not raise, captured but unused argument) × random surrounding '
            'sub-expressions × 8 payloads (user exception, type error, non-terminating recursion bounded only by the '
            'evaluator limit, unknown name, division by zero, bad argument index, dangling function references): every payload variant must give the '
            'same result, stdout and remaining stdin as the harmless literal, and the model must agree. Non-trivial: all',
    'trusted': [],
    'assumptions': ['an unneeded I/O action is never *executed* because evaluation performs no I/O at all (C07); it is therefore not a separate payload'],
}
