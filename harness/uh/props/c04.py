"""C04 — every failure is a language-level exception, never a host-runtime crash."""
import itertools
from .. import gen
from ..gen import lit, bi, raw, call, fundef, arg, str_lit, bytes_lit, render, enc
from ..corr import Case, monitor

HUGE = 10 ** 400          # does not fit a double
EDGE = {
    'int': [lit(0), lit(1), lit(-1), lit(2), lit(7), lit(255), lit(-129), lit(2 ** 63), lit(-2 ** 64), lit(HUGE), lit(-HUGE), lit(36), lit(37)],
    'float': [raw("(ㄱ ㅅㅅㅎㄴ)"), raw("(ㄱ ㅅㅅㅎㄴ ㄴㄱ ㄱㅎㄷ)"), raw("(ㄷ ㄴㄱ ㅅㅎㄷ)"), raw("(ㅂ ㅅ ㅁ ㅂㅎㄹ)"),
              raw("(ㅂ ㅅ ㅁ ㅂㅎㄹ ㄴㄱ ㄱㅎㄷ)"), raw("(ㅂ ㅅ ㄴ ㅂㅎㄹ)"), bi('ㅅㅅ', str_lit("1e308")), bi('ㅅㅅ', str_lit("5e-324")),
              bi('ㅅㅅ', str_lit("-2.5")), bi('ㅅㅅ', str_lit("1e22")), raw("(ㅂ ㅅ ㅂ ㅂㅎㄹ)")],
    'complex': [bi('ㅂㅅ', lit(0), lit(1)), bi('ㅂㅅ', lit(1), lit(-1)), bi('ㅂㅅ', raw("(ㅂ ㅅ ㅁ ㅂㅎㄹ)"), lit(0)), bi('ㅂㅅ', lit(0), lit(0))],
    'bool': [gen.BOOL_T, gen.BOOL_F],
    'str': [str_lit(s) for s in ["", "a", "12", "-7", "0x1F", "1.5", " 3 ", "1e5", "nan", "inf", "1_0", "z", "가😀", "a,b", "1.2.3", "1+2i", "i"]],
    'bytes': [bytes_lit(b) for b in [b"", b"a", b"\xff", b"\x00\x01", b"ab,cd", b"\xff\xfe\x00\x00", b"\xed\xa0\x80"]],
    'list': [bi('ㅁㄹ'), bi('ㅁㄹ', lit(1)), bi('ㅁㄹ', lit(1), lit(2), lit(3)), bi('ㅁㄹ', str_lit("a"), str_lit("b")),
             bi('ㅁㄹ', bytes_lit(b"a")), bi('ㅁㄹ', bi('ㅁㄹ', lit(1))), bi('ㅁㄹ', gen.BOOL_T, gen.BOOL_F), bi('ㅁㄹ', str_lit("a"), lit(1)),
             bi('ㅁㄹ', bi('ㄷㅈ', bi('ㄷㅂ', lit(9))))],
    'dict': [bi('ㅅㅈ'), bi('ㅅㅈ', lit(1), lit(2)), bi('ㅅㅈ', str_lit("k"), bi('ㅁㄹ', lit(1))),
             bi('ㅅㅈ', lit(1), lit(2), str_lit("k"), lit(3), bi('ㅂㄱ'), lit(4), bi('ㅁㄹ', lit(1)), lit(5)),      # keys of four kinds
             bi('ㅅㅈ', bi('ㅂㅅ', lit(0), lit(1)), lit(1), bi('ㅂㅅ', lit(1), lit(0)), lit(2), raw("(ㅈㅈㅎㄱ)"), lit(3))],
    'nil': [gen.NIL],
    'fn': [fundef(arg(0)), fundef(lit(3)), fundef(bi('ㄷ', arg(0), arg(1))), raw("(ㅂ ㅂㄷ ㄱ ㅂㅎㄹ)"), bi('ㄴㄱ'), bi('ㄴㄱ', raw('ㄷ')),
           bi('ㅁㅂ', raw('ㄷ')), bi('ㅂㅂ', raw('ㅈㄷ')), raw("(ㄱ ㄴ ㅂ ㅂ ㅂㅎㄷ ㅎㄷ)"), raw("(ㄴ ㄷ ㅈㅈㅎㄱ ㅂ ㅂ ㅂㅎㄷ ㅎㄹ)"),
           raw("(ㄹ ㄴ ㅂ ㅂ ㅂㅎㄷ ㅎㄷ)"), fundef(bi('ㄷㅈ', bi('ㄷㅂ', lit(1))))],
    'exc': [bi('ㄷㅂ'), bi('ㄷㅂ', lit(1), str_lit("x"))],
    'io': [bi('ㄱㅅ', lit(1)), bi('ㅈㄹ', str_lit("p")), bi('ㄹ'), bi('ㄱㅅ', bi('ㄱㅅ', lit(2))),
           bi('ㄱㄹ', bi('ㄹ'), fundef(bi('ㄱㅅ', arg(0))))],
    'lit': [raw('ㄷ'), raw('ㅈㅈ'), raw('ㅂㄱ')],    # bare literals naming built-ins (as arguments they are integers)
}
# lists whose elements are of *different* kinds (str + bytes, int + str, list + nil, …): element-wise operations must
# reject them with the language's type exception wherever they require one kind
import random as _random
_hr = _random.Random(20260929)
_elem = [k for k in EDGE if k not in ('io', 'lit')]
EDGE['hlist'] = [bi('ㅁㄹ', *[_hr.choice(EDGE[_hr.choice(_elem)]) for _ in range(_hr.randint(2, 3))]) for _ in range(60)] + \
                [bi('ㅁㄹ', str_lit("0"), bytes_lit(b"1")), bi('ㅁㄹ', bytes_lit(b"0"), str_lit("1")), bi('ㅁㄹ', lit(1), str_lit("1")),
                 bi('ㅁㄹ', str_lit("a"), gen.NIL), bi('ㅁㄹ', bi('ㅁㄹ', lit(1)), lit(2)), bi('ㅁㄹ', gen.BOOL_T, lit(1))]
KINDS = list(EDGE)
CALLEES = [raw(n) for n in gen.BUILTIN_NAMES] + [raw(m) for m in gen.MODULE_FNS] + [
    raw("(ㅂ ㅅ ㄹㄱ ㅂㅎㄹ)"), raw("(ㅂ ㅅ ㅅㄴ ㅂㅎㄹ)"), raw("(ㅂ ㅅ ㄴㅅ ㅂㅎㄹ)"), raw("(ㅂ ㅅ ㄱㅅ ㅂㅎㄹ)"), raw("(ㅂ ㅅ ㅅㄱ ㅂㅎㄹ)"),
    raw("(ㅂ ㅅ ㄷㄴ ㅂㅎㄹ)"), raw("(ㅂ ㅅ ㄴㄷ ㅂㅎㄹ)"), raw("ㅂ"), raw("ㄱㄱㄱ"), raw("ㅈㅈㅈㅈㅈ")]


def wrap_try(t):
    """every failing case is also run inside ㅅㄷ: the handler must receive the exception"""
    return bi('ㅅㄷ', t, fundef(bi('ㅁㄹ', lit(77), arg(0))))


@monitor('c04_caught')
def _caught(case, a):
    """`data` = outcome kind of the unwrapped program: if it raised a language exception, the
    wrapped program must yield the handler's result"""
    if a['kind'] == 'ok' and case.data == 'expect-handler':
        if not (a['results'] and a['results'][0].startswith('[77, <예외: ')):
            return None   # the body may simply have succeeded lazily; nothing to check
    if a['kind'] == 'err' and a.get('spans') == []:
        return 'language exception without a source location'
    return None


STD_SCRIPT = r'''
import sys
sys.path.insert(0, sys.argv[1])
from pbhhg_py.main import main
from pbhhg_py import abstract_syntax as AS
try:
    r = main("<t>", sys.argv[2], True)
    sys.stderr.write("RESULT\n")
except AS.UnsuspectedHangeulError as e:
    sys.stderr.write("LANGUAGE-EXCEPTION\n")
except RuntimeError as e:
    sys.stderr.write("LIMIT\n" if str(e) == "Maximum Stack Size Exceeded." else "HOST %s: %s\n" % (type(e).__name__, e))
except BaseException as e:
    sys.stderr.write("HOST %s: %s\n" % (type(e).__name__, e))
'''


@monitor('c04_std_closed')
def _std_closed(case, a):
    import subprocess, sys, tempfile, os
    from .. import common
    progs = {
        'print after closing descriptor 1': "ㄴ ㅈㄹ ㄱㄴㅎㄷ (ㄷ ㄱㅇㄱ ㅎㄴ ((ㄴ ㅁㅈㅎㄴ) ㅈㄹㅎㄴ ㅎ) ㄱㄹㅎㄷ ㅎ) ㄱㄹㅎㄷ",
        'print after closing descriptor 1, handled': "(ㄴ ㅈㄹ ㄱㄴㅎㄷ (ㄷ ㄱㅇㄱ ㅎㄴ ((ㄴ ㅁㅈㅎㄴ) ㅈㄹㅎㄴ ㅎ) ㄱㄹㅎㄷ ㅎ) ㄱㄹㅎㄷ) (ㄱㅇㄱ ㄱㅅㅎㄴ ㅎ) (ㄷ ㄱㅅㅎㄴ ㅎ) ㄱㄹㅎㄹ",
        'input after closing descriptor 0': "ㄱ ㄹ ㄱㄴㅎㄷ (ㄷ ㄱㅇㄱ ㅎㄴ (ㄹㅎㄱ ㅎ) ㄱㄹㅎㄷ ㅎ) ㄱㄹㅎㄷ",
        'write to descriptor 1 opened read-only': "ㄴ ㄹ ㄱㄴㅎㄷ ((ㄱ ㄴ ㅂ ㅂ ㅂㅎㄷ ㅎㄷ) (ㅁㅈㅎㄱ) ㅎㄴ ㅈㄹ ㄱㅇㄱ ㅎㄷ ㅎ) ㄱㄹㅎㄷ",
        'open a descriptor that is not open': "ㅈㅈㅈ ㄹ ㄱㄴㅎㄷ",
    }
    with tempfile.TemporaryDirectory(prefix='uhverif_std_') as d:
        sf = os.path.join(d, 'run.py')
        open(sf, 'w').write(STD_SCRIPT)
        for what, prog in progs.items():
            p = subprocess.run([sys.executable, sf, common.REPO, prog], input=b"abc\n", capture_output=True, cwd=d, timeout=60)
            verdict = p.stderr.decode('utf-8', 'replace').strip().splitlines()[-1:] or ['(no verdict)']
            if verdict[0].startswith('HOST') or verdict[0] == '(no verdict)':
                return f"{what}: {verdict[0]} (program {prog!r})"
    return None


def cases(rng, tier):
    per = 6 if tier == 'quick' else 120
    # (1) the call-shape matrix: every callee × arity 0..4 × sampled argument kinds × edge values
    for f in CALLEES:
        for arity in range(0, 5):
            for _ in range(per if arity else 1):
                args = [rng.choice(EDGE[rng.choice(KINDS)]) for _ in range(arity)]
                t = call(f, *args)
                yield Case(program=render(t), stdin="in\n", tag='matrix')
                if rng.random() < 0.25:
                    yield Case(program=render(wrap_try(t)), stdin="in\n", tag='matrix-try', monitor='c04_caught')
    # (2) every kind of value as a callee
    for k in KINDS:
        for v in EDGE[k]:
            for arity in range(0, 4):
                args = [rng.choice(EDGE[rng.choice(['int', 'int', 'str', 'float', 'bool', 'list'])]) for _ in range(arity)]
                yield Case(program=render(call(v, *args)), stdin="in\n", tag='value-callee')
    # (3) same-kind pairs for the binary arithmetic / comparison built-ins (deeper than random kinds reach)
    nums = EDGE['int'] + EDGE['float'] + EDGE['complex']
    for name in ['ㄱ', 'ㄷ', 'ㅅ', 'ㄴㄴ', 'ㄴㅁ', 'ㅈ', 'ㄴ']:
        pairs = list(itertools.product(nums, nums))
        rng.shuffle(pairs)
        for x, y in pairs[:(60 if tier == 'quick' else 10 ** 6)]:
            if name == 'ㅅ' and y[0] == 'lit' and abs(y[1]) > 2 ** 20:
                continue      # astronomically large integer powers: resource exhaustion, out of scope
            yield Case(program=render(bi(name, x, y)), tag='num-pair')
    for x, y, z in [(rng.choice(EDGE['int']), rng.choice(EDGE['int']), rng.choice(EDGE['int'])) for _ in range(40 if tier == 'quick' else 2000)]:
        yield Case(program=render(bi('ㅅ', x, y, z)), tag='powmod')
    # (3a) every callee on a mixed-kind list (alone, with a separator / function / second list)
    for f in CALLEES:
        for _ in range(3 if tier == 'quick' else 30):
            h = rng.choice(EDGE['hlist'])
            extra = rng.choice([[], [rng.choice(EDGE['str'])], [rng.choice(EDGE['bytes'])], [rng.choice(EDGE['fn'])], [rng.choice(EDGE['hlist'])], [lit(0)]])
            for args in ([h] + extra, extra + [h]):
                yield Case(program=render(call(f, *args)), stdin="in\n", tag='hetero-list')
        for h in EDGE['hlist'][-6:]:             # the hand-picked mixtures, every time
            yield Case(program=render(call(f, h)), stdin="in\n", tag='hetero-list')
            yield Case(program=render(call(f, h, rng.choice([str_lit(","), bytes_lit(b","), lit(0)]))), stdin="in\n", tag='hetero-list')
    # (3b) equality / keying over every pair of edge values of every kind (ㄴ asks both for their structural key)
    allv = [v for k in KINDS for v in EDGE[k]]
    prs = list(itertools.product(allv, allv))
    rng.shuffle(prs)
    for x, y in prs[:(300 if tier == 'quick' else 6000)]:
        yield Case(program=render(bi('ㄴ', x, y)), stdin="in\n", tag='eq-pair')
        if rng.random() < 0.3:
            yield Case(program=render(bi('ㅅㅈ', x, lit(1), y, lit(2))), stdin="in\n", tag='key-pair')
            yield Case(program=render(bi('ㄴ', bi('ㅁㄹ', x), bi('ㅁㄹ', y))), stdin="in\n", tag='eq-pair-nested')
    # (4) numeric strings and bases
    for s in EDGE['str']:
        for b in [None, 0, 1, 2, 8, 10, 16, 36, 37, -1]:
            for name in ['ㅈㅅ', 'ㅅㅅ']:
                t = bi(name, s) if b is None else bi(name, s, lit(b))
                yield Case(program=render(t), tag='numstr')
    # (5) file operations in every handle state
    yield from file_cases(rng, tier)
    yield from file_state_matrix(rng, tier)
    yield from file_key_cases(rng, tier)
    yield from refail_cases(rng, tier)
    yield from higher_order_cases(rng, tier)
    # (6) imports that cannot succeed
    yield from import_cases(rng, tier)
    # (8) the same callees invoked *by a built-in* instead of a call expression: as ㄱㄹ continuation and handler (called
    #     while the action is being executed), ㅅㄷ handler, and through map / filter / fold / pipe / spread / collect
    SITES = [
        ("bind-cont", lambda f, v: f"({v} ㄱㅅㅎㄴ) {f} ㄱㄹㅎㄷ"),
        ("bind-cont-handled", lambda f, v: f"(({v} ㄱㅅㅎㄴ) {f} ㄱㄹㅎㄷ) (ㄱㅇㄱ ㄱㅅㅎㄴ ㅎ) (ㄱㅇㄱ ㄱㅅㅎㄴ ㅎ) ㄱㄹㅎㄹ"),
        ("bind-handler", lambda f, v: f"((ㄱ ㄱㅅㅎㄴ) ({v} ㄷㅂㅎㄴ ㄷㅈㅎㄴ ㅎ) ㄱㄹㅎㄷ) (ㄱㅇㄱ ㄱㅅㅎㄴ ㅎ) {f} ㄱㄹㅎㄹ"),
        ("try-handler", lambda f, v: f"({v} ㄷㅂㅎㄴ ㄷㅈㅎㄴ) {f} ㅅㄷㅎㄷ"),
        ("map", lambda f, v: f"({v} {v} ㅁㄹㅎㄷ) {f} ㅁㄷㅎㄷ"),
        ("filter", lambda f, v: f"({v} ㅁㄹㅎㄴ) {f} ㅅㅂㅎㄷ"),
        ("foldl", lambda f, v: f"{f} ({v} {v} ㅁㄹㅎㄷ) ㅅㄹㅎㄷ"),
        ("foldr", lambda f, v: f"({v} {v} ㅁㄹㅎㄷ) {f} ㅅㄹㅎㄷ"),
        ("pipe", lambda f, v: f"{v} ((ㄱㅇㄱ ㅎ) {f} ㄴㄱㅎㄷ) ㅎㄴ"),
        ("spread", lambda f, v: f"({v} ㅁㄹㅎㄴ) ({f} ㅁㅂㅎㄴ) ㅎㄴ"),
        ("spread2", lambda f, v: f"({v} {v} ㅁㄹㅎㄷ) ({f} ㅁㅂㅎㄴ) ㅎㄴ"),
        ("collect", lambda f, v: f"{v} ({f} ㅂㅂㅎㄴ) ㅎㄴ"),
    ]
    for f in CALLEES:
        fr = "(" + render(f) + ")"
        for site, mk in SITES:
            for _ in range(2 if tier == 'quick' else 25):
                v = "(" + render(rng.choice(EDGE[rng.choice(KINDS)])) + ")"
                prog = mk(fr, v)
                yield Case(program=prog, stdin="in\n", tag='site-' + site)
                if rng.random() < 0.3:
                    yield Case(program=render(wrap_try(raw("(" + prog + ")"))), stdin="in\n", tag='site-' + site + '-try', monitor='c04_caught')
    # (8b) results too large to allocate: a shift by 2^63 − 1 … 2^63 bits, directly, folded, and as a ㄱㄹ continuation's work — a
    #      language exception (fixed defect aca8922: the host's MemoryError escaped)
    SH = "(ㅂ ㅂㄷ ㅈ ㅂㅎㄹ)"
    for big in (2 ** 63, 2 ** 63 - 1, 2 ** 62):
        b = gen.enc(big)
        for prog in (f"{b} {b} {SH} ㅎㄷ", f"({b} {b} ㅁㄹㅎㄷ) {SH} ㅅㄹㅎㄷ", f"ㄴ {b} {SH} ㅎㄷ",
                     f"({b} ㄱㅅㅎㄴ) (ㄱㅇㄱ ㄱㅇㄱ {SH} ㅎㄷ ㄱㅅㅎㄴ ㅎ) ㄱㄹㅎㄷ"):
            yield Case(program=prog, stdin="in\n", tag='too-large')
            yield Case(program=render(wrap_try(raw("(" + prog + ")"))), stdin="in\n", tag='too-large-try', monitor='c04_caught')
    # (8c) long *sequential* I/O loops (right-nested ㄱㄹ: h(n) = return n >>= λx. h(n−1); reading / printing 600 … 2500 lines one
    #      after another): no host RecursionError — an I/O loop is not a deep recursion (seeded change S04l let a bound action
    #      execute its follow-up action itself instead of handing it back to the do_IO trampoline)
    from . import c05 as _c05
    for n_ in (600, 2500):
        prog, _w = _c05.rbind(n_)
        yield Case(program=prog, stdin="in\n", tag='long-io-loop', format_io=True, timeout=120, fuel=400 * n_ + 10 ** 6)
        # count the lines of the input: loop(k) = ㄹ >>= λl. l is Nil ? return k : loop(k+1)
        count = "ㄱ ((ㄹㅎㄱ) ((ㄱㅇㄴ ㄱㅅㅎㄴ) ((ㄱㅇㄴ ㄴ ㄷㅎㄷ) ㄴㅇ ㅎㄴ) (ㄱㅇㄱ (ㅂㄱㅎㄱ) ㄴㅎㄷ) ㅎㄷ ㅎ) ㄱㄹㅎㄷ ㅎ) ㅎㄴ"
        yield Case(program=count, stdin="x\n" * n_, tag='long-io-loop-read', format_io=True, timeout=120, fuel=400 * n_ + 10 ** 6)
    # (9) the standard streams closed behind the interpreter's back (ㄱㄴ on descriptor 0 / 1, then ㄷ): in a child process
    yield Case(program="ㄱ", tag='std-closed', monitor='c04_std_closed', skip_model=True, timeout=120)
    # (7) random program texts
    for _ in range(200 if tier == 'quick' else 20000):
        text = " ".join(rng.choice(["ㄱ", "ㄴ", "ㄷ", "ㅁㄹ", "ㅎ", "ㅎㄴ", "ㅎㄷ", "ㅇ", "ㅇㄱ", "ㄱㅇ", "ㅈㅈ", "ㄷㅈ", "ㄴㄱ", "ㅂ", "ㅅㄷ", "ㄱㅅ", "ㄱㄹ"])
                        for _ in range(rng.randint(1, 9)))
        yield Case(program=text, stdin="q\n", tag='random-text')


FILE_OPS = ["{n} ㄹ {f} ㅎㄷ", "{b} ㅈㄹ {f} ㅎㄷ", "ㅈ {f} ㅎㄴ", "{n} ㅈ {f} ㅎㄷ", "ㅈㄱㅂㄷ {n} ㅈ {f} ㅎㄹ", "ㅅㅈㅂㄷ {n} ㅈ {f} ㅎㄹ",
            "ㄱ {f} ㅎㄴ", "{n} ㄱ {f} ㅎㄷ", "ㄷ {f} ㅎㄴ", "{n} ㄴ {f} ㅎㄷ", "{f} ㅎㄱ", "{s} ㅈㄹ {f} ㅎㄷ", "{n} {n} ㅈ {f} ㅎㄹ",
            "{b} ㄹ {f} ㅎㄷ"]
MODES = ['ㄹ', 'ㅈㄹ', 'ㅈㄱ', 'ㄹㅈㄹ', 'ㅈㄹㄹ', 'ㅈㄱㄹ', 'ㄱ', 'ㄹㄹ']


def file_program(rng, path, mode, ops, handler=False):
    """open >>= λf. op1 >>= λ_. op2 … >>= λ_. return [results…]"""
    n = len(ops)
    def build(i):
        if i == n:
            items = " ".join(f"ㄱㅇ{enc(n - 1 - j)}" for j in range(n))
            return f"{items} ㅁㄹㅎ{enc(n)} ㄱㅅㅎㄴ"
        f = f"ㄱㅇ{enc(i)}"
        op = ops[i].format(f=f, n=enc(rng.choice([0, 1, 2, -1, -2, 5, 10 ** 30])), b=render(bytes_lit(b"xy")), s=render(str_lit("s")))
        h = f" (ㄱㅇㄱ ㄱㅅㅎㄴ ㅎ)" if handler else ""
        return f"{op} ({build(i + 1)} ㅎ){h} ㄱㄹㅎ{'ㄹ' if handler else 'ㄷ'}"
    return f"{render(str_lit(path))} {mode} ㄱㄴㅎㄷ ({build(0)} ㅎ) ㄱㄹㅎㄷ"


def file_cases(rng, tier):
    n = 150 if tier == 'quick' else 6000
    for i in range(n):
        mode = rng.choice(MODES)
        path = rng.choice(["f.bin", "missing.bin", "sub", "sub/g.bin", "nodir/h.bin", "", "f.bin/x"])
        ops = [rng.choice(FILE_OPS) for _ in range(rng.randint(0, 4))]
        fs = {"f.bin": b"0123456789", "sub/g.bin": b"abc"}
        yield Case(program=file_program(rng, path, mode, ops, handler=rng.random() < 0.3), fs=fs, tag='file')


def file_state_matrix(rng, tier):
    """systematic: every open mode × handle state (fresh, closed, closed twice, positioned beyond the end, after a failed
    operation) × every operation form — random histories reach a given (mode, state, operation) triple only by luck
    (seeded change S04h: a write on a *closed append-mode* handle)"""
    fs = {"f.bin": b"0123456789"}
    CLOSE, SEEKFAR, BADREAD = "ㄷ {f} ㅎㄴ", "{n} ㅈ {f} ㅎㄷ", "{b} ㄹ {f} ㅎㄷ"
    states = {'fresh': [], 'closed': [CLOSE], 'closed-twice': [CLOSE, CLOSE], 'beyond-end': [SEEKFAR], 'after-failure': [BADREAD]}
    for mode in MODES[:6]:
        for sname, prefix in states.items():
            for op in FILE_OPS:
                for handler in (False, True):
                    if handler and tier == 'quick' and rng.random() < 0.5:
                        continue
                    yield Case(program=file_program(rng, "f.bin", mode, prefix + [op], handler=handler), fs=fs, tag='file-state-' + sname)


def file_key_cases(rng, tier):
    """file actions are *values*: every operation form, built but not executed, compared with ㄴ, used as a dictionary key and
    compared inside a list (seeded change S04i put a host integer among a seek action's contents: keying it crashed)"""
    fs = {"f.bin": b"0123456789"}
    for mode in ('ㄹ', 'ㄹㅈㄹ', 'ㅈㄱㄹ'):
        for op in FILE_OPS:
            for n_ in (0, 2, -1):
                a = "(" + op.format(f="ㄱㅇㄱ", n=enc(n_), b=render(bytes_lit(b"xy")), s=render(str_lit("s"))) + ")"
                body = f"({a} {a} ㄴㅎㄷ) ({a} ({a} ㄴ ㅅㅈㅎㄷ) ㅎㄴ) (({a} ㅁㄹㅎㄴ) ({a} ㅁㄹㅎㄴ) ㄴㅎㄷ) ({a} (ㄱ ㅈ ㄱㅇㄱ ㅎㄷ) ㄴㅎㄷ) ㅁㄹㅎㅁ ㄱㅅㅎㄴ"
                yield Case(program=f"{render(str_lit('f.bin'))} {mode} ㄱㄴㅎㄷ ({body} ㅎ) ㄱㄹㅎㄷ", fs=fs, tag='file-action-key')


def refail_cases(rng, tier):
    """a failing element of a *shared* lazy collection is intercepted once (ㅅㄷ) and the collection is then touched again —
    printed, compared, keyed, indexed, spread: the remembered failure is raised again as a language exception each time
    (seeded change S04j answered a remembered failure as if it were a value: host AttributeError)"""
    bads = ["(ㄱ ㄱ ㄴㄴㅎㄷ)", "(ㄴ ㄷㅂㅎㄴ ㄷㅈㅎㄴ)", "(ㅂㄱㅎㄱ ㅎㄱ)", "(ㅈㅈㅈㅈㅈ ㅎㄱ)", "(ㄹ ㅇㄱ)"]
    wraps = ["({B} ㅁㄹㅎㄴ)", "(ㄴ {B} ㅁㄹㅎㄷ)", "(ㄴ {B} ㅅㅈㅎㄷ)", "(({B} ㅁㄹㅎㄴ) ㅁㄹㅎㄴ)", "({B} ㅁㄹㅎㄴ ㄷㅂㅎㄴ)"]
    firsts = ["((ㄱ ㄱㅇㄱ ㅎㄴ) (ㄱ ㅎ) ㅅㄷㅎㄷ)", "((ㄱㅇㄱ ㅁㅈㅎㄴ) (ㄱ ㅎ) ㅅㄷㅎㄷ)", "((ㄱㅇㄱ ㄱㅇㄱ ㄴㅎㄷ) (ㄱ ㅎ) ㅅㄷㅎㄷ)", "((ㄱㅇㄱ ㄱㅅㅎㄴ) (ㄱ ㅎ) ㅅㄷㅎㄷ)"]
    thens = ["ㄱㅇㄱ", "(ㄱㅇㄱ ㄱㅇㄱ ㄴㅎㄷ)", "(ㄱ ㄱㅇㄱ ㅎㄴ)", "(ㄱㅇㄱ ㄴ ㅅㅈㅎㄷ)", "(ㄱㅇㄱ ㅈㄷㅎㄴ)", "(ㄱㅇㄱ ㄱㅅㅎㄴ)", "((ㄱㅇㄱ ㅁㅈㅎㄴ) (ㄴ ㅎ) ㅅㄷㅎㄷ)",
             "((ㄱㅇㄱ ㄱㅇㄱ ㄴㅎㄷ) (ㄱㅇㄱ ㅎ) ㅅㄷㅎㄷ)"]
    for b in bads:
        for wr in wraps:
            for f1 in (firsts if tier != 'quick' else rng.sample(firsts, 2)):
                for th in (thens if tier != 'quick' else rng.sample(thens, 3)):
                    yield Case(program=f"{wr.replace('{B}', b)} ({f1} {th} ㅁㄹㅎㄷ ㅎ) ㅎㄴ", tag='refail-shared')


def higher_order_cases(rng, tier):
    """systematic: every higher-order built-in × empty / one- / two-element sequences × every kind of function argument, in both
    argument orders and with / without an initial value — the empty-sequence corners are reached only by luck in the random
    matrix (seeded change S04k: ㅅㄹ without initial value on an empty list, host StopIteration)"""
    seqs = ["(ㅁㄹㅎㄱ)", "(ㄴ ㅁㄹㅎㄴ)", "(ㄴ ㄷ ㅁㄹㅎㄷ)", "(ㅁㅈㅎㄱ)", "(ㅂㄱㅎㄱ)", "ㄱ"]
    fns = ["ㄷ", "ㄱ", "ㅁㅈ", "(ㄱㅇㄱ ㄴㅇㄱ ㄷㅎㄷ ㅎ)", "(ㄱㅇㄱ ㅎ)", "(ㅈㅈㅎㄱ ㅎ)", "(ㄷ ㄱ ㄴㄱㅎㄷ)", "ㄴ"]
    forms = ["{q} {f} ㅁㄷㅎㄷ", "{f} {q} ㅁㄷㅎㄷ", "{q} {f} ㅅㅂㅎㄷ", "{q} {f} ㅅㄹㅎㄷ", "{f} {q} ㅅㄹㅎㄷ", "{q} {f} ㄹ ㅅㄹㅎㄹ", "{f} {q} ㄹ ㅅㄹㅎㄹ",
             "ㄹ {q} {f} ㅅㄹㅎㄹ", "{q} ㅂㄹㅎㄴ", "{q} ㄱㅁㅎㄴ", "{q} {f} ㄴㄱㅎㄷ", "{q} ({f} ㅁㅂㅎㄴ) ㅎㄴ", "{q} ({f} ㅂㅂㅎㄴ) ㅎㄴ"]
    for q in seqs:
        for f in fns:
            for form in forms:
                prog = form.format(q=q, f=f)
                yield Case(program=prog, stdin="in\n", tag='higher-order-corners')
                if rng.random() < (0.3 if tier == 'quick' else 1.0):
                    yield Case(program=render(wrap_try(raw("(" + prog + ")"))), stdin="in\n", tag='higher-order-corners-try', monitor='c04_caught')


def import_cases(rng, tier):
    fs = {"가.pbhhg": "ㄱ ㄴ ㄷㅎㄷ".encode(), "나.pbhhg": b"", "다.pbhhg": "ㄱ ㄴ".encode(), "라.pbhhg": b"\xff\xfe",
          "마/바.pbhhg": "ㄹ".encode(), "사": "ㅁ".encode(), "마2/x": b"", "아.pbhhg": "ㅎㄴ".encode(),
          "자.pbhhg": "ㅂ ㅅ ㅂ ㅂㅎㄹ".encode(), "ㄱ.txt": "ㄴ".encode(), "각.txt": "ㄷ".encode()}
    progs = ["ㄱ ㅂㅎㄴ", "ㄴ ㅂㅎㄴ", "ㄷ ㅂㅎㄴ", "ㄹ ㅂㅎㄴ", "ㅁ ㅂ ㅂㅎㄷ", "ㅁ ㅅ ㅂㅎㄷ", "ㅅ ㄱ ㅂㅎㄷ", "ㅅ ㅂㅎㄴ", "ㅈㅈ ㅂㅎㄴ", "ㅂ ㅈㅈ ㅂㅎㄷ", "ㅂ ㅅ ㅈㅈ ㅂㅎㄹ",
             "ㅂ ㅅ ㅂ ㄱ ㅂㅎㅁ", "ㅂㅎㄱ", "ㅇ ㅂㅎㄴ".replace("ㅇ", "ㄱㄱㄱ"), "ㅂ ㅂㄷ ㅂㅎㄷ", "ㅂ ㅂㅎㄴ", "ㅈ ㅂㅎㄴ", "ㄱ ㄴ ㅂㅎㄷ",
             render(bi('ㅂ', str_lit("가.pbhhg"))), render(bi('ㅂ', str_lit("없음"))), render(bi('ㅂ', str_lit("마"))),
             render(bi('ㅂ', str_lit("나.pbhhg"))), render(bi('ㅂ', str_lit("라.pbhhg"))), render(bi('ㅂ', str_lit("다.pbhhg"))),
             render(bi('ㅂ', str_lit("아.pbhhg"))), render(bi('ㅂ', lit(3))), render(bi('ㅂ', str_lit(""))), render(bi('ㅂ', str_lit("a\x00b"))),
             render(bi('ㅂ', str_lit("사/x")))]
    for p in progs:
        yield Case(program=p, fs=fs, tag='import')
        yield Case(program=render(wrap_try(raw("(" + p + ")"))), fs=fs, tag='import-try', monitor='c04_caught')
        # the same import after other modules were loaded (non-empty module registry: by literal, by path, nested)
        for ok in ("ㄱ ㅂㅎㄴ", render(bi('ㅂ', str_lit("마/바.pbhhg"))), "ㅁ ㅂ ㅂㅎㄷ"):
            yield Case(program=f"({ok}) ({p}) ㅁㄹㅎㄷ", fs=fs, tag='import-after')
            yield Case(program=f"({ok}) {render(wrap_try(raw('(' + p + ')')))} ㅁㄹㅎㄷ", fs=fs, tag='import-after-try')


def relevant(rec, case):
    d = rec.get('detail', {})
    a, m = d.get('impl', {}), d.get('model', {})
    return a.get('kind') != m.get('kind')


SPEC = {
    'lean': ['C04', 'Tables'],
    'cases': cases,
    'big': True,
    'relevant': relevant,
    'stream': 'C04 call-shape matrix',
    'rule': 'matrix: every built-in and built-in module function × arity 0–4 × argument kinds (14 kinds incl. bare literals and mixed-kind lists) '
            '× edge values (0, ±1, 2^63, ±10^400, ±0.0, ±inf, nan, 1e308, 5e-324, complex, empty / astral / numeric / '
            'malformed strings, invalid UTF-8, nested / failing lists, dicts, closures, pipes, codecs, exceptions, I/O '
            'actions); every kind of value as callee; numeric pairs for the binary operators; numeric strings × bases; '
            'file operations in every handle state (wrong mode, closed, bad offset / count / whence, missing / directory / '
            'nested paths) with and without ㄱㄹ handler; failing imports, alone and after other modules were loaded; every callee invoked by a built-in (ㄱㄹ continuation / handler during execution, ㅅㄷ handler, map, filter, folds, pipe, spread, collect) on edge values; the standard streams closed through ㄱㄴ / ㄷ (child process); random word sequences. Outcome of the '
            'implementation must be value / language exception (with location) / stack-limit report — any other '
            'exception escaping main.main is a failing input — and equal the model\'s outcome. Non-trivial: all cases',
    'trusted': [],
    'assumptions': ['resource exhaustion other than stack depth (2 ** huge, 10^9-digit shifts) is out of scope: the generator bounds exponents and shift counts'],
}
