"""C09 — parsing is the documented postfix stack machine, total, with exact source spans."""
from .. import gen, respell, model
from ..corr import Case, monitor

ALPH = "ㄱㄴㄷㄹㅁㅂㅅㅈㅇㅎ"


def impl_parse(text):
    """AST with spans in the model driver's textual form, or the rejection"""
    from pbhhg_py import parse, abstract_syntax as AS
    def sp(m):
        return f"{m.line_no}:{m.start_col}:{m.end_col}"
    def show(t):
        if isinstance(t, AS.Literal): return f"L({t.value}@{sp(t.metadata)})"
        if isinstance(t, AS.FunRef): return f"R({t.rel}@{sp(t.metadata)})"
        if isinstance(t, AS.ArgRef): return f"A({show(t.relA)},{t.relF}@{sp(t.metadata)})"
        if isinstance(t, AS.FunDef): return f"D({show(t.body)}@{sp(t.metadata)})"
        return f"C({show(t.fun)};{','.join(show(a) for a in t.argv)}@{sp(t.metadata)})"
    try:
        ts = parse.parse('<t>', text)
        return "ok " + " ".join(show(t) for t in ts)
    except AS.UnsuspectedHangeulError as e:
        m = e.err.metadatas[0]
        codes = [v.value for v in e.err.value]
        return f"err {codes} {sp(m)}"


@monitor('c09_parse')
def _parse(case, a):
    """implementation's parse (trees with spans / syntax error with span) vs the model's parser,
    plus the span rule itself: a node's span is exactly its word in the source line"""
    text = case.program
    try:
        got = impl_parse(text)
    except Exception as e:     # host crash inside the parser
        return f"parser crashed: {type(e).__name__}: {e}"
    want = model.parse(text)
    if want.startswith('err'):
        # model: "err <kind> l:c0:c1"; implementation: "err [5, -44] l:c0:c1"
        if not got.startswith('err [5, -44]') or got.split(' ')[-1] != want.split(' ')[-1]:
            return f"rejection differs: implementation {got!r}, model {want!r}"
        return None
    if got != want:
        return f"trees differ: implementation {got[:300]!r}, model {want[:300]!r}"
    return None


def rand_tree(rng, depth):
    c = rng.random()
    if depth <= 0 or c < 0.3:
        return gen.lit(rng.choice([0, 1, -1, 7, 8, -8, 63, 64, 4096, -2 ** 40]))
    if c < 0.4: return gen.funref(rng.randint(-3, 3))
    if c < 0.55: return ('arg', rand_tree(rng, depth - 1), rng.randint(-2, 3))
    if c < 0.7: return gen.fundef(rand_tree(rng, depth - 1))
    return ('call', rand_tree(rng, depth - 1), [rand_tree(rng, depth - 1) for _ in range(rng.choice([0, 1, 2, 2, 3, 5, 12]))])


def spell(n, rng):
    """some spelling of the integer n: the shortest one plus an even number of zero digits — for zero, any number of them"""
    if n == 0:
        return "ㄱ" * rng.choice([1, 1, 2, 2, 3, 4, 5, 6])
    return gen.enc(n) + "ㄱ" * (2 * rng.choice([0, 0, 1, 2, 3]))


def render_spelled(t, rng):
    """postfix text of a tree in which every number word (values, call arities, frame numbers, function indices) is
    spelled at random among its spellings"""
    k = t[0]
    if k == 'lit': return spell(t[1], rng)
    if k == 'call': return " ".join([render_spelled(a, rng) for a in t[2]] + [render_spelled(t[1], rng), "ㅎ" + spell(len(t[2]), rng)])
    if k == 'def': return render_spelled(t[1], rng) + " ㅎ"
    if k == 'arg': return render_spelled(t[1], rng) + " ㅇ" + spell(t[2], rng)
    if k == 'fref': return spell(t[1], rng) + " ㅇ"
    return gen.render(t)


def cases(rng, tier):
    n = 1200 if tier == 'quick' else 40000
    # every spelling of every number word, in every role: same tree (the model parser is the oracle)
    for i in range(n // 3):
        ts = [rand_tree(rng, rng.randint(0, 4)) for _ in range(rng.randint(1, 2))]
        text = " ".join(render_spelled(t, rng) for t in ts)
        if rng.random() < 0.4:
            text = respell.respell(text, rng)
        yield Case(program=text, tag='spelled', monitor='c09_parse', skip_model=True, nontrivial=True)
    for i in range(n):
        k = rng.random()
        if k < 0.45:      # trees printed in postfix, in random surface spellings, possibly multi-line
            ts = [rand_tree(rng, rng.randint(0, 4)) for _ in range(rng.randint(1, 3))]
            text = " ".join(gen.render(t) for t in ts)
            if rng.random() < 0.4:
                text = text.replace(" ", "\n", rng.randint(1, 3))
            if rng.random() < 0.7:
                text = respell.respell(text, rng)
            tag = 'tree'
        elif k < 0.9:     # fuzz over the consonant alphabet: every malformed shape occurs
            words = []
            for _ in range(rng.randint(0, 7)):
                w = "".join(rng.choice(ALPH[:8]) for _ in range(rng.randint(0, 3)))
                h = rng.choice(["", "", "ㅎ", "ㅇ"])
                words.append(h + w)
            text = rng.choice([" ", "  ", "\n"]).join(words)
            if rng.random() < 0.3:
                text = respell.respell(text, rng)
            tag = 'fuzz'
        else:             # arbitrary characters
            text = "".join(chr(rng.choice([rng.randrange(0x3131, 0x318F), rng.randrange(0xAC00, 0xD7A4), rng.randrange(0x20, 0x7F),
                                           rng.randrange(0x1100, 0x1200), 10, 0x1F600])) for _ in range(rng.randint(0, 12)))
            tag = 'chars'
        if tag != 'chars' and rng.random() < 0.3:
            # characters other line-splitting routines treat as line ends (str.splitlines: FF, VT, CR, FS, GS, RS, NEL, LS, PS):
            # here only U+000A ends a line, all of them are plain word separators within their line (seeded change S09h)
            for _ in range(rng.randint(1, 3)):
                text = text.replace(" ", rng.choice(["\x0c", "\x0b", "\r", "\r\n", "\x1c", "\x1d", "\x1e", "\x85", "\u2028", "\u2029", "\t"]), 1)
            tag += '+linelike'
        yield Case(program=text, tag=tag, monitor='c09_parse', skip_model=True, nontrivial=len(respell.skeleton(text)) >= 2)


SPEC = {
    'lean': ['C09', 'C01'],
    'cases': cases,
    'stream': 'C09 parse stream (parse.parse trees with spans vs uhdrv parse)',
    'rule': 'random trees (arity 0–12, depth ≤ 4) printed in postfix and re-spelled / split over lines (also with FF / VT / CR / FS / GS / RS / NEL / LS / PS between words, which are not line ends), also with every number word (value, arity, frame number, function index) in a random spelling (zero padding; zero in both parities); fuzz word '
            'sequences over the consonant alphabet (all malformed shapes); random characters. The implementation\'s trees '
            'with (line, start, end) of every node, or its syntax exception and location, must equal the model parser\'s; '
            'non-trivial = at least two words',
    'trusted': [],
    'assumptions': [],
}
