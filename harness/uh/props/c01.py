"""C01 — a program means exactly its consonant skeleton, in every Unicode spelling."""
import os, sys, unicodedata
from .. import gen, respell, common
from ..corr import Case, monitor


@monitor('c01_respell')
def _m(case, a):
    # the skeletons really are equal (harness self-check) — otherwise the case proves nothing
    ref = respell.skeleton(case.program)
    for v in case.variants:
        if respell.skeleton(v) != ref:
            return None   # generator produced a different skeleton: ignore (never an alarm)
    return None


@monitor('c01_context')
def _context(case, a):
    """exhaustive over a block of code points: each code point *in context* (between two
    consonants, through the real tokenizer) contributes exactly what the specification assigns —
    catches tokenizer paths that bypass the per-character normaliser"""
    from pbhhg_py import parse
    lo, hi = case.data
    for c in range(lo, hi):
        if 0xD800 <= c < 0xE000:
            continue
        ch = chr(c)
        try:
            toks = [t for t, _ in parse.tokenize('<t>', "ㄴ" + ch + "ㄴ")]
        except Exception as e:
            return f"tokenize crashed on U+{c:04X}: {type(e).__name__}: {e}"
        got = " ".join(toks)
        want = " ".join(("ㄴ" + respell.spec_norm(c) + "ㄴ").split()) if c != 10 else "ㄴ ㄴ"
        if got != want:
            return f"U+{c:04X} between two consonants tokenizes as {toks}, the specification gives {want.split()}"
    return None


def cases(rng, tier):
    for lo in range(0, 0x110000, 0x8000):
        yield Case(program="ㄱ", tag='context-sweep', monitor='c01_context', data=(lo, lo + 0x8000), skip_model=True, timeout=120)
    n = 600 if tier == 'quick' else 20000
    g = gen.Gen(rng, max_depth=4)
    for i in range(n):
        t = g.program()
        prog = gen.render(t)
        if rng.random() < 0.3:
            prog = prog.replace(" ", "\n", 1)
        vs = []
        for _ in range(3):
            v = respell.respell(prog, rng)
            if respell.skeleton(v) == respell.skeleton(prog) and v.count("\n") == prog.count("\n"):
                vs.append(v)
        # errors carry source positions, which legitimately differ between spellings: compare those
        # variants only through the model (each variant is also a case of its own below)
        yield Case(program=prog, tag='reference', variants=tuple(vs) if True else (), monitor='c01_respell')
        for v in vs[:1]:
            yield Case(program=v, tag='respelled')
    yield from decorated_cases(rng, tier)


def decorated_cases(rng, tier):
    """non-Hangul text glued to a program where an editor, a shell or another language would put something special:
    interpreter / comment / pragma / markup prefixes at offset 0 (on the first line, which also holds Hangul), suffixes,
    brackets and quotes around words, blank and whitespace-only lines — all of it is separators and nothing else"""
    PRE = ["#!", "#! ", "#!/usr/bin/env ", "#", "# ", "//", "/*", "*/", "--", ";", "%", "'''", '"""', "<!--", "-->", "<?", "?>", "\ufeff", "\ufeff#!",
           "@", "$", "\\", "`", "~", "REM ", "rem ", ">>> ", "$ ", "0", "1.5e3", "-", "+", "=", "\t", "\x0b", "\x0c", "\r", "\x00", "\x1b[0m", "\u200b", "\u3000", "。", "、"]
    progs = ["ㄴ ㄷ ㄷㅎㄷ", "ㄹ ㅁ ㄱㅎㄷ", "ㄴ ㄷ (ㄱㅇㄱ ㄴㅇㄱ ㄷㅎㄷ ㅎ) ㅎㄷ", "ㄱ ㄴ ㄷ ㅁㄹㅎㄹ ㅈㄷㅎㄴ"]
    for pre in PRE:
        prog = rng.choice(progs)
        vs = (pre + prog, pre + " " + prog, prog + pre, prog.replace(" ", pre + " ", 1), pre + prog.replace(" ", "\n", 1))
        vs = tuple(v for v in vs if respell.skeleton(v) == respell.skeleton(prog))
        yield Case(program=prog, tag='decorated', variants=vs, monitor='c01_respell')
        yield Case(program=pre + prog, tag='decorated-model')
    # the same on a multi-line program: decoration on the first, a middle and the last line
    ml = "ㄴ\nㄷ ㄷ\nㅎㄷ"
    for pre in PRE:
        vs = tuple(v for v in (pre + ml, ml.replace("\nㄷ", "\n" + pre + "ㄷ", 1), ml + pre, ml + "\n" + pre, pre + "\n" + ml)
                   if respell.skeleton(v.replace("\n", " ")) == respell.skeleton(ml.replace("\n", " ")))
        yield Case(program=ml, tag='decorated-lines', variants=vs, monitor='c01_respell')


def relevant(rec, case):
    return True


def search(rng, tier):
    """all 1,114,112 code points (Python) and all 65,536 code units (TypeScript translation)
    against the specification's per-code-point map"""
    sys.path.insert(0, os.path.join(common.VERIF, 'harness', 'extract'))
    import norm_py, norm_ts
    from common import codes_of
    def table(runs):
        d = {}
        for lo, hi, syms in runs:
            for c in range(lo, hi + 1):
                d[c] = syms
        return d
    py = table(norm_py.extract(common.REPO))
    for c in range(0x110000):
        want = codes_of(respell.spec_norm(c))
        got = py.get(c, (10,))
        if got != want:
            return {'what': f'U+{c:04X} ({unicodedata.name(chr(c), "?")}) normalises to {got}, specification says {want} '
                            '(codes 0-7 = ㄱㄴㄷㄹㅁㅂㅅㅈ, 8 = ㅇ, 9 = ㅎ, 10 = separator)',
                    'input': {'code_point': c, 'char': chr(c) if not 0xD800 <= c < 0xE000 else None, 'implementation': 'pbhhg_py.parse.normalize'}}
    try:
        ts = table(norm_ts.extract(common.REPO))
    except Exception as e:
        return None
    for c in range(0x10000):
        want = codes_of(respell.spec_norm(c))
        got = ts.get(c, (10,))
        if got != want:
            return {'what': f'code unit U+{c:04X} normalises to {got} in pbhhg_js/src/parse.ts, specification says {want}',
                    'input': {'code_unit': c, 'implementation': 'pbhhg_js/src/parse.ts normalizeChar'}}
    return None


SPEC = {
    'lean': ['C01'],
    'cases': cases,
    'relevant': relevant,
    'search': search,
    'stream': 'C01 re-spelled program stream',
    'rule': 'every code point placed between two consonants and run through the real tokenizer (exhaustive, 34 blocks) must contribute the specified consonants; tie A: pbhhg_py.parse.normalize evaluated on all 1,114,112 code points and parse.ts normalizeChar '
            'translated over all 65,536 code units, both proved equal to the specification table by the kernel '
            '(exhaustive); tie B: random programs and up to three re-spellings each (other blocks, tense / aspirated / '
            'archaic letters, syllables, inserted vowels / finals / tone marks / punctuation, NFC/NFD) must behave '
            'identically on the implementation and like the model; non-trivial = tree ≥ 8 nodes',
    'trusted': ['Unicode character names (committed letter table UH/Spec/HangulLetters.lean)',
                'unicodedata.normalize("NFD") of the host (validated exhaustively by the extraction each run)'],
    'assumptions': ['U+D7A4–U+D7AF are unassigned and treated as non-Hangul (separators)'],
}
