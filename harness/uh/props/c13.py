"""C13 — each delayed expression is evaluated at most once (call-by-need)."""
from .. import gen
from ..gen import enc
from ..corr import Case, monitor


def real_evaluations(events):
    """per Expr: number of before-events whose bracket contains child events or that are the first.
    A cached expression that is tail-returned gets a before/after pair with nothing inside."""
    counts = {}
    stack = []
    for e in events:
        if e[0] == 'B':
            if stack:
                stack[-1][1] = True          # parent has a child
            stack.append([e[3], False])
        else:
            eid, had_child = stack.pop()
            if had_child:
                counts[eid] = counts.get(eid, 0) + 1
    return counts


@monitor('c13_once')
def _once(case, a):
    if a['kind'] not in ('ok', 'err'):
        return None
    cnt = real_evaluations(a['events'])
    multi = {k: v for k, v in cnt.items() if v > 1}
    if multi:
        return f"{len(multi)} delayed expression(s) were evaluated more than once (max {max(multi.values())} times)"
    if case.data:
        kind, k = case.data
        bound = 60 * k + 200
        if len(a['events']) > bound:
            return f"{kind} family of depth {k}: {len(a['events'])} observer events (> {bound}): work is not linear in the number of delayed expressions"
    return None


@monitor('c13_count')
def _count(case, a):
    """the same families *without* an observer (an attached observer keeps every expression alive, which can hide a
    defect in the value hand-over): the number of evaluations started — calls of interpret.interpret, counted without
    holding any reference — must be linear in the depth of the family"""
    from pbhhg_py import interpret as I
    from .. import impl
    kind, k = case.data
    n = [0]
    orig = I.interpret
    def counting(value):
        n[0] += 1
        return orig(value)
    I.interpret = counting
    try:
        r = impl.run_main(case.program, case.stdin, case.fs, case.format_io, case.timeout)
    finally:
        I.interpret = orig
    if r['kind'] in ('ok', 'err') and n[0] > 40 * k + 120:
        return f"{kind} family of depth {k}: {n[0]} evaluations started without an observer (> {40 * k + 120}): a shared expression is evaluated again"
    return None


def cond_doubling(k):
    """d_k = (λx. (x == x) ? x + x : 0)(d_{k-1}): the shared argument is reached through a Boolean selection (two tail
    hand-overs through otherwise unreferenced expressions)"""
    e = "ㄴ"
    for _ in range(k):
        e = f"({e}) ((ㄱㅇㄱ ㄱㅇㄱ ㄷㅎㄷ) ㄱ (ㅈㅈㅎㄱ) ㅎㄷ ㅎ) ㅎㄴ"
    return e


def argref_computed(k):
    """a shared delayed expression whose top node is an *argument reference with a computed position* (args[a0 + a0] with
    a0 = 0), handed over in tail position and used twice at every level: k + 1 additions, not 3^k (seeded change S13i let
    literals and references bypass the memo check at the start of interpret)"""
    add = "ㄱㅇㄱ ㄱㅇㄱ ㄷㅎㄷ"
    body = add
    for _ in range(k):
        body = f"{add} ㅇㄱ ({body} ㅎ) ㅎㄴ"
    return f"ㄱ ({body} ㅎ) ㅎㄴ"


def doubling(k):
    """((λx. x + x) ((λx. x + x) (… 1)))  — value 2^k, shares each level's argument twice"""
    e = "ㄴ"
    for _ in range(k):
        e = f"({e}) (ㄱㅇㄱ ㄱㅇㄱ ㄷㅎㄷ ㅎ) ㅎㄴ"
    return e


def fanout(k):
    """a list whose every element is the same delayed sum, summed k ways"""
    shared = "(ㄴ ㄷ ㄹ ㅁ ㄷㅎㅁ)"
    elems = " ".join("ㄱㅇㄱ" for _ in range(k))
    return f"{shared} ({elems} ㄷㅎ{enc(k)} ㅎ) ㅎㄴ"


def identity_share(k):
    """a function obtained twice from one delayed expression is the same function (ㄴ on identity)"""
    return f"(ㄱㅇㄱ ㅎ ㅎㄱ ㅎ ㅎㄱ) (ㄱㅇㄱ ㄱㅇㄱ ㄴㅎㄷ ㅎ) ㅎㄴ"


@monitor('c13_loopshare')
def _loopshare(case, a):
    """a delayed expression whose evaluation is a long tail loop (thousands of hand-overs between the expression that was
    demanded and the frame that finally produces the value), used once and used several times: the number of evaluations
    started must be the same up to the few extra argument references"""
    from pbhhg_py import interpret as I
    from .. import impl
    once, many, n_ = case.data
    def count(prog):
        n = [0]
        orig = I.interpret
        def counting(value):
            n[0] += 1
            return orig(value)
        I.interpret = counting
        try:
            r = impl.run_main(prog, case.stdin, case.fs, case.format_io, case.timeout)
        finally:
            I.interpret = orig
        return r, n[0]
    r1, n1 = count(once)
    r3, n3 = count(many)
    if r1['kind'] != r3['kind'] or r1['kind'] not in ('ok', 'err'):
        return f"loop of {n_} rounds used once: {r1['kind']}, used several times: {r3['kind']}"
    if n3 > n1 + 400:
        return (f"loop of {n_} rounds as a shared delayed expression: {n1} evaluations started when it is used once, {n3} when it is "
                f"used several times: the loop is run again")
    return None


def loop_share(n_, uses, fail=False):
    end = "(ㄹ ㄷㅂㅎㄴ ㄷㅈㅎㄴ)" if fail else "ㄱ"
    loop = f"{enc(n_)} ({end} ((ㄱㅇㄱ ㄴㄱ ㄷㅎㄷ) ㄱㅇ ㅎㄴ) (ㄱㅇㄱ ㄱ ㄴㅎㄷ) ㅎㄷ ㅎ) ㅎㄴ"
    use = "(ㄱㅇㄱ (ㄱㅇㄱ ㅎ) ㅅㄷㅎㄷ)" if fail else "ㄱㅇㄱ"
    elems = " ".join(use for _ in range(uses))
    return f"({loop}) ({elems} ㅁㄹㅎ{enc(uses)} ㅎ) ㅎㄴ"


SHARE_KINDS = {
    'int0': "ㄱ", 'int': "ㄷㅈ", 'float0': "(ㄱ ㅅㅅㅎㄴ)", 'true': "(ㅈㅈㅎㄱ)", 'false': "(ㄱㅈㅎㄱ)", 'nil': "(ㅂㄱㅎㄱ)",
    'str0': "(ㅁㅈㅎㄱ)", 'str': "(ㄷㅈ ㅁㅈㅎㄴ)", 'bytes0': "(" + gen.render(gen.bytes_lit(b"")) + ")", 'bytes': "(" + gen.render(gen.bytes_lit(b"ab")) + ")",
    'list0': "(ㅁㄹㅎㄱ)", 'list': "(ㄴ ㄷ ㅁㄹㅎㄷ)", 'dict0': "(ㅅㅈㅎㄱ)", 'dict': "(ㄴ ㄷ ㅅㅈㅎㄷ)", 'exc0': "(ㄷㅂㅎㄱ)", 'exc': "(ㄴ ㄷㅂㅎㄴ)",
    'fn': "(ㄱㅇㄱ ㅎ)", 'complex': "(ㄱ ㄴ ㅂㅅㅎㄷ)",
    'io-return': "(ㄱ ㄱㅅㅎㄴ)", 'io-print': "(ㅁㅈㅎㄱ ㅈㄹㅎㄴ)", 'io-read': "(ㄹㅎㄱ)", 'io-bind': "((ㄱ ㄱㅅㅎㄴ) ㄱㅅ ㄱㄹㅎㄷ)",
}


def share_kind(seed, k):
    """e₀ = id(seed);  e_{k+1} = H(e_k) with H = λa. (a == a)(a, a): each level uses its argument four times and
    returns it, whatever kind of value it is — the work must stay linear in k for every kind of value"""
    e = f"{seed} (ㄱㅇㄱ ㅎ) ㅎㄴ"
    for _ in range(k):
        e = f"({e}) (ㄱㅇㄱ ㄱㅇㄱ (ㄱㅇㄱ ㄱㅇㄱ ㄴㅎㄷ) ㅎㄷ ㅎ) ㅎㄴ"
    return e


def cases(rng, tier):
    n = 800 if tier == 'quick' else 20000
    g = gen.Gen(rng, max_depth=5)
    for _ in range(n):
        t = g.program()
        yield Case(program=gen.render(t), mode='events', tag='typed', monitor='c13_once', nontrivial=gen.size(t) >= 8)
    ks = [1, 2, 3, 5, 8, 13, 21, 34, 50] if tier == 'quick' else list(range(1, 201))
    for k in ks:
        yield Case(program=doubling(k), mode='events', tag='doubling', monitor='c13_once', data=('doubling', k), timeout=30)
        yield Case(program=fanout(k), mode='events', tag='fanout', monitor='c13_once', data=('fanout', k), timeout=30)
    yield Case(program=identity_share(1), mode='events', tag='identity', monitor='c13_once')
    # every family again without an observer, counting evaluation starts
    for k in ([2, 5, 9, 14] if tier == 'quick' else [2, 5, 9, 14, 20, 40, 80]):
        yield Case(program=argref_computed(k), mode='events', tag='argref-computed', monitor='c13_once', data=('argref-computed', k), timeout=30)
        for name, prog in (('doubling', doubling(k)), ('fanout', fanout(k)), ('cond-doubling', cond_doubling(k)), ('argref-computed', argref_computed(k))):
            yield Case(program=prog, tag='count-' + name, monitor='c13_count', data=(name, k), timeout=30, skip_model=(name != 'cond-doubling'))
        yield Case(program=cond_doubling(k), mode='events', tag='cond-doubling', monitor='c13_once', data=('cond-doubling', k), timeout=30)
        for kind in ('int', 'list', 'fn', 'io-return', 'str0', 'exc'):
            yield Case(program=share_kind(SHARE_KINDS[kind], k), tag='count-share-' + kind, monitor='c13_count', data=('share-' + kind, k),
                       timeout=30, format_io=False, skip_model=True)
    for kind, seed in SHARE_KINDS.items():
        for k in ([1, 2, 4, 9] if tier == 'quick' else [1, 2, 3, 4, 6, 9, 14, 20, 40]):
            yield Case(program=share_kind(seed, k), mode='events', tag='share-' + kind, monitor='c13_once', data=('share-' + kind, k),
                       timeout=30, format_io=False)
    # the shared expression is a long tail loop, succeeding or failing at its end (seeded change S13k recorded the outcome in
    # a bounded number of the cells on the hand-over chain only, so a loop of more than ~2500 rounds was run again per use)
    for n_ in ([40, 3000, 7000] if tier == 'quick' else [40, 1000, 2600, 3000, 7000, 20000]):
        for fail in (False, True):
            yield Case(program=loop_share(n_, 3, fail), tag='loop-share', monitor='c13_loopshare', data=(loop_share(n_, 1, fail), loop_share(n_, 3, fail), n_),
                       timeout=120, skip_model=True, nontrivial=True)
        yield Case(program=loop_share(n_, 3), variants=("ㄱ ㄱ ㄱ ㅁㄹㅎㄹ",), tag='loop-share-value', timeout=120, fuel=400 * n_ + 10 ** 6)
    # a failing shared expression fails once and is served from the cell afterwards
    for k in [1, 3, 7]:
        elems = " ".join("(ㄱㅇㄱ (ㄱㅇㄱ ㅎ) ㅅㄷㅎㄷ)" for _ in range(k))
        yield Case(program=f"(ㄹ ㄷㅂㅎㄴ ㄷㅈㅎㄴ) ({elems} ㅁㄹㅎ{enc(k)} ㅎ) ㅎㄴ", mode='events', tag='failshare', monitor='c13_once')


SPEC = {
    'lean': ['C13', 'NatSem', 'ByName'],
    'cases': cases,
    'big': True,
    'stream': 'C13 observer event stream (DebuggerBase events vs model events)',
    'rule': 'families also run without an observer, counting evaluation starts through a wrapper of interpret.interpret (linear bound); random typed programs, doubling / fan-out families and share-kind families (a delayed expression of each kind of value — numbers, empty and non-empty strings / bytes / lists / dictionaries / exceptions, Booleans, Nil, functions, every kind of I/O action — used four times per level) of depth k (quick: 9 depths ≤ 50, thorough: 1…200), '
            'run under a passive recording observer: no delayed expression may have two evaluations with children, the '
            'event count of the families must be linear in k, and the event stream must equal the model machine\'s '
            '(same length, kinds, depths, source spans, failure flags). Non-trivial = tree ≥ 8 nodes or a family',
    'trusted': [],
    'assumptions': ['a cached expression that is tail-returned produces an empty before/after pair; it is not counted as an evaluation'],
}
