"""C15 — import resolves by skeleton, evaluates once in an empty scope, context-free."""
from .. import gen, respell
from ..gen import lit, bi, raw, call, fundef, arg, render, str_lit, enc
from ..corr import Case, monitor

NAMES = {  # literal value -> candidate file / directory names with that skeleton
    # (zero has skeletons of both parities: ㄱ, ㄱㄱ, ㄱㄱㄱ …; other numbers may carry an even number of trailing ㄱ)
    0: ["가", "기", "ㄱ", "고x", "a가", "각", "고기", "가구가", "거기거기", "고기가구가"], 1: ["나", "니", "ㄴ.txt", "b_나", "나가가", "나가가가가", "나ㄱㄱㄱㄱㄱㄱ"],
    2: ["다", "도", "ㄸ", "때", "다가고"], 3: ["라", "루"],
    # skeletons that *begin* with ㅂ (the built-in namespace is the one-letter word ㅂ = 5 only): ㅂㄴ = −13, ㅂㄹ = −29
    -13: ["바나", "보니", "ㅃㄴ.txt"], -29: ["바라", "푸르"],
    -8: ["가나", "고니", "ㄱㄴ", "까나", "가나가가", "가나가가가가"], -1: ["나가", "노고"], 8: ["가나가", "고노고"], 4: ["마", "모"], 7: ["자", "차", "짜"],
}
OTHER = ["readme.txt", "x", "ㅏㅏ", "123", "아", "하", "가 나", "나ㅇ"]   # match no literal (no consonant / two words / ㅇ-ㅎ word)


def module_texts(rng, g):
    """(text, how the value prints when imported alone, or an error)"""
    c = rng.randrange(7)
    if c == 0:
        n = rng.randint(-50, 50)
        return enc(n), str(n)
    if c == 1:
        t = g.gen('int', None, 2)
        return render(t), None
    if c == 2:
        return "ㄱㅇㄱ ㄴ ㄷㅎㄷ ㅎ", None          # a function (+1)
    if c == 3:
        return "ㄴ ㄷ ㄹ ㅁㄹㅎㄹ", "[1, 2, 3]"
    if c == 4:
        return "ㄴ ㄱ ㄴㄴㅎㄷ", None                   # raises when evaluated
    if c == 5:
        return "ㄹ ㅇㄱ", None                          # argument reference: must fail in the empty scope
    return "ㄱ ㅇ", None                                # function reference: must fail in the empty scope


@monitor('c15_expect')
def _expect(case, a):
    want = case.data
    got = (a['kind'], (a.get('results') or [None])[0] if a['kind'] == 'ok' else a.get('err'))
    if got != want:
        return f"expected {want}, got {got}"
    return None


@monitor('c15_routes')
def _routes(case, a):
    """every spelling of the path of one file — relative, ./relative, through dir/.., absolute, through a
    symbolic link to the file and to its top directory — and the literal route name the *same* module:
    importing by two routes evaluates the file's text once and yields one object"""
    import os
    from .. import impl
    from pbhhg_py import interpret, parse, abstract_syntax as AS, main as M
    imp, target = case.data
    root = impl.sandbox().root
    top = target.split("/")[0]
    fs = dict(case.fs)
    fs["zz_l1"] = ('symlink', top)                                   # link to the top component (file or directory)
    spell = {
        'literal': imp,
        'rel': render(bi('ㅂ', str_lit(target))),
        'dot': render(bi('ㅂ', str_lit("./" + target))),
        'dotdot': render(bi('ㅂ', str_lit(top + "/../" + target))) if "/" in target else None,
        'abs': render(bi('ㅂ', str_lit(os.path.join(root, target)))),
        'link': render(bi('ㅂ', str_lit("/".join(["zz_l1"] + target.split("/")[1:])))),
    }
    base = {os.path.basename(target)} | ({'zz_l1'} if '/' not in target else set())

    class Count(interpret.DebuggerBase):
        def __init__(self): self.n = 0; self.keep = []
        def before_eval(self, depth, expr):
            self.keep.append(expr)
            if os.path.basename(expr.expr.metadata.filename) in base:
                self.n += 1
        def after_eval(self, depth, expr, result): pass

    def run2(p1, p2):
        c = Count()
        def fn():
            exprs = parse.parse('<t>', f"({p1}) ({p2}) ㄴㅎㄷ")
            vals = [AS.Expr(e, AS.Env([], [])) for e in exprs]
            return {'kind': 'ok', 'results': [interpret.evaluate(M.formatter(v, True), debugger=c) for v in vals]}
        r = impl.run(fn, '', fs)
        return (r['kind'], r.get('results') or r.get('err') or r.get('crash')), c.n

    want, n1 = run2(imp, imp)
    for name, sp in spell.items():
        if sp is None or name == 'literal':
            continue
        for p1, p2 in ((imp, sp), (sp, imp), (sp, spell['rel'])):
            got, n = run2(p1, p2)
            if got != want:
                return f"import by literals and by the {name} path are not the same object: {got} (twice by literals: {want})"
            if n != n1:
                return f"module text evaluated {n} steps when imported by literals + {name} path, {n1} steps when imported twice by literals"
    return None


def cases(rng, tier):
    n = 250 if tier == 'quick' else 8000
    g = gen.Gen(rng, max_depth=3)
    for _ in range(n):
        # a directory layout: nesting 1..3; at each level the target name plus distractors
        depth = rng.randint(1, 3)
        lits = [rng.choice(list(NAMES)) for _ in range(depth)]
        fs = {}
        text, printed = module_texts(rng, g)
        mode = rng.choice(['unique', 'unique', 'unique', 'ambiguous', 'missing', 'ambiguous-deep', 'file-in-the-way', 'empty', 'two', 'dir-twin', 'dir-twin'])
        path = []
        for i, v in enumerate(lits):
            path.append(rng.choice(NAMES[v]) + (".pbhhg" if i == depth - 1 and rng.random() < 0.5 else ""))
        target = "/".join(path)
        if mode == 'empty':
            text = rng.choice(["", "  \n", "abc"])
        if mode == 'two':
            text = "ㄱ ㄴ"
        if mode != 'missing':
            fs[target] = text.encode('utf-8')
        # distractors: names with other skeletons, in every directory on the way
        for i in range(depth):
            d = "/".join(path[:i])
            for _ in range(rng.randint(0, 3)):
                other = rng.choice([k for k in NAMES if k != lits[i]])
                nm = rng.choice(NAMES[other] if rng.random() < 0.6 else OTHER)
                p = (d + "/" if d else "") + nm
                if p != target and not any(q == p or q.startswith(p + "/") or p.startswith(q + "/") for q in fs):
                    fs[p] = b"\xe3\x84\xb1" if rng.random() < 0.7 else None    # a module 'ㄱ' or an empty directory
        if mode == 'ambiguous':
            twin = [x for x in NAMES[lits[-1]] if x != path[-1].replace(".pbhhg", "")]
            p = "/".join(path[:-1] + [rng.choice(twin) + ".x"])
            if p not in fs:
                fs[p] = "ㄷ".encode()
        if mode == 'ambiguous-deep' and depth >= 2:
            twin = [x for x in NAMES[lits[0]] if x != path[0]]
            p = "/".join([rng.choice(twin)] + path[1:])
            if not any(q == p or q.startswith(p + "/") for q in fs):
                fs[p] = "ㄷ".encode()
        if mode == 'dir-twin':
            # a *directory* (empty, or holding an unrelated file) whose path spells the same literals as the module file —
            # next to it, or under a twin of the first component: only regular files are modules, so the import is
            # still unique (seeded change S15g counted such directories when deciding ambiguity)
            leaf_twins = [x for x in NAMES[lits[-1]] if x != path[-1].replace(".pbhhg", "")] + \
                         ([path[-1].replace(".pbhhg", "")] if path[-1].endswith(".pbhhg") else [])
            cands = ["/".join(path[:-1] + [rng.choice(leaf_twins)])]
            if depth >= 2:
                twin0 = [x for x in NAMES[lits[0]] if x != path[0]]
                cands.append("/".join([rng.choice(twin0)] + path[1:-1] + [rng.choice(NAMES[lits[-1]])]))
            for p in cands:
                if not any(q == p or q.startswith(p + "/") or p.startswith(q + "/") for q in fs):
                    if rng.random() < 0.5:
                        fs[p] = None
                    else:
                        fs[p + "/" + rng.choice(OTHER)] = "ㄷ".encode()
        if mode == 'file-in-the-way' and depth >= 2:
            twin = [x for x in NAMES[lits[0]] if x != path[0]]
            p = rng.choice(twin)          # a regular *file* whose name matches the first component
            if not any(q == p or q.startswith(p + "/") for q in fs):
                fs[p] = "ㄹ".encode()
        imp = " ".join(enc(v) for v in lits) + f" ㅂㅎ{enc(depth)}"
        # the import from the top level, from inside a function (with arguments around), as an argument,
        # and twice (same object: identity), compared with the model
        ctxs = [imp, f"ㄹ ㅁ ({imp} ㅎ) ㅎㄷ", f"({imp}) (ㄱㅇㄱ ㅎ) ㅎㄴ", f"({imp}) ({imp}) ㄴㅎㄷ"]
        for j, prog in enumerate(ctxs):
            yield Case(program=prog, fs=fs, tag=f'{mode}:ctx{j}')
        # what was imported before (by path string) has no say in how literals resolve: ambiguity stays ambiguity,
        # a missing module stays missing, a unique one stays the same object
        if mode != 'missing' and isinstance(fs.get(target), bytes):
            by_path0 = render(bi('ㅂ', str_lit(target)))
            yield Case(program=f"(({by_path0}) (ㄱ ㅎ) ㅅㄷㅎㄷ) (({imp}) (ㄱㅇㄱ ㅎ) ㅅㄷㅎㄷ) ㅁㄹㅎㄷ", fs=fs, tag=f'{mode}:after-path')
            yield Case(program=f"(({by_path0}) (ㄱ ㅎ) ㅅㄷㅎㄷ) ((ㄱ ({imp}) ㅁㄹㅎㄷ ㅎ) ㅎㄱ) ㅁㄹㅎㄷ".replace("((ㄱ (", "(((ㄱ (").replace("ㅁㄹㅎㄷ ㅎ) ㅎㄱ)", "ㅁㄹㅎㄷ ㅎ) ㅎㄱ) (ㄱㅇㄱ ㅎ) ㅅㄷㅎㄷ)"),
                       fs=fs, tag=f'{mode}:after-path-in-fn')
        # import by path string equals import by literals, and both equal the text evaluated alone
        if mode == 'unique':
            by_path = render(bi('ㅂ', str_lit(target)))
            yield Case(program=imp, variants=(by_path, f"ㄹ ({by_path} ㅎ) ㅎㄴ"), fs=fs, tag='unique:path-vs-literal')
            yield Case(program=f"({imp}) ({by_path}) ㄴㅎㄷ", fs=fs, tag='unique:same-object')
            yield Case(program=f"({imp}) ({imp}) ㄴㅎㄷ", fs=fs, tag='unique:routes', monitor='c15_routes', data=(imp, target))
            if not text.startswith("ㄹ ㅇ") and text != "ㄱ ㅇ":
                yield Case(program=imp, variants=(text,), fs=fs, tag='unique:context-free')
            else:
                # references into the importer's scope must not resolve: also from inside a function with arguments
                yield Case(program=f"ㄴ ㄷ ㄹ ㅁ ({imp} ㅎ) ㅎㅁ", variants=(imp,), fs=fs, tag='unique:empty-scope')
            # evaluated exactly once: a module that counts evaluations cannot exist (no state), so use identity + the model's event counts
            yield Case(program=f"({imp}) ({imp}) ({imp}) ㅁㄹㅎㄹ", fs=fs, mode='events', tag='unique:once')

    # literal imports written *inside a module file that lives in a sub-directory*: the search starts from the working
    # directory like every other literal import, not from the directory of the importing file — a look-alike sibling of
    # the importing module does not shadow the top-level module, and a module found only beside the importer is not found
    # (seeded change S15l searched the importing file's directory first)
    for inner, top, beside in [("다 ㅂㅎㄴ", "ㄴ", "ㄷ"), ("다 ㅂㅎㄴ", None, "ㄷ"), ("다 ㅂㅎㄴ", "ㄴ", None), ("가 다 ㅂㅎㄷ", "ㄴ", "ㄷ"),
                               ("(다 ㅂㅎㄴ) (다 ㅂㅎㄴ) ㅁㄹㅎㄷ", "ㄹ", "ㅁ"), ("ㄱㅇㄱ (다 ㅂㅎㄴ) ㄷㅎㄷ ㅎ", "ㄴ", "ㄷ")]:
        for sub in ("가", "가/마"):
            fs = {sub + "/나.pbhhg": inner.encode()}
            if top is not None:
                fs["다.pbhhg"] = top.encode()
            if beside is not None:
                fs[sub + "/다.pbhhg"] = beside.encode()
            lits = " ".join(sub.split("/")) + " 나"
            k = len(sub.split("/")) + 1
            by_lit = f"{lits} ㅂㅎ{gen.enc(k)}"
            by_path = render(bi('ㅂ', str_lit(sub + "/나.pbhhg")))
            call = " ㄹ ㅎㄴ" if inner.endswith("ㅎ") and "ㅇ" in inner else ""
            for imp in (by_lit, by_path):
                imp = f"({imp})"
                prog = f"ㄹ {imp} ㅎㄴ" if call else imp
                yield Case(program=prog, fs=fs, tag='nested-literal-import')
                yield Case(program=f"({prog}) (ㄱㅇㄱ ㅎ) ㅅㄷㅎㄷ", fs=fs, tag='nested-literal-import-caught')
            yield Case(program=f"(다 ㅂㅎㄴ) (ㄱㅇㄱ ㅎ) ㅅㄷㅎㄷ", fs=fs, tag='nested-literal-import-top')


SPEC = {
    'lean': ['C15'],
    'cases': cases,
    'big': True,
    'stream': 'C15 import stream (scratch directory trees)',
    'rule': 'scratch trees of nesting 1–3 whose components are spelled with random same-skeleton names (other vowels, tense '
            'consonants, Latin affixes, extensions), with distractor siblings of other skeletons / non-matching names / empty '
            'directories, in the variants unique / ambiguous sibling / ambiguous at an upper level / regular file matching an '
            'intermediate component / missing / empty / two-expression module × module texts (literal, expression, function, '
            'list, raising, argument / function reference that must not resolve) × importing contexts (top level, inside a '
            'function with arguments, as an argument, twice under ㄴ); import by path vs by literals; literal import after the same / a sibling file was imported by path (ambiguity and errors unchanged); every spelling of the path (relative, ./, dir/.., absolute, through symbolic links) against the literal route: same object and the text of the module evaluated once (observer events inside the module file counted); imported value vs the '
            'text evaluated alone; observer events of a triple import. Implementation vs model. Non-trivial: all',
    'trusted': ['os.listdir / os.path of the host on a real scratch tree'],
    'assumptions': ['the module registry is reset between cases (harness) — sessions are C20'],
}
