"""C11 — arithmetic is exact on unbounded integers and obeys the numeric-tower laws."""
import math, itertools
from fractions import Fraction
from .. import gen, values as VL
from ..gen import lit, bi, raw, call, render
from ..corr import Case, monitor


@monitor('c11_expect')
def _expect(case, a):
    want = case.data
    if a['kind'] != 'ok' or a['results'] != [want]:
        return f"expected {want!r}, got {a.get('kind')} {a.get('results') or a.get('err')}"
    return None


@monitor('c11_err')
def _err(case, a):
    if a['kind'] != 'err' or a.get('err') != case.data:
        return f"expected exception {case.data!r}, got {a.get('kind')} {a.get('results') or a.get('err')}"
    return None


def rint(rng):
    c = rng.random()
    if c < 0.3: return rng.randint(-40, 40)
    if c < 0.6: return rng.choice([1, -1]) * rng.randint(0, 2 ** 70)
    if c < 0.8: return rng.choice([1, -1]) * (2 ** rng.randint(60, 200) + rng.randint(-3, 3))
    return rng.choice([0, 1, -1, 2 ** 63, -2 ** 63, 2 ** 64, 10 ** 40, -(10 ** 40)])


def bigstr(n):
    """str(n) for integers of any size: the host's digit limit is lifted for this one conversion only (the harness must not
    change the setting the implementation runs under)"""
    import sys
    if not hasattr(sys, 'get_int_max_str_digits'):
        return str(n)
    old = sys.get_int_max_str_digits()
    sys.set_int_max_str_digits(0)
    try:
        return str(n)
    finally:
        sys.set_int_max_str_digits(old)


def tdiv(n, d):
    q = abs(n) // abs(d)
    return q if (n >= 0) == (d >= 0) else -q


def cases(rng, tier):
    n = 600 if tier == 'quick' else 10000
    pb = lambda b: 'True' if b else 'False'
    for _ in range(n):
        xs = [rint(rng) for _ in range(rng.randint(1, 6))]
        yield Case(program=render(bi('ㄷ', *map(lit, xs))), tag='add', monitor='c11_expect', data=str(sum(xs)))
        yield Case(program=render(bi('ㄱ', *map(lit, xs))), tag='mul', monitor='c11_expect', data=str(math.prod(xs)))
        a, b, c = rint(rng), rint(rng), rint(rng)
        # ring laws as program pairs: both sides must print the same
        yield Case(program=render(bi('ㄱ', lit(a), bi('ㄷ', lit(b), lit(c)))),
                   variants=(render(bi('ㄷ', bi('ㄱ', lit(a), lit(b)), bi('ㄱ', lit(a), lit(c)))),), tag='distrib')
        yield Case(program=render(bi('ㄷ', lit(a), lit(b))), variants=(render(bi('ㄷ', lit(b), lit(a))),), tag='comm')
        # division law
        d = rint(rng)
        if d != 0:
            q, r = tdiv(a, d), a - tdiv(a, d) * d
            assert abs(r) < abs(d)
            yield Case(program=render(bi('ㄴㄴ', lit(a), lit(d))), tag='quot', monitor='c11_expect', data=str(q))
            yield Case(program=render(bi('ㄴㅁ', lit(a), lit(d))), tag='rem', monitor='c11_expect', data=str(r))
            yield Case(program=render(bi('ㄷ', bi('ㄱ', bi('ㄴㄴ', lit(a), lit(d)), lit(d)), bi('ㄴㅁ', lit(a), lit(d)))), tag='divlaw',
                       monitor='c11_expect', data=str(a))
        else:
            yield Case(program=render(bi('ㄴㄴ', lit(a), lit(0))), tag='div0', monitor='c11_err', data='<예외: [5, -9]>')
        # powers
        base, ex = rng.randint(-30, 30), rng.randint(0, 40)
        yield Case(program=render(bi('ㅅ', lit(base), lit(ex))), tag='pow', monitor='c11_expect', data=str(base ** ex))
        bb, ee, mm = rint(rng), rng.randint(0, 300), rint(rng)
        if mm != 0:
            yield Case(program=render(bi('ㅅ', lit(bb), lit(ee), lit(mm))), tag='powmod', monitor='c11_expect', data=str(pow(bb, ee, abs(mm))))
            if abs(mm) > 1 and math.gcd(bb, abs(mm)) == 1:
                inv = pow(bb, -1, abs(mm))
                assert (inv * bb) % abs(mm) == 1
                yield Case(program=render(bi('ㅅ', lit(bb), lit(-1), lit(mm))), tag='modinv', monitor='c11_expect', data=str(inv))
            elif math.gcd(bb, abs(mm)) != 1 and abs(mm) > 1:
                yield Case(program=render(bi('ㅅ', lit(bb), lit(-1), lit(mm))), tag='modinv-none', monitor='c11_err', data='<예외: [5, -54]>')
        # order on reals: exact comparison of integers and floats
        x = rng.choice(VL.ADVERSARIAL_FLOATS + [float(rint(rng) % 2 ** 60), -1.5, 1e22, 9007199254740993.0])
        y = rng.choice([rint(rng), 2 ** 53, 2 ** 53 + 1, 2 ** 53 - 1, 10 ** 22, 10 ** 22 + 1, 0, 1])
        yield Case(program=render(bi('ㅈ', VL.float_expr(x), lit(y))), tag='lt-fi', monitor='c11_expect', data=pb(Fraction(x) < y))
        yield Case(program=render(bi('ㅈ', lit(y), VL.float_expr(x))), tag='lt-if', monitor='c11_expect', data=pb(y < Fraction(x)))
        yield Case(program=render(bi('ㅈ', lit(a), lit(b))), tag='lt-ii', monitor='c11_expect', data=pb(a < b))
        # Boolean ㄱ / ㄷ
        bs = [rng.random() < 0.5 for _ in range(rng.randint(1, 4))]
        B = lambda v: gen.BOOL_T if v else gen.BOOL_F
        yield Case(program=render(bi('ㄱ', *map(B, bs))), tag='and', monitor='c11_expect', data=pb(all(bs)))
        yield Case(program=render(bi('ㄷ', *map(B, bs))), tag='or', monitor='c11_expect', data=pb(any(bs)))
        # widening: int op float → float (exact oracle on representable cases), conversions
        k = rng.randint(-2 ** 52, 2 ** 52)
        fl = rng.choice([0.5, 2.0, -1.25, 1024.0])
        yield Case(program=render(bi('ㄱ', lit(k), VL.float_expr(fl))), tag='widen-mul', monitor='c11_expect', data=repr(float(k) * fl))
        yield Case(program=render(bi('ㄷ', lit(k), VL.float_expr(fl))), tag='widen-add', monitor='c11_expect', data=repr(0 + k + fl))
        yield Case(program=render(bi('ㅅ', lit(2), lit(-rng.randint(1, 60)))), tag='neg-exp', monitor=None)
        big = rint(rng)
        try:
            want = repr(float(big))
            yield Case(program=render(bi('ㅅㅅ', lit(big))), tag='to-float', monitor='c11_expect', data=want)
        except OverflowError:
            pass
        fx = rng.choice([2.5, -2.5, 1e20, -7.99, 0.999, 123456789.5, -0.0])
        yield Case(program=render(bi('ㅈㅅ', VL.float_expr(fx))), tag='to-int', monitor='c11_expect', data=str(int(fx)))
    # exact powers whose *exponent* is huge while the result is small (bases 0, 1, −1) or whose result is big but computable
    # (|base| ≥ 2, up to ≈ 10^5 bits): the exact integer, never a refusal (seeded change S11l refused a power when
    # bit_length(base) · exponent exceeded 2^32 — which for base ±1 is the exponent itself)
    for ex in (2 ** 32 + 1, 2 ** 33, 2 ** 40 + rng.randint(0, 9), 2 ** 64, 2 ** 64 + 1, 2 ** 70 + 1, 10 ** 30 + rng.randint(0, 9)):
        for base in (1, -1, 0):
            want = base ** (ex % 2 + 2) if base else 0
            yield Case(program=render(bi('ㅅ', lit(base), lit(ex))), tag='pow-huge-exponent', monitor='c11_expect', data=str(want), skip_model=True)
            yield Case(program=render(bi('ㄷ', bi('ㅅ', lit(base), lit(ex)), lit(5))), tag='pow-huge-exponent', monitor='c11_expect', data=str(want + 5), skip_model=True)
    for base, ex in ((2, 10 ** 5), (-2, 10 ** 5 + 1), (3, 40000), (-7, 20001), (10, 30000), (2 ** 64, 1500), (-(2 ** 100), 999)):
        yield Case(program=render(bi('ㄴㅁ', bi('ㅅ', lit(base), lit(ex)), lit(10 ** 9 + 7))), tag='pow-big-result', monitor='c11_expect',
                   data=str((base ** ex) - tdiv(base ** ex, 10 ** 9 + 7) * (10 ** 9 + 7)), skip_model=True, timeout=60)
        yield Case(program=render(bi('ㄴ', bi('ㅅ', lit(base), lit(ex)), bi('ㄱ', bi('ㅅ', lit(base), lit(ex - 1)), lit(base)))), tag='pow-big-result',
                   monitor='c11_expect', data='True', skip_model=True, timeout=60)
    # ㅈㅅ of a real whose integer part has more digits than its shortest decimal form shows (≥ 10^16): the result is the exact
    # integer value of the double, truncated toward zero — never its printed digits (seeded change S11k truncated
    # Decimal(str(x))); and ㅈㅅ(ㅅㅅ n) = n for exactly representable n of any size
    import fractions as _fr
    bigfl = [2.0 ** 60, 2.0 ** 64, 2.0 ** 70, 2.0 ** 55 * 3, 1e23, 3.0 ** 40, 1e16 + 2, 123456789012345678.0, 1.7976931348623157e308,
             2.0 ** 1023, 9007199254740993.0 * 1024, 1e22, 1e100] + [rng.uniform(1, 2) * 2.0 ** rng.randint(53, 1020) for _ in range(12)]
    for fx in bigfl:
        for sg in (1, -1):
            x = sg * fx
            exact = int(_fr.Fraction(x))
            yield Case(program=render(bi('ㅈㅅ', VL.float_expr(x))), tag='to-int-big-real', monitor='c11_expect', data=str(exact))
            yield Case(program=render(bi('ㄴ', bi('ㅈㅅ', VL.float_expr(x)), lit(exact))), tag='to-int-big-real-eq', monitor='c11_expect', data='True')
            yield Case(program=render(bi('ㅈㅅ', bi('ㅅㅅ', lit(exact)))), tag='to-int-of-real-of-int', monitor='c11_expect', data=str(exact))
            yield Case(program=render(bi('ㄴㅁ', bi('ㅈㅅ', VL.float_expr(x)), lit(1000))), tag='to-int-big-real-rem', monitor='c11_expect',
                       data=str(exact - tdiv(exact, 1000) * 1000))
    # n-ary ㄱ / ㄷ over mixed integer / real operands, with zero partial products and sums in every position: the result is
    # the left fold of the binary operation — in particular it widens to a real as soon as any operand is real, also after the
    # running product has become zero (seeded change S11i stopped at a zero partial product)
    import functools, operator
    mpool = [0, 0, 1, -1, 2, 3, -7, 10 ** 20, 0.0, -0.0, 0.5, -0.5, 2.0, 1e300, 1e-300, -3.25]
    for _ in range(300 if tier == 'quick' else 6000):
        xs = [rng.choice(mpool) for _ in range(rng.randint(3, 5))]
        if rng.random() < 0.6:
            xs[rng.randrange(len(xs) - 1)] = 0          # a zero before the last operand
        es = [VL.float_expr(x) if isinstance(x, float) else lit(x) for x in xs]
        for name, op in (('ㄱ', operator.mul),):     # (n-ary real sums are compensated by the host's sum(): no plain-fold oracle)
            try:
                r = functools.reduce(op, xs)
            except OverflowError:
                continue
            if isinstance(r, float) and (r != r or r in (float('inf'), float('-inf'))):
                continue
            want = VL.py_float_repr(r) if isinstance(r, float) else str(r)
            yield Case(program=render(bi(name, *es)), tag='nary-mixed-' + ('mul' if name == 'ㄱ' else 'add'), monitor='c11_expect', data=want)
    # integer operands of one ㄷ are added exactly, whatever their size, before a real operand *at the end* widens the sum:
    # big integers that cancel to a small one, then a dyadic real (seeded change S11j summed through math.fsum, which
    # rounds every integer to a double first)
    for _ in range(120 if tier == 'quick' else 3000):
        small = rng.randint(-50, 50)
        bigs = [rng.choice([1, -1]) * (2 ** rng.choice([53, 54, 64, 70, 100, 200]) + rng.randint(1, 999)) for _ in range(rng.randint(1, 3))]
        ints = bigs + [small - sum(bigs)]
        rng.shuffle(ints)
        fl = rng.choice([0.5, -0.5, 0.25, 1.5, -2.75, 8.0, 0.125])
        want = float(Fraction(small) + Fraction(fl))
        yield Case(program=render(bi('ㄷ', *[lit(x) for x in ints], VL.float_expr(fl))), tag='add-ints-then-real', monitor='c11_expect',
                   data=VL.py_float_repr(want))
    # conversions on integers beyond the range of a double (|n| ≥ 2^1024, ≈ 309 digits): ㅈㅅ is the identity on every
    # integer and on numeric strings of any length, arithmetic stays exact, only the conversion *to* a real fails — with a
    # language exception (seeded change S11h routed ㅈㅅ through math.isfinite)
    for e in ([1023, 1024, 1025, 2000] if tier == 'quick' else [1000, 1023, 1024, 1025, 1100, 2000, 5000, 20000]):
        for sgn in (1, -1):
            for off in (0, 1, -1, rng.randint(2, 10 ** 9)):
                n_ = sgn * (2 ** e + off)
                yield Case(program=render(bi('ㅈㅅ', lit(n_))), tag='to-int-huge', monitor='c11_expect', data=bigstr(n_))
                yield Case(program=render(bi('ㄴ', bi('ㅈㅅ', lit(n_)), lit(n_))), tag='to-int-huge-eq', monitor='c11_expect', data='True')
                yield Case(program=render(bi('ㅈㅅ', bi('ㅁㅈ', lit(n_)))), tag='to-int-huge-str', monitor='c11_expect', data=bigstr(n_))
                yield Case(program=render(bi('ㅈㅅ', bi('ㄱ', lit(n_), lit(3)))), tag='to-int-huge-product', monitor='c11_expect', data=bigstr(3 * n_))
                yield Case(program=render(bi('ㄴㄴ', lit(n_), lit(7))), tag='quot-huge', monitor='c11_expect', data=bigstr(tdiv(n_, 7)))
                yield Case(program=render(bi('ㅈ', lit(n_), lit(n_ + 1))), tag='lt-huge', monitor='c11_expect', data='True')
                try:
                    float(n_)
                except OverflowError:
                    yield Case(program=render(bi('ㅅㅅ', lit(n_))), tag='to-float-huge', monitor='c11_err', data='<예외: [5, -54]>')
    # real remainder: ㄴㅁ on a Float operand is the exact remainder of the truncated quotient (IEEE fmod, always
    # representable), sign of the dividend — also where dividend and divisor have opposite signs and a naive
    # `%`-then-correct formula rounds (seeded change S11g)
    fpool = [0.1, -0.1, 1e-20, -1e-20, 5.5, -7.5, 7.25, -7.25, 1e300, -1e300, 5e-324, -5e-324, 2.0 ** 53 + 2, -(2.0 ** 53 + 2), 0.7, -0.7,
             3.0, -3.0, 1e-5, -1e-5, 2.5, 1 / 3, -1 / 3, 123456.789, -123456.789, 1e22, -1e22]
    dpool = [3, -3, 2, -2, 7, 3.0, -3.0, 0.7, -0.7, 1e-5, 2.5, -2.5, 1 / 3, 1e10, -1e10, 5e-324, 1.5e-300]
    fl_pairs = [(a, d) for a in fpool for d in dpool] + [(a, d) for a in [7, -7, 1, -1, 10 ** 6 + 1, -(10 ** 6) - 1] for d in dpool if isinstance(d, float)]
    if tier == 'quick':
        fl_pairs = rng.sample(fl_pairs, 160)
    for a, d in fl_pairs:
        fa, fd = Fraction(a), Fraction(d)
        q = abs(fa) // abs(fd) * (1 if (fa >= 0) == (fd >= 0) else -1)
        r = fa - q * fd
        rf = float(r)
        assert Fraction(rf) == r
        if rf == 0.0:
            rf = math.copysign(0.0, float(a))
        ea = VL.float_expr(a) if isinstance(a, float) else lit(a)
        ed = VL.float_expr(d) if isinstance(d, float) else lit(d)
        yield Case(program=render(bi('ㄴㅁ', ea, ed)), tag='rem-real', monitor='c11_expect', data=VL.py_float_repr(rf))
    # exhaustive small grid for quotient / remainder / modular power
    lim = 12 if tier == 'quick' else 40
    for a in range(-lim, lim + 1):
        for d in range(-lim, lim + 1):
            if d == 0:
                continue
            q = tdiv(a, d)
            yield Case(program=render(bi('ㅁㄹ', bi('ㄴㄴ', lit(a), lit(d)), bi('ㄴㅁ', lit(a), lit(d)))), tag='grid', monitor='c11_expect',
                       data=f"[{q}, {a - q * d}]", nontrivial=False)


SPEC = {
    'lean': ['C11'],
    'cases': cases,
    'big': True,
    'stream': 'C11 arithmetic stream',
    'rule': 'integer tuples (1–6 operands, magnitudes to 2^200, all sign mixes): sums and products against exact host '
            'integers; distributivity / commutativity as program pairs; truncated quotient, remainder and q·d + r = n '
            'recomputed by the program itself; real remainders (Float operands, all sign mixes, tiny / huge magnitudes) against exact rationals; exact powers; modular power / inverse against an independent oracle '
            'including the error cases; exact int/float order around 2^53 and 10^22; Boolean ㄱ / ㄷ truth tables; '
            'widening and conversions; exhaustive (n, d) ∈ [−12, 12]² (quick) / [−40, 40]² grid. Non-trivial: all but the grid',
    'trusted': ['host big-integer arithmetic as the oracle for sums / products / powers'],
    'assumptions': ['float ** and libm functions are opaque: compared bit-for-bit with the model only where the host libm is shared'],
}
