"""C18 — printed form is canonical and re-readable; exit status is the program's result."""
import math, struct
from .. import gen, values as VL
from ..gen import lit, bi, raw, call, fundef, arg, render, str_lit, enc
from ..corr import Case, monitor


@monitor('c18_expect')
def _expect(case, a):
    want = case.data
    if a['kind'] != 'ok' or a['results'] != [want]:
        return f"expected {want!r}, got {a.get('kind')} {a.get('results') or a.get('err')}"
    return None


@monitor('c18_exit')
def _exit(case, a):
    want = case.data
    if want[0] == 'exit':
        if a['kind'] != 'exit' or a.get('code') != want[1]:
            return f"expected exit status {want[1]}, got {a.get('kind')} {a.get('code', a.get('err'))}"
    else:
        if a['kind'] != 'err':
            return f"expected an exception, got {a.get('kind')} {a.get('code')}"
    if len(want) > 2 and a.get('out') != want[2]:
        return f"expected stdout {want[2]!r}, got {a.get('out')!r}"
    return None


def rfloat(rng):
    while True:
        c = rng.random()
        if c < 0.6:
            x = struct.unpack('<d', struct.pack('<Q', rng.getrandbits(64)))[0]
        elif c < 0.8:
            x = rng.choice([1, -1]) * rng.randint(0, 10 ** 6) / rng.choice([1, 2, 4, 8, 10, 100, 1000])
        else:
            x = rng.choice([0.1, 0.2, 0.30000000000000004, 1e16, 1e15, 9999999999999998.0, 1e-4, 1e-5, 123456789012345.6, 5e-324, 1.7976931348623157e308,
                            2.2250738585072014e-308, 1e22, 1e23, -0.0, 0.0, 4.35, 0.5, 100.0, 1e21, 892560654266296.75])
        if math.isfinite(x):
            return x


def cases(rng, tier):
    n = 500 if tier == 'quick' else 10000
    # integers of thousands of digits, both signs, not round numbers: the printed form is the decimal numeral and reads back
    # (seeded change S18j split numbers ≥ 2^4096 with divmod and forgot the sign). Built by arithmetic: the literal would
    # be as long as the number.
    for base, ex, off in [(7, 1500, 3), (2, 4095, 1), (2, 4096, -1), (3, 3000, 2), (2, 5000, 1), (10, 1300, 7), (7, 2500, 11)]:
        for sgn in (1, -1):
            k = sgn * (base ** ex + off)
            e = bi('ㄱ', lit(sgn), bi('ㄷ', bi('ㅅ', lit(base), lit(ex)), lit(off)))
            yield Case(program=render(bi('ㅁㅈ', e)), tag='huge-int-print', monitor='c18_expect', data="'" + str(k) + "'")
            yield Case(program=render(e), tag='huge-int-top', monitor='c18_expect', data=str(k))
            yield Case(program=render(bi('ㄴ', bi('ㅈㅅ', bi('ㅁㅈ', e)), e)), tag='huge-int-readback', monitor='c18_expect', data='True')
            yield Case(program=render(bi('ㅁㄹ', e, lit(1))), tag='huge-int-in-list', monitor='c18_expect', data=f"[{k}, 1]")
    for _ in range(n):
        # integers print and read back
        k = rng.choice([1, -1]) * rng.randint(0, 10 ** rng.choice([1, 5, 18, 40, 300]))
        yield Case(program=render(bi('ㅁㅈ', lit(k))), tag='int-print', monitor='c18_expect', data="'" + str(k) + "'")
        yield Case(program=render(bi('ㅈㅅ', bi('ㅁㅈ', lit(k)))), tag='int-readback', monitor='c18_expect', data=str(k))
        yield Case(program=render(lit(k)), tag='int-top', monitor='c18_expect', data=str(k))
        # finite reals print in a form that reads back to the same number
        x = rfloat(rng)
        fe = VL.float_expr(x)
        yield Case(program=render(bi('ㄴ', bi('ㅅㅅ', bi('ㅁㅈ', fe)), fe)), tag='float-readback', monitor='c18_expect', data='True')
        yield Case(program=render(fe), tag='float-top', monitor='c18_expect', data=repr(x))
        yield Case(program=render(bi('ㅁㅈ', fe)), tag='float-str', monitor='c18_expect', data="'" + repr(x) + "'")
        # sequences and exceptions print their contents in order; dictionaries sorted by printed key
        v = VL.rand_value(rng, 0, ['int', 'float', 'bool', 'str', 'bytes', 'nil', 'list', 'dict', 'exc', 'io'])
        try:
            yield Case(program=render(v.expr), tag='value-print', monitor='c18_expect', data=VL.spec_format(v))
        except ValueError:
            pass
        # one collection holding host-equal numbers of different kinds (1 / 1.0 / True-like, 0 / 0.0 / −0.0, 2^64 as integer
        # and as real, …): every item prints as *itself*, in order (seeded change S18h shared the printed text per host value)
        eqs = rng.choice([[VL.vint(1), VL.vfloat(1.0)], [VL.vint(0), VL.vfloat(0.0), VL.vfloat(-0.0)], [VL.vfloat(-0.0), VL.vint(0)],
                          [VL.vint(2 ** 64), VL.vfloat(float(2 ** 64))], [VL.vfloat(1e22), VL.vint(10 ** 22)], [VL.vint(-3), VL.vfloat(-3.0)],
                          [VL.vbool(True), VL.vint(1), VL.vfloat(1.0)], [VL.vbool(False), VL.vfloat(0.0), VL.vint(0)],
                          [VL.vint(7), VL.vint(7), VL.vfloat(7.0), VL.vint(7)], [VL.vstr("1"), VL.vint(1), VL.vbytes(b"1")]])
        eqs = eqs if rng.random() < 0.5 else list(reversed(eqs))
        for wrapped in (VL.vlist(eqs), VL.vexc(eqs), VL.vlist([VL.vlist(eqs), eqs[0]]), VL.vio(VL.vlist(eqs)),
                        VL.vdict([(VL.vint(9), VL.vlist(eqs))])):
            yield Case(program=render(wrapped.expr), tag='mixed-equal-items', monitor='c18_expect', data=VL.spec_format(wrapped))
        # a dictionary prints the same whatever the insertion order
        keys = rng.sample([VL.vint(i) for i in range(-3, 12)] + [VL.vstr(s) for s in ["a", "b", "B", "10", "9", "가", ""]] +
                          [VL.vbool(True), VL.vnil(), VL.vfloat(2.5), VL.vbytes(b"a"), VL.vlist([VL.vint(1)])], rng.randint(0, 6))
        kvs = [(kk, VL.rand_value(rng, 2, ['int', 'str', 'list', 'bool'])) for kk in keys]
        d = VL.vdict(kvs)
        perms = []
        for _ in range(3):
            p = kvs[:]
            rng.shuffle(p)
            perms.append(render(VL.vdict(p).expr))
        yield Case(program=render(d.expr), variants=tuple(perms), tag='dict-perm', monitor='c18_expect', data=VL.spec_format(d))
    # keys that print identically (distinct functions, actions): their entries keep the insertion order — implementation vs model
    FN = ["(ㄱㅇㄱ ㅎ)", "(ㄴ ㅎ)", "(ㄱㅇㄱ ㄱㅇㄱ ㄷㅎㄷ ㅎ)", "(ㄷ ㄴㄱㅎㄴ)", "(ㄱ ㄴㄱㅎㄴ)", "(ㅂ ㅅ ㅅㄴ ㅂㅎㄹ)"]
    for _ in range(40 if tier == 'quick' else 600):
        ks = rng.sample(FN, rng.randint(2, 4)) + rng.sample(["ㄱ", "ㄴ", f"({render(gen.str_lit('z'))})"], rng.randint(0, 2))
        rng.shuffle(ks)
        body = " ".join(f"{kx} {enc(i)}" for i, kx in enumerate(ks))
        yield Case(program=f"{body} ㅅㅈㅎ{enc(2 * len(ks))}", tag='dict-tie')
    # exit status = integer result; 0 for Nil; function applied to argv; I/O executed; other kinds an error
    m = 120 if tier == 'quick' else 4000
    g = gen.Gen(rng, max_depth=3)
    for _ in range(m):
        c = rng.randrange(9)
        k = rng.randint(-300, 300)
        if c == 0:
            yield Case(program=render(g.gen('int', None, 2)), mode='cli', tag='cli-int', skip_model=False)
            yield Case(program=enc(k), mode='cli', tag='cli-lit', monitor='c18_exit', data=('exit', k))
        elif c == 1:
            yield Case(program="ㅂㄱㅎㄱ", mode='cli', tag='cli-nil', monitor='c18_exit', data=('exit', 0))
        elif c == 2:     # function applied to the command-line arguments: number of arguments / length of the first
            # arguments reach the program code point for code point (decomposed Hangul, combining marks, NFC-unstable singletons)
            argv = tuple(rng.choice(["a", "bc", "가나다", "", "x y", "\u1100\u1161", "e\u0301", "\u212b", "\uf900x", "a\u0301\u0301b"])
                         for _ in range(rng.randint(1, 3)))
            # every kind of function is applied to the command-line arguments, not only literal definitions: a pipe,
            # a spread / collect wrapper, a built-in module function, a partially built closure returned by a call
            for prog, want in [("ㅈㄷ ㄴㄱㅎㄴ", ('exit', len(argv[0])) if len(argv) == 1 else None),
                               ("(ㄱㅇㄱ ㅈㄷㅎㄴ ㅎ) ㅂㅂㅎㄴ", ('exit', len(argv))),
                               ("(ㄱㅇㄱ ㅎ) ㅎㄱ".replace("(ㄱㅇㄱ ㅎ) ㅎㄱ", "((ㄱㅇㄱ ㅈㄷㅎㄴ ㅎ) ㅎ) ㅎㄱ"), ('exit', len(argv[0]))),
                               ("(ㄱㅇㄱ ㅈㄷㅎㄴ ㅎ) (ㄱㅇㄱ ㄴ ㄷㅎㄷ ㅎ) ㄴㄱㅎㄷ", ('exit', len(argv[0]) + 1) if len(argv) == 1 else None)]:
                if want is None:
                    yield Case(program=prog, mode='cli', argv=argv, tag='cli-fn-kind')
                else:
                    yield Case(program=prog, mode='cli', argv=argv, tag='cli-fn-kind', monitor='c18_exit', data=want)
            yield Case(program="ㄱㅇㄱ ㅈㄷㅎㄴ ㅎ", mode='cli', argv=argv, tag='cli-fn', monitor='c18_exit', data=('exit', len(argv[0])))
            yield Case(program=f"{enc(len(argv) - 1)} ㅇㄱ ㅈㄷㅎㄴ ㅎ", mode='cli', argv=argv, tag='cli-fn-last', monitor='c18_exit', data=('exit', len(argv[-1])))
        elif c == 3:     # I/O result executed: prints, then status
            yield Case(program=f"({render(str_lit('hi'))} ㅈㄹㅎㄴ) ({enc(k)} ㄱㅅㅎㄴ ㅎ) ㄱㄹㅎㄷ", mode='cli', tag='cli-io', monitor='c18_exit',
                       data=('exit', k, "hi\n"))
        elif c == 4:     # function returning an I/O action
            yield Case(program=f"(ㄱㅇㄱ ㅈㄹㅎㄴ) ({enc(k)} ㄱㅅㅎㄴ ㅎ) ㄱㄹㅎㄷ ㅎ", mode='cli', argv=("out",), tag='cli-fn-io', monitor='c18_exit',
                       data=('exit', k, "out\n"))
        elif c == 5:     # any other result kind is an error
            bad = rng.choice(["ㅁㅈㅎㄱ", "ㅈㅈㅎㄱ", "ㅁㄹㅎㄱ", "ㄴ ㅅㅅㅎㄴ", "ㅅㅈㅎㄱ", "(ㅁㅈㅎㄱ ㄱㅅㅎㄴ)", "ㄷㅂㅎㄱ"])
            yield Case(program=bad, mode='cli', tag='cli-badkind', monitor='c18_exit', data=('err',))
            # … in particular what an executed action *delivers*: an action that yields a function, a Boolean, a string, or a
            # function that returns a function — none of them is applied / executed a second time (seeded change S18l executed a
            # top-level action before looking for a function, so an action yielding a function had that function applied)
            for bad2 in ["(ㅈ ㅎ) ㄱㅅㅎㄴ", "(ㄱㅇㄱ ㅈㄷㅎㄴ ㅎ) ㄱㅅㅎㄴ", "(ㄱㅇㄱ ㅈㄷㅎㄴ ㄱㅅㅎㄴ ㅎ) ㄱㅅㅎㄴ", "(ㅈㅈㅎㄱ) ㄱㅅㅎㄴ",
                         "(ㄹㅎㄱ) ((ㄱㅇㄱ ㅈㄷㅎㄴ ㅎ) ㄱㅅㅎㄴ ㅎ) ㄱㄹㅎㄷ", "(ㄱ ㅎ) ㅎ", "ㄱㅇㄱ ㅈㄷㅎㄴ ㅎ ㅎ"]:
                yield Case(program=bad2, mode='cli', argv=("abc",), stdin="line\n", tag='cli-badkind-delivered', monitor='c18_exit', data=('err',))
        elif c == 6:     # more than one top-level expression is an error; none is status 0
            yield Case(program=f"{enc(k)} {enc(k)}", mode='cli', tag='cli-two', monitor='c18_exit', data=('err',))
            yield Case(program=rng.choice(["", "  ", "abc !"]), mode='cli', tag='cli-empty', monitor='c18_exit', data=('exit', 0))
        elif c == 7:     # reading input then returning its length
            yield Case(program="ㄹㅎㄱ (ㄱㅇㄱ ㅈㄷㅎㄴ ㄱㅅㅎㄴ ㅎ) ㄱㄹㅎㄷ", mode='cli', stdin="hello\nrest\n", tag='cli-input', monitor='c18_exit', data=('exit', 5))
        else:
            yield Case(program=render(bi('ㄱㅅ', lit(k))), mode='cli', tag='cli-ret', monitor='c18_exit', data=('exit', k))


SPEC = {
    'lean': ['C18'],
    'cases': cases,
    'big': True,
    'stream': 'C18 print / read-back / exit-status stream',
    'rule': 'integers to 10^300 printed (ㅁㅈ, top level) and read back (ㅈㅅ∘ㅁㅈ = id); finite doubles from random bit '
            'patterns, decimal fractions and known hard cases: ㅅㅅ∘ㅁㅈ = id (checked by ㄴ inside the program) and printed '
            'form = shortest round-trip form; random nested values against the documented printed form; dictionaries in '
            'three shuffled insertion orders must print identically (sorted by printed key); dictionaries whose keys print identically (distinct functions) against the model (ties keep insertion order); cli.run: integer literal / '
            'expression, Nil → 0, function applied to argv, I/O executed with its output, other kinds and two expressions '
            'rejected, empty program → 0. Non-trivial: all',
    'trusted': ['repr(float) of the host as the definition of the shortest round-trip form (model: own dtoa, compared each run)'],
    'assumptions': ['the subprocess exit status (python -m pbhhg_py.cli → sys.exit) is the return value of cli.run'],
}
