"""C20 — evaluations are isolated from each other and independent of the host hash seed."""
import os, sys, json, subprocess
from .. import gen, impl, common, values as VL
from ..gen import lit, bi, raw, call, fundef, arg, render, str_lit, enc
from ..corr import Case, monitor, obs

FS = {"가.pbhhg": "ㄴ ㄷ ㄷㅎㄷ".encode(), "나/다.pbhhg": "ㄱㅇㄱ ㄴ ㄷㅎㄷ ㅎ".encode(), "라.pbhhg": "ㄴ ㄱ ㄴㄴㅎㄷ".encode(),
      "마.pbhhg": "ㄱ ㅂㅎㄴ".encode(), "바.pbhhg": "ㄴ ㄱㅇ ㅎㄱ ㄷㅎㄷ ㅎ ㅎㄱ".encode()}
SPECIAL = [
    "ㄱ ㅂㅎㄴ", "ㄴ ㄷ ㅂㅎㄷ", "ㄷ (ㄴ ㄷ ㅂㅎㄷ) ㅎㄴ", "ㄹ ㅂㅎㄴ", "ㅁ ㅂㅎㄴ", "ㅂ ㅂㅎㄴ".replace("ㅂ ㅂㅎㄴ", "ㅂㄱ ㅂㅎㄴ"), "(ㄹ ㅂㅎㄴ) (ㄱㅇㄱ ㅎ) ㅅㄷㅎㄷ",
    "ㄴ ㄱㅇ ㅎㄱ ㄷㅎㄷ ㅎ ㅎㄱ",                      # hits the evaluator's stack limit (aborts mid-evaluation)
    "(ㄱ ㅂㅎㄴ) (ㄱ ㅂㅎㄴ) ㄴㅎㄷ", "ㄹㅎㄱ (ㄱㅇㄱ ㅈㄹㅎㄴ ㅎ) ㄱㄹㅎㄷ", "ㄱ ㄴ ㄷ ㄹ ㅅㅈㅎㅁ", "(ㅂ ㅅ ㅂㅎㄷ)", "(ㅂ ㅂㄷ ㄱ ㅂㅎㄹ) (ㅂ ㅂㄷ ㄱ ㅂㅎㄹ) ㄴㅎㄷ",
    "ㄴ ㄱ ㄴㄴㅎㄷ", "ㅈㅈㅈㅈ ㅎㄱ", "ㄱ ㅎㄴ",
]


@monitor('c20_session')
def _session(case, a):
    """`data` = the session (list of programs). Each program's outcome inside the session — after
    everything before it ran in the same process — must equal its stand-alone outcome."""
    progs = case.data
    alone = [obs(impl.run_main(p, "in1\nin2\n", FS, True, 10.0, reset_registry=True)) for p in progs]
    first = True
    for i, p in enumerate(progs):
        r = obs(impl.run_main(p, "in1\nin2\n", FS, True, 10.0, reset_registry=first))
        first = False
        if r != alone[i]:
            return f"program #{i} {p[:60]!r} gives {r} after {i} earlier evaluations, {alone[i]} stand-alone"
    return None


HASH_SCRIPT = r'''
import sys, json, io
sys.path.insert(0, sys.argv[1])
from pbhhg_py import main as M, abstract_syntax as AS
progs = json.load(open(sys.argv[2]))
out = []
for p in progs:
    sys.stdin = io.TextIOWrapper(io.BytesIO(b""), encoding="utf-8")
    try:
        out.append(["ok", M.main("<t>", p, True)])
    except AS.UnsuspectedHangeulError as e:
        out.append(["err", [str(v) for v in e.err.value]])
    except RuntimeError as e:
        out.append(["limit", str(e)])
print(json.dumps(out))
'''


@monitor('c20_hashseed')
def _hashseed(case, a):
    """`data` = (programs, seeds): the same batch under several PYTHONHASHSEED values, in fresh processes"""
    progs, seeds = case.data
    import tempfile
    with tempfile.TemporaryDirectory(prefix='uhverif_hs_') as d:
        pf = os.path.join(d, 'progs.json')
        sf = os.path.join(d, 'run.py')
        json.dump(progs, open(pf, 'w'))
        open(sf, 'w').write(HASH_SCRIPT)
        ref = None
        for s in seeds:
            env = dict(os.environ, PYTHONHASHSEED=str(s))
            p = subprocess.run([sys.executable, sf, common.REPO, pf], capture_output=True, text=True, env=env, cwd=d, timeout=120)
            if p.returncode != 0:
                return f"interpreter process failed under PYTHONHASHSEED={s}: {p.stderr[-300:]}"
            out = json.loads(p.stdout)
            if ref is None:
                ref = (s, out)
            elif out != ref[1]:
                k = next(i for i, (x, y) in enumerate(zip(out, ref[1])) if x != y)
                return f"program {progs[k][:80]!r} prints {out[k]} under PYTHONHASHSEED={s} but {ref[1][k]} under {ref[0]}"
    return None


def cases(rng, tier):
    n = 60 if tier == 'quick' else 1500
    g = gen.Gen(rng, max_depth=4)
    pool = SPECIAL + [render(g.program()) for _ in range(40)] + [render(gen.gen_illtyped(rng, g)) for _ in range(15)]
    for _ in range(n):
        k = rng.randint(2, 12)
        progs = [rng.choice(pool) for _ in range(k)]
        if rng.random() < 0.5:
            progs = progs + progs[:rng.randint(1, 3)]          # repetitions
        if rng.random() < 0.3:
            rng.shuffle(progs)
        yield Case(program=progs[0], fs=FS, stdin="in1\nin2\n", tag='session', monitor='c20_session', data=progs, skip_model=True, timeout=20)
    # stand-alone outcome of every pool program equals the model's (so "stand-alone" means the specified outcome)
    for p in pool:
        yield Case(program=p, fs=FS, stdin="in1\nin2\n", tag='standalone')
    # hash seeds: dictionaries / equality / printing heavy programs
    hs = []
    for _ in range(40 if tier == 'quick' else 400):
        v = VL.rand_value(rng, 0, ['int', 'float', 'str', 'bool', 'bytes', 'nil', 'list', 'dict', 'exc'])
        hs.append(render(v.expr))
        d = VL.vdict([(VL.rand_value(rng, 2, ['int', 'str', 'float', 'bool', 'bytes', 'list']), VL.vint(i)) for i in range(rng.randint(2, 6))])
        hs.append(render(d.expr))
        hs.append(render(bi('ㄷ', d.expr, d.expr)))
        hs.append(render(bi('ㄴ', d.expr, VL.vdict(list(reversed(d.payload))).expr)))
    seeds = [0, 1, 2] if tier == 'quick' else list(range(16))
    yield Case(program="ㄱ", tag='hashseed', monitor='c20_hashseed', data=(hs, seeds), skip_model=True, timeout=300)


SPEC = {
    'lean': ['C20'],
    'cases': cases,
    'stream': 'C20 session stream',
    'rule': 'sessions of 2–15 programs (with repetitions and shuffles) drawn from a pool of imports (by literal, by path, '
            'nested, failing, self-importing a failing module), stack-limit aborts, I/O, dictionaries, built-in modules, '
            'random typed and ill-typed programs, all evaluated in one process without resetting anything: every outcome '
            '(result, exception, stdout, consumed stdin) must equal the stand-alone outcome, which in turn must equal the '
            'model\'s; one batch of dictionary / equality / printing programs in fresh processes under 3 (quick) / 16 '
            'PYTHONHASHSEED values must print identically. Non-trivial: all sessions',
    'trusted': ['fresh-process runs use the same interpreter binary'],
    'assumptions': ['the module cache (allowed state) persists inside a session'],
}
