"""C20 — evaluations are isolated from each other and independent of the host hash seed."""
import os, sys, json, subprocess
from .. import gen, impl, common, values as VL
from ..gen import bytes_lit, lit, bi, raw, call, fundef, arg, render, str_lit, enc
from ..corr import Case, monitor, obs

FS = {"가.pbhhg": "ㄴ ㄷ ㄷㅎㄷ".encode(), "나/다.pbhhg": "ㄱㅇㄱ ㄴ ㄷㅎㄷ ㅎ".encode(), "라.pbhhg": "ㄴ ㄱ ㄴㄴㅎㄷ".encode(),
      "마.pbhhg": "ㄱ ㅂㅎㄴ".encode(), "바.pbhhg": "ㄴ ㄱㅇ ㅎㄱ ㄷㅎㄷ ㅎ ㅎㄱ".encode(),
      # modules whose value is a *container holding an I/O action* (kept alive by the module cache across evaluations: printing
      # it executes the action each time — seeded change S20l memoised the printed text on the container object)
      "사.pbhhg": "ㄹㅎㄱ ㅁㄹㅎㄴ".encode(), "자.pbhhg": "ㄱ (ㄹㅎㄱ) ㄴ (ㄹㅎㄱ ㅁㄹㅎㄴ) ㅅㅈㅎㅁ".encode()}
SPECIAL = [
    "ㄱ ㅂㅎㄴ", "ㄴ ㄷ ㅂㅎㄷ", "ㄷ (ㄴ ㄷ ㅂㅎㄷ) ㅎㄴ", "ㄹ ㅂㅎㄴ", "ㅁ ㅂㅎㄴ", "ㅂ ㅂㅎㄴ".replace("ㅂ ㅂㅎㄴ", "ㅂㄱ ㅂㅎㄴ"), "(ㄹ ㅂㅎㄴ) (ㄱㅇㄱ ㅎ) ㅅㄷㅎㄷ",
    "ㄴ ㄱㅇ ㅎㄱ ㄷㅎㄷ ㅎ ㅎㄱ",                      # hits the evaluator's stack limit (aborts mid-evaluation)
    "(ㄱ ㅂㅎㄴ) (ㄱ ㅂㅎㄴ) ㄴㅎㄷ", "ㄹㅎㄱ (ㄱㅇㄱ ㅈㄹㅎㄴ ㅎ) ㄱㄹㅎㄷ", "ㄱ ㄴ ㄷ ㄹ ㅅㅈㅎㅁ", "(ㅂ ㅅ ㅂㅎㄷ)", "(ㅂ ㅂㄷ ㄱ ㅂㅎㄹ) (ㅂ ㅂㄷ ㄱ ㅂㅎㄹ) ㄴㅎㄷ",
    "ㄴ ㄱ ㄴㄴㅎㄷ", "ㅈㅈㅈㅈ ㅎㄱ", "ㄱ ㅎㄴ",
    "ㅅ ㅂㅎㄴ", "ㅈ ㅂㅎㄴ", "(ㅅ ㅂㅎㄴ) (ㅅ ㅂㅎㄴ) ㅁㄹㅎㄷ", "ㄱ (ㅅ ㅂㅎㄴ) ㅎㄴ", "(ㅅ ㅂㅎㄴ) ㅈㄷㅎㄴ",
]


def _host_state_programs():
    """programs whose outcome depends on process-wide host settings an evaluation could leave changed:
    the integer ↔ decimal-string conversion limit (printing, ㅁㅈ, ㅈㅅ of > 4300 digits), the working directory
    (relative file paths after imports from sub-directories), the recursion bookkeeping after a stack-limit abort"""
    from . import c14, c05
    big = bi('ㅅ', lit(10), lit(5000))
    return [
        render(big),                                             # prints 5001 digits
        render(bi('ㅈㄷ', bi('ㅁㅈ', big))),                      # len(str(10**5000)) through ㅁㅈ
        render(bi('ㄴ', bi('ㅈㅅ', bi('ㅁㅈ', big)), big)),         # int(str(10**5000)) == 10**5000 through ㅈㅅ
        render(bi('ㅈㄷ', bi('ㅁㅈ', bi('ㅁㄹ', big, big)))),       # the same inside a list
        render(bi('ㅁㅈ', bi('ㅅ', lit(10), lit(4299)))),          # just under the host default limit
        c14.program("s20.bin", 'a+', [('write', b'ab'), ('seek', 0), ('read', -1), ('close',)]),
        c14.program("나/s20.bin", 'w+', [('write', b'xyz'), ('seek', 1), ('read', 1), ('close',)]),
        render(bi('ㅂ', str_lit("나/다.pbhhg"))) + " (ㄷ ㄱㅇㄱ ㅎㄴ ㅎ) ㅎㄴ",
        # the standard streams taken out by descriptor (ㄱㄴ with 0 / 1 / 2): each evaluation has its own
        f"ㄴ ㅈㄹ ㄱㄴㅎㄷ ({render(bytes_lit(b'a'))} ㅈㄹ ㄱㅇㄱ ㅎㄷ ㅎ) ㄱㄹㅎㄷ",
        "ㄱ ㄹ ㄱㄴㅎㄷ (ㄹ ㄹ ㄱㅇㄱ ㅎㄷ ㅎ) ㄱㄹㅎㄷ",
        f"(ㄴ ㅈㄹ ㄱㄴㅎㄷ ({render(bytes_lit(b'b'))} ㅈㄹ ㄱㅇㄱ ㅎㄷ ㅎ) ㄱㄹㅎㄷ) ({render(str_lit('t'))} ㅈㄹㅎㄴ ㅎ) ㄱㄹㅎㄷ",
        # values nested hundreds / thousands of levels deep, printed: whether this ends in a value, the limit report or (recorded
        # finding 2) the host's recursion error, it ends the same way first and after any number of other evaluations
        # (seeded change S20j raised the host recursion limit by 5000 on every evaluation)
        c05.nestfmt(300)[0], c05.nestfmt(600)[0], c05.nestfmt(3500)[0], c05.nestfmt(4500)[0],
        # process-lifetime *functions* (built-in module functions, functions of an imported module) compared with / keyed next
        # to functions created by this evaluation: different functions, in every evaluation (seeded change S20i restarted
        # the identity numbering per program)
        "(ㅂ ㅅ ㅅㄴ ㅂㅎㄹ) (ㄱㅇㄱ ㅎ) ㄴㅎㄷ",
        "(ㅂ ㅂㄷ ㄱ ㅂㅎㄹ) (ㄱ ㅎ) ㄴㅎㄷ",
        "(ㅂ ㅅ ㅅㄴ ㅂㅎㄹ) ((ㅂ ㅅ ㅅㄴ ㅂㅎㄹ) ㄴ (ㄱㅇㄱ ㅎ) ㄷ ㅅㅈㅎㅁ) ㅎㄴ",
        "((ㅂ ㅅ ㅅㄴ ㅂㅎㄹ) ㅁㄹㅎㄴ) ((ㄱㅇㄱ ㅎ) ㅁㄹㅎㄴ) ㄴㅎㄷ",
        "(ㄱㅇㄱ ㅎ) (ㄱㅇㄱ ㄱㅇㄱ ㄷㅎㄷ ㅎ) (ㅂ ㅅ ㅅㄴ ㅂㅎㄹ) (ㅂ ㅂㄷ ㄱ ㅂㅎㄹ) (ㄱㅇㄱ ㄴㅇㄱ ㄴㅎㄷ  ㄱㅇㄱ ㄷㅇㄱ ㄴㅎㄷ  ㄴㅇㄱ ㄹㅇㄱ ㄴㅎㄷ  ㄷㅇㄱ ㄹㅇㄱ ㄴㅎㄷ ㅁㄹㅎㅁ ㅎ) ㅎㅁ",
        render(bi('ㅂ', str_lit("나/다.pbhhg"))) + " (ㄱㅇㄱ ㅎ) ㄴㅎㄷ",
        # process-lifetime objects (the built-in module directories) as operands of a merge / a lookup
        "ㅈㄷ ((ㅂ ㅅ ㅂㅎㄷ) (ㅂ ㄱ ㅅㅈㅎㄷ) ㄷㅎㄷ) ㅎㄴ".replace("ㅈㄷ (", "ㅂ (", 1),
        "ㅂ ((ㅂ ㅅ ㅂㅎㄷ) ㅅㅈㅎㄱ ㄷㅎㄷ) ㅎㄴ",
        "ㅂ (ㅂ ㅅ ㅂㅎㄷ) ㅎㄴ",
        "ㅂ ((ㅂ ㅅ ㅂㅎㄷ) (ㅂ ㅂㄷ ㅂㅎㄷ) ㄷㅎㄷ) ㅎㄴ",
        "ㄱ ((ㅂ ㅂㄷ ㅂㅎㄷ) (ㄱ ㄴ ㅅㅈㅎㄷ) ㄷㅎㄷ) ㅎㄴ",
        "ㄴ ㄷ (ㄱ ((ㅂ ㅂㄷ ㅂㅎㄷ) ㅅㅈㅎㄱ ㄷㅎㄷ) ㅎㄴ) ㅎㄷ",
        "ㄱ ((ㅂ ㅅ ㅂㄹ ㅂㅎㄹ) (ㄱ ㄹ ㅅㅈㅎㄷ) ㄷㅎㄷ) ㅎㄴ",
        "(ㄴ ㅅㅅㅎㄴ ㄷ ㄴㄴㅎㄷ) (ㄱ ((ㅂ ㅅ ㅂㄹ ㅂㅎㄹ) ㅅㅈㅎㄱ ㄷㅎㄷ) ㅎㄴ) ㅎㄴ",
        # host OS errors of different kinds (missing file, a directory, a file used as a directory), caught and *inspected*: the
        # exception value is the same whatever errors earlier evaluations met (seeded change S20k accumulated the errno of every
        # OS error of the process in one class-level list)
        render(bi('ㅅㄷ', bi('ㅂ', str_lit("없다.pbhhg")), fundef(arg(0)))),
        render(bi('ㅅㄷ', bi('ㅂ', str_lit("나")), fundef(arg(0)))),
        render(bi('ㅅㄷ', bi('ㅂ', str_lit("나/다.pbhhg/x")), fundef(arg(0)))),
        render(bi('ㅈㄷ', bi('ㅅㄷ', bi('ㅂ', str_lit("없다.pbhhg")), fundef(arg(0))))),
        render(bi('ㅂ', str_lit("없다.pbhhg"))),
        "ㄱ (ㄱㅇㄱ ㄴ ㄷㅎㄷ ㄱㅇ ㅎㄴ ㅎ) ㅎㄴ",                   # unbounded non-tail-free loop: limit or runs forever? tail call: bounded by timeout
    ][:-1]


def _equalish_sessions(rng, tier='quick'):
    """the same function applied, in one process, to arguments the host considers equal (and hashes alike) but the
    language distinguishes: 0.0 / −0.0 / 0 / 0+0i / −0.0+0i, 1 / 1.0 / 1+0i — in both orders. A cache keyed by
    host equality anywhere in the interpreter would make the later result depend on the earlier call."""
    Z, NZ, ONE = "(ㄱ ㅅㅅㅎㄴ)", "(ㄱ ㅅㅅㅎㄴ ㄴㄱ ㄱㅎㄷ)", "(ㄴ ㅅㅅㅎㄴ)"
    args = [Z, NZ, "ㄱ", f"({Z} {Z} ㅂㅅㅎㄷ)", f"({NZ} {Z} ㅂㅅㅎㄷ)", f"({Z} {NZ} ㅂㅅㅎㄷ)", "ㄴ", ONE, f"({ONE} {Z} ㅂㅅㅎㄷ)", "ㄴㄱ", f"({ONE} ㄴㄱ ㄱㅎㄷ)"]
    unary = [f"(ㅂ ㅅ {n} ㅂㅎㄹ)" for n in ("ㅅㄴ", "ㄴㅅ", "ㄱㅅ", "ㅅㄱ", "ㄷㄴ", "ㄴㄷ", "ㄹㄱ", "ㅈㄷ", "ㄴㄴ", "ㅁㄴ")] + \
            [f"(ㅂ ㅅ ㅂㄹ {n} ㅂㅎㅁ)" for n in "ㄱㄴㄷㄹㅁ"] + ["ㅁㅈ", "ㅅㅅ", "ㅈㅅ", "(ㅂ ㅂㄷ ㅂ ㅂㅎㄹ)"]
    binary = ["(ㅂ ㅅ ㄴㄷ ㅂㅎㄹ)", "(ㅂ ㅅ ㄱ ㅂㅎㄹ)", "ㄷ", "ㄱ", "ㅅ", "ㄴ", "ㅈ", "ㄴㄴ", "ㄴㅁ", "ㅂㅅ"]
    out = []
    for f in unary:
        progs = [f"{a} {f} ㅎㄴ" for a in args]
        out.append(progs)
        out.append(list(reversed(progs)))
        sh = progs[:]
        rng.shuffle(sh)
        out.append(sh)
    # binary functions: operands that the host considers equal across numeric types (2, 2.0, 2+0i; 40, 40.0 …), also
    # large enough exponents for a power cache to engage
    TWO, TWOF = "ㄷ", "(ㄷ ㅅㅅㅎㄴ)"
    left = args[:6] + [TWO, TWOF, f"({TWOF} {Z} ㅂㅅㅎㄷ)", "ㄹ", "(ㄹ ㅅㅅㅎㄴ)", f"((ㄹ ㅅㅅㅎㄴ) {Z} ㅂㅅㅎㄷ)", "ㅈ", "(ㅈ ㅅㅅㅎㄴ)"]
    right = [Z, NZ, "ㄴㄱ", TWO, TWOF, enc(40), f"({enc(40)} ㅅㅅㅎㄴ)", enc(-33), enc(33)]
    if tier == 'quick':
        left = [Z, NZ, "ㄱ", TWO, TWOF, f"({TWOF} {Z} ㅂㅅㅎㄷ)", "ㄹ", "(ㄹ ㅅㅅㅎㄴ)"]
        right = [Z, NZ, TWO, TWOF, enc(40), f"({enc(40)} ㅅㅅㅎㄴ)", enc(-33)]
    for f in binary:
        prs = [(a, b) for a in left for b in right]
        progs = [f"{a} {b} {f} ㅎㄷ" for a, b in prs]
        out.append(progs)
        out.append(list(reversed(progs)))
    return out


SESSION_SCRIPT = r'''
# Runs sessions in pristine processes: this parent process only imports the interpreter and never
# evaluates anything; every stand-alone run and every session runs in its own forked child, so that
# "stand-alone" really means "first evaluation in a fresh process state".
import sys, os, pickle, tempfile
sys.path.insert(0, sys.argv[1])
from uh import impl
from uh.corr import obs
sessions, FS, STDIN = pickle.load(open(sys.argv[2], 'rb'))
impl.sandbox()
tmp = tempfile.mktemp(prefix='uhverif_c20_')

def in_child(fn):
    pid = os.fork()
    if pid == 0:
        try:
            out = fn()
        except BaseException as e:
            out = {'kind': 'harness-error', 'msg': repr(e)}
        with open(tmp, 'wb') as f:
            pickle.dump(out, f)
        os._exit(0)
    os.waitpid(pid, 0)
    with open(tmp, 'rb') as f:
        out = pickle.load(f)
    os.unlink(tmp)
    return out

fails = []
alone_cache = {}
for progs in sessions:
    for p in progs:
        if p not in alone_cache:
            alone_cache[p] = in_child(lambda: obs(impl.run_main(p, STDIN, FS, True, 10.0, reset_registry=True)))
    seq = in_child(lambda: [obs(impl.run_main(p, STDIN, FS, True, 10.0, reset_registry=(i == 0))) for i, p in enumerate(progs)])
    if isinstance(seq, dict):
        fails.append((progs, -1, seq, None)); continue
    for i, p in enumerate(progs):
        if seq[i] != alone_cache[p]:
            fails.append((progs, i, seq[i], alone_cache[p]))
            break
pickle.dump(fails, open(sys.argv[3], 'wb'))
'''


HISTORY_SCRIPT = r'''
# Two evaluation histories over one scratch directory that is *not* reset between evaluations, each in its own forked
# child of a process that never evaluates anything: the outcome of the last program must be the same.
import sys, os, pickle, tempfile
sys.path.insert(0, sys.argv[1])
from uh import impl
from uh.corr import obs
items = pickle.load(open(sys.argv[2], 'rb'))
impl.sandbox()
tmp = tempfile.mktemp(prefix='uhverif_c20h_')

def in_child(fn):
    pid = os.fork()
    if pid == 0:
        try:
            out = fn()
        except BaseException as e:
            out = {'kind': 'harness-error', 'msg': repr(e)}
        with open(tmp, 'wb') as f:
            pickle.dump(out, f)
        os._exit(0)
    os.waitpid(pid, 0)
    with open(tmp, 'rb') as f:
        out = pickle.load(f)
    os.unlink(tmp)
    return out

def history(fs, progs):
    def fn():
        r = None
        for i, p in enumerate(progs):
            r = obs(impl.run_main(p, "", fs if i == 0 else impl.KEEP, True, 10.0, reset_registry=(i == 0)), True)
        return r
    return in_child(fn)

fails = []
for fs, a, b in items:
    ra, rb = history(fs, a), history(fs, b)
    if ra != rb:
        fails.append((a, b, ra, rb))
pickle.dump(fails, open(sys.argv[3], 'wb'))
'''


@monitor('c20_history')
def _history(case, a):
    """`data` = [(fs, history A, history B)]: both histories end with the same program and leave the same files behind
    before it; its outcome (result, output, files) must not depend on what else was evaluated before in the process"""
    import tempfile, pickle
    with tempfile.TemporaryDirectory(prefix='uhverif_c20h_') as d:
        sf, inp, outp = os.path.join(d, 'run.py'), os.path.join(d, 'in.pkl'), os.path.join(d, 'out.pkl')
        open(sf, 'w').write(HISTORY_SCRIPT)
        pickle.dump(case.data, open(inp, 'wb'))
        env = dict(os.environ, UH_REPO=common.REPO)
        p = subprocess.run([sys.executable, sf, os.path.dirname(os.path.dirname(os.path.dirname(os.path.abspath(__file__)))), inp, outp],
                           capture_output=True, text=True, env=env, cwd=d, timeout=600)
        if p.returncode != 0 or not os.path.exists(outp):
            return f"history runner failed: {p.stderr[-400:]}"
        fails = pickle.load(open(outp, 'rb'))
    if fails:
        ha, hb, ra, rb = fails[0]
        return (f"{len(fails)} history pair(s) differ; first: last program {ha[-1][:60]!r} gives {ra} after {[q[:40] for q in ha[:-1]]} "
                f"but {rb} after {[q[:40] for q in hb[:-1]]}")
    return None


def _history_items():
    """a lookup, then a change of the directory made by a program, then the same lookup again — against the history
    without the first lookup (import by literals / by path, a missing module appearing, a twin making it ambiguous, a
    file rewritten between two reads)"""
    from . import c14
    def write(path, text):
        return c14.program(path, 'w', [('write', text.encode()), ('close',)])
    imp1, imp2 = "ㄱ ㅂㅎㄴ", "ㄱ ㄴ ㅂㅎㄷ"
    bypath = render(bi('ㅂ', str_lit("가.pbhhg")))
    readf = c14.program("d.txt", 'r', [('read', -1), ('close',)])
    items = []
    # a module that does not exist yet, created by a program, then imported
    items.append(({}, [imp1, write("가.pbhhg", "ㄷㅈ"), imp1], [write("가.pbhhg", "ㄷㅈ"), imp1]))
    items.append(({}, [bypath, write("가.pbhhg", "ㄷㅈ"), bypath], [write("가.pbhhg", "ㄷㅈ"), bypath]))
    items.append(({"가/x": b""}, [imp2, write("가/나.pbhhg", "ㄹ"), imp2], [write("가/나.pbhhg", "ㄹ"), imp2]))
    # a unique module that becomes ambiguous when a twin appears
    items.append(({"가.pbhhg": "ㄴ".encode()}, [f"({imp1}) (ㄱ ㅎ) ㅅㄷㅎㄷ", write("고.pbhhg", "ㄷ"), imp1], [write("고.pbhhg", "ㄷ"), imp1]))
    # an import that failed (two expressions) and is then repaired on disk
    items.append(({"가.pbhhg": "ㄴ ㄷ".encode()}, [f"({imp1}) (ㄱ ㅎ) ㅅㄷㅎㄷ", write("가.pbhhg", "ㅂ"), imp1], [write("가.pbhhg", "ㅂ"), imp1]))
    # a data file read, rewritten by a program, read again
    items.append(({"d.txt": b"old"}, [readf, write("d.txt", "new!"), readf], [write("d.txt", "new!"), readf]))
    # unrelated evaluations in between change nothing
    items.append(({"가.pbhhg": "ㄴ".encode()}, ["ㄴ ㄷ ㄷㅎㄷ", "ㄴ ㄱ ㄴㄴㅎㄷ".replace("ㄴ ㄱ ㄴㄴㅎㄷ", "(ㄴ ㄱ ㄴㄴㅎㄷ) (ㄱ ㅎ) ㅅㄷㅎㄷ"), imp1], [imp1]))
    return items


@monitor('c20_session')
def _session(case, a):
    """`data` = a batch of sessions (lists of programs). Each program's outcome inside its session — after
    everything before it ran in the same process — must equal its stand-alone outcome in a fresh process
    state (both measured in forked children of a process that never evaluated anything)."""
    import tempfile, pickle
    sessions = case.data
    with tempfile.TemporaryDirectory(prefix='uhverif_c20_') as d:
        sf, inp, outp = os.path.join(d, 'run.py'), os.path.join(d, 'in.pkl'), os.path.join(d, 'out.pkl')
        open(sf, 'w').write(SESSION_SCRIPT)
        pickle.dump((sessions, FS, "in1\nin2\n"), open(inp, 'wb'))
        env = dict(os.environ, UH_REPO=common.REPO)
        p = subprocess.run([sys.executable, sf, os.path.dirname(os.path.dirname(os.path.dirname(os.path.abspath(__file__)))), inp, outp],
                           capture_output=True, text=True, env=env, cwd=d, timeout=600)
        if p.returncode != 0 or not os.path.exists(outp):
            return f"session runner failed: {p.stderr[-400:]}"
        fails = pickle.load(open(outp, 'rb'))
    if fails:
        progs, i, got, want = fails[0]
        return (f"{len(fails)} session(s) differ; first: program #{i} {progs[i][:60]!r} gives {got} after "
                f"{[q[:40] for q in progs[:i]]}, {want} stand-alone in a fresh process")
    return None


HASH_SCRIPT = r'''
import sys, json, io
sys.path.insert(0, sys.argv[1])
from pbhhg_py import main as M, abstract_syntax as AS
progs = json.load(open(sys.argv[2]))
out = []
for p in progs:
    sys.stdin = io.TextIOWrapper(io.BytesIO(b""), encoding="utf-8")
    try:
        out.append(["ok", M.main("<t>", p, True)])
    except AS.UnsuspectedHangeulError as e:
        out.append(["err", [str(v) for v in e.err.value]])
    except RuntimeError as e:
        out.append(["limit", str(e)])
print(json.dumps(out))
'''


@monitor('c20_hashseed')
def _hashseed(case, a):
    """`data` = (programs, seeds): the same batch under several PYTHONHASHSEED values, in fresh processes"""
    progs, seeds = case.data
    import tempfile
    with tempfile.TemporaryDirectory(prefix='uhverif_hs_') as d:
        pf = os.path.join(d, 'progs.json')
        sf = os.path.join(d, 'run.py')
        json.dump(progs, open(pf, 'w'))
        open(sf, 'w').write(HASH_SCRIPT)
        ref = None
        for s in seeds:
            env = dict(os.environ, PYTHONHASHSEED=str(s))
            p = subprocess.run([sys.executable, sf, common.REPO, pf], capture_output=True, text=True, env=env, cwd=d, timeout=120)
            if p.returncode != 0:
                return f"interpreter process failed under PYTHONHASHSEED={s}: {p.stderr[-300:]}"
            out = json.loads(p.stdout)
            if ref is None:
                ref = (s, out)
            elif out != ref[1]:
                k = next(i for i, (x, y) in enumerate(zip(out, ref[1])) if x != y)
                return f"program {progs[k][:80]!r} prints {out[k]} under PYTHONHASHSEED={s} but {ref[1][k]} under {ref[0]}"
    return None


def cases(rng, tier):
    n = 60 if tier == 'quick' else 1500
    g = gen.Gen(rng, max_depth=4)
    # programs of the fragment of the call-by-name reference semantics: for these `C20.session_isolated` is a theorem — in any
    # heap earlier evaluations left behind each yields its by-name value — and the stand-alone cases below also compare the
    # implementation with the executable reference semantics (`bn`)
    from . import c02 as _c02
    core = [_c02.core_program(rng, rng.randint(2, 5)) for _ in range(25)]
    pool = SPECIAL + _host_state_programs() + [render(g.program()) for _ in range(40)] + [render(gen.gen_illtyped(rng, g)) for _ in range(15)] + core
    sessions = []
    for _ in range(n):
        k = rng.randint(2, 12)
        progs = [rng.choice(pool) for _ in range(k)]
        if rng.random() < 0.5:
            progs = progs + progs[:rng.randint(1, 3)]          # repetitions
        if rng.random() < 0.3:
            rng.shuffle(progs)
        sessions.append(progs)
    # every ordered pair of the special / host-state programs: q after p must equal q alone
    sp = SPECIAL + _host_state_programs()
    pairs = [[p1, q] for p1 in sp for q in sp]
    # programs of identical layout (same lines, same columns) that differ in one word — in one line and spread over lines,
    # so that everything position-like (file name, line number, columns, even the text of the line holding the call word)
    # coincides between different programs
    shapes = []
    for op in ["ㄷ", "ㄱ", "ㅅ", "ㄴ", "ㅈ"]:
        shapes += [f"ㄹ ㄷ {op} ㅎㄷ", f"ㄹ ㄷ {op}\nㅎㄷ", f"ㄹ ㄷ\n{op}\nㅎㄷ", f"ㄹ ㄷ ({op} ㅎ)\nㅎㄷ".replace(f"({op} ㅎ)", f"{op}")]
    for a in ["ㄴ", "ㄹ", "ㅂ"]:
        shapes += [f"{a} ㄷ ㄷ ㅎㄷ", f"{a} ㄷ\nㄷ ㅎㄷ", f"{a}\nㄷ ㄷ ㅎㄷ"]
    shapes = list(dict.fromkeys(shapes))
    pairs += [[p1, q] for p1 in shapes for q in shapes if p1 != q]
    B = 24
    for tag, ss in (('session', sessions), ('pair', pairs), ('equalish', _equalish_sessions(rng, tier))):
        for i in range(0, len(ss), B):
            yield Case(program="ㄱ", fs=FS, stdin="in1\nin2\n", tag=tag, monitor='c20_session', data=ss[i:i + B],
                       skip_model=True, timeout=900)
    yield Case(program="ㄱ", tag='history', monitor='c20_history', data=_history_items(), skip_model=True, timeout=900)
    # stand-alone outcome of every pool program equals the model's (so "stand-alone" means the specified outcome)
    for p in pool:
        yield Case(program=p, fs=FS, stdin="in1\nin2\n", tag='standalone', big=(p in core))
    # sessions made of fragment programs only (the exact situation of the theorem), long and with many repetitions
    for _ in range(6 if tier == 'quick' else 60):
        progs = [rng.choice(core) for _ in range(rng.randint(8, 20))]
        yield Case(program="ㄱ", fs=FS, stdin="in1\nin2\n", tag='session-core', monitor='c20_session', data=progs, skip_model=True, timeout=900)
    # hash seeds: dictionaries / equality / printing heavy programs
    hs = []
    for _ in range(40 if tier == 'quick' else 400):
        v = VL.rand_value(rng, 0, ['int', 'float', 'str', 'bool', 'bytes', 'nil', 'list', 'dict', 'exc'])
        hs.append(render(v.expr))
        d = VL.vdict([(VL.rand_value(rng, 2, ['int', 'str', 'float', 'bool', 'bytes', 'list']), VL.vint(i)) for i in range(rng.randint(2, 6))])
        hs.append(render(d.expr))
        hs.append(render(bi('ㄷ', d.expr, d.expr)))
        hs.append(render(bi('ㄴ', d.expr, VL.vdict(list(reversed(d.payload))).expr)))
    seeds = [0, 1, 2] if tier == 'quick' else list(range(16))
    yield Case(program="ㄱ", tag='hashseed', monitor='c20_hashseed', data=(hs, seeds), skip_model=True, timeout=300)


SPEC = {
    'lean': ['C20'],
    'cases': cases,
    'stream': 'C20 session stream',
    'rule': 'evaluation histories over a scratch directory that is not reset (lookup – a program changes the directory – same lookup, against the history without the first lookup); all ordered pairs of the special and host-state programs, all ordered pairs of same-layout programs (one line and several lines, differing in one word at identical positions), equalish sessions (each numeric built-in / math / bitwise function applied in one process to host-equal but language-distinct arguments: ±0.0, 0, ±0.0±0.0i, 1, 1.0, −1, in forward, reverse and shuffled order), and sessions of 2–15 programs (with repetitions and shuffles) drawn from a pool of imports (by literal, by path, '
            'nested, failing, self-importing a failing module), stack-limit aborts, I/O, dictionaries, built-in modules, '
            'programs that depend on process-wide host settings (printing / ㅁㅈ / ㅈㅅ of integers beyond 4300 digits, relative file paths after imports from sub-directories), random typed and ill-typed programs, all evaluated in one process without resetting anything: every outcome '
            '(result, exception, stdout, consumed stdin) must equal the stand-alone outcome, which in turn must equal the '
            'model\'s; one batch of dictionary / equality / printing programs in fresh processes under 3 (quick) / 16 '
            'PYTHONHASHSEED values must print identically. Non-trivial: all sessions',
    'trusted': ['fresh-process runs use the same interpreter binary'],
    'assumptions': ['the module cache (allowed state) persists inside a session'],
}
