"""C10 — throw / try deliver the raised exception intact through every strict position."""
from .. import gen
from ..gen import lit, bi, raw, call, fundef, arg, render, enc, str_lit
from ..corr import Case


def payload(rng, g, depth=0):
    """an arbitrary (possibly nested) exception payload: list of argument expressions"""
    n = rng.randint(0, 3)
    out = []
    for _ in range(n):
        c = rng.random()
        if c < 0.4: out.append(lit(g.pick_int()))
        elif c < 0.55: out.append(str_lit(rng.choice(gen.SAMPLE_STRS)))
        elif c < 0.7: out.append(bi('ㅁㄹ', *[lit(rng.randint(0, 9)) for _ in range(rng.randint(0, 3))]))
        elif c < 0.8 and depth < 2: out.append(bi('ㄷㅂ', *payload(rng, g, depth + 1)))
        elif c < 0.9: out.append(rng.choice([gen.BOOL_T, gen.NIL]))
        else: out.append(bi('ㅅㅈ', lit(1), bi('ㅁㄹ', lit(2))))
    return out


# strict positions: (name, template with one {F} hole where the fault is planted)
STRICT = [
    ("add-1", "{F} ㄴ ㄷㅎㄷ"), ("add-2", "ㄴ {F} ㄷㅎㄷ"), ("mul-2", "ㄷ {F} ㄱㅎㄷ"), ("pow-1", "{F} ㄷ ㅅㅎㄷ"), ("pow-2", "ㄷ {F} ㅅㅎㄷ"),
    ("div-1", "{F} ㄷ ㄴㄴㅎㄷ"), ("mod-2", "ㄷ {F} ㄴㅁㅎㄷ"), ("lt-1", "{F} ㄴ ㅈㅎㄷ"), ("lt-2", "ㄴ {F} ㅈㅎㄷ"), ("not", "{F} ㅁㅎㄴ"),
    ("eq-1", "{F} ㄴ ㄴㅎㄷ"), ("eq-2", "ㄴ {F} ㄴㅎㄷ"), ("and-1", "{F} (ㅈㅈㅎㄱ) ㄱㅎㄷ"), ("and-2", "(ㅈㅈㅎㄱ) {F} ㄱㅎㄷ"),
    ("or-2", "(ㄱㅈㅎㄱ) {F} ㄷㅎㄷ"), ("str", "{F} ㅁㅈㅎㄴ"), ("int", "{F} ㅈㅅㅎㄴ"), ("float", "{F} ㅅㅅㅎㄴ"), ("complex", "ㄴ {F} ㅂㅅㅎㄷ"),
    ("len", "{F} ㅈㄷㅎㄴ"), ("slice-1", "{F} ㄱ ㅂㅈㅎㄷ"), ("slice-2", "(ㄴ ㄷ ㅁㄹㅎㄷ) {F} ㅂㅈㅎㄷ"), ("map-1", "{F} (ㄱㅇㄱ ㅎ) ㅁㄷㅎㄷ"),
    ("map-fn", "(ㄴ ㅁㄹㅎㄴ) {F} ㅁㄷㅎㄷ"), ("filter-pred", "ㄱ ((ㄴ ㄷ ㅁㄹㅎㄷ) ({F} ㅎ) ㅅㅂㅎㄷ) ㅎㄴ"), ("fold-elem", "(ㄴ {F} ㅁㄹㅎㄷ) ㄷ ㅅㄹㅎㄷ"),
    ("split", "{F} ㅂㄹㅎㄴ"), ("join", "{F} ㄱㅁㅎㄴ"), ("join-elem", "({F} ㅁㄹㅎㄴ) ㄱㅁㅎㄴ"), ("dict-key", "{F} ㄴ ㅅㅈㅎㄷ"),
    ("dict-lookup", "{F} (ㄴ ㄷ ㅅㅈㅎㄷ) ㅎㄴ"), ("list-index", "{F} (ㄴ ㄷ ㅁㄹㅎㄷ) ㅎㄴ"), ("callee", "ㄴ {F} ㅎㄴ"), ("argref-pos", "ㄴ ({F} ㅇㄱ ㅎ) ㅎㄴ"),
    ("bool-callee", "ㄴ ㄷ {F} ㅎㄷ"), ("throw-arg", "{F} ㄷㅈㅎㄴ"), ("exception-arg", "ㄴ {F} ㄷㅂㅎㄷ"), ("print", "{F} ㅈㄹㅎㄴ"),
    ("return", "{F} ㄱㅅㅎㄴ"), ("return-nested", "(ㄴ {F} ㅁㄹㅎㄷ) ㄱㅅㅎㄴ"), ("bind-io", "{F} (ㄱㅇㄱ ㄱㅅㅎㄴ ㅎ) ㄱㄹㅎㄷ"), ("bind-fn", "(ㄴ ㄱㅅㅎㄴ) {F} ㄱㄹㅎㄷ"),
    ("pipe", "ㄴ ({F} ㄴㄱㅎㄴ) ㅎㄴ"), ("collect", "(ㄴ ㅁㄹㅎㄴ) ({F} ㅁㅂㅎㄴ) ㅎㄴ"), ("bitand", "{F} ㄴ (ㅂ ㅂㄷ ㄱ ㅂㅎㄹ) ㅎㄷ"), ("round", "{F} (ㅂ ㅅ ㅂㄹ ㄴ ㅂㅎㅁ) ㅎㄴ"),
    ("codec", "{F} (ㄴ ㄴ ㅂ ㅂ ㅂㅎㄷ ㅎㄷ) ㅎㄴ"), ("try-body-nested", "ㄱ ((ㄴ {F} ㅁㄹㅎㄷ) (ㄱㅇㄱ ㄷㅈㅎㄴ ㅎ) ㅅㄷㅎㄷ) ㅎㄴ"),
    ("deep", "ㄴ (ㄷ (ㄹ {F} ㄷㅎㄷ) ㄱㅎㄷ) ㄷㅎㄷ"), ("in-closure", "ㄴ (ㄱㅇㄱ {F} ㄷㅎㄷ ㅎ) ㅎㄴ"), ("returned-closure", "ㄴ (({F} ㅎ) ㅎㄱ) ㅎㄴ"),
    ("file-mode", "(ㅁㅈㅎㄱ) {F} ㄱㄴㅎㄷ"), ("import", "{F} ㅂㅎㄴ"),
    # elements of a later operand of ㄴ: every operand is keyed completely before it is compared, whatever the sizes
    # (seeded change S10h returned False early for collections of different sizes)
    ("eq-2-elem-longer", "(ㄴ ㅁㄹㅎㄴ) (ㄴ {F} ㅁㄹㅎㄷ) ㄴㅎㄷ"), ("eq-2-elem-shorter", "(ㄴ ㄷ ㄹ ㅁㄹㅎㄹ) (ㄴ {F} ㅁㄹㅎㄷ) ㄴㅎㄷ"),
    ("eq-2-elem-same-size", "(ㄴ ㄷ ㅁㄹㅎㄷ) (ㄴ {F} ㅁㄹㅎㄷ) ㄴㅎㄷ"), ("eq-3-elem", "(ㄴ ㅁㄹㅎㄴ) (ㄴ ㅁㄹㅎㄴ) (ㄴ ㄷ {F} ㅁㄹㅎㄹ) ㄴㅎㄹ"),
    ("eq-2-nested-elem", "((ㄴ ㅁㄹㅎㄴ) ㅁㄹㅎㄴ) ((ㄴ {F} ㅁㄹㅎㄷ) ㅁㄹㅎㄴ) ㄴㅎㄷ"), ("eq-2-exc-list-elem", "((ㄴ ㅁㄹㅎㄴ) ㄷㅂㅎㄴ) ((ㄴ {F} ㅁㄹㅎㄷ) ㄷ ㄷㅂㅎㄷ) ㄴㅎㄷ"),
    ("eq-2-dict-value", "(ㄴ ㄷ ㅅㅈㅎㄷ) (ㄴ ㄷ ㄹ {F} ㅅㅈㅎㅁ) ㄴㅎㄷ"),
]


def wrap_deep(rng, inner, depth):
    """nest `inner` (an expression text) inside containers built in different ways, so that the
    intermediate containers are already strict while the innermost element is still delayed"""
    e = inner
    for _ in range(depth):
        k = rng.randrange(7)
        if k == 0: e = f"({e}) ㄴ ㅁㄹㅎㄷ"                          # list element (delayed)
        elif k == 1: e = f"ㄷ ({e}) ㄷㅂㅎㄷ"                         # exception contents (forced one level by ㄷㅂ)
        elif k == 2: e = f"ㄴ ({e}) ㅅㅈㅎㄷ"                         # dictionary value
        elif k == 3: e = f"(({e}) ㄴ ㅁㄹㅎㄷ) ㅁㄹ ㅁㄷㅎㄷ"           # map(ㅁㄹ, [e, 1]) = [[e], [1]]: strict inner lists
        elif k == 4: e = f"(({e}) ㅁㄹㅎㄴ) (ㄴ ㅁㄹㅎㄴ) ㄷㅎㄷ"        # concatenation result
        elif k == 5: e = f"(({e}) ㅁㄹㅎㄴ) ㄱ ㅂㅈㅎㄷ"               # slice result
        else: e = f"(({e}) ㅁㄹㅎㄴ) ㄷㅂㅎㄴ"                        # exception holding a list holding the element
    return e


def value_through_try(rng, g):
    """ㅅㄷ yields its first argument fully evaluated — also when that argument *is* an exception value (nothing raised): the
    delivered value behaves exactly like the original under every observer: indexing, length, equality, spreading, re-throw
    (seeded change S10i rebuilt such a value with list contents: indexing it crashed)"""
    ID = "(ㄱㅇㄱ ㅎ)"
    for _ in range(6):
        pl = payload(rng, g)
        exc = "(" + render(bi('ㄷㅂ', *pl)) + ")"
        n = len(pl)
        routes = {'direct': exc,
                  'through-try': f"({exc} {ID} ㅅㄷㅎㄷ)",
                  'through-two-tries': f"(({exc} {ID} ㅅㄷㅎㄷ) {ID} ㅅㄷㅎㄷ)",
                  'caught-and-handed-back': f"((({exc} ㄷㅈㅎㄴ) {ID} ㅅㄷㅎㄷ) {ID} ㅅㄷㅎㄷ)",
                  'in-list-through-try': f"(ㄱ (({exc} ㅁㄹㅎㄴ) {ID} ㅅㄷㅎㄷ) ㅎㄴ)"}
        observers = [lambda v, i=i: f"{enc(i)} {v} ㅎㄴ" for i in range(-n - 1, n + 1)] + \
                    [lambda v: f"{v} ㅈㄷㅎㄴ", lambda v: f"{v} {exc} ㄴㅎㄷ", lambda v: v,
                     lambda v: f"ㄱ (({v} ㄷㅈㅎㄴ) {ID} ㅅㄷㅎㄷ) ㅎㄴ", lambda v: f"{v} (ㄱㅇㄱ ㅁㄹㅎㄴ ㅎ ㅁㅂㅎㄴ) ㅎㄴ"]
        for rname, v in routes.items():
            for ob in observers:
                yield rname, ob(v), ob(exc)


def cases(rng, tier):
    rounds = 4 if tier == 'quick' else 150
    g = gen.Gen(rng, max_depth=3)
    for rname, prog, ref in value_through_try(rng, g):
        yield Case(program=prog, variants=(ref,), tag='exc-value:' + rname, stdin="x\n")
    # a loop whose every round is the *recovery* of a failed ㅅㄷ (retry(n) = ㅅㄷ(n == 0 ? 0 : throw, λe. retry(n−1))) runs in
    # constant stack: the handler's result is handed over, not awaited
    for n_ in (10, 6000 + rng.randint(0, 99)):
        yield Case(program=f"{gen.enc(n_)} ((ㄱ (ㄴ ㄷㅂㅎㄴ ㄷㅈㅎㄴ) (ㄱㅇㄱ ㄱ ㄴㅎㄷ) ㅎㄷ) ((ㄱㅇㄴ ㄴㄱ ㄷㅎㄷ) ㄴㅇ ㅎㄴ ㅎ) ㅅㄷㅎㄷ ㅎ) ㅎㄴ",
                   variants=("ㄱ",), tag='recovery-loop', fuel=400 * n_ + 10 ** 6, timeout=120, nontrivial=True)
    for _ in range(rounds):
        for name, tpl in STRICT:
            pl = payload(rng, g)
            exc = render(bi('ㄷㅂ', *pl))
            fault = f"({exc} ㄷㅈㅎㄴ)"
            prog = tpl.replace("{F}", fault)
            # (a) uncaught: propagates to the top level (model compares contents + location)
            yield Case(program=prog, tag='uncaught:' + name, stdin="x\n")
            # (b) caught by ㅅㄷ with the identity handler ≡ the exception value itself, contents intact
            yield Case(program=f"({prog}) (ㄱㅇㄱ ㅎ) ㅅㄷㅎㄷ", variants=(exc,), tag='caught:' + name, stdin="x\n")
        # "fully evaluated": a fault buried in nested list / dictionary / exception contents, however the
        # containers were built, is raised inside the ㅅㄷ and reaches its handler
        for _ in range(25 if tier == 'quick' else 60):
            pl = payload(rng, g)
            exc = render(bi('ㄷㅂ', *pl))
            body = wrap_deep(rng, f"{exc} ㄷㅈㅎㄴ", rng.randint(1, 4))
            yield Case(program=f"({body}) (ㄱㅇㄱ ㅎ) ㅅㄷㅎㄷ", variants=(exc,), tag='deep-force', stdin="x\n")
            yield Case(program=f"({body}) ㄱㅅㅎㄴ", tag='deep-return', stdin="x\n")
            yield Case(program=body, tag='deep-uncaught', stdin="x\n")
        # a fault that has already been raised and caught once is raised again — from the cache — each time the
        # same (shared) value is evaluated again, and is caught again by whichever ㅅㄷ is evaluating it then
        ID = "(ㄱㅇㄱ ㅎ)"
        for _ in range(12 if tier == 'quick' else 40):
            pl = payload(rng, g)
            exc = render(bi('ㄷㅂ', *pl))
            body = wrap_deep(rng, f"{exc} ㄷㅈㅎㄴ", rng.randint(0, 3))
            X = "ㄱㅇㄱ"
            X1 = "ㄱㅇㄴ"           # the same parameter seen from inside a handler
            yield Case(program=f"({body}) ({X} ({X1} (ㄱㅇㄱ ㅎ) ㅅㄷㅎㄷ ㅎ) ㅅㄷㅎㄷ ㅎ) ㅎㄴ", variants=(exc,), tag='retry-in-handler', stdin="x\n")
            yield Case(program=f"({body}) (({X} {ID} ㅅㄷㅎㄷ) ({X} {ID} ㅅㄷㅎㄷ) ({X} {ID} ㅅㄷㅎㄷ) ㅁㄹㅎㄹ ㅎ) ㅎㄴ",
                       variants=(f"{exc} {exc} {exc} ㅁㄹㅎㄹ",), tag='retry-sequence', stdin="x\n")
            yield Case(program=f"({body}) ({X} (({X1} {X1} ㅁㄹㅎㄷ) {ID} ㅅㄷㅎㄷ ㅎ) ㅅㄷㅎㄷ ㅎ) ㅎㄴ", variants=(exc,), tag='retry-in-list', stdin="x\n")
            yield Case(program=f"({body}) ((({X} (ㄱ ㅎ) ㅅㄷㅎㄷ) {X} ㅁㄹㅎㄷ) {ID} ㅅㄷㅎㄷ ㅎ) ㅎㄴ", variants=(exc,), tag='retry-after-swallow', stdin="x\n")
            yield Case(program=f"({body}) ({X} ({X1} ㅎ) ㅅㄷㅎㄷ ㅎ) ㅎㄴ", variants=(body,), tag='retry-uncaught', stdin="x\n")
        # the handler is looked at only when the first argument raises: a faulty handler *expression* (raising,
        # ill-typed, diverging, not callable, dangling) next to a first argument that evaluates fine is never touched
        BAD_H = ["(ㄴ ㄷㅂㅎㄴ ㄷㅈㅎㄴ)", "(ㅂㄱㅎㄱ ㅎㄱ)", "(ㄴ ㄱㅇ ㅎㄱ ㄷㅎㄷ ㅎ ㅎㄱ)", "(ㅂㄱㅎㄱ)", "ㄷ", "(ㄴ ㄱ ㄴㄴㅎㄷ)", "(ㅈㅈㅈ ㅇ)", "(ㅈㅈㅈㅈㅈ ㅎㄱ)"]
        for hbad in BAD_H:
            v = render(g.gen(rng.choice(['int', 'str', 'list']), None, 2)) if False else render(gen.lit(rng.randint(-9, 99)))
            vl = f"({v} {v} ㅁㄹㅎㄷ)"
            yield Case(program=f"{v} {hbad} ㅅㄷㅎㄷ", variants=(v,), tag='handler-untouched', stdin="x\n")
            yield Case(program=f"{vl} {hbad} ㅅㄷㅎㄷ", variants=(vl,), tag='handler-untouched-list', stdin="x\n")
            yield Case(program=f"({v} {hbad} ㅅㄷㅎㄷ) (ㄱㅇㄱ ㅎ) ㅅㄷㅎㄷ", variants=(v,), tag='handler-untouched-nested', stdin="x\n")
            # … and when the first argument does raise, the faulty handler's own failure is what propagates (model)
            yield Case(program=f"(ㄹ ㄷㅂㅎㄴ ㄷㅈㅎㄴ) {hbad} ㅅㄷㅎㄷ", tag='handler-faulty-used', stdin="x\n")
            yield Case(program=f"((ㄹ ㄷㅂㅎㄴ ㄷㅈㅎㄴ) {hbad} ㅅㄷㅎㄷ) (ㄱㅇㄱ ㅎ) ㅅㄷㅎㄷ", tag='handler-faulty-used-nested', stdin="x\n")
        # what ㅅㄷ yields after a failure *is the result of calling the handler*: an ordinary lazy value, whose components nobody
        # looks at stay unevaluated (a failing, ill-typed or diverging one does no harm), and which is handed over as a tail
        # call (seeded change S10k forced the handler's result completely inside the ㅅㄷ frame)
        THROW = "(ㄹ ㄷㅂㅎㄴ ㄷㅈㅎㄴ)"
        for bad in ["(ㄴ ㄷㅂㅎㄴ ㄷㅈㅎㄴ)", "(ㄴ ㄱ ㄴㄴㅎㄷ)", "(ㅈㅈㅈㅈㅈ ㅎㄱ)", "(ㄴ ㄱㅇ ㅎㄱ ㄷㅎㄷ ㅎ ㅎㄱ)"]:
            got_list = f"{THROW} ({bad} ㄷ ㅁㄹㅎㄷ ㅎ) ㅅㄷㅎㄷ"
            yield Case(program=f"ㄴ ({got_list}) ㅎㄴ", variants=("ㄷ",), tag='handler-result-lazy', stdin="x\n")
            yield Case(program=f"({got_list}) ㅈㄷㅎㄴ", variants=("ㄷ",), tag='handler-result-lazy', stdin="x\n")
            yield Case(program=f"(ㄴ ({got_list}) ㅎㄴ) (ㄴㄱ ㅎ) ㅅㄷㅎㄷ", variants=("ㄷ",), tag='handler-result-lazy-nested', stdin="x\n")
            yield Case(program=f"ㄱ ({THROW} (ㄱㅇㄱ {bad} ㅁㄹㅎㄷ ㅎ) ㅅㄷㅎㄷ) ㅎㄴ", variants=("ㄹ ㄷㅂㅎㄴ",), tag='handler-result-lazy-exc', stdin="x\n")
            yield Case(program=f"ㄴ ({THROW} (ㄱ {bad} ㄴ ㄷ ㅅㅈㅎㅁ ㅎ) ㅅㄷㅎㄷ) ㅎㄴ", variants=("ㄷ",), tag='handler-result-lazy-dict', stdin="x\n")
            yield Case(program=f"ㄴ ({THROW} (({bad} ㅁㄹㅎㄴ) ㄷ ㅁㄹㅎㄷ ㅎ) ㅅㄷㅎㄷ) ㅎㄴ", variants=("ㄷ",), tag='handler-result-lazy-deep', stdin="x\n")
            yield Case(program=f"ㄴ ({THROW} ({THROW} ({bad} ㄷ ㅁㄹㅎㄷ ㅎ) ㅅㄷㅎㄷ ㅎ) ㅅㄷㅎㄷ) ㅎㄴ", variants=("ㄷ",), tag='handler-result-lazy-chain', stdin="x\n")
            # … and the same handler called directly with the same exception gives the same structure
            yield Case(program=f"ㄴ ((ㄹ ㄷㅂㅎㄴ) ({bad} ㄷ ㅁㄹㅎㄷ ㅎ) ㅎㄴ) ㅎㄴ", variants=("ㄷ",), tag='handler-result-direct', stdin="x\n")
        # the exception that is thrown is the one that arrives: contents that are still lazy (and would fail if somebody
        # evaluated them) travel untouched through ㄷㅈ, re-throw and ㅅㄷ — the handler sees its own exception, not theirs
        for fault in ["(ㄱ ㄱ ㄴㄴㅎㄷ)", "(ㄹ ㄷㅂㅎㄴ ㄷㅈㅎㄴ)", "(ㅂㄱㅎㄱ ㅎㄱ)"]:
            n = rng.randint(2, 9)
            for holder in [f"({fault} ㅁㄹㅎㄴ)", f"(ㄴ {fault} ㅅㅈㅎㄷ)", f"(({fault} ㅁㄹㅎㄴ) ㅁㄹㅎㄴ)", f"(({fault} ㅁㄹㅎㄴ) ㄷㅂㅎㄴ)"]:
                exc = f"({enc(n)} {holder} ㄷㅂㅎㄷ)"
                yield Case(program=f"({exc} ㄷㅈㅎㄴ) (ㄱ ㄱㅇㄱ ㅎㄴ ㅎ) ㅅㄷㅎㄷ", variants=(enc(n),), tag='lazy-payload-caught', stdin="x\n")
                yield Case(program=f"(({exc} ㄷㅈㅎㄴ) (ㄱㅇㄱ ㄷㅈㅎㄴ ㅎ) ㅅㄷㅎㄷ) (ㄱ ㄱㅇㄱ ㅎㄴ ㅎ) ㅅㄷㅎㄷ", variants=(enc(n),), tag='lazy-payload-rethrown', stdin="x\n")
                yield Case(program=f"(({exc} ㄷㅈㅎㄴ ㄱㅅㅎㄴ ㅎ) ㅎㄱ) (ㄱ ㄱㅇㄱ ㅎㄴ ㅎ) ㅅㄷㅎㄷ", variants=(enc(n),), tag='lazy-payload-in-call', stdin="x\n")
                yield Case(program=f"{exc} ㄷㅈㅎㄴ", tag='lazy-payload-uncaught', stdin="x\n")
        # "fails identically": the very same exception value arrives each time — visible when its contents hold a function
        # (functions are equal to themselves only): the fault is built once, by the one evaluation of the shared expression
        for fpay in ["(ㄱㅇㄱ ㅎ)", "(ㄷ ㄴㄱㅎㄴ)", "((ㄱㅇㄱ ㅎ) ㅁㄹㅎㄴ)", "(ㄴ (ㄱㅇㄱ ㅎ) ㅅㅈㅎㄷ)"]:
            x = f"({fpay} ㄷㅂㅎㄴ ㄷㅈㅎㄴ)"
            ID = "(ㄱㅇㄱ ㅎ)"
            yield Case(program=f"{x} ((ㄱㅇㄱ {ID} ㅅㄷㅎㄷ) (ㄱㅇㄱ {ID} ㅅㄷㅎㄷ) ㄴㅎㄷ ㅎ) ㅎㄴ", variants=("ㅈㅈㅎㄱ",), tag='refail-identical', stdin="x\n")
            yield Case(program=f"{x} ((ㄱㅇㄱ {ID} ㅅㄷㅎㄷ) (ㄱㅇㄱ (ㄱㅇㄴ {ID} ㅅㄷㅎㄷ ㅎ) ㅅㄷㅎㄷ) ㄴㅎㄷ ㅎ) ㅎㄴ", variants=("ㅈㅈㅎㄱ",),
                       tag='refail-identical-nested', stdin="x\n")
            yield Case(program=f"{x} ((ㄱㅇㄱ {ID} ㅅㄷㅎㄷ) ((ㄱㅇㄱ (ㄱㅇㄱ ㄷㅈㅎㄴ ㅎ) ㅅㄷㅎㄷ) {ID} ㅅㄷㅎㄷ) ㄴㅎㄷ ㅎ) ㅎㄴ", variants=("ㅈㅈㅎㄱ",),
                       tag='refail-identical-rethrown', stdin="x\n")
        # built-in failures: contents begin [5, class]
        for prog in ["ㄴ ㄱ ㄴㄴㅎㄷ", "ㄴ ㅁㅈㅎㄱ ㄷㅎㄷ", "ㄹ ㅇㄱ", "ㅈㅈㅈㅈㅈ ㅎㄱ", "ㄱ ㄴ ㅁㄹㅎㄷ ㄷ ㅎㄴ".replace("ㄱ ㄴ ㅁㄹㅎㄷ ㄷ ㅎㄴ", "ㄷ (ㄱ ㄴ ㅁㄹㅎㄷ) ㅎㄴ"),
                     "ㄴ (ㅅㅈㅎㄱ) ㅎㄴ", "ㅁㅈㅎㄱ ㅈㅅㅎㄴ", "ㄴ ㄷ ㄱ ㅅㅎㄹ"]:
            yield Case(program=f"ㄱ (({prog}) (ㄱㅇㄱ ㅎ) ㅅㄷㅎㄷ) ㅎㄴ", tag='builtin-prefix', variants=("ㅂ",))
        # a failed sub-expression fails identically each time; re-throw from a handler reaches the outer handler
        pl = payload(rng, g)
        exc = render(bi('ㄷㅂ', *pl))
        yield Case(program=f"({exc} ㄷㅈㅎㄴ) ((ㄱㅇㄱ (ㄱㅇㄱ ㅎ) ㅅㄷㅎㄷ) (ㄱㅇㄱ (ㄱㅇㄱ ㅎ) ㅅㄷㅎㄷ) ㅁㄹㅎㄷ ㅎ) ㅎㄴ",
                   variants=(f"{exc} {exc} ㅁㄹㅎㄷ",), tag='memoised-failure')
        yield Case(program=f"(({exc} ㄷㅈㅎㄴ) (ㄱㅇㄱ ㄷㅈㅎㄴ ㅎ) ㅅㄷㅎㄷ) (ㄱㅇㄱ ㅎ) ㅅㄷㅎㄷ", variants=(exc,), tag='rethrow')
        yield Case(program=f"(({exc} ㄷㅈㅎㄴ) ((ㄴ ㄱㅇㄱ ㄷㅂㅎㄷ) ㄷㅈㅎㄴ ㅎ) ㅅㄷㅎㄷ) (ㄱㅇㄱ ㅎ) ㅅㄷㅎㄷ",
                   variants=(f"ㄴ {exc} ㄷㅂㅎㄷ",), tag='wrap-rethrow')
        # a failed *shared element* — caught once through an index — fails identically when a higher-order built-in needs it
        # again in a strict position of a built-in function (fold with ㄷ, collect into ㄷ, join): the very exception, caught or
        # uncaught (seeded change S10l handed memoised outcomes to built-ins directly: a memoised failure arrived as a value)
        the_list = f"(ㄱ ({exc} ㄷㅈㅎㄴ) ㄷ ㅁㄹㅎㄹ)"
        first = "(ㄴ ㄱㅇㄱ ㅎㄴ (ㄱㅇㄱ ㅎ) ㅅㄷㅎㄷ)"
        for use in ["(ㄷ ㄱㅇㄱ ㅅㄹㅎㄷ)", "(ㄱㅇㄱ ㄷ ㅅㄹㅎㄷ)", "(ㄱㅇㄱ (ㄷ ㅁㅂㅎㄴ) ㅎㄴ)", "(ㄱㅇㄱ ㄱㅁㅎㄴ)", "(ㄱㅇㄱ ㄱ ㅅㄹㅎㄷ)"]:
            yield Case(program=f"{the_list} ({use} (ㄱㅇㄱ ㅎ) ㅅㄷㅎㄷ ㅎ) ㅎㄴ", variants=(exc,), tag='shared-element-once')
            yield Case(program=f"{the_list} ({first} ({use} (ㄱㅇㄱ ㅎ) ㅅㄷㅎㄷ) ㅁㄹㅎㄷ ㅎ) ㅎㄴ", variants=(f"{exc} {exc} ㅁㄹㅎㄷ",), tag='shared-element-again')
            yield Case(program=f"{the_list} ({first} {use} ㅁㄹㅎㄷ ㅎ) ㅎㄴ", variants=(f"{exc} ㄷㅈㅎㄴ",) if False else (), tag='shared-element-again-uncaught')
        # exception raised while executing the first argument of ㄱㄹ goes to its handler / propagates
        yield Case(program=f"({exc} ㄷㅈㅎㄴ ㄱㅅㅎㄴ) (ㄱㅇㄱ ㄱㅅㅎㄴ ㅎ) (ㄱㅇㄱ ㄱㅅㅎㄴ ㅎ) ㄱㄹㅎㄹ", tag='bind-handler-eval')
        yield Case(program=f"((ㄴ ㄱㅅㅎㄴ) ({exc} ㄷㅈㅎㄴ ㅎ) ㄱㄹㅎㄷ) (ㄱㅇㄱ ㄱㅅㅎㄴ ㅎ) (ㄱㅇㄱ ㄱㅅㅎㄴ ㅎ) ㄱㄹㅎㄹ",
                   variants=(f"{exc} ㄱㅅㅎㄴ",), tag='bind-handler-exec')


def relevant(rec, case):
    return True      # C10 includes the source location an uncaught exception carries


SPEC = {
    'lean': ['C10', 'NatSemIO'],
    'relevant': relevant,
    'cases': cases,
    'big': True,
    'stream': 'C10 planted-fault stream (incl. retry families: a cached failure evaluated again under another ㅅㄷ)',
    'rule': 'faults buried 1–4 levels deep in containers built by ㅁㄹ / ㄷㅂ / ㅅㅈ / ㅁㄷ / ㄷ / ㅂㅈ (so that intermediate containers are already strict) must be raised inside ㅅㄷ / ㄱㅅ; 52 strict operand positions (every built-in family, callables, argument position, callee, I/O constructors, '
            'module functions, nested / closure / returned-closure contexts) × random nested exception payloads: the '
            'uncaught program must end in exactly that exception (contents + location, vs the model); wrapped in ㅅㄷ with '
            'the identity handler it must equal the exception value built directly; built-in failures caught and indexed at '
            '0 must give the marker 5; a shared failing expression caught twice gives the same exception twice; re-throw and '
            'wrap-and-re-throw reach the outer handler; ㄱㄹ handlers receive exceptions raised during execution. Non-trivial: all',
    'trusted': [],
    'assumptions': [],
}
