"""C17 — bitwise ops are infinite two's complement; the five roundings are exact."""
import math, struct
from fractions import Fraction
from .. import gen, values as VL
from ..gen import lit, bi, raw, call, render, fundef, arg
from ..corr import Case, monitor


@monitor('c17_expect')
def _expect(case, a):
    want = case.data
    if a['kind'] != 'ok' or a['results'] != [want]:
        return f"expected {want!r}, got {a.get('kind')} {a.get('results') or a.get('err')}"
    return None


def bit(x, i):
    """bit i of the infinite two's-complement string of x (by arithmetic, not by the host's & / >>)"""
    return (x // (2 ** i)) % 2          # floor division: sign-extends


def from_bits(f, x, y, width):
    """rebuild the result of a bitwise operation from the bits of its operands"""
    r = 0
    for i in range(width):
        r += f(bit(x, i), bit(y, i)) << i
    # sign: bit at `width` onward is constant
    if f(bit(x, width), bit(y, width)):
        r -= 1 << width
    return r


def rint(rng):
    c = rng.random()
    if c < 0.3: return rng.randint(-70, 70)
    if c < 0.7: return rng.choice([1, -1]) * rng.randint(0, 2 ** 200)
    return rng.choice([0, -1, 1, 2 ** 64, -2 ** 64, 2 ** 63 - 1, -2 ** 63, 2 ** 200 - 1, -(2 ** 200)])


def rfloat(rng):
    c = rng.random()
    if c < 0.25:
        return rng.randint(-10 ** 6, 10 ** 6) + 0.5
    if c < 0.45:
        return float(rng.choice([2 ** 52, 2 ** 53, 2 ** 63, 2 ** 64, 10 ** 20])) * rng.choice([1, -1]) + rng.choice([0.0, 0.5, -0.5, 1.0, 2.0, 1024.0])
    if c < 0.8:
        while True:
            x = struct.unpack('<d', struct.pack('<Q', rng.getrandbits(64)))[0]
            if math.isfinite(x):
                return x
    return rng.choice([0.0, -0.0, 0.5, -0.5, 1.5, 2.5, -1.5, -2.5, 0.49999999999999994, 5e-324, -5e-324, 1e308, 4503599627370497.5, 0.9999999999999999])


def cases(rng, tier):
    n = 500 if tier == 'quick' else 10000
    M = lambda op: raw(f"(ㅂ ㅂㄷ {op} ㅂㅎㄹ)")
    for _ in range(n):
        x, y = rint(rng), rint(rng)
        w = max(x.bit_length(), y.bit_length()) + 2
        yield Case(program=render(call(M('ㄱ'), lit(x), lit(y))), tag='and', monitor='c17_expect', data=str(from_bits(lambda a, b: a & b, x, y, w)))
        yield Case(program=render(call(M('ㄷ'), lit(x), lit(y))), tag='or', monitor='c17_expect', data=str(from_bits(lambda a, b: a | b, x, y, w)))
        yield Case(program=render(call(M('ㅂ'), lit(x), lit(y))), tag='xor', monitor='c17_expect', data=str(from_bits(lambda a, b: a ^ b, x, y, w)))
        yield Case(program=render(call(M('ㅁ'), lit(x))), tag='not', monitor='c17_expect', data=str(-x - 1))
        s = rng.randint(-300, 300)
        want = x * 2 ** s if s >= 0 else x // (2 ** -s)
        yield Case(program=render(call(M('ㅈ'), lit(x), lit(s))), tag='shift', monitor='c17_expect', data=str(want))
        # operands that are themselves (not yet evaluated) bitwise calls — the same operator nested in either operand, other
        # operators nested, and a nested call arriving through a lazy parameter: an operator applied while another application
        # of it is in progress computes the same function (seeded change S17l kept the operands of an operator in one list
        # shared by all its applications)
        z = rint(rng)
        ops = {'ㄱ': lambda a, b: a & b, 'ㄷ': lambda a, b: a | b, 'ㅂ': lambda a, b: a ^ b}
        o1, o2 = rng.choice(list(ops)), rng.choice(list(ops))
        for oa, ob in ((o1, o1), (o1, o2)):
            yield Case(program=render(call(M(oa), lit(x), call(M(ob), lit(y), lit(z)))), tag='nested-second', monitor='c17_expect',
                       data=str(ops[oa](x, ops[ob](y, z))))
            yield Case(program=render(call(M(oa), call(M(ob), lit(x), lit(y)), lit(z))), tag='nested-first', monitor='c17_expect',
                       data=str(ops[oa](ops[ob](x, y), z)))
            yield Case(program=render(call(fundef(call(M(oa), lit(x), arg(0))), call(M(ob), lit(y), lit(z)))), tag='nested-lazy-parameter',
                       monitor='c17_expect', data=str(ops[oa](x, ops[ob](y, z))))
        sh1, sh2 = rng.randint(0, 6), rng.randint(0, 40)
        yield Case(program=render(call(M('ㅈ'), lit(x), call(M('ㅈ'), lit(sh1), lit(1)))), tag='nested-shift', monitor='c17_expect',
                   data=str(x * 2 ** (sh1 * 2)))
        yield Case(program=render(call(M('ㅈ'), call(M('ㅈ'), lit(x), lit(sh2)), lit(-sh2))), tag='nested-shift', monitor='c17_expect', data=str(x))
        yield Case(program=render(call(M('ㅁ'), call(M('ㅁ'), lit(x)))), tag='nested-not', monitor='c17_expect', data=str(x))
        # roundings of a finite double, from its exact rational value
        f = rfloat(rng)
        q = Fraction(f)
        fl, ce = math.floor(q), math.ceil(q)
        tr = fl if q >= 0 else ce
        aw = ce if q > 0 else fl
        if q - fl < Fraction(1, 2): rn = fl
        elif q - fl > Fraction(1, 2): rn = ce
        else: rn = fl if fl % 2 == 0 else ce
        fe = VL.float_expr(f)
        for name, want in (('ㄱ', tr), ('ㄴ', fl), ('ㄷ', rn), ('ㄹ', ce), ('ㅁ', aw)):
            yield Case(program=render(call(raw(f"(ㅂ ㅅ ㅂㄹ {name} ㅂㅎㅁ)"), fe)), tag='round-' + name, monitor='c17_expect', data=str(want))
        # the roundings of an Integer argument are the integer itself — exactly, also beyond 2^53 where a detour through a
        # double loses bits (seeded change S17i: round-away went through math.copysign)
        n_ = rng.choice([2 ** 53 + 1, -(2 ** 53) - 1, 2 ** 63 - 1, -(2 ** 63) + 1, 10 ** 30 + 7, -(10 ** 30) - 7, 2 ** 64 + 1, rng.randint(-10 ** 40, 10 ** 40),
                         rng.randint(-100, 100), 2 ** 200 + 12345, -(2 ** 1100) - 1])
        for name in ('ㄱ', 'ㄴ', 'ㄷ', 'ㄹ', 'ㅁ'):
            yield Case(program=render(call(raw(f"(ㅂ ㅅ ㅂㄹ {name} ㅂㅎㅁ)"), lit(n_))), tag='round-int-' + name, monitor='c17_expect', data=str(n_))


SPEC = {
    'lean': ['C17'],
    'cases': cases,
    'big': True,
    'stream': 'C17 bitwise / rounding stream',
    'rule': 'integer pairs to 2^200 in all sign combinations: and / or / xor rebuilt bit by bit from the operands\' '
            'infinite two\'s-complement strings (bit i = ⌊x / 2^i⌋ mod 2), not = −x−1, shift counts −300…300 (= x·2^n / '
            '⌊x / 2^−n⌋); finite doubles (half-integers, neighbours of 2^52 / 2^53 / 2^63 / 2^64, random bit patterns, '
            'subnormals): the five roundings against floor / ceil of the exact rational value; the five roundings of Integer arguments to 2^1100 (identity). Non-trivial: all',
    'trusted': ['fractions.Fraction(float) as the exact value of a double'],
    'assumptions': ['±inf / nan are rejected with a language exception (C04)'],
}
