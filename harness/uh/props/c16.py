"""C16 — byte codecs are inverse and bit-exact for every width, order and signedness."""
from .. import gen, values as VL
from ..gen import lit, bi, raw, call, render, str_lit, bytes_lit, enc
from ..corr import Case, monitor


@monitor('c16_expect')
def _expect(case, a):
    want = case.data
    if want[0] == 'err':
        if a['kind'] != 'err' or a.get('err') != want[1]:
            return f"expected exception {want[1]}, got {a.get('kind')} {a.get('results') or a.get('err')}"
        return None
    if a['kind'] != 'ok' or a['results'] != [want[1]]:
        return f"expected {want[1]!r}, got {a.get('kind')} {a.get('results') or a.get('err')}"
    return None


def fmt_bytes(b): return "b'" + "".join("\\x%02X" % c for c in b) + "'"


def twos(n, w, big, signed):
    """independent definition: two's complement, width w bytes; None if unrepresentable"""
    if w == 0:
        lo, hi = 0, 0
    else:
        lo, hi = (-(1 << (8 * w - 1)), (1 << (8 * w - 1)) - 1) if signed else (0, (1 << (8 * w)) - 1)
    if not lo <= n <= hi:
        return None
    m = n % (1 << (8 * w)) if w else 0
    le = [(m >> (8 * i)) & 0xFF for i in range(w)]
    return bytes(reversed(le)) if big else bytes(le)


def utf(width, order, s):
    """independent UTF-8 / 16 / 32 encoders over code points; order None = BOM + little endian"""
    out = bytearray()
    cps = [ord(c) for c in s]
    if width == 1:
        for c in cps:
            if c < 0x80: out += bytes([c])
            elif c < 0x800: out += bytes([0xC0 | c >> 6, 0x80 | c & 63])
            elif c < 0x10000: out += bytes([0xE0 | c >> 12, 0x80 | (c >> 6) & 63, 0x80 | c & 63])
            else: out += bytes([0xF0 | c >> 18, 0x80 | (c >> 12) & 63, 0x80 | (c >> 6) & 63, 0x80 | c & 63])
        return bytes(out)
    big = bool(order)
    if order is None:
        cps = [0xFEFF] + cps
    for c in cps:
        units = [c] if width == 4 or c < 0x10000 else [0xD800 + ((c - 0x10000) >> 10), 0xDC00 + ((c - 0x10000) & 0x3FF)]
        for u in units:
            bs = [(u >> (8 * i)) & 0xFF for i in range(width if width == 4 else 2)]
            out += bytes(reversed(bs)) if big else bytes(bs)
    return bytes(out)


def codec(scheme, width, order):
    o = {None: "", True: " ㅈㅈㅎㄱ", False: " ㄱㅈㅎㄱ"}[order]
    return raw(f"({enc(scheme)} {enc(width)}{o} ㅂ ㅂ ㅂㅎㄷ ㅎ{'ㄷ' if order is None else 'ㄹ'})")


def cases(rng, tier):
    E, O = lambda s: ('err', s), lambda s: ('ok', s)
    VERR = '<예외: [5, -39]>'
    widths = [1, 2, 3, 4, 8, 16] if tier == 'quick' else list(range(1, 17))
    per = 6 if tier == 'quick' else 60
    for w in widths:
        for order in (None, True, False):
            for signed in (False, True):
                big = bool(order)
                if w == 0:
                    lo, hi = 0, 0
                elif signed:
                    lo, hi = -(1 << (8 * w - 1)), (1 << (8 * w - 1)) - 1
                else:
                    lo, hi = 0, (1 << (8 * w)) - 1
                pool = [lo, hi, lo - 1, hi + 1, 0, -1, 1, lo + 1, hi - 1] + [rng.randint(lo - 2, hi + 2) for _ in range(per)]
                for n in pool:
                    b = twos(n, w, big, signed)
                    c = codec(2 if signed else 1, w, order)
                    yield Case(program=render(call(c, lit(n))), tag='int-enc', monitor='c16_expect',
                               data=O(fmt_bytes(b)) if b is not None else E(VERR))
                    if b is not None:
                        yield Case(program=render(call(c, bytes_lit(b))), tag='int-dec', monitor='c16_expect', data=O(str(n)))
                        yield Case(program=render(call(c, call(c, lit(n)))), tag='int-roundtrip', monitor='c16_expect', data=O(str(n)))
    # strings
    samples = ["", "a", "é", "가", "😀", "a가😀é𝄞", "\u0000", "￿", "\U0010ffff", "퟿", "한글 text"]
    # byte-order-mark look-alikes as ordinary payload (first, repeated, in the middle)
    samples += ["\ufeffabc", "\ufffeab", "\ufeff", "\ufffe", "a\ufeff", "\ufeff\ufeff", "\ufeff😀", "\ufffe\ufeff가"]
    n = 40 if tier == 'quick' else 3000
    for _ in range(n):
        samples.append("".join(chr(rng.choice([rng.randrange(0x20, 0x7F), rng.randrange(0x80, 0x800), rng.randrange(0x800, 0xD800),
                                               rng.randrange(0xE000, 0x10000), rng.randrange(0x10000, 0x110000)])) for _ in range(rng.randint(1, 6))))
    if tier != 'quick':     # every scalar value singly would be 1.1 M programs; sample a stride plus all boundaries
        samples += [chr(c) for c in list(range(0, 0x800, 7)) + list(range(0x800, 0xD800, 97)) + list(range(0xE000, 0x110000, 997))]
    for s in samples:
        for width in (1, 2, 4):
            for order in ((None,) if width == 1 else (None, True, False)):
                b = utf(width, order, s)
                c = codec(0, width, order)
                yield Case(program=render(call(c, str_lit(s))), tag='utf-enc', monitor='c16_expect', data=O(fmt_bytes(b)))
                yield Case(program=render(call(c, bytes_lit(b))), tag='utf-dec', monitor='c16_expect', data=O("'" + s + "'"))
    # one converter *value* used several times (bound to a parameter: λc. [c(x1), c(x2), c(x3), c(x4)]; mapped over a list): every
    # use is independent of the earlier ones (seeded change S16h: a cached incremental encoder wrote the BOM only once)
    def reuse(c, items):      # items: (argument expression, printed result)
        body = bi('ㅁㄹ', *[call(gen.arg(0), e) for e, _ in items])
        return render(call(gen.fundef(body), c)), "[" + ", ".join(p for _, p in items) + "]"
    for _ in range(60 if tier == 'quick' else 1500):
        width = rng.choice((1, 2, 4)); order = None if width == 1 else rng.choice((None, None, True, False))
        c = codec(0, width, order)
        items = []
        for _k in range(rng.randint(2, 4)):
            s_ = rng.choice(samples)
            if rng.random() < 0.7:
                items.append((str_lit(s_), fmt_bytes(utf(width, order, s_))))
            else:
                items.append((bytes_lit(utf(width, order, s_)), "'" + s_ + "'"))
        prog, want = reuse(c, items)
        yield Case(program=prog, tag='utf-reuse', monitor='c16_expect', data=O(want))
        strs = [it for it in items if it[1].startswith("b'")]
        if len(strs) >= 2:
            yield Case(program=render(bi('ㅁㄷ', bi('ㅁㄹ', *[e for e, _ in strs]), c)), tag='utf-reuse-map', monitor='c16_expect',
                       data=O("[" + ", ".join(p for _, p in strs) + "]"))
    for _ in range(30 if tier == 'quick' else 600):
        w = rng.choice(widths); order = rng.choice((None, True, False)); signed = rng.random() < 0.5
        lo, hi = (-(1 << (8 * w - 1)), (1 << (8 * w - 1)) - 1) if signed else (0, (1 << (8 * w)) - 1)
        c = codec(2 if signed else 1, w, order)
        items = []
        for _k in range(rng.randint(2, 4)):
            n_ = rng.choice([lo, hi, 0, 1, rng.randint(lo, hi)])
            b_ = twos(n_, w, bool(order), signed)
            items.append((lit(n_), fmt_bytes(b_)) if rng.random() < 0.6 else (bytes_lit(b_), str(n_)))
        prog, want = reuse(c, items)
        yield Case(program=prog, tag='int-reuse', monitor='c16_expect', data=O(want))
    # invalid byte sequences are rejected
    bad = {1: [b"\xff", b"\xc0\x80", b"\xed\xa0\x80", b"\xf4\x90\x80\x80", b"\xe2\x82", b"\x80"],
           2: [b"\x00", b"\x00\xd8", b"\x00\xdc\x00\xd8", b"\x00\xd8\x41\x00"],
           4: [b"\x00\x00\x11\x00", b"\x00\xd8\x00\x00", b"\x01\x02\x03"]}
    for width, seqs in bad.items():
        for b in seqs:
            order = None if width == 1 else False
            yield Case(program=render(call(codec(0, width, order), bytes_lit(b))), tag='utf-invalid', monitor='c16_expect', data=E(VERR))
    # BOM handling without a requested order
    yield Case(program=render(call(codec(0, 2, None), bytes_lit(b"\xfe\xff\x00A"))), tag='bom', monitor='c16_expect', data=O("'A'"))
    yield Case(program=render(call(codec(0, 2, None), bytes_lit(b"A\x00"))), tag='bom', monitor='c16_expect', data=O("'A'"))
    yield Case(program=render(call(codec(0, 4, None), bytes_lit(b"\x00\x00\xfe\xff\x00\x00\x00A"))), tag='bom', monitor='c16_expect', data=O("'A'"))
    # unsupported widths / schemes
    for sch, w in [(0, 3), (0, 0), (0, 8), (3, 4), (4, 1), (-1, 1)]:
        yield Case(program=render(bi('ㅅㄷ', call(codec(sch, w, None), str_lit("a")), gen.fundef(call(gen.arg(0), lit(1))))), tag='unsupported',
                   monitor='c16_expect', data=O('-39'))


SPEC = {
    'lean': ['C16'],
    'cases': cases,
    'big': True,
    'stream': 'C16 codec stream',
    'rule': 'integers: widths {1,2,3,4,8,16} (quick) / 1…16 × {unspecified, big, little} × {signed, unsigned} × {range '
            'ends, ends ± 1, 0, ±1, random in and just outside range}: encoding vs an independent two\'s-complement oracle, '
            'decoding back, round trip, rejection outside the range; strings: fixed samples (empty, NUL, U+FFFF, U+10FFFF, '
            'surrogate neighbours, strings beginning with / containing U+FEFF and U+FFFE) + random scalar-value strings (+ a stride over all scalar values in thorough) × UTF-8 / '
            '16 / 32 × orders vs independent encoders, decoding back; invalid sequences rejected; BOM selection; unsupported '
            'width / scheme. Non-trivial: all',
    'trusted': ["the harness's own encoders (uh/props/c16.py) as the independent definition of two's complement / UTF"],
    'assumptions': [],
}
