"""C06 — equality is a real equivalence on values and dictionaries key by it."""
import itertools
from .. import gen, values as VL
from ..gen import lit, bi, raw, call, fundef, arg, render
from ..corr import Case, monitor


@monitor('c06_expect')
def _expect(case, a):
    want = case.data
    if a['kind'] != 'ok' or a['results'] != [want]:
        return f"expected {want!r}, got {a.get('kind')} {a.get('results') or a.get('err')}"
    return None


def pybool(b): return 'True' if b else 'False'


def cases(rng, tier):
    n = 1500 if tier == 'quick' else 60000
    pool = [VL.vint(x) for x in VL.ADVERSARIAL_INTS] + [VL.vfloat(x) for x in VL.ADVERSARIAL_FLOATS] + \
           [VL.vcomplex(1.0, 0.0), VL.vcomplex(0.5, 0.0), VL.vcomplex(2.0 ** 60, 0.0), VL.vcomplex(0.0, 1.0), VL.vbool(True), VL.vbool(False),
            VL.vstr(""), VL.vstr("1"), VL.vbytes(b""), VL.vbytes(b"1"), VL.vnil(), VL.vlist([]), VL.vexc([]), VL.vdict([])] + \
           [VL.vstr(x) for x in ["가", "\u1100\u1161", "\u00e9", "e\u0301", "\u212b", "\u00c5", "A\u030a", "\uf900", "\u8c48", "a", "A", "ａ"]]
    # (1) all pairs of the adversarial edge pool (thorough) / a sample (quick): ㄴ(a, b) = spec_eq
    pairs = list(itertools.product(pool, pool))
    if tier == 'quick':
        pairs = rng.sample(pairs, 700)
    for a, b in pairs:
        yield Case(program=render(bi('ㄴ', a.expr, b.expr)), tag='edge-pair', monitor='c06_expect', data=pybool(VL.spec_eq(a, b)))
    # (1w) host-equal values of *different kinds* inside every kind of container (seeded change S06g dropped the kind
    # tag of scalars inside lists / exceptions / actions): wrapped pairs compare, and key dictionaries, like the bare ones
    T, F = VL.vbool(True), VL.vbool(False)
    cross = [(T, VL.vint(1)), (T, VL.vfloat(1.0)), (T, VL.vcomplex(1.0, 0.0)), (F, VL.vint(0)), (F, VL.vfloat(0.0)),
             (F, VL.vfloat(-0.0)), (F, VL.vcomplex(0.0, 0.0)), (T, VL.vstr("True")), (VL.vint(1), VL.vstr("1")),
             (VL.vstr(""), VL.vbytes(b"")), (VL.vstr("1"), VL.vbytes(b"1")), (VL.vnil(), VL.vlist([])), (VL.vlist([]), VL.vexc([])),
             (VL.vint(0), VL.vnil()), (VL.vint(0), VL.vstr("")), (F, VL.vnil()), (VL.vint(1), VL.vfloat(1.0)), (T, T), (F, F)]
    wraps = [('list', lambda x: VL.vlist([x])), ('list2', lambda x: VL.vlist([VL.vint(7), x])), ('exc', lambda x: VL.vexc([x])),
             ('io', VL.vio), ('list-list', lambda x: VL.vlist([VL.vlist([x])])), ('exc-list', lambda x: VL.vexc([VL.vlist([x])])),
             ('io-list', lambda x: VL.vio(VL.vlist([x]))), ('dict-value', lambda x: VL.vdict([(VL.vint(3), x)])),
             ('dict-key', lambda x: VL.vdict([(x, VL.vint(3))]))]
    for a, b in cross:
        for wn, wf in wraps:
            wa, wb = wf(a), wf(b)
            yield Case(program=render(bi('ㄴ', wa.expr, wb.expr)), tag='cross-kind-' + wn, monitor='c06_expect', data=pybool(VL.spec_eq(wa, wb)))
            if wn in ('list', 'exc', 'io', 'list-list'):
                d = VL.vdict([(wa, VL.vint(5)), (wb, VL.vint(6))])
                want = '6' if VL.spec_eq(wa, wb) else '5'
                yield Case(program=render(call(d.expr, wa.expr)), tag='cross-kind-key-' + wn, monitor='c06_expect', data=want)
    # (1b) I/O actions compare by *all* their contents — a three-argument ㄱㄹ also by its handler (seeded change S06h left
    # the handler out of the key): same action / continuation objects, different or missing handler
    BG, BH, B2 = "(ㄱㅇㄱ ㄴㅇㄱ ㄷㅇㄱ ㄱㄹㅎㄹ)", "(ㄱㅇㄱ ㄴㅇㄱ ㄹㅇㄱ ㄱㄹㅎㄹ)", "(ㄱㅇㄱ ㄴㅇㄱ ㄱㄹㅎㄷ)"
    body = (f"({BG} {BH} ㄴㅎㄷ) ({B2} {BG} ㄴㅎㄷ) ({BG} {BG} ㄴㅎㄷ) ({BG} ({BG} ㄴ {BH} ㄷ ㅅㅈㅎㅁ) ㅎㄴ) ({BH} ({BG} ㄴ {BH} ㄷ ㅅㅈㅎㅁ) ㅎㄴ) "
            f"(({BG} ㅁㄹㅎㄴ) ({BH} ㅁㄹㅎㄴ) ㄴㅎㄷ) ({B2} ({B2} ㄴ {BG} ㄷ ㅅㅈㅎㅁ) ㅎㄴ) ㅁㄹㅎㅈ")
    for first in ["(ㄴ ㄱㅅㅎㄴ)", "(ㄹㅎㄱ)", "((ㅁㅈㅎㄱ) ㅈㄹㅎㄴ)"]:
        yield Case(program=f"{first} (ㄱㅇㄱ ㄱㅅㅎㄴ ㅎ) (ㄱㅇㄱ ㄱㅅㅎㄴ ㅎ) (ㄴ ㄱㅅㅎㄴ ㅎ) ({body} ㅎ) ㅎㅁ", tag='bind-handler-key',
                   monitor='c06_expect', data='[False, False, True, 1, 2, False, 1]')
    # (1c) dictionaries are equal iff they have the same *entries* — not merely the same keys and the same values in some
    # other pairing (seeded change S06i keyed a dictionary by the flat set of its keys and values)
    I = VL.vint
    dpairs = [([(1, 2)], [(2, 1)]), ([(1, 2)], [(1, 1), (2, 2)]), ([(1, 2), (3, 4)], [(1, 4), (3, 2)]), ([(1, 2), (3, 4)], [(3, 4), (1, 2)]),
              ([(1, 1)], [(1, 1)]), ([(1, 2), (2, 1)], [(1, 1), (2, 2)]), ([(0, 5)], [(5, 0)]), ([(1, 2), (2, 3), (3, 1)], [(1, 3), (2, 1), (3, 2)]),
              ([(1, 2)], [(1, 2), (2, 2)]), ([], [(1, 1)])]
    for a_, b_ in dpairs:
        da, db = VL.vdict([(I(k), I(v)) for k, v in a_]), VL.vdict([(I(k), I(v)) for k, v in b_])
        for wn, wf in (('bare', lambda x: x), ('list', lambda x: VL.vlist([x])), ('exc', lambda x: VL.vexc([x])), ('value', lambda x: VL.vdict([(I(9), x)]))):
            wa, wb = wf(da), wf(db)
            yield Case(program=render(bi('ㄴ', wa.expr, wb.expr)), tag='dict-pairing-' + wn, monitor='c06_expect', data=pybool(VL.spec_eq(wa, wb)))
        if not VL.spec_eq(da, db):
            d = VL.vdict([(da, I(5)), (db, I(6))])
            yield Case(program=render(call(d.expr, da.expr)), tag='dict-pairing-key', monitor='c06_expect', data='5')
            yield Case(program=render(call(d.expr, db.expr)), tag='dict-pairing-key', monitor='c06_expect', data='6')
    # (1d) the same entries written in a different order are the same dictionary — also when the keys' *host hashes* collide
    # (−1 / −2, n / n ± k(2^61−1), 0.5 / 2^60, [−1] / [−2]) and the values are equal (seeded change S06j ordered a
    # dictionary's key by hash: ties kept insertion order)
    M61 = 2 ** 61 - 1
    coll = [[I(-1), I(-2)], [I(5), I(5 + M61), I(5 - M61)], [VL.vfloat(0.5), I(2 ** 60)], [VL.vlist([I(-1)]), VL.vlist([I(-2)])],
            [I(0), I(M61), I(2 * M61)], [I(-1), I(-2), I(M61 - 1)]]
    for ks in coll:
        for vals in ([I(0)] * len(ks), [I(i) for i in range(len(ks))]):
            fwd = VL.vdict(list(zip(ks, vals)))
            rev = VL.vdict(list(reversed(list(zip(ks, vals)))))
            yield Case(program=render(bi('ㄴ', fwd.expr, rev.expr)), tag='dict-collide-order', monitor='c06_expect', data='True')
            yield Case(program=render(bi('ㄴ', rev.expr, fwd.expr)), tag='dict-collide-order', monitor='c06_expect', data='True')
            yield Case(program=render(bi('ㄴ', VL.vlist([fwd]).expr, VL.vlist([rev]).expr)), tag='dict-collide-order', monitor='c06_expect', data='True')
            yield Case(program=render(call(VL.vdict([(fwd, I(7))]).expr, rev.expr)), tag='dict-collide-key', monitor='c06_expect', data='7')
            yield Case(program=render(call(VL.vdict([(fwd, I(1)), (rev, I(2))]).expr, fwd.expr)), tag='dict-collide-key', monitor='c06_expect', data='2')
            half = len(ks) // 2 or 1
            merged = bi('ㄷ', VL.vdict(list(zip(ks, vals))[half:]).expr, VL.vdict(list(zip(ks, vals))[:half]).expr)
            yield Case(program=render(bi('ㄴ', merged, fwd.expr)), tag='dict-collide-merge', monitor='c06_expect', data='True')
    # (1e) a dictionary written with a *repeated key* (the later entry wins) is the dictionary of its surviving entries — when
    # compared, nested, used as a key, looked up and merged (seeded change S06k kept the survivors of a repeated key in two
    # different orders and zipped the two when a dictionary was used as a key)
    for k0, k1 in [(I(0), I(1)), (I(1), I(0)), (VL.vstr("a"), I(3)), (VL.vlist([I(1)]), VL.vlist([I(2)]))]:
        for pat in ([0, 1, 0], [1, 0, 0], [0, 0, 1], [0, 1, 0, 1], [0, 1, 1, 0]):
            ks = [(k0, k1)[i] for i in pat]
            vals = [I(8 * (i + 1)) for i in range(len(pat))]
            last = {i: v for i, v in zip(pat, vals)}                     # index of key -> surviving value
            dup = VL.V('dict', None, bi('ㅅㅈ', *[e for k, v in zip(ks, vals) for e in (k.expr, v.expr)]))
            for order in ([0, 1], [1, 0]):
                E = VL.vdict([((k0, k1)[i], last[i]) for i in order])
                yield Case(program=render(bi('ㄴ', dup.expr, E.expr)), tag='dict-repeated-key', monitor='c06_expect', data='True')
                yield Case(program=render(bi('ㄴ', bi('ㅁㄹ', dup.expr), bi('ㅁㄹ', E.expr))), tag='dict-repeated-key', monitor='c06_expect', data='True')
                yield Case(program=render(call(bi('ㅅㅈ', dup.expr, lit(7)), E.expr)), tag='dict-repeated-key-as-key', monitor='c06_expect', data='7')
                yield Case(program=render(call(bi('ㅅㅈ', dup.expr, lit(7)), dup.expr)), tag='dict-repeated-key-as-key', monitor='c06_expect', data='7')
                yield Case(program=render(call(bi('ㅅㅈ', E.expr, lit(7)), dup.expr)), tag='dict-repeated-key-as-key', monitor='c06_expect', data='7')
                yield Case(program=render(call(bi('ㅅㅈ', bi('ㅁㄹ', dup.expr), lit(7)), bi('ㅁㄹ', E.expr))), tag='dict-repeated-key-as-key', monitor='c06_expect', data='7')
                yield Case(program=render(bi('ㄴ', bi('ㅅㅈ', dup.expr, lit(7)), bi('ㅅㅈ', E.expr, lit(7)))), tag='dict-repeated-key-as-key', monitor='c06_expect', data='True')
                yield Case(program=render(call(bi('ㄷ', bi('ㅅㅈ', E.expr, lit(1)), bi('ㅅㅈ', dup.expr, lit(7))), E.expr)), tag='dict-repeated-key-merge', monitor='c06_expect', data='7')
            for i in (0, 1):
                yield Case(program=render(call(dup.expr, (k0, k1)[i].expr)), tag='dict-repeated-key-lookup', monitor='c06_expect', data=VL.spec_format(last[i]))
    # (1a) strings: equal iff the same code points — no normalisation, no case / width folding
    strs = [VL.vstr(x) for x in ["가", "\u1100\u1161", "\u00e9", "e\u0301", "\u212b", "\u00c5", "A\u030a", "\uf900", "\u8c48", "a", "A", "ａ", "", " "]]
    for x in strs:
        for y in strs:
            yield Case(program=render(bi('ㄴ', x.expr, y.expr)), tag='str-pair', monitor='c06_expect', data=pybool(VL.spec_eq(x, y)))
            yield Case(program=render(bi('ㄴ', bi('ㅁㄹ', x.expr), bi('ㅁㄹ', y.expr))), tag='str-pair-nested', monitor='c06_expect', data=pybool(VL.spec_eq(x, y)))
    for _ in range(30 if tier == 'quick' else 300):
        ks = rng.sample(strs, 4)
        d = VL.vdict([(k, VL.vint(100 + i)) for i, k in enumerate(ks)])
        probe = rng.choice(strs)
        hit = [v for k, v in VL.dict_entries(d) if VL.spec_eq(k, probe)]
        if hit:
            yield Case(program=render(call(d.expr, probe.expr)), tag='str-dict', monitor='c06_expect', data=VL.spec_format(hit[0]))
        else:
            yield Case(program=render(bi('ㅅㄷ', call(d.expr, probe.expr), fundef(call(arg(0), lit(1))))), tag='str-dict-miss', monitor='c06_expect', data='-60')
        yield Case(program=render(bi('ㅈㄷ', bi('ㅂㄹ', bi('ㅁㅈ', d.expr))) if False else bi('ㄴ', d.expr, VL.vdict(list(reversed(d.payload))).expr)), tag='str-dict-order',
                   monitor='c06_expect', data='True')
    # (1b) numeric neighbourhoods: around each base the integer, the nearest floats and slightly-off fractions,
    # each as Integer / Float / Complex with zero and with tiny imaginary part — equality is exact, never
    # "close enough", and int / float / complex spellings of one number are one key
    import math
    bases = [1, 2, 1234567890, 2 ** 31, 10 ** 10, 2 ** 40, 2 ** 52, -(2 ** 31), 3] if tier == 'quick' else \
            [1, 2, 3, 10, 1000, 1234567890, 2 ** 31, 10 ** 10, 2 ** 40, 2 ** 52, 2 ** 53, -(2 ** 31), -(2 ** 40), 10 ** 15]
    for base in bases:
        fl = [float(base), float(base) + 0.25, math.nextafter(float(base), math.inf), math.nextafter(float(base), -math.inf),
              float(base) + 5e-10 * abs(base)]
        fl = list(dict.fromkeys(fl))
        hood = [VL.vint(base), VL.vint(base + 1)] + [VL.vfloat(x) for x in fl] + [VL.vcomplex(x, 0.0) for x in fl] + \
               [VL.vcomplex(float(base), 5e-324), VL.vcomplex(float(base), 1e-12)]
        prs = list(itertools.product(hood, hood))
        if tier == 'quick':
            prs = rng.sample(prs, 60)
        for a, b in prs:
            yield Case(program=render(bi('ㄴ', a.expr, b.expr)), tag='near-pair', monitor='c06_expect', data=pybool(VL.spec_eq(a, b)))
        # the same neighbourhood as dictionary keys: one entry per distinct number, lookup by any equal spelling
        for _ in range(4 if tier == 'quick' else 30):
            ks = rng.sample(hood, 4)
            d = VL.vdict([(k, VL.vint(100 + i)) for i, k in enumerate(ks)])
            probe = rng.choice(hood)
            hit = [v for k, v in VL.dict_entries(d) if VL.spec_eq(k, probe)]
            if hit:
                yield Case(program=render(call(d.expr, probe.expr)), tag='near-dict', monitor='c06_expect', data=VL.spec_format(hit[0]))
            else:
                yield Case(program=render(bi('ㅅㄷ', call(d.expr, probe.expr), fundef(call(arg(0), lit(1))))), tag='near-dict-miss',
                           monitor='c06_expect', data='-60')
    # (2) random nested values: pairs, with derived equal-but-differently-built copies
    for _ in range(n):
        a = VL.rand_value(rng)
        c = rng.random()
        if c < 0.35:
            b = VL.rand_value(rng)
        elif c < 0.7:
            b = mutate(rng, a)
        else:
            b = rebuild(rng, a)
        yield Case(program=render(bi('ㄴ', a.expr, b.expr)), tag='pair', monitor='c06_expect', data=pybool(VL.spec_eq(a, b)))
        if rng.random() < 0.2:   # symmetry and reflexivity directly
            yield Case(program=render(bi('ㄴ', b.expr, a.expr)), tag='symm', monitor='c06_expect', data=pybool(VL.spec_eq(a, b)))
            yield Case(program=render(bi('ㄴ', a.expr, a.expr)), tag='refl', monitor='c06_expect', data='True')
        if rng.random() < 0.2:   # n-ary: all equal iff pairwise
            c3 = rebuild(rng, a) if rng.random() < 0.5 else VL.rand_value(rng)
            want = VL.spec_eq(a, b) and VL.spec_eq(a, c3)
            yield Case(program=render(bi('ㄴ', a.expr, b.expr, c3.expr)), tag='triple', monitor='c06_expect', data=pybool(want))
    # (3) functions compare by identity
    yield Case(program="(ㄱㅇㄱ ㅎ) (ㄱㅇㄱ ㄱㅇㄱ ㄴㅎㄷ ㅎ) ㅎㄴ", tag='fn-same', monitor='c06_expect', data='True')
    yield Case(program="(ㄱㅇㄱ ㅎ) (ㄱㅇㄱ ㅎ) ㄴㅎㄷ", tag='fn-different', monitor='c06_expect', data='False')
    yield Case(program="(ㅂ ㅂㄷ ㄱ ㅂㅎㄹ) (ㅂ ㅂㄷ ㄱ ㅂㅎㄹ) ㄴㅎㄷ", tag='fn-module', monitor='c06_expect', data='True')
    # a function equals itself only: every kind of function object against every other, directly, nested, and as keys
    FNS = ["(ㅂ ㅅ ㅅㄴ ㅂㅎㄹ)", "(ㅂ ㅅ ㄱㅅ ㅂㅎㄹ)", "(ㅂ ㅅ ㅈㄷ ㅂㅎㄹ)", "(ㅂ ㅂㄷ ㄱ ㅂㅎㄹ)", "(ㅂ ㅂㄷ ㄷ ㅂㅎㄹ)", "(ㅂ ㅅ ㅂㄹ ㄱ ㅂㅎㅁ)", "(ㅂ ㅅ ㅂㄹ ㄴ ㅂㅎㅁ)",
           "(ㅂ ㅂ ㅂㅎㄷ)", "(ㄱ ㄴ ㅂ ㅂ ㅂㅎㄷ ㅎㄷ)", "(ㄴ ㄴ ㅂ ㅂ ㅂㅎㄷ ㅎㄷ)", "(ㄷ ㄴㄱㅎㄴ)", "(ㄱ ㄴㄱㅎㄴ)", "(ㄷ ㅁㅂㅎㄴ)", "(ㄷ ㅂㅂㅎㄴ)"]
    for i, f1 in enumerate(FNS):
        for j, f2 in enumerate(FNS):
            # the same module function fetched twice is one object; pipes / wrappers / codecs built twice are two objects
            same = (i == j and i < 8)
            if i == j and i >= 8:
                continue
            yield Case(program=f"{f1} {f2} ㄴㅎㄷ", tag='fn-matrix', monitor='c06_expect', data=pybool(same))
            yield Case(program=f"({f1} ㅁㄹㅎㄴ) ({f2} ㅁㄹㅎㄴ) ㄴㅎㄷ", tag='fn-matrix-nested', monitor='c06_expect', data=pybool(same))
            if i < j and j < 8:
                d = f"({f1} ㄴ {f2} ㄷ ㅅㅈㅎㅁ)"
                yield Case(program=f"{f1} {d} ㅎㄴ", tag='fn-matrix-key', monitor='c06_expect', data='1')
                yield Case(program=f"{f2} {d} ㅎㄴ", tag='fn-matrix-key', monitor='c06_expect', data='2')
                yield Case(program=f"{d} ㅈㄷㅎㄴ".replace("ㅈㄷㅎㄴ", "(ㄱㅇㄱ ㄱㅇㄱ ㄴㅎㄷ ㅎ) ㅎㄴ"), tag='fn-matrix-key-refl', monitor='c06_expect', data='True')
    # (4) dictionaries: construction, lookup, merge use exactly this equality
    for _ in range(n // 3):
        keys = [VL.rand_value(rng, 2, ['int', 'float', 'complex', 'str', 'bool', 'nil', 'bytes', 'list', 'exc']) for _ in range(rng.randint(1, 4))]
        if rng.random() < 0.5:
            keys.append(rebuild(rng, rng.choice(keys)))       # an equal key built differently
        vals = [VL.vint(100 + i) for i in range(len(keys))]
        d = VL.vdict(list(zip(keys, vals)))
        probe = rng.choice(keys) if rng.random() < 0.7 else VL.rand_value(rng, 2, ['int', 'float', 'str', 'bool', 'list'])
        probe = rebuild(rng, probe) if rng.random() < 0.5 else probe
        hit = [v for k, v in VL.dict_entries(d) if VL.spec_eq(k, probe)]
        prog = render(call(d.expr, probe.expr))
        if hit:
            yield Case(program=prog, tag='dict-lookup', monitor='c06_expect', data=VL.spec_format(hit[0]))
        else:
            yield Case(program=render(bi('ㅅㄷ', call(d.expr, probe.expr), fundef(call(arg(0), lit(1))))), tag='dict-miss',
                       monitor='c06_expect', data='-60')
        # merge: later dictionary's entries replace equal keys
        keys2 = [rng.choice(keys) if rng.random() < 0.5 else VL.rand_value(rng, 2, ['int', 'str', 'float']) for _ in range(rng.randint(0, 3))]
        d2 = VL.vdict([(rebuild(rng, k), VL.vint(200 + i)) for i, k in enumerate(keys2)])
        merged = VL.vdict(d.payload + d2.payload)
        yield Case(program=render(bi('ㄴ', bi('ㄷ', d.expr, d2.expr), merged.expr)), tag='dict-merge', monitor='c06_expect', data='True')
        # … also when the *same dictionary object* was compared / used as a key / looked up before it is merged: the merged
        # dictionary is a new value with its own structural key (seeded change S06l let the merge inherit the first operand's
        # memoised key). x is bound once, as the argument of a function; m = x ㄷ d2
        X, M = "ㄱㅇㄱ", f"(ㄱㅇㄱ ({render(d2.expr)}) ㄷㅎㄷ)"
        same = pybool(VL.spec_eq(d, merged))
        wx = lambda body: f"({render(d.expr)}) ({body} ㅎ) ㅎㄴ"
        yield Case(program=wx(f"{X} {M} ㄴㅎㄷ"), tag='dict-merge-after-key', monitor='c06_expect', data=same)
        yield Case(program=wx(f"({X} {X} ㄴㅎㄷ) ({M} {X} ㄴㅎㄷ) ({X} {M} ㄴㅎㄷ) ㅁㄹㅎㄹ"), tag='dict-merge-after-key', monitor='c06_expect',
                   data=f"[True, {same}, {same}]")
        yield Case(program=wx(f"({X} ({X} ㅂ ㅅㅈㅎㄷ) ㅎㄴ) (({M} ({X} ㅂ ㅅㅈㅎㄷ) ㅎㄴ) (ㄴㄱ ㅎ) ㅅㄷㅎㄷ) ㅁㄹㅎㄷ"), tag='dict-merge-after-key',
                   monitor='c06_expect', data=f"[5, {'5' if same == 'True' else '-1'}]")
        yield Case(program=wx(f"(({X} ㅁㄹㅎㄴ) ({X} ㅁㄹㅎㄴ) ㄴㅎㄷ) (({M} ㅁㄹㅎㄴ) ({X} ㅁㄹㅎㄴ) ㄴㅎㄷ) ㅁㄹㅎㄷ"), tag='dict-merge-after-key',
                   monitor='c06_expect', data=f"[True, {same}]")
        try:
            want = VL.spec_format(merged)
        except ValueError:      # complex keys: printed form is C18's business
            continue
        yield Case(program=render(bi('ㄷ', d.expr, d2.expr)), tag='dict-merge-print', monitor='c06_expect', data=want)


def mutate(rng, v):
    """a value that differs from v in one place (usually)"""
    k = v.kind
    if k == 'int': return VL.vint(v.payload + rng.choice([1, -1, 2 ** 61 - 1, -(2 ** 61 - 1)]))
    if k == 'float': return VL.vfloat(rng.choice(VL.ADVERSARIAL_FLOATS))
    if k in ('list', 'exc') and v.payload:
        i = rng.randrange(len(v.payload))
        xs = list(v.payload)
        xs[i] = mutate(rng, xs[i])
        return VL.vlist(xs) if k == 'list' else VL.vexc(xs)
    if k == 'list': return VL.vlist([VL.vnil()])
    if k == 'dict' and v.payload:
        kvs = list(v.payload)
        i = rng.randrange(len(kvs))
        kvs[i] = (kvs[i][0], mutate(rng, kvs[i][1]))
        return VL.vdict(kvs)
    if k == 'io': return VL.vio(mutate(rng, v.payload))
    return VL.rand_value(rng)


def rebuild(rng, v):
    """an equal value constructed differently: int ↔ float ↔ complex when exactly representable,
    dictionaries in another insertion order, lists through concatenation"""
    k = v.kind
    if k == 'int' and abs(v.payload) < 2 ** 53 and rng.random() < 0.6:
        return VL.vfloat(float(v.payload)) if rng.random() < 0.6 else VL.vcomplex(float(v.payload), 0.0)
    if k == 'float' and v.payload == int(v.payload) and abs(v.payload) < 1e300 and rng.random() < 0.6:
        return VL.vint(int(v.payload))
    if k == 'complex' and v.payload[1] == 0 and rng.random() < 0.6:
        return VL.vfloat(v.payload[0])
    if k in ('list', 'exc'):
        xs = [rebuild(rng, x) for x in v.payload]
        if k == 'list' and len(xs) >= 2 and rng.random() < 0.4:
            j = rng.randrange(1, len(xs))
            return VL.V('list', xs, bi('ㄷ', VL.vlist(xs[:j]).expr, VL.vlist(xs[j:]).expr))
        return VL.vlist(xs) if k == 'list' else VL.vexc(xs)
    if k == 'dict':
        ents = [(rebuild(rng, a), rebuild(rng, b)) for a, b in VL.dict_entries(v)]
        rng.shuffle(ents)
        return VL.vdict(ents)
    if k == 'io': return VL.vio(rebuild(rng, v.payload))
    return v


SPEC = {
    'lean': ['C06'],
    'cases': cases,
    'big': True,
    'stream': 'C06 equality / dictionary stream',
    'rule': 'ㄴ on value pairs / triples: strings that are canonically / compatibility equivalent but spelled with different code points (가 vs ᄀ+ᅡ, é vs e+◌́, Å / Å / A+◌̊, 豈 / 豈, a / ａ); numeric neighbourhoods (base, base+1, base+0.25, next floats up / down, base·(1+5e-10), each as Integer / Float / Complex with zero and tiny imaginary part, also as dictionary keys); all pairs from a 60-value adversarial pool (integers colliding under the host hash: '
            '−1/−2, n ± k(2^61−1), dyadic fractions vs powers of two, ints at 2^53±1 vs floats, equal int/float/complex) '
            '(sampled in quick) and random values of the twelve kinds nested ≤ 3 with mutated and equal-but-rebuilt partners; '
            'expected answer from an independent structural/numeric oracle (exact rationals); reflexivity, symmetry, n-ary; '
            'function identity; dictionary lookup (hit = value of the last equal key, miss = NotFound), merge and printed '
            'form against the same oracle. Non-trivial: all',
    'trusted': ['the harness oracle uh/values.py (exact rational comparison)'],
    'assumptions': ['NaN is excluded (the statement excepts it); the generator never produces NaN'],
}
