"""C12 — sequence / string built-ins match the documented operations for every index."""
import itertools
from .. import gen, values as VL
from ..gen import lit, bi, raw, call, fundef, arg, render, str_lit, bytes_lit
from ..corr import Case, monitor


@monitor('c12_expect')
def _expect(case, a):
    want = case.data
    if want[0] == 'err':
        if a['kind'] != 'err' or a.get('err') != want[1]:
            return f"expected exception {want[1]}, got {a.get('kind')} {a.get('results') or a.get('err')}"
        return None
    if a['kind'] != 'ok' or a['results'] != [want[1]]:
        return f"expected {want[1]!r}, got {a.get('kind')} {a.get('results') or a.get('err')}"
    return None


def walk_slice(n, start, stop, step):
    """positions start, start+step, … before stop, negative positions counted from the end, out-of-range clamped —
    computed by walking, independently of the host's slicing"""
    if step > 0:
        s = start + n if start < 0 else start
        e = stop + n if stop < 0 else stop
        s = min(max(s, 0), n)
        e = min(max(e, 0), n)
        out = []
        i = s
        while i < e:
            out.append(i)
            i += step
        return out
    s = start + n if start < 0 else start
    e = stop + n if stop < 0 else stop
    s = min(max(s, -1), n - 1)
    e = min(max(e, -1), n - 1)
    out = []
    i = s
    while i > e:
        out.append(i)
        i += step
    return out


def fmt_seq(kind, items):
    if kind == 'list': return "[" + ", ".join(str(x) for x in items) + "]"
    if kind == 'str': return "'" + "".join(items) + "'"
    return "b'" + "".join("\\x%02X" % c for c in items) + "'"


def seq_expr(kind, items):
    if kind == 'list': return bi('ㅁㄹ', *[lit(x) for x in items])
    if kind == 'str': return str_lit("".join(items))
    return bytes_lit(bytes(items))


# code points, not graphemes: composable sequences (e + U+0301, conjoining jamo ᄀ ᅡ ᆨ) and singletons whose NFC differs
# (U+212B, U+F900) must stay exactly as written
CHARS = ["a", "b", "가", "😀", ",", " ", "é", "𝄞", "z", "e", "\u0301", "\u1100", "\u1161", "\u11a8", "\u212b", "\uf900"]


def rand_seq(rng, kind, maxlen):
    n = rng.randint(0, maxlen)
    if kind == 'list': return [rng.randint(-9, 99) for _ in range(n)]
    if kind == 'str': return [rng.choice(CHARS) for _ in range(n)]
    return [rng.randrange(256) for _ in range(n)]


def repr_str(t):
    """printed form of the string whose text is t (the interpreter prints strings between single quotes, unescaped)"""
    return "'" + t + "'"


def cases(rng, tier):
    yield from _linelike_cases()
    E, O = lambda s: ('err', s), lambda s: ('ok', s)
    # (1) slicing: exhaustive index triples on short sequences, random beyond
    lim = 4 if tier == 'quick' else 7
    for kind in ('list', 'str', 'bytes'):
        for n in range(0, (4 if tier == 'quick' else 6) + 1):
            items = rand_seq(rng, kind, 0) if n == 0 else (rand_seq(rng, kind, 40)[:n] + rand_seq(rng, kind, 40) + ["a" if kind == 'str' else 1] * n)[:n]
            rngs = range(-lim - 1, lim + 2)
            triples = list(itertools.product(rngs, rngs, [-3, -2, -1, 1, 2, 3]))
            if tier == 'quick':
                triples = rng.sample(triples, 60)
            for st, en, sp in triples:
                idx = walk_slice(n, st, en, sp)
                yield Case(program=render(bi('ㅂㅈ', seq_expr(kind, items), lit(st), lit(en), lit(sp))), tag='slice3',
                           monitor='c12_expect', data=O(fmt_seq(kind, [items[i] for i in idx])))
    N = 400 if tier == 'quick' else 20000
    for _ in range(N):
        kind = rng.choice(['list', 'str', 'bytes'])
        items = rand_seq(rng, kind, 40)
        n = len(items)
        st, en, sp = rng.randint(-45, 45), rng.randint(-45, 45), rng.choice([1, 1, 2, 3, 7, -1, -2, -5, 40, -41])
        se = seq_expr(kind, items)
        yield Case(program=render(bi('ㅂㅈ', se, lit(st), lit(en), lit(sp))), tag='slice', monitor='c12_expect',
                   data=O(fmt_seq(kind, [items[i] for i in walk_slice(n, st, en, sp)])))
        yield Case(program=render(bi('ㅂㅈ', se, lit(st))), tag='slice1', monitor='c12_expect',
                   data=O(fmt_seq(kind, [items[i] for i in walk_slice(n, st, n, 1)])))
        yield Case(program=render(bi('ㅂㅈ', se, lit(st), lit(en))), tag='slice2', monitor='c12_expect',
                   data=O(fmt_seq(kind, [items[i] for i in walk_slice(n, st, en, 1)])))
        yield Case(program=render(bi('ㅂㅈ', se, lit(st), lit(en), lit(0))), tag='slice-step0', monitor='c12_expect', data=E('<예외: [5, -39]>'))
        # indexing: accepted iff -len ≤ i < len
        i = rng.randint(-n - 3, n + 2)
        if -n <= i < n:
            x = items[i + n if i < 0 else i]
            want = O(str(x) if kind == 'list' else fmt_seq(kind, [x]))
        else:
            want = E('<예외: [5, -5]>')
        yield Case(program=render(call(se, lit(i))), tag='index', monitor='c12_expect', data=want)
        # length counts code points
        yield Case(program=render(bi('ㅈㄷ', se)), tag='len', monitor='c12_expect', data=O(str(n)))
        # concatenation
        items2 = rand_seq(rng, kind, 8)
        yield Case(program=render(bi('ㄷ', se, seq_expr(kind, items2))), tag='concat', monitor='c12_expect', data=O(fmt_seq(kind, items + items2)))
        if kind == 'list' and rng.random() < 0.5:
            # host-equal elements of different kinds in one list (1 / 1.0 / 1+0i, 0 / 0.0 / −0.0, equal lists holding them): map,
            # filter and the folds treat every *position* on its own (seeded change S12i shared map results per equality key)
            pool = [VL.vint(1), VL.vfloat(1.0), VL.vint(0), VL.vfloat(0.0), VL.vfloat(-0.0), VL.vint(2), VL.vfloat(2.0), VL.vint(7),
                    VL.vlist([VL.vint(1)]), VL.vlist([VL.vfloat(1.0)]), VL.vbool(True), VL.vstr("1")]
            xs = [rng.choice(pool) for _ in range(rng.randint(2, 6))]
            le = VL.vlist(xs).expr
            if all(x.kind in ('int', 'float') for x in xs):
                yield Case(program=render(bi('ㅁㄷ', le, raw('ㅁㅈ'))), tag='map-mixed-equal', monitor='c12_expect',
                           data=O("[" + ", ".join(repr_str(VL.spec_format(x)) for x in xs) + "]"))
            yield Case(program=render(bi('ㅁㄷ', le, raw('ㅁㄹ'))), tag='map-mixed-equal', monitor='c12_expect',
                       data=O("[" + ", ".join("[" + VL.spec_format(x) + "]" for x in xs) + "]"))
            yield Case(program=render(bi('ㅁㄷ', le, fundef(bi('ㅁㄹ', arg(0), arg(0))))), tag='map-mixed-equal', monitor='c12_expect',
                       data=O("[" + ", ".join("[" + VL.spec_format(x) + ", " + VL.spec_format(x) + "]" for x in xs) + "]"))
        # concatenation of operands that are *shared* and have already been printed / compared / used as keys: the result is
        # a new value with its own printed form and key (seeded change S12j built it as a shallow copy of the first operand,
        # memo fields included)
        if rng.random() < 0.4:
            ys = rand_seq(rng, kind, 5) or rand_seq(rng, kind, 5)
            ye = seq_expr(kind, ys)
            X, Y, CAT = "ㄱㅇㄱ", "ㄴㅇㄱ", "(ㄱㅇㄱ ㄴㅇㄱ ㄷㅎㄷ)"
            fx, fy, fxy = fmt_seq(kind, items), fmt_seq(kind, ys), fmt_seq(kind, items + ys)
            same = 'True' if len(ys) == 0 else 'False'
            body = f"{X} {Y} {CAT} ({X} {X} ㄴㅎㄷ) ({CAT} {X} ㄴㅎㄷ) ({X} ({X} ㄴ ㅅㅈㅎㄷ) ㅎㄴ) {CAT} ({CAT} ㅈㄷㅎㄴ) ㅁㄹㅎ{gen.enc(8)}"
            yield Case(program=f"({render(se)}) ({render(ye)}) ({body} ㅎ) ㅎㄷ", tag='concat-shared-memo', monitor='c12_expect',
                       data=O(f"[{fx}, {fy}, {fxy}, True, {same}, 1, {fxy}, {len(items) + len(ys)}]"))
        if kind == 'list':
            k = rng.randint(-3, 9)
            # map / filter preserve order
            yield Case(program=render(bi('ㅁㄷ', se, fundef(bi('ㄷ', arg(0), lit(k))))), tag='map', monitor='c12_expect',
                       data=O(fmt_seq('list', [x + k for x in items])))
            yield Case(program=render(bi('ㅅㅂ', se, fundef(bi('ㅈ', arg(0), lit(k))))), tag='filter', monitor='c12_expect',
                       data=O(fmt_seq('list', [x for x in items if x < k])))
            # folds: f(acc, x) = 2·acc − x is neither commutative nor associative, so the association order shows
            f = fundef(bi('ㄷ', bi('ㄱ', lit(2), arg(0)), bi('ㄱ', lit(-1), arg(1))))
            init = rng.randint(-5, 5)
            def foldl(xs, acc):
                for x in xs: acc = 2 * acc - x
                return acc
            def foldr(xs, acc):
                for x in reversed(xs): acc = 2 * x - acc
                return acc
            # left fold: function first;  right fold: list first
            yield Case(program=render(bi('ㅅㄹ', f, lit(init), se)), tag='foldl-init', monitor='c12_expect', data=O(str(foldl(items, init))))
            yield Case(program=render(bi('ㅅㄹ', se, lit(init), f)), tag='foldr-init', monitor='c12_expect', data=O(str(foldr(items, init))))
            if items:
                yield Case(program=render(bi('ㅅㄹ', f, se)), tag='foldl', monitor='c12_expect', data=O(str(foldl(items[1:], items[0]))))
                yield Case(program=render(bi('ㅅㄹ', se, f)), tag='foldr', monitor='c12_expect', data=O(str(foldr(items[:-1], items[-1]))))
            else:
                yield Case(program=render(bi('ㅅㄹ', f, se)), tag='fold-empty', monitor='c12_expect', data=E('<예외: [5, -39]>'))
        if rng.random() < 0.5:
            # folds with a built-in given as the function: ㄷ concatenates in list order whichever way the fold runs
            kk = rng.choice(['str', 'list', 'bytes'])
            parts = [rand_seq(rng, kk, 3) for _ in range(rng.randint(0, 4))]
            init = rand_seq(rng, kk, 2)
            pe = bi('ㅁㄹ', *[seq_expr(kk, q) for q in parts])
            flat = [x for q in parts for x in q]
            yield Case(program=render(bi('ㅅㄹ', pe, seq_expr(kk, init), raw('ㄷ'))), tag='foldr-builtin-init', monitor='c12_expect',
                       data=O(fmt_seq(kk, flat + init)))
            yield Case(program=render(bi('ㅅㄹ', raw('ㄷ'), seq_expr(kk, init), pe)), tag='foldl-builtin-init', monitor='c12_expect',
                       data=O(fmt_seq(kk, init + flat)))
            if parts:
                yield Case(program=render(bi('ㅅㄹ', pe, raw('ㄷ'))), tag='foldr-builtin', monitor='c12_expect', data=O(fmt_seq(kk, flat)))
                yield Case(program=render(bi('ㅅㄹ', raw('ㄷ'), pe)), tag='foldl-builtin', monitor='c12_expect', data=O(fmt_seq(kk, flat)))
                # the same through a closure wrapping ㄷ, and through ㄴㄱ-piped identity
                f2 = fundef(bi('ㄷ', arg(0), arg(1)))
                yield Case(program=render(bi('ㅅㄹ', pe, f2)), tag='foldr-closure-concat', monitor='c12_expect', data=O(fmt_seq(kk, flat)))
        if kind != 'list':
            # split / join with any non-empty separator restores the original
            if kind == 'str':
                sep = rng.choice([",", "a", "aa", " ", "가", "😀", ", ", "ab", "\u0301", "\u1161", "e", "é", "\u1100\u1161"])
                s = "".join(items) + (sep if rng.random() < 0.3 else "") + "".join(rand_seq(rng, 'str', 4))
                se2, sepx = str_lit(s), str_lit(sep)
                pieces = s.split(sep)
                yield Case(program=render(bi('ㅂㄹ', se2, sepx)), tag='split', monitor='c12_expect',
                           data=O("[" + ", ".join("'" + p + "'" for p in pieces) + "]"))
                yield Case(program=render(bi('ㄱㅁ', bi('ㅂㄹ', se2, sepx), sepx)), tag='join-split', monitor='c12_expect', data=O("'" + s + "'"))
                yield Case(program=render(bi('ㅈㄷ', bi('ㅂㄹ', se2))), tag='split-chars', monitor='c12_expect', data=O(str(len(s))))
            else:
                sep = bytes(rng.choice([[44], [0], [1, 2], [255]]))
                b = bytes(items) + (sep if rng.random() < 0.3 else b"") + bytes(rand_seq(rng, 'bytes', 3))
                yield Case(program=render(bi('ㄱㅁ', bi('ㅂㄹ', bytes_lit(b), bytes_lit(sep)), bytes_lit(sep))), tag='join-split-b',
                           monitor='c12_expect', data=O(fmt_seq('bytes', list(b))))


def _linelike_cases():
    """a separator that happens to be a line end (U+000A, CR, CRLF …) is a separator like any other: sources that end with
    it, are empty, or hold *other* line-boundary characters split at the separator only (seeded change S12k used
    str.splitlines for the separator "\\n")"""
    E, O = lambda s: ('err', s), lambda s: ('ok', s)
    srcs = ["a\nb\n", "", "\n", "x\r\ny", "a\rb\nc", "l1\n\nl3", "\na", "a\x0bb\x0cc\nd", "p\u2028q\nr\x85s", "no separator", "\n\n", "끝\n"]
    seps = ["\n", "\r", "\r\n", "\x0c", "\u2028"]
    for src in srcs:
        for sep in seps:
            pieces = src.split(sep)
            yield Case(program=render(bi('ㅂㄹ', str_lit(src), str_lit(sep))), tag='split-linelike', monitor='c12_expect',
                       data=O("[" + ", ".join("'" + p + "'" for p in pieces) + "]"))
            yield Case(program=render(bi('ㄱㅁ', bi('ㅂㄹ', str_lit(src), str_lit(sep)), str_lit(sep))), tag='join-split-linelike',
                       monitor='c12_expect', data=O("'" + src + "'"))
            yield Case(program=render(bi('ㅈㄷ', bi('ㅂㄹ', str_lit(src), str_lit(sep)))), tag='split-linelike-count', monitor='c12_expect',
                       data=O(str(len(pieces))))
            if all(ord(ch) < 128 for ch in src + sep):
                b, bs = src.encode(), sep.encode()
                yield Case(program=render(bi('ㄱㅁ', bi('ㅂㄹ', bytes_lit(b), bytes_lit(bs)), bytes_lit(bs))), tag='join-split-linelike-b',
                           monitor='c12_expect', data=O(fmt_seq('bytes', list(b))))
                yield Case(program=render(bi('ㅈㄷ', bi('ㅂㄹ', bytes_lit(b), bytes_lit(bs)))), tag='split-linelike-count-b', monitor='c12_expect',
                           data=O(str(len(b.split(bs)))))


SPEC = {
    'lean': ['C12'],
    'cases': cases,
    'big': True,
    'stream': 'C12 sequence stream',
    'rule': 'strings over an alphabet with astral, precomposed, combining and conjoining code points and NFC-unstable singletons; slicing: all (start, end, step) ∈ [−5, 5]² × {±1, ±2, ±3} (sampled in quick; [−8, 8]² in thorough) on lists / '
            'strings / byte strings of length 0…4 (0…6), random triples in [−45, 45] on lengths ≤ 40, 1- and 2-argument '
            'forms, zero step; expected by an index-walking oracle. Indexing at −len−3…len+2; length in code points (astral '
            'characters); concatenation; map / filter order; left / right folds with and without initial value using a '
            'non-associative function; split (vs str.split), join∘split = id for non-empty separators incl. overlapping '
            'ones; byte strings likewise. Non-trivial: all',
    'trusted': ['str.split of the host as the oracle for the pieces of a split'],
    'assumptions': [],
}
