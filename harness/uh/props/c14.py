"""C14 — file handles behave as byte files; open modes never destroy data they must keep."""
from .. import gen
from ..gen import enc, render, str_lit, bytes_lit
from ..corr import Case, monitor

MODES = {'r': 'ㄹ', 'w': 'ㅈㄹ', 'a': 'ㅈㄱ', 'r+': 'ㄹㅈㄹ', 'w+': 'ㅈㄹㄹ', 'a+': 'ㅈㄱㄹ'}
CAN_READ = {'r', 'r+', 'w+', 'a+'}
CAN_WRITE = {'w', 'a', 'r+', 'w+', 'a+'}


class ByteFile:
    """the plain byte-array model of the statement"""
    def __init__(self, initial, mode):
        self.mode = mode
        self.data = bytearray() if mode in ('w', 'w+') else bytearray(initial or b"")
        self.pos = len(self.data) if mode in ('a', 'a+') else 0

    def apply(self, op):
        k = op[0]
        if k == 'read':
            n = op[1]
            out = bytes(self.data[self.pos:]) if n == -1 else bytes(self.data[self.pos:self.pos + n])
            self.pos += len(out)
            return "b'" + "".join("\\x%02X" % c for c in out) + "'"
        if k == 'write':
            b = op[1]
            if not b:               # a zero-length write changes no byte (no zero-fill); an append
                if self.mode in ('a', 'a+'):     # write still positions at the end
                    self.pos = len(self.data)
                return "0"
            at = len(self.data) if self.mode in ('a', 'a+') else self.pos
            if at > len(self.data):
                self.data += bytes(at - len(self.data))
            self.data[at:at + len(b)] = b
            self.pos = at + len(b)
            return str(len(b))
        if k == 'tell': return str(self.pos)
        if k == 'seek':
            self.pos = op[1]
            return str(self.pos)
        if k == 'seekcur':
            self.pos += op[1]
            return str(self.pos)
        if k == 'trunc':
            size = op[1] if len(op) > 1 else self.pos
            if size <= len(self.data):
                del self.data[size:]
            else:
                self.data += bytes(size - len(self.data))
            return str(size)
        if k == 'close': return "Nil"
        raise ValueError(k)


def op_expr(op, f):
    k = op[0]
    if k == 'read': return f"{enc(op[1])} ㄹ {f} ㅎㄷ"
    if k == 'write': return f"{render(bytes_lit(op[1]))} ㅈㄹ {f} ㅎㄷ"
    if k == 'tell': return f"ㅈ {f} ㅎㄴ"
    if k == 'seek': return f"{enc(op[1])} ㅈ {f} ㅎㄷ" if not op[2:] else f"ㅅㅈㅂㄷ {enc(op[1])} ㅈ {f} ㅎㄹ"
    if k == 'seekcur': return f"ㅈㄱㅂㄷ {enc(op[1])} ㅈ {f} ㅎㄹ"
    if k == 'trunc': return f"{enc(op[1])} ㄱ {f} ㅎㄷ" if len(op) > 1 else f"ㄱ {f} ㅎㄴ"
    if k == 'close': return f"ㄷ {f} ㅎㄴ"
    raise ValueError(k)


def program(path, mode, ops):
    n = len(ops)
    def build(i):
        if i == n:
            items = " ".join(f"ㄱㅇ{enc(n - 1 - j)}" for j in range(n))
            return f"{items} ㅁㄹㅎ{enc(n)} ㄱㅅㅎㄴ"
        return f"{op_expr(ops[i], f'ㄱㅇ{enc(i)}')} ({build(i + 1)} ㅎ) ㄱㄹㅎㄷ"
    return f"{render(str_lit(path))} {MODES[mode]} ㄱㄴㅎㄷ ({build(0)} ㅎ) ㄱㄹㅎㄷ"


def permitted_ops(rng, model: ByteFile, count):
    """a random history of operations the mode permits (the model tracks the state so that relative
    seeks never go negative)"""
    ops = []
    for _ in range(count):
        choices = ['tell', 'seek', 'seekcur']
        if model.mode in CAN_READ: choices += ['read', 'read']
        if model.mode in CAN_WRITE: choices += ['write', 'write', 'trunc']
        k = rng.choice(choices)
        if k == 'read': op = ('read', rng.choice([-1, 0, 1, 2, 3, 5, 100]))
        elif k == 'write': op = ('write', bytes(rng.randrange(256) for _ in range(rng.randint(0, 5))))
        elif k == 'tell': op = ('tell',)
        elif k == 'seek': op = ('seek', rng.randint(0, len(model.data) + 4)) + ((True,) if rng.random() < 0.3 else ())
        elif k == 'seekcur': op = ('seekcur', rng.randint(-model.pos, 4))
        else: op = ('trunc', rng.randint(0, len(model.data) + 3)) if rng.random() < 0.7 else ('trunc',)
        model.apply(op)
        ops.append(op)
    return ops


@monitor('c14_model')
def _model(case, a):
    path, mode, initial, ops = case.data
    m = ByteFile(initial, mode)
    want = [m.apply(op) for op in ops]
    if a['kind'] != 'ok' or a['results'] != ["IO([" + ", ".join(want) + "])"]:
        return f"results {a.get('results') or a.get('err')}, byte-array model [{', '.join(want)}]"
    disk = a['fs'].get(path)
    if ops and ops[-1][0] == 'close' and disk != bytes(m.data):
        return f"on-disk contents {disk!r}, byte-array model {bytes(m.data)!r}"
    return None


def program_shared(path, mode, ops, shared):
    """like `program`, but the operations whose index is in `shared` (all the same operation) are one action *value*,
    built once and executed at each of those places: an action describes an operation, it is not a snapshot of its result"""
    n = len(ops)
    k0 = min(shared)
    # frames: the file handle is argument 0 of the outermost continuation, the shared action is argument 0 of the next one,
    # then one continuation per operation
    def fref(depth): return f"ㄱㅇ{enc(depth)}"
    def build(i):
        # inside i result-continuations, below the (handle, action) functions: handle is i+1 levels out, action i levels out
        if i == n:
            items = " ".join(f"ㄱㅇ{enc(n - 1 - j)}" for j in range(n))
            return f"{items} ㅁㄹㅎ{enc(n)} ㄱㅅㅎㄴ"
        act = fref(i) if i in shared else op_expr(ops[i], fref(i + 1))
        return f"{act} ({build(i + 1)} ㅎ) ㄱㄹㅎㄷ"
    shared_expr = op_expr(ops[k0], "ㄱㅇㄱ")                 # built where the handle is argument 0
    return (f"{render(str_lit(path))} {MODES[mode]} ㄱㄴㅎㄷ (({shared_expr}) ({build(0)} ㅎ) ㅎㄴ ㅎ) ㄱㄹㅎㄷ")


def cases(rng, tier):
    n = 400 if tier == 'quick' else 15000
    initials = [None, b"", b"x", bytes(range(48, 58)) * 30]
    # exhaustive short histories per mode on a 3-byte file
    basic = [('read', -1), ('read', 1), ('write', b"AB"), ('tell',), ('seek', 1), ('seekcur', 1), ('trunc', 1), ('trunc',)]
    import itertools
    for mode in MODES:
        allowed = [op for op in basic if not (op[0] == 'read' and mode not in CAN_READ) and not (op[0] in ('write', 'trunc') and mode not in CAN_WRITE)]
        seqs = list(itertools.product(allowed, repeat=2)) if tier == 'quick' else list(itertools.product(allowed, repeat=3))
        for seq in seqs:
            ops = list(seq) + [('close',)]
            yield Case(program=program("f.bin", mode, ops), fs={"f.bin": b"abc"}, tag='exhaustive-' + mode, monitor='c14_model',
                       data=("f.bin", mode, b"abc", ops), compare_fs=True)
    # one action value executed at several places of a history (tell / read / write / relative seek / truncate-here)
    for mode in MODES:
        # (explicit-size truncation and whence-seeks too: seeded change S14l unwrapped the size of a truncate action through a
        # generator, which is empty the second time the action value is executed)
        for shared_op in [('tell',), ('read', 2), ('read', -1), ('write', b"Q"), ('seekcur', 1), ('trunc',), ('seek', 1),
                          ('trunc', 4), ('trunc', 1), ('trunc', 8), ('seek', 2, True), ('read', 0), ('write', b"")]:
            if shared_op[0] == 'read' and mode not in CAN_READ or shared_op[0] in ('write', 'trunc') and mode not in CAN_WRITE:
                continue
            for between in basic:
                if between[0] == 'read' and mode not in CAN_READ or between[0] in ('write', 'trunc') and mode not in CAN_WRITE:
                    continue
                ops = [shared_op, between, shared_op, ('tell',), ('close',)]
                yield Case(program=program_shared("f.bin", mode, ops, {0, 2}), fs={"f.bin": b"abcdef"}, tag='shared-action-' + mode,
                           monitor='c14_model', data=("f.bin", mode, b"abcdef", ops), compare_fs=True)
    for _ in range(n):
        mode = rng.choice(list(MODES))
        initial = rng.choice(initials)
        if initial is None and mode in ('r', 'r+'):
            initial = b"seed"
        model = ByteFile(initial, mode)
        ops = permitted_ops(rng, model, rng.randint(0, 30 if tier != 'quick' else 12)) + [('close',)]
        fs = {} if initial is None else {"d/f.bin": initial}
        fs["d/other"] = b"keep"
        yield Case(program=program("d/f.bin", mode, ops), fs=fs, tag='history-' + mode, monitor='c14_model',
                   data=("d/f.bin", mode, initial, ops), compare_fs=True)


SPEC = {
    'lean': ['C14'],
    'cases': cases,
    'big': True,
    'stream': 'C14 file history stream (real files in a scratch directory)',
    'rule': 'one action value executed twice with another operation in between (every shareable operation × every operation × 6 modes); operation histories of permitted operations (read n / all, write, tell, absolute / relative seek, truncate to '
            'n / to the position) ending with close: all 2-operation (quick) / 3-operation sequences per mode on a 3-byte '
            'file, and random histories of ≤ 12 (quick) / ≤ 30 operations × six modes × initial contents {absent, empty, 1 '
            'byte, 300 bytes}; returned bytes / counts / positions and the final on-disk contents against a plain byte-array '
            'model in the harness and against the Lean model. Non-trivial: all',
    'trusted': ['the byte-array model uh/props/c14.py:ByteFile'],
    'assumptions': ['one handle per file; on-disk contents are compared after close (data written through a handle that is never closed '
                    'may be lost when the interpreter drops the handle — observation recorded in DESIGN.md)'],
}
