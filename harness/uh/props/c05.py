"""C05 — tail calls use constant stack; deep recursion fails only by the explicit limit."""
import sys
from ..gen import enc
from ..corr import Case, monitor

COND = "(ㄱㅇㄱ ㄱ ㄴㅎㄷ)"


def countdown(n):      # f(n) = n == 0 ? 0 : f(n-1)
    return f"{enc(n)} ㄱ ((ㄱㅇㄱ ㄴㄱ ㄷㅎㄷ) ㄱㅇ ㅎㄴ) {COND} ㅎㄷ ㅎ ㅎㄴ", "0"


def accum(n):          # f(n, acc) = (acc == acc and n == 0) ? acc : f(n-1, acc+n)   (the test forces acc each round)
    return (f"{enc(n)} ㄱ (ㄴㅇㄱ) ((ㄱㅇㄱ ㄴㄱ ㄷㅎㄷ) (ㄴㅇㄱ ㄱㅇㄱ ㄷㅎㄷ) ㄱㅇ ㅎㄷ) ((ㄴㅇㄱ ㄴㅇㄱ ㄴㅎㄷ) {COND} ㄱㅎㄷ) ㅎㄷ ㅎ ㅎㄷ",
            str(n * (n + 1) // 2))


def mutual(n):         # even(n) = n == 0 ? True : odd(n-1);  odd(n) = n == 0 ? False : even(n-1)
    odd = f"((ㄱㅈㅎㄱ) ((ㄱㅇㄱ ㄴㄱ ㄷㅎㄷ) ㄴㅇ ㅎㄴ) {COND} ㅎㄷ ㅎ)"
    return f"{enc(n)} (ㅈㅈㅎㄱ) ((ㄱㅇㄱ ㄴㄱ ㄷㅎㄷ) {odd} ㅎㄴ) {COND} ㅎㄷ ㅎ ㅎㄴ", str(n % 2 == 0)


def viabool(n):        # selection through nested Boolean calls: ((n==0) (T) ((n<0) (T) loop))
    return (f"{enc(n)} ㄱ (ㄱ ((ㄱㅇㄱ ㄴㄱ ㄷㅎㄷ) ㄱㅇ ㅎㄴ) (ㄱㅇㄱ ㄱ ㅈㅎㄷ) ㅎㄷ) {COND} ㅎㄷ ㅎ ㅎㄴ", "0")


def rbind(n):          # h(n) = n == 0 ? return 0 : return n >>= λx. h(n-1)
    return (f"{enc(n)} (ㄱ ㄱㅅㅎㄴ) ((ㄱㅇㄱ ㄱㅅㅎㄴ) ((ㄱㅇㄴ ㄴㄱ ㄷㅎㄷ) ㄴㅇ ㅎㄴ ㅎ) ㄱㄹㅎㄷ) {COND} ㅎㄷ ㅎ ㅎㄴ", "IO(0)")


def viahelper(n):      # pick = λ c a b. c(a, b);  f(n) = pick(n == 0, 0, f(n-1))   (tail call delivered through argument references)
    return (f"{enc(n)} ({COND} ㄱ ((ㄱㅇㄱ ㄴㄱ ㄷㅎㄷ) ㄱㅇ ㅎㄴ) (ㄴㅇㄱ ㄷㅇㄱ ㄱㅇㄱ ㅎㄷ ㅎ) ㅎㄹ ㅎ) ㅎㄴ", "0")


def viaid(n):          # same = λx. x;  f(n) = n == 0 ? 0 : same(f(n-1))
    return (f"{enc(n)} (ㄱ (((ㄱㅇㄱ ㄴㄱ ㄷㅎㄷ) ㄱㅇ ㅎㄴ) (ㄱㅇㄱ ㅎ) ㅎㄴ) {COND} ㅎㄷ ㅎ) ㅎㄴ", "0")


def viathunk(n):       # f(n, k) = n == 0 ? k : f(n-1, k)   with k an unevaluated call handed along and returned at the end
    return (f"{enc(n)} (ㄷ ㄹ ㄷㅎㄷ) ((ㄴㅇㄱ) ((ㄱㅇㄱ ㄴㄱ ㄷㅎㄷ) (ㄴㅇㄱ) ㄱㅇ ㅎㄷ) {COND} ㅎㄷ ㅎ) ㅎㄷ", "5")


def viatry(n):         # retry(n) = ㅅㄷ(n == 0 ? 0 : throw, λe. retry(n-1)): the back edge is the handler's (tail) call
    return (f"{enc(n)} ((ㄱ (ㄴ ㄷㅂㅎㄴ ㄷㅈㅎㄴ) {COND} ㅎㄷ) ((ㄱㅇㄴ ㄴㄱ ㄷㅎㄷ) ㄴㅇ ㅎㄴ ㅎ) ㅅㄷㅎㄷ ㅎ) ㅎㄴ", "0")


def viatrybody(n):     # loop(n) = ㅅㄷ(n == 0 ? 0 : loop(n-1), handler): the back edge is inside the guarded expression
    return (f"{enc(n)} ((ㄱ ((ㄱㅇㄱ ㄴㄱ ㄷㅎㄷ) ㄱㅇ ㅎㄴ) {COND} ㅎㄷ) (ㄱㅇㄱ ㅎ) ㅅㄷㅎㄷ ㅎ) ㅎㄴ", "0")


def boolflag(n):       # search(n, found) = n == 0 ? found : search(n-1, found ∨ (n == −1)), the flag forced in every round and always False
    return (f"{enc(n)} (ㄱㅈㅎㄱ) ((ㄴㅇㄱ) ((ㄱㅇㄱ ㄴㄱ ㄷㅎㄷ) (ㄴㅇㄱ (ㄱㅇㄱ ㄴㄱ ㄴㅎㄷ) ㄷㅎㄷ) ㄱㅇ ㅎㄷ) ((ㄴㅇㄱ ㄴㅇㄱ ㄴㅎㄷ) {COND} ㄱㅎㄷ) ㅎㄷ ㅎ) ㅎㄷ", "False")


def nilstate(n):       # loop(n, s) with s = Nil / empty list / 0 / empty string carried along and forced each round (falsy host values)
    return (f"{enc(n)} (ㅁㄹㅎㄱ) ((ㄴㅇㄱ) ((ㄱㅇㄱ ㄴㄱ ㄷㅎㄷ) (ㄴㅇㄱ (ㅁㄹㅎㄱ) ㄷㅎㄷ) ㄱㅇ ㅎㄷ) ((ㄴㅇㄱ ㄴㅇㄱ ㄴㅎㄷ) {COND} ㄱㅎㄷ) ㅎㄷ ㅎ) ㅎㄷ", "[]")


def carried(n):        # f(n, b) = n == 0 ? b + 0 : f(n-1, b): a parameter handed on untouched (a chain of references to an evaluated value)
    return (f"{enc(n)} ㅈ ((ㄴㅇㄱ ㄱ ㄷㅎㄷ) ((ㄱㅇㄱ ㄴㄱ ㄷㅎㄷ) ㄴㅇㄱ ㄱㅇ ㅎㄷ) {COND} ㅎㄷ ㅎ) ㅎㄷ", "7")


def carried_fn(n):     # the same with a function carried along and called at the end
    return (f"{enc(n)} (ㄱㅇㄱ ㄴ ㄷㅎㄷ ㅎ) ((ㅂ ㄴㅇㄱ ㅎㄴ) ((ㄱㅇㄱ ㄴㄱ ㄷㅎㄷ) ㄴㅇㄱ ㄱㅇ ㅎㄷ) {COND} ㅎㄷ ㅎ) ㅎㄷ", "6")


def toggle(n):         # loop(n, s) = (n == 0 or s == 99) ? s : loop(n-1, T(s)),  T(s) = (s == a) ? b : a  — the helper tests its
    # argument and hands back an *already evaluated* object (seeded change S05g: such a call expression lost its memo)
    helper = "ㄴ ㅇㄷ ㄱ ㅇㄷ ㄱ ㅇㄱ ㄱ ㅇㄷ ㄴ ㅎㄷ ㅎㄷ ㅎ"
    rec = f"ㄱ ㅇㄱ ㄴㄱ ㄷ ㅎㄷ  ㄴ ㅇㄱ {helper} ㅎㄴ  ㄱ ㅇ ㅎㄷ"
    cond = f"ㄱ ㅇㄱ ㄱ ㄴ ㅎㄷ  ㄴ ㅇㄱ {enc(99)} ㄴ ㅎㄷ  ㄷ ㅎㄷ"
    loop = f"ㄴ ㅇㄱ  {rec}  {cond} ㅎㄷ ㅎ"
    return f"ㄴ ㄷ {enc(n)} ㄱ ㅇㄱ {loop} ㅎㄷ ㅎ ㅎㄷ", str(1 if n % 2 == 0 else 2)


def clamp(n):          # loop(n, m) = n == 0 ? m : loop(n-1, (m < cap) ? m : cap): the state is handed back unchanged by a helper
    helper = "ㄱ ㅇㄱ  ㄱ ㅇㄷ  ㄱ ㅇㄱ ㄱ ㅇㄷ ㅈ ㅎㄷ  ㅎㄷ ㅎ"
    rec = f"ㄱ ㅇㄱ ㄴㄱ ㄷ ㅎㄷ  ㄴ ㅇㄱ {helper} ㅎㄴ  ㄱ ㅇ ㅎㄷ"
    loop = f"ㄴ ㅇㄱ  {rec}  (ㄴ ㅇㄱ ㄴ ㅇㄱ ㄴ ㅎㄷ) (ㄱ ㅇㄱ ㄱ ㄴ ㅎㄷ) ㄱ ㅎㄷ ㅎㄷ ㅎ"     # the test forces m in every round
    return f"{enc(1000)} {enc(n)} ㄱ {loop} ㅎㄷ ㅎ ㅎㄴ", "0"


def vianullary(n):     # f(n) = n == 0 ? 0 : (λ(). f(n-1))(): the back edge is the body of a function called *without arguments*, which
    # reads the loop variable from the enclosing function (seeded change S05i memoised argument-less calls through a frame)
    return (f"{enc(n)} (ㄱ (((ㄱㅇㄴ ㄴㄱ ㄷㅎㄷ) ㄴㅇ ㅎㄴ ㅎ) ㅎㄱ) {COND} ㅎㄷ ㅎ) ㅎㄴ", "0")


def viapipe(n):        # f(n) = n == 0 ? 0 : (dec ∘ f)(n) — the back edge is the last stage of a two-stage pipe ㄴㄱ (seeded change
    # S05k drove the last stage of a pipe with a nested evaluation instead of handing it over)
    return (f"{enc(n)} (ㄱ (ㄱㅇㄱ ((ㄱㅇㄱ ㄴㄱ ㄷㅎㄷ ㅎ) (ㄱㅇ) ㄴㄱㅎㄷ) ㅎㄴ) {COND} ㅎㄷ ㅎ) ㅎㄴ", "0")


def viapipe1(n):       # the same through a one-stage pipe applied to n-1
    return (f"{enc(n)} (ㄱ ((ㄱㅇㄱ ㄴㄱ ㄷㅎㄷ) ((ㄱㅇ) ㄴㄱㅎㄴ) ㅎㄴ) {COND} ㅎㄷ ㅎ) ㅎㄴ", "0")


def viaspread(n):      # f(n) = n == 0 ? 0 : spread(f)([n-1]) — the back edge is the call made by ㅁㅂ with the list spread out
    return (f"{enc(n)} (ㄱ ((ㄱㅇㄱ ㄴㄱ ㄷㅎㄷ) ㅁㄹㅎㄴ) ((ㄱㅇ) ㅁㅂㅎㄴ) ㅎㄴ) {COND} ㅎㄷ ㅎ) ㅎㄴ", "0")


def viafoldl(n):       # f(n) = n == 0 ? 0 : foldl(λ(a, x). f(x), 0, [n−1]) — the back edge is the *last application* of a fold, whose result
    # ㅅㄹ hands back unevaluated (seeded change S05l forced every application inside the fold's frame)
    return (f"{enc(n)} (ㄱ ((ㄴㅇㄱ ㄴㅇ ㅎㄴ ㅎ) ㄱ ((ㄱㅇㄱ ㄴㄱ ㄷㅎㄷ) ㅁㄹㅎㄴ) ㅅㄹㅎㄹ) {COND} ㅎㄷ ㅎ) ㅎㄴ", "0")


def viafoldr(n):       # the same as a right fold: foldr([n−1], 0, λ(x, a). f(x))
    return (f"{enc(n)} (ㄱ (((ㄱㅇㄱ ㄴㄱ ㄷㅎㄷ) ㅁㄹㅎㄴ) ㄱ (ㄱㅇㄱ ㄴㅇ ㅎㄴ ㅎ) ㅅㄹㅎㄹ) {COND} ㅎㄷ ㅎ) ㅎㄴ", "0")


def viafoldl0(n):      # without an initial value: foldl(λ(a, x). f(x), [0, n−1])
    return (f"{enc(n)} (ㄱ ((ㄴㅇㄱ ㄴㅇ ㅎㄴ ㅎ) (ㄱ (ㄱㅇㄱ ㄴㄱ ㄷㅎㄷ) ㅁㄹㅎㄷ) ㅅㄹㅎㄷ) {COND} ㅎㄷ ㅎ) ㅎㄴ", "0")


def nontail(n):        # s(n) = n == 0 ? 0 : n + s(n-1)   (frames grow with n)
    return (f"{enc(n)} ㄱ (ㄱㅇㄱ ((ㄱㅇㄱ ㄴㄱ ㄷㅎㄷ) ㄱㅇ ㅎㄴ) ㄷㅎㄷ) {COND} ㅎㄷ ㅎ ㅎㄴ", str(n * (n + 1) // 2))


def lbind(n):          # left-nested binds built by a loop (KNOWN FINDING for large n)
    return (f"{enc(n)} (ㄱ ㄱㅅㅎㄴ) (ㄴㅇㄱ) ((ㄱㅇㄱ ㄴㄱ ㄷㅎㄷ) (ㄴㅇㄱ (ㄱㅇㄱ ㄱㅅㅎㄴ ㅎ) ㄱㄹㅎㄷ) ㄱㅇ ㅎㄷ) {COND} ㅎㄷ ㅎ ㅎㄷ", "IO(0)")


def nestfmt(n):        # printing a list nested n deep (KNOWN FINDING for large n)
    return (f"{enc(n)} ㅁㄹㅎㄱ ((ㄱㅇㄱ ㄴㄱ ㄷㅎㄷ) ㄱㅇ ㅎㄴ ㅁㄹㅎㄴ) {COND} ㅎㄷ ㅎ ㅎㄴ", "[" * (n + 1) + "]" * (n + 1))


TAIL = {'countdown': countdown, 'accum': accum, 'mutual': mutual, 'viabool': viabool, 'rbind': rbind,
        'viahelper': viahelper, 'viaid': viaid, 'viathunk': viathunk, 'viatry': viatry,
        'boolflag': boolflag, 'nilstate': nilstate, 'carried': carried, 'carried-fn': carried_fn,
        'toggle': toggle, 'clamp': clamp, 'vianullary': vianullary,
        'viapipe': viapipe, 'viapipe1': viapipe1, 'viaspread': viaspread,
        'viafoldl': viafoldl, 'viafoldr': viafoldr, 'viafoldl0': viafoldl0}


@monitor('c05_value')
def _value(case, a):
    """the loop must complete with the right value, or — for non-tail recursion only — stop with the
    evaluator's own limit report"""
    kind, want, may_limit = case.data
    if a['kind'] == 'limit':
        return None if may_limit else f"tail loop '{kind}' hit the stack limit"
    if a['kind'] != 'ok' or a['results'] != [want]:
        return f"loop '{kind}' did not produce {want!r}: {a.get('kind')} {str(a.get('results') or a.get('err'))[:80]}"
    return None


def cases(rng, tier):
    ladder = [1, 10, 100, 1000, 10 ** 4] if tier == 'quick' else [1, 10, 100, 1000, 10 ** 4, 10 ** 5, 10 ** 6]
    for name, mk in TAIL.items():
        for n in ladder:
            for n1 in {n, n + rng.randint(0, 9)}:
                prog, want = mk(n1)
                big = n1 >= 10 ** 5
                yield Case(program=prog, tag=name, monitor='c05_value', data=(name, want, False), format_io=True,
                           timeout=600 if big else 120, fuel=400 * n1 + 10 ** 6, skip_model=(n1 >= 10 ** 6), nontrivial=n1 >= 100,
                           timeout_fails=True)       # a loop that does not finish in 60× its usual time has not run to completion
    # the loop's result consumed more than once afterwards (read again from its cell), and loops inside loops
    CONSUME = {
        'twice-eq': (lambda x: f"({x}) (ㄱㅇㄱ ㄱㅇㄱ ㄴㅎㄷ ㅎ) ㅎㄴ", lambda w: "True"),
        'twice-list': (lambda x: f"({x}) (ㄱㅇㄱ ㄱㅇㄱ ㄱㅇㄱ ㅁㄹㅎㄹ ㅎ) ㅎㄴ", lambda w: f"[{w}, {w}, {w}]"),
        'first-operand': (lambda x: f"({x}) ({x}) ㄴㅎㄷ", lambda w: "True"),
    }
    for name, mk in TAIL.items():
        for n in ([600, 10 ** 4] if tier == 'quick' else [600, 3000, 10 ** 4, 10 ** 5]):
            prog, want = mk(n)
            for cname, (wrap, exp) in CONSUME.items():
                if name == 'rbind' and cname in ('twice-list', 'first-operand'):
                    continue                      # actions: printed unexecuted / compared by identity — C07's business
                yield Case(program=wrap(prog), tag=f'{name}+{cname}', monitor='c05_value', data=(name, exp(want), False), format_io=True,
                           timeout=600, fuel=1000 * n + 10 ** 6, nontrivial=True)
    # an outer tail loop that consumes an inner tail loop's result in every round: g(m) = m == 0 ? 0 : g(m - 1 + f(n))
    for m, n in ([(30, 700)] if tier == 'quick' else [(30, 700), (300, 3000), (2000, 600)]):
        inner = countdown(n)[0]
        yield Case(program=f"{enc(m)} ㄱ (((ㄱㅇㄱ ㄴㄱ ({inner}) ㄷㅎㄹ) ㄱㅇ ㅎㄴ)) {COND} ㅎㄷ ㅎ ㅎㄴ".replace("ㄱ (((", "(ㄱ ((").replace(f"{COND} ㅎㄷ ㅎ ㅎㄴ", f"{COND} ㅎㄷ ㅎ) ㅎㄴ"),
                   tag='nested-loops', monitor='c05_value', data=('nested-loops', "0", False), timeout=600, fuel=10 ** 9, nontrivial=True)
    # non-tail recursion across the frame limit: implementation and model must agree exactly on
    # which depth first reports the limit
    depths = [10, 100, 1000, 2000, 2400, 2480, 2490, 2495, 2496, 2497, 2498, 2499, 2500, 2501, 2502, 2505, 2520, 2600, 3000, 4990, 5000, 5010, 6000]
    if tier != 'quick':
        depths += list(range(2440, 2560)) + [rng.randint(1000, 8000) for _ in range(40)]
    for n in depths:
        prog, want = nontail(n)
        yield Case(program=prog, tag='nontail', monitor='c05_value', data=('nontail', want, True), timeout=120, fuel=4 * 10 ** 7)
    # after the evaluator has reported its limit (and after a caught / uncaught exception deep in the stack), in the same
    # process, loops and recursions below the limit run as if nothing had happened (seeded change S05h counted frames in a
    # process-wide counter that an aborted evaluation never gave back)
    too_deep = nontail(6000)[0]
    deep_throw = f"{enc(3000)} (ㄴ ㄷㅂㅎㄴ ㄷㅈㅎㄴ) (ㄱㅇㄱ ((ㄱㅇㄱ ㄴㄱ ㄷㅎㄷ) ㄱㅇ ㅎㄴ) ㄷㅎㄷ) {COND} ㅎㄷ ㅎ ㅎㄴ"
    for pre_name, pre in (('after-limit', (too_deep,)), ('after-limit-twice', (too_deep, too_deep)), ('after-deep-throw', (deep_throw,))):
        for name, mk, n in (('countdown', countdown, 10), ('countdown', countdown, 3000), ('accum', accum, 500), ('nontail', nontail, 5),
                            ('nontail', nontail, 2400), ('rbind', rbind, 200)):
            prog, want = mk(n)
            yield Case(program=prog, before=pre, tag=f'{name}-{pre_name}', monitor='c05_value', data=(name, want, False), format_io=True,
                       timeout=120, fuel=400 * n + 10 ** 7, nontrivial=True)
    # host-recursion families (known findings beyond ≈ 500)
    for n in [10, 100, 300] + ([1000] if True else []):
        for name, mk in (('lbind', lbind), ('nestfmt', nestfmt)):
            prog, want = mk(n)
            yield Case(program=prog, tag=name, monitor='c05_value', data=(name, want, True), timeout=120, fuel=4 * 10 ** 7)


def relevant(rec, case):
    # where exactly the explicit limit lies is not part of the property (only that it is explicit and allows thousands
    # of frames): an implementation that still computes the (monitored, arithmetically known) value where the model
    # already reports its limit has not failed C05 — that difference is a broken correspondence without a failing input
    d = rec.get('detail', {})
    a, m = d.get('impl', {}), d.get('model', {})
    if a.get('kind') == 'ok' and m.get('kind') == 'limit':
        return False
    return True


SPEC = {
    'lean': ['C05', 'NatSem'],
    'cases': cases,
    'relevant': relevant,
    'stream': 'C05 loop ladder',
    'rule': 'loop shapes self / with accumulator / mutual / via Boolean selection / inside a ㄱㄹ chain / tail call delivered through a helper function, an identity wrapper, or a thunk handed along × iteration counts '
            '10^0…10^4 (quick) …10^6 (thorough) (+ a random offset): must complete with the arithmetically known value, also when the result is afterwards consumed two or three times or by an enclosing loop, '
            'never a host RecursionError; non-tail recursion at depths straddling the frame limit: implementation and '
            'model must agree on every depth whether the explicit limit is reported; left-nested bind / deep printing '
            'families to depth 1000 (recorded findings). Non-trivial = n ≥ 100',
    'trusted': ['the host stack is not represented in the model: recursion-related crashes are exhibited by the ladder only'],
    'assumptions': [],
}
