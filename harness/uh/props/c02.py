"""C02 — core evaluation is the lexically scoped non-strict calculus."""
from .. import gen
from ..corr import Case


def cases(rng, tier):
    n = 1500 if tier == 'quick' else 40000
    g = gen.Gen(rng, max_depth=5 if tier == 'quick' else 6)
    for i in range(n):
        t = g.program()
        yield Case(program=gen.render(t), stdin='', tag='typed', nontrivial=gen.size(t) >= 8)
    # closure-focused families
    for i in range(n // 5):
        yield Case(program=closure_program(rng), tag='closure')


def closure_program(rng):
    """closures returned out of their defining call, invoked elsewhere, sibling closures sharing a frame,
    self / outer references, computed argument positions, negative indices"""
    c = rng.randrange(8)
    a, b, k = rng.randint(-9, 9), rng.randint(-9, 9), rng.randint(0, 3)
    e = gen.enc
    if c == 0:   # adder maker: ((λx. λy. x + y) a) b
        return f"{e(b)} {e(a)} ㄱ ㅇㄴ ㄱ ㅇㄱ ㄷ ㅎㄷ ㅎ ㅎ ㅎㄴ ㅎㄴ"
    if c == 1:   # closure passed through another function before being called
        return f"{e(b)} ({e(a)} ㄱㅇㄴ ㄱㅇㄱ ㄱ ㅎㄷ ㅎ ㅎ ㅎㄴ) (ㄱㅇㄱ ㅎ) ㅎㄴ ㅎㄴ"
    if c == 2:   # self reference: countdown sum
        n = rng.randint(0, 12)
        return f"{e(n)} ㄱ (ㄱㅇㄱ (ㄱㅇㄱ ㄴㄱ ㄷㅎㄷ) ㄱㅇ ㅎㄴ ㄷㅎㄷ) (ㄱㅇㄱ ㄱ ㄴㅎㄷ) ㅎㄷ ㅎ ㅎㄴ"
    if c == 3:   # outer function reference with negative index from inside two levels
        return f"{e(a)} ((ㄱㅇㄴ {e(k)} ㄴㄱㅇ ㅎㄴ ㄷㅎㄷ ㅎ) ㅎㄱ ㄴ ㅎㄴ ㅎ) ㅎㄴ".replace("ㄴ ㅎㄴ ㅎ)", "ㅎ)") \
            if False else f"{e(a)} (ㄱㅇㄱ (ㄱㅇㄴ ㄱㅇㄱ ㄷㅎㄷ ㅎ) ㅎㄴ ㅎ) ㅎㄴ"
    if c == 4:   # computed argument position: argv[argv[0] + 1]
        args = [rng.randint(0, 2)] + [rng.randint(-9, 9) for _ in range(3)]
        return " ".join(e(x) for x in args) + " (ㄱㅇㄱ ㄴ ㄷㅎㄷ ㅇㄱ ㅎ) ㅎㅁ"
    if c == 5:   # sibling closures sharing a frame, selected by a Boolean
        return f"{e(a)} {e(b)} (((ㄱㅇㄴ ㅎ) (ㄴㅇㄴ ㅎ) ({e(a)} {e(b)} ㅈㅎㄷ) ㅎㄷ) ㅎㄱ ㅎ) ㅎㄷ"
    if c == 6:   # partial application through ㅂㅂ / ㅁㅂ
        return f"{e(a)} {e(b)} (ㄷ ㅁㅂㅎㄴ) ㅂㅂㅎㄴ ㅎㄷ"
    return f"{e(a)} {e(b)} ㄷ ㄱ ㄴㄱㅎㄷ ㅎㄷ"


def relevant(rec, case):
    d = rec.get('detail', {})
    a, m = d.get('impl', {}), d.get('model', {})
    # the property is about the value (or the fact of an exception), not about error locations
    if a.get('kind') != m.get('kind'):
        return True
    return a.get('results') != m.get('results')


SPEC = {
    'lean': ['C02'],
    'cases': cases,
    'relevant': relevant,
    'stream': 'C02 typed/closure program stream (main.main result vs uhdrv main)',
    'rule': 'type-directed random closed programs (closures returned / passed / nested ≤ depth, computed and negative '
            'indices, Boolean / list / dict / string callables) plus closure families; a case is non-trivial when its '
            'tree has ≥ 8 nodes; distinct by program text',
    'trusted': ['hand-written model UH/Model/{Interp,Builtins,Machine}.lean tied to the code by correspondence only'],
    'assumptions': ['host big integers = Lean Int; IEEE-754 + − × ÷ of the host on both sides'],
}
