"""C02 — core evaluation is the lexically scoped non-strict calculus."""
from .. import gen
from ..corr import Case


def cases(rng, tier):
    n = 1500 if tier == 'quick' else 40000
    g = gen.Gen(rng, max_depth=5 if tier == 'quick' else 6)
    for i in range(n):
        t = g.program()
        yield Case(program=gen.render(t), stdin='', tag='typed', nontrivial=gen.size(t) >= 8, big=True)
    # closure-focused families
    for i in range(n // 5):
        yield Case(program=closure_program(rng), tag='closure', big=True)
    # one enclosing closure called several times with different arguments: every inner function must
    # see the arguments of *its* defining call (static, computed and outermost-relative references)
    for i in range(n // 2):
        yield Case(program=gen.render(scope_program(rng)), tag='scope', nontrivial=True, big=True)
    for i in range(n // 4):
        yield Case(program=gen.render(fref_program(rng)), tag='fref', nontrivial=True, big=True)
    for i in range(n // 6):
        yield Case(program=identity_program(rng), tag='fn-identity', nontrivial=True, big=True)
    for i in range(n // 3):
        yield Case(program=core_program(rng, rng.randint(2, 5)), tag='core-byname', nontrivial=True, big=True)
    # Euclid's algorithm g(x, y) = (y = 0)(x, g(y, x ㄴㅁ y)) — `ByNameP.evaluator_gcd` proves the evaluator computes gcd a b for
    # every pair of naturals; here the implementation is compared with that value (and with the reference evaluator)
    import math as _math
    for _ in range(12 if tier == 'quick' else 300):
        a_, b_ = rng.choice([(0, 0), (rng.randint(0, 40), rng.randint(0, 40)), (rng.randint(0, 10 ** 6), rng.randint(0, 10 ** 6)),
                             (rng.randint(1, 9) * 2 ** rng.randint(0, 30), rng.randint(1, 9) * 2 ** rng.randint(0, 30))])
        prog = f"{gen.enc(a_)} {gen.enc(b_)} (ㄱㅇㄱ ((ㄴㅇㄱ) (ㄱㅇㄱ ㄴㅇㄱ ㄴㅁㅎㄷ) ㄱㅇ ㅎㄷ) (ㄴㅇㄱ ㄱ ㄴㅎㄷ) ㅎㄷ ㅎ) ㅎㄷ"
        yield Case(program=prog, variants=(gen.enc(_math.gcd(a_, b_)),), tag='gcd', nontrivial=True, big=True)
    for kind, prog in index_programs():
        yield Case(program=prog, tag='index-' + kind, nontrivial=True, big=True)
    # every syntactic form at random (untyped): the model is the oracle, errors included
    for i in range(2 * n):
        t = gen.wild(rng, rng.randint(2, 5))
        yield Case(program=gen.render(t), stdin="w1\nw2\n", tag='wild', nontrivial=gen.size(t) >= 8, timeout=2.0, fuel=400_000, big=True)
    for i in range(n // 2):
        t = scope_program(rng) if rng.random() < 0.5 else g.program()
        yield Case(program=gen.render(bad_reference(rng, t)), tag='badref', nontrivial=True, big=True)


PRODUCERS = ["(ㄱ ㅎ)", "(ㄱㅇㄱ ㅎ)", "(ㄴ ㄷ ㄷㅎㄷ ㅎ)", "((ㄱ ㅎ) ㅎ)", "(ㄱㅇㄱ ㄱㅇㄱ ㄱㅎㄷ ㅎ)"]
PASSERS = ["(ㄱㅇㄱ ㅎ)",                                              # λc. c
           "(ㄱㅇㄱ ㄱㅇㄱ (ㄱㅇㄱ ㄱㅇㄱ ㄴ ㅎㄷ) ㅎㄷ ㅎ)",                  # λc. (c = c)(c, c): hands over an already evaluated argument
           "(ㄴ ㄱㅇㄱ (ㄱㅇㄱ ㄴ ㄴ ㅎㄷ) ㅎㄷ ㅎ)",                        # λc. (c = 1)(1, c)
           "(ㄱㅇㄱ (ㄱㅇㄱ ㅎ) ㅎㄴ ㅎ)",                                 # λc. (λd. d)(c)
           "(ㄱㅇㄱ (ㄱㅇㄱ ㄱㅇㄱ (ㄱㅇㄱ ㄱㅇㄱ ㄴ ㅎㄷ) ㅎㄷ ㅎ) ㅎㄴ ㅎ)",    # λc. PICK(c)
           "((ㄱㅇㄱ ㅁㄹㅎㄴ) ㄱ (ㄱㅇㄱ ㄱㅇㄴ ㅎㄴ ㅎ) ㅎㄷ ㅎ)"]             # λc. (λl i. l(i))([c], 0)
OBSERVERS = ["(ㄱㅇㄱ ㄱㅇㄱ ㄴ ㅎㄷ ㅎ)",                                 # λa. a = a           (the same object: True)
             "(ㄱㅇㄱ ㅎㄱ ㅎ)",                                        # λa. a()
             "(ㄱㅇㄱ (ㄱㅇㄱ ㄴ ㅅㅈㅎㄷ) ㅎㄴ ㅎ)",                          # λa. {a: 1}(a)       (a key finds itself)
             "((ㄱㅇㄱ ㅁㄹㅎㄴ) (ㄱㅇㄱ ㅁㄹㅎㄴ) ㄴ ㅎㄷ ㅎ)"]                   # λa. [a] = [a]


def index_programs():
    """every sequence-like callable × length 0–3 × every position from −len−3 to len+2, called directly and through a closure:
    positions −len … len−1 select, every other position is the out-of-range exception (seeded change S02h let a string
    position below −len wrap to the first character)"""
    from ..gen import lit, bi, call, fundef, arg, render, str_lit, bytes_lit
    for n in range(0, 4):
        seqs = {'list': bi('ㅁㄹ', *[lit(10 + i) for i in range(n)]), 'str': str_lit("가b😀d"[:n]), 'bytes': bytes_lit(b"\x00ab\xff"[:n]),
                'exc': bi('ㄷㅂ', *[lit(20 + i) for i in range(n)])}
        for kind, e in seqs.items():
            for i in range(-n - 3, n + 3):
                yield kind, render(call(e, lit(i)))
                yield kind + '-closure', render(call(fundef(call(arg(1), arg(0))), lit(i), e))


def core_program(rng, depth=4):
    """a random closed program of the fragment of the call-by-name reference semantics (ByName.BN): integer literals, function
    definitions and calls, argument references with static and computed positions into any enclosing frame, the Boolean
    constants, Boolean selection, ㄴ / ㄷ / ㄱ / ㅈ on two integers, list construction ㅁㄹ and selection from a list (literal or parameter; the
    other elements may be anything) — typed, so that most programs have a value"""
    from ..gen import enc
    def gint(d, scope):
        c = rng.random()
        ints = [(fi, pi) for fi, fr in enumerate(reversed(scope)) for pi, ty in enumerate(fr) if ty == 'int']
        if d <= 0 or c < 0.2:
            if ints and rng.random() < 0.6:
                fi, pi = rng.choice(ints)
                return f"{enc(pi)}ㅇ{enc(fi)}"
            return enc(rng.randint(-9, 30))
        if c < 0.33:
            return f"({gint(d - 1, scope)} {gint(d - 1, scope)} ㄷㅎㄷ)"
        if c < 0.4:
            return f"({gint(d - 1, scope)} {gint(d - 1, scope)} ㄱㅎㄷ)"
        if c < 0.43:              # remainder by a non-zero literal / by an arbitrary integer expression (zero: an exception, no by-name value)
            dv = enc(rng.choice([1, 2, 3, 7, -2, -5, 10])) if rng.random() < 0.8 else gint(d - 1, scope)
            return f"({gint(d - 1, scope)} {dv} ㄴㅁㅎㄷ)"
        if c < 0.55:
            return f"({gint(d - 1, scope)} {gint(d - 1, scope)} {gbool(d - 1, scope)} ㅎㄷ)"
        lists = [(fi, pi, ty) for fi, fr in enumerate(reversed(scope)) for pi, ty in enumerate(fr) if isinstance(ty, tuple)]
        if c < 0.58:              # the length of a list (literal or parameter): none of its elements is evaluated
            if lists and rng.random() < 0.5:
                fi, pi, _ = rng.choice(lists)
                return f"({enc(pi)}ㅇ{enc(fi)} ㅈㄷㅎㄴ)"
            return f"({glist(d - 1, scope)[0]} ㅈㄷㅎㄴ)"
        if c < 0.63:              # selection from a list literal / a list parameter: only the selected element is evaluated
            if lists and rng.random() < 0.5:
                fi, pi, (_, n_, good) = rng.choice(lists)
                lst = f"{enc(pi)}ㅇ{enc(fi)}"
            else:
                lst, (_, n_, good) = glist(d - 1, scope)
            k = rng.choice(good)
            idx = k if rng.random() < 0.6 else k - n_
            return f"({enc(idx) if rng.random() < 0.7 else '(' + enc(idx) + ' ㄱ ㄷㅎㄷ)'} {lst} ㅎㄴ)"
        if c < 0.7 and ints:      # computed position: (p + 0) selects parameter p of that frame
            fi, pi = rng.choice(ints)
            return f"(({enc(pi)} ㄱ ㄷㅎㄷ) ㅇ{enc(fi)})"
        # a call of a function defined on the spot, with 1–3 parameters (some of them never used: they may even be ill-typed)
        k = rng.randint(1, 3)
        tys, args = [], []
        for _ in range(k):
            ty = rng.choice(['int', 'int', 'bool', 'list'])
            if ty == 'list':
                a, ty = glist(d - 1, scope)
            else:
                a = gint(d - 1, scope) if ty == 'int' else gbool(d - 1, scope)
            tys.append(ty); args.append(a)
        body = gint(d - 1, scope + [tys])
        return f"({' '.join(args)} ({body} ㅎ) ㅎ{enc(k)})"
    def glist(d, scope):
        # a list literal of 1–4 elements; the elements at the `good` positions are integers, the others anything at all —
        # failing, ill-typed, Booleans — since nobody may select them
        n_ = rng.randint(1, 4)
        good = sorted(rng.sample(range(n_), rng.randint(1, n_)))
        JUNK = ["(ㄴ ㄷㅂㅎㄴ ㄷㅈㅎㄴ)", "(ㄴ ㄱ ㄴㄴㅎㄷ)", "(ㅈㅈㅎㄱ)", "(ㄱ ㄴ ㅎㄴ)", "(ㅈㅈㅈㅈㅈ ㅎㄱ)"]
        elems = [gint(d - 1, scope) if i in good else rng.choice(JUNK) for i in range(n_)]
        return f"({' '.join(elems)} ㅁㄹㅎ{enc(n_)})", ('list', n_, good)
    def gbool(d, scope):
        c = rng.random()
        bools = [(fi, pi) for fi, fr in enumerate(reversed(scope)) for pi, ty in enumerate(fr) if ty == 'bool']
        if d <= 0 or c < 0.3:
            if bools and rng.random() < 0.6:
                fi, pi = rng.choice(bools)
                return f"{enc(pi)}ㅇ{enc(fi)}"
            return rng.choice(["(ㅈㅈㅎㄱ)", "(ㄱㅈㅎㄱ)"])
        if c < 0.55:
            return f"({gint(d - 1, scope)} {gint(d - 1, scope)} ㄴㅎㄷ)"
        if c < 0.7:
            return f"({gint(d - 1, scope)} {gint(d - 1, scope)} ㅈㅎㄷ)"
        return f"({gbool(d - 1, scope)} {gbool(d - 1, scope)} {gbool(d - 1, scope)} ㅎㄷ)"
    return gint(depth, []) if rng.random() < 0.8 else gbool(depth, [])


def identity_program(rng):
    """a function value travels through 1–3 functions that hand it over in tail position — also after it has been
    evaluated (a Boolean selection on `c = c`) — and is then compared with itself / used as a key / called: it must
    still be *that very function*, evaluated once (seeded change S02g lost the memo of such call expressions)"""
    def produced():
        e = rng.choice(PRODUCERS)
        for _ in range(rng.randint(1, 3)):
            e = f"({e} {rng.choice(PASSERS)} ㅎㄴ)"
        return e
    if rng.random() < 0.25:   # two separately produced functions are different objects
        return f"{produced()} {produced()} (ㄱㅇㄱ ㄴㅇㄱ ㄴ ㅎㄷ ㅎ) ㅎㄷ"
    return f"{produced()} {rng.choice(OBSERVERS)} ㅎㄴ"


def closure_program(rng):
    """closures returned out of their defining call, invoked elsewhere, sibling closures sharing a frame,
    self / outer references, computed argument positions, negative indices"""
    c = rng.randrange(8)
    a, b, k = rng.randint(-9, 9), rng.randint(-9, 9), rng.randint(0, 3)
    e = gen.enc
    if c == 0:   # adder maker: ((λx. λy. x + y) a) b
        return f"{e(b)} {e(a)} ㄱ ㅇㄴ ㄱ ㅇㄱ ㄷ ㅎㄷ ㅎ ㅎ ㅎㄴ ㅎㄴ"
    if c == 1:   # closure passed through another function before being called
        return f"{e(b)} ({e(a)} ㄱㅇㄴ ㄱㅇㄱ ㄱ ㅎㄷ ㅎ ㅎ ㅎㄴ) (ㄱㅇㄱ ㅎ) ㅎㄴ ㅎㄴ"
    if c == 2:   # self reference: countdown sum
        n = rng.randint(0, 12)
        return f"{e(n)} ㄱ (ㄱㅇㄱ (ㄱㅇㄱ ㄴㄱ ㄷㅎㄷ) ㄱㅇ ㅎㄴ ㄷㅎㄷ) (ㄱㅇㄱ ㄱ ㄴㅎㄷ) ㅎㄷ ㅎ ㅎㄴ"
    if c == 3:   # outer function reference with negative index from inside two levels
        return f"{e(a)} ((ㄱㅇㄴ {e(k)} ㄴㄱㅇ ㅎㄴ ㄷㅎㄷ ㅎ) ㅎㄱ ㄴ ㅎㄴ ㅎ) ㅎㄴ".replace("ㄴ ㅎㄴ ㅎ)", "ㅎ)") \
            if False else f"{e(a)} (ㄱㅇㄱ (ㄱㅇㄴ ㄱㅇㄱ ㄷㅎㄷ ㅎ) ㅎㄴ ㅎ) ㅎㄴ"
    if c == 4:   # computed argument position: argv[argv[0] + 1]
        args = [rng.randint(0, 2)] + [rng.randint(-9, 9) for _ in range(3)]
        return " ".join(e(x) for x in args) + " (ㄱㅇㄱ ㄴ ㄷㅎㄷ ㅇㄱ ㅎ) ㅎㅁ"
    if c == 5:   # sibling closures sharing a frame, selected by a Boolean
        return f"{e(a)} {e(b)} (((ㄱㅇㄴ ㅎ) (ㄴㅇㄴ ㅎ) ({e(a)} {e(b)} ㅈㅎㄷ) ㅎㄷ) ㅎㄱ ㅎ) ㅎㄷ"
    if c == 6:   # partial application through ㅂㅂ / ㅁㅂ
        return f"{e(a)} {e(b)} (ㄷ ㅁㅂㅎㄴ) ㅂㅂㅎㄴ ㅎㄷ"
    return f"{e(a)} {e(b)} ㄷ ㄱ ㄴㄱㅎㄷ ㅎㄷ"


def scope_program(rng):
    """F = λ k… . [λ j… .] λ a0…a(q-1). BODY, where BODY mentions the outer (index) parameters statically,
    as *computed positions* into its own frame (`a[k]`, `a[k+c]`), from a further nested immediately
    applied function, or through outermost-relative frame numbers; F is then applied along several
    different argument paths that share the enclosing closures (through a parameter, through ㅁㄷ,
    through a partially applied intermediate, or recursively)."""
    from ..gen import lit, call, bi, fundef, arg, funref
    L = rng.choice([2, 2, 3])
    q = rng.randint(2, 4)
    m = rng.randint(0, q - 1)                      # index values are in [0, m]
    nidx = [rng.randint(1, 2) for _ in range(L - 1)]

    def relof(level, inner_extra):                 # frame number of `level` seen from the body (+ extra nesting)
        rel = (L - 1 - level) + inner_extra
        if rng.random() < 0.2:
            return -(level + 1)                    # the same frame counted from the outermost
        return rel

    def idx_ref(extra):
        lv = rng.randrange(L - 1)
        return arg(rng.randrange(nidx[lv]), relof(lv, extra))

    def body(depth, extra):
        c = rng.random()
        own = 0 + extra if rng.random() < 0.8 else -(L + 0)      # own frame of the int parameters
        own = extra
        if depth >= 3 or c < 0.15:
            return arg(rng.randrange(q), own) if rng.random() < 0.6 else lit(rng.randint(-5, 5))
        if c < 0.45:                               # computed position from an outer index parameter
            k = idx_ref(extra)
            cc = rng.randint(0, q - 1 - m)
            pos = k if cc == 0 or rng.random() < 0.5 else bi('ㄷ', k, lit(cc))
            return arg(pos, own)
        if c < 0.55:                               # static outer use
            return idx_ref(extra)
        if c < 0.65:                               # computed position from the own frame (control)
            return arg(bi('ㄷ', lit(rng.randrange(q) - 1), lit(1)), own)
        if c < 0.80 and extra < 2:                 # a further nested function applied on the spot
            inner = fundef(body(depth + 1, extra + 1))
            if rng.random() < 0.5:
                return call(inner, *[body(depth + 2, extra) for _ in range(q)])
            # … or selected lazily by a Boolean among two nested functions
            other = fundef(body(depth + 1, extra + 1))
            sel = call(bi('ㅈ', body(depth + 2, extra), body(depth + 2, extra)), inner, other)
            return call(sel, *[body(depth + 2, extra) for _ in range(q)])
        op = rng.choice(['ㄷ', 'ㄱ'])
        return bi(op, body(depth + 1, extra), body(depth + 1, extra))

    # own: the q-ary function's frame is `extra` levels out when referenced from nested bodies; patch `arg`
    # uses above: own-frame references use rel = extra (0 in the body itself)
    F = body(0, 0)
    F = fundef(F)
    for lv in range(L - 2, -1, -1):
        F = fundef(F)

    def xs():
        return [lit(rng.randint(-9, 9)) for _ in range(q)]

    def ks(lv):
        return [lit(rng.randint(0, m)) for _ in range(nidx[lv])]

    f = lambda rel: arg(0, rel)
    items = []
    for _ in range(rng.randint(2, 4)):
        w = rng.random()
        if L == 2:
            if w < 0.5:
                items.append(call(call(f(0), *ks(0)), *xs()))
            elif w < 0.8 and nidx[0] == 1:
                vals = [lit(rng.randint(0, m)) for _ in range(rng.randint(2, 4))]
                x = xs()
                items.append(bi('ㅁㄷ', bi('ㅁㄹ', *vals), fundef(call(call(f(1), arg(0, 0)), *x))))
            else:                                  # the same inner closure applied to two argument lists
                items.append(call(fundef(bi('ㅁㄹ', call(arg(0, 0), *xs()), call(arg(0, 0), *xs()))),
                                  call(f(0), *ks(0))))
        else:
            if w < 0.4:
                items.append(call(call(call(f(0), *ks(0)), *ks(1)), *xs()))
            else:                                  # partially applied intermediate shared by two paths
                x = xs()
                items.append(call(fundef(bi('ㅁㄹ', call(call(arg(0, 0), *ks(1)), *x),
                                            call(call(arg(0, 0), *ks(1)), *x))),
                                  call(f(0), *ks(0))))
    prog = call(fundef(bi('ㅁㄹ', *items)), F)
    if L == 2 and nidx[0] == 1 and rng.random() < 0.25:
        # recursive enclosing function: G(n) = n < 0 ? 0 : F-body-with-k=n (xs) + G(n-1)
        x = xs()
        inner = F[1]                               # λ a… . BODY, its index frame is G's frame
        G = fundef(call(bi('ㅈ', arg(0, 0), lit(0)), lit(0),
                        bi('ㄷ', call(inner, *x), call(funref(0), bi('ㄷ', arg(0, 0), lit(-1))))))
        prog = call(G, lit(m))
    return prog


def fref_program(rng):
    """d nested unary functions (d = 2 … 4); the innermost one calls one of the enclosing functions — any level,
    named by a positive index (counted from the innermost) or the equivalent negative one (counted from the
    outermost) — with a decremented counter.  Every level has its own base value, so calling the wrong function
    changes the result."""
    from ..gen import lit, call, bi, fundef, arg, funref
    d = rng.randint(2, 4)
    j = rng.randrange(d)                                   # the level that is called back
    ref = (d - 1 - j) if rng.random() < 0.4 else -(j + 1)
    as_value = rng.random() < 0.3                          # the reference passed through an identity function first
    bases = [rng.randint(10, 99) * (lv + 1) for lv in range(d)]

    def level(lv):
        if lv == d - 1:
            callee = funref(ref)
            if as_value:
                callee = call(fundef(arg(0)), callee)
            body = bi('ㄷ', bi('ㄱ', arg(0), lit(lv + 2)), call(callee, bi('ㄷ', arg(0), lit(-1))))
        else:
            body = call(fundef(level(lv + 1)), arg(0))
        return call(bi('ㅈ', arg(0), lit(1)), lit(bases[lv]), body)

    return call(fundef(level(0)), lit(rng.randint(0, 6)))


def bad_reference(rng, t):
    """one argument / function reference of the program replaced by an ill-scoped one — negative or too large a
    position, a frame that does not exist — wherever it stands (call argument, callee, body, nested): the
    reference must fail exactly when it is evaluated, never resolve to some other frame slot"""
    paths = []

    def walk(n, path):
        if n[0] in ('arg', 'fref'):
            paths.append(path)
        if n[0] == 'call':
            walk(n[1], path + (1,))
            for i, a in enumerate(n[2]):
                walk(a, path + (2, i))
        elif n[0] == 'def':
            walk(n[1], path + (1,))
        elif n[0] == 'arg':
            walk(n[1], path + (1,))
    walk(t, ())
    if not paths:
        return t
    direct = [p for p in paths if len(p) >= 2 and p[-2] == 2]       # references standing directly as a call argument
    target = rng.choice(direct) if direct and rng.random() < 0.6 else rng.choice(paths)

    def rebuild(n, path):
        if not path:
            if n[0] == 'arg':
                k = rng.choice([0, 0, 0, 1, 2, 3])
                if k == 0: return ('arg', gen.lit(-rng.randint(1, 3)), n[2])          # negative position
                if k == 1: return ('arg', gen.lit(rng.randint(4, 9)), n[2])           # position beyond the frame
                if k == 2: return ('arg', n[1], n[2] + rng.randint(3, 9))             # frame further out than exists
                return ('arg', n[1], -(rng.randint(5, 9)))                            # … counted from the outermost
            return ('fref', rng.choice([rng.randint(5, 9), -rng.randint(5, 9)]))
        if n[0] == 'call':
            if path[0] == 1:
                return ('call', rebuild(n[1], path[1:]), n[2])
            args = list(n[2])
            args[path[1]] = rebuild(args[path[1]], path[2:])
            return ('call', n[1], args)
        if n[0] == 'def':
            return ('def', rebuild(n[1], path[1:]))
        if n[0] == 'arg':
            return ('arg', rebuild(n[1], path[1:]), n[2])
        return n
    return rebuild(t, target)


def relevant(rec, case):
    d = rec.get('detail', {})
    a, m = d.get('impl', {}), d.get('model', {})
    # the property is about the value (or the fact of an exception), not about error locations
    if a.get('kind') != m.get('kind'):
        return True
    return a.get('results') != m.get('results')


SPEC = {
    'lean': ['C02', 'NatSem', 'ByName'],
    'cases': cases,
    'relevant': relevant,
    'stream': 'C02 typed/closure program stream (main.main result vs uhdrv main)',
    'rule': 'type-directed random closed programs (closures returned / passed / nested ≤ depth, computed and negative '
            'indices, Boolean / list / dict / string callables) plus the wild family (untyped random trees over every syntactic form: references in and out of range, any function index, definitions, built-ins at typical and untypical arities, arbitrary callees), closure families, the fref family (2–4 nested functions, the innermost calling any enclosing level by positive or negative function index, directly or through an identity), the fn-identity family (a function value handed on in tail position by 1–3 functions — also after it was evaluated — then compared with itself, used as a dictionary key, called), the core-byname family (random typed programs of the fragment of the call-by-name reference semantics: literals, definitions, calls with unused parameters, static / computed argument references into any frame, Boolean constants and selection, ㄴ / ㄷ on integers — each also evaluated by the reference evaluator bnEval), the index family (list / string / byte string / exception of length 0–3 called with every position from −len−3 to len+2, directly and through a closure), the badref family (one reference made ill-scoped: negative / too large position, non-existent frame) and the scope family (one enclosing closure applied along several argument paths; inner bodies refer to outer parameters statically, as computed positions, from nested functions, outermost-relative); a case is non-trivial when its '
            'tree has ≥ 8 nodes; distinct by program text',
    'trusted': ['hand-written model UH/Model/{Interp,Builtins,Machine}.lean tied to the code by correspondence only'],
    'assumptions': ['host big integers = Lean Int; IEEE-754 + − × ÷ of the host on both sides'],
}
