"""Shared constants / helpers of the correspondence harness."""
import os, json, time, hashlib

VERIF = os.path.dirname(os.path.dirname(os.path.dirname(os.path.abspath(__file__))))
REPO = os.environ.get('UH_REPO', '/repo')
LEAN_DIR = os.path.join(VERIF, 'lean')
UHDRV = os.path.join(LEAN_DIR, '.lake', 'build', 'bin', 'uhdrv')
DEFAULT_FUEL = 3_000_000

def hx(s: str) -> str:
    b = s.encode('utf-8')
    return b.hex() if b else '-'

def hxb(b: bytes) -> str:
    return b.hex() if b else '-'

def unhx(h: str) -> str:
    return '' if h == '-' else bytes.fromhex(h).decode('utf-8')

def unhxb(h: str) -> bytes:
    return b'' if h == '-' else bytes.fromhex(h)

def seed_for(base: int, *parts) -> int:
    h = hashlib.sha256(("%d|" % base + "|".join(map(str, parts))).encode()).digest()
    return int.from_bytes(h[:8], 'big')
