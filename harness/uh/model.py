"""Talks to the compiled Lean model driver (`uhdrv`) through its line protocol."""
import subprocess, os
from .common import UHDRV, hx, hxb, unhx, unhxb, DEFAULT_FUEL


class Driver:
    def __init__(self):
        if not os.path.exists(UHDRV):
            raise RuntimeError(f"model driver not built: {UHDRV} (run ./setup.sh)")
        self.p = subprocess.Popen([UHDRV], stdin=subprocess.PIPE, stdout=subprocess.PIPE,
                                  text=True, encoding='utf-8', bufsize=1)

    def ask(self, line: str, timeout: float = None) -> str:
        self.p.stdin.write(line + "\n")
        self.p.stdin.flush()
        if timeout is not None:
            # a budget for this answer (the by-name reference evaluator re-evaluates shared arguments: exponential on sharing
            # families): when it is used up the driver is killed and the caller restarts it
            import select
            ready, _, _ = select.select([self.p.stdout], [], [], timeout)
            if not ready:
                self.p.kill()
                raise RuntimeError("model driver died on (budget used up): " + line[:200])
        out = self.p.stdout.readline()
        if not out:
            raise RuntimeError("model driver died on: " + line[:200])
        return out.rstrip("\n")

    def close(self):
        try:
            self.p.stdin.close()
            self.p.wait(timeout=2)
        except Exception:
            self.p.kill()


_DRV = None


def driver() -> Driver:
    global _DRV
    if _DRV is None:
        _DRV = Driver()
        import atexit
        atexit.register(_DRV.close)
    return _DRV


def fs_spec(fs) -> str:
    if not fs:
        return '-'
    ents = []
    for path, content in fs.items():
        ents.append(f"d:{hx(path)}" if content is None else f"f:{hx(path)}:{hxb(content)}")
    return ";".join(ents)


def _parse_world(fields, res):
    for f in fields:
        if f.startswith('out='):
            res['out'] = unhx(f[4:])
        elif f.startswith('in='):
            res['rest'] = unhx(f[3:])
        elif f.startswith('fs='):
            spec = f[3:]
            fs = {}
            if spec != '-':
                for ent in spec.split(';'):
                    parts = ent.split(':')
                    if parts[0] == 'f':
                        fs[unhx(parts[1])] = unhxb(parts[2])
            res['fs'] = fs
        elif f.startswith('events='):
            evs = []
            if f[7:]:
                for e in f[7:].split(','):
                    kind = e[0]
                    d, sp = e[1:].split('@')
                    failed = sp.endswith('!')
                    sp = sp.rstrip('!')
                    l, c0, c1 = map(int, sp.split(':'))
                    evs.append((kind, int(d), (l, c0, c1)) + ((failed,) if kind == 'A' else ()))
            res['events'] = evs
        elif f.startswith('height='):
            res['height'] = int(f[7:])
        elif f.startswith('starts='):
            res['starts'] = int(f[7:])
        elif f.startswith('cells='):
            res['cells'] = int(f[6:])


def _parse_outcome(line: str):
    parts = line.split(' ')
    res = {}
    k = parts[0]
    if k == 'ok':
        n = int(parts[1])
        res = {'kind': 'ok', 'results': [unhx(h) for h in parts[2:2 + n]]}
        rest = parts[2 + n:]
    elif k == 'exit':
        res = {'kind': 'exit', 'code': int(parts[1])}
        rest = parts[2:]
    elif k == 'err':
        spans = []
        sp = parts[2][len('spans='):]
        if sp:
            spans = [tuple(map(int, s.split(':'))) for s in sp.split(';')]
        res = {'kind': 'err', 'err': unhx(parts[1]), 'spans': spans}
        rest = parts[3:]
    elif k == 'unmodelled':
        res = {'kind': 'unmodelled', 'why': unhx(parts[1])}
        rest = parts[2:]
    elif k in ('limit', 'fuel', 'bottom'):
        res = {'kind': k}
        rest = parts[1:]
    else:
        raise RuntimeError("unexpected model answer: " + line[:300])
    _parse_world(rest, res)
    return res


def run_main(program: str, stdin: str = '', fs=None, format_io: bool = True, fuel: int = DEFAULT_FUEL,
             events: bool = False):
    line = f"main {1 if format_io else 0} {fuel} {hx(stdin)} {fs_spec(fs)} {hx(program)}" + (" events" if events else "")
    return _parse_outcome(driver().ask(line))


def run_main_big(program: str, stdin: str = '', fs=None, format_io: bool = True, fuel: int = 20000):
    """the same front end through the executable big-step evaluator `evalF` (driver command main2); `fuel` bounds the
    depth of the derivation, not the number of steps"""
    global _DRV
    line = f"main2 {1 if format_io else 0} {fuel} {hx(stdin)} {fs_spec(fs)} {hx(program)}"
    try:
        return _parse_outcome(driver().ask(line))
    except RuntimeError as e:
        if 'died' not in str(e):
            raise
        # evalF is not tail recursive: a very deep derivation can exhaust the driver's native stack; that is a limit of
        # this executable form, not an outcome — restart the driver and report 'fuel'
        try: _DRV.p.kill()
        except Exception: pass
        _DRV = None
        return {'kind': 'fuel', 'why': 'native stack of the big-step evaluator'}


def run_bn(program: str, fuel: int = 4000):
    """the call-by-name reference semantics on trees (driver command bn): the printed form of the integer / Boolean value of
    a single-expression program of the fragment, 'fn' for a function value, or None (outside the fragment / out of fuel)"""
    global _DRV
    try:
        out = driver().ask(f"bn {fuel} {hx(program)}", timeout=8.0)
    except RuntimeError as e:
        if 'died' not in str(e):
            raise
        try: _DRV.p.kill()
        except Exception: pass
        _DRV = None
        return None
    if out.startswith('int ') or out.startswith('bool ') or out.startswith('list '):
        return out.split(' ', 1)[1]
    return 'fn' if out == 'fn' else None


def run_cli(program: str, argv, stdin: str = '', fs=None, fuel: int = DEFAULT_FUEL):
    line = f"cli {fuel} {hx(stdin)} {fs_spec(fs)} {hx(program)}" + "".join(" " + hx(a) for a in argv)
    return _parse_outcome(driver().ask(line))


def norm(cp: int):
    s = driver().ask(f"norm {cp}")
    return tuple(int(x) for x in s.split()) if s else ()


def parse(text: str) -> str:
    return driver().ask(f"parse {hx(text)}")


def tok(text: str) -> str:
    return driver().ask(f"tok {hx(text)}")


def num_parse(digits: str) -> int:
    return int(driver().ask(f"num.parse {digits}"))


def num_encode(n: int) -> str:
    return driver().ask(f"num.encode {n}")
